(** C18 on the handler model (Hdl.v) and the endpoint model (Endpoint.v) - under load, no responder state or
    Diffie-Hellman work without a valid cookie (property theorems only; proofs in HdlCookie.v).
    [E] (cryptography, serialisation, address packing), states, messages, tapes and tables are arbitrary.
    Vocabulary first ([C18H_def_*]), then (1) the responder's check, (2) binding, (3) the dispatcher,
    (4) the initiator's retry, then non-vacuity instances. *)
From Coq Require Import ZArith NArith Bool List.
From RecordUpdate Require Import RecordSet.
From VLib Require Import Bytes.
From IkeSa Require Import Gen.IkeFacts Shell Hdl HdlAuth HdlAgree HdlNego Endpoint EndpointSad HdlCookie.
Import ListNotations RecordSetNotations.
Open Scope Z_scope.

(* ------------------------------------------------------------------------------------------------ *)
(** * Vocabulary *)

Theorem C18H_def_cookie_for :
  forall E sec spi n addr,
  cookie_for E sec spi n addr = e_cookie E sec (be_encode 8 (Z.to_N spi) ++ n ++ e_addr_packed E addr).
Proof. exact def_cookie_for. Qed.
Print Assumptions C18H_def_cookie_for.

Theorem C18H_def_cookie_input :
  forall E spi n addr, cookie_input E spi n addr = be_encode 8 (Z.to_N spi) ++ n ++ e_addr_packed E addr.
Proof. exact def_cookie_input. Qed.
Print Assumptions C18H_def_cookie_input.

Theorem C18H_def_presented :
  forall m : pmsg body,
  presented m = match get_notifies m N_COOKIE false with P_NOTIFY _ _ _ d :: _ => Some d | _ => None end.
Proof. exact def_presented. Qed.
Print Assumptions C18H_def_presented.

Theorem C18H_def_has_triple :
  forall (m : pmsg body) enc n,
  has_triple m enc n <->
  get_payloads m K_SA enc <> [] /\ hd_error (get_payloads m K_NONCE enc) = Some (P_NONCE n) /\ get_payloads m K_KE enc <> [].
Proof. exact def_has_triple. Qed.
Print Assumptions C18H_def_has_triple.

Theorem C18H_def_cookie_reply :
  forall ck, cookie_reply ck = ([P_NOTIFY PROTO_NONE N_COOKIE [] ck], []).
Proof. exact def_cookie_reply. Qed.
Print Assumptions C18H_def_cookie_reply.

Theorem C18H_def_cookie_datagram :
  forall spi_i spi_r mid ck,
  cookie_datagram spi_i spi_r mid ck
  = mk_dgram (mk_hdr spi_i spi_r GEN_MAJOR GEN_MINOR EX_IKE_SA_INIT true false mid) ([P_NOTIFY PROTO_NONE N_COOKIE [] ck], []).
Proof. exact def_cookie_datagram. Qed.
Print Assumptions C18H_def_cookie_datagram.

Theorem C18H_def_view :
  forall w s, view w s = if w then new_sa s else Some (co s).
Proof. exact def_view. Qed.
Print Assumptions C18H_def_view.

Theorem C18H_def_ike_nego_request_unchecked :
  forall E w (m : pmsg body) enc old,
  ike_nego_request_unchecked E w m enc old =
  (psa <- get_payload m K_SA enc ;;
   pn <- get_payload m K_NONCE enc ;;
   pke <- get_payload m K_KE enc ;;
   c <- getw w ;;
   ch0 <- select_best (cf_prop (cfg c)) (sa_props psa) ;;
   let ch := if nonempty (pr_spi ch0) then ch0 <| pr_spi := my_spi_b c |> else ch0 in
   modw w (fun c => c <| chosen := Some ch |>) ;;;
   nr <- fresh_nonce ;;
   dht <- get_transform ch T_DH ;;
   let '(ke_g, ke_d) := ke_of pke in
   (if Z.eqb (tr_id dht) ke_g then ret tt else raise (X_InvalidKe (tr_id dht))) ;;;
   hp <- draw_dh ke_g ;;
   secret <- of_opt (e_dh_secret E ke_g (fst hp) ke_d) X_Other ;;
   gen_keys E w ch (nonce_of pn) nr (peer_spi_b c) (my_spi_b c) secret old ;;;
   ret [P_SA [ch]; P_NONCE nr; P_KE ke_g (snd hp)]).
Proof. exact def_ike_nego_request_unchecked. Qed.
Print Assumptions C18H_def_ike_nego_request_unchecked.

Theorem C18H_def_disarm :
  forall w s,
  disarm w s = if w then s <| new_sa := option_map (fun c => c <| cookie_secret := None |>) (new_sa s) |>
               else s <| co := (co s) <| cookie_secret := None |> |>.
Proof. exact def_disarm. Qed.
Print Assumptions C18H_def_disarm.

Theorem C18H_def_retry_state :
  forall s ck ex ps,
  retry_state s ck ex ps
  = s <| co := (co s) <| request := Some (ex, ck :: ps) |>
                      <| init_req := Some (hdr_of (co s) ex false 0, body_of ex (ck :: ps)) |>
                      <| my_msg_id_reset := true |> |>.
Proof. exact def_retry_state. Qed.
Print Assumptions C18H_def_retry_state.

Theorem C18H_def_auth_over :
  forall E a cp octets pa,
  auth_over E a cp octets pa <->
  pa = P_AUTH AUTH_RSA (e_sign E octets) \/
  exists psk, a_psk a = Some psk /\ pa = P_AUTH AUTH_PSK (e_prf E cp (e_prf E cp psk KEYPAD) octets).
Proof. exact def_auth_over. Qed.
Print Assumptions C18H_def_auth_over.

Theorem C18H_def_fresh_core :
  forall ii cf my peer pspi spi j tnow,
  fresh_core ii cf my peer pspi spi j tnow
  = mk_core ST_INITIAL ii spi pspi my peer cf None None None [] None None None None None None None None
            (tnow + cf_dpd cf) (tnow + cf_life cf + j) (tnow + cf_life cf + j + DELETE_AFTER) false.
Proof. exact def_fresh_core. Qed.
Print Assumptions C18H_def_fresh_core.

Theorem C18H_def_halfopen :
  forall E (t : list (nat * Endpoint.esa E)),
  halfopen E t = Z.of_nat (length (filter (fun x => Z.ltb (st (co (inner (hdl_iface E) (snd x)))) ST_ESTABLISHED) t)).
Proof. exact def_halfopen. Qed.
Print Assumptions C18H_def_halfopen.

(* ------------------------------------------------------------------------------------------------ *)
(** * (1) The responder's check *)

(** armed, the first COOKIE notification absent or different from the expected value: CookieRequired carrying the
    expected value; the result state EQUALS the input state (no nonce drawn, no DH key pair drawn, e_dh_secret not
    called).  [w] = false: the IkeSa itself (IKE_SA_INIT); the statement also covers w = true / encrypted. *)
Theorem C18H_no_cookie_no_work :
  forall E w (m : pmsg body) enc old s c sec n,
  view w s = Some c -> cookie_secret c = Some sec -> has_triple m enc n ->
  presented m <> Some (cookie_for E sec (h_spi_i (p_hdr m)) n (peer_addr c)) ->
  ike_nego_request E w m enc old s = (Raise (X_CookieRequired (cookie_for E sec (h_spi_i (p_hdr m)) n (peer_addr c))), s).
Proof. exact ike_nego_request_cookie_required. Qed.
Print Assumptions C18H_no_cookie_no_work.

Theorem C18H_init_request_cookie_required :
  forall E (m : pmsg body) s sec n,
  st (co s) = ST_INITIAL -> cookie_secret (co s) = Some sec -> has_triple m false n ->
  presented m <> Some (cookie_for E sec (h_spi_i (p_hdr m)) n (peer_addr (co s))) ->
  process_ike_sa_init_request E m s
  = (Raise (X_CookieRequired (cookie_for E sec (h_spi_i (p_hdr m)) n (peer_addr (co s)))), s).
Proof. exact init_request_cookie_required. Qed.
Print Assumptions C18H_init_request_cookie_required.

(** the reply is the COOKIE notification among the clear payloads and nothing else; state = clear_flags s *)
Theorem C18H_reply_is_only_the_cookie :
  forall E (m : pmsg body) s sec n,
  h_exch (p_hdr m) = EX_IKE_SA_INIT ->
  st (co s) = ST_INITIAL -> cookie_secret (co s) = Some sec -> has_triple m false n ->
  presented m <> Some (cookie_for E sec (h_spi_i (p_hdr m)) n (peer_addr (co s))) ->
  h_request E s m = (clear_flags s, HErr (cookie_reply (cookie_for E sec (h_spi_i (p_hdr m)) n (peer_addr (co s))))).
Proof. exact h_request_cookie_required. Qed.
Print Assumptions C18H_reply_is_only_the_cookie.

(** a request lacking SA, NONCE or KE: PayloadNotFound before the cookie check, state untouched, one INVALID_SYNTAX notify *)
Theorem C18H_malformed_no_work :
  forall E w (m : pmsg body) enc old s,
  get_payloads m K_SA enc = [] \/ get_payloads m K_NONCE enc = [] \/ get_payloads m K_KE enc = [] ->
  ike_nego_request E w m enc old s = (Raise X_PayloadNotFound, s).
Proof. exact ike_nego_request_malformed. Qed.
Print Assumptions C18H_malformed_no_work.

Theorem C18H_malformed_reply :
  forall E (m : pmsg body) s,
  h_exch (p_hdr m) = EX_IKE_SA_INIT -> st (co s) = ST_INITIAL ->
  get_payloads m K_SA false = [] \/ get_payloads m K_NONCE false = [] \/ get_payloads m K_KE false = [] ->
  h_request E s m = (clear_flags s, HErr ([P_NOTIFY PROTO_NONE N_INVALID_SYNTAX [] []], [])).
Proof. exact h_request_malformed. Qed.
Print Assumptions C18H_malformed_reply.

(** armed, the first COOKIE notification carries exactly the expected value: the code without the check *)
Theorem C18H_right_cookie_passes :
  forall E w (m : pmsg body) enc old s c sec n,
  view w s = Some c -> cookie_secret c = Some sec -> has_triple m enc n ->
  presented m = Some (cookie_for E sec (h_spi_i (p_hdr m)) n (peer_addr c)) ->
  ike_nego_request E w m enc old s = ike_nego_request_unchecked E w m enc old s.
Proof. exact ike_nego_request_cookie_accepted. Qed.
Print Assumptions C18H_right_cookie_passes.

Theorem C18H_unarmed_never_checks :
  forall E w (m : pmsg body) enc old s c,
  view w s = Some c -> cookie_secret c = None ->
  ike_nego_request E w m enc old s = ike_nego_request_unchecked E w m enc old s.
Proof. exact ike_nego_request_unarmed. Qed.
Print Assumptions C18H_unarmed_never_checks.

(** armed run with the right cookie = unarmed run on the same message: same result, final states equal up to the
    cookie secret *)
Theorem C18H_armed_with_cookie_eq_unarmed :
  forall E w (m : pmsg body) enc old s c sec n,
  view w s = Some c -> cookie_secret c = Some sec -> has_triple m enc n ->
  presented m = Some (cookie_for E sec (h_spi_i (p_hdr m)) n (peer_addr c)) ->
  ike_nego_request E w m enc old (disarm w s)
  = (fst (ike_nego_request E w m enc old s), disarm w (snd (ike_nego_request E w m enc old s))).
Proof. exact ike_nego_request_armed_eq_unarmed. Qed.
Print Assumptions C18H_armed_with_cookie_eq_unarmed.

(* ------------------------------------------------------------------------------------------------ *)
(** * (2) Binding *)

Theorem C18H_accepted_cookie_is_expected :
  forall E w (m : pmsg body) enc old s c sec n r s',
  view w s = Some c -> cookie_secret c = Some sec -> has_triple m enc n ->
  ike_nego_request E w m enc old s = (r, s') -> (forall ck, r <> Raise (X_CookieRequired ck)) ->
  presented m = Some (cookie_for E sec (h_spi_i (p_hdr m)) n (peer_addr c)).
Proof. exact accepted_cookie_is_expected. Qed.
Print Assumptions C18H_accepted_cookie_is_expected.

Theorem C18H_replay_accepted_only_on_collision :
  forall E w (m : pmsg body) enc old s c sec n r s' spi0 n0 addr0,
  view w s = Some c -> cookie_secret c = Some sec -> has_triple m enc n ->
  presented m = Some (cookie_for E sec spi0 n0 addr0) ->
  ike_nego_request E w m enc old s = (r, s') -> (forall ck, r <> Raise (X_CookieRequired ck)) ->
  e_cookie E sec (cookie_input E spi0 n0 addr0) = e_cookie E sec (cookie_input E (h_spi_i (p_hdr m)) n (peer_addr c)).
Proof. exact replayed_cookie_accepted_only_on_collision. Qed.
Print Assumptions C18H_replay_accepted_only_on_collision.

Theorem C18H_cookie_input_inj :
  forall E spi n addr spi' n' addr',
  length n = length n' -> cookie_input E spi n addr = cookie_input E spi' n' addr' ->
  be_encode 8 (Z.to_N spi) = be_encode 8 (Z.to_N spi') /\ n = n' /\ e_addr_packed E addr = e_addr_packed E addr'.
Proof. exact cookie_input_inj. Qed.
Print Assumptions C18H_cookie_input_inj.

Theorem C18H_cookie_input_inj_family :
  forall E spi n addr spi' n' addr',
  length (e_addr_packed E addr) = length (e_addr_packed E addr') -> cookie_input E spi n addr = cookie_input E spi' n' addr' ->
  be_encode 8 (Z.to_N spi) = be_encode 8 (Z.to_N spi') /\ n = n' /\ e_addr_packed E addr = e_addr_packed E addr'.
Proof. exact cookie_input_inj_family. Qed.
Print Assumptions C18H_cookie_input_inj_family.

Theorem C18H_replay_binding :
  forall E w (m : pmsg body) enc old s c sec n r s' spi0 n0 addr0,
  view w s = Some c -> cookie_secret c = Some sec -> has_triple m enc n ->
  presented m = Some (cookie_for E sec spi0 n0 addr0) ->
  ike_nego_request E w m enc old s = (r, s') -> (forall ck, r <> Raise (X_CookieRequired ck)) ->
  (e_cookie E sec (cookie_input E spi0 n0 addr0) = e_cookie E sec (cookie_input E (h_spi_i (p_hdr m)) n (peer_addr c)) ->
   cookie_input E spi0 n0 addr0 = cookie_input E (h_spi_i (p_hdr m)) n (peer_addr c)) ->
  (length n0 = length n \/ length (e_addr_packed E addr0) = length (e_addr_packed E (peer_addr c))) ->
  be_encode 8 (Z.to_N spi0) = be_encode 8 (Z.to_N (h_spi_i (p_hdr m))) /\ n0 = n /\
  e_addr_packed E addr0 = e_addr_packed E (peer_addr c) /\
  (0 <= spi0 < 2 ^ 64 -> 0 <= h_spi_i (p_hdr m) < 2 ^ 64 -> spi0 = h_spi_i (p_hdr m)).
Proof. exact replayed_cookie_binding. Qed.
Print Assumptions C18H_replay_binding.

(* ------------------------------------------------------------------------------------------------ *)
(** * (3) The dispatcher *)

(** more half-open IKE_SAs than the threshold once the new one is counted, no correct cookie: the endpoint afterwards,
    field by field - EXACTLY the old table, the tape minus the two draws of IkeSa.__init__ (no D_dh consumed), no kernel
    operation, one datagram: the response header stamped for the request, the COOKIE notification alone *)
Theorem C18H_dispatch_cookie_challenge :
  forall E (ep : Endpoint.endpoint E) h my peer (m : pmsg body) cf spi j rest n,
  h_exch h = EX_IKE_SA_INIT -> h_resp h = false -> h_init h = true -> h_id h = 0 -> p_hdr m = h ->
  find_conf E ep my peer = Some cf ->
  ep_tape E ep = D_bytes spi :: D_num j :: rest ->
  (forall x, In x (table E ep) -> fst x <> next_cid E ep) ->
  halfopen E (table E ep) + 1 > cookie_threshold ->
  has_triple m false n ->
  presented m <> Some (cookie_for E (ep_cookie_secret E ep) (h_spi_i h) n peer) ->
  dispatch E ep (Dg h my peer (Some m))
  = mk_ep E (table E ep) (S (next_cid E ep)) (confs E ep) (ep_cookie_secret E ep) rest (ep_now E ep) (ep_kops E ep)
          (ep_sent E ep ++ [cookie_datagram (spiZ (be_encode 8 (Z.to_N (h_spi_i h)))) (spiZ spi) (h_id h)
                                             (cookie_for E (ep_cookie_secret E ep) (h_spi_i h) n peer)])
          (Some (next_cid E ep)) (ep_status E ep).
Proof. exact dispatch_cookie_challenge. Qed.
Print Assumptions C18H_dispatch_cookie_challenge.

(** the freshness hypothesis above is part of the whole-daemon invariant (EndpointSad.EInv, true after every history) *)
Theorem C18H_cids_fresh_of_invariant :
  forall E (ep : Endpoint.endpoint E) sd,
  EInv E ep sd -> forall x, In x (table E ep) -> fst x <> next_cid E ep.
Proof. exact cids_fresh_of_invariant. Qed.
Print Assumptions C18H_cids_fresh_of_invariant.

(** one main_loop iteration: the datagram part sends exactly one datagram (the COOKIE reply), issues no kernel
    operation, consumes the two draws, and hands the timer section the old table *)
Theorem C18H_iteration_cookie_challenge :
  forall E (ep : Endpoint.endpoint E) tnow h my peer (m : pmsg body) cf spi j rest n,
  h_exch h = EX_IKE_SA_INIT -> h_resp h = false -> h_init h = true -> h_id h = 0 -> p_hdr m = h ->
  find_conf E ep my peer = Some cf ->
  (forall x, In x (table E ep) -> fst x <> next_cid E ep) ->
  halfopen E (table E ep) + 1 > cookie_threshold ->
  has_triple m false n ->
  presented m <> Some (cookie_for E (ep_cookie_secret E ep) (h_spi_i h) n peer) ->
  iteration E ep tnow (D_bytes spi :: D_num j :: rest) (Ev_datagram (Dg h my peer (Some m)))
  = timers E (mk_ep E (table E ep) (S (next_cid E ep)) (confs E ep) (ep_cookie_secret E ep) rest tnow []
                    [cookie_datagram (spiZ (be_encode 8 (Z.to_N (h_spi_i h)))) (spiZ spi) (h_id h)
                                     (cookie_for E (ep_cookie_secret E ep) (h_spi_i h) n peer)]
                    (Some (next_cid E ep)) None).
Proof. exact iteration_cookie_challenge. Qed.
Print Assumptions C18H_iteration_cookie_challenge.

(** the same, the load stated on the table after the creation of the new entry *)
Theorem C18H_dispatch_cookie_challenge_create :
  forall E (ep : Endpoint.endpoint E) h my peer (m : pmsg body) cf ep0 cid (s0 : Endpoint.esa E) n,
  h_exch h = EX_IKE_SA_INIT -> h_resp h = false -> h_init h = true -> h_id h = 0 -> p_hdr m = h ->
  find_conf E ep my peer = Some cf ->
  create E ep false (be_encode 8 (Z.to_N (h_spi_i h))) cf my peer = Some (ep0, cid, s0) ->
  halfopen E (table E ep0) > cookie_threshold ->
  (forall x, In x (table E ep) -> fst x <> next_cid E ep) ->
  has_triple m false n ->
  presented m <> Some (cookie_for E (ep_cookie_secret E ep) (h_spi_i h) n peer) ->
  let ep' := dispatch E ep (Dg h my peer (Some m)) in
  table E ep' = table E ep /\
  ep_kops E ep' = ep_kops E ep /\
  ep_tape E ep' = ep_tape E ep0 /\
  (exists spi j, ep_tape E ep = D_bytes spi :: D_num j :: ep_tape E ep' /\
                 ep_sent E ep' = ep_sent E ep ++ [cookie_datagram (spiZ (be_encode 8 (Z.to_N (h_spi_i h)))) (spiZ spi) (h_id h)
                                                    (cookie_for E (ep_cookie_secret E ep) (h_spi_i h) n peer)]) /\
  next_cid E ep' = S (next_cid E ep) /\ ep_routed E ep' = Some cid /\
  confs E ep' = confs E ep /\ ep_cookie_secret E ep' = ep_cookie_secret E ep /\ ep_now E ep' = ep_now E ep.
Proof. exact dispatch_cookie_challenge_create. Qed.
Print Assumptions C18H_dispatch_cookie_challenge_create.

(** IkeSa(...) consumes exactly two draws, the SPI and the lifetime jitter; the count includes the new entry *)
Theorem C18H_create_draws :
  forall E (ep : Endpoint.endpoint E) ii pspi cf my peer ep0 cid (s0 : Endpoint.esa E),
  create E ep ii pspi cf my peer = Some (ep0, cid, s0) ->
  exists spi j, ep_tape E ep = D_bytes spi :: D_num j :: ep_tape E ep0 /\
                s0 = sa_of_core E (fresh_core ii cf my peer pspi spi j (ep_now E ep)).
Proof. exact create_draws. Qed.
Print Assumptions C18H_create_draws.

Theorem C18H_halfopen_created :
  forall E (ep : Endpoint.endpoint E) ii pspi cf my peer ep0 cid (s0 : Endpoint.esa E),
  create E ep ii pspi cf my peer = Some (ep0, cid, s0) -> halfopen E (table E ep0) = halfopen E (table E ep) + 1.
Proof. exact halfopen_created. Qed.
Print Assumptions C18H_halfopen_created.

(** armed exactly above the threshold *)
Theorem C18H_arm_spec :
  forall E (ep : Endpoint.endpoint E) ii pspi cf my peer ep0 cid (s0 : Endpoint.esa E),
  create E ep ii pspi cf my peer = Some (ep0, cid, s0) ->
  cookie_secret (co (inner (hdl_iface E) (arm E ep0 s0)))
  = if Z.gtb (halfopen E (table E ep0)) cookie_threshold then Some (ep_cookie_secret E ep) else None.
Proof. exact arm_spec. Qed.
Print Assumptions C18H_arm_spec.

Theorem C18H_below_threshold_not_armed :
  forall E (ep : Endpoint.endpoint E) h my peer (m : pmsg body) cf ep0 cid (s0 : Endpoint.esa E),
  dispatch_is_init_request (h_exch h) (negb (h_resp h)) = true -> find_conf E ep my peer = Some cf ->
  create E ep false (be_encode 8 (Z.to_N (h_spi_i h))) cf my peer = Some (ep0, cid, s0) ->
  halfopen E (table E ep0) <= cookie_threshold ->
  cookie_secret (co (inner (hdl_iface E) s0)) = None /\ arm E ep0 s0 = s0 /\
  dispatch E ep (Dg h my peer (Some m))
  = handle_fresh E (routed E (with_table E ep0 (replace E (table E ep0) cid s0)) cid) cid s0 m.
Proof. exact dispatch_below_threshold_not_armed. Qed.
Print Assumptions C18H_below_threshold_not_armed.

(** an IKE_SA_INIT request with the INITIATOR flag clear or a Message ID other than 0 is ignored by the fresh IkeSa:
    no reply, no kernel operation, only the two draws of IkeSa.__init__ - and (fix 73b0c79 of /repo) the freshly
    created entry is removed again: the table is the old one, under any load, with or without a cookie *)
Theorem C18H_ignored_init_request_leaves_nothing :
  forall E (ep : Endpoint.endpoint E) h my peer (m : pmsg body) cf spi j rest,
  h_exch h = EX_IKE_SA_INIT -> h_resp h = false -> p_hdr m = h ->
  find_conf E ep my peer = Some cf ->
  ep_tape E ep = D_bytes spi :: D_num j :: rest ->
  (forall x, In x (table E ep) -> fst x <> next_cid E ep) ->
  (h_init h = false \/ h_id h <> 0) ->
  let ep' := dispatch E ep (Dg h my peer (Some m)) in
  ep_sent E ep' = ep_sent E ep /\ ep_kops E ep' = ep_kops E ep /\ ep_tape E ep' = rest /\
  table E ep' = table E ep.
Proof. exact dispatch_ignored_init_request_leaves_nothing. Qed.
Print Assumptions C18H_ignored_init_request_leaves_nothing.

(** hence "leaves no IKE_SA behind" WITHOUT any hypothesis on the INITIATOR flag or the Message ID: above the
    threshold, an IKE_SA_INIT request that does not carry the correct cookie leaves exactly the old table, issues no
    kernel operation and consumes the two draws of IkeSa.__init__ only (no D_dh: no Diffie-Hellman work) *)
Theorem C18H_leaves_no_ike_sa_behind :
  forall E (ep : Endpoint.endpoint E) h my peer (m : pmsg body) cf spi j rest n,
  h_exch h = EX_IKE_SA_INIT -> h_resp h = false -> p_hdr m = h ->
  find_conf E ep my peer = Some cf ->
  ep_tape E ep = D_bytes spi :: D_num j :: rest ->
  (forall x, In x (table E ep) -> fst x <> next_cid E ep) ->
  halfopen E (table E ep) + 1 > cookie_threshold ->
  (has_triple m false n /\ presented m <> Some (cookie_for E (ep_cookie_secret E ep) (h_spi_i h) n peer))
  \/ (get_payloads m K_SA false = [] \/ get_payloads m K_NONCE false = [] \/ get_payloads m K_KE false = []) ->
  table E (dispatch E ep (Dg h my peer (Some m))) = table E ep
  /\ ep_kops E (dispatch E ep (Dg h my peer (Some m))) = ep_kops E ep
  /\ ep_tape E (dispatch E ep (Dg h my peer (Some m))) = rest.
Proof. exact leaves_no_ike_sa_behind. Qed.
Print Assumptions C18H_leaves_no_ike_sa_behind.

(** the two ingredients: a malformed IKE_SA_INIT request (INVALID_SYNTAX) leaves nothing behind, and in general a
    request the fresh IkeSa answers by ending (state DELETED after process_message) never does *)
Theorem C18H_malformed_init_request_leaves_nothing :
  forall E (ep : Endpoint.endpoint E) h my peer (m : pmsg body) cf spi j rest,
  h_exch h = EX_IKE_SA_INIT -> h_resp h = false -> h_init h = true -> h_id h = 0 -> p_hdr m = h ->
  find_conf E ep my peer = Some cf ->
  ep_tape E ep = D_bytes spi :: D_num j :: rest ->
  (forall x, In x (table E ep) -> fst x <> next_cid E ep) ->
  (get_payloads m K_SA false = [] \/ get_payloads m K_NONCE false = [] \/ get_payloads m K_KE false = []) ->
  table E (dispatch E ep (Dg h my peer (Some m))) = table E ep
  /\ ep_kops E (dispatch E ep (Dg h my peer (Some m))) = ep_kops E ep
  /\ ep_tape E (dispatch E ep (Dg h my peer (Some m))) = rest.
Proof. exact dispatch_malformed_init_request. Qed.
Print Assumptions C18H_malformed_init_request_leaves_nothing.

Theorem C18H_init_request_ended_leaves_nothing :
  forall E (ep : Endpoint.endpoint E) h my peer (m : pmsg body) cf ep0 cid (s0 : Endpoint.esa E),
  dispatch_is_init_request (h_exch h) (negb (h_resp h)) = true -> find_conf E ep my peer = Some cf ->
  create E ep false (be_encode 8 (Z.to_N (h_spi_i h))) cf my peer = Some (ep0, cid, s0) ->
  (forall x, In x (table E ep) -> fst x <> next_cid E ep) ->
  let ep1 := routed E (with_table E ep0 (replace E (table E ep0) cid (arm E ep0 s0))) cid in
  let r := process_message (hdl_iface E) (enter E ep1 (arm E ep0 s0)) m (ep_now E ep1) in
  state (hdl_iface E) (fst r) = ST_DELETED ->
  table E (dispatch E ep (Dg h my peer (Some m))) = table E ep
  /\ ep_kops E (dispatch E ep (Dg h my peer (Some m))) = ep_kops E ep
  /\ ep_tape E (dispatch E ep (Dg h my peer (Some m))) = tape (inner (hdl_iface E) (fst r)).
Proof. exact dispatch_init_request_ended. Qed.
Print Assumptions C18H_init_request_ended_leaves_nothing.

(** on the toy endpoint with 11 half-open entries: Message ID 1, or INITIATOR flag clear - no reply, 11 entries after *)
Theorem C18H_ex_ignored_request_leaves_nothing :
  let a := dispatch CookieToy.E0 (CookieToy.ep_n 11) (CookieToy.dgm (CookieToy.with_id CookieToy.mR1 1)) in
  let b := dispatch CookieToy.E0 (CookieToy.ep_n 11) (CookieToy.dgm (CookieToy.with_init CookieToy.mR1 false)) in
  ep_sent CookieToy.E0 a = [] /\ length (table CookieToy.E0 a) = 11%nat /\ halfopen CookieToy.E0 (table CookieToy.E0 a) = 11 /\
  ep_sent CookieToy.E0 b = [] /\ length (table CookieToy.E0 b) = 11%nat /\ halfopen CookieToy.E0 (table CookieToy.E0 b) = 11.
Proof. exact CookieToy.ignored_request_leaves_nothing_witness. Qed.
Print Assumptions C18H_ex_ignored_request_leaves_nothing.

(* ------------------------------------------------------------------------------------------------ *)
(** * (4) The initiator's retry *)

(** the identical payloads with the cookie placed first; self.request, ike_sa_init_req_data (Message ID 0) and
    my_msg_id are refreshed *)
Theorem C18H_initiator_retry :
  forall E (m : pmsg body) s ex ps ck rest,
  st (co s) = ST_INIT_REQ_SENT -> request (co s) = Some (ex, ps) ->
  get_notifies m N_INVALID_KE_PAYLOAD false = [] -> get_notifies m N_COOKIE false = ck :: rest ->
  process_ike_sa_init_response E m s = (Ok (Some (ex, ck :: ps)), retry_state s ck ex ps).
Proof. exact init_response_cookie_retry. Qed.
Print Assumptions C18H_initiator_retry.

Theorem C18H_initiator_retry_fields :
  forall E (m : pmsg body) s ps ck rest,
  st (co s) = ST_INIT_REQ_SENT -> request (co s) = Some (EX_IKE_SA_INIT, ps) ->
  get_notifies m N_INVALID_KE_PAYLOAD false = [] -> get_notifies m N_COOKIE false = ck :: rest ->
  let r := process_ike_sa_init_response E m s in
  fst r = Ok (Some (EX_IKE_SA_INIT, ck :: ps)) /\
  request (co (snd r)) = Some (EX_IKE_SA_INIT, ck :: ps) /\
  init_req (co (snd r)) = Some (hdr_of (co s) EX_IKE_SA_INIT false 0, (ck :: ps, [])) /\
  h_id (hdr_of (co s) EX_IKE_SA_INIT false 0) = 0 /\
  my_msg_id_reset (co (snd r)) = true /\
  st (co (snd r)) = ST_INIT_REQ_SENT /\ tape (snd r) = tape s /\ kops (snd r) = kops s /\ dh (co (snd r)) = dh (co s).
Proof. exact init_response_cookie_retry_fields. Qed.
Print Assumptions C18H_initiator_retry_fields.

Theorem C18H_initiator_retry_interface :
  forall E (m : pmsg body) s ps ck rest,
  h_exch (p_hdr m) = EX_IKE_SA_INIT ->
  st (co s) = ST_INIT_REQ_SENT -> request (co s) = Some (EX_IKE_SA_INIT, ps) ->
  get_notifies m N_INVALID_KE_PAYLOAD false = [] -> get_notifies m N_COOKIE false = ck :: rest ->
  h_response E s m = (retry_state (clear_flags s) ck EX_IKE_SA_INIT ps, ROk (Some (EX_IKE_SA_INIT, (ck :: ps, []))) true).
Proof. exact h_response_cookie_retry. Qed.
Print Assumptions C18H_initiator_retry_interface.

(** the shell sends it with Message ID 0 and keeps it for retransmission *)
Theorem C18H_initiator_retry_datagram :
  forall E (s : sa (hdl_iface E)) (m : pmsg body) tnow ps ck rest,
  h_id (p_hdr m) = my_id (hdl_iface E) s -> h_exch (p_hdr m) = EX_IKE_SA_INIT ->
  st (co (inner (hdl_iface E) s)) = ST_INIT_REQ_SENT -> request (co (inner (hdl_iface E) s)) = Some (EX_IKE_SA_INIT, ps) ->
  get_notifies m N_INVALID_KE_PAYLOAD false = [] -> get_notifies m N_COOKIE false = ck :: rest ->
  let d := mk_dgram (mk_hdr (spi_i (hdl_iface E) s) (spi_r (hdl_iface E) s) GEN_MAJOR GEN_MINOR EX_IKE_SA_INIT false
                            (is_init (hdl_iface E) s) 0)
                    (ck :: ps, []) in
  let r := process_response (hdl_iface E) s m tnow in
  snd r = Some d /\ req_data (hdl_iface E) (fst r) = Some d /\ my_id (hdl_iface E) (fst r) = 0 /\
  inner (hdl_iface E) (fst r) = retry_state (clear_flags (inner (hdl_iface E) s)) ck EX_IKE_SA_INIT ps.
Proof. exact process_response_cookie_retry. Qed.
Print Assumptions C18H_initiator_retry_datagram.

Theorem C18H_retry_datagram_is_stored_init_req :
  forall E (s : sa (hdl_iface E)) (m : pmsg body) tnow ps ck rest,
  is_init (hdl_iface E) s = c_init (co (inner (hdl_iface E) s)) ->
  my_spi (hdl_iface E) s = spiZ (my_spi_b (co (inner (hdl_iface E) s))) ->
  h_id (p_hdr m) = my_id (hdl_iface E) s -> h_exch (p_hdr m) = EX_IKE_SA_INIT ->
  st (co (inner (hdl_iface E) s)) = ST_INIT_REQ_SENT -> request (co (inner (hdl_iface E) s)) = Some (EX_IKE_SA_INIT, ps) ->
  get_notifies m N_INVALID_KE_PAYLOAD false = [] -> get_notifies m N_COOKIE false = ck :: rest ->
  let r := process_response (hdl_iface E) s m tnow in
  exists d, snd r = Some d /\ init_req (co (inner (hdl_iface E) (fst r))) = Some (d_hdr d, d_body d).
Proof. exact retry_datagram_is_stored_init_req. Qed.
Print Assumptions C18H_retry_datagram_is_stored_init_req.

(** generate_ike_auth_request signs the serialisation of exactly the stored request: octets = e_ser msg ++ Nr ++ prf(SK_p, IDi') *)
Theorem C18H_auth_request_signs_stored_init_req :
  forall E s r s' msg,
  generate_ike_auth_request E s = (Ok r, s') -> init_req (co s) = Some msg ->
  exists cps pa cp nonce_r skp,
    r = (EX_IKE_AUTH, cps ++ [P_IDi (a_id_type (cf_my_auth (cfg (co s)))) (a_id_data (cf_my_auth (cfg (co s)))); pa]) /\
    cprop (co s) = Some cp /\
    auth_over E (cf_my_auth (cfg (co s))) cp
              (e_ser E msg ++ nonce_r
               ++ e_prf E cp skp (id_bytes (a_id_type (cf_my_auth (cfg (co s)))) (a_id_data (cf_my_auth (cfg (co s)))))) pa.
Proof. exact generate_ike_auth_request_signs. Qed.
Print Assumptions C18H_auth_request_signs_stored_init_req.

Theorem C18H_init_response_auth_covers_stored :
  forall E (m : pmsg body) s r s' msg,
  get_notifies m N_INVALID_KE_PAYLOAD false = [] -> get_notifies m N_COOKIE false = [] ->
  process_ike_sa_init_response E m s = (Ok (Some r), s') -> init_req (co s) = Some msg ->
  exists cps pa cp nonce_r skp idt idd,
    r = (EX_IKE_AUTH, cps ++ [P_IDi idt idd; pa]) /\
    idt = a_id_type (cf_my_auth (cfg (co s))) /\ idd = a_id_data (cf_my_auth (cfg (co s))) /\
    auth_over E (cf_my_auth (cfg (co s))) cp (e_ser E msg ++ nonce_r ++ e_prf E cp skp (id_bytes idt idd)) pa.
Proof. exact init_response_auth_covers_stored. Qed.
Print Assumptions C18H_init_response_auth_covers_stored.

(** the clause a seeded regression broke: after the retry, the AUTH payload of the IKE_AUTH request covers the
    serialisation of the request WITH the cookie (Message ID 0, cookie first, then the original payloads) *)
Theorem C18H_retry_then_auth_covers_retried_request :
  forall E (m1 : pmsg body) s ps ck rest (m2 : pmsg body) s1 r2 s2,
  st (co s) = ST_INIT_REQ_SENT -> request (co s) = Some (EX_IKE_SA_INIT, ps) ->
  get_notifies m1 N_INVALID_KE_PAYLOAD false = [] -> get_notifies m1 N_COOKIE false = ck :: rest ->
  init_req (co s1) = init_req (co (snd (process_ike_sa_init_response E m1 s))) ->
  get_notifies m2 N_INVALID_KE_PAYLOAD false = [] -> get_notifies m2 N_COOKIE false = [] ->
  process_ike_sa_init_response E m2 s1 = (Ok (Some r2), s2) ->
  exists cps pa cp nonce_r skp idt idd,
    r2 = (EX_IKE_AUTH, cps ++ [P_IDi idt idd; pa]) /\
    auth_over E (cf_my_auth (cfg (co s1))) cp
              (e_ser E (hdr_of (co s) EX_IKE_SA_INIT false 0, (ck :: ps, [])) ++ nonce_r
               ++ e_prf E cp skp (id_bytes idt idd)) pa.
Proof. exact cookie_retry_then_auth_covers_retried_request. Qed.
Print Assumptions C18H_retry_then_auth_covers_retried_request.

(* ------------------------------------------------------------------------------------------------ *)
(** * Non-vacuity (toy environment of HdlCookie.CookieToy, by computation) *)

Theorem C18H_ex_armed_responder_answers_cookie :
  st (co CookieToy.armedR) = ST_INITIAL /\ cookie_secret (co CookieToy.armedR) = Some CookieToy.sec /\
  h_exch (p_hdr CookieToy.mR1) = EX_IKE_SA_INIT /\
  has_triple CookieToy.mR1 false [7; 7; 7]%N /\ presented CookieToy.mR1 = None /\
  h_request CookieToy.E0 CookieToy.armedR CookieToy.mR1
  = (clear_flags CookieToy.armedR, HErr (cookie_reply CookieToy.ck)) /\
  ike_nego_request CookieToy.E0 false CookieToy.mR1 false None CookieToy.armedR
  = (Raise (X_CookieRequired CookieToy.ck), CookieToy.armedR) /\
  tape CookieToy.armedR = [D_num 16; D_bytes [8; 8; 8]%N; D_dh 14 [6]%N [6]%N].
Proof. exact CookieToy.armed_responder_answers_cookie. Qed.
Print Assumptions C18H_ex_armed_responder_answers_cookie.

Theorem C18H_ex_cookie_is_bound :
  let run s m := CookieToy.is_cookie_required (fst (ike_nego_request CookieToy.E0 false m false None s)) in
  run CookieToy.armedR CookieToy.mR1_ck = false /\
  run CookieToy.armedR (CookieToy.T.msg (p_hdr CookieToy.mR1)
         (P_NOTIFY PROTO_NONE N_COOKIE [] (CookieToy.ck ++ [0]%N) :: fst (p_body CookieToy.mR1)) []) = true /\
  run (CookieToy.with_peer CookieToy.armedR 11) CookieToy.mR1_ck = true /\
  run CookieToy.armedR (CookieToy.with_spi CookieToy.mR1_ck 5) = true /\
  run CookieToy.armedR (CookieToy.with_nonce CookieToy.mR1_ck [7; 7; 8]%N) = true /\
  run CookieToy.armedR (CookieToy.T.msg (p_hdr CookieToy.mR1)
         (P_NOTIFY PROTO_NONE N_COOKIE [] [1]%N :: fst (p_body CookieToy.mR1_ck)) []) = true.
Proof. exact CookieToy.cookie_is_bound. Qed.
Print Assumptions C18H_ex_cookie_is_bound.

Theorem C18H_ex_threshold_boundary :
  let a := dispatch CookieToy.E0 (CookieToy.ep_n 9) (CookieToy.dgm CookieToy.mR1) in
  let b := dispatch CookieToy.E0 (CookieToy.ep_n 10) (CookieToy.dgm CookieToy.mR1) in
  length (table CookieToy.E0 a) = 10%nat /\ ep_tape CookieToy.E0 a = [] /\
  option_map (fun x => (st (co (inner (hdl_iface CookieToy.E0) (snd x))),
                        cookie_secret (co (inner (hdl_iface CookieToy.E0) (snd x)))))
             (nth_error (table CookieToy.E0 a) 9) = Some (ST_INIT_RES_SENT, None) /\
  table CookieToy.E0 b = table CookieToy.E0 (CookieToy.ep_n 10) /\
  ep_tape CookieToy.E0 b = [D_num 16; D_bytes [8; 8; 8]%N; D_dh 14 [6]%N [6]%N] /\
  ep_sent CookieToy.E0 b = [cookie_datagram (spiZ CookieToy.T.spiI) (spiZ CookieToy.T.spiR) 0 CookieToy.ck].
Proof. exact CookieToy.threshold_boundary. Qed.
Print Assumptions C18H_ex_threshold_boundary.

Theorem C18H_ex_retry_completes_normally :
  CookieToy.ckbody = cookie_reply CookieToy.ck /\
  CookieToy.rq2 = (EX_IKE_SA_INIT, P_NOTIFY PROTO_NONE N_COOKIE [] CookieToy.ck :: snd CookieToy.rq1) /\
  my_msg_id_reset (co (snd CookieToy.I2)) = true /\
  init_req (co (snd CookieToy.I2))
  = Some (CookieToy.T.hdrx CookieToy.T.spiI CookieToy.T.spi0 EX_IKE_SA_INIT false true, (snd CookieToy.rq2, [])) /\
  (exists ps, fst CookieToy.R1 = Ok ps) /\ st (co (snd CookieToy.R1)) = ST_INIT_RES_SENT /\
  (exists ps, fst (CookieToy.auth_round (snd CookieToy.I2)) = Ok ps) /\
  st (co (snd (CookieToy.auth_round (snd CookieToy.I2)))) = ST_ESTABLISHED /\
  fst (CookieToy.auth_round (CookieToy.stale (snd CookieToy.I1) (snd CookieToy.I2))) = Raise X_AuthFailed.
Proof. exact CookieToy.retry_completes_normally. Qed.
Print Assumptions C18H_ex_retry_completes_normally.
