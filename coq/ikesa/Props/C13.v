(** C13 - retransmission, dead-peer detection and lifetimes (property theorems only). *)
From Coq Require Import ZArith Bool List.
From IkeSa Require Import Gen.IkeFacts Shell ShellProofs.
Import ListNotations.
Open Scope Z_scope.

(** a retransmission is the stored bytes of the outstanding request; it happens only while a request is
    outstanding, after the deadline, within the budget, and pushes the deadline back by (count)*DELAY *)
Theorem C13_retransmission_is_stored_request :
  forall (P : iface) (s s' : sa P) (now : Z) (d : dgram (B P)),
  check_retransmission P s now = (s', Some d) ->
  req_data P s = Some d /\ req_data P s' = Some d /\ inner P s' = inner P s /\
  rt_n P s' = rt_n P s + 1 /\ rt_at P s' = rt_at P s + (rt_n P s + 1) * RETRANSMISSION_DELAY /\
  rt_n P s < MAX_RETRANSMISSIONS /\ rt_at P s < now /\ rt_states (state P s) = true.
Proof. exact retransmission_is_stored_request. Qed.
Print Assumptions C13_retransmission_is_stored_request.

(** For every sequence of timer sweeps (any tick pattern) with no response in between, starting from a request
    first sent at t0: every retransmission equals the request byte for byte, the total number of transmissions
    never exceeds MAX_RETRANSMISSIONS, and the IKE_SA either still waits with its deadline at
    t0 + DELAY*n(n+1)/2 after n transmissions (t0+2, t0+6, t0+12, t0+20: non-decreasing gaps) or has been
    given up (DELETED). *)
Theorem C13_schedule : forall (P : iface),
  (forall i z, istate P (set_state P i z) = z) ->
  forall (t0 : Z) (times : list Z) (s : sa P) (d0 : dgram (B P)),
  on_schedule P t0 s -> req_data P s = Some d0 -> rt_states (state P s) = true ->
  let '(s', out) := sweeps P times s in
  Forall (fun d => d = d0) out /\
  Z.of_nat (length out) + rt_n P s <= Z.max (rt_n P s) MAX_RETRANSMISSIONS /\
  ((rt_states (state P s') = true /\ on_schedule P t0 s' /\ req_data P s' = Some d0 /\
    rt_n P s' = rt_n P s + Z.of_nat (length out))
   \/ state P s' = ST_DELETED).
Proof. exact sweeps_spec. Qed.
Print Assumptions C13_schedule.

Theorem C13_send_starts_schedule : forall (P : iface) (s : sa P) (now : Z) (d : dgram (B P)),
  on_schedule P now (fst (send_request P s now d)).
Proof. exact send_on_schedule. Qed.
Print Assumptions C13_send_starts_schedule.

(** unanswered: once MAX_RETRANSMISSIONS - n + 1 sweeps have run after t0 + 20 s the IKE_SA is DELETED *)
Theorem C13_unanswered_request_ends_the_ike_sa : forall (P : iface),
  (forall i z, istate P (set_state P i z) = z) ->
  forall (t0 : Z) (times : list Z) (s : sa P) (d0 : dgram (B P)),
  on_schedule P t0 s -> req_data P s = Some d0 -> rt_states (state P s) = true ->
  rt_n P s <= MAX_RETRANSMISSIONS ->
  (forall t, In t times -> t0 + RETRANSMISSION_DELAY * 10 < t) ->
  (Z.to_nat (MAX_RETRANSMISSIONS - rt_n P s) < length times)%nat ->
  state P (fst (sweeps P times s)) = ST_DELETED.
Proof. exact due_sweeps_delete. Qed.
Print Assumptions C13_unanswered_request_ends_the_ike_sa.

(** an answered request is never retransmitted: once the state is not a request-outstanding one the timer is mute *)
Theorem C13_answered_not_retransmitted : forall (P : iface) (s : sa P) (now : Z),
  rt_states (state P s) = false -> check_retransmission P s now = (s, None).
Proof. exact no_retransmission_when_not_waiting. Qed.
Print Assumptions C13_answered_not_retransmitted.

Theorem C13_not_before_deadline : forall (P : iface) (s : sa P) (now : Z),
  now <= rt_at P s -> check_retransmission P s now = (s, None).
Proof. exact no_retransmission_before_deadline. Qed.
Print Assumptions C13_not_before_deadline.

(** dead-peer detection: an ESTABLISHED IKE_SA whose liveness deadline has passed sends a probe (and starts its
    retransmission schedule); otherwise the DPD timer does nothing *)
Theorem C13_dpd_fires : forall (P : iface) (s : sa P) (now : Z),
  state P s = ST_ESTABLISHED -> dpd_at P s < now ->
  exists s' d, check_dpd P s now = (s', Some d) /\ req_data P s' = Some d /\
               d_hdr d = stamp_request P (with_inner P s (fst (gen_dpd P (inner P s))))
                                       (fst (snd (gen_dpd P (inner P s)))) /\
               rt_n P s' = 1 /\ rt_at P s' = now + RETRANSMISSION_DELAY.
Proof. exact dpd_fires. Qed.
Print Assumptions C13_dpd_fires.

Theorem C13_dpd_silent : forall (P : iface) (s : sa P) (now : Z),
  state P s <> ST_ESTABLISHED \/ now <= dpd_at P s -> check_dpd P s now = (s, None).
Proof. exact dpd_silent. Qed.
Print Assumptions C13_dpd_silent.

(** lifetime: delete when the hard deadline has passed, else rekey when the soft one has, else nothing *)
Theorem C13_lifetime : forall (P : iface) (s : sa P) (now : Z),
  state P s = ST_ESTABLISHED ->
  (del_at P s < now -> exists s' d, check_lifetime P s now = (s', Some d) /\
      inner P s' = fst (gen_delete_ike P (inner P s)) /\ req_data P s' = Some d) /\
  (now <= del_at P s -> rek_at P s < now -> exists s' d, check_lifetime P s now = (s', Some d) /\
      inner P s' = fst (gen_rekey_ike P (inner P s)) /\ req_data P s' = Some d) /\
  (now <= del_at P s -> now <= rek_at P s -> check_lifetime P s now = (s, None)).
Proof. exact lifetime_fires. Qed.
Print Assumptions C13_lifetime.

(** the liveness deadline moves only when a message passed the role, SPI and integrity checks (with C03) *)
Theorem C13_only_authentic_traffic_postpones_dpd : forall (P : iface) (s : sa P) (m : pmsg (B P)) (now : Z),
  has_keys P (inner P s) = true -> p_auth m = false -> dpd_at P (fst (process_message P s m now)) = dpd_at P s.
Proof.
  intros P s m now Hk Ha. destruct (unauthenticated_no_effect P s m now Hk Ha) as [H|[H _]]; rewrite H; reflexivity.
Qed.
Print Assumptions C13_only_authentic_traffic_postpones_dpd.

(** The silent-peer bound (crash of the peer, cable pulled).  An ESTABLISHED IKE_SA whose liveness deadline has
    passed at the sweep at time t probes at t; if nothing authentic arrives afterwards, then as soon as
    MAX_RETRANSMISSIONS further sweeps have run later than t + 20 s the IKE_SA is DELETED - for every tick pattern
    [times].  A sweep is one pass of the three timer loops of main_loop in their order.  Handler contract: the DPD
    generator leaves one of the states the regenerated table says check_dead_peer_detection_timer can assign. *)
Theorem C13_silent_peer_ends_the_ike_sa : forall (P : iface),
  (forall i z, istate P (set_state P i z) = z) ->
  (forall i, In (istate P (fst (gen_dpd P i))) assigns_check_dead_peer_detection_timer) ->
  forall (s : sa P) (t : Z) (times : list Z),
  state P s = ST_ESTABLISHED -> dpd_at P s < t ->
  (forall t', In t' times -> t + RETRANSMISSION_DELAY * 10 < t') ->
  (Z.to_nat MAX_RETRANSMISSIONS <= length times)%nat ->
  state P (full_sweeps P (t :: times) s) = ST_DELETED.
Proof. exact silent_peer_ends_ike_sa_gen. Qed.
Print Assumptions C13_silent_peer_ends_the_ike_sa.
