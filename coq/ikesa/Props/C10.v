(** C10 - the kernel SAD always equals the CHILD_SAs the daemon tracks (property theorems only).
    [ops] ranges over every sequence of the primitive operations of the code, [v1 v2] inside them over every
    kernel verdict (fault injection at each individual NEWSA). *)
From Coq Require Import ZArith Bool List.
From IkeSa Require Import Sad SadProofs.
Import ListNotations.
Open Scope Z_scope.

(** after every sequence of operations, from a fresh start (or a restart at any point, which is an operation):
    the installed keys are exactly the keys of the tracked CHILD_SAs, and no key is tracked twice *)
Theorem C10_invariant : forall ops s, Inv s -> run_ok ops s -> Inv (run ops s).
Proof. exact run_inv. Qed.
Print Assumptions C10_invariant.

Theorem C10_initially : Inv (mk_st [] []).
Proof. exact inv_init. Qed.
Print Assumptions C10_initially.

(** removing an IKE_SA for any reason removes all its kernel SAs, and nothing else *)
Theorem C10_ike_sa_removed : forall s id, Inv s ->
  (forall oc, In oc (tracked (step s (Teardown id))) <-> In oc (tracked s) /\ fst oc <> id) /\
  (forall k, In k (sad (step s (Teardown id))) <->
     exists oc, In oc (tracked s) /\ fst oc <> id /\ (k = k_out (snd oc) \/ k = k_in (snd oc))).
Proof. exact step_teardown_exact. Qed.
Print Assumptions C10_ike_sa_removed.

(** CHILD_SA deletion (and the deletion that completes a rekey) removes exactly the replaced pair *)
Theorem C10_child_delete_exact : forall s id c, Inv s -> In (id, c) (tracked s) ->
  forall k, In k (sad (step s (DeleteChild id c))) <-> In k (sad s) /\ k <> k_out c /\ k <> k_in c.
Proof. exact delete_exact. Qed.
Print Assumptions C10_child_delete_exact.

(** IKE_SA rekey hands the CHILD_SAs to the successor without touching the kernel *)
Theorem C10_ike_rekey_no_kernel : forall s old new,
  sad (step s (Handover old new)) = sad s /\ tracked_keys (step s (Handover old new)) = tracked_keys s.
Proof. exact handover_no_kernel. Qed.
Print Assumptions C10_ike_rekey_no_kernel.

(** a kernel refusal leaves neither a tracked-but-absent nor an installed-but-untracked SA: on the responder
    nothing changes at all; on the initiator the IKE_SA is torn down with everything it had *)
Theorem C10_refusal_leaves_nothing_responder : forall s id c v1 v2, Inv s ->
  fst (create_child_sa c v1 v2 (sad s)) = false ->
  (forall k, In k (sad (step s (RespInstall id c v1 v2))) <-> In k (sad s)) /\
  tracked (step s (RespInstall id c v1 v2)) = tracked s.
Proof. exact refusal_leaves_nothing. Qed.
Print Assumptions C10_refusal_leaves_nothing_responder.

Theorem C10_refusal_leaves_nothing_initiator : forall s id c v1 v2, Inv s -> op_ok s (InitInstall id c v1 v2) ->
  fst (create_child_sa c v1 v2 (sad s)) = false ->
  (forall oc, In oc (tracked (step s (InitInstall id c v1 v2))) -> fst oc <> id) /\
  ~ In (k_out c) (sad (step s (InitInstall id c v1 v2))) /\ ~ In (k_in c) (sad (step s (InitInstall id c v1 v2))).
Proof. exact refusal_init_leaves_nothing. Qed.
Print Assumptions C10_refusal_leaves_nothing_initiator.
