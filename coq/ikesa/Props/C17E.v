(** C17 on the whole-endpoint model (Endpoint.v over Hdl.v): the clauses "keeps serving other peers correctly afterwards"
    and "no entry that ended stays behind", stated about [dispatch] / [iteration] for EVERY event, tape and verdicts.
    (Totality is by construction: [iteration] is a total function; what escapes the real loop is decided by the
    regenerated exception facts of Props/C17.v.)  These are the statements of Props/C08E.v, C13E.v, C16E.v and C10E.v
    that C17 rests on, re-exported here so that C17's evidence names them; nothing new is assumed. *)
From Coq Require Import ZArith NArith Bool List.
From RecordUpdate Require Import RecordSet.
From VLib Require Import Bytes.
From IkeSa Require Import Gen.IkeFacts Shell Hdl HdlSad Endpoint EndpointSad EndpointTimers EndpointWindow.
Import ListNotations RecordSetNotations.
Open Scope Z_scope.

(** whatever the datagram - arbitrary header, unknown SPI, unparsable, forged, authentic but unexpected - only the
    IkeSa it is routed to (and a freshly created responder / a rekey successor) can change: every other peer's entry is
    the same value at the same place *)
Theorem C17E_a_datagram_touches_only_the_ike_sa_it_is_routed_to : forall E (ep : endpoint E) d,
  CidOK E (table E ep) (next_cid E ep) ->
  dispatch E ep d = ep
  \/ exists cid, ep_routed E (dispatch E ep d) = Some cid
                 /\ filter (other_old E cid (next_cid E ep)) (table E (dispatch E ep d)) = filter (other E cid) (table E ep).
Proof. exact only_routed_entry_may_change. Qed.
Print Assumptions C17E_a_datagram_touches_only_the_ike_sa_it_is_routed_to.

(** a timer call on one entry leaves every other entry where and what it was *)
Theorem C17E_a_timer_touches_only_its_own_ike_sa : forall E (ep : endpoint E) c (r : esa E * option (dgram body)),
  cids E (do_call E ep c r) = cids E ep
  /\ (forall j c' (s : esa E), nth_error (table E ep) j = Some (c', s) -> c' <> c ->
        nth_error (table E (do_call E ep c r)) j = Some (c', s))
  /\ (forall j (s : esa E), NoDup (cids E ep) -> nth_error (table E ep) j = Some (c, s) ->
        nth_error (table E (do_call E ep c r)) j = Some (c, snd (leave E ep (fst r)))).
Proof. exact call_frame. Qed.
Print Assumptions C17E_a_timer_touches_only_its_own_ike_sa.

(** no IkeSa that ENDED (delete exchange, fatal error of a handler, retransmission give-up) is in the table after the
    iteration in which it ended, and a rekeyed one has handed its successor over exactly once - for every event *)
Theorem C17E_no_dead_entry_survives_an_iteration : forall E (ep : endpoint E) tnow tp e,
  AllQ E (table E ep) -> AllQ E (table E (iteration E ep tnow tp e)).
Proof. exact iteration_table. Qed.
Print Assumptions C17E_no_dead_entry_survives_an_iteration.

Theorem C17E_no_dead_entry_in_any_history : forall E evs (ep : endpoint E),
  AllQ E (table E ep) -> AllQ E (table E (run E ep evs)).
Proof. exact run_table. Qed.
Print Assumptions C17E_no_dead_entry_in_any_history.

(** creation indices (object identities) stay unique and below the counter for every event, tape and verdicts *)
Theorem C17E_identities_stay_unique : forall E (ep : endpoint E) tnow tp e,
  CidOK E (table E ep) (next_cid E ep) ->
  CidOK E (table E (pre_timers E ep tnow tp e)) (next_cid E (pre_timers E ep tnow tp e))
  /\ CidOK E (table E (iteration E ep tnow tp e)) (next_cid E (iteration E ep tnow tp e)).
Proof. exact cidok_iteration. Qed.
Print Assumptions C17E_identities_stay_unique.

(** every installed kernel SA belongs to a CHILD_SA of an IkeSa that is still listed - nothing an event did left an
    orphan behind (under the endpoint invariant, which every iteration preserves under a faithful kernel: C10E) *)
Theorem C17E_no_orphaned_kernel_sa : forall E (ep : endpoint E) sd k,
  EInv E ep sd -> In k sd -> exists c s, In (c, s) (table E ep) /\ In k (tracked (inner (hdl_iface E) s)).
Proof. exact einv_owner. Qed.
Print Assumptions C17E_no_orphaned_kernel_sa.
