(** C16 (status): the control-socket status query on the whole-endpoint model (Endpoint.v).  The query is the event
    [Ev_status] of one [iteration] of main_loop; the answer is the field [ep_status] of the endpoint after the
    iteration.  No theorem here has a hypothesis on the tape, the clock, the kernel verdicts or the table. *)
From Coq Require Import ZArith NArith Bool List.
From RecordUpdate Require Import RecordSet.
From VLib Require Import Bytes.
From IkeSa Require Import Gen.IkeFacts Shell Hdl HdlSad Endpoint EndpointSad EndpointTimers EndpointStatus.
Import ListNotations RecordSetNotations.
Open Scope Z_scope.

(** what one entry of the answer says about its IkeSa (IkeSa.to_dict as far as it is state): local and peer SPI,
    role, state, message ID, and for every CHILD_SA its two SPIs, protocol and mode *)
Theorem C16S_def_status_of : forall E (s : esa E),
  su_my_spi (status_of E s) = my_spi_b (co (inner (hdl_iface E) s))
  /\ su_peer_spi (status_of E s) = peer_spi_b (co (inner (hdl_iface E) s))
  /\ su_init (status_of E s) = is_init (hdl_iface E) s
  /\ su_state (status_of E s) = state (hdl_iface E) s
  /\ su_msg_id (status_of E s) = my_id (hdl_iface E) s
  /\ su_children (status_of E s)
     = map (fun ch => (c_in ch, c_out ch, pr_proto (c_prop ch), c_mode ch)) (children (co (inner (hdl_iface E) s))).
Proof. exact def_status_of. Qed.
Print Assumptions C16S_def_status_of.

(** the timer section (retransmission loop, DPD sweep, lifetime sweep, with every removal) never writes the answer *)
Theorem C16S_timers_keep_status : forall E (ep : endpoint E),
  ep_status E (timers E ep) = ep_status E ep.
Proof. exact timers_keep_status. Qed.
Print Assumptions C16S_timers_keep_status.

(** the answer to a query: exactly one entry per table row, in table order, describing the table AS IT WAS when the
    query arrived - before the timer section of the same iteration *)
Theorem C16S_status_query_reports_the_table : forall E (ep : endpoint E) tnow tp,
  ep_status E (iteration E ep tnow tp Ev_status) = Some (map (fun x => status_of E (snd x)) (table E ep)).
Proof. exact status_query_reports_the_table. Qed.
Print Assumptions C16S_status_query_reports_the_table.

(** corollary: there is an answer, it is as long as the table, and its n-th entry describes the n-th row *)
Theorem C16S_status_query_length : forall E (ep : endpoint E) tnow tp,
  exists l, ep_status E (iteration E ep tnow tp Ev_status) = Some l /\ length l = length (table E ep)
            /\ forall n c s, nth_error (table E ep) n = Some (c, s) -> nth_error l n = Some (status_of E s).
Proof. exact status_query_length. Qed.
Print Assumptions C16S_status_query_length.

(** no answer without a query: a datagram, a kernel ACQUIRE, a kernel EXPIRE or an idle iteration leave none *)
Theorem C16S_no_status_without_query : forall E (ep : endpoint E) tnow tp,
  (forall d, ep_status E (iteration E ep tnow tp (Ev_datagram d)) = None)
  /\ (forall my peer tsi tsr index, ep_status E (iteration E ep tnow tp (Ev_acquire my peer tsi tsr index)) = None)
  /\ (forall spi hard, ep_status E (iteration E ep tnow tp (Ev_expire spi hard)) = None)
  /\ ep_status E (iteration E ep tnow tp Ev_none) = None.
Proof. exact no_status_for_other_events. Qed.
Print Assumptions C16S_no_status_without_query.

Theorem C16S_no_status_without_query_any : forall E (ep : endpoint E) tnow tp e,
  e <> Ev_status -> ep_status E (iteration E ep tnow tp e) = None.
Proof. exact no_status_without_query. Qed.
Print Assumptions C16S_no_status_without_query_any.

(** the query has no effect on the daemon: every other field of the endpoint after an iteration with the query is
    what it is after the same iteration without an event *)
Theorem C16S_status_query_changes_nothing_else : forall E (ep : endpoint E) tnow tp,
  let a := iteration E ep tnow tp Ev_status in
  let b := iteration E ep tnow tp Ev_none in
  table E a = table E b /\ next_cid E a = next_cid E b /\ confs E a = confs E b
  /\ ep_cookie_secret E a = ep_cookie_secret E b /\ ep_tape E a = ep_tape E b /\ ep_now E a = ep_now E b
  /\ ep_kops E a = ep_kops E b /\ ep_sent E a = ep_sent E b /\ ep_routed E a = ep_routed E b.
Proof. exact status_query_changes_nothing_else. Qed.
Print Assumptions C16S_status_query_changes_nothing_else.

(** non-vacuity: a table of two IkeSas, A (one CHILD_SA, retransmissions used up) and B; the iteration at t = 100
    that carries the query also removes A in its timer section - the answer lists both A and B with their states,
    the table afterwards holds B only; the same iteration without the query leaves no answer *)
Theorem C16S_example : 
  StatusExample.brief (ep_status HdlSad.Example.E0 StatusExample.after)
  = Some [(my_spi_b (co (inner (hdl_iface HdlSad.Example.E0) TimersExample.sA)), false, ST_NEW_CHILD_REQ_SENT, 0, 1%nat);
          (my_spi_b (co (inner (hdl_iface HdlSad.Example.E0) TimersExample.sB)), false, ST_NEW_CHILD_REQ_SENT, 0, 0%nat)]
  /\ ep_status HdlSad.Example.E0 StatusExample.after
     = Some [status_of HdlSad.Example.E0 TimersExample.sA; status_of HdlSad.Example.E0 TimersExample.sB]
  /\ map fst (table HdlSad.Example.E0 StatusExample.after) = [1%nat]
  /\ ep_status HdlSad.Example.E0 (iteration HdlSad.Example.E0 StatusExample.ep2 100 TimersExample.tp1 Ev_none) = None.
Proof. exact StatusExample.status_answer. Qed.
Print Assumptions C16S_example.
