(** C15, second half, on the handler model (Hdl.process_acquire), the shell (Shell.process_trigger) and the whole-endpoint
    model (Endpoint.acquire = IkeSaController.process_acquire):
    "A kernel ACQUIRE carrying an installed outbound policy's index is negotiated with that connection's peer (re-using
     an IKE_SA with it if one exists), with that entry's proposal, mode and lifetime and with selectors that lie inside
     the entry's, and an ACQUIRE for an unknown index is ignored."
    A connection is the address pair (my_addr, peer_addr).  No hypothesis on the cryptographic environment [E]; where a
    theorem says what a tape "that fits" produces, the converse theorems say that nothing else produces a request. *)
From Coq Require Import ZArith NArith Bool List.
From RecordUpdate Require Import RecordSet.
From VLib Require Import Bytes.
From IkeSa Require Import Gen.IkeFacts Shell Hdl HdlSad HdlAuth HdlAgree HdlNego Endpoint EndpointSad EndpointAcquire.
Import ListNotations RecordSetNotations.
Open Scope Z_scope.

(* ------------------------------------------------------------------------------------------------ *)
(** * The vocabulary of the statements *)

(** the protect entry an index selects: the first one of the configuration that carries it *)
Theorem C15E_def_entry_of : forall index c,
  entry_of index c = find (fun p => Z.eqb (pt_index p) index) (cf_protect c).
Proof. exact entry_of_def. Qed.
Print Assumptions C15E_def_entry_of.

(** ... so when several entries share the index, the FIRST is the one *)
Theorem C15E_entry_is_the_first_with_the_index : forall index c p,
  entry_of index c = Some p <->
  exists l1 l2, cf_protect c = l1 ++ p :: l2 /\ pt_index p = index /\ forall q, In q l1 -> pt_index q <> index.
Proof. exact entry_of_some. Qed.
Print Assumptions C15E_entry_is_the_first_with_the_index.

Theorem C15E_unknown_index_iff : forall index c,
  entry_of index c = None <-> forall q, In q (cf_protect c) -> pt_index q <> index.
Proof. exact entry_of_none. Qed.
Print Assumptions C15E_unknown_index_iff.

(** the CHILD_SA under negotiation: fresh inbound SPI, the entry's proposal, the ACQUIRE's selectors followed by the
    entry's, the entry's mode and lifetime *)
Theorem C15E_def_acquire_child : forall inb tsi tsr p,
  acquire_child inb tsi tsr p
  = mk_child inb [0; 0; 0; 0]%N (pt_prop p) (pt_prop p) [tsi; pt_my_ts p] [tsr; pt_peer_ts p] (pt_mode p) (pt_life p).
Proof. exact acquire_child_def. Qed.
Print Assumptions C15E_def_acquire_child.

(** the CHILD_SA payloads of the request: TSi, TSr, SA (the entry's proposal carrying the fresh SPI), the optional KE,
    USE_TRANSPORT_MODE iff the entry's mode is transport *)
Theorem C15E_def_acquire_payloads : forall inb tsi tsr p ke,
  acquire_payloads inb tsi tsr p ke
  = [P_TSi [tsi; pt_my_ts p]; P_TSr [tsr; pt_peer_ts p];
     P_SA [mk_prop (pr_num (pt_prop p)) (pr_proto (pt_prop p)) inb (pr_trs (pt_prop p))]]
    ++ ke ++ (if Z.eqb (pt_mode p) MODE_TRANSPORT then [P_NOTIFY PROTO_NONE N_USE_TRANSPORT_MODE [] []] else []).
Proof. exact acquire_payloads_def. Qed.
Print Assumptions C15E_def_acquire_payloads.

(** the optional key exchange: draws [kd], payload [ke], stored handle [dhv] *)
Theorem C15E_def_ke_step : forall p kd ke dhv,
  ke_step p kd ke dhv <->
  match get_transforms (pt_prop p) T_DH with
  | [] => kd = [] /\ ke = [] /\ dhv = None
  | t :: _ => exists h pub, kd = [D_dh (tr_id t) h pub] /\ ke = [P_KE (tr_id t) pub] /\ dhv = Some (tr_id t, h)
  end.
Proof. exact ke_step_def. Qed.
Print Assumptions C15E_def_ke_step.

Theorem C15E_def_ccsa_request : forall inb tsi tsr p ke n,
  ccsa_request inb tsi tsr p ke n = (EX_CREATE_CHILD_SA, acquire_payloads inb tsi tsr p ke ++ [P_NONCE n]).
Proof. exact ccsa_request_def. Qed.
Print Assumptions C15E_def_ccsa_request.

Theorem C15E_def_established_after : forall s ch rq dhv r,
  established_after s ch rq dhv r
  = mk_isa ((co s) <| creating := Some ch |> <| dh := match dhv with Some x => Some x | None => dh (co s) end |>
                   <| request := Some rq |> <| st := ST_NEW_CHILD_REQ_SENT |>)
           (new_sa s) (rek_push s) (now s) r (kops s).
Proof. exact established_after_def. Qed.
Print Assumptions C15E_def_established_after.

Theorem C15E_def_init_request : forall c n t pub,
  init_request c n t pub
  = (EX_IKE_SA_INIT,
     [P_SA [mk_prop (pr_num (cf_prop (cfg c))) (pr_proto (cf_prop (cfg c))) (my_spi_b c) (pr_trs (cf_prop (cfg c)))];
      P_NONCE n; P_KE (tr_id t) pub; P_VENDOR VENDOR_ID]).
Proof. exact init_request_def. Qed.
Print Assumptions C15E_def_init_request.

Theorem C15E_def_initial_after : forall s ch rq t h r,
  initial_after s ch rq t h r
  = mk_isa ((co s) <| chosen := Some (mk_prop (pr_num (cf_prop (cfg (co s)))) (pr_proto (cf_prop (cfg (co s))))
                                              (my_spi_b (co s)) (pr_trs (cf_prop (cfg (co s))))) |>
                   <| dh := Some (tr_id t, h) |> <| request := Some rq |> <| st := ST_INIT_REQ_SENT |>
                   <| init_req := Some (hdr_of (co s) EX_IKE_SA_INIT false 0, (snd rq, [])) |> <| creating := Some ch |>)
           (new_sa s) (rek_push s) (now s) r (kops s).
Proof. exact initial_after_def. Qed.
Print Assumptions C15E_def_initial_after.

(** _send_request: the datagram is stamped and kept for retransmission *)
Theorem C15E_def_sent_request : forall E (s : sa (hdl_iface E)) i' now x b,
  sent_request E s i' now x b
  = (mk_sa (hdl_iface E) i' (is_init _ s) (my_spi _ s) (my_id _ s) (peer_id _ s) (last_resp _ s)
           (Some (mk_dgram (stamp_request (hdl_iface E) (with_inner _ s i') x) b)) (now + RETRANSMISSION_DELAY) 1
           (dpd_at _ s) (rek_at _ s) (del_at _ s) (dpd_cfg _ s) (pending _ s),
     Some (mk_dgram (stamp_request (hdl_iface E) (with_inner _ s i') x) b)).
Proof. exact sent_request_def. Qed.
Print Assumptions C15E_def_sent_request.

Theorem C15E_def_of_connection : forall E my peer (s : esa E),
  of_connection E my peer s <-> my_addr (co (inner (hdl_iface E) s)) = my /\ peer_addr (co (inner (hdl_iface E) s)) = peer.
Proof. exact of_connection_def. Qed.
Print Assumptions C15E_def_of_connection.

(** the IkeSas that _get_ike_sa_by_addrs passes over (fix of finding F22): those on their way out *)
Theorem C15E_def_acquire_usable : forall z,
  acquire_usable z = negb (Z.eqb z ST_REKEYED || Z.eqb z ST_DEL_AFTER_REKEY_IKE_SA_REQ_SENT
                           || Z.eqb z ST_DEL_IKE_SA_REQ_SENT || Z.eqb z ST_DELETED).
Proof. exact acquire_usable_def. Qed.
Print Assumptions C15E_def_acquire_usable.

Theorem C15E_acquire_usable_false_iff : forall z,
  acquire_usable z = false <->
  z = ST_REKEYED \/ z = ST_DEL_AFTER_REKEY_IKE_SA_REQ_SENT \/ z = ST_DEL_IKE_SA_REQ_SENT \/ z = ST_DELETED.
Proof. exact acquire_usable_false. Qed.
Print Assumptions C15E_acquire_usable_false_iff.

Theorem C15E_def_usable : forall E (s : esa E), usable E s <-> acquire_usable (state (hdl_iface E) s) = true.
Proof. exact usable_def. Qed.
Print Assumptions C15E_def_usable.

(** "serves the connection": of the connection and usable *)
Theorem C15E_def_serves : forall E my peer (s : esa E), serves E my peer s <-> of_connection E my peer s /\ usable E s.
Proof. exact serves_def. Qed.
Print Assumptions C15E_def_serves.

Theorem C15E_not_serves_iff : forall E my peer (s : esa E),
  ~ serves E my peer s <-> ~ of_connection E my peer s \/ acquire_usable (state (hdl_iface E) s) = false.
Proof. exact not_serves. Qed.
Print Assumptions C15E_not_serves_iff.

(** [(cid, s)] is the first table entry that serves the connection *)
Theorem C15E_def_first_of_connection : forall E (ep : endpoint E) my peer cid s t1 t2,
  first_of_connection E ep my peer cid s t1 t2 <->
  table E ep = t1 ++ (cid, s) :: t2 /\ serves E my peer s /\ forall c x, In (c, x) t1 -> ~ serves E my peer x.
Proof. exact first_of_connection_def. Qed.
Print Assumptions C15E_def_first_of_connection.

(** the handler-owned part of an IkeSa as it is stored back after a call (tape and kernel log handed back) *)
Theorem C15E_def_stored : forall E (ep : endpoint E) i, stored E ep i = mk_isa (co i) (new_sa i) None (ep_now E ep) [] [].
Proof. exact stored_def. Qed.
Print Assumptions C15E_def_stored.

(** IkeSa.__init__ by the controller: SPI [spi] and rekey jitter [j] are the two draws *)
Theorem C15E_def_fresh_core : forall E (ep : endpoint E) ii pspi c my peer spi j,
  fresh_core E ep ii pspi c my peer spi j
  = mk_core ST_INITIAL ii spi pspi my peer c None None None [] None None None None None None None None
            (ep_now E ep + cf_dpd c) (ep_now E ep + cf_life c + j) (ep_now E ep + cf_life c + j + DELETE_AFTER) false.
Proof. exact fresh_core_def. Qed.
Print Assumptions C15E_def_fresh_core.

Theorem C15E_def_created : forall E (ep : endpoint E) s0 r,
  created E ep s0 r
  = mk_ep E (table E ep ++ [(next_cid E ep, s0)]) (S (next_cid E ep)) (confs E ep) (ep_cookie_secret E ep) r (ep_now E ep)
          (ep_kops E ep) (ep_sent E ep) (ep_routed E ep) (ep_status E ep).
Proof. exact created_def. Qed.
Print Assumptions C15E_def_created.

Theorem C15E_def_optlist : forall A (o : option A), optlist o = match o with Some x => [x] | None => [] end.
Proof. exact @optlist_def. Qed.
Print Assumptions C15E_def_optlist.

Theorem C15E_def_ob_acq : forall s,
  ob_acq s = (cfg (co s), my_addr (co s), peer_addr (co s), c_init (co s), my_spi_b (co s), peer_spi_b (co s),
              children (co s), kr (co s), cprop (co s), kops s, new_sa s, rek_push s, now s).
Proof. exact ob_acq_def. Qed.
Print Assumptions C15E_def_ob_acq.

(* ------------------------------------------------------------------------------------------------ *)
(** * The controller: which IkeSa serves the ACQUIRE *)

(** 1. neither a usable IkeSa nor a configuration for the connection: the endpoint is literally unchanged *)
Theorem C15E_unknown_peer : forall E (ep : endpoint E) my peer tsi tsr index,
  (forall c x, In (c, x) (table E ep) -> ~ serves E my peer x) -> find_conf E ep my peer = None ->
  acquire E ep my peer tsi tsr index = ep.
Proof. exact acquire_unknown_peer. Qed.
Print Assumptions C15E_unknown_peer.

(** 2. some usable IkeSa of the connection exists: the trigger is processed by the FIRST such (under its creation index),
    every other entry is untouched, none is created, no kernel operation; an IkeSa with the same peer but another local
    address is not "of the connection" (F18) *)
Theorem C15E_reuses_first_ike_sa_of_the_connection : forall E (ep : endpoint E) my peer tsi tsr index,
  (exists c x, In (c, x) (table E ep) /\ serves E my peer x) ->
  exists t1 cid s t2,
    table E ep = t1 ++ (cid, s) :: t2 /\ serves E my peer s /\
    (forall c x, In (c, x) t1 -> ~ serves E my peer x) /\
    let r := process_trigger (hdl_iface E) (enter E ep s) (ep_now E ep) (E_acquire tsi tsr index) in
    table E (acquire E ep my peer tsi tsr index) = replace E (table E ep) cid (snd (leave E ep (fst r))) /\
    (~ In cid (map fst t1) ->
     table E (acquire E ep my peer tsi tsr index) = t1 ++ (cid, snd (leave E ep (fst r))) :: t2) /\
    next_cid E (acquire E ep my peer tsi tsr index) = next_cid E ep /\
    confs E (acquire E ep my peer tsi tsr index) = confs E ep /\
    ep_kops E (acquire E ep my peer tsi tsr index) = ep_kops E ep /\
    ep_sent E (acquire E ep my peer tsi tsr index) = ep_sent E ep ++ optlist (snd r) /\
    ep_tape E (acquire E ep my peer tsi tsr index) = tape (inner (hdl_iface E) (fst r)).
Proof. exact acquire_reuses_first. Qed.
Print Assumptions C15E_reuses_first_ike_sa_of_the_connection.

(** 3. no usable IkeSa of the connection, a configuration [c] for it: IkeSa(is_initiator=True, configuration=c, my, peer) is
    created under the next creation index (two draws; without them __init__ does not return and nothing changes), the
    trigger is processed by it, and it stays (appended last) unless it is still INITIAL afterwards *)
Theorem C15E_creates_initiator_of_the_connection : forall E (ep : endpoint E) my peer tsi tsr index c,
  (forall c x, In (c, x) (table E ep) -> ~ serves E my peer x) -> find_conf E ep my peer = Some c ->
  ((forall spi j r, ep_tape E ep <> D_bytes spi :: D_num j :: r) /\ acquire E ep my peer tsi tsr index = ep)
  \/
  exists spi j r,
    ep_tape E ep = D_bytes spi :: D_num j :: r /\
    let s0 := sa_of_core E (fresh_core E ep true (repeat 0%N 8) c my peer spi j) in
    let ep0 := created E ep s0 r in
    let rr := process_trigger (hdl_iface E) (enter E ep0 s0) (ep_now E ep) (E_acquire tsi tsr index) in
    create E ep true (repeat 0%N 8) c my peer = Some (ep0, next_cid E ep, s0) /\
    ((forall x, In x (map fst (table E ep)) -> (x < next_cid E ep)%nat) ->
     table E (acquire E ep my peer tsi tsr index)
     = (if acquire_drop_unstarted (state (hdl_iface E) (fst rr)) then table E ep
        else table E ep ++ [(next_cid E ep, snd (leave E ep0 (fst rr)))])) /\
    next_cid E (acquire E ep my peer tsi tsr index) = S (next_cid E ep) /\
    confs E (acquire E ep my peer tsi tsr index) = confs E ep /\
    ep_kops E (acquire E ep my peer tsi tsr index) = ep_kops E ep /\
    ep_sent E (acquire E ep my peer tsi tsr index) = ep_sent E ep ++ optlist (snd rr) /\
    ep_tape E (acquire E ep my peer tsi tsr index) = tape (inner (hdl_iface E) (fst rr)).
Proof. exact acquire_creates_initiator. Qed.
Print Assumptions C15E_creates_initiator_of_the_connection.

Theorem C15E_new_initiator : forall E (ep : endpoint E) c my peer spi j,
  let s0 := sa_of_core E (fresh_core E ep true (repeat 0%N 8) c my peer spi j) in
  is_init (hdl_iface E) s0 = true /\ cfg (co (inner (hdl_iface E) s0)) = c /\ of_connection E my peer s0 /\ usable E s0 /\
  state (hdl_iface E) s0 = ST_INITIAL /\
  my_spi (hdl_iface E) s0 = spiZ spi /\ my_spi_b (co (inner (hdl_iface E) s0)) = spi /\
  peer_spi_b (co (inner (hdl_iface E) s0)) = repeat 0%N 8 /\
  my_id (hdl_iface E) s0 = 0 /\ peer_id (hdl_iface E) s0 = 0 /\ pending (hdl_iface E) s0 = [] /\
  children (co (inner (hdl_iface E) s0)) = [] /\
  kr (co (inner (hdl_iface E) s0)) = None /\ new_sa (inner (hdl_iface E) s0) = None /\
  req_data (hdl_iface E) s0 = None /\ last_resp (hdl_iface E) s0 = None.
Proof. exact fresh_initiator_facts. Qed.
Print Assumptions C15E_new_initiator.

Theorem C15E_create_needs_two_draws : forall E (ep : endpoint E) ii pspi c my peer,
  create E ep ii pspi c my peer = None <-> forall spi j r, ep_tape E ep <> D_bytes spi :: D_num j :: r.
Proof. exact create_none. Qed.
Print Assumptions C15E_create_needs_two_draws.

(** the F21 clause as proved with the table invariant in EndpointSad: an initiator created for an ACQUIRE that is still
    INITIAL after the trigger leaves the table as it was *)
Theorem C15E_unstarted_acquire_leaves_nothing : forall E (ep : endpoint E) my peer tsi tsr index c ep0 cid (s0 : esa E),
  (forall x, In x (map fst (table E ep)) -> (x < next_cid E ep)%nat) ->
  find (fun x : nat * esa E => Z.eqb (my_addr (co (inner (hdl_iface E) (snd x)))) my
                               && Z.eqb (peer_addr (co (inner (hdl_iface E) (snd x)))) peer
                               && acquire_usable (state (hdl_iface E) (snd x))) (table E ep) = None ->
  find_conf E ep my peer = Some c ->
  create E ep true (repeat 0%N 8) c my peer = Some (ep0, cid, s0) ->
  let r := process_trigger (hdl_iface E) (enter E ep0 s0) (ep_now E ep0) (E_acquire tsi tsr index) in
  state (hdl_iface E) (fst r) = ST_INITIAL ->
  table E (acquire E ep my peer tsi tsr index) = table E ep
  /\ ep_kops E (acquire E ep my peer tsi tsr index) = ep_kops E ep
  /\ ep_sent E (acquire E ep my peer tsi tsr index) = ep_sent E (send E ep (snd r)).
Proof. exact unstarted_acquire_leaves_nothing. Qed.
Print Assumptions C15E_unstarted_acquire_leaves_nothing.

(** IkeSas that do not serve the connection - other connections (same peer, other local address included) and IkeSas
    on their way out - keep their place and their content *)
Theorem C15E_other_connections_untouched : forall E (ep : endpoint E) my peer tsi tsr index c x,
  NoDup (map fst (table E ep)) -> (forall y, In y (map fst (table E ep)) -> (y < next_cid E ep)%nat) ->
  In (c, x) (table E ep) -> ~ serves E my peer x ->
  In (c, x) (table E (acquire E ep my peer tsi tsr index)).
Proof. exact acquire_leaves_other_connections. Qed.
Print Assumptions C15E_other_connections_untouched.

(* ------------------------------------------------------------------------------------------------ *)
(** * (F22) IkeSas on their way out are passed over *)

(** the IkeSa that is handed the ACQUIRE is of the connection and usable; whatever precedes it in the table is of
    another connection or REKEYED / DEL_AFTER_REKEY_IKE_SA_REQ_SENT / DEL_IKE_SA_REQ_SENT / DELETED *)
Theorem C15E_closing_ike_sa_passed_over : forall E (ep : endpoint E) my peer tsi tsr index,
  (exists c x, In (c, x) (table E ep) /\ of_connection E my peer x /\ acquire_usable (state (hdl_iface E) x) = true) ->
  exists t1 cid s t2,
    table E ep = t1 ++ (cid, s) :: t2 /\ of_connection E my peer s /\ acquire_usable (state (hdl_iface E) s) = true /\
    (forall c x, In (c, x) t1 -> ~ of_connection E my peer x \/ acquire_usable (state (hdl_iface E) x) = false) /\
    let r := process_trigger (hdl_iface E) (enter E ep s) (ep_now E ep) (E_acquire tsi tsr index) in
    table E (acquire E ep my peer tsi tsr index) = replace E (table E ep) cid (snd (leave E ep (fst r))) /\
    ep_sent E (acquire E ep my peer tsi tsr index) = ep_sent E ep ++ optlist (snd r).
Proof. exact acquire_passes_over_closing. Qed.
Print Assumptions C15E_closing_ike_sa_passed_over.

(** ... and an IkeSa in one of the four states is never handed the ACQUIRE: it keeps its place and its content (its
    queue included) *)
Theorem C15E_closing_ike_sa_untouched : forall E (ep : endpoint E) my peer tsi tsr index c x,
  NoDup (map fst (table E ep)) -> (forall y, In y (map fst (table E ep)) -> (y < next_cid E ep)%nat) ->
  In (c, x) (table E ep) -> acquire_usable (state (hdl_iface E) x) = false ->
  In (c, x) (table E (acquire E ep my peer tsi tsr index)).
Proof. exact closing_ike_sa_untouched. Qed.
Print Assumptions C15E_closing_ike_sa_untouched.

(** the rekey window: an ESTABLISHED IkeSa of the connection preceded, within the connection, only by IkeSas on their
    way out (the old REKEYED / DEL_AFTER_REKEY_IKE_SA_REQ_SENT one) is the one that processes the trigger; it is
    [first_of_connection], so C15E_established_endpoint applies to it *)
Theorem C15E_established_ike_sa_of_the_connection_is_used : forall E (ep : endpoint E) my peer tsi tsr index t1 cid s t2,
  table E ep = t1 ++ (cid, s) :: t2 -> of_connection E my peer s -> state (hdl_iface E) s = ST_ESTABLISHED ->
  (forall c x, In (c, x) t1 -> of_connection E my peer x -> acquire_usable (state (hdl_iface E) x) = false) ->
  first_of_connection E ep my peer cid s t1 t2 /\
  let r := process_trigger (hdl_iface E) (enter E ep s) (ep_now E ep) (E_acquire tsi tsr index) in
  table E (acquire E ep my peer tsi tsr index) = replace E (table E ep) cid (snd (leave E ep (fst r))) /\
  (~ In cid (map fst t1) ->
   table E (acquire E ep my peer tsi tsr index) = t1 ++ (cid, snd (leave E ep (fst r))) :: t2) /\
  next_cid E (acquire E ep my peer tsi tsr index) = next_cid E ep /\
  confs E (acquire E ep my peer tsi tsr index) = confs E ep /\
  ep_kops E (acquire E ep my peer tsi tsr index) = ep_kops E ep /\
  ep_sent E (acquire E ep my peer tsi tsr index) = ep_sent E ep ++ optlist (snd r) /\
  ep_tape E (acquire E ep my peer tsi tsr index) = tape (inner (hdl_iface E) (fst r)).
Proof. exact established_ike_sa_is_used. Qed.
Print Assumptions C15E_established_ike_sa_of_the_connection_is_used.

(* ------------------------------------------------------------------------------------------------ *)
(** * What an ACQUIRE never does *)

(** whatever the state, the index and the tape: configuration, addresses, SPIs, keys, CHILD_SAs, kernel log (no kernel
    operation), successor, clock of the IkeSa, and the shell's identifiers and timers are untouched *)
Theorem C15E_acquire_frame : forall E (s : sa (hdl_iface E)) now tsi tsr index,
  let s2 := fst (process_trigger (hdl_iface E) s now (E_acquire tsi tsr index)) in
  ob_acq (inner (hdl_iface E) s2) = ob_acq (inner (hdl_iface E) s) /\
  is_init _ s2 = is_init _ s /\ my_spi _ s2 = my_spi _ s /\ my_id _ s2 = my_id _ s /\ peer_id _ s2 = peer_id _ s /\
  last_resp _ s2 = last_resp _ s /\ dpd_at _ s2 = dpd_at _ s /\ rek_at _ s2 = rek_at _ s /\ del_at _ s2 = del_at _ s /\
  dpd_cfg _ s2 = dpd_cfg _ s.
Proof. exact trigger_acquire_frame. Qed.
Print Assumptions C15E_acquire_frame.

(** when no request comes out the retransmission data are untouched as well, and the queue grew only if it was busy *)
Theorem C15E_acquire_without_request : forall E (s : sa (hdl_iface E)) now tsi tsr index s2,
  process_trigger (hdl_iface E) s now (E_acquire tsi tsr index) = (s2, None) ->
  req_data _ s2 = req_data _ s /\ rt_at _ s2 = rt_at _ s /\ rt_n _ s2 = rt_n _ s /\
  (pending _ s2 = pending _ s \/
   acquire_must_queue (state _ s) = true /\ pending _ s2 = pending _ s ++ [E_acquire tsi tsr index] /\
   inner _ s2 = inner _ s).
Proof. exact trigger_acquire_none. Qed.
Print Assumptions C15E_acquire_without_request.

(** the whole endpoint: no kernel operation, configurations untouched, at most one datagram, and that datagram is a
    CREATE_CHILD_SA request of the first IkeSa of the connection (ESTABLISHED) or the IKE_SA_INIT request of the IkeSa
    just created from the connection's configuration - built from the first protect entry with the ACQUIRE's index *)
Theorem C15E_acquire_outcome : forall E (ep : endpoint E) my peer tsi tsr index,
  ep_kops E (acquire E ep my peer tsi tsr index) = ep_kops E ep /\
  confs E (acquire E ep my peer tsi tsr index) = confs E ep /\
  (ep_sent E (acquire E ep my peer tsi tsr index) = ep_sent E ep \/
   exists s p inb d,
     ep_sent E (acquire E ep my peer tsi tsr index) = ep_sent E ep ++ [d] /\
     ((exists cid t1 t2, first_of_connection E ep my peer cid s t1 t2) \/
      ((forall c x, In (c, x) (table E ep) -> ~ serves E my peer x) /\
       exists c spi j r, find_conf E ep my peer = Some c /\ ep_tape E ep = D_bytes spi :: D_num j :: r /\
                         s = sa_of_core E (fresh_core E ep true (repeat 0%N 8) c my peer spi j))) /\
     serves E my peer s /\ entry_of index (cfg (co (inner (hdl_iface E) s))) = Some p /\
     ((state (hdl_iface E) s = ST_ESTABLISHED /\
       exists kd ke dhv n, ke_step p kd ke dhv /\
         d = mk_dgram (stamp_request (hdl_iface E) s EX_CREATE_CHILD_SA)
                      ([], acquire_payloads inb tsi tsr p ke ++ [P_NONCE n]))
      \/
      (state (hdl_iface E) s = ST_INITIAL /\
       exists n t pub, hd_error (get_transforms (cf_prop (cfg (co (inner (hdl_iface E) s)))) T_DH) = Some t /\
         d = mk_dgram (stamp_request (hdl_iface E) s EX_IKE_SA_INIT)
                      (snd (init_request (co (inner (hdl_iface E) s)) n t pub), [])))).
Proof. exact acquire_outcome. Qed.
Print Assumptions C15E_acquire_outcome.

(* ------------------------------------------------------------------------------------------------ *)
(** * 4. Unknown index *)

Theorem C15E_unknown_index_ignored_by_the_handler : forall tsi tsr index s,
  entry_of index (cfg (co s)) = None -> process_acquire tsi tsr index s = (Ok None, s).
Proof. exact process_acquire_unknown. Qed.
Print Assumptions C15E_unknown_index_ignored_by_the_handler.

(** in every state: queued when busy (and ignored when the queue is run), else nothing but the flag the shell clears
    before every call *)
Theorem C15E_unknown_index_ignored : forall E (s : sa (hdl_iface E)) now tsi tsr index,
  entry_of index (cfg (co (inner (hdl_iface E) s))) = None ->
  process_trigger (hdl_iface E) s now (E_acquire tsi tsr index)
  = if acquire_must_queue (state (hdl_iface E) s)
    then (set_pending (hdl_iface E) s (pending (hdl_iface E) s ++ [E_acquire tsi tsr index]), None)
    else (with_inner (hdl_iface E) s (clear_flags (inner (hdl_iface E) s)), None).
Proof. exact trigger_unknown_index. Qed.
Print Assumptions C15E_unknown_index_ignored.

Theorem C15E_unknown_index_existing_ike_sa : forall E (ep : endpoint E) my peer tsi tsr index cid s t1 t2,
  first_of_connection E ep my peer cid s t1 t2 -> acquire_must_queue (state (hdl_iface E) s) = false ->
  entry_of index (cfg (co (inner (hdl_iface E) s))) = None ->
  let s' := with_inner (hdl_iface E) s (stored E ep (clear_flags (inner (hdl_iface E) s))) in
  table E (acquire E ep my peer tsi tsr index) = replace E (table E ep) cid s' /\
  (~ In cid (map fst t1) -> table E (acquire E ep my peer tsi tsr index) = t1 ++ (cid, s') :: t2) /\
  next_cid E (acquire E ep my peer tsi tsr index) = next_cid E ep /\
  ep_kops E (acquire E ep my peer tsi tsr index) = ep_kops E ep /\
  ep_sent E (acquire E ep my peer tsi tsr index) = ep_sent E ep /\
  ep_tape E (acquire E ep my peer tsi tsr index) = ep_tape E ep.
Proof. exact acquire_unknown_index_existing. Qed.
Print Assumptions C15E_unknown_index_existing_ike_sa.

(** (F21) no IkeSa of the connection and no entry with that index in the connection's configuration (or no
    configuration): table, kernel, sockets and configurations see nothing, whatever the tape *)
Theorem C15E_unknown_index_no_ike_sa : forall E (ep : endpoint E) my peer tsi tsr index,
  (forall c x, In (c, x) (table E ep) -> ~ serves E my peer x) ->
  (forall c, find_conf E ep my peer = Some c -> entry_of index c = None) ->
  (forall x, In x (map fst (table E ep)) -> (x < next_cid E ep)%nat) ->
  table E (acquire E ep my peer tsi tsr index) = table E ep /\
  confs E (acquire E ep my peer tsi tsr index) = confs E ep /\
  ep_kops E (acquire E ep my peer tsi tsr index) = ep_kops E ep /\
  ep_sent E (acquire E ep my peer tsi tsr index) = ep_sent E ep.
Proof. exact acquire_unknown_index_no_ike_sa. Qed.
Print Assumptions C15E_unknown_index_no_ike_sa.

(* ------------------------------------------------------------------------------------------------ *)
(** * 5. Busy IkeSa *)

Theorem C15E_busy_states : forall z, acquire_must_queue z = false <-> z = ST_INITIAL \/ z = ST_ESTABLISHED.
Proof. exact must_queue_false. Qed.
Print Assumptions C15E_busy_states.

Theorem C15E_queued_when_busy : forall E (s : sa (hdl_iface E)) now tsi tsr index,
  acquire_must_queue (state (hdl_iface E) s) = true ->
  process_trigger (hdl_iface E) s now (E_acquire tsi tsr index)
  = (set_pending (hdl_iface E) s (pending (hdl_iface E) s ++ [E_acquire tsi tsr index]), None).
Proof. exact trigger_queued. Qed.
Print Assumptions C15E_queued_when_busy.

Theorem C15E_queued_when_busy_endpoint : forall E (ep : endpoint E) my peer tsi tsr index cid s t1 t2,
  first_of_connection E ep my peer cid s t1 t2 -> acquire_must_queue (state (hdl_iface E) s) = true ->
  let s' := set_pending (hdl_iface E) (with_inner (hdl_iface E) s (stored E ep (inner (hdl_iface E) s)))
                        (pending (hdl_iface E) s ++ [E_acquire tsi tsr index]) in
  table E (acquire E ep my peer tsi tsr index) = replace E (table E ep) cid s' /\
  (~ In cid (map fst t1) -> table E (acquire E ep my peer tsi tsr index) = t1 ++ (cid, s') :: t2) /\
  next_cid E (acquire E ep my peer tsi tsr index) = next_cid E ep /\
  ep_kops E (acquire E ep my peer tsi tsr index) = ep_kops E ep /\
  ep_sent E (acquire E ep my peer tsi tsr index) = ep_sent E ep /\
  ep_tape E (acquire E ep my peer tsi tsr index) = ep_tape E ep.
Proof. exact acquire_queued. Qed.
Print Assumptions C15E_queued_when_busy_endpoint.

(* ------------------------------------------------------------------------------------------------ *)
(** * 6. ESTABLISHED: CREATE_CHILD_SA *)

(** the handler: one draw for the inbound SPI, the optional key pair, the nonce (length draw, bytes); the result is the
    CREATE_CHILD_SA request, [creating] holds the child with the entry's proposal / mode / lifetime, the state is
    NEW_CHILD_REQ_SENT, nothing else changes *)
Theorem C15E_established_starts_create_child_sa : forall tsi tsr index s p inb kd ke dhv j n r,
  st (co s) = ST_ESTABLISHED -> entry_of index (cfg (co s)) = Some p -> ke_step p kd ke dhv ->
  tape s = D_bytes inb :: kd ++ D_num j :: D_bytes n :: r ->
  process_acquire tsi tsr index s =
  (Ok (Some (ccsa_request inb tsi tsr p ke n)),
   established_after s (acquire_child inb tsi tsr p) (ccsa_request inb tsi tsr p ke n) dhv r).
Proof. exact process_acquire_established. Qed.
Print Assumptions C15E_established_starts_create_child_sa.

Theorem C15E_established_request_sent : forall E (s : sa (hdl_iface E)) now tsi tsr index p inb kd ke dhv j n r,
  state (hdl_iface E) s = ST_ESTABLISHED -> entry_of index (cfg (co (inner (hdl_iface E) s))) = Some p ->
  ke_step p kd ke dhv ->
  tape (inner (hdl_iface E) s) = D_bytes inb :: kd ++ D_num j :: D_bytes n :: r ->
  process_trigger (hdl_iface E) s now (E_acquire tsi tsr index)
  = sent_request E s (established_after (clear_flags (inner (hdl_iface E) s)) (acquire_child inb tsi tsr p)
                                        (ccsa_request inb tsi tsr p ke n) dhv r)
                 now EX_CREATE_CHILD_SA ([], acquire_payloads inb tsi tsr p ke ++ [P_NONCE n]).
Proof. exact trigger_established. Qed.
Print Assumptions C15E_established_request_sent.

Theorem C15E_established_endpoint : forall E (ep : endpoint E) my peer tsi tsr index cid s t1 t2 p inb kd ke dhv j n r,
  first_of_connection E ep my peer cid s t1 t2 -> state (hdl_iface E) s = ST_ESTABLISHED ->
  entry_of index (cfg (co (inner (hdl_iface E) s))) = Some p -> ke_step p kd ke dhv ->
  ep_tape E ep = D_bytes inb :: kd ++ D_num j :: D_bytes n :: r ->
  let d := mk_dgram (stamp_request (hdl_iface E) s EX_CREATE_CHILD_SA)
                    ([], acquire_payloads inb tsi tsr p ke ++ [P_NONCE n]) in
  let s' := mk_sa (hdl_iface E)
                  (stored E ep (established_after (clear_flags (inner (hdl_iface E) s)) (acquire_child inb tsi tsr p)
                                                  (ccsa_request inb tsi tsr p ke n) dhv []))
                  (is_init _ s) (my_spi _ s) (my_id _ s) (peer_id _ s) (last_resp _ s) (Some d)
                  (ep_now E ep + RETRANSMISSION_DELAY) 1 (dpd_at _ s) (rek_at _ s) (del_at _ s) (dpd_cfg _ s)
                  (pending _ s) in
  table E (acquire E ep my peer tsi tsr index) = replace E (table E ep) cid s' /\
  (~ In cid (map fst t1) -> table E (acquire E ep my peer tsi tsr index) = t1 ++ (cid, s') :: t2) /\
  next_cid E (acquire E ep my peer tsi tsr index) = next_cid E ep /\
  ep_kops E (acquire E ep my peer tsi tsr index) = ep_kops E ep /\
  ep_sent E (acquire E ep my peer tsi tsr index) = ep_sent E ep ++ [d] /\
  ep_tape E (acquire E ep my peer tsi tsr index) = r.
Proof. exact acquire_established. Qed.
Print Assumptions C15E_established_endpoint.

(** what the request carries *)
Theorem C15E_request_content : forall inb tsi tsr p kd ke dhv,
  ke_step p kd ke dhv ->
  kfilter K_SA (acquire_payloads inb tsi tsr p ke) = [P_SA [(pt_prop p) <| pr_spi := inb |>]] /\
  kfilter K_TSi (acquire_payloads inb tsi tsr p ke) = [P_TSi [tsi; pt_my_ts p]] /\
  kfilter K_TSr (acquire_payloads inb tsi tsr p ke) = [P_TSr [tsr; pt_peer_ts p]] /\
  kfilter K_KE (acquire_payloads inb tsi tsr p ke) = ke /\
  kfilter K_NOTIFY (acquire_payloads inb tsi tsr p ke)
  = (if Z.eqb (pt_mode p) MODE_TRANSPORT then [P_NOTIFY PROTO_NONE N_USE_TRANSPORT_MODE [] []] else []) /\
  kfilter K_NONCE (acquire_payloads inb tsi tsr p ke) = [].
Proof. exact acquire_payloads_content. Qed.
Print Assumptions C15E_request_content.

(** a KE payload iff the entry's proposal has a DH transform, and then for the group of the first one *)
Theorem C15E_ke_iff_dh_transform : forall p kd ke dhv,
  ke_step p kd ke dhv ->
  (ke = [] <-> get_transforms (pt_prop p) T_DH = []) /\
  (forall q, In q ke -> exists t rest pub, get_transforms (pt_prop p) T_DH = t :: rest /\ q = P_KE (tr_id t) pub).
Proof. exact ke_step_ke. Qed.
Print Assumptions C15E_ke_iff_dh_transform.

(** the offered selectors lie inside the entry's as soon as the ACQUIRE's do (C12H_initiator_selectors_mode then puts
    the installed selectors inside the offered ones) *)
Theorem C15E_offered_selectors_inside_the_entry : forall inb tsi tsr p,
  ts_is_subset tsi (pt_my_ts p) = true -> ts_is_subset tsr (pt_peer_ts p) = true ->
  (forall x, In x (c_tsi (acquire_child inb tsi tsr p)) -> ts_is_subset x (pt_my_ts p) = true) /\
  (forall x, In x (c_tsr (acquire_child inb tsi tsr p)) -> ts_is_subset x (pt_peer_ts p) = true).
Proof. exact offered_selectors_inside. Qed.
Print Assumptions C15E_offered_selectors_inside_the_entry.

(* ------------------------------------------------------------------------------------------------ *)
(** * 7. INITIAL: IKE_SA_INIT *)

(** the handler: inbound SPI, nonce, key pair of the IKE proposal's first DH group; the result is the IKE_SA_INIT
    request (own proposal with own SPI, nonce, KE, vendor ID); [creating] remembers the child for IKE_AUTH, [init_req]
    the request for the AUTH computation; the state is INIT_REQ_SENT *)
Theorem C15E_initial_starts_ike_sa_init : forall tsi tsr index s p inb j n t h pub r,
  st (co s) = ST_INITIAL -> entry_of index (cfg (co s)) = Some p ->
  hd_error (get_transforms (cf_prop (cfg (co s))) T_DH) = Some t ->
  tape s = D_bytes inb :: D_num j :: D_bytes n :: D_dh (tr_id t) h pub :: r ->
  process_acquire tsi tsr index s =
  (Ok (Some (init_request (co s) n t pub)),
   initial_after s (acquire_child inb tsi tsr p) (init_request (co s) n t pub) t h r).
Proof. exact process_acquire_initial. Qed.
Print Assumptions C15E_initial_starts_ike_sa_init.

Theorem C15E_initial_request_sent : forall E (s : sa (hdl_iface E)) now tsi tsr index p inb j n t h pub r,
  state (hdl_iface E) s = ST_INITIAL -> entry_of index (cfg (co (inner (hdl_iface E) s))) = Some p ->
  hd_error (get_transforms (cf_prop (cfg (co (inner (hdl_iface E) s)))) T_DH) = Some t ->
  tape (inner (hdl_iface E) s) = D_bytes inb :: D_num j :: D_bytes n :: D_dh (tr_id t) h pub :: r ->
  process_trigger (hdl_iface E) s now (E_acquire tsi tsr index)
  = sent_request E s (initial_after (clear_flags (inner (hdl_iface E) s)) (acquire_child inb tsi tsr p)
                                    (init_request (co (inner (hdl_iface E) s)) n t pub) t h r)
                 now EX_IKE_SA_INIT (snd (init_request (co (inner (hdl_iface E) s)) n t pub), []).
Proof. exact trigger_initial. Qed.
Print Assumptions C15E_initial_request_sent.

Theorem C15E_initial_endpoint : forall E (ep : endpoint E) my peer tsi tsr index c p spi j0 inb j n t h pub r,
  (forall c x, In (c, x) (table E ep) -> ~ serves E my peer x) -> find_conf E ep my peer = Some c ->
  (forall x, In x (map fst (table E ep)) -> (x < next_cid E ep)%nat) ->
  entry_of index c = Some p -> hd_error (get_transforms (cf_prop c) T_DH) = Some t ->
  ep_tape E ep = D_bytes spi :: D_num j0 :: D_bytes inb :: D_num j :: D_bytes n :: D_dh (tr_id t) h pub :: r ->
  let s0 := sa_of_core E (fresh_core E ep true (repeat 0%N 8) c my peer spi j0) in
  let rq := init_request (co (inner (hdl_iface E) s0)) n t pub in
  let d := mk_dgram (stamp_request (hdl_iface E) s0 EX_IKE_SA_INIT) (snd rq, []) in
  let s' := mk_sa (hdl_iface E)
                  (stored E ep (initial_after (clear_flags (inner (hdl_iface E) s0)) (acquire_child inb tsi tsr p) rq t h []))
                  (is_init _ s0) (my_spi _ s0) (my_id _ s0) (peer_id _ s0) (last_resp _ s0) (Some d)
                  (ep_now E ep + RETRANSMISSION_DELAY) 1 (dpd_at _ s0) (rek_at _ s0) (del_at _ s0) (dpd_cfg _ s0)
                  (pending _ s0) in
  table E (acquire E ep my peer tsi tsr index) = table E ep ++ [(next_cid E ep, s')] /\
  next_cid E (acquire E ep my peer tsi tsr index) = S (next_cid E ep) /\
  ep_kops E (acquire E ep my peer tsi tsr index) = ep_kops E ep /\
  ep_sent E (acquire E ep my peer tsi tsr index) = ep_sent E ep ++ [d] /\
  ep_tape E (acquire E ep my peer tsi tsr index) = r.
Proof. exact acquire_starts_ike_sa_init. Qed.
Print Assumptions C15E_initial_endpoint.

(* ------------------------------------------------------------------------------------------------ *)
(** * The converses: nothing else makes a request *)

Theorem C15E_request_only_in_these_two_ways : forall tsi tsr index s rq s',
  process_acquire tsi tsr index s = (Ok (Some rq), s') ->
  exists p inb,
    entry_of index (cfg (co s)) = Some p /\
    ((st (co s) = ST_ESTABLISHED /\
      exists kd ke dhv j n r,
        ke_step p kd ke dhv /\ tape s = D_bytes inb :: kd ++ D_num j :: D_bytes n :: r /\
        rq = ccsa_request inb tsi tsr p ke n /\
        s' = established_after s (acquire_child inb tsi tsr p) rq dhv r)
     \/
     (st (co s) = ST_INITIAL /\
      exists j n t h pub r,
        hd_error (get_transforms (cf_prop (cfg (co s))) T_DH) = Some t /\
        tape s = D_bytes inb :: D_num j :: D_bytes n :: D_dh (tr_id t) h pub :: r /\
        rq = init_request (co s) n t pub /\
        s' = initial_after s (acquire_child inb tsi tsr p) rq t h r)).
Proof. exact process_acquire_some_inv. Qed.
Print Assumptions C15E_request_only_in_these_two_ways.

Theorem C15E_datagram_shape : forall E (s : sa (hdl_iface E)) now tsi tsr index s2 d,
  process_trigger (hdl_iface E) s now (E_acquire tsi tsr index) = (s2, Some d) ->
  exists p inb,
    entry_of index (cfg (co (inner (hdl_iface E) s))) = Some p /\
    creating (co (inner (hdl_iface E) s2)) = Some (acquire_child inb tsi tsr p) /\
    pending _ s2 = pending _ s /\ req_data _ s2 = Some d /\ rt_at _ s2 = now + RETRANSMISSION_DELAY /\ rt_n _ s2 = 1 /\
    ((state (hdl_iface E) s = ST_ESTABLISHED /\ state (hdl_iface E) s2 = ST_NEW_CHILD_REQ_SENT /\
      exists kd ke dhv j n r,
        ke_step p kd ke dhv /\ tape (inner (hdl_iface E) s) = D_bytes inb :: kd ++ D_num j :: D_bytes n :: r /\
        tape (inner (hdl_iface E) s2) = r /\
        request (co (inner (hdl_iface E) s2)) = Some (ccsa_request inb tsi tsr p ke n) /\
        d = mk_dgram (stamp_request (hdl_iface E) s EX_CREATE_CHILD_SA)
                     ([], acquire_payloads inb tsi tsr p ke ++ [P_NONCE n]))
     \/
     (state (hdl_iface E) s = ST_INITIAL /\ state (hdl_iface E) s2 = ST_INIT_REQ_SENT /\
      exists j n t h pub r,
        hd_error (get_transforms (cf_prop (cfg (co (inner (hdl_iface E) s)))) T_DH) = Some t /\
        tape (inner (hdl_iface E) s) = D_bytes inb :: D_num j :: D_bytes n :: D_dh (tr_id t) h pub :: r /\
        tape (inner (hdl_iface E) s2) = r /\
        request (co (inner (hdl_iface E) s2)) = Some (init_request (co (inner (hdl_iface E) s)) n t pub) /\
        d = mk_dgram (stamp_request (hdl_iface E) s EX_IKE_SA_INIT)
                     (snd (init_request (co (inner (hdl_iface E) s)) n t pub), []))).
Proof. exact trigger_request_shape. Qed.
Print Assumptions C15E_datagram_shape.

(* ------------------------------------------------------------------------------------------------ *)
(** * 8. Non-vacuity: concrete runs on a toy endpoint (HdlSad.Example: connection (10, 20), one protect entry with
      index 1, ESP without DH, tunnel, selectors ts0 / ts1) *)
Import HdlSad.Example AcqExample.

Theorem C15E_example_known_index_established :
  view (acquire E0 (ep_est tape_child) 10 20 tsA tsB 1)
  = ([(0%nat, ST_NEW_CHILD_REQ_SENT,
       Some (mk_child [0;0;0;7]%N [0;0;0;0]%N (esp_prop []) (esp_prop []) [tsA; ts0] [tsB; ts1] MODE_TUNNEL (-1)), [])],
     1%nat, [], [d_child], []).
Proof. exact ex_established. Qed.
Print Assumptions C15E_example_known_index_established.

Theorem C15E_example_established_hypotheses :
  first_of_connection E0 (ep_est tape_child) 10 20 0%nat est [] [] /\ state (hdl_iface E0) est = ST_ESTABLISHED /\
  entry_of 1 (cfg (co (inner (hdl_iface E0) est))) = Some pt0 /\ ke_step pt0 [] [] None /\
  ep_tape E0 (ep_est tape_child) = D_bytes [0;0;0;7]%N :: [] ++ D_num 16 :: D_bytes [5%N] :: [].
Proof. exact ex_established_hyps. Qed.
Print Assumptions C15E_example_established_hypotheses.

Theorem C15E_example_unknown_index_existing_ike_sa :
  view (acquire E0 (ep_est tape_child) 10 20 tsA tsB 99) = ([(0%nat, ST_ESTABLISHED, None, [])], 1%nat, [], [], tape_child)
  /\ map (fun x : nat * esa E0 => status_of E0 (snd x)) (table E0 (acquire E0 (ep_est tape_child) 10 20 tsA tsB 99))
     = map (fun x : nat * esa E0 => status_of E0 (snd x)) (table E0 (ep_est tape_child)).
Proof. exact ex_unknown_index_existing. Qed.
Print Assumptions C15E_example_unknown_index_existing_ike_sa.

Theorem C15E_example_unknown_index_no_ike_sa :
  view (acquire E0 (ep_none [D_bytes [1;1;1;1;1;1;1;1]%N; D_num 1]) 10 20 tsA tsB 99) = ([], 1%nat, [], [], []).
Proof. exact ex_unknown_index_no_ike_sa. Qed.
Print Assumptions C15E_example_unknown_index_no_ike_sa.

Theorem C15E_example_unknown_connection : forall tp, acquire E0 (ep_none tp) 10 21 tsA tsB 1 = ep_none tp.
Proof. exact ex_unknown_connection. Qed.
Print Assumptions C15E_example_unknown_connection.

Theorem C15E_example_known_index_new_ike_sa :
  view (acquire E0 (ep_none tape_init) 10 20 tsA tsB 1)
  = ([(0%nat, ST_INIT_REQ_SENT,
       Some (mk_child [0;0;0;7]%N [0;0;0;0]%N (esp_prop []) (esp_prop []) [tsA; ts0] [tsB; ts1] MODE_TUNNEL (-1)), [])],
     1%nat, [], [d_init], []).
Proof. exact ex_initial. Qed.
Print Assumptions C15E_example_known_index_new_ike_sa.

(** two connections sharing the peer address *)
Theorem C15E_example_shared_peer_existing :
  let ep' := acquire E0 (ep_two [(0%nat, est11); (1%nat, est)] 2 tape_child) 10 20 tsA tsB 1 in
  nth_error (table E0 ep') 0 = Some (0%nat, est11) /\
  map (fun x : nat * esa E0 => (fst x, state (hdl_iface E0) (snd x))) (table E0 ep')
  = [(0%nat, ST_ESTABLISHED); (1%nat, ST_NEW_CHILD_REQ_SENT)] /\
  next_cid E0 ep' = 2%nat /\ ep_sent E0 ep' = [d_child].
Proof. exact ex_shared_peer_existing. Qed.
Print Assumptions C15E_example_shared_peer_existing.

Theorem C15E_example_shared_peer_new :
  let ep' := acquire E0 (ep_two [(0%nat, est11)] 1 tape_init) 10 20 tsA tsB 1 in
  nth_error (table E0 ep') 0 = Some (0%nat, est11) /\
  map (fun x : nat * esa E0 => (fst x, state (hdl_iface E0) (snd x), is_init (hdl_iface E0) (snd x),
                                my_addr (co (inner (hdl_iface E0) (snd x))),
                                peer_addr (co (inner (hdl_iface E0) (snd x))))) (table E0 ep')
  = [(0%nat, ST_ESTABLISHED, false, 11, 20); (1%nat, ST_INIT_REQ_SENT, true, 10, 20)] /\
  next_cid E0 ep' = 2%nat /\ ep_sent E0 ep' = [d_init].
Proof. exact ex_shared_peer_new. Qed.
Print Assumptions C15E_example_shared_peer_new.

(** two protect entries with the same index: the first (tunnel, no lifetime) is used, not the second (transport, 100) *)
Theorem C15E_example_first_entry_of_index :
  let ep' := acquire E0 (mk_ep E0 [(0%nat, est_dup)] 1 cfs [9%N] tape_child 50 [] [] None None) 10 20 tsA tsB 1 in
  ep_sent E0 ep' = [d_child] /\
  map (fun x : nat * esa E0 => option_map (fun c => (c_mode c, c_life c)) (creating (co (inner (hdl_iface E0) (snd x)))))
      (table E0 ep')
  = [Some (MODE_TUNNEL, -1)].
Proof. exact ex_first_entry_of_index. Qed.
Print Assumptions C15E_example_first_entry_of_index.

Theorem C15E_example_queued :
  view (acquire E0 (mk_ep E0 [(0%nat, busy)] 1 cfs [9%N] tape_child 50 [] [] None None) 10 20 tsA tsB 1)
  = ([(0%nat, ST_NEW_CHILD_REQ_SENT, None, [E_acquire tsA tsB 1])], 1%nat, [], [], tape_child).
Proof. exact ex_queued. Qed.
Print Assumptions C15E_example_queued.

(** (F22) the rekey window: old REKEYED IkeSa first, ESTABLISHED successor second - the ACQUIRE reaches the successor,
    which sends the CREATE_CHILD_SA request; the old IkeSa is untouched *)
Theorem C15E_example_acquire_during_rekey :
  let ep' := acquire E0 ep_rekey 10 20 tsA tsB 1 in
  view ep'
  = ([(0%nat, ST_REKEYED, None, []);
      (1%nat, ST_NEW_CHILD_REQ_SENT,
       Some (mk_child [0;0;0;7]%N [0;0;0;0]%N (esp_prop []) (esp_prop []) [tsA; ts0] [tsB; ts1] MODE_TUNNEL (-1)), [])],
     2%nat, [], [d_child_succ], [])
  /\ nth_error (table E0 ep') 0 = Some (0%nat, old_rekeyed).
Proof. exact ex_acquire_during_rekey. Qed.
Print Assumptions C15E_example_acquire_during_rekey.

Theorem C15E_example_acquire_during_rekey_hypotheses :
  table E0 ep_rekey = [(0%nat, old_rekeyed)] ++ (1%nat, successor) :: [] /\ of_connection E0 10 20 successor /\
  state (hdl_iface E0) successor = ST_ESTABLISHED /\
  (forall c x, In (c, x) [(0%nat, old_rekeyed)] -> of_connection E0 10 20 x ->
               acquire_usable (state (hdl_iface E0) x) = false).
Proof. exact ex_acquire_during_rekey_hyps. Qed.
Print Assumptions C15E_example_acquire_during_rekey_hypotheses.

(* ------------------------------------------------------------------------------------------------ *)
(** * Observation (a statement one might expect that does NOT hold unconditionally) *)

(** the ACQUIRE's own selectors are offered as they come: the hypothesis of C15E_offered_selectors_inside_the_entry is
    the kernel's business, the daemon does not check it *)
Theorem C15E_example_selectors_not_checked :
  ts_is_subset tsX (pt_my_ts pt0) = false /\
  exists d, ep_sent E0 (acquire E0 (ep_est tape_child) 10 20 tsX tsB 1) = [d] /\
            In (P_TSi [tsX; ts0]) (snd (d_body d)).
Proof. exact ex_selectors_not_checked. Qed.
Print Assumptions C15E_example_selectors_not_checked.
