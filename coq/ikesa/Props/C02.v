(** C02 - no IKE_SA is established without a valid AUTH over the real exchange (property theorems only).
    [prf] and [rsa_verify] range over every function; keys, messages, nonces and identities over every byte string. *)
From Coq Require Import ZArith Bool List.
From VLib Require Import Bytes.
From IkeSa Require Import Gen.IkeFacts Cookie Auth AuthProofs Transitions.
Import ListNotations.
Open Scope Z_scope.

(** the signed octets are: the IKE_SA_INIT message of the signer's side | the other side's nonce | prf(SK_p, ID body) *)
Theorem C02_signed_octets : forall (prf : bytes -> bytes -> bytes) msg nonce idb sk_p,
  signed_octets prf msg nonce idb sk_p = msg ++ nonce ++ prf sk_p idb.
Proof. exact signed_octets_spec. Qed.
Print Assumptions C02_signed_octets.

(** The IKE_AUTH handlers reach the CHILD_SA negotiation (the first point where anything is installed) and the
    transition to ESTABLISHED only through this gate (statement order checked by the translator); the gate opens
    exactly when the presented identity is the configured one (type and data) and the AUTH payload is the PSK value
    over the exact octets under the configured non-empty PSK, or an RSA signature over them that verifies under the
    configured public key.  [peer_msg] is the IKE_SA_INIT message of the peer's side as this endpoint retained it,
    [my_nonce] this endpoint's own nonce, [peer_sk_p] the peer's SK_p. *)
Theorem C02_gate_iff : forall prf PK rsa_verify c id_type id_data method auth_data peer_msg my_nonce peer_sk_p,
  gate prf PK rsa_verify c id_type id_data method auth_data peer_msg my_nonce peer_sk_p = true <->
  id_type = c_id_type PK c /\ id_data = c_id_data PK c /\
  ((method = AUTH_PSK /\ exists psk, c_psk PK c = Some psk /\ psk <> [] /\
      auth_data = psk_auth prf psk (peer_msg ++ my_nonce ++ prf peer_sk_p (id_body id_type id_data)))
   \/ (method = AUTH_RSA /\ exists pk, c_pub PK c = Some pk /\
      rsa_verify pk auth_data (peer_msg ++ my_nonce ++ prf peer_sk_p (id_body id_type id_data)) = true)).
Proof. exact gate_iff. Qed.
Print Assumptions C02_gate_iff.

Theorem C02_established_only_through_gate :
  forall prf PK rsa_verify c id_type id_data method auth_data peer_msg my_nonce peer_sk_p,
  ike_auth_handler prf PK rsa_verify c id_type id_data method auth_data peer_msg my_nonce peer_sk_p = Continue <->
  gate prf PK rsa_verify c id_type id_data method auth_data peer_msg my_nonce peer_sk_p = true.
Proof. exact handler_continue_iff. Qed.
Print Assumptions C02_established_only_through_gate.

Theorem C02_wrong_identity_fails :
  forall prf PK rsa_verify c id_type id_data method auth_data peer_msg my_nonce peer_sk_p,
  id_type <> c_id_type PK c \/ id_data <> c_id_data PK c ->
  ike_auth_handler prf PK rsa_verify c id_type id_data method auth_data peer_msg my_nonce peer_sk_p = AuthFailed.
Proof. exact wrong_identity_fails. Qed.
Print Assumptions C02_wrong_identity_fails.

Theorem C02_wrong_method_fails :
  forall prf PK rsa_verify c id_type id_data method auth_data peer_msg my_nonce peer_sk_p,
  method <> AUTH_PSK -> method <> AUTH_RSA ->
  ike_auth_handler prf PK rsa_verify c id_type id_data method auth_data peer_msg my_nonce peer_sk_p = AuthFailed.
Proof. exact wrong_method_fails. Qed.
Print Assumptions C02_wrong_method_fails.

Theorem C02_no_credential_fails :
  forall prf PK rsa_verify c id_type id_data method auth_data peer_msg my_nonce peer_sk_p,
  c_psk PK c = None -> c_pub PK c = None ->
  ike_auth_handler prf PK rsa_verify c id_type id_data method auth_data peer_msg my_nonce peer_sk_p = AuthFailed.
Proof. exact no_credential_fails. Qed.
Print Assumptions C02_no_credential_fails.

(** the signed octets determine the message, the nonce and the identity hash: IKE messages carry their own length,
    so two different (message, nonce, identity) triples never yield the same octets.  Hence if both sides' checks pass
    on values produced by the honest generator (and the PRF/signature are not forged) they agree on both IKE_SA_INIT
    messages - offered and chosen proposals, nonces, KE values and SPIs - and on the identities. *)
Theorem C02_octets_unambiguous : forall (prf : bytes -> bytes -> bytes) (hlen : nat) m n i k m' n' i' k',
  (forall key d, length (prf key d) = hlen) ->
  signed_octets prf m n i k = signed_octets prf m' n' i' k' -> wf_ike_msg m -> wf_ike_msg m' ->
  m = m' /\ n = n' /\ prf k i = prf k' i'.
Proof. exact signed_octets_injective. Qed.
Print Assumptions C02_octets_unambiguous.

(** Nothing is installed and no IKE_SA becomes established except through the IKE_AUTH handlers (complete finite
    domain: the regenerated admission tables and the abstract interpretation of self.state of the current source):
    (i) every message handler that can install kernel SAs other than the two IKE_AUTH handlers is admitted only in
        states that already are established (10 <= state < DELETED);
    (ii) the only handlers that can take an IKE_SA from a pre-established state (< ESTABLISHED) to an established one
        are the two IKE_AUTH handlers, entered in INIT_RES_SENT resp. AUTH_REQ_SENT. *)
Theorem C02_install_and_establish_only_after_auth :
  forallb (fun f => Nat.eqb f FN_process_ike_auth_request || Nat.eqb f FN_process_ike_auth_response ||
                    forallb (fun st => Z.leb ST_ESTABLISHED st && Z.ltb st ST_DELETED) (admitted_in f))
          installing_handlers = true /\
  forallb (fun e => match e with
                    | (f, st, exits) =>
                        implb (Z.ltb st ST_ESTABLISHED && existsb (fun x => Z.leb ST_ESTABLISHED x && Z.ltb x ST_DELETED) exits)
                              (Nat.eqb f FN_process_ike_auth_request && Z.eqb st ST_INIT_RES_SENT
                               || Nat.eqb f FN_process_ike_auth_response && Z.eqb st ST_AUTH_REQ_SENT)
                    end) handler_exits = true.
Proof. split; vm_compute; reflexivity. Qed.
Print Assumptions C02_install_and_establish_only_after_auth.
