(** C03 on the whole-endpoint model (Endpoint.v): an unauthenticated or unparsable datagram addressed to an IkeSa that
    has keys, as theorems about [dispatch] and [iteration] - for every environment, endpoint, table, tape and kernel
    verdicts.  [AllQ] is the table invariant of C16E (C16E_iteration_table: every iteration preserves it).
    Property theorems only; the proofs are in EndpointWindow.v. *)
From Coq Require Import ZArith NArith Bool List.
From RecordUpdate Require Import RecordSet.
From VLib Require Import Bytes.
From IkeSa Require Import Gen.IkeFacts Shell ShellTrace Hdl HdlSad Endpoint EndpointSad EndpointTimers EndpointWindow.
Import ListNotations RecordSetNotations.
Open Scope Z_scope.

(** [selects h]: the table entry the header selects (dispatch routes to the FIRST such entry, C16E_routing);
    [settle t s]: [s] with the four environment fields of the handler state (clock, tape, kernel log, pushed rekey
    time) reset, which is what enter ... leave does to an IkeSa when the call in between does nothing (these fields are
    overwritten by [enter] before every call and carry no information between calls);
    [olist]: an optional datagram as a list *)
Theorem C03E_def_selects : forall E h (x : nat * esa E),
  selects E h x = Z.eqb (my_spi (hdl_iface E) (snd x)) (dispatch_my_spi (h_init h) (h_spi_i h) (h_spi_r h)).
Proof. exact selects_def. Qed.
Print Assumptions C03E_def_selects.
Theorem C03E_def_settle : forall E t (s : esa E),
  settle E t s
  = with_inner (hdl_iface E) s (mk_isa (co (inner (hdl_iface E) s)) (new_sa (inner (hdl_iface E) s)) None t [] []).
Proof. exact settle_def. Qed.
Print Assumptions C03E_def_settle.
Theorem C03E_def_olist : forall (A : Type) (o : option A), olist o = match o with Some x => [x] | None => [] end.
Proof. exact @olist_def. Qed.
Print Assumptions C03E_def_olist.

(** 1. A datagram that is not an IKE_SA_INIT request, routed to the entry [(cid, s)] where [s] has keys, parsed, integrity
    check failed: the endpoint afterwards is GIVEN, field by field - the entry [cid] is [s] again (settled), every other
    entry, the creation counter, the configurations, the cookie secret, the tape (nothing drawn, no kernel verdict
    consumed), the clock, the kernel log (no kernel operation) and the status answer are what they were; the routing
    is recorded; what is sent grows by [o], which is nothing or the stored response of that IkeSa (and then the
    parsed message is an IKE_SA_INIT request with Message ID peer_id - 1 to an IkeSa in INIT_RES_SENT). *)
Theorem C03E_unauthenticated_datagram_changes_nothing :
  forall E (ep : endpoint E) h my peer (m : pmsg body) cid (s : esa E),
  dispatch_is_init_request (h_exch h) (negb (h_resp h)) = false ->
  find (selects E h) (table E ep) = Some (cid, s) -> AllQ E (table E ep) ->
  cprop (co (inner (hdl_iface E) s)) <> None -> p_auth m = false ->
  exists o,
    dispatch E ep (Dg h my peer (Some m))
    = mk_ep E (Endpoint.replace E (table E ep) cid (settle E (ep_now E ep) s)) (next_cid E ep) (confs E ep)
            (ep_cookie_secret E ep) (ep_tape E ep) (ep_now E ep) (ep_kops E ep) (ep_sent E ep ++ olist o) (Some cid)
            (ep_status E ep)
    /\ (o = None
        \/ (o = last_resp (hdl_iface E) s /\ snd (decision (hdl_iface E) s m) = RCached
            /\ h_exch (p_hdr m) = EX_IKE_SA_INIT /\ h_resp (p_hdr m) = false
            /\ state (hdl_iface E) s = ST_INIT_RES_SENT /\ h_id (p_hdr m) = peer_id (hdl_iface E) s - 1)).
Proof. exact unauthenticated_datagram. Qed.
Print Assumptions C03E_unauthenticated_datagram_changes_nothing.

(** ... and when the entry is stored as of the current clock value (as after an iteration at this clock value) and the
    creation indices are unique (C16E_creation_indices), the table is literally the old table *)
Theorem C03E_unauthenticated_datagram_table_unchanged :
  forall E (ep : endpoint E) h my peer (m : pmsg body) cid (s : esa E),
  dispatch_is_init_request (h_exch h) (negb (h_resp h)) = false ->
  find (selects E h) (table E ep) = Some (cid, s) -> AllQ E (table E ep) -> NoDup (map fst (table E ep)) ->
  cprop (co (inner (hdl_iface E) s)) <> None -> p_auth m = false -> settle E (ep_now E ep) s = s ->
  table E (dispatch E ep (Dg h my peer (Some m))) = table E ep.
Proof. exact unauthenticated_datagram_table. Qed.
Print Assumptions C03E_unauthenticated_datagram_table_unchanged.

(** ... and when the header the dispatcher read is the header of the parsed message (they come from the same
    datagram), NOTHING is sent *)
Theorem C03E_unauthenticated_datagram_sends_nothing :
  forall E (ep : endpoint E) h my peer (m : pmsg body) cid (s : esa E),
  dispatch_is_init_request (h_exch h) (negb (h_resp h)) = false ->
  find (selects E h) (table E ep) = Some (cid, s) -> AllQ E (table E ep) ->
  cprop (co (inner (hdl_iface E) s)) <> None -> p_auth m = false -> p_hdr m = h ->
  dispatch E ep (Dg h my peer (Some m))
  = mk_ep E (Endpoint.replace E (table E ep) cid (settle E (ep_now E ep) s)) (next_cid E ep) (confs E ep)
          (ep_cookie_secret E ep) (ep_tape E ep) (ep_now E ep) (ep_kops E ep) (ep_sent E ep ++ []) (Some cid)
          (ep_status E ep).
Proof. exact unauthenticated_datagram_one_header. Qed.
Print Assumptions C03E_unauthenticated_datagram_sends_nothing.

(** the reason: the branch of process_message that re-sends the stored IKE_SA_INIT response (decision RCached) cannot
    be reached through the dispatcher with one header - the dispatcher hands EVERY IKE_SA_INIT request to a newly
    created IkeSa (C16E_routing_init_request), also a retransmitted one *)
Theorem C03E_stored_init_response_branch_unreachable :
  forall E (ep : endpoint E) h (m : pmsg body) cid (s : esa E),
  dispatch_is_init_request (h_exch h) (negb (h_resp h)) = false ->
  find (selects E h) (table E ep) = Some (cid, s) -> p_hdr m = h ->
  snd (decision (hdl_iface E) s m) <> RCached.
Proof. exact stored_init_response_branch_unreachable. Qed.
Print Assumptions C03E_stored_init_response_branch_unreachable.

(** 2. A routed datagram whose full parse fails: only the routing is recorded *)
Theorem C03E_unparsable_changes_nothing : forall E (ep : endpoint E) h my peer cid (s : esa E),
  dispatch_is_init_request (h_exch h) (negb (h_resp h)) = false ->
  find (selects E h) (table E ep) = Some (cid, s) ->
  dispatch E ep (Dg h my peer None)
  = mk_ep E (table E ep) (next_cid E ep) (confs E ep) (ep_cookie_secret E ep) (ep_tape E ep) (ep_now E ep) (ep_kops E ep)
          (ep_sent E ep) (Some cid) (ep_status E ep).
Proof. exact unparsable_datagram. Qed.
Print Assumptions C03E_unparsable_changes_nothing.

(** 3. If something IS sent in case 1: exactly one datagram, byte for byte the stored response; the parsed message is an
    IKE_SA_INIT request whose Message ID is peer_id - 1, the IkeSa is in INIT_RES_SENT, the generated decision function
    says RCached - and the parsed header is not the header the dispatcher read *)
Theorem C03E_cached_reply_only_for_previous_request :
  forall E (ep : endpoint E) h my peer (m : pmsg body) cid (s : esa E),
  dispatch_is_init_request (h_exch h) (negb (h_resp h)) = false ->
  find (selects E h) (table E ep) = Some (cid, s) -> AllQ E (table E ep) ->
  cprop (co (inner (hdl_iface E) s)) <> None -> p_auth m = false ->
  ep_sent E (dispatch E ep (Dg h my peer (Some m))) <> ep_sent E ep ->
  exists d, last_resp (hdl_iface E) s = Some d
            /\ ep_sent E (dispatch E ep (Dg h my peer (Some m))) = ep_sent E ep ++ [d]
            /\ snd (decision (hdl_iface E) s m) = RCached /\ h_exch (p_hdr m) = EX_IKE_SA_INIT
            /\ h_resp (p_hdr m) = false /\ state (hdl_iface E) s = ST_INIT_RES_SENT
            /\ h_id (p_hdr m) = peer_id (hdl_iface E) s - 1 /\ p_hdr m <> h.
Proof. exact cached_reply_only_for_previous_request. Qed.
Print Assumptions C03E_cached_reply_only_for_previous_request.

(** 4. One iteration of the main loop (the event, then the three timer sweeps) with the datagram of case 1 as its event
    (unique creation indices): the table, the creation counter, the tape that is left and the kernel operations are
    EXACTLY those of the iteration with no event at the same clock value and tape - the forged datagram has no effect
    beyond what time alone does - and what is sent is what that iteration sends, preceded by [o].  No hypothesis on the
    tape is needed: the unauthenticated path draws nothing. *)
Theorem C03E_forged_datagram_invisible_after_the_iteration :
  forall E (ep : endpoint E) tnow tp h my peer (m : pmsg body) cid (s : esa E),
  dispatch_is_init_request (h_exch h) (negb (h_resp h)) = false ->
  find (selects E h) (table E ep) = Some (cid, s) -> AllQ E (table E ep) -> NoDup (map fst (table E ep)) ->
  cprop (co (inner (hdl_iface E) s)) <> None -> p_auth m = false ->
  exists o,
    (o = None
     \/ (o = last_resp (hdl_iface E) s /\ snd (decision (hdl_iface E) s m) = RCached
         /\ h_exch (p_hdr m) = EX_IKE_SA_INIT /\ h_resp (p_hdr m) = false /\ state (hdl_iface E) s = ST_INIT_RES_SENT
         /\ h_id (p_hdr m) = peer_id (hdl_iface E) s - 1 /\ p_hdr m <> h))
    /\ let a := iteration E ep tnow tp (Ev_datagram (Dg h my peer (Some m))) in
       let b := iteration E ep tnow tp Ev_none in
       table E a = table E b /\ next_cid E a = next_cid E b /\ ep_tape E a = ep_tape E b /\ ep_kops E a = ep_kops E b
       /\ ep_sent E a = olist o ++ ep_sent E b.
Proof. exact unauthenticated_datagram_iteration. Qed.
Print Assumptions C03E_forged_datagram_invisible_after_the_iteration.

Theorem C03E_forged_datagram_invisible_after_the_iteration_one_header :
  forall E (ep : endpoint E) tnow tp h my peer (m : pmsg body) cid (s : esa E),
  dispatch_is_init_request (h_exch h) (negb (h_resp h)) = false ->
  find (selects E h) (table E ep) = Some (cid, s) -> AllQ E (table E ep) -> NoDup (map fst (table E ep)) ->
  cprop (co (inner (hdl_iface E) s)) <> None -> p_auth m = false -> p_hdr m = h ->
  let a := iteration E ep tnow tp (Ev_datagram (Dg h my peer (Some m))) in
  let b := iteration E ep tnow tp Ev_none in
  table E a = table E b /\ next_cid E a = next_cid E b /\ ep_tape E a = ep_tape E b /\ ep_kops E a = ep_kops E b
  /\ ep_sent E a = ep_sent E b.
Proof. exact unauthenticated_datagram_iteration_one_header. Qed.
Print Assumptions C03E_forged_datagram_invisible_after_the_iteration_one_header.

(** 5. A concrete endpoint (toy environment HdlSad.Example.E0) with two established IkeSas, A with one CHILD_SA: a forged
    cleartext INFORMATIONAL request (DELETE of the IKE_SA) with the right SPIs and the next Message ID, addressed to A,
    leaves both literally unchanged, sends nothing, issues no kernel operation, consumes nothing of the tape; after
    the whole iteration every field of every table entry is what the iteration without the datagram gives *)
Theorem C03E_example_forged_delete :
  dispatch HdlSad.Example.E0 (WindowExample.ep_two WindowExample.vv)
           (WindowExample.dgm false EX_INFORMATIONAL 0 WindowExample.del_ike)
  = mk_ep HdlSad.Example.E0 [(0%nat, WindowExample.sa_a); (1%nat, WindowExample.sa_b)] 2 EpExample.cfs [9%N]
          WindowExample.vv 0 [] [] (Some 0%nat) None
  /\ map WindowExample.fields
         (table HdlSad.Example.E0
            (iteration HdlSad.Example.E0 (WindowExample.ep_two []) 5 WindowExample.vv
               (Ev_datagram (WindowExample.dgm false EX_INFORMATIONAL 0 WindowExample.del_ike))))
     = map WindowExample.fields
         (table HdlSad.Example.E0 (iteration HdlSad.Example.E0 (WindowExample.ep_two []) 5 WindowExample.vv Ev_none))
  /\ ep_sent HdlSad.Example.E0
       (iteration HdlSad.Example.E0 (WindowExample.ep_two []) 5 WindowExample.vv
          (Ev_datagram (WindowExample.dgm false EX_INFORMATIONAL 0 WindowExample.del_ike))) = []
  /\ ep_kops HdlSad.Example.E0
       (iteration HdlSad.Example.E0 (WindowExample.ep_two []) 5 WindowExample.vv
          (Ev_datagram (WindowExample.dgm false EX_INFORMATIONAL 0 WindowExample.del_ike))) = [].
Proof. exact WindowExample.forged_delete. Qed.
Print Assumptions C03E_example_forged_delete.

(** the same datagram when it IS authentic: IkeSa A is removed, its two kernel SAs are deleted, one response is sent *)
Theorem C03E_example_authentic_delete :
  WindowExample.view (dispatch HdlSad.Example.E0 (WindowExample.ep_two WindowExample.vv)
                               (WindowExample.dgm true EX_INFORMATIONAL 0 WindowExample.del_ike))
  = ([(1%nat, ST_ESTABLISHED, 0, 0, 1000, 0%nat)],
     [K_del 20 50 [0;0;0;2]%N true; K_del 10 50 [0;0;0;1]%N true], 1%nat, [], Some 0%nat, 2%nat).
Proof. exact WindowExample.authentic_delete. Qed.
Print Assumptions C03E_example_authentic_delete.

(** a forged cleartext CREATE_CHILD_SA request: the same *)
Theorem C03E_example_forged_create_child :
  dispatch HdlSad.Example.E0 (WindowExample.ep_two WindowExample.tape_new)
           (WindowExample.dgm false EX_CREATE_CHILD_SA 0 WindowExample.new_child)
  = mk_ep HdlSad.Example.E0 [(0%nat, WindowExample.sa_a); (1%nat, WindowExample.sa_b)] 2 EpExample.cfs [9%N]
          WindowExample.tape_new 0 [] [] (Some 0%nat) None.
Proof. exact WindowExample.forged_create_child. Qed.
Print Assumptions C03E_example_forged_create_child.
