(** C03 for the concrete IkeSa model (shell of Shell.v instantiated with the handler model Hdl.v): property theorems only. *)
From Coq Require Import ZArith Bool List.
From VLib Require Import Bytes.
From IkeSa Require Import Gen.IkeFacts Shell Hdl HdlShell.
Open Scope Z_scope.

(** For every environment (cryptography, draws, kernel verdicts), every concrete IkeSa that has keys and every parsed
    datagram that did not pass the integrity check: the COMPLETE concrete state is unchanged - in particular the state,
    the key ring, the CHILD_SAs and the list of kernel operations issued (no kernel SA is touched) - and the only
    possible output is the cached response. *)
Theorem C03H_no_effect_on_the_concrete_ike_sa : forall (E : env) (s : sa (hdl_iface E)) (m : pmsg body) (now : Z),
  cprop (co (inner (hdl_iface E) s)) <> None -> p_auth m = false ->
  let s' := fst (process_message (hdl_iface E) s m now) in
  s' = s /\ children (co (inner (hdl_iface E) s')) = children (co (inner (hdl_iface E) s))
  /\ kops (inner (hdl_iface E) s') = kops (inner (hdl_iface E) s)
  /\ kr (co (inner (hdl_iface E) s')) = kr (co (inner (hdl_iface E) s))
  /\ st (co (inner (hdl_iface E) s')) = st (co (inner (hdl_iface E) s))
  /\ (snd (process_message (hdl_iface E) s m now) = None
      \/ snd (process_message (hdl_iface E) s m now) = last_resp (hdl_iface E) s).
Proof. exact unauthenticated_no_effect_concrete. Qed.
Print Assumptions C03H_no_effect_on_the_concrete_ike_sa.
