(** C17 - nothing can stop the daemon: exception containment of the event loop (property theorems only). *)
From Coq Require Import ZArith Bool List.
From IkeSa Require Import Gen.IkeFacts Controller ControllerProofs.
Import ListNotations.

(** every exception class derived from Exception (the classes the code can raise: protocol errors, configuration
    lookups, OSError/gaierror from sockets, KeyError, and any other) is caught by the `try` that encloses one
    whole iteration of main_loop; [loop_catches] is regenerated from the `except` clauses of the current source *)
Theorem C17_loop_contains_every_exception : forall (e : exn_class), catches loop_catches e = true.
Proof. intros e. destruct e; reflexivity. Qed.
Print Assumptions C17_loop_contains_every_exception.

(** dispatch_message itself drops (rather than propagates) what a peer can provoke: a datagram that is not an
    IKE message, an IKE_SA_INIT request from an unknown address pair, a message that cannot be parsed *)
Theorem C17_dispatch_contains_protocol_errors :
  catches dispatch_header_catches E_IkeSaError = true /\
  catches dispatch_conf_catches E_ConfigurationNotFound = true /\
  catches dispatch_process_catches E_IkeSaError = true.
Proof. repeat split; reflexivity. Qed.
Print Assumptions C17_dispatch_contains_protocol_errors.

(** whatever the datagram, no exception of those classes leaves dispatch_message and no IKE_SA other than the one
    addressed is touched (frame): hostile input to one IKE_SA cannot disturb another peer's *)
Theorem C17_hostile_datagram_contained : forall (C : ciface) (t : table C) (hp : hparse) (mk : newsa C) (data : D C),
  (forall e, hp = HBad e -> e = E_IkeSaError) ->
  (forall e, mk = NoConf C e -> e = E_ConfigurationNotFound) ->
  (forall s s' e, sa_process C s data = PRaised s' e -> e = E_IkeSaError) ->
  dr_escaped C (dispatch C t hp mk data) = None.
Proof.
  intros C t hp mk data Hh Hm Hp. unfold dispatch.
  destruct hp as [e|exch req init spi_i spi_r].
  { rewrite (Hh e eq_refl). reflexivity. }
  destruct (dispatch_is_init_request exch req).
  - destruct mk as [e|s0]; [rewrite (Hm e eq_refl); reflexivity|].
    match goal with |- context [sa_process C ?x data] => destruct (sa_process C x data) as [s2 r|s2 e] eqn:E end.
    + destruct (dispatch_drop_ignored _); [reflexivity|].
      unfold finish. destruct (sa_successor C s2); [destruct (dispatch_register_successor _ _)|];
        match goal with |- context [if ?c then _ else _] => destruct c end; reflexivity.
    + rewrite (Hp _ _ _ E). reflexivity.
  - destruct (find _ t) as [s|]; [|reflexivity].
    destruct (sa_process C s data) as [s2 r|s2 e] eqn:E.
    + unfold finish. destruct (sa_successor C s2); [destruct (dispatch_register_successor _ _)|];
        match goal with |- context [if ?c then _ else _] => destruct c end; reflexivity.
    + rewrite (Hp _ _ _ E). reflexivity.
Qed.
Print Assumptions C17_hostile_datagram_contained.
