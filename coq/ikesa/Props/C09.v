(** C09 - colliding exchanges leave both peers consistent (property theorems only; the convergence clause is
    bounded, see DESIGN.md: it is explored on the real code by the check, exhaustively to a depth and by seeded walks). *)
From Coq Require Import ZArith Bool List.
From IkeSa Require Import Gen.IkeFacts Transitions Shell ShellProofs Controller ControllerProofs.
Import ListNotations.
Open Scope Z_scope.

(** every step the code can take is one the state machine allows: every state a handler, generator, trigger or timer
    may assign, from every state it is admitted in, is an allowed successor (complete finite domain: the regenerated
    admission and assignment tables of the current source) *)
Theorem C09_transitions_allowed :
  forallb (fun t => allowed (fst t) (snd t)) (code_transitions ++ trigger_transitions) = true.
Proof. vm_compute. reflexivity. Qed.
Print Assumptions C09_transitions_allowed.

Theorem C09_transitions_allowed_forall : forall s s', In (s, s') (code_transitions ++ trigger_transitions) -> allowed s s' = true.
Proof.
  intros s s' H. pose proof C09_transitions_allowed as A. rewrite forallb_forall in A. exact (A (s, s') H).
Qed.
Print Assumptions C09_transitions_allowed_forall.

(** nothing leaves DELETED, and nothing is admitted there *)
Theorem C09_deleted_is_final :
  allowed_next ST_DELETED = [] /\
  forallb (fun a => match a with (_, _, sts) => negb (existsb (Z.eqb ST_DELETED) sts) end) admissions = true.
Proof. split; vm_compute; reflexivity. Qed.
Print Assumptions C09_deleted_is_final.

(** no IKE_SA waits for ever: every state in which a request is outstanding (i) is a state in which the
    retransmission timer runs, hence ends in DELETED after the budget (C13), and (ii) admits a response handler *)
Theorem C09_no_wait_forever :
  forallb (fun st => implb (is_req_sent st)
                       (rt_states st &&
                        existsb (fun f => existsb (Z.eqb st) (admitted_in f))
                                [FN_process_ike_sa_init_response; FN_process_ike_auth_response;
                                 FN_process_create_child_sa_response; FN_process_informational_response]))
          all_states = true /\
  forallb (fun st => implb (rt_states st) (is_req_sent st)) all_states = true.
Proof. split; vm_compute; reflexivity. Qed.
Print Assumptions C09_no_wait_forever.

(** local triggers never start a second exchange: they are processed only when nothing is outstanding and the state
    satisfies the assert of the generator they call; otherwise they are queued *)
Theorem C09_triggers_only_when_idle :
  forallb (fun st => implb (negb (acquire_must_queue st)) (negb (is_req_sent st))) all_states = true /\
  forallb (fun st => implb (negb (expire_must_queue st)) (Z.eqb st ST_ESTABLISHED)) all_states = true.
Proof. split; vm_compute; reflexivity. Qed.
Print Assumptions C09_triggers_only_when_idle.

(** RFC 7296 2.25: collisions *)
Theorem C09_collisions : forall st is_rekey found sd sr,
  (* a CHILD_SA request while we are rekeying or deleting the IKE_SA -> TEMPORARY_FAILURE *)
  (st = ST_REK_IKE_SA_REQ_SENT \/ st = ST_DEL_IKE_SA_REQ_SENT -> child_request_collision st is_rekey found sd sr = TemporaryFailure) /\
  (* a rekey of a CHILD_SA we do not have -> CHILD_SA_NOT_FOUND *)
  (st <> ST_REK_IKE_SA_REQ_SENT -> st <> ST_DEL_IKE_SA_REQ_SENT -> is_rekey = true -> found = false ->
   child_request_collision st is_rekey found sd sr = ChildSaNotFound) /\
  (* a rekey of the CHILD_SA we are deleting / rekeying ourselves -> TEMPORARY_FAILURE *)
  (st = ST_DEL_CHILD_REQ_SENT -> is_rekey = true -> found = true -> sd = true ->
   child_request_collision st is_rekey found sd sr = TemporaryFailure) /\
  (st = ST_REK_CHILD_REQ_SENT -> is_rekey = true -> found = true -> sr = true ->
   child_request_collision st is_rekey found sd sr = TemporaryFailure) /\
  (* an IKE_SA rekey request while anything of ours is outstanding -> TEMPORARY_FAILURE *)
  (st <> ST_ESTABLISHED -> ike_rekey_request_collision st = TemporaryFailure) /\
  (ike_rekey_request_collision ST_ESTABLISHED = NoCollision).
Proof.
  intros st is_rekey found sd sr. repeat split.
  - intros [->| ->]; reflexivity.
  - intros H1 H2 -> ->. unfold child_request_collision, child_request_while_ike_busy.
    destruct (Z.eqb st ST_REK_IKE_SA_REQ_SENT) eqn:E1; [apply Z.eqb_eq in E1; contradiction|].
    destruct (Z.eqb st ST_DEL_IKE_SA_REQ_SENT) eqn:E2; [apply Z.eqb_eq in E2; contradiction|]. reflexivity.
  - intros -> -> -> ->. reflexivity.
  - intros -> -> -> ->. reflexivity.
  - intros H. unfold ike_rekey_request_collision, ike_rekey_while_busy.
    destruct (Z.eqb st ST_ESTABLISHED) eqn:E; [apply Z.eqb_eq in E; contradiction|]. reflexivity.
Qed.
Print Assumptions C09_collisions.

(** no exception escapes an entry point (with C17): the shell catches every exception of a handler *)
Theorem C09_no_escape : forall (e : exn_class), catches loop_catches e = true.
Proof. intros e. destruct e; reflexivity. Qed.
Print Assumptions C09_no_escape.
