(** C12 on the handler model - traffic selectors are only ever narrowed and the mode must match (property theorems only).
    Vocabulary (HdlNego.v), each term written out by a [*_def_*] theorem below.  [E] (cryptography), the state, the
    message and the tape are arbitrary. *)
From Coq Require Import ZArith NArith Bool List.
From RecordUpdate Require Import RecordSet.
From VLib Require Import Bytes.
From IkeSa Require Import Gen.IkeFacts Shell Hdl HdlAuth HdlAgree HdlNego.
Import ListNotations RecordSetNotations.
Open Scope Z_scope.

Theorem C12H_ts_is_subset_iff :
  forall a b,
  ts_is_subset a b = true <->
  ts_type a = ts_type b /\ (ts_proto b = 0 \/ ts_proto a = ts_proto b) /\
  ts_sport b <= ts_sport a /\ ts_eport a <= ts_eport b /\ ts_saddr b <= ts_saddr a /\ ts_eaddr a <= ts_eaddr b.
Proof. exact ts_is_subset_iff. Qed.
Print Assumptions C12H_ts_is_subset_iff.

Theorem C12H_ts_is_subset_refl :
  forall a,
  ts_is_subset a a = true.
Proof. exact ts_is_subset_refl. Qed.
Print Assumptions C12H_ts_is_subset_refl.

Theorem C12H_ts_is_subset_trans :
  forall a b c,
  ts_is_subset a b = true -> ts_is_subset b c = true -> ts_is_subset a c = true.
Proof. exact ts_is_subset_trans. Qed.
Print Assumptions C12H_ts_is_subset_trans.

Theorem C12H_def_ts_matches :
  forall t ty proto port addr,
  ts_matches t ty proto port addr <->
  ty = ts_type t /\ (ts_proto t = 0 \/ proto = ts_proto t) /\ ts_sport t <= port <= ts_eport t /\
  ts_saddr t <= addr <= ts_eaddr t.
Proof. exact def_ts_matches. Qed.
Print Assumptions C12H_def_ts_matches.

Theorem C12H_ts_is_subset_matches :
  forall a b ty proto port addr,
  ts_is_subset a b = true -> ts_proto a <> 0 \/ ts_proto b = 0 -> ts_matches a ty proto port addr ->
  ts_matches b ty proto port addr.
Proof. exact ts_is_subset_matches. Qed.
Print Assumptions C12H_ts_is_subset_matches.

Theorem C12H_tsl_eqb_eq :
  forall a,
  forall b, tsl_eqb a b = true <-> a = b.
Proof. exact tsl_eqb_eq. Qed.
Print Assumptions C12H_tsl_eqb_eq.

Theorem C12H_def_larger :
  forall p tsi tsr,
  larger p tsi tsr = ts_is_subset tsi (pt_peer_ts p) && ts_is_subset tsr (pt_my_ts p).
Proof. exact def_larger. Qed.
Print Assumptions C12H_def_larger.

Theorem C12H_def_smaller :
  forall p tsi tsr,
  smaller p tsi tsr = ts_is_subset (pt_peer_ts p) tsi && ts_is_subset (pt_my_ts p) tsr.
Proof. exact def_smaller. Qed.
Print Assumptions C12H_def_smaller.

Theorem C12H_def_pair_matches :
  forall l tsi tsr,
  pair_matches l tsi tsr <-> exists p, In p l /\ (larger p tsi tsr = true \/ smaller p tsi tsr = true).
Proof. exact def_pair_matches. Qed.
Print Assumptions C12H_def_pair_matches.

Theorem C12H_def_pair_choice :
  forall l tsi tsr pc ctsr ctsi,
  pair_choice l tsi tsr pc ctsr ctsi <->
  (ctsi = tsi /\ ctsr = tsr /\
  exists pre post, l = pre ++ pc :: post /\ larger pc tsi tsr = true /\ forall q, In q pre -> larger q tsi tsr = false)
  \/
  (ctsi = pt_peer_ts pc /\ ctsr = pt_my_ts pc /\ (forall q, In q l -> larger q tsi tsr = false) /\
  exists pre post, l = pre ++ pc :: post /\ smaller pc tsi tsr = true /\ forall q, In q pre -> smaller q tsi tsr = false).
Proof. exact def_pair_choice. Qed.
Print Assumptions C12H_def_pair_choice.

Theorem C12H_def_req_mode :
  forall m,
  req_mode m = if nonempty (get_notifies m N_USE_TRANSPORT_MODE true) then MODE_TRANSPORT else MODE_TUNNEL.
Proof. exact def_req_mode. Qed.
Print Assumptions C12H_def_req_mode.

Theorem C12H_def_rekey_gate :
  forall m c psa ptsi ptsr r0,
  rekey_gate m c psa ptsi ptsr r0 <->
  match get_notifies m N_REKEY_SA true with
  | [] => r0 = []
  | n :: _ => exists nproto nspi d rk p0,
  n = P_NOTIFY nproto N_REKEY_SA nspi d /\ find_child (children c) nspi = Some rk /\
  rekey_child_being_deleted (st c) (opt_child_eqb rk (deleting c)) = false /\
  rekey_child_being_rekeyed (st c) (opt_child_eqb rk (rekeying c)) = false /\
  tsl_of ptsi = c_tsr rk /\ tsl_of ptsr = c_tsi rk /\
  hd_error (sa_props psa) = Some p0 /\ r0 = [P_NOTIFY (pr_proto p0) N_REKEY_SA (c_in rk) []]
  end.
Proof. exact def_rekey_gate. Qed.
Print Assumptions C12H_def_rekey_gate.

Theorem C12H_def_rekey_clause :
  forall m c ptsi ptsr,
  rekey_clause m c ptsi ptsr <->
  forall nproto ty nspi d rest, get_notifies m N_REKEY_SA true = P_NOTIFY nproto ty nspi d :: rest ->
  exists rk, find_child (children c) nspi = Some rk /\ tsl_of ptsi = c_tsr rk /\ tsl_of ptsr = c_tsi rk /\
  rekey_child_being_deleted (st c) (opt_child_eqb rk (deleting c)) = false /\
  rekey_child_being_rekeyed (st c) (opt_child_eqb rk (rekeying c)) = false.
Proof. exact def_rekey_clause. Qed.
Print Assumptions C12H_def_rekey_clause.

Theorem C12H_def_resp_pre0 :
  forall m s psa ptsi ptsr r0 nn s1,
  resp_pre0 m s psa ptsi ptsr r0 nn s1 <->
  hd_error (get_payloads m K_SA true) = Some psa /\
  hd_error (get_payloads m K_TSi true) = Some ptsi /\
  hd_error (get_payloads m K_TSr true) = Some ptsr /\
  child_request_while_ike_busy (st (co s)) = false /\
  rekey_gate m (co s) psa ptsi ptsr r0 /\
  opt_nonce (h_exch (p_hdr m)) m s = (Ok nn, s1).
Proof. exact def_resp_pre0. Qed.
Print Assumptions C12H_def_resp_pre0.

Theorem C12H_def_resp_pre :
  forall m s psa ptsi ptsr r0 nn s1 pc ctsr ctsi,
  resp_pre m s psa ptsi ptsr r0 nn s1 pc ctsr ctsi <->
  resp_pre0 m s psa ptsi ptsr r0 nn s1 /\
  conf_for_tsi (cf_protect (cfg (co s))) (rev (tsl_of ptsi)) (rev (tsl_of ptsr)) = Some (pc, ctsr, ctsi).
Proof. exact def_resp_pre. Qed.
Print Assumptions C12H_def_resp_pre.

Theorem C12H_def_conf_for_tsi :
  forall l tsis tsrs x,
  conf_for_tsi l (rev tsis) (rev tsrs) = Some x <->
  forall s, get_ipsec_configuration l tsis tsrs s = (Ok x, s).
Proof. exact def_conf_for_tsi. Qed.
Print Assumptions C12H_def_conf_for_tsi.

Theorem C12H_def_rejected :
  forall m,
  rejected m = existsb (fun ty => nonempty (get_notifies m ty true))
  [N_NO_PROPOSAL_CHOSEN; N_TS_UNACCEPTABLE; N_CHILD_SA_NOT_FOUND; N_TEMPORARY_FAILURE; N_NO_ADDITIONAL_SAS].
Proof. exact def_rejected. Qed.
Print Assumptions C12H_def_rejected.

Theorem C12H_def_init_pre :
  forall m s psa ptsi ptsr nn cr,
  init_pre m s psa ptsi ptsr nn cr <->
  rejected m = false /\
  hd_error (get_payloads m K_SA true) = Some psa /\
  hd_error (get_payloads m K_TSi true) = Some ptsi /\
  hd_error (get_payloads m K_TSr true) = Some ptsr /\
  res_nonces m (co s) s = (Ok nn, s) /\
  creating (co s) = Some cr.
Proof. exact def_init_pre. Qed.
Print Assumptions C12H_def_init_pre.

Theorem C12H_def_res_nonces :
  forall m c,
  res_nonces m c =
  if Z.eqb (h_exch (p_hdr m)) EX_IKE_AUTH then
  a <- amsg_nonce (init_req c) ;; b <- amsg_nonce (init_res c) ;; ret (a, b)
  else
  req <- of_opt (request c) X_Other ;;
  a <- req_get req K_NONCE ;; b <- get_payload m K_NONCE true ;; ret (nonce_of a, nonce_of b).
Proof. exact def_res_nonces. Qed.
Print Assumptions C12H_def_res_nonces.

Theorem C12H_def_res_keyseed :
  forall E m c ch n_req n_res,
  res_keyseed E m c ch n_req n_res =
  if nonempty (get_transforms ch T_DH) then
  pke <- get_payload m K_KE true ;;
  d <- of_opt (dh c) X_Other ;;
  secret <- of_opt (e_dh_secret E (fst d) (snd d) (snd (ke_of pke))) X_Other ;;
  ret (secret ++ n_req ++ n_res)
  else ret (n_req ++ n_res).
Proof. exact def_res_keyseed. Qed.
Print Assumptions C12H_def_res_keyseed.

Theorem C12H_get_ipsec_configuration_ok :
  forall l tsis tsrs pc ctsr ctsi s s',
  get_ipsec_configuration l tsis tsrs s = (Ok (pc, ctsr, ctsi), s') ->
  s' = s /\ In pc l /\
  exists tsi tsr, In tsi tsis /\ In tsr tsrs /\
  (* either the requested pair itself, covered by the policy, or the policy's own pair, covered by the request *)
  ((ctsi = tsi /\ ctsr = tsr /\ ts_is_subset tsi (pt_peer_ts pc) = true /\ ts_is_subset tsr (pt_my_ts pc) = true) \/
  (ctsi = pt_peer_ts pc /\ ctsr = pt_my_ts pc /\ ts_is_subset (pt_peer_ts pc) tsi = true /\
  ts_is_subset (pt_my_ts pc) tsr = true /\ forall q, In q l -> larger q tsi tsr = false)) /\
  (* in both cases: contained in a requested pair and in the policy *)
  ts_is_subset ctsi tsi = true /\ ts_is_subset ctsi (pt_peer_ts pc) = true /\
  ts_is_subset ctsr tsr = true /\ ts_is_subset ctsr (pt_my_ts pc) = true.
Proof. exact get_ipsec_configuration_ok. Qed.
Print Assumptions C12H_get_ipsec_configuration_ok.

Theorem C12H_get_ipsec_configuration_raise_iff :
  forall l tsis tsrs e s s',
  get_ipsec_configuration l tsis tsrs s = (Raise e, s') <->
  s' = s /\ e = X_TsUnacceptable /\
  forall tsi tsr p, In tsi tsis -> In tsr tsrs -> In p l -> larger p tsi tsr = false /\ smaller p tsi tsr = false.
Proof. exact get_ipsec_configuration_raise_iff. Qed.
Print Assumptions C12H_get_ipsec_configuration_raise_iff.

Theorem C12H_get_ipsec_configuration_not_stuck :
  forall l tsis tsrs s,
  fst (get_ipsec_configuration l tsis tsrs s) <> Stuck.
Proof. exact get_ipsec_configuration_not_stuck. Qed.
Print Assumptions C12H_get_ipsec_configuration_not_stuck.

Theorem C12H_get_ipsec_configuration_order :
  forall l tsis tsrs pc ctsr ctsi s s',
  get_ipsec_configuration l tsis tsrs s = (Ok (pc, ctsr, ctsi), s') ->
  exists prei tsi posti prer tsr postr,
  tsis = prei ++ tsi :: posti /\ tsrs = prer ++ tsr :: postr /\
  (forall a b, In a posti -> In b tsrs -> ~ pair_matches l a b) /\
  (forall b, In b postr -> ~ pair_matches l tsi b) /\
  pair_choice l tsi tsr pc ctsr ctsi.
Proof. exact get_ipsec_configuration_order. Qed.
Print Assumptions C12H_get_ipsec_configuration_order.

Theorem C12H_responder_selectors_mode :
  forall E m s r s' ks,
  child_nego_req E m s = (r, s') -> kops s' = kops s ++ ks ->
  (exists x ok, In (K_add x ok) ks) \/ children (co s') <> children (co s) ->
  exists ptsi ptsr pc ctsr ctsi tsi tsr,
  hd_error (get_payloads m K_TSi true) = Some ptsi /\ hd_error (get_payloads m K_TSr true) = Some ptsr /\
  In pc (cf_protect (cfg (co s))) /\ In tsi (tsl_of ptsi) /\ In tsr (tsl_of ptsr) /\
  conf_for_tsi (cf_protect (cfg (co s))) (rev (tsl_of ptsi)) (rev (tsl_of ptsr)) = Some (pc, ctsr, ctsi) /\
  ((ctsi = tsi /\ ctsr = tsr) \/ (ctsi = pt_peer_ts pc /\ ctsr = pt_my_ts pc)) /\
  ts_is_subset ctsi tsi = true /\ ts_is_subset ctsi (pt_peer_ts pc) = true /\
  ts_is_subset ctsr tsr = true /\ ts_is_subset ctsr (pt_my_ts pc) = true /\
  pt_mode pc = req_mode m /\
  rekey_clause m (co s) ptsi ptsr /\
  (forall x ok, In (K_add x ok) ks ->
  k_mode x = req_mode m /\ k_mode x = pt_mode pc /\
  ((k_sel_src x = ctsr /\ k_sel_dst x = ctsi) \/ (k_sel_src x = ctsi /\ k_sel_dst x = ctsr))) /\
  (children (co s') = children (co s) \/
  exists c a b, children (co s') = children (co s) ++ [c] /\
  c_tsi c = [ctsr] /\ c_tsr c = [ctsi] /\ c_mode c = req_mode m /\
  ks = [K_add a true; K_add b true] /\
  (* outbound: source = my side *) k_spi a = c_out c /\ k_sel_src a = ctsr /\ k_sel_dst a = ctsi /\
  (* inbound: swapped *)           k_spi b = c_in c /\ k_sel_src b = ctsi /\ k_sel_dst b = ctsr).
Proof. exact resp_selectors_mode. Qed.
Print Assumptions C12H_responder_selectors_mode.

Theorem C12H_responder_mode_mismatch :
  forall E m s psa ptsi ptsr r0 nn s1 pc ctsr ctsi,
  resp_pre m s psa ptsi ptsr r0 nn s1 pc ctsr ctsi -> pt_mode pc <> req_mode m ->
  child_nego_req_body E m s = (Raise X_TsUnacceptable, s1) /\
  child_nego_req E m s = (Ok [P_NOTIFY PROTO_NONE N_TS_UNACCEPTABLE [] []], s1) /\
  kops s1 = kops s /\ co s1 = co s /\ new_sa s1 = new_sa s.
Proof. exact resp_mode_mismatch. Qed.
Print Assumptions C12H_responder_mode_mismatch.

Theorem C12H_responder_ts_unacceptable :
  forall E m s psa ptsi ptsr r0 nn s1,
  resp_pre0 m s psa ptsi ptsr r0 nn s1 ->
  (forall tsi tsr p, In tsi (tsl_of ptsi) -> In tsr (tsl_of ptsr) -> In p (cf_protect (cfg (co s))) ->
  larger p tsi tsr = false /\ smaller p tsi tsr = false) ->
  child_nego_req_body E m s = (Raise X_TsUnacceptable, s1) /\
  child_nego_req E m s = (Ok [P_NOTIFY PROTO_NONE N_TS_UNACCEPTABLE [] []], s1) /\
  kops s1 = kops s /\ co s1 = co s /\ new_sa s1 = new_sa s.
Proof. exact resp_ts_unacceptable. Qed.
Print Assumptions C12H_responder_ts_unacceptable.

Theorem C12H_responder_rekey_ts_mismatch :
  forall E m s psa ptsi ptsr nproto ty nspi d rest rk,
  hd_error (get_payloads m K_SA true) = Some psa ->
  hd_error (get_payloads m K_TSi true) = Some ptsi ->
  hd_error (get_payloads m K_TSr true) = Some ptsr ->
  st (co s) <> ST_REK_IKE_SA_REQ_SENT -> st (co s) <> ST_DEL_IKE_SA_REQ_SENT ->
  get_notifies m N_REKEY_SA true = P_NOTIFY nproto ty nspi d :: rest ->
  find_child (children (co s)) nspi = Some rk ->
  (st (co s) = ST_DEL_CHILD_REQ_SENT -> opt_child_eqb rk (deleting (co s)) = false) ->
  (st (co s) = ST_REK_CHILD_REQ_SENT -> opt_child_eqb rk (rekeying (co s)) = false) ->
  tsl_of ptsi <> c_tsr rk \/ tsl_of ptsr <> c_tsi rk ->
  child_nego_req_body E m s = (Raise X_TsUnacceptable, s) /\
  child_nego_req E m s = (Ok [P_NOTIFY PROTO_NONE N_TS_UNACCEPTABLE [] []], s).
Proof. exact resp_rekey_ts_mismatch. Qed.
Print Assumptions C12H_responder_rekey_ts_mismatch.

Theorem C12H_ccsa_request_is_child_nego :
  forall E m s psa p0,
  memZ (st (co s)) (states_range ST_ESTABLISHED ST_REKEYED) = true ->
  hd_error (get_payloads m K_SA true) = Some psa -> hd_error (sa_props psa) = Some p0 -> pr_proto p0 <> PROTO_IKE ->
  process_create_child_sa_request E m s = child_nego_req E m s.
Proof. exact ccsa_request_is_child_nego. Qed.
Print Assumptions C12H_ccsa_request_is_child_nego.

Theorem C12H_ccsa_request_rekey_ts_mismatch :
  forall E m s psa p0 ptsi ptsr nproto ty nspi d rest rk,
  In (st (co s)) [ST_ESTABLISHED; ST_NEW_CHILD_REQ_SENT; ST_REK_CHILD_REQ_SENT; ST_DEL_CHILD_REQ_SENT;
  ST_DEL_AFTER_REKEY_IKE_SA_REQ_SENT; ST_DPD_REQ_SENT] ->
  hd_error (get_payloads m K_SA true) = Some psa -> hd_error (sa_props psa) = Some p0 -> pr_proto p0 <> PROTO_IKE ->
  hd_error (get_payloads m K_TSi true) = Some ptsi -> hd_error (get_payloads m K_TSr true) = Some ptsr ->
  get_notifies m N_REKEY_SA true = P_NOTIFY nproto ty nspi d :: rest ->
  find_child (children (co s)) nspi = Some rk ->
  (st (co s) = ST_DEL_CHILD_REQ_SENT -> opt_child_eqb rk (deleting (co s)) = false) ->
  (st (co s) = ST_REK_CHILD_REQ_SENT -> opt_child_eqb rk (rekeying (co s)) = false) ->
  tsl_of ptsi <> c_tsr rk \/ tsl_of ptsr <> c_tsi rk ->
  process_create_child_sa_request E m s = (Ok [P_NOTIFY PROTO_NONE N_TS_UNACCEPTABLE [] []], s).
Proof. exact ccsa_request_rekey_ts_mismatch. Qed.
Print Assumptions C12H_ccsa_request_rekey_ts_mismatch.

Theorem C12H_initiator_selectors_mode :
  forall E m s r s' ks,
  child_nego_res E m s = (r, s') -> kops s' = kops s ++ ks ->
  (exists u, r = Ok u) \/ (exists x ok, In (K_add x ok) ks) \/ children (co s') <> children (co s) ->
  exists ptsi ptsr cr ctsi ctsr tsi tsr,
  hd_error (get_payloads m K_TSi true) = Some ptsi /\ hd_error (get_payloads m K_TSr true) = Some ptsr /\
  creating (co s) = Some cr /\ hd_error (tsl_of ptsi) = Some ctsi /\ hd_error (tsl_of ptsr) = Some ctsr /\
  In tsi (c_tsi cr) /\ ts_is_subset ctsi tsi = true /\ In tsr (c_tsr cr) /\ ts_is_subset ctsr tsr = true /\
  c_mode cr = req_mode m /\
  (forall x ok, In (K_add x ok) ks ->
  k_mode x = c_mode cr /\
  ((k_sel_src x = ctsi /\ k_sel_dst x = ctsr) \/ (k_sel_src x = ctsr /\ k_sel_dst x = ctsi))) /\
  ((children (co s') = children (co s) /\ forall u, r <> Ok u) \/
  exists c a b, children (co s') = children (co s) ++ [c] /\
  c_tsi c = [ctsi] /\ c_tsr c = [ctsr] /\ c_mode c = c_mode cr /\
  ks = [K_add a true; K_add b true] /\
  k_spi a = c_out c /\ k_sel_src a = ctsi /\ k_sel_dst a = ctsr /\
  k_spi b = c_in c /\ k_sel_src b = ctsr /\ k_sel_dst b = ctsi).
Proof. exact init_selectors_mode. Qed.
Print Assumptions C12H_initiator_selectors_mode.

Theorem C12H_initiator_ts_unacceptable_untouched :
  forall E m s s',
  child_nego_res E m s = (Raise X_TsUnacceptable, s') ->
  s' = s /\
  exists cr, creating (co s) = Some cr /\
  (c_mode cr <> req_mode m \/
  exists ptsi ptsr ctsi ctsr,
  hd_error (get_payloads m K_TSi true) = Some ptsi /\ hd_error (get_payloads m K_TSr true) = Some ptsr /\
  hd_error (tsl_of ptsi) = Some ctsi /\ hd_error (tsl_of ptsr) = Some ctsr /\
  (existsb (ts_is_subset ctsi) (c_tsi cr) = false \/ existsb (ts_is_subset ctsr) (c_tsr cr) = false)).
Proof. exact init_ts_unacceptable_untouched. Qed.
Print Assumptions C12H_initiator_ts_unacceptable_untouched.

Theorem C12H_initiator_refuses_mode :
  forall E m s psa ptsi ptsr nn cr,
  init_pre m s psa ptsi ptsr nn cr -> c_mode cr <> req_mode m ->
  child_nego_res E m s = (Raise X_TsUnacceptable, s).
Proof. exact init_refuses_mode. Qed.
Print Assumptions C12H_initiator_refuses_mode.

Theorem C12H_initiator_refuses_selectors :
  forall E m s psa ptsi ptsr nn cr ch i keyseed k cp ck ctsi ctsr,
  init_pre m s psa ptsi ptsr nn cr -> c_mode cr = req_mode m -> hd_error (sa_props psa) = Some ch ->
  intersection (offer_of (h_exch (p_hdr m)) (c_prop cr)) ch = Some i -> prop_eqb i ch = true ->
  res_keyseed E m (co s) ch (fst nn) (snd nn) s = (Ok keyseed, s) ->
  kr (co s) = Some k -> cprop (co s) = Some cp -> e_child_keys E cp ch keyseed (sk_d k) = Some ck ->
  hd_error (tsl_of ptsi) = Some ctsi -> hd_error (tsl_of ptsr) = Some ctsr ->
  existsb (ts_is_subset ctsi) (c_tsi cr) = false \/ existsb (ts_is_subset ctsr) (c_tsr cr) = false ->
  child_nego_res E m s = (Raise X_TsUnacceptable, s).
Proof. exact init_refuses_selectors. Qed.
Print Assumptions C12H_initiator_refuses_selectors.

(** ** non-vacuity: concrete instances (toy environment of HdlAgree.Toy) *)
Import HdlAgree.Toy NegoToy.

Theorem C12H_nonvacuous_ipsec_conf_covered :
  forall s,
  get_ipsec_configuration [pol] [mk_ts 7 6 0 65535 0 255; mk_ts 7 6 80 80 120 130] [mk_ts 7 17 0 65535 12 15] s =
  (Ok (pol, mk_ts 7 17 0 65535 12 15, mk_ts 7 6 80 80 120 130), s).
Proof. exact NegoToy.ipsec_conf_covered. Qed.
Print Assumptions C12H_nonvacuous_ipsec_conf_covered.

Theorem C12H_nonvacuous_ipsec_conf_narrowed :
  forall s,
  get_ipsec_configuration [pol] [mk_ts 7 0 0 65535 0 255] [mk_ts 7 0 0 65535 0 50] s =
  (Ok (pol, pt_my_ts pol, pt_peer_ts pol), s).
Proof. exact NegoToy.ipsec_conf_narrowed. Qed.
Print Assumptions C12H_nonvacuous_ipsec_conf_narrowed.

Theorem C12H_nonvacuous_ipsec_conf_unacceptable :
  forall s,
  get_ipsec_configuration [pol] [mk_ts 7 0 0 65535 0 255] [mk_ts 7 0 0 65535 30 50] s = (Raise X_TsUnacceptable, s).
Proof. exact NegoToy.ipsec_conf_unacceptable. Qed.
Print Assumptions C12H_nonvacuous_ipsec_conf_unacceptable.

Theorem C12H_nonvacuous_responder_installs :
  forall pfs : bool,
  let s := cR0 pfs in let r := cR1 E0 pfs in
  exists a b, kops (snd r) = kops s ++ [K_add a true; K_add b true] /\
  k_sel_src a = ts_b /\ k_sel_dst a = ts_a /\ k_sel_src b = ts_a /\ k_sel_dst b = ts_b /\
  k_mode a = MODE_TUNNEL /\ pr_trs (k_prop a) = pr_trs (esp_prop pfs) /\
  length (children (co (snd r))) = 1%nat.
Proof. exact NegoToy.responder_installs. Qed.
Print Assumptions C12H_nonvacuous_responder_installs.

Theorem C12H_resp_mode_mismatch_nonvacuous :
  let m := m_transport in let s := cR0 false in
  w_pre m s /\ pt_mode (w_pc m s) <> req_mode m /\
  child_nego_req E0 m s = (Ok [P_NOTIFY PROTO_NONE N_TS_UNACCEPTABLE [] []], w_s1 m s) /\ kops (w_s1 m s) = [].
Proof. exact NegoToy.resp_mode_mismatch_nonvacuous. Qed.
Print Assumptions C12H_resp_mode_mismatch_nonvacuous.

Theorem C12H_resp_ts_unacceptable_nonvacuous :
  let m := m_badts in let s := cR0 false in
  resp_pre0 m s (w_psa m) (w_tsi m) (w_tsr m) [] (w_nn m s) (w_s1 m s) /\
  conf_for_tsi (cf_protect (cfg (co s))) (rev (tsl_of (w_tsi m))) (rev (tsl_of (w_tsr m))) = None /\
  child_nego_req E0 m s = (Ok [P_NOTIFY PROTO_NONE N_TS_UNACCEPTABLE [] []], w_s1 m s) /\ kops (w_s1 m s) = [].
Proof. exact NegoToy.resp_ts_unacceptable_nonvacuous. Qed.
Print Assumptions C12H_resp_ts_unacceptable_nonvacuous.

Theorem C12H_nonvacuous_rekey_in_del_state_installs :
  let r := child_nego_req E0 (rekey_msg ts_a) del_state in
  length (kops (snd r)) = 2%nat /\ length (children (co (snd r))) = 3%nat /\
  hd_error (okv (fst r) []) = Some (P_NOTIFY PROTO_ESP N_REKEY_SA [4;4;4;2]%N []).
Proof. exact NegoToy.rekey_in_del_state_installs. Qed.
Print Assumptions C12H_nonvacuous_rekey_in_del_state_installs.

Theorem C12H_nonvacuous_rekey_in_del_state_ts_mismatch :
  let m := rekey_msg (mk_ts 7 6 0 65535 100 100) in let s := del_state in
  st (co s) = ST_DEL_CHILD_REQ_SENT /\
  get_notifies m N_REKEY_SA true = [P_NOTIFY PROTO_ESP N_REKEY_SA [9;9;9;1]%N []] /\
  find_child (children (co s)) [9;9;9;1]%N = Some r_child /\ opt_child_eqb r_child (deleting (co s)) = false /\
  tsl_of (P_TSi [mk_ts 7 6 0 65535 100 100]) <> c_tsr r_child /\
  child_nego_req E0 m s = (Ok [P_NOTIFY PROTO_NONE N_TS_UNACCEPTABLE [] []], s).
Proof. exact NegoToy.rekey_in_del_state_ts_mismatch. Qed.
Print Assumptions C12H_nonvacuous_rekey_in_del_state_ts_mismatch.

Theorem C12H_nonvacuous_initiator_installs :
  forall pfs : bool,
  let s := cI1' pfs in let r := cI2 E0 pfs in
  fst r = Ok tt /\ exists a b, kops (snd r) = kops s ++ [K_add a true; K_add b true] /\
  k_sel_src a = ts_a /\ k_sel_dst a = ts_b /\ k_sel_src b = ts_b /\ k_sel_dst b = ts_a.
Proof. exact NegoToy.initiator_installs. Qed.
Print Assumptions C12H_nonvacuous_initiator_installs.

Theorem C12H_nonvacuous_initiator_refuses_mode :
  let m := res_with (fun p => match p with P_SA _ => [p; P_NOTIFY PROTO_NONE N_USE_TRANSPORT_MODE [] []] | _ => [p] end) in
  child_nego_res E0 m (cI1' false) = (Raise X_TsUnacceptable, cI1' false).
Proof. exact NegoToy.initiator_refuses_mode. Qed.
Print Assumptions C12H_nonvacuous_initiator_refuses_mode.

Theorem C12H_nonvacuous_initiator_refuses_wider_selectors :
  let m := res_with (fun p => match p with P_TSr _ => [P_TSr [mk_ts 7 0 0 65535 200 201]] | _ => [p] end) in
  child_nego_res E0 m (cI1' false) = (Raise X_TsUnacceptable, cI1' false).
Proof. exact NegoToy.initiator_refuses_wider_selectors. Qed.
Print Assumptions C12H_nonvacuous_initiator_refuses_wider_selectors.

Theorem C12H_responder_kops_extends :
  forall E m s r s', child_nego_req E m s = (r, s') -> exists ks, kops s' = kops s ++ ks.
Proof. exact resp_kops_extends. Qed.
Print Assumptions C12H_responder_kops_extends.

Theorem C12H_initiator_kops_extends :
  forall E m s r s', child_nego_res E m s = (r, s') -> exists ks, kops s' = kops s ++ ks.
Proof. exact init_kops_extends. Qed.
Print Assumptions C12H_initiator_kops_extends.
