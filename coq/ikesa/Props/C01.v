(** C01 - peers derive the same keys and install mirror-image IPsec SAs (property theorems only).
    All field values (SPIs, selectors, proposals, keys, addresses) are universally quantified opaque values; the
    wiring (which value goes into which field / parameter on which role) is regenerated from ikesa.py and xfrm.py. *)
From Coq Require Import ZArith Bool List.
From IkeSa Require Import Gen.IkeFacts Mirror MirrorProofs.
Import ListNotations.

Theorem C01_children_mirror : forall (V : Type) (creating dflt : childsa V) (e : resp_env V),
  req_spi V e = c_in V creating ->
  let r := responder_child V dflt e in
  let i := initiator_child V creating (response_of V e r) in
  c_out V i = c_in V r /\ c_in V i = c_out V r /\ c_tsi V i = c_tsr V r /\ c_tsr V i = c_tsi V r /\
  c_prop V i = c_prop V r /\ c_in V r = fresh_spi V e /\ c_mode V r = req_mode V e /\ c_mode V i = c_mode V creating.
Proof. exact children_mirror. Qed.
Print Assumptions C01_children_mirror.

(** the outbound SA of one endpoint equals the inbound SA of the other in SPI, tunnel addresses, protocol/algorithms
    (proposal), mode, keys and selectors (as source/destination), for new CHILD_SAs and rekeys alike *)
Theorem C01_kernel_sas_mirror : forall (V : Type) (creating dflt : childsa V) (e : resp_env V) (k : keyring V)
                                       (addr_i addr_r : V),
  req_spi V e = c_in V creating -> c_mode V creating = req_mode V e ->
  let r := responder_child V dflt e in
  let i := initiator_child V creating (response_of V e r) in
  let '(out_i, in_i) := create_child_sa V i k true addr_i addr_r in
  let '(out_r, in_r) := create_child_sa V r k false addr_r addr_i in
  out_i = in_r /\ in_i = out_r.
Proof. exact kernel_sas_mirror. Qed.
Print Assumptions C01_kernel_sas_mirror.

(** the keys each kernel SA carries are those the key schedule assigns to its direction: initiator-to-responder
    first (SK_ei, SK_ai) *)
Theorem C01_direction_keys : forall (V : Type) (c : childsa V) (k : keyring V) (a b : V),
  p_ekey V (fst (create_child_sa V c k true a b)) = sk_ei V k /\
  p_akey V (fst (create_child_sa V c k true a b)) = sk_ai V k /\
  p_ekey V (snd (create_child_sa V c k true a b)) = sk_er V k /\
  p_akey V (snd (create_child_sa V c k true a b)) = sk_ar V k /\
  p_ekey V (fst (create_child_sa V c k false a b)) = sk_er V k /\
  p_akey V (fst (create_child_sa V c k false a b)) = sk_ar V k /\
  p_ekey V (snd (create_child_sa V c k false a b)) = sk_ei V k /\
  p_akey V (snd (create_child_sa V c k false a b)) = sk_ai V k.
Proof. exact direction_keys. Qed.
Print Assumptions C01_direction_keys.

Theorem C01_addressing : forall (V : Type) (c : childsa V) (k : keyring V) (ini : bool) (me peer : V),
  let '(o, i) := create_child_sa V c k ini me peer in
  p_src V o = me /\ p_dst V o = peer /\ p_spi V o = c_out V c /\ p_src_sel V o = c_tsi V c /\ p_dst_sel V o = c_tsr V c /\
  p_src V i = peer /\ p_dst V i = me /\ p_spi V i = c_in V c /\ p_src_sel V i = c_tsr V c /\ p_dst_sel V i = c_tsi V c.
Proof. exact addressing. Qed.
Print Assumptions C01_addressing.

(** identical IKE_SA key material on both sides, for every key derivation function (C04 states which one it is) and
    every commutative Diffie-Hellman *)
Theorem C01_ike_keys_agree : forall (V : Type) (kdf : V -> V -> V -> V -> V -> V -> V) (dh : V -> V -> V) (pub : V -> V),
  (forall a b, dh a (pub b) = dh b (pub a)) ->
  forall prop ni nr spi_i spi_r a b,
  kdf prop ni nr spi_i spi_r (dh a (pub b)) = kdf prop ni nr spi_i spi_r (dh b (pub a)).
Proof. exact ike_keys_agree. Qed.
Print Assumptions C01_ike_keys_agree.
