(** C02 for the concrete handlers (Hdl.v, the executable model of every exchange handler of ikesa.py that the
    correspondence check runs against the real code): from any pre-established state, an entry point marks the
    IKE_SA established, installs an IPsec SA, gains a CHILD_SA or prepares a successor IKE_SA only in the two
    IKE_AUTH handlers and only after the peer's AUTH payload verified over the exact octets (property theorems only).
    [E] ranges over every environment (prf, signature check, serialisation are arbitrary functions). *)
From Coq Require Import ZArith NArith Bool List.
From VLib Require Import Bytes.
From IkeSa Require Import Gen.IkeFacts Shell Hdl HdlAuth.
Import ListNotations.
Open Scope Z_scope.

(** the acceptance conditions, written out: responder (IDi, octets = the IKE_SA_INIT request it received | the nonce
    of the IKE_SA_INIT response it sent | prf(SK_p of the peer, IDi body)) and initiator (IDr, response, own nonce) *)
Theorem C02H_acceptance_responder : forall E c m,
  auth_accepts_resp E c m <->
  exists t d meth data rq rs nr k cp,
    hd_error (get_payloads m K_IDi true) = Some (P_IDi t d) /\
    t = a_id_type (cf_peer_auth (cfg c)) /\ d = a_id_data (cf_peer_auth (cfg c)) /\
    hd_error (get_payloads m K_AUTH true) = Some (P_AUTH meth data) /\
    init_req c = Some rq /\ init_res c = Some rs /\ first_nonce rs = Some nr /\
    kr c = Some k /\ cprop c = Some cp /\
    let octets := e_ser E rq ++ nr ++ e_prf E cp (if c_init c then sk_pr k else sk_pi k) (id_bytes t d) in
    ((meth = AUTH_PSK /\ exists psk, a_psk (cf_peer_auth (cfg c)) = Some psk /\ psk <> [] /\
                                      data = e_prf E cp (e_prf E cp psk KEYPAD) octets)
     \/ (meth = AUTH_RSA /\ a_pub (cf_peer_auth (cfg c)) = true /\ e_verify E data octets = true)).
Proof. exact auth_accepts_resp_unfold. Qed.
Print Assumptions C02H_acceptance_responder.

Theorem C02H_acceptance_initiator : forall E c m,
  auth_accepts_init E c m <->
  exists t d meth data rq rs ni k cp,
    hd_error (get_payloads m K_IDr true) = Some (P_IDr t d) /\
    t = a_id_type (cf_peer_auth (cfg c)) /\ d = a_id_data (cf_peer_auth (cfg c)) /\
    hd_error (get_payloads m K_AUTH true) = Some (P_AUTH meth data) /\
    init_req c = Some rq /\ init_res c = Some rs /\ first_nonce rq = Some ni /\
    kr c = Some k /\ cprop c = Some cp /\
    let octets := e_ser E rs ++ ni ++ e_prf E cp (if c_init c then sk_pr k else sk_pi k) (id_bytes t d) in
    ((meth = AUTH_PSK /\ exists psk, a_psk (cf_peer_auth (cfg c)) = Some psk /\ psk <> [] /\
                                      data = e_prf E cp (e_prf E cp psk KEYPAD) octets)
     \/ (meth = AUTH_RSA /\ a_pub (cf_peer_auth (cfg c)) = true /\ e_verify E data octets = true)).
Proof. exact auth_accepts_init_unfold. Qed.
Print Assumptions C02H_acceptance_initiator.

Theorem C02H_first_nonce : forall x,
  first_nonce x = match filter (fun p => pkind_eqb (kind_of p) K_NONCE) (fst (snd x)) with
                  | P_NONCE n :: _ => Some n | _ => None end.
Proof. exact first_nonce_unfold. Qed.
Print Assumptions C02H_first_nonce.

Theorem C02H_establishes_or_installs : forall s s',
  establishes_or_installs s s' <->
  (ST_ESTABLISHED <= st (co s') < ST_DELETED) \/
  (exists l k ok, kops s' = kops s ++ l /\ In (K_add k ok) l) \/
  (children (co s) = [] /\ children (co s') <> []) \/ new_sa s' <> new_sa s.
Proof. exact establishes_or_installs_unfold. Qed.
Print Assumptions C02H_establishes_or_installs.

Theorem C02H_nochange : forall s s',
  nochange s s' <-> children (co s') = children (co s) /\ kops s' = kops s /\ new_sa s' = new_sa s /\
                    st (co s') < ST_ESTABLISHED.
Proof. exact nochange_unfold. Qed.
Print Assumptions C02H_nochange.

(** (a) responder: every request handler, every message, every tape *)
Theorem C02H_request_establishes_only_after_auth : forall E s m,
  st (co s) < ST_ESTABLISHED -> establishes_or_installs s (fst (h_request E s m)) ->
  h_exch (p_hdr m) = EX_IKE_AUTH /\ st (co s) = ST_INIT_RES_SENT /\ auth_accepts_resp E (co s) m.
Proof. exact request_establishes_only_after_auth. Qed.
Print Assumptions C02H_request_establishes_only_after_auth.

Theorem C02H_request_other_exchanges_never_establish : forall E s m,
  st (co s) < ST_ESTABLISHED -> h_exch (p_hdr m) <> EX_IKE_AUTH -> nochange s (fst (h_request E s m)).
Proof. exact request_other_exchanges_never_establish. Qed.
Print Assumptions C02H_request_other_exchanges_never_establish.

(** (b) initiator *)
Theorem C02H_response_establishes_only_after_auth : forall E s m,
  st (co s) < ST_ESTABLISHED -> establishes_or_installs s (fst (h_response E s m)) ->
  h_exch (p_hdr m) = EX_IKE_AUTH /\ st (co s) = ST_AUTH_REQ_SENT /\ auth_accepts_init E (co s) m.
Proof. exact response_establishes_only_after_auth. Qed.
Print Assumptions C02H_response_establishes_only_after_auth.

Theorem C02H_response_other_exchanges_never_establish : forall E s m,
  st (co s) < ST_ESTABLISHED -> h_exch (p_hdr m) <> EX_IKE_AUTH -> nochange s (fst (h_response E s m)).
Proof. exact response_other_exchanges_never_establish. Qed.
Print Assumptions C02H_response_other_exchanges_never_establish.

(** (c) local triggers and the three timer-driven generators *)
Theorem C02H_local_entry_points_never_establish : forall s,
  st (co s) < ST_ESTABLISHED ->
  (forall ev, ~ establishes_or_installs s (fst (h_trigger s ev))) /\
  ~ establishes_or_installs s (fst (lift_gen generate_dpd_request s)) /\
  ~ establishes_or_installs s (fst (lift_gen generate_delete_ike_sa_request s)) /\
  ~ establishes_or_installs s (fst (lift_gen generate_rekey_ike_sa_request s)).
Proof. exact local_entry_points_never_establish. Qed.
Print Assumptions C02H_local_entry_points_never_establish.

(** (d) *)
Theorem C02H_wrong_identity_fails : forall E s m,
  st (co s) < ST_ESTABLISHED ->
  (forall t d, hd_error (get_payloads m K_IDi true) = Some (P_IDi t d) ->
               t <> a_id_type (cf_peer_auth (cfg (co s))) \/ d <> a_id_data (cf_peer_auth (cfg (co s)))) ->
  nochange s (fst (h_request E s m)).
Proof. exact wrong_identity_fails. Qed.
Print Assumptions C02H_wrong_identity_fails.

Theorem C02H_wrong_identity_fails_initiator : forall E s m,
  st (co s) < ST_ESTABLISHED ->
  (forall t d, hd_error (get_payloads m K_IDr true) = Some (P_IDr t d) ->
               t <> a_id_type (cf_peer_auth (cfg (co s))) \/ d <> a_id_data (cf_peer_auth (cfg (co s)))) ->
  nochange s (fst (h_response E s m)).
Proof. exact wrong_identity_fails_initiator. Qed.
Print Assumptions C02H_wrong_identity_fails_initiator.

Theorem C02H_wrong_method_fails : forall E s m,
  st (co s) < ST_ESTABLISHED ->
  (forall meth data, hd_error (get_payloads m K_AUTH true) = Some (P_AUTH meth data) ->
     ~ (meth = AUTH_PSK /\ truthy (a_psk (cf_peer_auth (cfg (co s)))) = true) /\
     ~ (meth = AUTH_RSA /\ a_pub (cf_peer_auth (cfg (co s))) = true)) ->
  nochange s (fst (h_request E s m)) /\ nochange s (fst (h_response E s m)).
Proof. exact wrong_method_fails. Qed.
Print Assumptions C02H_wrong_method_fails.

Theorem C02H_no_credential_fails : forall E s m,
  st (co s) < ST_ESTABLISHED ->
  truthy (a_psk (cf_peer_auth (cfg (co s)))) = false -> a_pub (cf_peer_auth (cfg (co s))) = false ->
  nochange s (fst (h_request E s m)) /\ nochange s (fst (h_response E s m)).
Proof. exact no_credential_fails. Qed.
Print Assumptions C02H_no_credential_fails.

Theorem C02H_wrong_psk_value_fails : forall E s m t d data rq rs nr k cp psk,
  st (co s) < ST_ESTABLISHED ->
  hd_error (get_payloads m K_IDi true) = Some (P_IDi t d) ->
  hd_error (get_payloads m K_AUTH true) = Some (P_AUTH AUTH_PSK data) ->
  init_req (co s) = Some rq -> init_res (co s) = Some rs -> first_nonce rs = Some nr ->
  kr (co s) = Some k -> cprop (co s) = Some cp -> a_psk (cf_peer_auth (cfg (co s))) = Some psk ->
  data <> e_prf E cp (e_prf E cp psk KEYPAD) (e_ser E rq ++ nr ++ e_prf E cp (peer_skp_of (co s) k) (id_bytes t d)) ->
  nochange s (fst (h_request E s m)).
Proof. exact wrong_psk_value_fails. Qed.
Print Assumptions C02H_wrong_psk_value_fails.

(** non-vacuity: a concrete environment, state and IKE_AUTH message on which the handlers DO establish and install *)
Theorem C02H_responder_establishes_example :
  let s' := fst (h_request Toy.toy_env Toy.resp_state (Toy.auth_req Toy.good_auth)) in
  st (co Toy.resp_state) < ST_ESTABLISHED /\ st (co s') = ST_ESTABLISHED /\ length (children (co s')) = 1%nat /\
  exists k1 k2, kops s' = [K_add k1 true; K_add k2 true].
Proof. exact Toy.responder_establishes. Qed.
Print Assumptions C02H_responder_establishes_example.

Theorem C02H_initiator_establishes_example :
  let s' := fst (h_response Toy.toy_env Toy.init_state (Toy.auth_res Toy.good_auth_r)) in
  st (co Toy.init_state) < ST_ESTABLISHED /\ st (co s') = ST_ESTABLISHED /\ length (children (co s')) = 1%nat /\
  exists k1 k2, kops s' = [K_add k1 true; K_add k2 true].
Proof. exact Toy.initiator_establishes. Qed.
Print Assumptions C02H_initiator_establishes_example.
