(** C10 for the whole daemon (Endpoint.v = ikesacontroller.py + the shell + the handlers): after every main_loop
    iteration of every history the kernel SAD is exactly the set of keys of the CHILD_SAs of the IkeSas in the table.

    [EInv ep sd] (written out in C10E_def_invariant): [sd] has no duplicates and the same elements as the keys
    [tracked] of all table entries (which are pairwise distinct); every entry's unregistered rekey successor, if any,
    has the addresses of the entry and no CHILD_SA; creation indices are unique and below [next_cid]; the outbound
    SPI of every tracked CHILD_SA has four bytes ([Spi4], written out in C10H_def_spi4: create_child_sa raises before
    its first netlink request otherwise, so no other CHILD_SA is ever tracked - and delete_child_sas, which would
    raise on such a CHILD_SA and leave its kernel SAs behind, never meets one).
    [iter_ok E ep tnow tape ev] ("no handler call of this iteration ended Stuck", EndpointSad.v sections C and E): the
    tape (random draws, kernel verdicts) matched what every handler call asked for.  It follows the control flow of
    the iteration up to each handler call and states [st <> -1] for its result / [<> Stuck] for delete_child_sas,
    because the shell overwrites the stuck marker of request and response handlers with DELETED.
    [faithful_run sd kops]: every kernel verdict is one a real kernel can give for the SAD at that moment. *)
From Coq Require Import ZArith NArith Bool List.
From RecordUpdate Require Import RecordSet.
From VLib Require Import Bytes.
From IkeSa Require Import Gen.IkeFacts Shell Hdl HdlSad Endpoint EndpointSad.
Import ListNotations RecordSetNotations.
Open Scope Z_scope.

Theorem C10E_def_invariant : forall E (ep : endpoint E) sd,
  EInv E ep sd <->
  (NoDup sd
   /\ (forall k, In k sd <-> In k (flat_map (fun x => tracked (inner (hdl_iface E) (snd x))) (table E ep)))
   /\ NoDup (flat_map (fun x => tracked (inner (hdl_iface E) (snd x))) (table E ep))
   /\ (forall c s, In (c, s) (table E ep) -> WF (inner (hdl_iface E) s))
   /\ NoDup (map fst (table E ep)) /\ (forall c, In c (map fst (table E ep)) -> (c < next_cid E ep)%nat)
   /\ (forall c s, In (c, s) (table E ep) -> Spi4 (inner (hdl_iface E) s)))
  /\ (forall c s, In (c, s) (table E ep) ->
        forall n, new_sa (inner (hdl_iface E) s) = Some n ->
          my_addr n = my_addr (co (inner (hdl_iface E) s)) /\ peer_addr n = peer_addr (co (inner (hdl_iface E) s))
          /\ children n = []).
Proof. exact EInv_unfold. Qed.
Print Assumptions C10E_def_invariant.

(** one iteration: any event (datagram - also Dg_bad, unknown SPI, parse failure -, ACQUIRE, EXPIRE, nothing)
    followed by the retransmission, DPD and lifetime sweeps *)
Theorem C10E_iteration : forall E (ep : endpoint E) sd tnow tp e,
  EInv E ep sd -> iter_ok E ep tnow tp e ->
  faithful_run sd (ep_kops E (iteration E ep tnow tp e)) ->
  EInv E (iteration E ep tnow tp e) (apply_kops sd (ep_kops E (iteration E ep tnow tp e))).
Proof. exact iteration_sad. Qed.
Print Assumptions C10E_iteration.

(** every history, from any endpoint of the invariant *)
Theorem C10E_history_from : forall E evs (ep : endpoint E) sd,
  EInv E ep sd -> run_ok E ep sd evs -> EInv E (run E ep evs) (run_sad E ep sd evs).
Proof. exact run_inv. Qed.
Print Assumptions C10E_history_from.

(** every prefix of every history from the empty table and the empty SAD *)
Theorem C10E_history : forall E cf sec evs1 evs2,
  let ep0 := mk_ep E [] 0 cf sec [] 0 [] [] None None in
  run_ok E ep0 [] (evs1 ++ evs2) -> EInv E (run E ep0 evs1) (run_sad E ep0 [] evs1).
Proof. exact history_inv. Qed.
Print Assumptions C10E_history.

(** consequence: every installed key belongs to a CHILD_SA of an IkeSa that is in the table - an IkeSa that was
    removed (delete exchange, fatal error, retransmission give-up) has left no kernel SA behind *)
Theorem C10E_no_orphan : forall E (ep : endpoint E) sd k,
  EInv E ep sd -> In k sd -> exists c s, In (c, s) (table E ep) /\ In k (tracked (inner (hdl_iface E) s)).
Proof. exact einv_owner. Qed.
Print Assumptions C10E_no_orphan.

(** consequence: the outbound SPI of every CHILD_SA of every IkeSa in the table fits the four-byte netlink field *)
Theorem C10E_spi_fits : forall E (ep : endpoint E) sd c s ch,
  EInv E ep sd -> In (c, s) (table E ep) -> In ch (children (co (inner (hdl_iface E) s))) -> length (c_out ch) = 4%nat.
Proof. exact einv_spi4. Qed.
Print Assumptions C10E_spi_fits.

(** non-vacuity: an ACQUIRE creating an initiator IkeSa, a message for an unknown SPI, a non-IKE datagram *)
Theorem C10E_example_acquire :
  run_ok Example.E0 EpExample.ep_empty [] EpExample.hist1.
Proof. exact EpExample.hist1_ok. Qed.
Print Assumptions C10E_example_acquire.
Theorem C10E_example_acquire_result :
  map (fun x : nat * esa Example.E0 => (fst x, st (co (inner (hdl_iface Example.E0) (snd x)))))
      (table Example.E0 (run Example.E0 EpExample.ep_empty EpExample.hist1)) = [(0%nat, ST_INIT_REQ_SENT)]
  /\ next_cid Example.E0 (run Example.E0 EpExample.ep_empty EpExample.hist1) = 1%nat
  /\ run_sad Example.E0 EpExample.ep_empty [] EpExample.hist1 = [].
Proof. exact EpExample.hist1_result. Qed.
Print Assumptions C10E_example_acquire_result.

(** non-vacuity with kernel operations: a DELETE request for the CHILD_SA of an established IkeSa, then a DELETE
    request for the IKE_SA (removed from the table in the same iteration) *)
Theorem C10E_example_delete :
  EInv Example.E0 EpExample.ep_one Example.own1 /\ run_ok Example.E0 EpExample.ep_one Example.own1 EpExample.hist2.
Proof. exact EpExample.hist2_all. Qed.
Print Assumptions C10E_example_delete.
Theorem C10E_example_delete_result :
  ep_kops Example.E0 (run Example.E0 EpExample.ep_one (firstn 1 EpExample.hist2))
    = [K_del 20 50 [0;0;0;2]%N true; K_del 10 50 [0;0;0;1]%N true]
  /\ length (table Example.E0 (run Example.E0 EpExample.ep_one (firstn 1 EpExample.hist2))) = 1%nat
  /\ run_sad Example.E0 EpExample.ep_one Example.own1 (firstn 1 EpExample.hist2) = []
  /\ table Example.E0 (run Example.E0 EpExample.ep_one EpExample.hist2) = []
  /\ run_sad Example.E0 EpExample.ep_one Example.own1 EpExample.hist2 = [].
Proof. exact EpExample.hist2_result. Qed.
Print Assumptions C10E_example_delete_result.
