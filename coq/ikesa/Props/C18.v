(** C18 - under load, no responder state or DH work without a valid cookie (property theorems only). *)
From Coq Require Import ZArith Bool List.
From VLib Require Import Bytes.
From IkeSa Require Import Gen.IkeFacts Cookie CookieProofs Controller.
Import ListNotations.
Open Scope Z_scope.

(** cookie secret armed <-> number of half-open IKE_SAs (the new one included) exceeds the threshold *)
Theorem C18_threshold : forall n : Z, dispatch_arm_cookie n = true <-> n > cookie_threshold.
Proof. exact threshold_spec. Qed.
Print Assumptions C18_threshold.

Theorem C18_threshold_value : cookie_threshold = 10.
Proof. reflexivity. Qed.
Print Assumptions C18_threshold_value.

(** with the secret armed, a well-formed IKE_SA_INIT request whose first COOKIE notify is absent or different from
    mac(secret, SPIi | Ni | source address) gets CookieRequired carrying exactly that value, before any
    Diffie-Hellman computation, for every mac function, secret, SPI, nonce, address and cookie list *)
Theorem C18_no_cookie_no_work : forall (mac : bytes -> bytes -> bytes) k spi_i nonce addr cookies,
  (cookies = [] \/ exists c r, cookies = c :: r /\ c <> expected_cookie mac k spi_i nonce addr) ->
  request_prefix mac (Some k) true true true spi_i nonce addr cookies
  = (CookieRequired (expected_cookie mac k spi_i nonce addr), O).
Proof. exact no_cookie_no_work. Qed.
Print Assumptions C18_no_cookie_no_work.

Theorem C18_prefix_never_calls_dh : forall mac secret a b c spi_i nonce addr cookies,
  snd (request_prefix mac secret a b c spi_i nonce addr cookies) = O.
Proof. exact prefix_never_calls_dh. Qed.
Print Assumptions C18_prefix_never_calls_dh.

(** a request lacking SA, KE or NONCE is refused before the cookie can even be computed: equally no DH *)
Theorem C18_malformed : forall mac secret a b c spi_i nonce addr cookies,
  a && b && c = false -> request_prefix mac secret a b c spi_i nonce addr cookies = (PayloadMissing, O).
Proof. exact malformed_request_no_work. Qed.
Print Assumptions C18_malformed.

(** binding: the handler proceeds only if the FIRST cookie equals the keyed hash of this SPI, nonce and address; so
    a cookie accepted with another SPI, nonce or address is a collision of the keyed hash *)
Theorem C18_binding : forall mac k a b c spi_i nonce addr cookies n,
  request_prefix mac (Some k) a b c spi_i nonce addr cookies = (Proceed, n) ->
  n = O /\ exists r, cookies = expected_cookie mac k spi_i nonce addr :: r.
Proof. exact accepted_cookie_is_bound. Qed.
Print Assumptions C18_binding.

Theorem C18_binding_corollary : forall mac k spi_i nonce addr spi_i' nonce' addr' r n,
  request_prefix mac (Some k) true true true spi_i' nonce' addr' (expected_cookie mac k spi_i nonce addr :: r) = (Proceed, n) ->
  mac k (spi_i' ++ nonce' ++ addr') = mac k (spi_i ++ nonce ++ addr).
Proof.
  intros mac k spi_i nonce addr spi_i' nonce' addr' r n H.
  destruct (accepted_cookie_is_bound mac _ _ _ _ _ _ _ _ _ H) as [_ [r' Hr]]. inversion Hr as [[H1 H2]]. unfold expected_cookie in H1. symmetry. exact H1.
Qed.
Print Assumptions C18_binding_corollary.

(** the initiator repeats the same payloads with the cookie placed first and Message ID 0 *)
Theorem C18_initiator_retry : forall (A : Type) (payloads : list A) (cookie : A),
  fst (cookie_retry payloads cookie) = cookie :: payloads /\ snd (cookie_retry payloads cookie) = 0 /\
  tl (fst (cookie_retry payloads cookie)) = payloads.
Proof. exact @retry_spec. Qed.
Print Assumptions C18_initiator_retry.
