(** C10 proofs: every operation of the CHILD_SA bookkeeping model keeps the kernel SAD and the tracked CHILD_SAs in
    agreement ([Inv]); corollaries per operation; a concrete non-vacuity run. *)
From Coq Require Import ZArith Bool List Lia PeanoNat.
From IkeSa Require Import Sad.
Import ListNotations.
Open Scope Z_scope.

(** * Kernel primitives *)

Lemma installed_iff k l : installed k l = true <-> In k l.
Proof.
  unfold installed. rewrite existsb_exists. split.
  - intros (x & Hx & E). apply Z.eqb_eq in E. subst x. exact Hx.
  - intros H. exists k. split; [exact H|apply Z.eqb_refl].
Qed.

Lemma installed_false k l : installed k l = false -> ~ In k l.
Proof. intros E H. apply installed_iff in H. rewrite H in E. discriminate E. Qed.

Lemma delsa_in k x l : In x (delsa k l) <-> In x l /\ x <> k.
Proof.
  unfold delsa. rewrite filter_In. split; intros [A B]; (split; [exact A|]).
  - apply negb_true_iff in B. apply Z.eqb_neq in B. exact B.
  - apply negb_true_iff. apply Z.eqb_neq. exact B.
Qed.

Lemma delsa_cons_self k l : ~ In k l -> forall x, In x (delsa k (k :: l)) <-> In x l.
Proof.
  intros N x. rewrite delsa_in. cbn [In]. split.
  - intros [[A|A] B]; [exfalso; apply B; symmetry; exact A|exact A].
  - intros A. split; [right; exact A|]. intros E. subst x. exact (N A).
Qed.

Lemma delete_child_in c x l : In x (delete_child_sa c l) <-> In x l /\ x <> k_out c /\ x <> k_in c.
Proof. unfold delete_child_sa. rewrite !delsa_in. tauto. Qed.

(** create_child_sa either installs exactly the two (new, distinct) keys or leaves the SAD as it was *)
Lemma create_child_sa_spec c v1 v2 l :
  let '(ok, l') := create_child_sa c v1 v2 l in
  if ok then ~ In (k_out c) l /\ ~ In (k_in c) l /\ k_out c <> k_in c /\
             (forall x, In x l' <-> x = k_in c \/ x = k_out c \/ In x l)
  else forall x, In x l' <-> In x l.
Proof.
  unfold create_child_sa, newsa.
  destruct (installed (k_out c) l) eqn:E1; cbv beta iota.
  { intros x. tauto. }
  apply installed_false in E1.
  destruct v1; cbv beta iota; [|intros x; tauto].
  destruct (installed (k_in c) (k_out c :: l)) eqn:E2; cbv beta iota.
  { apply delsa_cons_self. exact E1. }
  apply installed_false in E2.
  destruct v2; cbv beta iota; [|apply delsa_cons_self; exact E1].
  split; [exact E1|]. split; [intros H; apply E2; right; exact H|].
  split; [intros H; apply E2; left; exact H|].
  intros x. cbn [In]. split.
  - intros [H|[H|H]]; [left; symmetry; exact H|right; left; symmetry; exact H|right; right; exact H].
  - intros [H|[H|H]]; [left; symmetry; exact H|right; left; symmetry; exact H|right; right; exact H].
Qed.

Lemma create_child_sa_ok c v1 v2 l l' :
  create_child_sa c v1 v2 l = (true, l') ->
  ~ In (k_out c) l /\ ~ In (k_in c) l /\ k_out c <> k_in c /\
  (forall x, In x l' <-> x = k_in c \/ x = k_out c \/ In x l).
Proof. intros E. pose proof (create_child_sa_spec c v1 v2 l) as H. rewrite E in H. exact H. Qed.

Lemma create_child_sa_fail c v1 v2 l l' :
  create_child_sa c v1 v2 l = (false, l') -> forall x, In x l' <-> In x l.
Proof. intros E. pose proof (create_child_sa_spec c v1 v2 l) as H. rewrite E in H. exact H. Qed.

Lemma child_eqb_eq a b : child_eqb a b = true <-> a = b.
Proof.
  destruct a as [ao ai], b as [bo bi]. unfold child_eqb. cbn [k_out k_in].
  rewrite andb_true_iff, !Z.eqb_eq. split.
  - intros [E1 E2]. subst. reflexivity.
  - intros E. injection E as E1 E2. split; assumption.
Qed.

Lemma child_eqb_refl a : child_eqb a a = true.
Proof. apply child_eqb_eq. reflexivity. Qed.

(** * The keys of a list of tracked CHILD_SAs *)

Definition keys (t : list (nat * child)) : list key := flat_map (fun oc => keys_of_child (snd oc)) t.
Definition is_key (k : key) (oc : nat * child) : Prop := k = k_out (snd oc) \/ k = k_in (snd oc).

Lemma tracked_keys_keys s : tracked_keys s = keys (tracked s).
Proof. reflexivity. Qed.

Lemma tracked_keys_mk t sd : tracked_keys (mk_st t sd) = keys t.
Proof. reflexivity. Qed.

Lemma keys_cons a t : keys (a :: t) = k_out (snd a) :: k_in (snd a) :: keys t.
Proof. reflexivity. Qed.

Lemma keys_app t1 t2 : keys (t1 ++ t2) = keys t1 ++ keys t2.
Proof. unfold keys. apply flat_map_app. Qed.

Lemma keys_in t k : In k (keys t) <-> exists oc, In oc t /\ is_key k oc.
Proof.
  unfold keys, is_key. rewrite in_flat_map. split; intros (oc & A & B); exists oc; (split; [exact A|]).
  - cbn [keys_of_child In] in B. destruct B as [B|[B|[]]]; [left|right]; symmetry; exact B.
  - cbn [keys_of_child In]. destruct B as [B|B]; [left|right; left]; symmetry; exact B.
Qed.

Lemma nodup_app_iff {A} (l1 l2 : list A) :
  NoDup (l1 ++ l2) <-> NoDup l1 /\ NoDup l2 /\ (forall x, In x l1 -> In x l2 -> False).
Proof.
  induction l1 as [|a l1 IH]; cbn [app].
  - split.
    + intros H. split; [constructor|]. split; [exact H|]. intros x [].
    + intros (_ & H & _). exact H.
  - split.
    + intros H. inversion H as [|? ? Hn Hnd]; subst. apply IH in Hnd as (H1 & H2 & H3).
      split; [constructor; [intros Hi; apply Hn; apply in_or_app; left; exact Hi|exact H1]|].
      split; [exact H2|].
      intros x [E|Hx] Hx2; [subst x; apply Hn; apply in_or_app; right; exact Hx2|exact (H3 x Hx Hx2)].
    + intros (H1 & H2 & H3). inversion H1 as [|? ? Hn Hnd]; subst. constructor.
      * intros Hi. apply in_app_or in Hi as [Hi|Hi]; [exact (Hn Hi)|exact (H3 a (or_introl eq_refl) Hi)].
      * apply IH. split; [exact Hnd|]. split; [exact H2|]. intros x Hx. apply H3. right. exact Hx.
Qed.

(** with [NoDup], a key has one owner: different tracked entries have disjoint keys *)
Lemma keys_owner_unique t oc oc' k :
  NoDup (keys t) -> In oc t -> In oc' t -> is_key k oc -> is_key k oc' -> oc = oc'.
Proof.
  induction t as [|a r IH]; intros Hnd Hoc Hoc' Hk Hk'; [destruct Hoc|].
  rewrite keys_cons in Hnd.
  inversion Hnd as [|? ? N1 Hnd1]; subst. inversion Hnd1 as [|? ? N2 Hnd2]; subst.
  assert (Hr : forall o, In o r -> is_key k o -> ~ is_key k a).
  { intros o Ho Hko. assert (Ik : In k (keys r)) by (apply keys_in; exists o; split; assumption).
    intros [E|E]; rewrite E in Ik.
    - apply N1. right. exact Ik.
    - apply N2. exact Ik. }
  destruct Hoc as [Hoc|Hoc]; destruct Hoc' as [Hoc'|Hoc'].
  - rewrite <- Hoc, <- Hoc'. reflexivity.
  - exfalso. subst a. exact (Hr oc' Hoc' Hk' Hk).
  - exfalso. subst a. exact (Hr oc Hoc Hk Hk').
  - apply IH; assumption.
Qed.

Lemma keys_filter_in p t k : In k (keys (filter p t)) -> In k (keys t).
Proof. rewrite !keys_in. intros (oc & A & B). apply filter_In in A. exists oc. tauto. Qed.

Lemma nodup_keys_filter p t : NoDup (keys t) -> NoDup (keys (filter p t)).
Proof.
  induction t as [|a r IH]; intros H; [exact H|]. cbn [filter].
  rewrite keys_cons in H. inversion H as [|? ? N1 H1]; subst. inversion H1 as [|? ? N2 H2]; subst.
  destruct (p a); [|apply IH; exact H2].
  rewrite keys_cons. constructor; [|constructor].
  - intros Hi. apply N1. destruct Hi as [E|Hi]; [left; exact E|right; eapply keys_filter_in; exact Hi].
  - intros Hi. apply N2. eapply keys_filter_in; exact Hi.
  - apply IH; exact H2.
Qed.

Lemma filter_none {A} (p : A -> bool) l : (forall x, In x l -> p x = false) -> filter p l = [].
Proof.
  induction l as [|a r IH]; intros H; [reflexivity|]. cbn [filter]. rewrite (H a (or_introl eq_refl)).
  apply IH. intros x Hx. apply H. right. exact Hx.
Qed.

Lemma keys_handover old new t :
  keys (map (fun oc => if Nat.eqb (fst oc) old then (new, snd oc) else oc) t) = keys t.
Proof.
  induction t as [|a r IH]; [reflexivity|]. cbn [map]. rewrite !keys_cons, IH.
  destruct (Nat.eqb (fst a) old); reflexivity.
Qed.

(** * Teardown *)

Lemma fold_delete_in l sd x :
  In x (fold_left (fun sd oc => delete_child_sa (snd oc) sd) l sd) <->
  In x sd /\ forall oc, In oc l -> ~ is_key x oc.
Proof.
  revert sd. induction l as [|a r IH]; intros sd; cbn [fold_left].
  - split; [intros H; split; [exact H|intros oc []]|intros [H _]; exact H].
  - rewrite IH, delete_child_in. unfold is_key. split.
    + intros [(A & B & C) Dd]. split; [exact A|]. intros oc [E|Hoc]; [subst oc; tauto|apply Dd; exact Hoc].
    + intros [A Dd]. split.
      * pose proof (Dd a (or_introl eq_refl)) as Ha. tauto.
      * intros oc Hoc. apply Dd. right. exact Hoc.
Qed.

Lemma teardown_tracked s id :
  tracked (teardown s id) = filter (fun oc => negb (Nat.eqb (fst oc) id)) (tracked s).
Proof. reflexivity. Qed.

Lemma teardown_sad_in s id x :
  In x (sad (teardown s id)) <->
  In x (sad s) /\ forall oc, In oc (tracked s) -> fst oc = id -> ~ is_key x oc.
Proof.
  unfold teardown. cbv zeta. cbn [sad]. rewrite fold_delete_in. split; intros [A B]; (split; [exact A|]).
  - intros oc Hoc E. apply B. apply filter_In. split; [exact Hoc|]. apply Nat.eqb_eq. exact E.
  - intros oc Hoc. apply filter_In in Hoc as [Hoc E]. apply Nat.eqb_eq in E. apply B; assumption.
Qed.

(** generalised: the torn-down IKE_SA may in addition hold entries [extra] that are tracked but whose keys are neither
    installed nor tracked elsewhere (the InitInstall failure branch) *)
Lemma teardown_inv_gen t extra sd id :
  NoDup (keys t) ->
  (forall k, In k sd <-> In k (keys t)) ->
  (forall oc, In oc extra -> fst oc = id /\ forall k, is_key k oc -> ~ In k (keys t)) ->
  Inv (teardown (mk_st (t ++ extra) sd) id).
Proof.
  intros Hnd Hiff Hex.
  assert (Ht : tracked_keys (teardown (mk_st (t ++ extra) sd) id) =
               keys (filter (fun oc => negb (Nat.eqb (fst oc) id)) t)).
  { rewrite tracked_keys_keys, teardown_tracked. cbn [tracked].
    rewrite filter_app, (filter_none _ extra), app_nil_r; [reflexivity|].
    intros x Hx. destruct (Hex x Hx) as [E _]. rewrite E, Nat.eqb_refl. reflexivity. }
  split.
  - rewrite Ht. apply nodup_keys_filter. exact Hnd.
  - intros k. rewrite Ht, teardown_sad_in. cbn [sad tracked]. rewrite Hiff, !keys_in. split.
    + intros [(oc & Hoc & Hk) Hnot]. exists oc. split; [|exact Hk]. apply filter_In. split; [exact Hoc|].
      destruct (Nat.eqb (fst oc) id) eqn:E; [|reflexivity]. exfalso. apply Nat.eqb_eq in E.
      apply (Hnot oc); [apply in_or_app; left; exact Hoc|exact E|exact Hk].
    + intros (oc & Hoc & Hk). apply filter_In in Hoc as [Hoc Hne]. split; [exists oc; split; assumption|].
      intros oc' Hoc' E Hk'. apply in_app_or in Hoc' as [Hoc'|Hoc'].
      * assert (Heq : oc = oc') by (exact (keys_owner_unique t oc oc' k Hnd Hoc Hoc' Hk Hk')).
        subst oc'. rewrite E, Nat.eqb_refl in Hne. cbn [negb] in Hne. discriminate Hne.
      * destruct (Hex oc' Hoc') as [_ Hf]. apply (Hf k Hk'). apply keys_in. exists oc. split; assumption.
Qed.

Lemma teardown_inv s id : Inv s -> Inv (teardown s id).
Proof.
  destruct s as [t sd]. intros [Hnd Hiff]. rewrite tracked_keys_mk in Hnd.
  assert (Hiff' : forall k, In k sd <-> In k (keys t)) by exact Hiff.
  pose proof (teardown_inv_gen t [] sd id Hnd Hiff') as H. rewrite app_nil_r in H. apply H.
  intros oc [].
Qed.

(** * Tracking a freshly installed CHILD_SA *)

Lemma track_inv s id c l' :
  Inv s -> ~ In (k_out c) (sad s) -> ~ In (k_in c) (sad s) -> k_out c <> k_in c ->
  (forall x, In x l' <-> x = k_in c \/ x = k_out c \/ In x (sad s)) ->
  Inv (mk_st (tracked s ++ [(id, c)]) l').
Proof.
  intros [Hnd Hiff] N1 N2 Hne Hl. rewrite tracked_keys_keys in Hnd.
  assert (Hk : tracked_keys (mk_st (tracked s ++ [(id, c)]) l') = keys (tracked s) ++ [k_out c; k_in c]).
  { rewrite tracked_keys_mk, keys_app. reflexivity. }
  assert (Hin2 : forall x, In x [k_out c; k_in c] <-> x = k_in c \/ x = k_out c).
  { intros x. cbn [In]. split.
    - intros [H|[H|[]]]; [right|left]; symmetry; exact H.
    - intros [H|H]; [right; left|left]; symmetry; exact H. }
  split.
  - rewrite Hk. apply nodup_app_iff. split; [exact Hnd|]. split.
    + constructor; [|constructor; [|constructor]].
      * intros [E|[]]. apply Hne. symmetry. exact E.
      * intros [].
    + intros x Hx Hx2. assert (Hs : In x (sad s)) by (apply Hiff; exact Hx).
      apply Hin2 in Hx2 as [E|E]; subst x; [exact (N2 Hs)|exact (N1 Hs)].
  - intros k. cbn [sad]. rewrite Hk, in_app_iff, Hl, Hin2, Hiff, tracked_keys_keys. tauto.
Qed.

(** * The invariant *)

Lemma inv_init : Inv (mk_st [] []).
Proof. split; [constructor|intros k; tauto]. Qed.

Lemma step_inv : forall s o, Inv s -> op_ok s o -> Inv (step s o).
Proof.
  intros s o HI Hok. destruct o as [id c v1 v2|id c v1 v2|id c|old new|id|].
  - (* RespInstall *)
    cbn [step]. destruct (create_child_sa c v1 v2 (sad s)) as [ok l'] eqn:E. destruct ok.
    + apply create_child_sa_ok in E as (N1 & N2 & Hne & Hl). apply track_inv; assumption.
    + pose proof (create_child_sa_fail _ _ _ _ _ E) as Hl. destruct HI as [Hnd Hiff]. split; [exact Hnd|].
      intros k. cbn [sad]. rewrite Hl. apply Hiff.
  - (* InitInstall *)
    cbn [step]. destruct (create_child_sa c v1 v2 (sad s)) as [ok l'] eqn:E. destruct ok.
    + apply create_child_sa_ok in E as (N1 & N2 & Hne & Hl). apply track_inv; assumption.
    + pose proof (create_child_sa_fail _ _ _ _ _ E) as Hl. destruct HI as [Hnd Hiff].
      apply teardown_inv. split; [exact Hnd|]. intros k. cbn [sad]. rewrite Hl. apply Hiff.
  - (* DeleteChild *)
    destruct HI as [Hnd Hiff]. cbn [op_ok] in Hok. cbn [step]. rewrite tracked_keys_keys in Hnd. split.
    + rewrite tracked_keys_mk. apply nodup_keys_filter. exact Hnd.
    + intros k. cbn [sad]. rewrite tracked_keys_mk, delete_child_in, Hiff, tracked_keys_keys, !keys_in. split.
      * intros [(oc & Hoc & Hk) [N1 N2]]. exists oc. split; [|exact Hk]. apply filter_In. split; [exact Hoc|].
        destruct (Nat.eqb (fst oc) id && child_eqb (snd oc) c) eqn:E; [|reflexivity]. exfalso.
        apply andb_true_iff in E as [_ E]. apply child_eqb_eq in E.
        destruct Hk as [Hk|Hk]; rewrite E in Hk; contradiction.
      * intros (oc & Hoc & Hk). apply filter_In in Hoc as [Hoc Hne]. split; [exists oc; split; assumption|].
        assert (Hno : ~ is_key k (id, c)).
        { intros Hk'. assert (Heq : oc = (id, c)) by (exact (keys_owner_unique _ _ _ _ Hnd Hoc Hok Hk Hk')).
          subst oc. cbn [fst snd] in Hne. rewrite Nat.eqb_refl, child_eqb_refl in Hne. discriminate Hne. }
        unfold is_key in Hno. cbn [snd] in Hno. tauto.
  - (* Handover *)
    destruct HI as [Hnd Hiff]. cbn [step]. split.
    + rewrite tracked_keys_mk, keys_handover. exact Hnd.
    + intros k. cbn [sad]. rewrite tracked_keys_mk, keys_handover. apply Hiff.
  - (* Teardown *)
    cbn [step]. apply teardown_inv. exact HI.
  - (* Restart *)
    exact inv_init.
Qed.

Theorem run_inv : forall ops s, Inv s -> run_ok ops s -> Inv (run ops s).
Proof.
  induction ops as [|o r IH]; intros s HI Hok; [exact HI|].
  cbn [run_ok] in Hok. destruct Hok as [Ho Hr]. unfold run. cbn [fold_left].
  apply IH; [apply step_inv; assumption|exact Hr].
Qed.

(** * Corollaries, per operation *)

Lemma teardown_removes_all : forall s id, Inv s -> forall oc, In oc (tracked (teardown s id)) -> fst oc <> id.
Proof.
  intros s id _ oc Hoc. rewrite teardown_tracked in Hoc. apply filter_In in Hoc as [_ Hne].
  intros E. rewrite E, Nat.eqb_refl in Hne. discriminate Hne.
Qed.

Lemma teardown_removes_keys : forall s id c, In (id, c) (tracked s) ->
  ~ In (k_out c) (sad (teardown s id)) /\ ~ In (k_in c) (sad (teardown s id)).
Proof.
  intros s id c Hc. split; intros H; apply teardown_sad_in in H as [_ H]; apply (H (id, c) Hc eq_refl).
  - left. reflexivity.
  - right. reflexivity.
Qed.

(** the same two facts stated over [step], together with what is left alone *)
Lemma step_teardown_exact : forall s id, Inv s ->
  (forall oc, In oc (tracked (step s (Teardown id))) <-> In oc (tracked s) /\ fst oc <> id) /\
  (forall k, In k (sad (step s (Teardown id))) <->
             exists oc, In oc (tracked s) /\ fst oc <> id /\ (k = k_out (snd oc) \/ k = k_in (snd oc))).
Proof.
  intros s id HI. split.
  - intros oc. cbn [step]. rewrite teardown_tracked, filter_In. split; intros [A B]; (split; [exact A|]).
    + intros E. rewrite E, Nat.eqb_refl in B. discriminate B.
    + destruct (Nat.eqb (fst oc) id) eqn:E; [|reflexivity]. apply Nat.eqb_eq in E. contradiction.
  - intros k. pose proof (teardown_inv s id HI) as [_ Hiff]. cbn [step]. rewrite Hiff, tracked_keys_keys, keys_in.
    rewrite teardown_tracked. split.
    + intros (oc & Hoc & Hk). apply filter_In in Hoc as [Hoc Hne]. exists oc. split; [exact Hoc|]. split; [|exact Hk].
      intros E. rewrite E, Nat.eqb_refl in Hne. discriminate Hne.
    + intros (oc & Hoc & Hne & Hk). exists oc. split; [|exact Hk]. apply filter_In. split; [exact Hoc|].
      destruct (Nat.eqb (fst oc) id) eqn:E; [|reflexivity]. apply Nat.eqb_eq in E. contradiction.
Qed.

Lemma handover_no_kernel : forall s old new,
  sad (step s (Handover old new)) = sad s /\ tracked_keys (step s (Handover old new)) = tracked_keys s.
Proof.
  intros s old new. cbn [step]. split; [reflexivity|]. rewrite tracked_keys_mk, keys_handover. reflexivity.
Qed.

Lemma delete_exact : forall s id c, Inv s -> In (id, c) (tracked s) ->
  forall k, In k (sad (step s (DeleteChild id c))) <-> In k (sad s) /\ k <> k_out c /\ k <> k_in c.
Proof. intros s id c _ _ k. cbn [step sad]. apply delete_child_in. Qed.

(** ... and no other tracked entry loses its keys or its place *)
Lemma delete_tracked_exact : forall s id c, Inv s -> In (id, c) (tracked s) ->
  forall oc, In oc (tracked (step s (DeleteChild id c))) <-> In oc (tracked s) /\ oc <> (id, c).
Proof.
  intros s id c _ _ oc. cbn [step tracked]. rewrite filter_In. split; intros [A B]; (split; [exact A|]).
  - intros E. subst oc. cbn [fst snd] in B. rewrite Nat.eqb_refl, child_eqb_refl in B. discriminate B.
  - destruct (Nat.eqb (fst oc) id && child_eqb (snd oc) c) eqn:E; [|reflexivity]. exfalso. apply B.
    apply andb_true_iff in E as [E1 E2]. apply Nat.eqb_eq in E1. apply child_eqb_eq in E2.
    destruct oc as [i c']. cbn [fst snd] in E1, E2. subst. reflexivity.
Qed.

Lemma refusal_leaves_nothing : forall s id c v1 v2, Inv s -> fst (create_child_sa c v1 v2 (sad s)) = false ->
  (forall k, In k (sad (step s (RespInstall id c v1 v2))) <-> In k (sad s)) /\
  tracked (step s (RespInstall id c v1 v2)) = tracked s.
Proof.
  intros s id c v1 v2 _ Hf. cbn [step]. destruct (create_child_sa c v1 v2 (sad s)) as [ok l'] eqn:E.
  cbn [fst] in Hf. subst ok. split; [|reflexivity]. intros k. cbn [sad]. exact (create_child_sa_fail _ _ _ _ _ E k).
Qed.

(** the initiator's refusal: the IKE_SA is torn down and, again, nothing of the refused CHILD_SA stays behind *)
Lemma refusal_init_leaves_nothing : forall s id c v1 v2, Inv s -> op_ok s (InitInstall id c v1 v2) ->
  fst (create_child_sa c v1 v2 (sad s)) = false ->
  (forall oc, In oc (tracked (step s (InitInstall id c v1 v2))) -> fst oc <> id) /\
  ~ In (k_out c) (sad (step s (InitInstall id c v1 v2))) /\ ~ In (k_in c) (sad (step s (InitInstall id c v1 v2))).
Proof.
  intros s id c v1 v2 HI Hok Hf. cbn [step]. destruct (create_child_sa c v1 v2 (sad s)) as [ok l'] eqn:E.
  cbn [fst] in Hf. subst ok. split.
  - intros oc Hoc. rewrite teardown_tracked in Hoc. apply filter_In in Hoc as [_ Hne].
    intros E'. rewrite E', Nat.eqb_refl in Hne. discriminate Hne.
  - pose proof (create_child_sa_fail _ _ _ _ _ E) as Hl. destruct HI as [_ Hiff].
    cbn [op_ok] in Hok. destruct Hok as [F1 F2].
    split; intros Hin; apply teardown_sad_in in Hin as [Hin _]; cbn [sad] in Hin; apply Hl, Hiff in Hin; contradiction.
Qed.

(** * Non-vacuity: a concrete run the hypotheses admit *)

Definition demo_ops : list op :=
  [ RespInstall 1 (mk_child 10 11) true true;       (* installed and tracked *)
    InitInstall 3 (mk_child 50 51) true true;       (* another IKE_SA's CHILD_SA *)
    RespInstall 1 (mk_child 30 31) true false;      (* inbound NEWSA refused by the kernel: rolled back, not tracked *)
    InitInstall 1 (mk_child 20 21) true true;
    Handover 1 2;                                   (* IKE_SA 1 rekeyed into 2 *)
    DeleteChild 2 (mk_child 10 11);
    Teardown 2 ].

Example inv_nonvacuous :
  run_ok demo_ops (mk_st [] []) /\
  run (firstn 6 demo_ops) (mk_st [] []) =
    mk_st [(3%nat, mk_child 50 51); (2%nat, mk_child 20 21)] [21; 20; 51; 50] /\
  run demo_ops (mk_st [] []) = mk_st [(3%nat, mk_child 50 51)] [51; 50] /\
  Inv (run demo_ops (mk_st [] [])).
Proof.
  assert (Hok : run_ok demo_ops (mk_st [] [])).
  { vm_compute. repeat split; try tauto; intros H; repeat (destruct H as [H|H]; try discriminate H); exact H. }
  split; [exact Hok|]. split; [vm_compute; reflexivity|]. split; [vm_compute; reflexivity|].
  apply run_inv; [exact inv_init|exact Hok].
Qed.
