(** Entry point of the C02 correspondence: the gate of the IKE_AUTH handlers with a toy PRF (the same toy PRF is
    patched into the real code for these runs) and the RSA verdict as an oracle input. *)
From Coq Require Import ZArith NArith Bool List String.
From VLib Require Import Sx Bytes.
From IkeSa Require Import Gen.IkeFacts Cookie Auth.
Import ListNotations.
Open Scope N_scope.

(** toy PRF, 32 octets: octet i = (7|k| + 13|d| + 31 i + sum_j k_j (j+1+i) + sum_j d_j (j+3+2i)) mod 256 *)
Fixpoint wsum (l : list N) (j step : N) : N :=
  match l with [] => 0 | x :: r => x * j + wsum r (j + 1) step end.
Definition toy_octet (k d : bytes) (i : N) : N :=
  (7 * N.of_nat (List.length k) + 13 * N.of_nat (List.length d) + 31 * i + wsum k (1 + i) 1 + wsum d (3 + 2 * i) 1) mod 256.
Definition toy_prf (k d : bytes) : bytes := map (fun i => toy_octet k d (N.of_nat i)) (seq 0 32).

(** input: SxL [conf id type; conf id data; psk (bytes or None); has pubkey; rsa verdict;
                id type; id data; method; auth data; peer msg; my nonce; peer sk_p]   output: SxZ 1 (continue) / 0 *)
Definition run_auth (x : sx) : sx :=
  match x with
  | SxL [SxZ cty; cdata; psk; SxZ haspub; SxZ rsaok; SxZ ity; idata; SxZ meth; adata; msg; nonce; skp] =>
      match get_bytes cdata, get_bytes idata, get_bytes adata, get_bytes msg, get_bytes nonce, get_bytes skp with
      | Some cdata', Some idata', Some adata', Some msg', Some nonce', Some skp' =>
          let c := mk_auth_conf unit (Z.to_N cty) cdata' (match psk with SxNone => None | p => get_bytes p end)
                                (if Z.eqb haspub 1 then Some tt else None) in
          match ike_auth_handler toy_prf unit (fun _ _ _ => Z.eqb rsaok 1) c (Z.to_N ity) idata' meth adata' msg'
                                 nonce' skp' with
          | Continue => SxZ 1
          | AuthFailed => SxZ 0
          end
      | _, _, _, _, _, _ => bad_input
      end
  | _ => bad_input
  end.
