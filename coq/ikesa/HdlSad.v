(** C10 on the handler model (Hdl.v): the kernel SAD always equals the CHILD_SAs the daemon tracks.

    The kernel is an explicit SAD (a list of keys (destination address, IPsec protocol, SPI)) driven by the history
    of kernel operations [kops] a handler issues; the verdicts on the tape are constrained to be those of a faithful
    kernel (NEWSA accepted only if the key is absent - it may also be refused for any other reason; DELSA succeeds iff
    the key is present).  For EVERY entry point of the handler interface (all four request handlers, all four
    response handlers, both local triggers, the three timer generators), every message, every configuration, every
    cryptographic environment and every tape: the invariant [Inv] (installed keys of this IKE_SA = keys of the
    CHILD_SAs it and its not-yet-registered successor track, no key twice, the keys of the other IKE_SAs untouched)
    is preserved, whether the handler answers or raises.

    Structure: (A) SAD algebra; (B) "silent" monadic computations (no kernel operation, CHILD_SA lists, addresses,
    state untouched) with a tactic, and a small forward symbolic-execution kit ([post], [step]); (C) specifications
    of create_child_sa / delete_child_sa; (D) atomic steps [Atom] and the sub-handlers (both roles of the CHILD_SA
    negotiation, DELETE loops); (E) entry points: every run is a sequence of atomic steps [Trans];
    (F) every atomic step preserves the invariant under faithful verdicts; main theorems;
    (G) teardown, corollaries (hand-over, refusals, exact deletion), concrete runs.

    History: with the order "append to child_sas, then install" that the initiator used before the fix
    d8244e2 of /repo, the invariant failed after a refused NEWSA (tracked but absent), and the teardown that follows
    could even delete a key of ANOTHER IKE_SA (peer proposes an SPI that is installed for another IKE_SA to the same
    peer: EEXIST, IKE_SA DELETED, delete_child_sas issues DELSA for that SPI and the kernel obeys). *)
From Coq Require Import ZArith NArith Bool List Lia ZifyBool Permutation PeanoNat.
From RecordUpdate Require Import RecordSet.
From VLib Require Import Bytes.
From IkeSa Require Import Gen.IkeFacts Shell Hdl.
Import ListNotations RecordSetNotations.
Open Scope Z_scope.

(* ------------------------------------------------------------------------------------------------ *)
(** * A. The SAD *)

Definition key := (Z * Z * bytes)%type.     (* destination address, IPsec protocol number (50/51), SPI *)
Definition sad := list key.

Definition key_eq_dec (a b : key) : {a = b} + {a <> b}.
Proof. repeat decide equality. Defined.
Definition key_eqb (a b : key) : bool := if key_eq_dec a b then true else false.

Lemma key_eqb_true a b : key_eqb a b = true <-> a = b.
Proof. unfold key_eqb. destruct (key_eq_dec a b); split; intros H; try assumption; try reflexivity; try discriminate; contradiction. Qed.
Lemma key_eqb_false a b : key_eqb a b = false <-> a <> b.
Proof. unfold key_eqb. destruct (key_eq_dec a b); split; intros H; try assumption; try reflexivity; try discriminate; contradiction. Qed.

Definition sad_del (k : key) (s : sad) : sad := filter (fun x => negb (key_eqb x k)) s.
Definition key_of_ksa (ks : ksa) : key := (k_dst ks, k_proto ks, k_spi ks).

Definition apply_kop (s : sad) (k : kop) : sad :=
  match k with
  | K_add ks true => key_of_ksa ks :: s
  | K_del d p spi true => sad_del (d, p, spi) s
  | _ => s
  end.
Definition apply_kops (s : sad) (l : list kop) : sad := fold_left apply_kop l s.

(** the kernel's verdicts: NEWSA may be refused for any reason, but is never accepted for a key that is installed
    (EEXIST); DELSA succeeds iff the key is installed (ESRCH otherwise) *)
Definition faithful (s : sad) (k : kop) : Prop :=
  match k with
  | K_add ks ok => ok = true -> ~ In (key_of_ksa ks) s
  | K_del d p spi ok => ok = true <-> In (d, p, spi) s
  end.
Fixpoint faithful_run (s : sad) (l : list kop) : Prop :=
  match l with
  | [] => True
  | k :: r => faithful s k /\ faithful_run (apply_kop s k) r
  end.
(** the kernel of the simulator used by the correspondence check (and Linux without resource errors) *)
Definition faithful_strict (s : sad) (k : kop) : Prop :=
  match k with
  | K_add ks ok => ok = true <-> ~ In (key_of_ksa ks) s
  | K_del d p spi ok => ok = true <-> In (d, p, spi) s
  end.
Fixpoint faithful_strict_run (s : sad) (l : list kop) : Prop :=
  match l with
  | [] => True
  | k :: r => faithful_strict s k /\ faithful_strict_run (apply_kop s k) r
  end.

Lemma faithful_strict_run_weaken l : forall s, faithful_strict_run s l -> faithful_run s l.
Proof.
  induction l as [|k r IH]; intros s H; cbn in *; [trivial|].
  destruct H as [H1 H2]. split; [|apply IH; exact H2].
  destruct k; cbn in *; [intros Hok; apply H1; exact Hok|exact H1].
Qed.

Lemma sad_del_in k x s : In x (sad_del k s) <-> In x s /\ x <> k.
Proof.
  unfold sad_del. rewrite filter_In. split; intros [A B]; (split; [exact A|]).
  - apply negb_true_iff in B. apply key_eqb_false in B. exact B.
  - apply negb_true_iff. apply key_eqb_false. exact B.
Qed.
Lemma sad_del_notin k s : ~ In k s -> sad_del k s = s.
Proof.
  intros N. unfold sad_del. induction s as [|x r IH]; [reflexivity|]. cbn.
  destruct (key_eqb x k) eqn:Ek.
  - apply key_eqb_true in Ek. subst x. exfalso. apply N. left. reflexivity.
  - cbn. f_equal. apply IH. intros H. apply N. right. exact H.
Qed.
Lemma sad_del_app k a b : sad_del k (a ++ b) = sad_del k a ++ sad_del k b.
Proof. unfold sad_del. apply filter_app. Qed.
Lemma sad_del_cons_self k s : ~ In k s -> sad_del k (k :: s) = s.
Proof.
  intros N. unfold sad_del. cbn. destruct (key_eqb k k) eqn:Ek.
  - cbn. apply sad_del_notin. exact N.
  - apply key_eqb_false in Ek. exfalso. apply Ek. reflexivity.
Qed.
Lemma sad_del_nodup k s : NoDup s -> NoDup (sad_del k s).
Proof. intros H. unfold sad_del. apply NoDup_filter. exact H. Qed.

Lemma apply_kops_app s a b : apply_kops s (a ++ b) = apply_kops (apply_kops s a) b.
Proof. unfold apply_kops. apply fold_left_app. Qed.
Lemma faithful_run_app a : forall s b, faithful_run s (a ++ b) <-> faithful_run s a /\ faithful_run (apply_kops s a) b.
Proof.
  induction a as [|k r IH]; intros s b; cbn.
  - tauto.
  - rewrite IH. tauto.
Qed.

Definition same_elts (a b : list key) : Prop := forall k, In k a <-> In k b.

(* ------------------------------------------------------------------------------------------------ *)
(** * B. Silent computations *)

Definition nsame (a b : option core) : Prop :=
  match a, b with
  | None, None => True
  | Some x, Some y => children y = children x /\ my_addr y = my_addr x /\ peer_addr y = peer_addr x
  | _, _ => False
  end.
Lemma nsame_refl a : nsame a a.
Proof. destruct a; cbn; auto. Qed.
Lemma nsame_trans a b c : nsame a b -> nsame b c -> nsame a c.
Proof.
  destruct a, b, c; cbn; try tauto. intros (A1 & A2 & A3) (B1 & B2 & B3).
  repeat split; congruence.
Qed.

(** everything the property looks at, except the kernel history, is unchanged *)
Definition SilK (s s' : isa) : Prop :=
  children (co s') = children (co s) /\ my_addr (co s') = my_addr (co s) /\ peer_addr (co s') = peer_addr (co s)
  /\ st (co s') = st (co s) /\ nsame (new_sa s) (new_sa s').
Definition Sil0 (s s' : isa) : Prop := kops s' = kops s /\ SilK s s'.

Lemma SilK_refl s : SilK s s.
Proof. unfold SilK. repeat split; auto using nsame_refl. Qed.
Lemma SilK_trans a b c : SilK a b -> SilK b c -> SilK a c.
Proof.
  unfold SilK. intros (A1 & A2 & A3 & A4 & A5) (B1 & B2 & B3 & B4 & B5).
  repeat split; try congruence. eapply nsame_trans; eassumption.
Qed.
Lemma Sil0_refl s : Sil0 s s.
Proof. split; [reflexivity|apply SilK_refl]. Qed.
Lemma Sil0_trans a b c : Sil0 a b -> Sil0 b c -> Sil0 a c.
Proof. intros [A1 A2] [B1 B2]. split; [congruence|eapply SilK_trans; eassumption]. Qed.

Definition post {A} (Q : res A -> isa -> Prop) (x : res A * isa) : Prop := Q (fst x) (snd x).
Definition sil {A} (m : H A) : Prop := forall s, Sil0 s (snd (m s)).

Lemma sil_ret A (a : A) : sil (ret a).
Proof. intros s. apply Sil0_refl. Qed.
Lemma sil_raise A e : sil (@raise A e).
Proof. intros s. apply Sil0_refl. Qed.
Lemma sil_stuck A : sil (@stuck A).
Proof. intros s. apply Sil0_refl. Qed.
Lemma sil_get : sil get.
Proof. intros s. apply Sil0_refl. Qed.
Lemma sil_getc : sil getc.
Proof. intros s. apply Sil0_refl. Qed.
Lemma sil_bind A B (m : H A) (f : A -> H B) : sil m -> (forall a, sil (f a)) -> sil (bind m f).
Proof.
  intros Hm Hf s. unfold bind. specialize (Hm s). destruct (m s) as [[a|e|] s1]; cbn in *; try exact Hm.
  eapply Sil0_trans; [exact Hm|apply Hf].
Qed.
Lemma sil_try_catch A (m : H A) h : sil m -> (forall e k, h e = Some k -> sil k) -> sil (try_catch m h).
Proof.
  intros Hm Hh s. unfold try_catch. specialize (Hm s). destruct (m s) as [[a|e|] s1]; cbn in *; try exact Hm.
  destruct (h e) as [k|] eqn:Ek; cbn; [|exact Hm].
  eapply Sil0_trans; [exact Hm|eapply Hh; exact Ek].
Qed.
Lemma sil_of_opt A (o : option A) e : sil (of_opt o e).
Proof. destruct o; [apply sil_ret|apply sil_raise]. Qed.
Lemma sil_pop : sil pop.
Proof.
  intros s. unfold pop. destruct (tape s); cbn; [apply Sil0_refl|].
  split; [reflexivity|]. unfold SilK; cbn. repeat split; auto using nsame_refl.
Qed.
(** a change of the core that keeps CHILD_SAs, addresses and state *)
Definition keeps (f : core -> core) : Prop :=
  forall c, children (f c) = children c /\ my_addr (f c) = my_addr c /\ peer_addr (f c) = peer_addr c /\ st (f c) = st c.
Lemma sil_modc f : keeps f -> sil (modc f).
Proof.
  intros Hf s. destruct (Hf (co s)) as (A1 & A2 & A3 & A4).
  split; [reflexivity|]. unfold SilK; cbn. repeat split; auto using nsame_refl.
Qed.
Lemma sil_modw w f : keeps f -> sil (modw w f).
Proof.
  intros Hf. destruct w; [|apply sil_modc; exact Hf].
  intros s. split; [reflexivity|]. unfold SilK; cbn. repeat split; auto.
  destruct (new_sa s) as [n|]; cbn; [|trivial]. destruct (Hf n) as (A1 & A2 & A3 & _). auto.
Qed.
Lemma sil_modify_rek f : sil (modify (fun s => s <| rek_push := f s |>)).
Proof. intros s. split; [reflexivity|]. unfold SilK; cbn. repeat split; auto using nsame_refl. Qed.

Ltac keeps_tac := let c := fresh "c" in intros c; cbn; repeat split; reflexivity.

Create HintDb sil discriminated.
#[export] Hint Resolve sil_ret sil_raise sil_stuck sil_get sil_getc sil_of_opt sil_pop sil_modify_rek : sil.

(** proves [sil m] by walking through the term; unknown heads are looked up in the hint database *)
Ltac sil_step :=
  lazymatch goal with
  | |- sil (bind _ _) => apply sil_bind; [|intros ?]
  | |- sil (try_catch _ _) => apply sil_try_catch; [|let e := fresh "e" in let k := fresh "k" in let Hk := fresh "Hk" in
                                                      intros e k Hk; destruct e; cbn in Hk;
                                                      try discriminate Hk;
                                                      try (injection Hk as <-)]
  | |- sil (modc _) => apply sil_modc; keeps_tac
  | |- sil (modw _ _) => apply sil_modw; keeps_tac
  | |- sil (when ?b _) => destruct b; cbn [when]
  | |- sil (if ?b then _ else _) => destruct b
  | |- sil (match ?x with _ => _ end) => destruct x
  | |- sil _ => solve [eauto with sil]
  end.
Ltac sil_tac := repeat sil_step.

Section Silent.
  Variable E : env.

  Lemma sil_draw_bytes : sil draw_bytes. Proof. unfold draw_bytes. sil_tac. Qed.
  Lemma sil_draw_num : sil draw_num. Proof. unfold draw_num. sil_tac. Qed.
  Lemma sil_draw_dh g : sil (draw_dh g). Proof. unfold draw_dh. sil_tac. Qed.
  Lemma sil_draw_verdict : sil draw_verdict. Proof. unfold draw_verdict. sil_tac. Qed.
  Hint Resolve sil_draw_bytes sil_draw_num sil_draw_dh sil_draw_verdict : sil.
  Lemma sil_get_payload m k e : sil (get_payload m k e). Proof. unfold get_payload. sil_tac. Qed.
  Lemma sil_req_get r k : sil (req_get r k). Proof. unfold req_get. sil_tac. Qed.
  Lemma sil_amsg_nonce m : sil (amsg_nonce m).
  Proof. unfold amsg_nonce. destruct m as [[h [cl en]]|]; sil_tac. Qed.
  Lemma sil_first_prop p : sil (first_prop p). Proof. unfold first_prop. sil_tac. Qed.
  Lemma sil_get_transform p ty : sil (get_transform p ty). Proof. unfold get_transform. sil_tac. Qed.
  Hint Resolve sil_get_payload sil_req_get sil_amsg_nonce sil_first_prop sil_get_transform : sil.
  Lemma sil_new_core i p c : sil (new_core i p c). Proof. unfold new_core. sil_tac. Qed.
  Lemma sil_check_in_states l : sil (check_in_states l). Proof. unfold check_in_states. sil_tac. Qed.
  Lemma sil_assert_state l : sil (assert_state l). Proof. unfold assert_state. sil_tac. Qed.
  Lemma sil_select_best p ps : sil (select_best p ps). Proof. unfold select_best. sil_tac. Qed.
  Lemma sil_getw w : sil (getw w). Proof. unfold getw. sil_tac. Qed.
  Lemma sil_fresh_nonce : sil fresh_nonce. Proof. unfold fresh_nonce. sil_tac. Qed.
  Hint Resolve sil_new_core sil_check_in_states sil_assert_state sil_select_best sil_getw sil_fresh_nonce : sil.
  Lemma sil_gen_keys w p ni nr si sr sec old : sil (gen_keys E w p ni nr si sr sec old).
  Proof. unfold gen_keys. sil_tac. Qed.
  Hint Resolve sil_gen_keys : sil.
  Lemma sil_ike_nego_request w m enc old : sil (ike_nego_request E w m enc old).
  Proof. unfold ike_nego_request. sil_tac. Qed.
  Lemma sil_gen_ike_nego_request w : sil (gen_ike_nego_request w).
  Proof. unfold gen_ike_nego_request. sil_tac. Qed.
  Lemma sil_ike_nego_response w m n enc old : sil (ike_nego_response E w m n enc old).
  Proof. unfold ike_nego_response. sil_tac. Qed.
  Lemma sil_abort m enc ign : sil (abort_on_error_notifies m enc ign).
  Proof. unfold abort_on_error_notifies. sil_tac. Qed.
  Hint Resolve sil_ike_nego_request sil_gen_ike_nego_request sil_ike_nego_response sil_abort : sil.
  Lemma sil_my_sk_p c : sil (my_sk_p c). Proof. unfold my_sk_p. sil_tac. Qed.
  Lemma sil_peer_sk_p c : sil (peer_sk_p c). Proof. unfold peer_sk_p. sil_tac. Qed.
  Lemma sil_gen_auth a b c d e : sil (gen_auth E a b c d e). Proof. unfold gen_auth. sil_tac. Qed.
  Lemma sil_verify_auth p a b c d e : sil (verify_auth E p a b c d e). Proof. unfold verify_auth. sil_tac. Qed.
  Lemma sil_ser_opt m : sil (ser_opt E m). Proof. unfold ser_opt. sil_tac. Qed.
  Lemma sil_check_peer_id p : sil (check_peer_id p). Proof. unfold check_peer_id. sil_tac. Qed.
  Hint Resolve sil_my_sk_p sil_peer_sk_p sil_gen_auth sil_verify_auth sil_ser_opt sil_check_peer_id : sil.
  Lemma sil_one_ts l : sil (one_ts l). Proof. unfold one_ts. sil_tac. Qed.
  Lemma sil_get_ipsec_configuration l a b : sil (get_ipsec_configuration l a b).
  Proof. unfold get_ipsec_configuration. sil_tac. Qed.
  Lemma sil_opt_nonce x m : sil (opt_nonce x m). Proof. unfold opt_nonce. sil_tac. Qed.
  Lemma sil_gen_child_nego_req ch : sil (gen_child_nego_req ch). Proof. unfold gen_child_nego_req. sil_tac. Qed.
  Lemma sil_set_request x ps : sil (set_request x ps). Proof. unfold set_request. sil_tac. Qed.
  Lemma sil_handle_invalid_ke n : sil (handle_invalid_ke n). Proof. unfold handle_invalid_ke. sil_tac. Qed.
  Hint Resolve sil_one_ts sil_get_ipsec_configuration sil_opt_nonce sil_gen_child_nego_req sil_set_request
       sil_handle_invalid_ke : sil.
End Silent.
#[export] Hint Resolve sil_draw_bytes sil_draw_num sil_draw_dh sil_draw_verdict sil_get_payload sil_req_get sil_amsg_nonce
  sil_first_prop sil_get_transform sil_new_core sil_check_in_states sil_assert_state sil_select_best sil_getw
  sil_fresh_nonce sil_gen_keys sil_ike_nego_request sil_gen_ike_nego_request sil_ike_nego_response sil_abort
  sil_my_sk_p sil_peer_sk_p sil_gen_auth sil_verify_auth sil_ser_opt sil_check_peer_id sil_one_ts
  sil_get_ipsec_configuration sil_opt_nonce sil_gen_child_nego_req sil_set_request sil_handle_invalid_ke : sil.

(* ------------------------------------------------------------------------------------------------ *)
(** * Stepping through monadic code *)

(** what is known about the current state [s] relative to an anchor [a]: the kernel operations issued since *)
Definition Tr (a : isa) (ks : list kop) (s : isa) : Prop := kops s = kops a ++ ks /\ SilK a s.
Lemma Tr_refl a : Tr a [] a.
Proof. split; [symmetry; apply app_nil_r|apply SilK_refl]. Qed.
Lemma Tr_sil a ks s s1 : Tr a ks s -> Sil0 s s1 -> Tr a ks s1.
Proof. intros [A1 A2] [B1 B2]. split; [congruence|eapply SilK_trans; eassumption]. Qed.
Lemma Tr_emit a ks s k : Tr a ks s -> Tr a (ks ++ [k]) (s <| kops := kops s ++ [k] |>).
Proof.
  intros [A1 A2]. split; [cbn; rewrite A1; symmetry; apply app_assoc|].
  destruct A2 as (B1 & B2 & B3 & B4 & B5). unfold SilK; cbn. auto.
Qed.
Lemma Tr_nil_Sil0 a s : Tr a [] s <-> Sil0 a s.
Proof. unfold Tr, Sil0. rewrite app_nil_r. tauto. Qed.

Lemma post_bind A B (m : H A) (f : A -> H B) Q s (Q1 : res A -> isa -> Prop) :
  post Q1 (m s) ->
  (forall r s1, Q1 r s1 ->
     match r with Ok a => post Q (f a s1) | Raise e => Q (Raise e) s1 | Stuck => Q Stuck s1 end) ->
  post Q (bind m f s).
Proof.
  unfold post, bind. intros H1 H2. specialize (H2 _ _ H1). destruct (m s) as [[a|e|] s1]; cbn in *; exact H2.
Qed.
Lemma post_bind_sil A B (m : H A) (f : A -> H B) Q s :
  sil m ->
  (forall r s1, Sil0 s s1 ->
     match r with Ok a => post Q (f a s1) | Raise e => Q (Raise e) s1 | Stuck => Q Stuck s1 end) ->
  post Q (bind m f s).
Proof. intros Hm H. apply (post_bind _ _ m f Q s (fun _ s1 => Sil0 s s1)); [apply Hm|exact H]. Qed.
Lemma post_sil A (m : H A) (Q : res A -> isa -> Prop) s :
  sil m -> (forall r s1, Sil0 s s1 -> Q r s1) -> post Q (m s).
Proof. intros Hm H. unfold post. apply H. apply Hm. Qed.
Lemma post_bind_getc B (f : core -> H B) Q s : post Q (f (co s) s) -> post Q (bind getc f s).
Proof. intros H. exact H. Qed.
Lemma post_bind_get B (f : isa -> H B) Q s : post Q (f s s) -> post Q (bind get f s).
Proof. intros H. exact H. Qed.
Lemma post_bind_ret A B (a : A) (f : A -> H B) Q s : post Q (f a s) -> post Q (bind (ret a) f s).
Proof. intros H. exact H. Qed.
Lemma post_bind_raise A B e (f : A -> H B) (Q : res B -> isa -> Prop) s : Q (Raise e) s -> post Q (bind (raise e) f s).
Proof. intros H. exact H. Qed.
Lemma post_bind_modify B g (f : unit -> H B) Q s : post Q (f tt (g s)) -> post Q (bind (modify g) f s).
Proof. intros H. exact H. Qed.
Lemma post_bind_modc B g (f : unit -> H B) Q s : post Q (f tt (s <| co := g (co s) |>)) -> post Q (bind (modc g) f s).
Proof. intros H. exact H. Qed.
Lemma post_bind_emit B k (f : unit -> H B) Q s :
  post Q (f tt (s <| kops := kops s ++ [k] |>)) -> post Q (bind (emit k) f s).
Proof. intros H. exact H. Qed.
Lemma post_ret A (a : A) (Q : res A -> isa -> Prop) s : Q (Ok a) s -> post Q (ret a s).
Proof. intros H. exact H. Qed.
Lemma post_raise A e (Q : res A -> isa -> Prop) s : Q (Raise e) s -> post Q (raise e s).
Proof. intros H. exact H. Qed.
Lemma post_emit k (Q : res unit -> isa -> Prop) s : Q (Ok tt) (s <| kops := kops s ++ [k] |>) -> post Q (emit k s).
Proof. intros H. exact H. Qed.
Lemma post_modc g (Q : res unit -> isa -> Prop) s : Q (Ok tt) (s <| co := g (co s) |>) -> post Q (modc g s).
Proof. intros H. exact H. Qed.
Lemma post_try_catch A (m : H A) h (Q : res A -> isa -> Prop) s (Q1 : res A -> isa -> Prop) :
  post Q1 (m s) ->
  (forall r s1, Q1 r s1 ->
     match r with
     | Raise e => match h e with Some k => post Q (k s1) | None => Q (Raise e) s1 end
     | _ => Q r s1
     end) ->
  post Q (try_catch m h s).
Proof.
  unfold post, try_catch. intros H1 H2. specialize (H2 _ _ H1). destruct (m s) as [[a|e|] s1]; cbn in *; try exact H2.
  destruct (h e); exact H2.
Qed.

(** advance the current-state fact over a silent step *)
Ltac chain Hs :=
  lazymatch type of Hs with
  | Sil0 ?s ?s1 =>
      lazymatch goal with
      | H : Tr ?a ?ks s |- _ => let H' := fresh "Hc" in pose proof (Tr_sil _ _ _ _ H Hs) as H'; clear Hs H
      end
  end.
Ltac chain_emit :=
  lazymatch goal with
  | |- context [?s <| kops := kops ?s ++ [?k] |>] =>
      lazymatch goal with
      | H : Tr ?a ?ks s |- _ =>
          let H' := fresh "Hc" in pose proof (Tr_emit _ _ _ k H) as H'; clear H;
          let s1 := fresh "s" in set (s1 := s <| kops := kops s ++ [k] |>) in *; clearbody s1
      end
  end.

Ltac name_cur H := lazymatch goal with Hc : Tr _ _ _ |- _ => rename Hc into H end.
Ltac step_sil_bind :=
  lazymatch goal with
  | |- post _ (bind ?m _ ?s) =>
      let Hm := fresh "Hm" in
      assert (Hm : sil m) by (sil_tac; fail);
      apply (post_bind_sil _ _ m _ _ s Hm); clear Hm;
      let r := fresh "r" in let s1 := fresh "s" in let Hs := fresh "Hs" in
      intros r s1 Hs; chain Hs; destruct r as [?a|?e|]
  end.
Ltac step_sil_last :=
  lazymatch goal with
  | |- post _ (?m ?s) =>
      let Hm := fresh "Hm" in
      assert (Hm : sil m) by (sil_tac; fail);
      apply (post_sil _ m _ s Hm); clear Hm;
      let r := fresh "r" in let s1 := fresh "s" in let Hs := fresh "Hs" in
      intros r s1 Hs; chain Hs
  end.
Ltac step :=
  lazymatch goal with
  | |- post _ (bind getc _ _) => apply post_bind_getc
  | |- post _ (bind get _ _) => apply post_bind_get
  | |- post _ (bind (ret _) _ _) => apply post_bind_ret
  | |- post _ (bind (raise _) _ _) => apply post_bind_raise
  | |- post _ (bind (emit _) _ _) => apply post_bind_emit; chain_emit
  | |- post _ (emit _ _) => apply post_emit; chain_emit
  | |- post _ (ret _ _) => apply post_ret
  | |- post _ (raise _ _) => apply post_raise
  | |- post _ (bind (if ?b then _ else _) _ _) => first [step_sil_bind | destruct b eqn:?]
  | |- post _ (bind (match ?x with _ => _ end) _ _) => first [step_sil_bind | destruct x eqn:?]
  | |- post _ (bind _ _ _) => step_sil_bind
  | |- post _ ((if ?b then _ else _) _) => destruct b eqn:?
  | |- post _ ((match ?x with _ => _ end) _) => destruct x eqn:?
  | |- post _ ((let '(_, _) := ?x in _) _) => destruct x eqn:?
  end.

Lemma post_bind_draw_verdict B (f : bool -> H B) Q s :
  (forall v s1, Sil0 s s1 -> post Q (f v s1)) -> (forall s1, Sil0 s s1 -> Q Stuck s1) ->
  post Q (bind draw_verdict f s).
Proof.
  intros H1 H2. unfold draw_verdict, bind, pop, post.
  destruct (tape s) as [|d r]; cbn; [apply H2; apply Sil0_refl|].
  assert (Hs : Sil0 s (s <| tape := r |>)).
  { split; [reflexivity|]. unfold SilK; cbn. repeat split; auto using nsame_refl. }
  destruct d; cbn; try (apply H2; exact Hs). apply H1. exact Hs.
Qed.
Ltac step_verdict :=
  lazymatch goal with
  | |- post _ (bind draw_verdict _ ?s) =>
      apply post_bind_draw_verdict;
      [ let v := fresh "v" in let s1 := fresh "s" in let Hs := fresh "Hs" in intros v s1 Hs; chain Hs
      | let s1 := fresh "s" in let Hs := fresh "Hs" in intros s1 Hs; chain Hs ]
  end.

(** which exceptions a computation can raise *)
Definition raises {A} (P : exn -> Prop) (m : H A) : Prop := forall s e, fst (m s) = Raise e -> P e.
Lemma raises_ret A P (a : A) : raises P (ret a).
Proof. intros s e H. discriminate H. Qed.
Lemma raises_raise A (P : exn -> Prop) e : P e -> raises P (@raise A e).
Proof. intros Hp s e' H. injection H as <-. exact Hp. Qed.
Lemma raises_stuck A P : raises P (@stuck A).
Proof. intros s e H. discriminate H. Qed.
Lemma raises_getc P : raises P getc.
Proof. intros s e H. discriminate H. Qed.
Lemma raises_get P : raises P get.
Proof. intros s e H. discriminate H. Qed.
Lemma raises_modify P f : raises P (modify f).
Proof. intros s e H. discriminate H. Qed.
Lemma raises_emit P k : raises P (emit k).
Proof. intros s e H. discriminate H. Qed.
Lemma raises_pop P : raises P pop.
Proof. intros s e H. unfold pop in H. destruct (tape s); discriminate H. Qed.
Lemma raises_bind A B P (m : H A) (f : A -> H B) : raises P m -> (forall a, raises P (f a)) -> raises P (bind m f).
Proof.
  intros Hm Hf s e. unfold bind. specialize (Hm s). destruct (m s) as [[a|e'|] s1]; cbn in *.
  - apply Hf.
  - intros H. injection H as <-. apply Hm. reflexivity.
  - intros H. discriminate H.
Qed.
Create HintDb rs discriminated.
#[export] Hint Resolve raises_ret raises_stuck raises_getc raises_get raises_modify raises_emit raises_pop : rs.
Ltac rs_step :=
  lazymatch goal with
  | |- raises _ (bind _ _) => apply raises_bind; [|intros ?]
  | |- raises _ (raise _) => apply raises_raise; cbn; auto
  | |- raises _ (if ?b then _ else _) => destruct b
  | |- raises _ (match ?x with _ => _ end) => destruct x
  | |- raises _ _ => solve [eauto with rs]
  end.
Ltac rs_tac := repeat rs_step.

(* ------------------------------------------------------------------------------------------------ *)
(** * C. The two kernel primitives *)

Definition kout (c : core) (ch : child) : key := (peer_addr c, ipsec_proto (c_prop ch), c_out ch).
Definition kin (c : core) (ch : child) : key := (my_addr c, ipsec_proto (c_prop ch), c_in ch).
Definition child_keys (c : core) (ch : child) : list key := [kout c ch; kin c ch].

(** the kernel operations of a create_child_sa that raises: none, a refused outbound NEWSA, or an accepted outbound
    NEWSA, a refused inbound NEWSA and the DELSA that undoes the outbound one *)
Definition refusal (c : core) (ch : child) (ks : list kop) : Prop :=
  ks = [] \/ (exists a, ks = [K_add a false]) \/
  (exists a b v, key_of_ksa a = kout c ch /\
                 ks = [K_add a true; K_add b false; K_del (peer_addr c) (ipsec_proto (c_prop ch)) (c_out ch) v]).
(** ... of a create_child_sa that succeeds: the two accepted NEWSAs; the outbound SPI (chosen by the peer) had the
    four bytes of the netlink field *)
Definition spi4 (ch : child) : Prop := length (c_out ch) = 4%nat.
Definition installs (c : core) (ch : child) (ks : list kop) : Prop :=
  exists a b, key_of_ksa a = kout c ch /\ key_of_ksa b = kin c ch /\ ks = [K_add a true; K_add b true] /\ spi4 ch.
Definition deletes (c : core) (ch : child) (ks : list kop) : Prop :=
  exists v1 v2, ks = [K_del (peer_addr c) (ipsec_proto (c_prop ch)) (c_out ch) v1;
                      K_del (my_addr c) (ipsec_proto (c_prop ch)) (c_in ch) v2].

Lemma installs_intro a b c ch :
  key_of_ksa a = kout c ch -> key_of_ksa b = kin c ch -> spi4 ch -> installs c ch [K_add a true; K_add b true].
Proof. intros H1 H2 H3. exists a, b. auto. Qed.

(** the guard on the length of the peer's SPI (the only test on a [nat] in the handlers): keep the outcome *)
Ltac step_spi :=
  lazymatch goal with
  | |- post _ (bind (if Nat.eqb ?x ?y then _ else _) _ _) => destruct (Nat.eqb x y) eqn:?
  end.

Lemma create_spec ch k i s :
  post (fun r s' => match r with
                    | Ok _ => exists ks, Tr s ks s' /\ installs (co s) ch ks
                    | Raise e => exists ks, Tr s ks s' /\ refusal (co s) ch ks
                    | Stuck => True
                    end) (create_child_sa ch k i s).
Proof.
  pose proof (Tr_refl s) as Hc0.
  unfold create_child_sa.
  repeat (first [step_spi | step_verdict | step]; repeat match goal with v : bool |- _ => destruct v end); try trivial.
  all: eexists; (split; [eassumption|]); cbn [app].
  all: try (apply installs_intro; [reflexivity|reflexivity|apply Nat.eqb_eq; assumption]).
  all: unfold refusal, kout.
  all: try (left; reflexivity).
  all: try (right; left; eexists; reflexivity).
  all: try (right; right; do 3 eexists; split; [|reflexivity]; reflexivity).
Qed.

Lemma raises_one_ts (P : exn -> Prop) l : P X_Other -> raises P (one_ts l).
Proof. intros Hp. unfold one_ts. rs_tac. Qed.
Lemma raises_get_transform (P : exn -> Prop) p ty : P X_Other -> raises P (get_transform p ty).
Proof. intros Hp. unfold get_transform. rs_tac. Qed.
Lemma raises_draw_num (P : exn -> Prop) : raises P draw_num.
Proof. unfold draw_num. rs_tac. Qed.
Lemma raises_draw_verdict (P : exn -> Prop) : raises P draw_verdict.
Proof. unfold draw_verdict. rs_tac. Qed.
#[export] Hint Resolve raises_one_ts raises_get_transform raises_draw_num raises_draw_verdict : rs.

(** create_child_sa raises generic exceptions only (never an IkeSaError, never ChildSaRejectedError) *)
Definition generic_exn (e : exn) : Prop := e = X_Other \/ e = X_Netlink.
Lemma create_raises ch k i : raises generic_exn (create_child_sa ch k i).
Proof.
  assert (H1 : generic_exn X_Other) by (left; reflexivity).
  assert (H2 : generic_exn X_Netlink) by (right; reflexivity).
  unfold create_child_sa. rs_tac.
Qed.

(** delete_child_sa: two DELSAs - or, when the outbound SPI does not have four bytes, a generic exception before any
    request is built (nothing issued, nothing changed) *)
(** the peer's SPI is not four bytes long: create_child_sa raises the generic exception (TypeError) before the first
    netlink request is built.  No kernel operation is issued; nothing of the state changes except that the jitter of
    a finite lifetime may already have been drawn from the tape (one element).  [Stuck] only if that draw did not
    find a number. *)
Theorem create_child_sa_bad_spi ch k ini s :
  length (c_out ch) <> 4%nat ->
  exists r s', create_child_sa ch k ini s = (r, s')
    /\ (r = Raise X_Other \/ r = Stuck)
    /\ kops s' = kops s /\ s' = s <| tape := tape s' |>
    /\ (tape s' = tape s \/ (c_life ch <> -1 /\ exists d, tape s = d :: tape s'))
    /\ (r = Stuck -> c_life ch <> -1 /\ forall j, hd_error (tape s) <> Some (D_num j)).
Proof.
  intros Hne. apply Nat.eqb_neq in Hne. destruct s as [c ns rp nw tp ko].
  set (Q := fun (r : res unit) (s' : isa) =>
              (r = Raise X_Other \/ r = Stuck)
              /\ kops s' = ko /\ s' = mk_isa c ns rp nw (tape s') ko
              /\ (tape s' = tp \/ (c_life ch <> -1 /\ exists d, tp = d :: tape s'))
              /\ (r = Stuck -> c_life ch <> -1 /\ forall j, hd_error tp <> Some (D_num j))).
  enough (HQ : Q (fst (create_child_sa ch k ini (mk_isa c ns rp nw tp ko)))
                 (snd (create_child_sa ch k ini (mk_isa c ns rp nw tp ko)))).
  { eexists. eexists. split; [apply surjective_pairing|exact HQ]. }
  unfold create_child_sa, draw_num, pop, one_ts, get_transform, stuck. unfold bind, getc, ret, raise. cbn.
  repeat (match goal with
          | |- context [Nat.eqb (length (c_out ch)) 4] => rewrite Hne
          | |- context [match ?x with _ => _ end] =>
              lazymatch x with
              | context [match _ with _ => _ end] => fail
              | _ => destruct x eqn:?
              end
          end; cbn).
  all: unfold Q; cbn.
  all: split; [first [left; reflexivity | right; reflexivity]|].
  all: split; [reflexivity|]; split; [reflexivity|].
  all: split; [first [left; reflexivity | right; split; [apply Z.eqb_neq; assumption|eexists; reflexivity]]|].
  all: intros Hs; first [discriminate Hs | split; [apply Z.eqb_neq; assumption|intros j Hj; discriminate Hj]].
Qed.

Lemma delete_spec ch s :
  post (fun r s' => match r with
                    | Ok _ => exists ks, Tr s ks s' /\ deletes (co s) ch ks
                    | Raise e => e = X_Other /\ ~ spi4 ch /\ Sil0 s s'
                    | Stuck => True
                    end) (delete_child_sa ch s).
Proof.
  pose proof (Tr_refl s) as Hc0.
  unfold delete_child_sa.
  repeat first [step_spi | step_verdict | step]; try trivial.
  - eexists. split; [eassumption|]. cbn [app]. do 2 eexists. reflexivity.
  - split; [reflexivity|]. split; [|apply Tr_nil_Sil0; assumption].
    unfold spi4. apply Nat.eqb_neq. assumption.
Qed.
(** the peer's SPI is not four bytes long: TypeError before any netlink request is built - the state is literally
    unchanged, no tape element was consumed *)
Theorem delete_child_sa_bad_spi ch s :
  length (c_out ch) <> 4%nat -> delete_child_sa ch s = (Raise X_Other, s).
Proof.
  intros Hne. apply Nat.eqb_neq in Hne. unfold delete_child_sa, bind, getc. cbn. rewrite Hne. reflexivity.
Qed.
Lemma delete_spec2 ch s :
  post (fun r s' => match r with
                    | Ok _ => spi4 ch /\ exists ks, Tr s ks s' /\ deletes (co s) ch ks
                    | Raise e => e = X_Other /\ ~ spi4 ch /\ Sil0 s s'
                    | Stuck => True
                    end) (delete_child_sa ch s).
Proof.
  pose proof (delete_spec ch s) as H. unfold post in *.
  destruct (Nat.eq_dec (length (c_out ch)) 4) as [Heq|Hne].
  - destruct (fst (delete_child_sa ch s)) as [[]|e|]; [split; [exact Heq|exact H]|exact H|exact H].
  - rewrite (delete_child_sa_bad_spi ch s Hne) in *. exact H.
Qed.
Lemma delete_spec_spi4 ch s :
  spi4 ch ->
  post (fun r s' => match r with
                    | Ok _ => exists ks, Tr s ks s' /\ deletes (co s) ch ks
                    | Raise e => False
                    | Stuck => True
                    end) (delete_child_sa ch s).
Proof.
  intros H4. pose proof (delete_spec ch s) as H. unfold post in *.
  destruct (fst (delete_child_sa ch s)) as [[]|e|]; [exact H|destruct H as (_ & H & _); exact (H H4)|exact H].
Qed.

(* ------------------------------------------------------------------------------------------------ *)
(** * Silent computations that may change the state of the IKE_SA *)

Definition closing (z : Z) : bool :=
  (z =? ST_DEL_AFTER_REKEY_IKE_SA_REQ_SENT) || (z =? ST_REKEYED) || (z =? ST_DELETED).

Definition Sil1 (s s' : isa) : Prop :=
  kops s' = kops s /\ children (co s') = children (co s) /\ my_addr (co s') = my_addr (co s)
  /\ peer_addr (co s') = peer_addr (co s) /\ nsame (new_sa s) (new_sa s').
(** ... and a closing state (REKEYED, DEL_AFTER_REKEY_IKE_SA_REQ_SENT, DELETED) is only left for a closing state *)
Definition SilA (s s' : isa) : Prop :=
  Sil1 s s' /\ (closing (st (co s)) = true -> closing (st (co s')) = true).

Lemma Sil1_refl s : Sil1 s s.
Proof. unfold Sil1. repeat split; auto using nsame_refl. Qed.
Lemma Sil1_trans a b c : Sil1 a b -> Sil1 b c -> Sil1 a c.
Proof.
  unfold Sil1. intros (A1 & A2 & A3 & A4 & A5) (B1 & B2 & B3 & B4 & B5).
  repeat split; try congruence. eapply nsame_trans; eassumption.
Qed.
Lemma Sil0_Sil1 s s' : Sil0 s s' -> Sil1 s s'.
Proof. intros (A1 & A2 & A3 & A4 & A5 & A6). unfold Sil1. auto. Qed.
Lemma SilA_refl s : SilA s s.
Proof. split; [apply Sil1_refl|auto]. Qed.
Lemma SilA_trans a b c : SilA a b -> SilA b c -> SilA a c.
Proof. intros [A1 A2] [B1 B2]. split; [eapply Sil1_trans; eassumption|auto]. Qed.
Lemma Sil0_SilA s s' : Sil0 s s' -> SilA s s'.
Proof.
  intros H. split; [apply Sil0_Sil1; exact H|]. destruct H as (_ & _ & _ & _ & A & _). rewrite A. auto.
Qed.

Definition sil1 {A} (m : H A) : Prop := forall s, Sil1 s (snd (m s)).
Definition sila {A} (m : H A) : Prop := forall s, SilA s (snd (m s)).
Lemma sil_sil1 A (m : H A) : sil m -> sil1 m.
Proof. intros H s. apply Sil0_Sil1. apply H. Qed.
Lemma sil_sila A (m : H A) : sil m -> sila m.
Proof. intros H s. apply Sil0_SilA. apply H. Qed.
Lemma sila_sil1 A (m : H A) : sila m -> sil1 m.
Proof. intros H s. apply H. Qed.
Lemma sil1_bind A B (m : H A) (f : A -> H B) : sil1 m -> (forall a, sil1 (f a)) -> sil1 (bind m f).
Proof.
  intros Hm Hf s. unfold bind. specialize (Hm s). destruct (m s) as [[a|e|] s1]; cbn in *; try exact Hm.
  eapply Sil1_trans; [exact Hm|apply Hf].
Qed.
Lemma sila_bind A B (m : H A) (f : A -> H B) : sila m -> (forall a, sila (f a)) -> sila (bind m f).
Proof.
  intros Hm Hf s. unfold bind. specialize (Hm s). destruct (m s) as [[a|e|] s1]; cbn in *; try exact Hm.
  eapply SilA_trans; [exact Hm|apply Hf].
Qed.
Lemma sil1_try_catch A (m : H A) h : sil1 m -> (forall e k, h e = Some k -> sil1 k) -> sil1 (try_catch m h).
Proof.
  intros Hm Hh s. unfold try_catch. specialize (Hm s). destruct (m s) as [[a|e|] s1]; cbn in *; try exact Hm.
  destruct (h e) as [k|] eqn:Ek; cbn; [|exact Hm].
  eapply Sil1_trans; [exact Hm|eapply Hh; exact Ek].
Qed.
Definition keeps1 (f : core -> core) : Prop :=
  forall c, children (f c) = children c /\ my_addr (f c) = my_addr c /\ peer_addr (f c) = peer_addr c.
Lemma sil1_modc f : keeps1 f -> sil1 (modc f).
Proof.
  intros Hf s. destruct (Hf (co s)) as (A1 & A2 & A3).
  unfold Sil1; cbn. repeat split; auto using nsame_refl.
Qed.
Lemma sil1_set_state z : sil1 (set_state z).
Proof. apply sil1_modc. intros c. cbn. auto. Qed.

Create HintDb sil1 discriminated.
Create HintDb sila discriminated.
#[export] Hint Resolve sil1_set_state : sil1.
Ltac sil1_step :=
  lazymatch goal with
  | |- sil1 (bind _ _) => apply sil1_bind; [|intros ?]
  | |- sil1 (try_catch _ _) => apply sil1_try_catch; [|let e := fresh "e" in let k := fresh "k" in let Hk := fresh "Hk" in
                                                        intros e k Hk; destruct e; cbn in Hk;
                                                        try discriminate Hk;
                                                        try (injection Hk as <-)]
  | |- sil1 (modc _) => apply sil1_modc; let c := fresh "c" in intros c; cbn; repeat split; reflexivity
  | |- sil1 (if ?b then _ else _) => destruct b
  | |- sil1 (match ?x with _ => _ end) => destruct x
  | |- sil1 _ => first [ solve [eauto with sil1] | apply sila_sil1; solve [eauto with sila] | apply sil_sil1; sil_tac; fail ]
  end.
Ltac sil1_tac := repeat sil1_step.

Ltac sila_step :=
  lazymatch goal with
  | |- sila (bind _ _) => apply sila_bind; [|intros ?]
  | |- sila (if ?b then _ else _) => destruct b
  | |- sila (match ?x with _ => _ end) => destruct x
  | |- sila _ => first [ solve [eauto with sila] | apply sil_sila; sil_tac; fail ]
  end.
Ltac sila_tac := repeat sila_step.

(** a computation guarded by a state test: the closing clause only has to be shown for the admitted states *)
Lemma sila_guard A (g : H unit) (l : list Z) (m : H A) :
  (forall s, g s = (if memZ (st (co s)) l then (Ok tt, s) else (fst (g s), s)) /\ (memZ (st (co s)) l = false -> fst (g s) <> Ok tt)) ->
  sil1 m ->
  (forall s, memZ (st (co s)) l = true -> closing (st (co s)) = true -> closing (st (co (snd (m s)))) = true) ->
  sila (g ;;; m).
Proof.
  intros Hg Hm Hc s. unfold bind. destruct (Hg s) as [Hg1 Hg2].
  destruct (memZ (st (co s)) l) eqn:El.
  - rewrite Hg1. split; [apply Hm|]. apply Hc. exact El.
  - specialize (Hg2 eq_refl). rewrite Hg1 in *. cbn in Hg2.
    destruct (fst (g s)) as [[]| |]; cbn; try apply SilA_refl. exfalso. apply Hg2. reflexivity.
Qed.
Lemma guard_check l :
  forall s, check_in_states l s = (if memZ (st (co s)) l then (Ok tt, s) else (fst (check_in_states l s), s))
            /\ (memZ (st (co s)) l = false -> fst (check_in_states l s) <> Ok tt).
Proof.
  intros s. unfold check_in_states, bind, getc. cbn. destruct (memZ (st (co s)) l); cbn; split; auto; discriminate.
Qed.
Lemma guard_assert l :
  forall s, assert_state l s = (if memZ (st (co s)) l then (Ok tt, s) else (fst (assert_state l s), s))
            /\ (memZ (st (co s)) l = false -> fst (assert_state l s) <> Ok tt).
Proof.
  intros s. unfold assert_state, bind, getc. cbn. destruct (memZ (st (co s)) l); cbn; split; auto; discriminate.
Qed.
(** admitted states none of which is closing *)
Lemma sila_check_open A l (m : H A) :
  forallb (fun z => negb (closing z)) l = true -> sil1 m -> sila (check_in_states l ;;; m).
Proof.
  intros Hl Hm. apply (sila_guard _ _ l m (guard_check l) Hm). intros s Hin Hcl. exfalso.
  unfold memZ in Hin. apply existsb_exists in Hin. destruct Hin as (z & Hz & Ez). apply Z.eqb_eq in Ez. subst z.
  rewrite forallb_forall in Hl. specialize (Hl _ Hz). rewrite Hcl in Hl. discriminate Hl.
Qed.
Lemma sila_assert_open A l (m : H A) :
  forallb (fun z => negb (closing z)) l = true -> sil1 m -> sila (assert_state l ;;; m).
Proof.
  intros Hl Hm. apply (sila_guard _ _ l m (guard_assert l) Hm). intros s Hin Hcl. exfalso.
  unfold memZ in Hin. apply existsb_exists in Hin. destruct Hin as (z & Hz & Ez). apply Z.eqb_eq in Ez. subst z.
  rewrite forallb_forall in Hl. specialize (Hl _ Hz). rewrite Hcl in Hl. discriminate Hl.
Qed.

Section Generators.
  Variable E : env.

  Lemma sila_gen_delete_child ch : sila (generate_delete_child_sa_request ch).
  Proof. unfold generate_delete_child_sa_request. apply sila_assert_open; [reflexivity|]. sil1_tac. Qed.
  Lemma sila_gen_create_child ch rk : sila (generate_create_child_sa_request ch rk).
  Proof. unfold generate_create_child_sa_request. apply sila_assert_open; [reflexivity|]. sil1_tac. Qed.
  Lemma sila_gen_dpd : sila generate_dpd_request.
  Proof. unfold generate_dpd_request. apply sila_assert_open; [reflexivity|]. sil1_tac. Qed.
  Lemma sila_gen_init ch : sila (generate_ike_sa_init_request ch).
  Proof. unfold generate_ike_sa_init_request. apply sila_assert_open; [reflexivity|]. sil1_tac. Qed.
  Lemma sila_gen_auth : sila (generate_ike_auth_request E).
  Proof. unfold generate_ike_auth_request. apply sila_assert_open; [reflexivity|]. sil1_tac. Qed.
  Lemma sila_gen_delete_ike : sila generate_delete_ike_sa_request.
  Proof.
    unfold generate_delete_ike_sa_request.
    apply (sila_guard _ _ _ _ (guard_assert _)); [sil1_tac|].
    intros s Hin Hcl. cbn. unfold closing in *. cbn in Hin. unfold memZ in Hin. cbn in Hin.
    destruct (st (co s) =? ST_ESTABLISHED) eqn:E1; cbn; [|reflexivity].
    apply Z.eqb_eq in E1. rewrite E1 in Hcl. discriminate Hcl.
  Qed.
End Generators.
#[export] Hint Resolve sila_gen_delete_child sila_gen_create_child sila_gen_dpd sila_gen_init sila_gen_auth
  sila_gen_delete_ike : sila.

(* ------------------------------------------------------------------------------------------------ *)
(** * D. Atomic steps of a handler run *)

(** what the non-silent atomic steps leave alone: addresses, state, successor *)
Definition Rest (s s' : isa) : Prop :=
  my_addr (co s') = my_addr (co s) /\ peer_addr (co s') = peer_addr (co s) /\ st (co s') = st (co s)
  /\ nsame (new_sa s) (new_sa s').

(** a CHILD_SA was installed and is tracked *)
Definition Added (s s' : isa) (ch : child) : Prop :=
  (exists ks, kops s' = kops s ++ ks /\ installs (co s) ch ks) /\ children (co s') = children (co s) ++ [ch] /\ Rest s s'.
(** the kernel refused; nothing is tracked (responder) *)
Definition Refused (s s' : isa) (ch : child) : Prop :=
  (exists ks, kops s' = kops s ++ ks /\ refusal (co s) ch ks) /\ children (co s') = children (co s) /\ Rest s s'.
(** a CHILD_SA was deleted and is no longer tracked *)
Definition Deleted (s s' : isa) (ch : child) : Prop :=
  (exists ks, kops s' = kops s ++ ks /\ deletes (co s) ch ks) /\ child_in ch (children (co s)) = true
  /\ children (co s') = remove_child (children (co s)) ch /\ Rest s s'.
(** a successor IKE_SA was created (no CHILD_SAs yet, same addresses) *)
Definition Succ (s s' : isa) : Prop :=
  kops s' = kops s /\ children (co s') = children (co s) /\ my_addr (co s') = my_addr (co s)
  /\ peer_addr (co s') = peer_addr (co s) /\ st (co s') = st (co s) /\ closing (st (co s)) = false
  /\ exists n, new_sa s' = Some n /\ children n = [] /\ my_addr n = my_addr (co s) /\ peer_addr n = peer_addr (co s).
(** the CHILD_SAs were handed to the successor *)
Definition Handed (s s' : isa) : Prop :=
  kops s' = kops s /\ my_addr (co s') = my_addr (co s) /\ peer_addr (co s') = peer_addr (co s)
  /\ closing (st (co s)) = false /\ closing (st (co s')) = true /\ children (co s') = []
  /\ exists n n', new_sa s = Some n /\ new_sa s' = Some n' /\ children n' = children (co s)
                  /\ my_addr n' = my_addr n /\ peer_addr n' = peer_addr n.

Inductive Atom (s s' : isa) : Prop :=
| A_sil : SilA s s' -> Atom s s'
| A_succ : Succ s s' -> Atom s s'
| A_hand : Handed s s' -> Atom s s'
| A_add ch : Added s s' ch -> Atom s s'
| A_ref ch : Refused s s' ch -> Atom s s'
| A_del ch : Deleted s s' ch -> Atom s s'.

Inductive Trans : isa -> isa -> Prop :=
| T_refl s : Trans s s
| T_step s a b : Trans s a -> Atom a b -> Trans s b.
Lemma Trans_trans a b c : Trans a b -> Trans b c -> Trans a c.
Proof. intros H1 H2. induction H2; [exact H1|]. eapply T_step; [apply IHTrans; exact H1|eassumption]. Qed.
Lemma Trans_atom a b : Atom a b -> Trans a b.
Proof. intros H. eapply T_step; [apply T_refl|exact H]. Qed.
Lemma Trans_sil0 a b : Sil0 a b -> Trans a b.
Proof. intros H. apply Trans_atom. apply A_sil. apply Sil0_SilA. exact H. Qed.
Lemma Trans_sila a b : SilA a b -> Trans a b.
Proof. intros H. apply Trans_atom. apply A_sil. exact H. Qed.

(** the outcome of an entry point *)
Definition Shape {A} (s : isa) (r : res A) (s' : isa) : Prop := r = Stuck \/ Trans s s'.

Lemma Tr_trans a k1 b k2 c : Tr a k1 b -> Tr b k2 c -> Tr a (k1 ++ k2) c.
Proof.
  intros [A1 A2] [B1 B2]. split; [rewrite B1, A1; symmetry; apply app_assoc|eapply SilK_trans; eassumption].
Qed.
Lemma installs_keys c c' ch ch' ks :
  kout c' ch' = kout c ch -> kin c' ch' = kin c ch -> installs c ch ks -> installs c' ch' ks.
Proof.
  intros H1 H2 (a & b & Ha & Hb & Hk & Hl). exists a, b. rewrite H1, H2. repeat split; try assumption.
  unfold kout in H1. injection H1 as _ _ H1. unfold spi4 in *. rewrite H1. exact Hl.
Qed.
Lemma refusal_keys c c' ch ch' ks : kout c' ch' = kout c ch -> refusal c ch ks -> refusal c' ch' ks.
Proof.
  unfold refusal. intros Hk. rewrite Hk. unfold kout in Hk. injection Hk as -> -> ->. auto.
Qed.
Lemma deletes_keys c c' ch ch' ks :
  kout c' ch' = kout c ch -> kin c' ch' = kin c ch -> deletes c ch ks -> deletes c' ch' ks.
Proof.
  unfold deletes, kout, kin. intros H1 H2. injection H1 as -> -> ->. injection H2 as -> _ ->. auto.
Qed.
Lemma keys_addr c c' ch :
  my_addr c' = my_addr c -> peer_addr c' = peer_addr c -> kout c' ch = kout c ch /\ kin c' ch = kin c ch.
Proof. unfold kout, kin. intros -> ->. auto. Qed.
Lemma SilK_Rest s s' : SilK s s' -> Rest s s'.
Proof. intros (A1 & A2 & A3 & A4 & A5). unfold Rest. auto. Qed.

Lemma post_conseq A (Q1 Q : res A -> isa -> Prop) x : post Q1 x -> (forall r s, Q1 r s -> Q r s) -> post Q x.
Proof. unfold post. auto. Qed.

Lemma ipsec_proto_spi p x : ipsec_proto (p <| pr_spi := x |>) = ipsec_proto p.
Proof. reflexivity. Qed.

Lemma create_spec2 ch k i s :
  post (fun r s' => match r with
                    | Ok _ => exists ks, Tr s ks s' /\ installs (co s) ch ks
                    | Raise e => generic_exn e /\ exists ks, Tr s ks s' /\ refusal (co s) ch ks
                    | Stuck => True
                    end) (create_child_sa ch k i s).
Proof.
  pose proof (create_spec ch k i s) as H1. pose proof (create_raises ch k i s) as H2.
  unfold post in *. destruct (create_child_sa ch k i s) as [[a|e|] s']; cbn in *; auto.
Qed.

(** ** equality tests are reflexive *)
Lemma bytes_eqb_refl b : bytes_eqb b b = true.
Proof. unfold bytes_eqb. destruct (list_eq_dec N.eq_dec b b); [reflexivity|contradiction]. Qed.
Lemma tr_eqb_refl t : tr_eqb t t = true.
Proof.
  unfold tr_eqb. rewrite !Z.eqb_refl. cbn. destruct (tr_keylen t); cbn; [apply Z.eqb_refl|reflexivity].
Qed.
Lemma trs_subset_refl l : trs_subset l l = true.
Proof.
  unfold trs_subset. apply forallb_forall. intros x Hx. apply existsb_exists. exists x. split; [exact Hx|apply tr_eqb_refl].
Qed.
Lemma prop_eqb_refl p : prop_eqb p p = true.
Proof. unfold prop_eqb. rewrite Z.eqb_refl, trs_subset_refl. reflexivity. Qed.
Lemma ts_eqb_refl t : ts_eqb t t = true.
Proof. unfold ts_eqb. rewrite !Z.eqb_refl. reflexivity. Qed.
Lemma tsl_eqb_refl l : tsl_eqb l l = true.
Proof. induction l as [|x r IH]; cbn; [reflexivity|]. rewrite ts_eqb_refl, IH. reflexivity. Qed.
Lemma child_eqb_refl c : child_eqb c c = true.
Proof.
  unfold child_eqb. rewrite !bytes_eqb_refl, !prop_eqb_refl, !tsl_eqb_refl, !Z.eqb_refl. reflexivity.
Qed.
Lemma find_child_in l spi ch : find_child l spi = Some ch -> child_in ch l = true.
Proof.
  unfold find_child, child_in. intros H. apply find_some in H. destruct H as [H _].
  apply existsb_exists. exists ch. split; [exact H|apply child_eqb_refl].
Qed.

Section SubHandlers.
  Variable E : env.

  (** the responder side of a CHILD_SA negotiation (IKE_AUTH and CREATE_CHILD_SA) *)
  Lemma nego_req_body_spec m s :
    post (fun r s' => match r with
                      | Stuck => True
                      | Ok _ => exists ch, Added s s' ch
                      | Raise e => Sil0 s s' \/ exists ch, Refused s s' ch
                      end) (child_nego_req_body E m s).
  Proof.
    pose proof (Tr_refl s) as Hc0.
    unfold child_nego_req_body.
    repeat step.
    all: try trivial.
    all: try (left; apply Tr_nil_Sil0; assumption).
    name_cur Hc13. eapply post_bind; [apply create_spec|]. intros r s14 Hsp. destruct r as [[]|e|]; cbv beta in Hsp; [| |trivial].
    - destruct Hsp as (ks & Hks & Hi). apply post_bind_modc. apply post_ret.
      pose proof (Tr_trans _ _ _ _ _ Hc13 Hks) as Ht. cbn [app] in Ht. destruct Ht as [Ht1 Ht2].
      destruct Hc13 as [_ (_ & B2 & B3 & _)].
      eexists. split; [|split];
        [|cbn; destruct Ht2 as (C1 & _); rewrite C1; reflexivity|apply SilK_Rest in Ht2; exact Ht2].
      exists ks. split; [exact Ht1|].
      eapply installs_keys; [| |exact Hi]; unfold kout, kin, ipsec_proto; cbn; congruence.
    - destruct Hsp as (ks & Hks & Hi).
      pose proof (Tr_trans _ _ _ _ _ Hc13 Hks) as Ht. cbn [app] in Ht. destruct Ht as [Ht1 Ht2].
      destruct Hc13 as [_ (_ & B2 & B3 & _)].
      right. match type of Hi with refusal _ ?c _ => exists c end.
      split; [|split]; [|destruct Ht2 as (C1 & _); exact C1|apply SilK_Rest in Ht2; exact Ht2].
      exists ks. split; [exact Ht1|]. eapply refusal_keys; [|exact Hi]. unfold kout. congruence.
  Qed.

  Definition RespStep (s s' : isa) : Prop :=
    Sil0 s s' \/ (exists ch, Added s s' ch) \/ (exists ch, Refused s s' ch).

  Lemma nego_req_spec m s : post (fun r s' => r = Stuck \/ RespStep s s') (child_nego_req E m s).
  Proof.
    unfold child_nego_req. eapply post_try_catch; [apply nego_req_body_spec|].
    intros r s1 H. destruct r as [a|e|]; cbv beta in *.
    - right. right. left. exact H.
    - assert (Hr : RespStep s s1) by (destruct H as [H|H]; [left; exact H|right; right; exact H]).
      destruct e; cbn; try (apply post_ret); right; exact Hr.
    - left. reflexivity.
  Qed.
End SubHandlers.

Section SubHandlers2.
  Variable E : env.

  (** the initiator side of a CHILD_SA negotiation: install, then track (as the responder) *)
  Lemma nego_res_spec m s :
    post (fun r s' => match r with
                      | Stuck => True
                      | Ok _ => exists ch, Added s s' ch
                      | Raise e => Sil0 s s' \/ exists ch, Refused s s' ch
                      end) (child_nego_res E m s).
  Proof.
    pose proof (Tr_refl s) as Hc0.
    unfold child_nego_res.
    repeat step.
    all: try trivial.
    all: try (left; apply Tr_nil_Sil0; assumption).
    name_cur Hc13. eapply post_bind; [apply create_spec|]. intros r sk Hsp.
    destruct r as [[]|e|]; cbv beta in Hsp; [| |trivial].
    - destruct Hsp as (ks & Hks & Hi). apply post_modc.
      pose proof (Tr_trans _ _ _ _ _ Hc13 Hks) as Ht. cbn [app] in Ht. destruct Ht as [Ht1 Ht2].
      destruct Hc13 as [_ (_ & B2 & B3 & _)].
      eexists. split; [|split];
        [|cbn; destruct Ht2 as (C1 & _); rewrite C1; reflexivity|apply SilK_Rest in Ht2; exact Ht2].
      exists ks. split; [exact Ht1|].
      eapply installs_keys; [| |exact Hi]; unfold kout, kin; congruence.
    - destruct Hsp as (ks & Hks & Hi).
      pose proof (Tr_trans _ _ _ _ _ Hc13 Hks) as Ht. cbn [app] in Ht. destruct Ht as [Ht1 Ht2].
      destruct Hc13 as [_ (_ & B2 & B3 & _)].
      right. match type of Hi with refusal _ ?c _ => exists c end.
      split; [|split]; [|destruct Ht2 as (C1 & _); exact C1|apply SilK_Rest in Ht2; exact Ht2].
      exists ks. split; [exact Ht1|]. eapply refusal_keys; [|exact Hi]. unfold kout. congruence.
  Qed.

  Lemma Added_Trans s s' ch : Added s s' ch -> Trans s s'.
  Proof. intros H. apply Trans_atom. eapply A_add. exact H. Qed.
  Lemma Refused_Trans s s' ch : Refused s s' ch -> Trans s s'.
  Proof. intros H. apply Trans_atom. eapply A_ref. exact H. Qed.

  (** ... with its two except clauses *)
  Lemma res_guarded_spec m after s :
    sila after -> post (fun r s' => Shape s r s') (child_res_guarded E m after s).
  Proof.
    intros Ha. unfold child_res_guarded.
    apply (post_try_catch _ _ _ _ s
             (fun r s1 => match r with Stuck => True | _ => Trans s s1 end)).
    - eapply post_bind; [apply nego_res_spec|]. intros r s1 H. destruct r as [[]|e|]; [| |trivial].
      + destruct H as (ch & H). pose proof (Ha s1) as Hs. unfold post.
        assert (Ht : Trans s (snd (after s1))).
        { eapply Trans_trans; [eapply Added_Trans; exact H|apply Trans_sila; exact Hs]. }
        destruct (after s1) as [[a|e|] s2]; cbn in *; auto.
      + destruct H as [H|(ch & H)]; [apply Trans_sil0; exact H|eapply Refused_Trans; exact H].
    - intros r s1 H. destruct r as [a|e|].
      + right. exact H.
      + destruct e; cbn;
          lazymatch goal with
          | |- post _ (ret _ _) => apply post_ret; right; exact H
          | |- post _ (?k ?s1') =>
              assert (Hk : sila k) by (sila_tac; fail); pose proof (Hk s1') as Hs; unfold post;
              right; eapply Trans_trans; [exact H|apply Trans_sila; exact Hs]
          | |- Shape _ _ _ => right; exact H
          end.
      + left. reflexivity.
  Qed.

  (** DELETE payloads: a sequence of deletions *)
  Inductive Dels : isa -> list child -> isa -> Prop :=
  | D_nil s s' : Sil0 s s' -> Dels s [] s'
  | D_cons s s1 s' ch l : Deleted s s1 ch -> Dels s1 l s' -> Dels s (ch :: l) s'.

  Lemma Deleted_pre s0 s s1 ch : Sil0 s0 s -> Deleted s s1 ch -> Deleted s0 s1 ch.
  Proof.
    intros (A0 & A1 & A2 & A3 & A4 & A5) ((ks & B0 & B1) & B2 & B3 & (C1 & C2 & C3 & C4)).
    split; [|split; [|split]].
    - exists ks. split; [congruence|]. eapply deletes_keys; [| |exact B1]; unfold kout, kin; congruence.
    - congruence.
    - congruence.
    - unfold Rest. repeat split; try congruence. eapply nsame_trans; eassumption.
  Qed.
  Lemma Dels_pre s0 s l s' : Sil0 s0 s -> Dels s l s' -> Dels s0 l s'.
  Proof.
    intros H0 H. destruct H.
    - apply D_nil. eapply Sil0_trans; eassumption.
    - eapply D_cons; [eapply Deleted_pre; eassumption|eassumption].
  Qed.
  Lemma Dels_app s l1 s1 l2 s2 : Dels s l1 s1 -> Dels s1 l2 s2 -> Dels s (l1 ++ l2) s2.
  Proof.
    intros H1 H2. induction H1; cbn.
    - eapply Dels_pre; eassumption.
    - eapply D_cons; [eassumption|apply IHDels; exact H2].
  Qed.

  Lemma delete_spis_spec proto spis : forall acc s,
    post (fun r s' => r = Stuck \/ exists l, Dels s l s') (delete_spis proto spis acc s).
  Proof.
    induction spis as [|spi rest IH]; intros acc s; cbn [delete_spis].
    - apply post_ret. right. exists []. apply D_nil. apply Sil0_refl.
    - apply post_bind_getc.
      destruct (find_child (children (co s)) spi) as [ch|] eqn:Ef; [|apply IH].
      destruct (pr_proto (c_prop ch) =? proto); [|apply IH].
      eapply post_bind; [apply delete_spec|]. intros r s1 H. destruct r as [[]|e|]; [| |left; reflexivity].
      2:{ destruct H as (_ & _ & H). right. exists []. apply D_nil. exact H. }
      destruct H as (ks & [H1 H2] & Hd).
      apply post_bind_modc.
      match goal with |- post _ (_ ?S0) => set (S := S0) end.
      assert (Hdel : Deleted s S ch).
      { subst S. split; [|split; [|split]]; cbn.
        - exists ks. auto.
        - eapply find_child_in. exact Ef.
        - destruct H2 as (-> & _). reflexivity.
        - destruct H2 as (C1 & C2 & C3 & C4 & C5). unfold Rest; cbn; auto. }
      clearbody S. eapply post_conseq; [apply IH|]. cbv beta. intros r s' [->|(l & Hl)]; [left; reflexivity|].
      right. exists (ch :: l). eapply D_cons; eassumption.
  Qed.

  Lemma delete_loop_spec dels : forall acc s,
    post (fun r s' => r = Stuck \/ exists l s1, Dels s l s1 /\ SilA s1 s') (delete_loop dels acc s).
  Proof.
    induction dels as [|d rest IH]; intros acc s; cbn [delete_loop].
    - apply post_ret. right. exists [], s. split; [apply D_nil; apply Sil0_refl|apply SilA_refl].
    - destruct d; try apply IH.
      destruct (proto =? PROTO_IKE).
      { unfold post. cbn. right. exists [], s. split; [apply D_nil; apply Sil0_refl|].
        split; [unfold Sil1; cbn; repeat split; auto using nsame_refl|reflexivity]. }
      destruct ((proto =? PROTO_AH) || (proto =? PROTO_ESP)); [|apply IH].
      eapply post_bind; [apply delete_spis_spec|]. cbv beta.
      intros r s1 H. destruct r as [acc'|e|]; [| |left; reflexivity].
      + destruct H as [H|(l1 & H1)]; [discriminate H|].
        eapply post_conseq; [apply IH|]. cbv beta. intros r s' [->|(l2 & s2 & Hl & Hs)]; [left; reflexivity|].
        right. exists (l1 ++ l2), s2. split; [eapply Dels_app; eassumption|exact Hs].
      + destruct H as [H|(l1 & H1)]; [discriminate H|]. right. exists l1, s1. split; [exact H1|apply SilA_refl].
  Qed.

  Lemma Dels_Trans s l s' : Dels s l s' -> Trans s s'.
  Proof.
    intros H. induction H.
    - apply Trans_sil0. assumption.
    - eapply Trans_trans; [apply Trans_atom; eapply A_del; eassumption|assumption].
  Qed.
End SubHandlers2.

(* ------------------------------------------------------------------------------------------------ *)
(** * E. Entry points *)

Lemma post_bind_check l B (f : unit -> H B) (Q : res B -> isa -> Prop) s :
  (memZ (st (co s)) l = true -> post Q (f tt s)) -> (memZ (st (co s)) l = false -> Q (Raise X_StateError) s) ->
  post Q (bind (check_in_states l) f s).
Proof. unfold check_in_states, bind, getc, post. cbn. destruct (memZ (st (co s)) l); cbn; auto. Qed.
Lemma post_bind_assert l B (f : unit -> H B) (Q : res B -> isa -> Prop) s :
  (memZ (st (co s)) l = true -> post Q (f tt s)) -> (memZ (st (co s)) l = false -> Q (Raise X_Other) s) ->
  post Q (bind (assert_state l) f s).
Proof. unfold assert_state, bind, getc, post. cbn. destruct (memZ (st (co s)) l); cbn; auto. Qed.
Lemma memZ_open z l : memZ z l = true -> forallb (fun z => negb (closing z)) l = true -> closing z = false.
Proof.
  intros Hin Hl. unfold memZ in Hin. apply existsb_exists in Hin. destruct Hin as (x & Hx & Ex).
  apply Z.eqb_eq in Ex. subst x. rewrite forallb_forall in Hl. specialize (Hl _ Hx).
  destruct (closing z); [discriminate Hl|reflexivity].
Qed.
Lemma SilA_set_state s z :
  closing (st (co s)) = false \/ closing z = true -> SilA s (s <| co := (co s) <| st := z |> |>).
Proof.
  intros H. split; [unfold Sil1; cbn; repeat split; auto using nsame_refl|]. cbn.
  destruct H as [H|H]; [rewrite H; discriminate|auto].
Qed.
Lemma sila_shape A (m : H A) s : sila m -> post (fun r s' => Shape s r s') (m s).
Proof. intros H. unfold post. right. apply Trans_sila. apply H. Qed.


Lemma RespStep_atom s s' : RespStep s s' -> Atom s s' /\ st (co s') = st (co s).
Proof.
  intros [H|[(ch & H)|(ch & H)]].
  - split; [apply A_sil; apply Sil0_SilA; exact H|]. destruct H as (_ & _ & _ & _ & A & _). exact A.
  - split; [eapply A_add; exact H|]. destruct H as (_ & _ & (_ & _ & A & _)). exact A.
  - split; [eapply A_ref; exact H|]. destruct H as (_ & _ & (_ & _ & A & _)). exact A.
Qed.
Lemma Tr_st a ks s : Tr a ks s -> st (co s) = st (co a).
Proof. intros [_ (_ & _ & _ & A & _)]. exact A. Qed.
Lemma Trans_Tr s0 a s : Trans s0 a -> Tr a [] s -> Trans s0 s.
Proof. intros H1 H2. eapply Trans_trans; [exact H1|apply Trans_sil0; apply Tr_nil_Sil0; exact H2]. Qed.

(** leaves of a symbolic run: [HT : Trans s0 a] and [Hc : Tr a [] s] in the context *)
Ltac leaf :=
  lazymatch goal with
  | |- Shape _ Stuck _ => left; reflexivity
  | |- Shape ?s0 _ ?s =>
      right;
      lazymatch goal with
      | HT : Trans s0 ?a, Hc : Tr ?a [] s |- _ => exact (Trans_Tr _ _ _ HT Hc)
      end
  | |- True => trivial
  end.
Lemma post_sil1_open A (m : H A) (Q : res A -> isa -> Prop) s :
  sil1 m -> closing (st (co s)) = false -> (forall r s1, SilA s s1 -> Q r s1) -> post Q (m s).
Proof. intros Hm Hcl H. unfold post. apply H. split; [apply Hm|]. rewrite Hcl. discriminate. Qed.
Lemma post_sila A (m : H A) (Q : res A -> isa -> Prop) s :
  sila m -> (forall r s1, SilA s s1 -> Q r s1) -> post Q (m s).
Proof. intros Hm H. unfold post. apply H. apply Hm. Qed.
Lemma post_bind_getw_true B (f : core -> H B) (Q : res B -> isa -> Prop) s :
  (forall n, new_sa s = Some n -> post Q (f n s)) -> (new_sa s = None -> Q (Raise X_Other) s) ->
  post Q (bind (getw true) f s).
Proof.
  intros H1 H2. unfold getw, bind, get, of_opt, post. cbn.
  destruct (new_sa s) as [n|]; cbn; [apply (H1 n eq_refl)|apply (H2 eq_refl)].
Qed.
Ltac cur_trans H := lazymatch goal with HT : Trans ?s0 ?a, Hc : Tr ?a [] ?s |- _ => pose proof (Trans_Tr _ _ _ HT Hc) as H end.
Ltac cur_st H := lazymatch goal with Hc : Tr ?a _ ?s |- _ => pose proof (Tr_st _ _ _ Hc) as H end.
Ltac clear_cur := lazymatch goal with HT : Trans _ ?a, Hc : Tr ?a _ _ |- _ => clear Hc HT end.
Section Entry.
  Variable E : env.

  Lemma init_request_shape m s : post (fun r s' => Shape s r s') (process_ike_sa_init_request E m s).
  Proof.
    apply sila_shape. unfold process_ike_sa_init_request. apply sila_check_open; [reflexivity|]. sil1_tac.
  Qed.
  Lemma init_response_shape m s : post (fun r s' => Shape s r s') (process_ike_sa_init_response E m s).
  Proof.
    apply sila_shape. unfold process_ike_sa_init_response. apply sila_check_open; [reflexivity|]. sil1_tac.
  Qed.
  Lemma acquire_sila a b i : sila (process_acquire a b i).
  Proof. unfold process_acquire. sila_tac. Qed.
  Lemma expire_sila spi h : sila (process_expire spi h).
  Proof. unfold process_expire. sila_tac. Qed.

  Lemma auth_request_shape m s : post (fun r s' => Shape s r s') (process_ike_auth_request E m s).
  Proof.
    pose proof (T_refl s) as HT. pose proof (Tr_refl s) as Hc0.
    unfold process_ike_auth_request.
    apply post_bind_check; intros Hmem; [|leaf].
    apply memZ_open in Hmem; [|reflexivity].
    repeat step; try leaf.
    cur_trans HT1. cur_st Hst1. clear_cur.
    eapply post_bind; [apply nego_req_spec|]. intros r s9 H. destruct r as [rps|e|]; [| |leaf].
    2:{ destruct H as [H|H]; [discriminate H|]. apply RespStep_atom in H. destruct H as [H _].
        right. eapply T_step; [exact HT1|exact H]. }
    destruct H as [H|H]; [discriminate H|]. apply RespStep_atom in H. destruct H as [Ha Hst].
    assert (HT : Trans s s9) by (eapply T_step; [exact HT1|exact Ha]). clear HT1.
    pose proof (Tr_refl s9) as Hc0.
    repeat step; try leaf.
    unfold set_state. apply post_bind_modc. apply post_ret.
    cur_trans HT2. cur_st Hst2.
    right. eapply T_step; [exact HT2|]. apply A_sil. apply SilA_set_state.
    left. congruence.
  Qed.

  Lemma new_core_spec i p c s :
    post (fun r s' => Sil0 s s' /\ forall nc, r = Ok nc ->
                      children nc = [] /\ my_addr nc = my_addr c /\ peer_addr nc = peer_addr c)
         (new_core i p c s).
  Proof.
    unfold post. split; [apply sil_new_core|].
    intros nc. cbv [new_core draw_bytes draw_num bind pop get ret stuck].
    destruct (tape s) as [|d1 r]; cbn; [intros H; discriminate H|].
    destruct d1; cbn; try (intros H; discriminate H).
    destruct r as [|d2 r']; cbn; [intros H; discriminate H|].
    destruct d2; cbn; try (intros H; discriminate H).
    intros H. injection H as <-. cbn. auto.
  Qed.

  Lemma ccsa_request_shape m s : post (fun r s' => Shape s r s') (process_create_child_sa_request E m s).
  Proof.
    pose proof (T_refl s) as HT. pose proof (Tr_refl s) as Hc0.
    unfold process_create_child_sa_request.
    apply post_bind_check; intros Hmem; [|leaf].
    do 2 (step; try leaf).
    destruct (pr_proto a0 =? PROTO_IKE).
    2:{ cur_trans HT1. eapply post_conseq; [apply nego_req_spec|]. cbv beta.
        intros r s' [->|H]; [left; reflexivity|]. apply RespStep_atom in H. destruct H as [H _].
        right. eapply T_step; [exact HT1|exact H]. }
    apply post_bind_getc.
    destruct (ike_rekey_while_busy (st (co s1))) eqn:Ebusy; [apply post_ret; leaf|].
    cur_trans HT1. cur_st Hst1. name_cur Hc1.
    eapply post_bind; [apply new_core_spec|]. intros r s2 [Hs2 Hnc]. destruct r as [nc|e|].
    2:{ chain Hs2. leaf. } 2:{ leaf. }
    specialize (Hnc nc eq_refl). destruct Hnc as (N1 & N2 & N3).
    apply post_bind_modify.
    match goal with |- post _ (_ ?S0) => set (S := S0) end.
    assert (Hcl : closing (st (co s1)) = false).
    { unfold ike_rekey_while_busy in Ebusy. apply negb_false_iff in Ebusy. apply Z.eqb_eq in Ebusy.
      rewrite Ebusy. reflexivity. }
    assert (Hsucc : Succ s1 S).
    { destruct Hs2 as (A0 & A1 & A2 & A3 & A4 & A5). subst S. unfold Succ; cbn.
      repeat split; try assumption. exists nc. repeat split; try assumption; congruence. }
    assert (HT2 : Trans s S) by (eapply T_step; [exact HT1|apply A_succ; exact Hsucc]).
    assert (HnS : new_sa S = Some nc) by reflexivity.
    assert (HstS : st (co S) = st (co s1)) by (destruct Hsucc as (_ & _ & _ & _ & A & _); exact A).
    clear Hc1 HT HT1 Hs2. clearbody S. pose proof (Tr_refl S) as Hc0.
    do 2 (step; try leaf).
    apply post_bind_modify. apply post_ret.
    cur_trans HT3. cur_st Hst3. name_cur Hc3.
    right. eapply T_step; [exact HT3|]. apply A_hand.
    destruct Hc3 as [_ (B1 & B2 & B3 & B4 & B5)]. rewrite HnS in B5.
    match goal with |- Handed ?x _ => destruct (new_sa x) as [n|] eqn:En; [|contradiction] end.
    destruct B5 as (C1 & C2 & C3).
    unfold Handed; cbn. rewrite En. cbn.
    repeat split; try reflexivity; try congruence.
    exists n. eexists. repeat split; reflexivity.
  Qed.

  Lemma delete_and_untrack ch s :
    child_in ch (children (co s)) = true ->
    post (fun r s' => match r with Ok _ => Deleted s s' ch | Raise _ => Sil0 s s' | Stuck => True end)
         ((delete_child_sa ch ;;; modc (fun c => c <| children := remove_child (children c) ch |>)) s).
  Proof.
    intros Hin. eapply post_bind; [apply delete_spec|]. intros r s1 H.
    destruct r as [[]|e|]; [|destruct H as (_ & _ & H); exact H|trivial].
    destruct H as (ks & [H1 H2] & Hd). apply post_modc.
    split; [|split; [|split]]; cbn.
    - exists ks. auto.
    - exact Hin.
    - destruct H2 as (-> & _). reflexivity.
    - destruct H2 as (C1 & C2 & C3 & C4 & C5). unfold Rest; cbn; auto.
  Qed.

  Lemma info_request_shape m s : post (fun r s' => Shape s r s') (process_informational_request m s).
  Proof.
    unfold process_informational_request.
    apply post_bind_check; intros Hmem; [|right; apply T_refl].
    eapply post_conseq; [apply delete_loop_spec|]. cbv beta.
    intros r s' [->|(l & s1 & Hd & Hs)]; [left; reflexivity|].
    right. eapply Trans_trans; [eapply Dels_Trans; exact Hd|apply Trans_sila; exact Hs].
  Qed.

  Lemma info_response_shape m s : post (fun r s' => Shape s r s') (process_informational_response m s).
  Proof.
    pose proof (T_refl s) as HT. pose proof (Tr_refl s) as Hc0.
    unfold process_informational_response.
    apply post_bind_check; intros Hmem; [|leaf].
    step; try leaf. apply post_bind_getc.
    cur_trans HT1. cur_st Hst1. clear_cur.
    destruct (st (co s0) =? ST_DEL_CHILD_REQ_SENT) eqn:E14.
    { apply Z.eqb_eq in E14.
      assert (Hopen : closing (st (co s0)) = false) by (rewrite E14; reflexivity).
      destruct (deleting (co s0)) as [d|].
      2:{ unfold set_state. apply post_bind_modc. apply post_ret.
          right. eapply T_step; [exact HT1|]. apply A_sil. apply SilA_set_state. left. exact Hopen. }
      destruct (child_in d (children (co s0))) eqn:Ein.
      2:{ apply post_bind_ret. unfold set_state. apply post_bind_modc. apply post_ret.
          right. eapply T_step; [exact HT1|]. apply A_sil. apply SilA_set_state. left. exact Hopen. }
      eapply post_bind; [apply delete_and_untrack; exact Ein|]. cbv beta.
      intros r s2 Hdel. destruct r as [[]|e|]; [| |leaf].
      2:{ right. eapply Trans_trans; [exact HT1|apply Trans_sil0; exact Hdel]. }
      unfold set_state. apply post_bind_modc. apply post_ret.
      assert (HstS : st (co s2) = st (co s0)) by (destruct Hdel as (_ & _ & _ & (_ & _ & A & _)); exact A).
      right.
      eapply T_step; [eapply T_step; [exact HT1|eapply A_del; exact Hdel]|].
      apply A_sil. apply SilA_set_state. left. congruence. }
    destruct ((st (co s0) =? ST_DEL_IKE_SA_REQ_SENT) || (st (co s0) =? ST_DEL_AFTER_REKEY_IKE_SA_REQ_SENT)).
    { unfold set_state. apply post_bind_modc. apply post_ret.
      right. eapply T_step; [exact HT1|]. apply A_sil. apply SilA_set_state. right. reflexivity. }
    destruct (st (co s0) =? ST_DPD_REQ_SENT) eqn:E17.
    { apply Z.eqb_eq in E17. unfold set_state. apply post_bind_modc. apply post_ret.
      right. eapply T_step; [exact HT1|]. apply A_sil. apply SilA_set_state. left. rewrite E17. reflexivity. }
    apply post_ret. right. exact HT1.
  Qed.

  Lemma res_guarded_none_st m s :
    fst (child_res_guarded E m (ret None) s) = Ok None ->
    st (co (snd (child_res_guarded E m (ret None) s))) = st (co s).
  Proof.
    unfold child_res_guarded, try_catch, bind.
    pose proof (nego_res_spec E m s) as H. unfold post in H.
    destruct (child_nego_res E m s) as [[[]|e|] s1]; cbn in *.
    - intros _. destruct H as (ch & _ & _ & (_ & _ & A & _)). exact A.
    - assert (Hst : st (co s1) = st (co s)).
      { destruct H as [H|(ch & _ & _ & (_ & _ & A & _))]; [|exact A]. destruct H as (_ & _ & _ & _ & A & _). exact A. }
      destruct e; cbn; try (intros H0; discriminate H0); try (intros _; exact Hst).
      all: unfold getc, of_opt; destruct (creating (co s1)) as [cr|]; cbn; try (intros H0; discriminate H0).
      all: destruct (generate_delete_child_sa_request cr s1) as [[[]|e|] s2]; cbn; intros H0; discriminate H0.
    - intros H0. discriminate H0.
  Qed.
  Lemma res_guarded_none_spec m s :
    post (fun r s' => Shape s r s' /\ (r = Ok None -> st (co s') = st (co s))) (child_res_guarded E m (ret None) s).
  Proof.
    pose proof (res_guarded_spec E m (ret None) s (sil_sila _ _ (sil_ret _ _))) as H1.
    pose proof (res_guarded_none_st m s) as H2. unfold post in *. split; assumption.
  Qed.

  Lemma auth_response_shape m s : post (fun r s' => Shape s r s') (process_ike_auth_response E m s).
  Proof.
    pose proof (T_refl s) as HT. pose proof (Tr_refl s) as Hc0.
    unfold process_ike_auth_response.
    apply post_bind_check; intros Hmem; [|leaf].
    apply memZ_open in Hmem; [|reflexivity].
    repeat step; try leaf.
    cur_trans HT1. cur_st Hst1. clear_cur.
    eapply post_bind; [apply res_guarded_none_spec|]. cbv beta. intros r s9 [Hsh Hst]. destruct r as [r|e|].
    - destruct Hsh as [Hsh|Hsh]; [discriminate Hsh|].
      assert (HT2 : Trans s s9) by (eapply Trans_trans; eassumption).
      destruct r as [x|].
      + apply post_ret. right. exact HT2.
      + unfold set_state. apply post_bind_modc. apply post_ret.
        right. eapply T_step; [exact HT2|]. apply A_sil. apply SilA_set_state.
        left. specialize (Hst eq_refl). congruence.
    - destruct Hsh as [Hsh|Hsh]; [discriminate Hsh|]. right. eapply Trans_trans; eassumption.
    - left. reflexivity.
  Qed.

  Lemma Shape_pre A s0 s (r : res A) s' : Trans s0 s -> Shape s r s' -> Shape s0 r s'.
  Proof.
    intros HT [H|H]; [left; exact H|right; eapply Trans_trans; eassumption].
  Qed.

  Lemma ccsa_response_shape m s : post (fun r s' => Shape s r s') (process_create_child_sa_response E m s).
  Proof.
    pose proof (T_refl s) as HT. pose proof (Tr_refl s) as Hc0.
    unfold process_create_child_sa_response.
    apply post_bind_check; intros Hmem; [|leaf].
    apply memZ_open in Hmem; [|reflexivity].
    step; try leaf. apply post_bind_getc.
    cur_trans HT1. cur_st Hst1.
    assert (Hopen : closing (st (co s0)) = false) by congruence.
    destruct (st (co s0) =? ST_REK_IKE_SA_REQ_SENT).
    - destruct (nonempty (get_notifies m N_INVALID_KE_PAYLOAD true)).
      { clear_cur. apply post_sil1_open; [sil1_tac|exact Hopen|].
        intros r s1 Hs. right. eapply T_step; [exact HT1|apply A_sil; exact Hs]. }
      destruct (nonempty (get_notifies m N_TEMPORARY_FAILURE true)).
      { clear_cur. apply post_sil1_open; [sil1_tac|exact Hopen|].
        intros r s1 Hs. right. eapply T_step; [exact HT1|apply A_sil; exact Hs]. }
      destruct (nonempty (get_notifies m N_NO_ADDITIONAL_SAS true)).
      { clear_cur. apply post_sil1_open; [sil1_tac|exact Hopen|].
        intros r s1 Hs. right. eapply T_step; [exact HT1|apply A_sil; exact Hs]. }
      clear_cur. pose proof (Tr_refl s0) as Hc0.
      apply post_bind_getw_true; [intros n Hn|intros _; leaf].
      repeat step; try leaf.
      apply post_bind_modify.
      cur_trans HT3. cur_st Hst3. name_cur Hc3.
      match goal with |- post _ (_ ?S0) => set (S := S0) end.
      match type of Hc3 with Tr _ _ ?x => rename x into s5 end.
      assert (Hh : Handed s5 S).
      { destruct Hc3 as [_ (B1 & B2 & B3 & B4 & B5)]. rewrite Hn in B5.
        destruct (new_sa s5) as [n5|] eqn:En; [|contradiction].
        destruct B5 as (C1 & C2 & C3).
        subst S. unfold Handed; cbn. rewrite En. cbn.
        repeat split; try reflexivity; try congruence.
        exists n5. eexists. repeat split; reflexivity. }
      assert (HT4 : Trans s S) by (eapply T_step; [exact HT3|apply A_hand; exact Hh]).
      clearbody S. clear_cur.
      apply post_sila; [sila_tac|]. intros r s6 Hs.
      right. eapply T_step; [exact HT4|apply A_sil; exact Hs].
    - destruct (nonempty (get_notifies m N_INVALID_KE_PAYLOAD true)).
      { clear_cur. apply post_sil1_open; [sil1_tac|exact Hopen|].
        intros r s1 Hs. right. eapply T_step; [exact HT1|apply A_sil; exact Hs]. }
      unfold set_state. apply post_bind_modc.
      match goal with |- post _ (_ ?S0) => set (S := S0) end.
      assert (HT2 : Trans s S).
      { eapply T_step; [exact HT1|]. apply A_sil. apply SilA_set_state. left. exact Hopen. }
      clearbody S. clear_cur.
      eapply post_conseq; [apply res_guarded_spec; sila_tac|]. cbv beta.
      intros r s' Hsh. eapply Shape_pre; eassumption.
  Qed.

  Lemma rekey_gen_spec s :
    post (fun r s' => r = Stuck \/ SilA s s' \/ exists S, Succ s S /\ SilA S s') (generate_rekey_ike_sa_request s).
  Proof.
    unfold generate_rekey_ike_sa_request.
    apply post_bind_assert; intros Hmem; [|right; left; apply SilA_refl].
    apply memZ_open in Hmem; [|reflexivity].
    apply post_bind_getc.
    eapply post_bind; [apply new_core_spec|]. intros r s2 [Hs2 Hnc]. destruct r as [nc|e|].
    2:{ right. left. apply Sil0_SilA. exact Hs2. } 2:{ left. reflexivity. }
    specialize (Hnc nc eq_refl). destruct Hnc as (N1 & N2 & N3).
    apply post_bind_modify.
    match goal with |- post _ (_ ?S0) => set (S := S0) end.
    assert (Hsucc : Succ s S).
    { destruct Hs2 as (A0 & A1 & A2 & A3 & A4 & A5). subst S. unfold Succ; cbn.
      repeat split; try assumption. exists nc. repeat split; try assumption; congruence. }
    assert (HstS : closing (st (co S)) = false).
    { destruct Hsucc as (_ & _ & _ & _ & A & _). rewrite A. exact Hmem. }
    clearbody S.
    apply post_sil1_open; [sil1_tac|exact HstS|].
    intros r s3 Hs. right. right. exists S. split; assumption.
  Qed.

  (** ** The entry points of the interface *)
  Lemma clear_flags_sil s : Sil0 s (clear_flags s).
  Proof. split; [reflexivity|]. unfold SilK; cbn. repeat split; auto using nsame_refl. Qed.

  Lemma request_handler_shape exch f m s :
    request_handler E exch = Some f -> post (fun r s' => Shape s r s') (f m s).
  Proof.
    unfold request_handler. intros H.
    destruct (exch =? EX_IKE_SA_INIT); [injection H as <-; apply init_request_shape|].
    destruct (exch =? EX_IKE_AUTH); [injection H as <-; apply auth_request_shape|].
    destruct (exch =? EX_INFORMATIONAL); [injection H as <-; apply info_request_shape|].
    destruct (exch =? EX_CREATE_CHILD_SA); [injection H as <-; apply ccsa_request_shape|discriminate H].
  Qed.
  Lemma response_handler_shape exch f m s :
    response_handler E exch = Some f -> post (fun r s' => Shape s r s') (f m s).
  Proof.
    unfold response_handler. intros H.
    destruct (exch =? EX_IKE_SA_INIT); [injection H as <-; apply init_response_shape|].
    destruct (exch =? EX_IKE_AUTH); [injection H as <-; apply auth_response_shape|].
    destruct (exch =? EX_CREATE_CHILD_SA); [injection H as <-; apply ccsa_response_shape|].
    destruct (exch =? EX_INFORMATIONAL); [injection H as <-; apply info_response_shape|discriminate H].
  Qed.

  Lemma Shape_entry A s (r : res A) s' : Shape (clear_flags s) r s' -> r <> Stuck -> Trans s s'.
  Proof.
    intros [H|H] Hns; [contradiction|].
    eapply Trans_trans; [apply Trans_sil0; apply clear_flags_sil|exact H].
  Qed.

  Lemma h_request_shape s m : st (co (fst (h_request E s m))) <> -1 -> Trans s (fst (h_request E s m)).
  Proof.
    unfold h_request. destruct (request_handler E (h_exch (p_hdr m))) as [f|] eqn:Ef; cbn.
    2:{ intros _. apply T_refl. }
    pose proof (request_handler_shape _ _ m (clear_flags s) Ef) as H. unfold post in H.
    destruct (f m (clear_flags s)) as [[ps|e|] s']; cbn in *; intros Hst.
    - apply (Shape_entry _ _ _ _ H). discriminate.
    - apply (Shape_entry _ _ _ _ H). discriminate.
    - exfalso. apply Hst. reflexivity.
  Qed.
  Lemma h_response_shape s m : st (co (fst (h_response E s m))) <> -1 -> Trans s (fst (h_response E s m)).
  Proof.
    unfold h_response. destruct (response_handler E (h_exch (p_hdr m))) as [f|] eqn:Ef; cbn.
    2:{ intros _. apply T_refl. }
    pose proof (response_handler_shape _ _ m (clear_flags s) Ef) as H. unfold post in H.
    destruct (f m (clear_flags s)) as [[[[x ps]|]|e|] s']; cbn in *; intros Hst.
    - apply (Shape_entry _ _ _ _ H). discriminate.
    - apply (Shape_entry _ _ _ _ H). discriminate.
    - apply (Shape_entry _ _ _ _ H). discriminate.
    - exfalso. apply Hst. reflexivity.
  Qed.
  Lemma h_trigger_quiet s e : SilA s (fst (h_trigger s e)) \/ st (co (fst (h_trigger s e))) = -1.
  Proof.
    unfold h_trigger.
    assert (H : SilA (clear_flags s)
                  (snd ((match e with E_acquire a b i => process_acquire a b i | E_expire spi h => process_expire spi h end)
                          (clear_flags s)))).
    { destruct e; [apply acquire_sila|apply expire_sila]. }
    destruct ((match e with E_acquire a b i => process_acquire a b i | E_expire spi h => process_expire spi h end)
                (clear_flags s)) as [[[[x ps]|]|e'|] s']; cbn in *.
    1,2,3: left; eapply SilA_trans; [apply Sil0_SilA; apply clear_flags_sil|exact H].
    right. reflexivity.
  Qed.
  Lemma lift_gen_quiet f s :
    sila f -> SilA s (fst (lift_gen f s)) \/ st (co (fst (lift_gen f s))) = -1.
  Proof.
    intros Hf. unfold lift_gen. specialize (Hf (clear_flags s)).
    destruct (f (clear_flags s)) as [[[x ps]|e|] s']; cbn in *; try (right; reflexivity).
    left. eapply SilA_trans; [apply Sil0_SilA; apply clear_flags_sil|exact Hf].
  Qed.
  Lemma Succ_pre s0 s S : Sil0 s0 s -> Succ s S -> Succ s0 S.
  Proof.
    intros (A0 & A1 & A2 & A3 & A4 & A5) (B0 & B1 & B2 & B3 & B4 & B5 & n & C0 & C1 & C2 & C3).
    unfold Succ. repeat split; try congruence. exists n. repeat split; congruence.
  Qed.
  Lemma lift_gen_rekey_quiet s :
    (SilA s (fst (lift_gen generate_rekey_ike_sa_request s))
     \/ exists S, Succ s S /\ SilA S (fst (lift_gen generate_rekey_ike_sa_request s)))
    \/ st (co (fst (lift_gen generate_rekey_ike_sa_request s))) = -1.
  Proof.
    unfold lift_gen. pose proof (rekey_gen_spec (clear_flags s)) as H. unfold post in H.
    destruct (generate_rekey_ike_sa_request (clear_flags s)) as [[[x ps]|e|] s']; cbn in *; try (right; reflexivity).
    left. destruct H as [H|[H|(S & H1 & H2)]]; [discriminate H| |].
    - left. eapply SilA_trans; [apply Sil0_SilA; apply clear_flags_sil|exact H].
    - right. exists S. split; [eapply Succ_pre; [apply clear_flags_sil|exact H1]|exact H2].
  Qed.
End Entry.

(* ------------------------------------------------------------------------------------------------ *)
(** * F. The invariant *)

Definition keys_of (c : core) (l : list child) : list key := flat_map (child_keys c) l.
Definition tracked_keys (c : core) : list key := keys_of c (children c).
Definition succ_keys (o : option core) : list key := match o with Some n => tracked_keys n | None => [] end.
Definition tracked (s : isa) : list key := tracked_keys (co s) ++ succ_keys (new_sa s).

(** the installed keys [own] of this IKE_SA (and its successor) are exactly the tracked ones, none twice, and
    disjoint from the keys [others] of the other IKE_SAs of the endpoint *)
Definition Inv (s : isa) (own others : sad) : Prop :=
  NoDup (own ++ others) /\ same_elts own (tracked s) /\ NoDup (tracked s).
(** a successor that is not registered yet has the addresses of its predecessor, and it holds CHILD_SAs only once
    the predecessor is in a closing state (REKEYED, DEL_AFTER_REKEY_IKE_SA_REQ_SENT, DELETED) *)
Definition WF (s : isa) : Prop :=
  forall n, new_sa s = Some n ->
    my_addr n = my_addr (co s) /\ peer_addr n = peer_addr (co s) /\ (children n = [] \/ closing (st (co s)) = true).

Lemma keys_of_addr c c' l : my_addr c' = my_addr c -> peer_addr c' = peer_addr c -> keys_of c' l = keys_of c l.
Proof.
  intros H1 H2. unfold keys_of. apply flat_map_ext. intros ch. unfold child_keys, kout, kin. rewrite H1, H2. reflexivity.
Qed.
Lemma keys_of_app c l1 l2 : keys_of c (l1 ++ l2) = keys_of c l1 ++ keys_of c l2.
Proof. unfold keys_of. apply flat_map_app. Qed.

Lemma nsame_succ_keys a b : nsame a b -> succ_keys b = succ_keys a.
Proof.
  destruct a as [x|], b as [y|]; cbn; try tauto. intros (A & B & C). unfold tracked_keys. rewrite A.
  apply keys_of_addr; assumption.
Qed.

Lemma sila_quiet a b : SilA a b -> WF a -> kops b = kops a /\ tracked b = tracked a /\ WF b.
Proof.
  intros [(A0 & A1 & A2 & A3 & A4) Hcl] Hwf. split; [|split].
  - exact A0.
  - unfold tracked, tracked_keys. rewrite A1.
    rewrite (keys_of_addr (co a) (co b)) by assumption. rewrite (nsame_succ_keys _ _ A4). reflexivity.
  - intros n' Hn. rewrite Hn in A4. destruct (new_sa a) as [x|] eqn:Ex; [|contradiction].
    destruct A4 as (B1 & B2 & B3). destruct (Hwf x Ex) as (C1 & C2 & C3).
    repeat split; try congruence. destruct C3 as [C3|C3]; [left; congruence|right; auto].
Qed.
Lemma succ_quiet a b : Succ a b -> WF a -> kops b = kops a /\ tracked b = tracked a /\ WF b.
Proof.
  intros (A0 & A1 & A2 & A3 & A4 & A5 & n & B0 & B1 & B2 & B3) Hwf. split; [|split].
  - exact A0.
  - unfold tracked, tracked_keys. rewrite A1, B0.
    rewrite (keys_of_addr (co a) (co b)) by assumption. cbn. unfold tracked_keys. rewrite B1. cbn.
    destruct (new_sa a) as [x|] eqn:Ex; cbn; [|reflexivity].
    destruct (Hwf x Ex) as (_ & _ & [C|C]); [|rewrite C in A5; discriminate A5].
    unfold tracked_keys. rewrite C. reflexivity.
  - intros n' Hn'. rewrite B0 in Hn'. injection Hn' as <-. repeat split; try congruence. left. exact B1.
Qed.

(** what the kernel holds, given the history of the current call *)
Section Ghost.
  Variables (own0 others : sad).
  Definition cur (s : isa) : sad := apply_kops (own0 ++ others) (kops s).
  Definition curown (s : isa) : sad := apply_kops own0 (kops s).
  Definition G (s : isa) : Prop :=
    faithful_run (own0 ++ others) (kops s) -> cur s = curown s ++ others /\ Inv s (curown s) others.

  Lemma G_same a b : kops b = kops a -> tracked b = tracked a -> G a -> G b.
  Proof. unfold G, cur, curown, Inv. intros -> ->. auto. Qed.

  Lemma sila_G a b : SilA a b -> WF a -> G a -> G b /\ WF b.
  Proof.
    intros Hs Hwf Hg. destruct (sila_quiet _ _ Hs Hwf) as (A & B & C). split; [|exact C].
    apply (G_same a b A B Hg).
  Qed.

  Lemma succ_G a b : Succ a b -> WF a -> G a -> G b /\ WF b.
  Proof.
    intros Hs Hwf Hg. destruct (succ_quiet _ _ Hs Hwf) as (A & B & C). split; [|exact C].
    apply (G_same a b A B Hg).
  Qed.

  Lemma hand_G a b : Handed a b -> WF a -> G a -> G b /\ WF b.
  Proof.
    intros (A0 & A2 & A3 & A5 & A6 & A1 & n & n' & B0 & B1 & B2 & B3 & B4) Hwf Hg.
    destruct (Hwf n B0) as (C1 & C2 & C3).
    destruct C3 as [C3|C3]; [|rewrite C3 in A5; discriminate A5].
    split.
    - apply (G_same a b A0); [|exact Hg]. unfold tracked, tracked_keys. rewrite A1, B0, B1. cbn.
      unfold tracked_keys. rewrite C3, B2. cbn. rewrite app_nil_r. apply keys_of_addr; congruence.
    - intros x Hx. rewrite B1 in Hx. injection Hx as <-. repeat split; try congruence. right. exact A6.
  Qed.

  Lemma step_kops a b ks :
    kops b = kops a ++ ks ->
    cur b = apply_kops (cur a) ks /\ curown b = apply_kops (curown a) ks /\
    (faithful_run (own0 ++ others) (kops b) -> faithful_run (own0 ++ others) (kops a) /\ faithful_run (cur a) ks).
  Proof.
    intros H. unfold cur, curown. rewrite H, !apply_kops_app. repeat split; try reflexivity.
    - apply faithful_run_app in H0. apply H0.
    - apply faithful_run_app in H0. apply H0.
  Qed.
End Ghost.

Lemma refusal_effect c ch ks sd :
  refusal c ch ks -> faithful_run sd ks ->
  forall sd', (forall k, In k sd' -> In k sd) -> apply_kops sd' ks = sd'.
Proof.
  intros [->|[(x & ->)|(x & y & v & Hx & ->)]] Hf sd' Hsub; cbn; try reflexivity.
  cbn in Hf. destruct Hf as (F1 & _ & F3 & _). specialize (F1 eq_refl). rewrite Hx in *.
  unfold kout in *.
  assert (Hv : v = true) by (apply F3; left; reflexivity). subst v.
  apply sad_del_cons_self. intros Hin. apply F1. apply Hsub. exact Hin.
Qed.

Lemma installs_effect c ch ks sd :
  installs c ch ks -> faithful_run sd ks ->
  ~ In (kout c ch) sd /\ ~ In (kin c ch) sd /\ kin c ch <> kout c ch /\
  forall sd', apply_kops sd' ks = kin c ch :: kout c ch :: sd'.
Proof.
  intros (x & y & Hx & Hy & -> & _) Hf. cbn in Hf. destruct Hf as (F1 & F2 & _).
  specialize (F1 eq_refl). specialize (F2 eq_refl). rewrite Hx, Hy in *.
  repeat split.
  - exact F1.
  - intros H. apply F2. right. exact H.
  - intros H. apply F2. left. symmetry. exact H.
  - intros sd'. cbn. rewrite Hx, Hy. reflexivity.
Qed.

Lemma deletes_effect c ch ks sd :
  deletes c ch ks -> faithful_run sd ks -> In (kout c ch) sd -> In (kin c ch) sd -> kin c ch <> kout c ch ->
  forall sd', apply_kops sd' ks = sad_del (kin c ch) (sad_del (kout c ch) sd').
Proof.
  intros (v1 & v2 & ->) Hf Ho Hi Hne sd'. cbn in Hf. destruct Hf as (F1 & F2 & _).
  unfold kout, kin in *.
  assert (Hv1 : v1 = true) by (apply F1; exact Ho). subst v1. cbn in F2.
  assert (Hv2 : v2 = true) by (apply F2; apply sad_del_in; split; assumption). subst v2.
  reflexivity.
Qed.


Lemma bytes_eqb_eq a b : bytes_eqb a b = true -> a = b.
Proof. unfold bytes_eqb. destruct (list_eq_dec N.eq_dec a b); [auto|discriminate]. Qed.
Lemma child_eqb_keys c y ch : child_eqb y ch = true -> child_keys c y = child_keys c ch.
Proof.
  unfold child_eqb. intros H.
  apply andb_prop in H. destruct H as [H _]. apply andb_prop in H. destruct H as [H _].
  apply andb_prop in H. destruct H as [H _]. apply andb_prop in H. destruct H as [H _].
  apply andb_prop in H. destruct H as [H Hp]. apply andb_prop in H. destruct H as [H _].
  apply andb_prop in H. destruct H as [Hi Ho].
  apply bytes_eqb_eq in Hi. apply bytes_eqb_eq in Ho.
  unfold prop_eqb in Hp. apply andb_prop in Hp. destruct Hp as [Hp _]. apply andb_prop in Hp. destruct Hp as [Hp _].
  apply Z.eqb_eq in Hp.
  unfold child_keys, kout, kin, ipsec_proto. rewrite Hi, Ho, Hp. reflexivity.
Qed.
Lemma remove_child_split l ch :
  child_in ch l = true ->
  exists l1 y l2, l = l1 ++ y :: l2 /\ child_eqb y ch = true /\ remove_child l ch = l1 ++ l2.
Proof.
  unfold child_in. induction l as [|x r IH]; cbn; [discriminate|].
  destruct (child_eqb x ch) eqn:Ex; cbn.
  - intros _. exists [], x, r. auto.
  - intros H. destruct (IH H) as (l1 & y & l2 & -> & Hy & Hr). exists (x :: l1), y, l2. cbn. rewrite Hr. auto.
Qed.

Section Ghost2.
  Variables (own0 others : sad).
  Notation G := (G own0 others).
  Notation cur := (cur own0 others). Notation curown := (curown own0).

  Lemma Rest_WF a b : Rest a b -> WF a -> WF b.
  Proof.
    intros (A2 & A3 & A4 & A5) Hwf n Hn. rewrite Hn in A5. destruct (new_sa a) as [x|] eqn:Ex; [|contradiction].
    destruct A5 as (B1 & B2 & B3). destruct (Hwf x Ex) as (C1 & C2 & C3).
    repeat split; try congruence; try (destruct C3 as [C3|C3]; [left|right]; congruence).
  Qed.

  (** tracked keys after appending a CHILD_SA *)
  Lemma tracked_append a b ch :
    children (co b) = children (co a) ++ [ch] -> Rest a b ->
    tracked b = tracked_keys (co a) ++ [kout (co a) ch; kin (co a) ch] ++ succ_keys (new_sa a).
  Proof.
    intros Hc (A2 & A3 & A4 & A5). unfold tracked, tracked_keys. rewrite Hc.
    rewrite (keys_of_addr (co a) (co b)) by assumption. rewrite keys_of_app. cbn. rewrite <- app_assoc.
    rewrite (nsame_succ_keys _ _ A5). reflexivity.
  Qed.

  Lemma add_G a b ch : Added a b ch -> WF a -> G a -> G b /\ WF b.
  Proof.
    intros ((ks & Hk & Hi) & Hc & Hr) Hwf Hg. split; [|eapply Rest_WF; eassumption].
    intros Hf. destruct (step_kops own0 others a b ks Hk) as (E1 & E2 & E3).
    destruct (E3 Hf) as [Hfa Hfk]. destruct (Hg Hfa) as (Hcur & Hnd & Hse & Hnt).
    destruct (installs_effect _ _ _ _ Hi Hfk) as (No & Ni & Hne & Heff).
    rewrite E1, E2, !Heff, Hcur. split; [reflexivity|].
    rewrite Hcur in No, Ni.
    assert (No' : ~ In (kout (co a) ch) (tracked a)).
    { intros H. apply No. apply in_or_app. left. apply Hse. exact H. }
    assert (Ni' : ~ In (kin (co a) ch) (tracked a)).
    { intros H. apply Ni. apply in_or_app. left. apply Hse. exact H. }
    unfold Inv. rewrite (tracked_append a b ch Hc Hr).
    assert (Hperm : Permutation (kin (co a) ch :: kout (co a) ch :: tracked a)
                      (tracked_keys (co a) ++ [kout (co a) ch; kin (co a) ch] ++ succ_keys (new_sa a))).
    { unfold tracked. cbn. etransitivity; [apply perm_swap|].
      etransitivity; [|apply Permutation_middle]. apply perm_skip. apply Permutation_middle. }
    repeat split.
    - cbn. constructor; [|constructor; [exact No|exact Hnd]].
      intros [H|H]; [apply Hne; symmetry; exact H|apply Ni; exact H].
    - intros H. eapply Permutation_in; [exact Hperm|]. destruct H as [H|[H|H]]; [left; exact H|right; left; exact H|].
      right. right. apply Hse. exact H.
    - intros H. apply (Permutation_in _ (Permutation_sym Hperm)) in H.
      destruct H as [H|[H|H]]; [left; exact H|right; left; exact H|]. right. right. apply Hse. exact H.
    - eapply Permutation_NoDup; [exact Hperm|].
      constructor; [|constructor; [exact No'|exact Hnt]].
      intros [H|H]; [apply Hne; symmetry; exact H|apply Ni'; exact H].
  Qed.

  Lemma ref_G a b ch : Refused a b ch -> WF a -> G a -> G b /\ WF b.
  Proof.
    intros ((ks & Hk & Hi) & Hc & Hr) Hwf Hg. split; [|eapply Rest_WF; eassumption].
    intros Hf. destruct (step_kops own0 others a b ks Hk) as (E1 & E2 & E3).
    destruct (E3 Hf) as [Hfa Hfk]. destruct (Hg Hfa) as (Hcur & Hnd & Hse & Hnt).
    rewrite E1, E2.
    rewrite (refusal_effect _ _ _ _ Hi Hfk (cur a)) by auto.
    rewrite (refusal_effect _ _ _ _ Hi Hfk (curown a)) by (intros k Hin; rewrite Hcur; apply in_or_app; left; exact Hin).
    split; [exact Hcur|].
    assert (Ht : tracked b = tracked a).
    { destruct Hr as (A2 & A3 & A4 & A5). unfold tracked, tracked_keys. rewrite Hc.
      rewrite (keys_of_addr (co a) (co b)) by assumption. rewrite (nsame_succ_keys _ _ A5). reflexivity. }
    unfold Inv. rewrite Ht. auto.
  Qed.

  Lemma del_G a b ch : Deleted a b ch -> WF a -> G a -> G b /\ WF b.
  Proof.
    intros ((ks & Hk & Hd) & Hin & Hc & Hr) Hwf Hg. split; [|eapply Rest_WF; eassumption].
    intros Hf. destruct (step_kops own0 others a b ks Hk) as (E1 & E2 & E3).
    destruct (E3 Hf) as [Hfa Hfk]. destruct (Hg Hfa) as (Hcur & Hnd & Hse & Hnt).
    destruct (remove_child_split _ _ Hin) as (l1 & y & l2 & Hl & Hy & Hrem).
    pose proof (child_eqb_keys (co a) _ _ Hy) as Hky.
    set (ko := kout (co a) ch) in *. set (ki := kin (co a) ch) in *.
    set (T1 := keys_of (co a) l1). set (T2 := keys_of (co a) l2 ++ succ_keys (new_sa a)).
    assert (Hta : tracked a = T1 ++ ko :: ki :: T2).
    { unfold tracked, tracked_keys. rewrite Hl, keys_of_app. cbn [keys_of flat_map].
      fold (keys_of (co a) l2). rewrite Hky. unfold child_keys. fold ko ki. subst T1 T2.
      rewrite <- !app_assoc. reflexivity. }
    assert (Htb : tracked b = T1 ++ T2).
    { destruct Hr as (A2 & A3 & A4 & A5). unfold tracked, tracked_keys. rewrite Hc, Hrem.
      rewrite (keys_of_addr (co a) (co b)) by assumption. rewrite keys_of_app, (nsame_succ_keys _ _ A5).
      subst T1 T2. rewrite <- app_assoc. reflexivity. }
    rewrite Hta in Hnt, Hse.
    pose proof (NoDup_remove_2 _ _ _ Hnt) as Hko.
    pose proof (NoDup_remove_1 _ _ _ Hnt) as Hnt1.
    change (T1 ++ ki :: T2) with (T1 ++ ki :: T2) in Hnt1.
    pose proof (NoDup_remove_2 _ _ _ Hnt1) as Hki.
    pose proof (NoDup_remove_1 _ _ _ Hnt1) as Hnt2.
    assert (Hne : ki <> ko).
    { intros H. apply Hko. apply in_or_app. right. left. exact H. }
    assert (Hoo : In ko (curown a)) by (apply Hse; apply in_or_app; right; left; reflexivity).
    assert (Hio : In ki (curown a)) by (apply Hse; apply in_or_app; right; right; left; reflexivity).
    assert (Hoc : In ko (cur a)) by (rewrite Hcur; apply in_or_app; left; exact Hoo).
    assert (Hic : In ki (cur a)) by (rewrite Hcur; apply in_or_app; left; exact Hio).
    pose proof (deletes_effect _ _ _ _ Hd Hfk Hoc Hic Hne) as Heff. fold ko ki in Heff.
    assert (Hoth : forall k, In k (curown a) -> ~ In k others).
    { intros k H1 H2. clear - Hnd H1 H2. induction (curown a) as [|x r IH]; [contradiction|].
      cbn in Hnd. inversion Hnd as [|? ? Hx' Hr']; subst. destruct H1 as [->|H1].
      - apply Hx'. apply in_or_app. right. exact H2.
      - apply IH; assumption. }
    rewrite E1, E2, !Heff, Hcur, !sad_del_app.
    rewrite (sad_del_notin ko others) by (apply Hoth; exact Hoo).
    rewrite (sad_del_notin ki others) by (apply Hoth; exact Hio).
    split; [reflexivity|]. unfold Inv. rewrite Htb.
    repeat split.
    - assert (Hsub : forall l, NoDup (l ++ others) -> NoDup (sad_del ki (sad_del ko l) ++ others)).
      { intros l. induction l as [|x r IH]; cbn; [auto|]. intros H. inversion H as [|? ? Hx' Hr']; subst.
        specialize (IH Hr').
        destruct (key_eqb x ko) eqn:Eo; cbn; [exact IH|].
        destruct (key_eqb x ki) eqn:Ei; cbn; [exact IH|].
        constructor; [|exact IH]. intros Hin'. apply Hx'. apply in_app_or in Hin'. apply in_or_app.
        destruct Hin' as [Hin'|Hin']; [left|right; exact Hin'].
        apply sad_del_in in Hin'. destruct Hin' as [Hin' _]. apply sad_del_in in Hin'. apply Hin'. }
      apply Hsub. exact Hnd.
    - intros H. apply sad_del_in in H. destruct H as [H H1]. apply sad_del_in in H. destruct H as [H H2].
      apply Hse in H. apply in_app_or in H. apply in_or_app. destruct H as [H|[H|[H|H]]]; auto; congruence.
    - intros H. apply sad_del_in. split; [apply sad_del_in; split|].
      + apply Hse. apply in_app_or in H. apply in_or_app. destruct H as [H|H]; [left; exact H|right; right; right; exact H].
      + intros ->. apply Hko. apply in_app_or in H. apply in_or_app. destruct H as [H|H]; [left; exact H|right; right; exact H].
      + intros ->. apply Hki. exact H.
    - exact Hnt2.
  Qed.

  Lemma atom_G a b : Atom a b -> WF a -> G a -> G b /\ WF b.
  Proof.
    intros [H|H|H|ch H|ch H|ch H]; eauto using sila_G, succ_G, hand_G, add_G, ref_G, del_G.
  Qed.
  Lemma trans_G a b : Trans a b -> WF a -> G a -> G b /\ WF b.
  Proof.
    intros H. induction H as [s|s a b H IH Ha]; [auto|]. intros Hwf Hg.
    destruct (IH Hwf Hg) as [Hga Hwa]. eapply atom_G; eassumption.
  Qed.
End Ghost2.

(* ------------------------------------------------------------------------------------------------ *)
(** * Main theorems *)

Lemma G_init own others s : kops s = [] -> Inv s own others -> G own others s.
Proof. intros Hk Hi _. unfold cur, curown. rewrite Hk. cbn. auto. Qed.

(** a run made of atomic steps keeps the invariant; the frame [others] is literally untouched *)
Lemma trans_main s s' own others :
  Trans s s' -> kops s = [] -> WF s -> Inv s own others -> faithful_run (own ++ others) (kops s') ->
  apply_kops (own ++ others) (kops s') = apply_kops own (kops s') ++ others
  /\ WF s' /\ Inv s' (apply_kops own (kops s')) others.
Proof.
  intros Ht Hk Hwf Hi Hf.
  destruct (trans_G own others s s' Ht Hwf (G_init own others s Hk Hi)) as [Hg Hw].
  destruct (Hg Hf) as [H1 H2]. auto.
Qed.

Section Main.
  Variable E : env.

  (** ** requests and responses *)
  Theorem h_request_sad s m own others :
    Inv s own others -> WF s -> kops s = [] ->
    st (co (fst (h_request E s m))) <> -1 ->
    faithful_run (own ++ others) (kops (fst (h_request E s m))) ->
    apply_kops (own ++ others) (kops (fst (h_request E s m)))
      = apply_kops own (kops (fst (h_request E s m))) ++ others
    /\ WF (fst (h_request E s m))
    /\ Inv (fst (h_request E s m)) (apply_kops own (kops (fst (h_request E s m)))) others.
  Proof.
    intros Hi Hwf Hk Hst Hf. eapply trans_main; try eassumption. apply h_request_shape. exact Hst.
  Qed.

  Theorem h_response_sad s m own others :
    Inv s own others -> WF s -> kops s = [] ->
    st (co (fst (h_response E s m))) <> -1 ->
    faithful_run (own ++ others) (kops (fst (h_response E s m))) ->
    apply_kops (own ++ others) (kops (fst (h_response E s m)))
      = apply_kops own (kops (fst (h_response E s m))) ++ others
    /\ WF (fst (h_response E s m))
    /\ Inv (fst (h_response E s m)) (apply_kops own (kops (fst (h_response E s m)))) others.
  Proof.
    intros Hi Hwf Hk Hst Hf. eapply trans_main; try eassumption. apply h_response_shape. exact Hst.
  Qed.

  (** local triggers and timer-generated requests never touch the kernel or the CHILD_SA lists *)
  Lemma quiet_inv s s' own others :
    SilA s s' \/ (exists S, Succ s S /\ SilA S s') -> WF s -> Inv s own others ->
    kops s' = kops s /\ WF s' /\ Inv s' own others.
  Proof.
    intros H Hwf Hi.
    assert (Hq : kops s' = kops s /\ tracked s' = tracked s /\ WF s').
    { destruct H as [H|(S & Hs & H)].
      - destruct (sila_quiet _ _ H Hwf) as (A & B & C). auto.
      - destruct (succ_quiet _ _ Hs Hwf) as (K1 & K2 & K3). destruct (sila_quiet _ _ H K3) as (L1 & L2 & L3).
        split; [congruence|split; [congruence|exact L3]]. }
    destruct Hq as (Q1 & Q2 & Q3). split; [exact Q1|split; [exact Q3|]]. unfold Inv in *. rewrite Q2. exact Hi.
  Qed.

  Theorem h_trigger_sad s e own others :
    Inv s own others -> WF s -> st (co (fst (h_trigger s e))) <> -1 ->
    kops (fst (h_trigger s e)) = kops s /\ WF (fst (h_trigger s e)) /\ Inv (fst (h_trigger s e)) own others.
  Proof.
    intros Hi Hwf Hst. destruct (h_trigger_quiet s e) as [H|H]; [|contradiction].
    apply quiet_inv; auto.
  Qed.
  Theorem gen_dpd_sad s own others :
    Inv s own others -> WF s -> st (co (fst (lift_gen generate_dpd_request s))) <> -1 ->
    kops (fst (lift_gen generate_dpd_request s)) = kops s /\ WF (fst (lift_gen generate_dpd_request s))
    /\ Inv (fst (lift_gen generate_dpd_request s)) own others.
  Proof.
    intros Hi Hwf Hst. destruct (lift_gen_quiet _ s sila_gen_dpd) as [H|H]; [|contradiction].
    apply quiet_inv; auto.
  Qed.
  Theorem gen_delete_ike_sad s own others :
    Inv s own others -> WF s -> st (co (fst (lift_gen generate_delete_ike_sa_request s))) <> -1 ->
    kops (fst (lift_gen generate_delete_ike_sa_request s)) = kops s
    /\ WF (fst (lift_gen generate_delete_ike_sa_request s))
    /\ Inv (fst (lift_gen generate_delete_ike_sa_request s)) own others.
  Proof.
    intros Hi Hwf Hst. destruct (lift_gen_quiet _ s sila_gen_delete_ike) as [H|H]; [|contradiction].
    apply quiet_inv; auto.
  Qed.
  Theorem gen_rekey_ike_sad s own others :
    Inv s own others -> WF s -> st (co (fst (lift_gen generate_rekey_ike_sa_request s))) <> -1 ->
    kops (fst (lift_gen generate_rekey_ike_sa_request s)) = kops s
    /\ WF (fst (lift_gen generate_rekey_ike_sa_request s))
    /\ Inv (fst (lift_gen generate_rekey_ike_sa_request s)) own others.
  Proof.
    intros Hi Hwf Hst. destruct (lift_gen_rekey_quiet s) as [H|H]; [|contradiction].
    apply quiet_inv; auto.
  Qed.
End Main.

(* ------------------------------------------------------------------------------------------------ *)
(** * The outbound SPIs of the tracked CHILD_SAs have four bytes

    create_child_sa raises before its first netlink request when the SPI the peer chose does not fit the four-byte
    field, and a CHILD_SA is only tracked after create_child_sa succeeded: every tracked CHILD_SA (of the IKE_SA and
    of its unregistered successor) has a four-byte outbound SPI.  This is what makes delete_child_sa total on the
    states the handlers produce (teardown below). *)
Definition Spi4 (s : isa) : Prop :=
  Forall spi4 (children (co s)) /\ forall n, new_sa s = Some n -> Forall spi4 (children n).

Lemma remove_child_Forall (P : child -> Prop) l ch : Forall P l -> Forall P (remove_child l ch).
Proof.
  induction l as [|y r IH]; cbn; [auto|]. intros H. inversion H as [|? ? Hy Hr]; subst.
  destruct (child_eqb y ch); [exact Hr|]. constructor; [exact Hy|apply IH; exact Hr].
Qed.
Lemma nsame_spi4 a b :
  nsame a b -> (forall n, a = Some n -> Forall spi4 (children n)) -> forall n, b = Some n -> Forall spi4 (children n).
Proof.
  intros Hn H n ->. destruct a as [x|]; [|contradiction]. destruct Hn as (A & _). rewrite A. apply H. reflexivity.
Qed.
Lemma atom_spi4 a b : Atom a b -> Spi4 a -> Spi4 b.
Proof.
  intros Ha [H1 H2]. destruct Ha as [Hs|Hs|Hs|ch Hs|ch Hs|ch Hs].
  - destruct Hs as [(_ & A1 & _ & _ & A4) _]. split; [rewrite A1; exact H1|eapply nsame_spi4; eassumption].
  - destruct Hs as (_ & A1 & _ & _ & _ & _ & n & B0 & B1 & _). split; [rewrite A1; exact H1|].
    intros n' Hn'. rewrite B0 in Hn'. injection Hn' as <-. rewrite B1. constructor.
  - destruct Hs as (_ & _ & _ & _ & _ & A1 & n & n' & B0 & B1 & B2 & _). split; [rewrite A1; constructor|].
    intros x Hx. rewrite B1 in Hx. injection Hx as <-. rewrite B2. exact H1.
  - destruct Hs as ((ks & _ & (x & y & _ & _ & _ & Hch)) & Hc & (_ & _ & _ & A5)). split.
    + rewrite Hc. apply Forall_app. split; [exact H1|constructor; [exact Hch|constructor]].
    + eapply nsame_spi4; eassumption.
  - destruct Hs as (_ & Hc & (_ & _ & _ & A5)). split; [rewrite Hc; exact H1|eapply nsame_spi4; eassumption].
  - destruct Hs as (_ & _ & Hc & (_ & _ & _ & A5)).
    split; [rewrite Hc; apply remove_child_Forall; exact H1|eapply nsame_spi4; eassumption].
Qed.
Lemma trans_spi4 a b : Trans a b -> Spi4 a -> Spi4 b.
Proof. intros H. induction H as [s|s a b H IH Ha]; [auto|]. intros H4. eapply atom_spi4; [exact Ha|apply IH; exact H4]. Qed.

Section Spi4Entry.
  Variable E : env.
  Theorem h_request_spi4 s m : Spi4 s -> st (co (fst (h_request E s m))) <> -1 -> Spi4 (fst (h_request E s m)).
  Proof. intros H4 Hst. eapply trans_spi4; [apply h_request_shape; exact Hst|exact H4]. Qed.
  Theorem h_response_spi4 s m : Spi4 s -> st (co (fst (h_response E s m))) <> -1 -> Spi4 (fst (h_response E s m)).
  Proof. intros H4 Hst. eapply trans_spi4; [apply h_response_shape; exact Hst|exact H4]. Qed.
  Lemma quiet_spi4 s s' : SilA s s' \/ (exists S, Succ s S /\ SilA S s') -> Spi4 s -> Spi4 s'.
  Proof.
    intros [H|(S & H1 & H2)] H4.
    - eapply atom_spi4; [apply A_sil; exact H|exact H4].
    - eapply atom_spi4; [apply A_sil; exact H2|]. eapply atom_spi4; [apply A_succ; exact H1|exact H4].
  Qed.
  Theorem h_trigger_spi4 s e : Spi4 s -> st (co (fst (h_trigger s e))) <> -1 -> Spi4 (fst (h_trigger s e)).
  Proof.
    intros H4 Hst. destruct (h_trigger_quiet s e) as [H|H]; [|contradiction]. eapply quiet_spi4; [left; exact H|exact H4].
  Qed.
  Theorem gen_dpd_spi4 s :
    Spi4 s -> st (co (fst (lift_gen generate_dpd_request s))) <> -1 -> Spi4 (fst (lift_gen generate_dpd_request s)).
  Proof.
    intros H4 Hst. destruct (lift_gen_quiet _ s sila_gen_dpd) as [H|H]; [|contradiction].
    eapply quiet_spi4; [left; exact H|exact H4].
  Qed.
  Theorem gen_delete_ike_spi4 s :
    Spi4 s -> st (co (fst (lift_gen generate_delete_ike_sa_request s))) <> -1 ->
    Spi4 (fst (lift_gen generate_delete_ike_sa_request s)).
  Proof.
    intros H4 Hst. destruct (lift_gen_quiet _ s sila_gen_delete_ike) as [H|H]; [|contradiction].
    eapply quiet_spi4; [left; exact H|exact H4].
  Qed.
  Theorem gen_rekey_ike_spi4 s :
    Spi4 s -> st (co (fst (lift_gen generate_rekey_ike_sa_request s))) <> -1 ->
    Spi4 (fst (lift_gen generate_rekey_ike_sa_request s)).
  Proof.
    intros H4 Hst. destruct (lift_gen_rekey_quiet s) as [H|H]; [|contradiction].
    eapply quiet_spi4; [exact H|exact H4].
  Qed.
End Spi4Entry.
Lemma Spi4_unfold s :
  Spi4 s <->
  (forall ch, In ch (children (co s)) -> length (c_out ch) = 4%nat)
  /\ (forall n, new_sa s = Some n -> forall ch, In ch (children n) -> length (c_out ch) = 4%nat).
Proof.
  unfold Spi4, spi4. rewrite Forall_forall. split; intros [A B]; (split; [exact A|]); intros n Hn.
  - apply Forall_forall. exact (B n Hn).
  - apply Forall_forall. exact (B n Hn).
Qed.
Lemma Spi4_no_children s : children (co s) = [] -> new_sa s = None -> Spi4 s.
Proof. intros H1 H2. split; [rewrite H1; constructor|]. intros n Hn. rewrite H2 in Hn. discriminate Hn. Qed.
Lemma mark_deleted_spi4 s : Spi4 s -> Spi4 (s <| co := (co s) <| st := ST_DELETED |> |>).
Proof. intros H. exact H. Qed.

(* ------------------------------------------------------------------------------------------------ *)
(** * G. Teardown and corollaries *)

Definition sad_minus (sd : sad) (ks : list key) : sad := filter (fun k => negb (existsb (key_eqb k) ks)) sd.
Lemma sad_minus_in sd ks k : In k (sad_minus sd ks) <-> In k sd /\ ~ In k ks.
Proof.
  unfold sad_minus. rewrite filter_In. split; intros [A B]; (split; [exact A|]).
  - intros H. apply negb_true_iff in B. assert (existsb (key_eqb k) ks = true); [|congruence].
    apply existsb_exists. exists k. split; [exact H|apply key_eqb_true; reflexivity].
  - apply negb_true_iff. destruct (existsb (key_eqb k) ks) eqn:Ex; [|reflexivity].
    apply existsb_exists in Ex. destruct Ex as (x & Hx & Ex). apply key_eqb_true in Ex. subst x. contradiction.
Qed.
Lemma sad_minus_nil sd : sad_minus sd [] = sd.
Proof. unfold sad_minus. cbn. induction sd as [|x r IH]; cbn; [reflexivity|]. f_equal. exact IH. Qed.
Lemma sad_minus_cons sd k ks : sad_minus sd (k :: ks) = sad_minus (sad_del k sd) ks.
Proof.
  unfold sad_minus, sad_del. induction sd as [|x r IH]; cbn; [reflexivity|].
  destruct (key_eqb x k); cbn; [exact IH|]. destruct (existsb (key_eqb x) ks); cbn; [exact IH|]. f_equal. exact IH.
Qed.
Lemma sad_minus_app sd1 sd2 ks : sad_minus (sd1 ++ sd2) ks = sad_minus sd1 ks ++ sad_minus sd2 ks.
Proof. unfold sad_minus. apply filter_app. Qed.
Lemma sad_minus_disjoint sd ks : (forall k, In k sd -> ~ In k ks) -> sad_minus sd ks = sd.
Proof.
  intros H. unfold sad_minus. induction sd as [|x r IH]; cbn; [reflexivity|].
  destruct (existsb (key_eqb x) ks) eqn:Ex.
  - apply existsb_exists in Ex. destruct Ex as (y & Hy & Ey). apply key_eqb_true in Ey. subst y.
    exfalso. apply (H x); [left; reflexivity|exact Hy].
  - cbn. f_equal. apply IH. intros k Hk. apply H. right. exact Hk.
Qed.

(** a DELSA under a faithful kernel leaves the key absent whether it succeeds or not *)
Lemma faithful_del sd d p spi v : faithful sd (K_del d p spi v) -> apply_kop sd (K_del d p spi v) = sad_del (d, p, spi) sd.
Proof.
  cbn. intros H. destruct v; [reflexivity|]. symmetry. apply sad_del_notin. intros Hin.
  apply H in Hin. discriminate Hin.
Qed.
Lemma deletes_any c ch ks sd :
  deletes c ch ks -> faithful_run sd ks -> apply_kops sd ks = sad_del (kin c ch) (sad_del (kout c ch) sd).
Proof.
  intros (v1 & v2 & ->) (F1 & F2 & _). unfold apply_kops. cbn [fold_left].
  rewrite (faithful_del _ _ _ _ _ F1). rewrite (faithful_del _ _ _ _ _ F1) in F2.
  rewrite (faithful_del _ _ _ _ _ F2). reflexivity.
Qed.

Inductive DelOps (c : core) : list child -> list kop -> Prop :=
| DO_nil : DelOps c [] []
| DO_cons ch l k1 k2 : deletes c ch k1 -> DelOps c l k2 -> DelOps c (ch :: l) (k1 ++ k2).
Lemma delops_effect c l ks :
  DelOps c l ks -> forall sd, faithful_run sd ks -> apply_kops sd ks = sad_minus sd (keys_of c l).
Proof.
  intros H. induction H as [|ch l k1 k2 Hd Hl IH]; intros sd Hf.
  - cbn. symmetry. apply sad_minus_nil.
  - apply faithful_run_app in Hf. destruct Hf as [F1 F2].
    rewrite apply_kops_app. rewrite (deletes_any _ _ _ _ Hd F1) in *.
    rewrite (IH _ F2). cbn [keys_of flat_map child_keys app]. fold (keys_of c l).
    rewrite !sad_minus_cons. reflexivity.
Qed.

Section Teardown.
  Lemma delete_all_spec l : forall s,
    Forall spi4 l ->
    post (fun r s' => r = Stuck \/ (r = Ok tt /\ exists ks, Tr s ks s' /\ DelOps (co s) l ks)) (delete_all l s).
  Proof.
    induction l as [|ch l IH]; intros s H4; cbn [delete_all].
    - apply post_ret. right. split; [reflexivity|]. exists []. split; [apply Tr_refl|constructor].
    - inversion H4 as [|? ? H4a H4b]; subst.
      eapply post_bind; [apply (delete_spec_spi4 ch s H4a)|]. intros r s1 H.
      destruct r as [[]|e|]; [|contradiction|left; reflexivity].
      destruct H as (k1 & Ht1 & Hd).
      eapply post_conseq; [apply (IH s1 H4b)|]. cbv beta. intros r s' [->|(-> & k2 & Ht2 & Hl)]; [left; reflexivity|].
      right. split; [reflexivity|]. exists (k1 ++ k2). split; [eapply Tr_trans; eassumption|].
      constructor; [exact Hd|].
      destruct Ht1 as [_ (_ & A2 & A3 & _)].
      clear - Hl A2 A3. induction Hl; constructor; [|assumption].
      eapply deletes_keys; [| |eassumption]; unfold kout, kin; congruence.
  Qed.

  (** when a tracked CHILD_SA has an outbound SPI that is not four bytes long, delete_all stops there with the
      generic exception: the CHILD_SAs before it got their two DELSAs, nothing else was issued *)
  Lemma delete_all_bad_spi l : forall s,
    ~ Forall spi4 l ->
    post (fun r s' => r = Stuck \/
                      (r = Raise X_Other /\ exists l1 ch l2 ks,
                          l = l1 ++ ch :: l2 /\ Forall spi4 l1 /\ ~ spi4 ch /\ Tr s ks s' /\ DelOps (co s) l1 ks))
         (delete_all l s).
  Proof.
    induction l as [|ch l IH]; intros s H4; cbn [delete_all].
    - exfalso. apply H4. constructor.
    - eapply post_bind; [apply delete_spec2|]. intros r s1 H. destruct r as [[]|e|]; [| |left; reflexivity].
      + destruct H as (Hch & k1 & Ht1 & Hd).
        assert (H4b : ~ Forall spi4 l) by (intros Hl; apply H4; constructor; assumption).
        eapply post_conseq; [apply (IH s1 H4b)|]. cbv beta.
        intros r s' [->|(-> & l1 & c2 & l2 & k2 & -> & Hl1 & Hc2 & Ht2 & Hdo)]; [left; reflexivity|].
        right. split; [reflexivity|]. exists (ch :: l1), c2, l2, (k1 ++ k2).
        split; [reflexivity|]. split; [constructor; assumption|]. split; [exact Hc2|].
        split; [eapply Tr_trans; eassumption|]. constructor; [exact Hd|].
        destruct Ht1 as [_ (_ & A2 & A3 & _)].
        clear - Hdo A2 A3. induction Hdo; constructor; [|assumption].
        eapply deletes_keys; [| |eassumption]; unfold kout, kin; congruence.
      + destruct H as (-> & Hch & Hs). right. split; [reflexivity|]. exists [], ch, l, [].
        split; [reflexivity|]. split; [constructor|]. split; [exact Hch|]. split; [apply Tr_nil_Sil0; exact Hs|constructor].
  Qed.

  (** IkeSa.delete_child_sas on ANY state whose CHILD_SAs have four-byte outbound SPIs (every state the handlers
      produce: [Spi4] below), under faithful verdicts: afterwards no key of a CHILD_SA of this IKE_SA is
      installed, nothing else was removed, and no CHILD_SA is tracked; the successor keeps what it has *)
  Theorem teardown_general s sd :
    Forall spi4 (children (co s)) ->
    kops s = [] -> fst (delete_child_sas s) <> Stuck ->
    faithful_run sd (kops (snd (delete_child_sas s))) ->
    fst (delete_child_sas s) = Ok tt
    /\ apply_kops sd (kops (snd (delete_child_sas s))) = sad_minus sd (tracked_keys (co s))
    /\ children (co (snd (delete_child_sas s))) = []
    /\ succ_keys (new_sa (snd (delete_child_sas s))) = succ_keys (new_sa s)
    /\ Rest s (snd (delete_child_sas s)).
  Proof.
    unfold delete_child_sas. intros H4 Hk.
    change ((c <- getc;; delete_all (children c);;; modc (fun c0 => c0 <| children := [] |>)) s)
      with ((delete_all (children (co s));;; modc (fun c0 => c0 <| children := [] |>)) s).
    unfold bind. pose proof (delete_all_spec (children (co s)) s H4) as H. unfold post in H.
    destruct (delete_all (children (co s)) s) as [[[]|e|] s1]; cbn in *.
    - intros _ Hf. destruct H as [H|(_ & ks & [H1 H2] & Hd)]; [discriminate H|].
      rewrite Hk in H1. cbn in H1. rewrite H1 in *.
      destruct H2 as (A1 & A2 & A3 & A4 & A5).
      split; [reflexivity|]. split; [apply (delops_effect _ _ _ Hd); exact Hf|]. split; [reflexivity|].
      split; [apply nsame_succ_keys; exact A5|]. unfold Rest. auto.
    - destruct H as [H|[H _]]; discriminate H.
    - intros H0. exfalso. apply H0. reflexivity.
  Qed.

  (** the other case: some tracked CHILD_SA has an outbound SPI that is not four bytes long (no handler produces
      such a state).  delete_child_sas raises the generic exception at the first such CHILD_SA; those before it got
      their DELSAs, nothing else was issued, and the list of CHILD_SAs is NOT cleared *)
  Theorem teardown_bad_spi s :
    ~ Forall spi4 (children (co s)) -> kops s = [] -> fst (delete_child_sas s) <> Stuck ->
    fst (delete_child_sas s) = Raise X_Other
    /\ children (co (snd (delete_child_sas s))) = children (co s)
    /\ Rest s (snd (delete_child_sas s))
    /\ exists l1 ch l2, children (co s) = l1 ++ ch :: l2 /\ Forall spi4 l1 /\ ~ spi4 ch
                        /\ DelOps (co s) l1 (kops (snd (delete_child_sas s))).
  Proof.
    unfold delete_child_sas. intros H4 Hk.
    change ((c <- getc;; delete_all (children c);;; modc (fun c0 => c0 <| children := [] |>)) s)
      with ((delete_all (children (co s));;; modc (fun c0 => c0 <| children := [] |>)) s).
    unfold bind. pose proof (delete_all_bad_spi (children (co s)) s H4) as H. unfold post in H.
    destruct (delete_all (children (co s)) s) as [[[]|e|] s1]; cbn in *.
    - destruct H as [H|[H _]]; discriminate H.
    - intros _. destruct H as [H|(He & l1 & ch & l2 & ks & Hl & Hl1 & Hch & [H1 H2] & Hd)]; [discriminate H|].
      injection He as ->. rewrite Hk in H1. cbn in H1. rewrite H1.
      destruct H2 as (A1 & A2 & A3 & A4 & A5).
      split; [reflexivity|]. split; [exact A1|]. split; [unfold Rest; auto|].
      exists l1, ch, l2. auto.
    - intros H0. exfalso. apply H0. reflexivity.
  Qed.

  (** ... hence: removing an IKE_SA (for any reason) removes all its kernel SAs and nothing else; what stays
      installed are exactly the CHILD_SAs handed to a successor that is not registered yet, if any *)
  Theorem teardown_inv s own others :
    Forall spi4 (children (co s)) ->
    Inv s own others -> kops s = [] -> fst (delete_child_sas s) <> Stuck ->
    faithful_run (own ++ others) (kops (snd (delete_child_sas s))) ->
    apply_kops (own ++ others) (kops (snd (delete_child_sas s)))
      = sad_minus own (tracked_keys (co s)) ++ others
    /\ (forall k, In k (tracked_keys (co s)) ->
                  ~ In k (apply_kops (own ++ others) (kops (snd (delete_child_sas s)))))
    /\ children (co (snd (delete_child_sas s))) = []
    /\ Inv (snd (delete_child_sas s)) (sad_minus own (tracked_keys (co s))) others
    /\ (new_sa s = None -> sad_minus own (tracked_keys (co s)) = []).
  Proof.
    intros H4 (Hnd & Hse & Hnt) Hk Hns Hf.
    destruct (teardown_general s (own ++ others) H4 Hk Hns Hf) as (_ & Ha & Hc & Hn & Hr).
    assert (Hdisj : forall k, In k others -> ~ In k (tracked_keys (co s))).
    { intros k Ho Ht. assert (Hown : In k own) by (apply Hse; apply in_or_app; left; exact Ht).
      clear - Hnd Hown Ho. induction own as [|x r IH]; [contradiction|].
      cbn in Hnd. inversion Hnd as [|? ? Hx Hr]; subst. destruct Hown as [->|Hown].
      - apply Hx. apply in_or_app. right. exact Ho.
      - apply IH; assumption. }
    rewrite Ha, sad_minus_app, (sad_minus_disjoint others _ Hdisj).
    split; [reflexivity|]. split.
    { intros k Hk' Hin. apply in_app_or in Hin. destruct Hin as [Hin|Hin].
      - apply sad_minus_in in Hin. destruct Hin as [_ Hin]. contradiction.
      - apply (Hdisj k Hin Hk'). }
    split; [exact Hc|].
    assert (Htr : tracked (snd (delete_child_sas s)) = succ_keys (new_sa s)).
    { unfold tracked, tracked_keys. rewrite Hc, Hn. reflexivity. }
    unfold tracked in Hse, Hnt.
    split; [|intros Hnone; rewrite Hnone in *; cbn in *; rewrite app_nil_r in Hse].
    - unfold Inv. rewrite Htr. split; [|split].
      + clear - Hnd. induction own as [|x r IH]; cbn; [exact Hnd|]. cbn in Hnd. inversion Hnd as [|? ? Hx Hr]; subst.
        destruct (existsb (key_eqb x) (tracked_keys (co s))); cbn; [apply IH; exact Hr|].
        constructor; [|apply IH; exact Hr]. intros Hin. apply Hx. apply in_app_or in Hin. apply in_or_app.
        destruct Hin as [Hin|Hin]; [left|right; exact Hin]. apply sad_minus_in in Hin. apply Hin.
      + intros k. rewrite sad_minus_in. split.
        * intros [H1 H2]. apply Hse in H1. apply in_app_or in H1. destruct H1 as [H1|H1]; [contradiction|exact H1].
        * intros H. split; [apply Hse; apply in_or_app; right; exact H|].
          intros H'. clear - Hnt H H'. induction (tracked_keys (co s)) as [|x r IH]; [contradiction|].
          cbn in Hnt. inversion Hnt as [|? ? Hx Hr]; subst. destruct H' as [->|H'].
          -- apply Hx. apply in_or_app. right. exact H.
          -- apply IH; assumption.
      + clear - Hnt. induction (tracked_keys (co s)) as [|x r IH]; [exact Hnt|].
        cbn in Hnt. inversion Hnt; subst. apply IH. assumption.
    - destruct (sad_minus own (tracked_keys (co s))) as [|k r] eqn:Em; [reflexivity|].
      assert (Hin : In k (sad_minus own (tracked_keys (co s)))) by (rewrite Em; left; reflexivity).
      apply sad_minus_in in Hin. destruct Hin as [H1 H2]. apply Hse in H1. contradiction.
  Qed.
End Teardown.

Section Corollaries.
  Variable E : env.

  (** (b) a kernel refusal on the responder side (either NEWSA) changes neither the tracked CHILD_SAs nor the SAD *)
  Theorem responder_refusal_leaves_nothing m s ks x :
    fst (child_nego_req E m s) <> Stuck ->
    kops (snd (child_nego_req E m s)) = kops s ++ ks -> In (K_add x false) ks ->
    children (co (snd (child_nego_req E m s))) = children (co s)
    /\ Rest s (snd (child_nego_req E m s))
    /\ forall sd, faithful_run sd ks -> apply_kops sd ks = sd.
  Proof.
    intros Hns Hk Hin. pose proof (nego_req_spec E m s) as H. unfold post in H.
    destruct H as [H|[H|[(ch & (ks' & H1 & H2) & H3 & H4)|(ch & (ks' & H1 & H2) & H3 & H4)]]].
    - contradiction.
    - destruct H as (A0 & A1 & A2 & A3 & A4 & A5). rewrite A0 in Hk.
      rewrite <- (app_nil_r (kops s)) in Hk at 1. apply app_inv_head in Hk. subst ks. contradiction.
    - rewrite H1 in Hk. apply app_inv_head in Hk. subst ks'. destruct H2 as (a & b & _ & _ & -> & _).
      destruct Hin as [Hin|[Hin|[]]]; discriminate Hin.
    - rewrite H1 in Hk. apply app_inv_head in Hk. subst ks'.
      split; [exact H3|]. split; [exact H4|]. intros sd Hf. apply (refusal_effect _ _ _ _ H2 Hf). auto.
  Qed.

  Lemma remove_child_incl l ch x : In x (remove_child l ch) -> In x l.
  Proof.
    induction l as [|y r IH]; cbn; [auto|]. destruct (child_eqb y ch); [right; assumption|].
    intros [H|H]; [left; exact H|right; apply IH; exact H].
  Qed.

  Lemma Dels_facts s l s' :
    Dels s l s' ->
    exists ks, kops s' = kops s ++ ks /\ DelOps (co s) l ks
               /\ children (co s') = fold_left remove_child l (children (co s)) /\ Rest s s'
               /\ (forall ch, In ch l -> exists y, In y (children (co s)) /\ child_eqb y ch = true).
  Proof.
    intros H. induction H as [s s' H|s s1 s' ch l Hd Hl IH].
    - exists []. destruct H as (A0 & A1 & A2 & A3 & A4 & A5).
      split; [rewrite app_nil_r; exact A0|]. split; [constructor|]. split; [exact A1|].
      split; [unfold Rest; auto|]. intros ch [].
    - destruct IH as (k2 & B0 & B1 & B2 & B3 & B4).
      destruct Hd as ((k1 & C0 & C1) & C2 & C3 & C4).
      exists (k1 ++ k2). split; [rewrite B0, C0; symmetry; apply app_assoc|].
      destruct C4 as (D1 & D2 & D3 & D4). destruct B3 as (E1 & E2 & E3 & E4).
      split; [|split; [|split; [|]]].
      + constructor; [exact C1|]. clear - B1 D1 D2. induction B1; constructor; [|assumption].
        eapply deletes_keys; [| |eassumption]; unfold kout, kin; congruence.
      + cbn. rewrite B2, C3. reflexivity.
      + unfold Rest. repeat split; try congruence. eapply nsame_trans; eassumption.
      + intros ch' [<-|Hin].
        * unfold child_in in C2. apply existsb_exists in C2. exact C2.
        * destruct (B4 ch' Hin) as (y & Hy & Ey). exists y. split; [|exact Ey].
          rewrite C3 in Hy. eapply remove_child_incl. exact Hy.
  Qed.

  Lemma info_request_fine m s :
    post (fun r s' => r = Stuck \/ exists l s1, Dels s l s1 /\ SilA s1 s') (process_informational_request m s).
  Proof.
    unfold process_informational_request.
    apply post_bind_check; intros Hmem.
    - apply delete_loop_spec.
    - right. exists [], s. split; [apply D_nil; apply Sil0_refl|apply SilA_refl].
  Qed.

  (** (c) an INFORMATIONAL request with DELETE payloads removes exactly the two keys of every CHILD_SA it deletes:
      the kernel operations are the two DELSAs of each deleted CHILD_SA, the deleted ones are removed from the
      tracked list, the keys of everything else (and of the other IKE_SAs) stay *)
  Theorem info_request_deletes_exactly s m own others :
    Inv s own others -> WF s -> kops s = [] ->
    fst (process_informational_request m s) <> Stuck ->
    faithful_run (own ++ others) (kops (snd (process_informational_request m s))) ->
    exists dels,
      (forall ch, In ch dels -> exists y, In y (children (co s)) /\ child_eqb y ch = true)
      /\ DelOps (co s) dels (kops (snd (process_informational_request m s)))
      /\ children (co (snd (process_informational_request m s))) = fold_left remove_child dels (children (co s))
      /\ succ_keys (new_sa (snd (process_informational_request m s))) = succ_keys (new_sa s)
      /\ apply_kops (own ++ others) (kops (snd (process_informational_request m s)))
         = sad_minus own (keys_of (co s) dels) ++ others
      /\ Inv (snd (process_informational_request m s)) (sad_minus own (keys_of (co s) dels)) others.
  Proof.
    intros Hi Hwf Hk Hns Hf.
    pose proof (info_request_shape m s) as Hsh. unfold post in Hsh.
    destruct Hsh as [Hsh|Ht]; [contradiction|].
    destruct (trans_main _ _ _ _ Ht Hk Hwf Hi Hf) as (Hfr & Hwf' & Hi').
    pose proof (info_request_fine m s) as Hfine. unfold post in Hfine.
    destruct Hfine as [Hfine|(l & s1 & Hd & Hs)]; [contradiction|].
    destruct (Dels_facts _ _ _ Hd) as (ks & B0 & B1 & B2 & (B31 & B32 & B33 & B34) & B4).
    destruct Hs as [(C0 & C1 & C2 & C3 & C4) _].
    rewrite Hk in B0. cbn in B0.
    assert (Hks : kops (snd (process_informational_request m s)) = ks) by congruence.
    rewrite Hks in *.
    assert (Hsub : forall k, In k (keys_of (co s) l) -> In k (tracked_keys (co s))).
    { intros k Hin. unfold keys_of in Hin. apply in_flat_map in Hin. destruct Hin as (ch & Hch & Hin).
      destruct (B4 ch Hch) as (y & Hy & Ey). rewrite <- (child_eqb_keys (co s) _ _ Ey) in Hin.
      unfold tracked_keys, keys_of. apply in_flat_map. exists y. auto. }
    destruct Hi as (Hnd & Hse & Hnt).
    assert (Hdisj : forall k, In k others -> ~ In k (keys_of (co s) l)).
    { intros k Ho Hin. apply Hsub in Hin.
      assert (Hown : In k own) by (apply Hse; apply in_or_app; left; exact Hin).
      clear - Hnd Hown Ho. induction own as [|x r IH]; [contradiction|].
      cbn in Hnd. inversion Hnd as [|? ? Hx Hr]; subst. destruct Hown as [->|Hown].
      - apply Hx. apply in_or_app. right. exact Ho.
      - apply IH; assumption. }
    assert (Hown : apply_kops own ks = sad_minus own (keys_of (co s) l)).
    { pose proof (delops_effect _ _ _ B1 _ Hf) as H1. rewrite Hfr in H1.
      rewrite sad_minus_app, (sad_minus_disjoint others _ Hdisj) in H1. apply app_inv_tail in H1. exact H1. }
    exists l. split; [exact B4|]. split; [exact B1|]. split; [congruence|].
    split; [rewrite <- (nsame_succ_keys _ _ B34); apply nsame_succ_keys; exact C4|].
    rewrite <- Hown. split; [exact Hfr|exact Hi'].
  Qed.
End Corollaries.

(** ** (a) IKE_SA rekey: the hand-over *)

Lemma hand_quiet a b : Handed a b -> WF a -> kops b = kops a /\ tracked b = tracked a /\ WF b.
Proof.
  intros (A0 & A2 & A3 & A5 & A6 & A1 & n & n' & B0 & B1 & B2 & B3 & B4) Hwf.
  destruct (Hwf n B0) as (C1 & C2 & C3).
  destruct C3 as [C3|C3]; [|rewrite C3 in A5; discriminate A5].
  split; [exact A0|]. split.
  - unfold tracked, tracked_keys. rewrite A1, B0, B1. cbn.
    unfold tracked_keys. rewrite C3, B2. cbn. rewrite app_nil_r. apply keys_of_addr; congruence.
  - intros x Hx. rewrite B1 in Hx. injection Hx as <-. split; [congruence|]. split; [congruence|]. right. exact A6.
Qed.

(** runs made of silent steps, successor creation and hand-over only *)
Inductive QTrans : isa -> isa -> Prop :=
| Q_refl s : QTrans s s
| Q_sil s a b : QTrans s a -> SilA a b -> QTrans s b
| Q_succ s a b : QTrans s a -> Succ a b -> QTrans s b
| Q_hand s a b : QTrans s a -> Handed a b -> QTrans s b.
Lemma QTrans_Trans s s' : QTrans s s' -> Trans s s'.
Proof.
  intros H. induction H; [apply T_refl| | |]; (eapply T_step; [eassumption|]);
    [apply A_sil|apply A_succ|apply A_hand]; assumption.
Qed.
Lemma QTrans_quiet s s' : QTrans s s' -> WF s -> kops s' = kops s /\ tracked s' = tracked s /\ WF s'.
Proof.
  intros H Hwf. induction H as [s|s a b H IH Hs|s a b H IH Hs|s a b H IH Hs]; [auto| | |];
    destruct (IH Hwf) as (A & B & C).
  - destruct (sila_quiet _ _ Hs C) as (A' & B' & C'). split; [congruence|]. split; [congruence|exact C'].
  - destruct (succ_quiet _ _ Hs C) as (A' & B' & C'). split; [congruence|]. split; [congruence|exact C'].
  - destruct (hand_quiet _ _ Hs C) as (A' & B' & C'). split; [congruence|]. split; [congruence|exact C'].
Qed.
Lemma QTrans_trans a b c : QTrans a b -> QTrans b c -> QTrans a c.
Proof.
  intros H1 H2. induction H2 as [|s x y H IH Hs|s x y H IH Hs|s x y H IH Hs]; [exact H1| | |].
  - eapply Q_sil; [apply IH; exact H1|exact Hs].
  - eapply Q_succ; [apply IH; exact H1|exact Hs].
  - eapply Q_hand; [apply IH; exact H1|exact Hs].
Qed.

(** the CHILD_SAs of the old IKE_SA are now those of the successor *)
Definition Moved (s s' : isa) : Prop :=
  children (co s') = [] /\
  exists n', new_sa s' = Some n' /\ children n' = children (co s)
             /\ my_addr n' = my_addr (co s) /\ peer_addr n' = peer_addr (co s).

Definition ike_rekey_request (m : pmsg body) : bool :=
  match get_payloads m K_SA true with
  | psa :: _ => match sa_props psa with p0 :: _ => pr_proto p0 =? PROTO_IKE | [] => false end
  | [] => false
  end.

Section Rekey.
  Variable E : env.

  Lemma ccsa_request_fine m s :
    post (fun r s' =>
            r = Stuck
            \/ (ike_rekey_request m = true /\ QTrans s s'
                /\ (forall ps, r = Ok ps -> st (co s) = ST_ESTABLISHED -> Moved s s' /\ st (co s') = ST_REKEYED))
            \/ (ike_rekey_request m = false /\ exists s1, Sil0 s s1 /\ RespStep s1 s'))
         (process_create_child_sa_request E m s).
  Proof.
    unfold process_create_child_sa_request.
    apply post_bind_check; intros Hmem.
    2:{ right. destruct (ike_rekey_request m).
        - left. split; [reflexivity|]. split; [apply Q_refl|]. intros ps H. discriminate H.
        - right. split; [reflexivity|]. exists s. split; [apply Sil0_refl|left; apply Sil0_refl]. }
    unfold get_payload, ike_rekey_request.
    destruct (get_payloads m K_SA true) as [|psa rest].
    { apply post_bind_raise. right. right. split; [reflexivity|]. exists s. split; [apply Sil0_refl|left; apply Sil0_refl]. }
    apply post_bind_ret. unfold first_prop.
    destruct (sa_props psa) as [|p0 rest'].
    { apply post_bind_raise. right. right. split; [reflexivity|]. exists s. split; [apply Sil0_refl|left; apply Sil0_refl]. }
    apply post_bind_ret.
    destruct (pr_proto p0 =? PROTO_IKE).
    2:{ eapply post_conseq; [apply nego_req_spec|]. cbv beta.
        intros r s' [->|H]; [left; reflexivity|]. right. right. split; [reflexivity|].
        exists s. split; [apply Sil0_refl|exact H]. }
    apply post_bind_getc.
    destruct (ike_rekey_while_busy (st (co s))) eqn:Ebusy.
    { apply post_ret. right. left. split; [reflexivity|]. split; [apply Q_refl|].
      intros ps _ Hst. rewrite Hst in Ebusy. discriminate Ebusy. }
    eapply post_bind; [apply new_core_spec|]. intros r s2 [Hs2 Hnc]. destruct r as [nc|e|].
    2:{ right. left. split; [reflexivity|]. split; [eapply Q_sil; [apply Q_refl|apply Sil0_SilA; exact Hs2]|].
        intros ps H. discriminate H. }
    2:{ left. reflexivity. }
    specialize (Hnc nc eq_refl). destruct Hnc as (N1 & N2 & N3).
    apply post_bind_modify.
    match goal with |- post _ (_ ?S0) => set (S := S0) end.
    assert (Hcl : closing (st (co s)) = false).
    { unfold ike_rekey_while_busy in Ebusy. apply negb_false_iff in Ebusy. apply Z.eqb_eq in Ebusy.
      rewrite Ebusy. reflexivity. }
    assert (Hsucc : Succ s S).
    { destruct Hs2 as (A0 & A1 & A2 & A3 & A4 & A5). subst S. unfold Succ; cbn.
      repeat split; try assumption. exists nc. repeat split; try assumption; congruence. }
    assert (HQ : QTrans s S) by (eapply Q_succ; [apply Q_refl|exact Hsucc]).
    assert (HnS : new_sa S = Some nc) by reflexivity.
    assert (HS : children (co S) = children (co s) /\ my_addr (co S) = my_addr (co s)
                 /\ peer_addr (co S) = peer_addr (co s) /\ st (co S) = st (co s)).
    { destruct Hsucc as (_ & A1 & A2 & A3 & A4 & _). auto. }
    clear Hs2 Hsucc. clearbody S. pose proof (Tr_refl S) as Hc0.
    assert (Hleaf : forall (r : res (list payload)) sx, Tr S [] sx -> (forall ps, r <> Ok ps) ->
              r = Stuck \/
              (true = true /\ QTrans s sx /\
               (forall ps, r = Ok ps -> st (co s) = ST_ESTABLISHED -> Moved s sx /\ st (co sx) = ST_REKEYED)) \/
              (true = false /\ (exists s1 : isa, Sil0 s s1 /\ RespStep s1 sx))).
    { intros r sx Hx Hr. right. left. split; [reflexivity|].
      split; [eapply Q_sil; [exact HQ|apply Sil0_SilA; apply Tr_nil_Sil0; exact Hx]|].
      intros ps H. exfalso. apply (Hr ps H). }
    step; [|name_cur Hx; apply (Hleaf _ _ Hx); intros ps H; discriminate H|left; reflexivity].
    step; [|name_cur Hx; apply (Hleaf _ _ Hx); intros ps H; discriminate H|left; reflexivity].
    apply post_bind_modify. apply post_ret.
    name_cur Hc3. match type of Hc3 with Tr _ _ ?x => rename x into s5 end.
    pose proof (proj1 (Tr_nil_Sil0 _ _) Hc3) as Hs5.
    destruct Hc3 as [_ (B1 & B2 & B3 & B4 & B5)]. rewrite HnS in B5.
    destruct (new_sa s5) as [n|] eqn:En; [|contradiction].
    destruct B5 as (C1 & C2 & C3). destruct HS as (S1 & S2 & S3 & S4).
    right. left. split; [reflexivity|]. split.
    - eapply Q_hand; [eapply Q_sil; [exact HQ|apply Sil0_SilA; exact Hs5]|].
      unfold Handed; cbn. rewrite ?En. cbn.
      repeat split; try reflexivity; try congruence.
      exists n. eexists. repeat split; reflexivity.
    - intros ps _ Hst. cbn. rewrite ?En. cbn. split; [|reflexivity].
      split; [reflexivity|]. eexists. split; [reflexivity|]. cbn. repeat split; congruence.
  Qed.

  Lemma Moved_sila s a s' : Moved s a -> SilA a s' -> Moved s s'.
  Proof.
    intros (M1 & n' & M2 & M3 & M4 & M5) [(A0 & A1 & A2 & A3 & A4) _]. split; [congruence|].
    rewrite M2 in A4. destruct (new_sa s') as [n''|]; [|contradiction]. destruct A4 as (B1 & B2 & B3).
    exists n''. repeat split; congruence.
  Qed.

  Lemma ccsa_response_fine m s :
    post (fun r s' =>
            r = Stuck
            \/ (st (co s) = ST_REK_IKE_SA_REQ_SENT /\ QTrans s s'
                /\ (nonempty (get_notifies m N_INVALID_KE_PAYLOAD true) = false ->
                    nonempty (get_notifies m N_TEMPORARY_FAILURE true) = false ->
                    nonempty (get_notifies m N_NO_ADDITIONAL_SAS true) = false ->
                    forall x, r = Ok x -> WF s -> Moved s s'))
            \/ (st (co s) <> ST_REK_IKE_SA_REQ_SENT /\ Trans s s'))
         (process_create_child_sa_response E m s).
  Proof.
    pose proof (Tr_refl s) as Hc0.
    unfold process_create_child_sa_response.
    apply post_bind_check; intros Hmem.
    2:{ right. right. split; [|apply T_refl]. intros H. rewrite H in Hmem. discriminate Hmem. }
    apply memZ_open in Hmem; [|reflexivity].
    assert (Hleaf : forall (r : res (option (Z * list payload))) sx, Tr s [] sx -> (forall x, r <> Ok x) ->
              r = Stuck \/
              (st (co s) = ST_REK_IKE_SA_REQ_SENT /\ QTrans s sx /\
               (nonempty (get_notifies m N_INVALID_KE_PAYLOAD true) = false ->
                nonempty (get_notifies m N_TEMPORARY_FAILURE true) = false ->
                nonempty (get_notifies m N_NO_ADDITIONAL_SAS true) = false ->
                forall x, r = Ok x -> WF s -> Moved s sx)) \/
              (st (co s) <> ST_REK_IKE_SA_REQ_SENT /\ Trans s sx)).
    { intros r sx Hx Hr. right.
      destruct (Z.eq_dec (st (co s)) ST_REK_IKE_SA_REQ_SENT) as [He|He].
      - left. split; [exact He|]. split; [eapply Q_sil; [apply Q_refl|apply Sil0_SilA; apply Tr_nil_Sil0; exact Hx]|].
        intros _ _ _ x H. exfalso. apply (Hr x H).
      - right. split; [exact He|]. apply Trans_sil0. apply Tr_nil_Sil0. exact Hx. }
    step; [|name_cur Hx; apply (Hleaf _ _ Hx); intros x H; discriminate H|left; reflexivity].
    apply post_bind_getc.
    name_cur Hx. match type of Hx with Tr _ _ ?y => rename y into s0 end.
    pose proof (proj1 (Tr_nil_Sil0 _ _) Hx) as Hs0. pose proof (Tr_st _ _ _ Hx) as Hst0.
    assert (Hopen : closing (st (co s0)) = false) by congruence.
    destruct (st (co s0) =? ST_REK_IKE_SA_REQ_SENT) eqn:E13.
    - apply Z.eqb_eq in E13. assert (E13' : st (co s) = ST_REK_IKE_SA_REQ_SENT) by congruence.
      assert (HQ0 : QTrans s s0) by (eapply Q_sil; [apply Q_refl|apply Sil0_SilA; exact Hs0]).
      destruct (nonempty (get_notifies m N_INVALID_KE_PAYLOAD true)).
      { clear Hx. apply post_sil1_open; [sil1_tac|exact Hopen|].
        intros r s1 Hs. right. left. split; [exact E13'|]. split; [eapply Q_sil; eassumption|].
        intros H. discriminate H. }
      destruct (nonempty (get_notifies m N_TEMPORARY_FAILURE true)).
      { clear Hx. apply post_sil1_open; [sil1_tac|exact Hopen|].
        intros r s1 Hs. right. left. split; [exact E13'|]. split; [eapply Q_sil; eassumption|].
        intros _ H. discriminate H. }
      destruct (nonempty (get_notifies m N_NO_ADDITIONAL_SAS true)).
      { clear Hx. apply post_sil1_open; [sil1_tac|exact Hopen|].
        intros r s1 Hs. right. left. split; [exact E13'|]. split; [eapply Q_sil; eassumption|].
        intros _ _ H. discriminate H. }
      clear Hx Hleaf. pose proof (Tr_refl s0) as Hc1.
      assert (Hleaf : forall (r : res (option (Z * list payload))) sx, Tr s0 [] sx -> (forall x, r <> Ok x) ->
                r = Stuck \/
                (st (co s) = ST_REK_IKE_SA_REQ_SENT /\ QTrans s sx /\
                 (false = false -> false = false -> false = false -> forall x, r = Ok x -> WF s -> Moved s sx)) \/
                (st (co s) <> ST_REK_IKE_SA_REQ_SENT /\ Trans s sx)).
      { intros r sx Hy Hr. right. left. split; [exact E13'|].
        split; [eapply Q_sil; [exact HQ0|apply Sil0_SilA; apply Tr_nil_Sil0; exact Hy]|].
        intros _ _ _ x H. exfalso. apply (Hr x H). }
      apply post_bind_getw_true; [intros n Hn|intros _; apply (Hleaf _ _ Hc1); intros x H; discriminate H].
      step; [|name_cur Hy; apply (Hleaf _ _ Hy); intros x H; discriminate H|left; reflexivity].
      step; [|name_cur Hy; apply (Hleaf _ _ Hy); intros x H; discriminate H|left; reflexivity].
      step; [|name_cur Hy; apply (Hleaf _ _ Hy); intros x H; discriminate H|left; reflexivity].
      step; [|name_cur Hy; apply (Hleaf _ _ Hy); intros x H; discriminate H|left; reflexivity].
      apply post_bind_modify.
      name_cur Hc3. match type of Hc3 with Tr _ _ ?y => rename y into s5 end.
      pose proof (proj1 (Tr_nil_Sil0 _ _) Hc3) as Hs5. pose proof (Tr_st _ _ _ Hc3) as Hst5.
      match goal with |- post _ (_ ?S0) => set (S := S0) end.
      destruct Hc3 as [_ (B1 & B2 & B3 & B4 & B5)]. rewrite Hn in B5.
      destruct (new_sa s5) as [n5|] eqn:En; [|contradiction].
      destruct B5 as (C1 & C2 & C3).
      assert (Hh : Handed s5 S).
      { subst S. unfold Handed; cbn. rewrite ?En. cbn.
        repeat split; try reflexivity; try congruence.
        exists n5. eexists. repeat split; reflexivity. }
      assert (Hmv : WF s -> Moved s S).
      { intros Hwf. destruct Hs0 as (D0 & D1 & D2 & D3 & D4 & D5).
        rewrite Hn in D5. destruct (new_sa s) as [n0|] eqn:En0; [|contradiction]. destruct D5 as (F1 & F2 & F3).
        destruct (Hwf n0 En0) as (W1 & W2 & _).
        subst S. unfold Moved; cbn. rewrite ?En. cbn. split; [reflexivity|].
        eexists. split; [reflexivity|]. cbn. repeat split; congruence. }
      assert (HQ5 : QTrans s S).
      { eapply Q_hand; [eapply Q_sil; [exact HQ0|apply Sil0_SilA; exact Hs5]|exact Hh]. }
      clearbody S. clear Hleaf.
      apply post_sila; [sila_tac|]. intros r s6 Hs.
      right. left. split; [exact E13'|]. split; [eapply Q_sil; eassumption|].
      intros _ _ _ x _ Hwf. eapply Moved_sila; [apply Hmv; exact Hwf|exact Hs].
    - apply Z.eqb_neq in E13. assert (E13' : st (co s) <> ST_REK_IKE_SA_REQ_SENT) by congruence.
      assert (HT0 : Trans s s0) by (apply Trans_sil0; exact Hs0).
      destruct (nonempty (get_notifies m N_INVALID_KE_PAYLOAD true)).
      { clear Hx. apply post_sil1_open; [sil1_tac|exact Hopen|].
        intros r s1 Hs. right. right. split; [exact E13'|]. eapply T_step; [exact HT0|apply A_sil; exact Hs]. }
      unfold set_state. apply post_bind_modc.
      match goal with |- post _ (_ ?S0) => set (S := S0) end.
      assert (HT2 : Trans s S).
      { eapply T_step; [exact HT0|]. apply A_sil. apply SilA_set_state. left. exact Hopen. }
      clearbody S. clear Hx.
      eapply post_conseq; [apply res_guarded_spec; sila_tac|]. cbv beta.
      intros r s' [->|Hsh]; [left; reflexivity|]. right. right. split; [exact E13'|]. eapply Trans_trans; eassumption.
  Qed.

  (** (a) request side: a CREATE_CHILD_SA request whose first proposal is an IKE proposal never touches the kernel
      and keeps the tracked keys (as a list); when it succeeds the CHILD_SAs are those of the successor *)
  Theorem ike_rekey_request_handover m s :
    WF s -> ike_rekey_request m = true -> fst (process_create_child_sa_request E m s) <> Stuck ->
    kops (snd (process_create_child_sa_request E m s)) = kops s
    /\ tracked (snd (process_create_child_sa_request E m s)) = tracked s
    /\ WF (snd (process_create_child_sa_request E m s))
    /\ (forall ps, fst (process_create_child_sa_request E m s) = Ok ps -> st (co s) = ST_ESTABLISHED ->
        Moved s (snd (process_create_child_sa_request E m s))
        /\ st (co (snd (process_create_child_sa_request E m s))) = ST_REKEYED).
  Proof.
    intros Hwf Hike Hns. pose proof (ccsa_request_fine m s) as H. unfold post in H.
    destruct H as [H|[(_ & HQ & Hm)|(H & _)]]; [contradiction| |rewrite Hike in H; discriminate H].
    destruct (QTrans_quiet _ _ HQ Hwf) as (A & B & C). auto.
  Qed.

  (** (a) initiator side: every answer to an IKE_SA rekey request (state REK_IKE_SA_REQ_SENT) is processed without
      touching the kernel and keeps the tracked keys; a positive answer moves the CHILD_SAs to the successor *)
  Theorem ike_rekey_response_handover m s :
    WF s -> st (co s) = ST_REK_IKE_SA_REQ_SENT -> fst (process_create_child_sa_response E m s) <> Stuck ->
    kops (snd (process_create_child_sa_response E m s)) = kops s
    /\ tracked (snd (process_create_child_sa_response E m s)) = tracked s
    /\ WF (snd (process_create_child_sa_response E m s))
    /\ (nonempty (get_notifies m N_INVALID_KE_PAYLOAD true) = false ->
        nonempty (get_notifies m N_TEMPORARY_FAILURE true) = false ->
        nonempty (get_notifies m N_NO_ADDITIONAL_SAS true) = false ->
        forall x, fst (process_create_child_sa_response E m s) = Ok x ->
        Moved s (snd (process_create_child_sa_response E m s))).
  Proof.
    intros Hwf Hst Hns. pose proof (ccsa_response_fine m s) as H. unfold post in H.
    destruct H as [H|[(_ & HQ & Hm)|(H & _)]]; [contradiction| |contradiction].
    destruct (QTrans_quiet _ _ HQ Hwf) as (A & B & C).
    split; [exact A|]. split; [exact B|]. split; [exact C|]. intros H1 H2 H3 x Hx. eapply Hm; eauto.
  Qed.

  (** (b) at handler level *)
  Lemma resp_refusal s s1 s2 s' ks x :
    Sil0 s s1 -> RespStep s1 s2 -> SilA s2 s' -> kops s' = kops s ++ ks -> In (K_add x false) ks ->
    children (co s') = children (co s) /\ forall sd, faithful_run sd ks -> apply_kops sd ks = sd.
  Proof.
    intros (A0 & A1 & _) Hr [(C0 & C1 & _) _] Hk Hin.
    destruct Hr as [H|[(ch & (ks' & H1 & H2) & H3 & H4)|(ch & (ks' & H1 & H2) & H3 & H4)]].
    - destruct H as (B0 & B1 & _). exfalso.
      assert (Hnil : kops s ++ ks = kops s ++ []) by (rewrite app_nil_r; congruence).
      apply app_inv_head in Hnil. subst ks. contradiction.
    - exfalso. assert (Heq : kops s ++ ks = kops s ++ ks') by congruence.
      apply app_inv_head in Heq. subst ks'. destruct H2 as (a & b & _ & _ & -> & _).
      destruct Hin as [Hin|[Hin|[]]]; discriminate Hin.
    - assert (Heq : kops s ++ ks = kops s ++ ks') by congruence.
      apply app_inv_head in Heq. subst ks'. split; [congruence|].
      intros sd Hf. apply (refusal_effect _ _ _ _ H2 Hf). auto.
  Qed.

  Theorem ccsa_request_refusal m s ks x :
    fst (process_create_child_sa_request E m s) <> Stuck ->
    kops (snd (process_create_child_sa_request E m s)) = kops s ++ ks -> In (K_add x false) ks ->
    children (co (snd (process_create_child_sa_request E m s))) = children (co s)
    /\ forall sd, faithful_run sd ks -> apply_kops sd ks = sd.
  Proof.
    intros Hns Hk Hin. pose proof (ccsa_request_fine m s) as H. unfold post in H.
    destruct H as [H|[(_ & HQ & _)|(_ & s1 & H1 & H2)]]; [contradiction| |].
    - exfalso. (* the IKE branch issues no kernel operation *)
      assert (Hq : kops (snd (process_create_child_sa_request E m s)) = kops s).
      { clear - HQ. induction HQ as [|s a b H IH Hs|s a b H IH Hs|s a b H IH Hs]; [reflexivity| | |]; rewrite <- IH.
        - destruct Hs as [(A & _) _]. exact A.
        - destruct Hs as (A & _). exact A.
        - destruct Hs as (A & _). exact A. }
      assert (Hnil : kops s ++ ks = kops s ++ []) by (rewrite app_nil_r; congruence).
      apply app_inv_head in Hnil. subst ks. contradiction.
    - eapply resp_refusal; try eassumption. apply SilA_refl.
  Qed.

  Lemma auth_request_fine m s :
    post (fun r s' => r = Stuck \/ exists s1 s2, Sil0 s s1 /\ RespStep s1 s2 /\ SilA s2 s')
         (process_ike_auth_request E m s).
  Proof.
    pose proof (Tr_refl s) as Hc0.
    assert (Hleaf : forall (r : res (list payload)) sx, Tr s [] sx ->
              r = Stuck \/ exists s1 s2, Sil0 s s1 /\ RespStep s1 s2 /\ SilA s2 sx).
    { intros r sx Hx. right. exists s, s. split; [apply Sil0_refl|]. split; [left; apply Sil0_refl|].
      apply Sil0_SilA. apply Tr_nil_Sil0. exact Hx. }
    unfold process_ike_auth_request.
    apply post_bind_check; intros Hmem; [|apply Hleaf; exact Hc0].
    apply memZ_open in Hmem; [|reflexivity].
    repeat step; try (name_cur Hx; apply (Hleaf _ _ Hx)); try (left; reflexivity).
    name_cur Hx. match type of Hx with Tr _ _ ?y => rename y into s8 end.
    pose proof (proj1 (Tr_nil_Sil0 _ _) Hx) as Hs8. pose proof (Tr_st _ _ _ Hx) as Hst8. clear Hx Hleaf.
    eapply post_bind; [apply nego_req_spec|]. intros r s9 H. destruct r as [rps|e|]; [| |left; reflexivity].
    2:{ destruct H as [H|H]; [discriminate H|]. right. exists s8, s9. split; [exact Hs8|]. split; [exact H|apply SilA_refl]. }
    destruct H as [H|H]; [discriminate H|].
    pose proof (proj2 (RespStep_atom _ _ H)) as Hst9.
    pose proof (Tr_refl s9) as Hc0.
    assert (Hleaf : forall (r : res (list payload)) sx, Tr s9 [] sx ->
              r = Stuck \/ exists s1 s2, Sil0 s s1 /\ RespStep s1 s2 /\ SilA s2 sx).
    { intros r sx Hx. right. exists s8, s9. split; [exact Hs8|]. split; [exact H|].
      apply Sil0_SilA. apply Tr_nil_Sil0. exact Hx. }
    repeat step; try (name_cur Hx; apply (Hleaf _ _ Hx)); try (left; reflexivity).
    unfold set_state. apply post_bind_modc. apply post_ret.
    name_cur Hx. pose proof (Tr_st _ _ _ Hx) as Hstx.
    right. exists s8, s9. split; [exact Hs8|]. split; [exact H|].
    eapply SilA_trans; [apply Sil0_SilA; apply Tr_nil_Sil0; exact Hx|].
    apply SilA_set_state. left. congruence.
  Qed.

  Theorem auth_request_refusal m s ks x :
    fst (process_ike_auth_request E m s) <> Stuck ->
    kops (snd (process_ike_auth_request E m s)) = kops s ++ ks -> In (K_add x false) ks ->
    children (co (snd (process_ike_auth_request E m s))) = children (co s)
    /\ forall sd, faithful_run sd ks -> apply_kops sd ks = sd.
  Proof.
    intros Hns Hk Hin. pose proof (auth_request_fine m s) as H. unfold post in H.
    destruct H as [H|(s1 & s2 & H1 & H2 & H3)]; [contradiction|].
    eapply resp_refusal; eassumption.
  Qed.
End Rekey.

(** ** The initiator side of a kernel refusal, and the shell's DELETED mark *)
Section More.
  Variable E : env.

  (** as on the responder (b): a refused NEWSA while processing the answer to our CHILD_SA request leaves the tracked
      CHILD_SAs and the SAD as they were (the generic exception then makes the shell mark the IKE_SA DELETED) *)
  Theorem initiator_refusal_leaves_nothing m s ks x :
    fst (child_nego_res E m s) <> Stuck ->
    kops (snd (child_nego_res E m s)) = kops s ++ ks -> In (K_add x false) ks ->
    children (co (snd (child_nego_res E m s))) = children (co s)
    /\ Rest s (snd (child_nego_res E m s))
    /\ forall sd, faithful_run sd ks -> apply_kops sd ks = sd.
  Proof.
    intros Hns Hk Hin. pose proof (nego_res_spec E m s) as H. unfold post in H.
    destruct (fst (child_nego_res E m s)) as [[]|e|]; [| |contradiction].
    - exfalso. destruct H as (ch & (ks' & H1 & H2) & _).
      assert (Heq : kops s ++ ks = kops s ++ ks') by congruence.
      apply app_inv_head in Heq. subst ks'. destruct H2 as (a & b & _ & _ & -> & _).
      destruct Hin as [Hin|[Hin|[]]]; discriminate Hin.
    - destruct H as [H|(ch & (ks' & H1 & H2) & H3 & H4)].
      + exfalso. destruct H as (A0 & _).
        assert (Hnil : kops s ++ ks = kops s ++ []) by (rewrite app_nil_r; congruence).
        apply app_inv_head in Hnil. subst ks. contradiction.
      + assert (Heq : kops s ++ ks = kops s ++ ks') by congruence.
        apply app_inv_head in Heq. subst ks'.
        split; [exact H3|]. split; [exact H4|]. intros sd Hf. apply (refusal_effect _ _ _ _ H2 Hf). auto.
  Qed.
End More.

(** the shell marks an IKE_SA DELETED (handler error, retransmissions exhausted): the invariant is not affected *)
Theorem mark_deleted_inv s own others :
  Inv s own others -> WF s ->
  Inv (s <| co := (co s) <| st := ST_DELETED |> |>) own others /\ WF (s <| co := (co s) <| st := ST_DELETED |> |>).
Proof.
  intros Hi Hwf.
  assert (Hs : SilA s (s <| co := (co s) <| st := ST_DELETED |> |>)) by (apply SilA_set_state; right; reflexivity).
  destruct (sila_quiet _ _ Hs Hwf) as (_ & Ht & Hw). split; [|exact Hw]. unfold Inv in *. rewrite Ht. exact Hi.
Qed.

(** ** Where the invariant starts, and what the definitions say *)
Lemma WF_no_successor s : new_sa s = None -> WF s.
Proof. intros H n Hn. rewrite H in Hn. discriminate Hn. Qed.
Lemma Inv_no_children s others :
  children (co s) = [] -> new_sa s = None -> NoDup others -> Inv s [] others.
Proof.
  intros Hc Hn Hnd. unfold Inv, tracked, tracked_keys. rewrite Hc, Hn. cbn.
  split; [exact Hnd|]. split; [intros k; tauto|constructor].
Qed.
Lemma initially s others :
  children (co s) = [] -> new_sa s = None -> NoDup others -> Inv s [] others /\ WF s.
Proof. intros H1 H2 H3. split; [exact (Inv_no_children s others H1 H2 H3)|exact (WF_no_successor s H2)]. Qed.
Lemma Moved_unfold s s' :
  Moved s s' <->
  children (co s') = [] /\
  exists n', new_sa s' = Some n' /\ children n' = children (co s)
             /\ my_addr n' = my_addr (co s) /\ peer_addr n' = peer_addr (co s).
Proof. reflexivity. Qed.
Lemma Inv_unfold s own others :
  Inv s own others <->
  NoDup (own ++ others) /\ (forall k, In k own <-> In k (tracked s)) /\ NoDup (tracked s).
Proof. reflexivity. Qed.
Lemma tracked_unfold s :
  tracked s =
  flat_map (fun ch => [(peer_addr (co s), ipsec_proto (c_prop ch), c_out ch);
                       (my_addr (co s), ipsec_proto (c_prop ch), c_in ch)]) (children (co s))
  ++ match new_sa s with
     | Some n => flat_map (fun ch => [(peer_addr n, ipsec_proto (c_prop ch), c_out ch);
                                      (my_addr n, ipsec_proto (c_prop ch), c_in ch)]) (children n)
     | None => []
     end.
Proof. unfold tracked, succ_keys, tracked_keys, keys_of, child_keys, kout, kin. destruct (new_sa s); reflexivity. Qed.
Lemma WF_unfold s :
  WF s <-> forall n, new_sa s = Some n ->
             my_addr n = my_addr (co s) /\ peer_addr n = peer_addr (co s)
             /\ (children n = [] \/ st (co s) = ST_DEL_AFTER_REKEY_IKE_SA_REQ_SENT \/ st (co s) = ST_REKEYED
                 \/ st (co s) = ST_DELETED).
Proof.
  unfold WF, closing. split; intros H n Hn; destruct (H n Hn) as (A & B & C); (split; [exact A|split; [exact B|]]).
  - destruct C as [C|C]; [left; exact C|right]. apply orb_prop in C. destruct C as [C|C].
    + apply orb_prop in C. destruct C as [C|C]; apply Z.eqb_eq in C; auto.
    + apply Z.eqb_eq in C. auto.
  - destruct C as [C|[C|[C|C]]]; [left; exact C| | |]; right; rewrite C; reflexivity.
Qed.
(** the controller registers the successor: the old IKE_SA forgets it *)
Lemma WF_register s : WF (s <| new_sa := None |>).
Proof. apply WF_no_successor. reflexivity. Qed.

(* ------------------------------------------------------------------------------------------------ *)
(** * Non-vacuity: concrete runs *)
Module Example.
  Definition E0 : env :=
    mk_env (fun _ _ _ _ _ _ _ => Some (mk_kr [] [] [] [] [] [] []))
           (fun _ _ _ _ => Some (mk_ckr [] [] [] []))
           (fun _ _ _ => Some []) (fun _ _ _ => []) (fun _ => []) (fun _ _ => true) (fun _ => []) (fun _ _ => [])
           (fun _ => []).
  Definition esp_prop (spi : bytes) : proposal :=
    mk_prop 1 PROTO_ESP spi [mk_tr T_ENCR 12 (Some 128); mk_tr T_INTEG 12 None; mk_tr T_ESN 0 None].
  Definition ike_prop : proposal :=
    mk_prop 1 PROTO_IKE [] [mk_tr T_ENCR 12 (Some 128); mk_tr T_PRF 5 None; mk_tr T_INTEG 12 None; mk_tr T_DH 14 None].
  Definition ts0 : ts := mk_ts 7 0 0 65535 100 200.
  Definition ts1 : ts := mk_ts 7 0 0 65535 300 400.
  Definition au0 : authc := mk_authc 1 [] (Some [1%N]) false false.
  Definition cf0 : conf := mk_conf ike_prop [mk_protect 1 (esp_prop []) ts0 ts1 MODE_TUNNEL (-1)] au0 au0 60 3600.
  Definition ch1 : child :=
    mk_child [0;0;0;1]%N [0;0;0;2]%N (esp_prop []) (esp_prop [0;0;0;1]%N) [ts1] [ts0] MODE_TUNNEL (-1).
  Definition core0 (state : Z) (chs : list child) : core :=
    mk_core state false [1]%N [2]%N 10 20 cf0 (Some (mk_kr [] [] [] [] [] [] [])) (Some ike_prop) (Some ike_prop) chs
            None None None None None None None None 0 0 0 false.
  Definition h0 (exch : Z) (resp : bool) : hdr := mk_hdr 2 1 2 0 exch resp true 0.
  Definition own1 : sad := [(20, 50, [0;0;0;2]%N); (10, 50, [0;0;0;1]%N)].
  Definition others1 : sad := [(20, 50, [0;0;0;9]%N)].

  Ltac nodup_tac := repeat (constructor; [cbn; intuition congruence|]); constructor.
  Ltac run_facts := vm_compute; repeat split; try reflexivity; try discriminate; try (intros; intuition congruence).

  (** a state with one CHILD_SA whose two keys are installed, and a key of another IKE_SA to the same peer *)
  Definition s_est (tp : list draw) : isa := mk_isa (core0 ST_ESTABLISHED [ch1]) None None 0 tp [].
  Example ex_inv tp : Inv (s_est tp) own1 others1.
  Proof.
    split; [nodup_tac|]. split; [|vm_compute; nodup_tac].
    intros k. vm_compute. tauto.
  Qed.
  Example ex_wf tp : WF (s_est tp).
  Proof. intros n H. discriminate H. Qed.

  (** 1. a DELETE request for that CHILD_SA, verdicts true, true *)
  Definition m_del : pmsg body := mk_pmsg (h0 EX_INFORMATIONAL false) true ([], [P_DELETE PROTO_ESP [[0;0;0;2]%N]]).
  Definition s_del := s_est [D_verdict true; D_verdict true].
  Example ex_delete_run :
    let s' := fst (h_request E0 s_del m_del) in
    st (co s') <> -1 /\ faithful_run (own1 ++ others1) (kops s') /\
    kops s' = [K_del 20 50 [0;0;0;2]%N true; K_del 10 50 [0;0;0;1]%N true] /\
    apply_kops own1 (kops s') = [] /\ apply_kops (own1 ++ others1) (kops s') = others1 /\ children (co s') = [].
  Proof. run_facts. Qed.
  (** the hypotheses of the main theorem are satisfied by this run, and its conclusion is the computed one *)
  Example ex_delete_theorem :
    apply_kops (own1 ++ others1) (kops (fst (h_request E0 s_del m_del))) = [] ++ others1
    /\ WF (fst (h_request E0 s_del m_del)) /\ Inv (fst (h_request E0 s_del m_del)) [] others1.
  Proof.
    destruct ex_delete_run as (H1 & H2 & _).
    exact (h_request_sad E0 s_del m_del own1 others1 (ex_inv _) (ex_wf _) eq_refl H1 H2).
  Qed.

  Example ex_delete_all :
    Inv s_del own1 others1 /\ WF s_del /\
    apply_kops (own1 ++ others1) (kops (fst (h_request E0 s_del m_del))) = [] ++ others1
    /\ WF (fst (h_request E0 s_del m_del)) /\ Inv (fst (h_request E0 s_del m_del)) [] others1.
  Proof. exact (conj (ex_inv _) (conj (ex_wf _) ex_delete_theorem)). Qed.

  (** 2. a CREATE_CHILD_SA request: both NEWSA accepted, the new CHILD_SA is tracked *)
  Definition m_new (spi : bytes) : pmsg body := mk_pmsg (h0 EX_CREATE_CHILD_SA false) true
     ([], [P_SA [esp_prop spi]; P_TSi [ts1]; P_TSr [ts0]; P_NONCE [8%N]]).
  Definition s_new (v : list draw) := s_est ([D_num 16; D_bytes [5%N]; D_bytes [0;0;0;7]%N] ++ v).
  Example ex_create_run :
    let s' := fst (h_request E0 (s_new [D_verdict true; D_verdict true]) (m_new [0;0;0;8]%N)) in
    st (co s') <> -1 /\ faithful_run (own1 ++ others1) (kops s') /\
    apply_kops own1 (kops s') = (10, 50, [0;0;0;7]%N) :: (20, 50, [0;0;0;8]%N) :: own1 /\
    map (fun c => (c_in c, c_out c)) (children (co s')) = [([0;0;0;1]%N, [0;0;0;2]%N); ([0;0;0;7]%N, [0;0;0;8]%N)].
  Proof. run_facts. Qed.

  (** 3. the peer proposes an SPI that is installed for ANOTHER IKE_SA: the faithful kernel must refuse (EEXIST),
      nothing is tracked, nothing is installed, the other IKE_SA keeps its key *)
  Example ex_refused_run :
    let s' := fst (h_request E0 (s_new [D_verdict false]) (m_new [0;0;0;9]%N)) in
    st (co s') <> -1 /\ faithful_run (own1 ++ others1) (kops s') /\
    ~ faithful_run (own1 ++ others1) (kops (fst (h_request E0 (s_new [D_verdict true; D_verdict true]) (m_new [0;0;0;9]%N)))) /\
    apply_kops (own1 ++ others1) (kops s') = own1 ++ others1 /\ children (co s') = [ch1].
  Proof.
    run_facts.
  Qed.

  (** 3b. the peer proposes an SPI that is not four bytes long: the generic exception before any netlink request (the
      handler answers INVALID_SYNTAX and the shell will mark the IKE_SA DELETED); nothing issued, nothing tracked *)
  Example ex_bad_spi_run :
    let r := h_request E0 (s_new []) (m_new [0;0;8]%N) in
    st (co (fst r)) <> -1 /\ kops (fst r) = [] /\ children (co (fst r)) = [ch1] /\
    snd r = HErr ([], [P_NOTIFY PROTO_NONE N_INVALID_SYNTAX [] []]) /\ Spi4 (fst r).
  Proof. run_facts; repeat constructor. Qed.
  (** ... and why such a CHILD_SA must never be tracked: delete_child_sas would stop at it with the same exception,
      leaving its kernel SAs (and those of the CHILD_SAs after it) installed and the list uncleared *)
  Example ex_bad_spi_teardown :
    let bad := ch1 <| c_out := [7]%N |> <| c_in := [0;0;0;3]%N |> in
    let s0 := mk_isa (core0 ST_ESTABLISHED [ch1; bad]) None None 0 [D_verdict true; D_verdict true] [] in
    fst (delete_child_sas s0) = Raise X_Other /\
    kops (snd (delete_child_sas s0)) = [K_del 20 50 [0;0;0;2]%N true; K_del 10 50 [0;0;0;1]%N true] /\
    children (co (snd (delete_child_sas s0))) = [ch1; bad] /\ ~ Spi4 s0.
  Proof.
    run_facts. intros [H _]. inversion H as [|? ? _ H2]; subst. inversion H2 as [|? ? H3 _]; subst. discriminate H3.
  Qed.

  (** 4. teardown of the IKE_SA of example 1's start state *)
  Example ex_teardown_run :
    let r := delete_child_sas (s_est [D_verdict true; D_verdict true]) in
    fst r = Ok tt /\ faithful_run (own1 ++ others1) (kops (snd r)) /\
    apply_kops (own1 ++ others1) (kops (snd r)) = others1 /\ children (co (snd r)) = [].
  Proof. run_facts. Qed.

  (** 5. an IKE_SA rekey request: no kernel operation, the CHILD_SA is now the successor's, same tracked keys *)
  Definition m_rekey : pmsg body := mk_pmsg (h0 EX_CREATE_CHILD_SA false) true
     ([], [P_SA [ike_prop <| pr_spi := [9;9;9;9;9;9;9;9]%N |>]; P_NONCE [8%N]; P_KE 14 [1%N]]).
  Definition s_rekey := s_est [D_bytes [3;3;3;3;3;3;3;3]%N; D_num 1; D_num 16; D_bytes [5%N]; D_dh 14 [1%N] [2%N]].
  Example ex_rekey_run :
    let s' := fst (h_request E0 s_rekey m_rekey) in
    st (co s') = ST_REKEYED /\ kops s' = [] /\ children (co s') = [] /\
    option_map children (new_sa s') = Some [ch1] /\ tracked s' = tracked s_rekey /\ ike_rekey_request m_rekey = true.
  Proof. run_facts. Qed.

  (** 6. why the order "install, then track" matters (the initiator's order before fix d8244e2 of /repo): tracking
      first and installing second, a refused NEWSA leaves a tracked-but-absent CHILD_SA; and when the refusal was an
      EEXIST for a key of ANOTHER IKE_SA, the teardown of this IKE_SA deletes that other IKE_SA's kernel SA *)
  Definition track_then_install (ch : child) (k : ckeyring) : H unit :=
    modc (fun c => c <| children := children c ++ [ch] |>) ;;; create_child_sa ch k true.
  Definition ch9 : child :=
    mk_child [0;0;0;5]%N [0;0;0;9]%N (esp_prop []) (esp_prop [0;0;0;9]%N) [ts0] [ts1] MODE_TUNNEL (-1).
  Example old_order_refuted :
    let s1 := snd (track_then_install ch9 (mk_ckr [] [] [] []) (s_est [D_verdict false])) in
    let s2 := snd (delete_child_sas (s1 <| kops := [] |>
                                        <| tape := [D_verdict true; D_verdict true; D_verdict true; D_verdict false] |>)) in
    faithful_run (own1 ++ others1) (kops s1) /\ apply_kops (own1 ++ others1) (kops s1) = own1 ++ others1 /\
    In (20, 50, [0;0;0;9]%N) (tracked s1) /\ ~ In (20, 50, [0;0;0;9]%N) own1 /\
    faithful_run (own1 ++ others1) (kops s2) /\ others1 = [(20, 50, [0;0;0;9]%N)] /\
    apply_kops (own1 ++ others1) (kops s2) = [].
  Proof. run_facts. Qed.
End Example.
