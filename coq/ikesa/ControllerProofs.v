(** Lemmas about the controller model, for EVERY IkeSa behaviour (interface [C]). *)
From Coq Require Import ZArith Bool List Lia PeanoNat.
From IkeSa Require Import Gen.IkeFacts Controller.
Import ListNotations.
Open Scope Z_scope.

Section Proofs.
  Variable C : ciface.
  Notation SA := (SA C). Notation D := (D C).
  Notation cid := (sa_cid C).

  (** object identity laws: entry points return the same object, mutated *)
  Hypothesis cid_process_done : forall s d s' r, sa_process C s d = PDone s' r -> cid s' = cid s.
  Hypothesis cid_process_raised : forall s d s' e, sa_process C s d = PRaised s' e -> cid s' = cid s.
  Hypothesis cid_clear : forall s, cid (sa_clear_successor C s) = cid s.
  Hypothesis state_clear : forall s, sa_state C (sa_clear_successor C s) = sa_state C s.
  Hypothesis succ_clear : forall s, sa_successor C (sa_clear_successor C s) = None.
  Hypothesis keys_clear : forall s, sa_kernel_keys C (sa_clear_successor C s) = sa_kernel_keys C s.
  Hypothesis cid_arm : forall s, cid (sa_arm_cookie C s) = cid s.

  Definition cids (t : table C) : list nat := map cid t.

  Lemma nodup_snoc {A} (l : list A) (a : A) : NoDup l -> ~ In a l -> NoDup (l ++ [a]).
  Proof.
    induction l as [|x r IH]; intros Hnd Hnin; [cbn; constructor; [intros []|constructor]|].
    inversion Hnd as [|? ? Hx Hr]; subst. cbn. constructor.
    - intros Hin. apply in_app_or in Hin. destruct Hin as [Hin|[Hin|[]]]; [contradiction|].
      apply Hnin. left. symmetry. exact Hin.
    - apply IH; [exact Hr|]. intros Hin. apply Hnin. right. exact Hin.
  Qed.

  Lemma replace_cids t s : cids (replace C t s) = cids t.
  Proof.
    unfold cids. induction t as [|x r IH]; [reflexivity|]. cbn [replace].
    destruct (Nat.eqb (cid x) (cid s)) eqn:E; cbn [map].
    - apply Nat.eqb_eq in E. now rewrite E.
    - now rewrite IH.
  Qed.

  Lemma replace_other t s x : In x t -> cid x <> cid s -> In x (replace C t s).
  Proof.
    induction t as [|y r IH]; intros Hin Hne; [inversion Hin|]. cbn [replace].
    destruct (Nat.eqb (cid y) (cid s)) eqn:E.
    - apply Nat.eqb_eq in E. destruct Hin as [->|Hin]; [congruence|right; exact Hin].
    - destruct Hin as [->|Hin]; [left; reflexivity|right; apply IH; assumption].
  Qed.

  Lemma replace_in t s : In (cid s) (cids t) -> In s (replace C t s).
  Proof.
    induction t as [|y r IH]; intros Hin; [inversion Hin|]. cbn [replace].
    destruct (Nat.eqb (cid y) (cid s)) eqn:E; [left; reflexivity|].
    apply Nat.eqb_neq in E. cbn in Hin. destruct Hin as [Hin|Hin]; [congruence|right; apply IH; exact Hin].
  Qed.

  Lemma remove_other t c x : In x t -> cid x <> c -> In x (remove_cid C t c).
  Proof.
    induction t as [|y r IH]; intros Hin Hne; [inversion Hin|]. cbn [remove_cid].
    destruct (Nat.eqb (cid y) c) eqn:E.
    - apply Nat.eqb_eq in E. destruct Hin as [->|Hin]; [congruence|exact Hin].
    - destruct Hin as [->|Hin]; [left; reflexivity|right; apply IH; assumption].
  Qed.

  Lemma remove_cids_nodup t c : NoDup (cids t) -> NoDup (cids (remove_cid C t c)) /\ ~ In c (cids (remove_cid C t c)).
  Proof.
    induction t as [|y r IH]; intros Hnd; [split; [constructor|intros []]|]. cbn [remove_cid].
    inversion Hnd as [|? ? Hnin Hnd']; subst.
    destruct (Nat.eqb (cid y) c) eqn:E.
    - apply Nat.eqb_eq in E. subst c. split; assumption.
    - apply Nat.eqb_neq in E. destruct (IH Hnd') as [IH1 IH2]. split.
      + cbn [cids map]. constructor; [|exact IH1]. intros Hin. apply Hnin.
        clear -Hin. induction r as [|z r' IHr]; [inversion Hin|]. cbn [remove_cid] in Hin.
        destruct (Nat.eqb (cid z) c); cbn in *; [right; exact Hin|].
        destruct Hin as [Hin|Hin]; [left; exact Hin|right; apply IHr; exact Hin].
      + cbn [cids map]. intros [Hin|Hin]; [congruence|apply IH2; exact Hin].
  Qed.

  Lemma remove_subset t c x : In x (cids (remove_cid C t c)) -> In x (cids t).
  Proof.
    induction t as [|z r IHr]; intros Hin; [inversion Hin|]. cbn [remove_cid] in Hin.
    destruct (Nat.eqb (cid z) c); cbn in *; [right; exact Hin|].
    destruct Hin as [Hin|Hin]; [left; exact Hin|right; apply IHr; exact Hin].
  Qed.

  (* ------------------------------------------------------------------ finish *)

  Lemma remove_iff st : dispatch_remove st = true <-> st = ST_DELETED.
  Proof. unfold dispatch_remove. apply Z.eqb_eq. Qed.

  (** the table after the post-processing steps of dispatch_message, as a function of three cases *)
  Definition after_register (t : table C) (s : SA) : table C * SA :=
    match sa_successor C s with
    | Some n => if dispatch_register_successor (sa_state C s) true
                then (replace C t (sa_clear_successor C s) ++ [n], sa_clear_successor C s)
                else (replace C t s, s)
    | None => (replace C t s, s)
    end.

  Lemma finish_unfold t s reply :
    finish C t s reply =
    let '(t1, s1) := after_register t s in
    if dispatch_remove (sa_state C s1)
    then mk_dres C (remove_cid C t1 (cid s1)) reply None (Some (cid s1)) (sa_kernel_keys C s1)
    else mk_dres C t1 reply None (Some (cid s1)) [].
  Proof. unfold finish, after_register. destruct (sa_successor C s); [destruct (dispatch_register_successor _ _)|]; reflexivity. Qed.

  Lemma after_register_spec t s :
    NoDup (cids t) -> In (cid s) (cids t) ->
    (forall n, sa_successor C s = Some n -> ~ In (cid n) (cids t)) ->
    let '(t1, s1) := after_register t s in
    cid s1 = cid s /\ sa_state C s1 = sa_state C s /\ sa_kernel_keys C s1 = sa_kernel_keys C s /\
    NoDup (cids t1) /\ In s1 t1 /\
    (forall x, In x t -> cid x <> cid s -> In x t1) /\
    (forall c, In c (cids t1) -> In c (cids t) \/ exists n, sa_successor C s = Some n /\ c = cid n) /\
    (forall n, sa_successor C s = Some n -> dispatch_register_successor (sa_state C s) true = true ->
               In n t1 /\ sa_successor C s1 = None).
  Proof.
    intros Hnd Hin Hfresh. unfold after_register.
    destruct (sa_successor C s) as [n|] eqn:Hs; [destruct (dispatch_register_successor (sa_state C s) true) eqn:Hreg|].
    - set (s' := sa_clear_successor C s).
      assert (Hc' : cid s' = cid s) by apply cid_clear.
      split; [exact Hc'|]. split; [apply state_clear|]. split; [apply keys_clear|].
      split.
      { unfold cids. rewrite map_app. fold (cids (replace C t s')). rewrite replace_cids. cbn [map].
        apply nodup_snoc; [exact Hnd|]. apply (Hfresh n eq_refl). }
      split; [apply in_or_app; left; apply replace_in; rewrite Hc'; exact Hin|].
      split; [intros x Hx Hne; apply in_or_app; left; apply replace_other; [exact Hx|congruence]|].
      split.
      { intros c Hc. unfold cids in Hc. rewrite map_app in Hc. apply in_app_or in Hc. destruct Hc as [Hc|Hc].
        - left. fold (cids (replace C t s')) in Hc. rewrite replace_cids in Hc. exact Hc.
        - right. exists n. split; [reflexivity|]. cbn in Hc. destruct Hc as [Hc|[]]. congruence. }
      intros n0 Hn0 _. inversion Hn0; subst n0. split; [apply in_or_app; right; left; reflexivity|apply succ_clear].
    - split; [reflexivity|]. split; [reflexivity|]. split; [reflexivity|].
      split; [rewrite replace_cids; exact Hnd|]. split; [apply replace_in; exact Hin|].
      split; [intros x Hx Hne; apply replace_other; assumption|].
      split; [intros c Hc; left; rewrite replace_cids in Hc; exact Hc|].
      intros n0 _ Hr. congruence.
    - split; [reflexivity|]. split; [reflexivity|]. split; [reflexivity|].
      split; [rewrite replace_cids; exact Hnd|]. split; [apply replace_in; exact Hin|].
      split; [intros x Hx Hne; apply replace_other; assumption|].
      split; [intros c Hc; left; rewrite replace_cids in Hc; exact Hc|].
      intros n0 Hn0. discriminate.
  Qed.

  Section Finish.
    Variables (t : table C) (s : SA) (reply : option D).
    Hypothesis Hnd : NoDup (cids t).
    Hypothesis Hin : In (cid s) (cids t).
    Hypothesis Hfresh : forall n, sa_successor C s = Some n -> ~ In (cid n) (cids t).
    Let r := finish C t s reply.

    Lemma finish_basic : dr_reply C r = reply /\ dr_escaped C r = None /\ dr_handled_by C r = Some (cid s).
    Proof.
      unfold r. rewrite finish_unfold. pose proof (after_register_spec t s Hnd Hin Hfresh) as H.
      destruct (after_register t s) as [t1 s1]. destruct H as (Hc & _).
      destruct (dispatch_remove (sa_state C s1)); cbn; rewrite Hc; repeat split; reflexivity.
    Qed.

    Lemma finish_nodup : NoDup (cids (dr_table C r)).
    Proof.
      unfold r. rewrite finish_unfold. pose proof (after_register_spec t s Hnd Hin Hfresh) as H.
      destruct (after_register t s) as [t1 s1]. destruct H as (_ & _ & _ & N & _).
      destruct (dispatch_remove (sa_state C s1)); cbn; [apply remove_cids_nodup; exact N|exact N].
    Qed.

    (** every other IKE_SA is untouched *)
    Lemma finish_frame : forall x, In x t -> cid x <> cid s -> In x (dr_table C r).
    Proof.
      unfold r. rewrite finish_unfold. pose proof (after_register_spec t s Hnd Hin Hfresh) as H.
      destruct (after_register t s) as [t1 s1]. destruct H as (Hc & _ & _ & _ & _ & F & _).
      intros x Hx Hne. destruct (dispatch_remove (sa_state C s1)); cbn; [apply remove_other; [apply F; assumption|congruence]|apply F; assumption].
    Qed.

    (** an ended IKE_SA leaves the table and all its kernel SAs are deleted *)
    Lemma finish_deleted : sa_state C s = ST_DELETED ->
      ~ In (cid s) (cids (dr_table C r)) /\ dr_delsa C r = sa_kernel_keys C s.
    Proof.
      unfold r. rewrite finish_unfold. pose proof (after_register_spec t s Hnd Hin Hfresh) as H.
      destruct (after_register t s) as [t1 s1]. destruct H as (Hc & Hst & Hk & N & _).
      intros Hd. assert (Hr : dispatch_remove (sa_state C s1) = true) by (apply remove_iff; congruence).
      rewrite Hr. cbn. split; [rewrite <- Hc; apply remove_cids_nodup; exact N|exact Hk].
    Qed.

    (** a living IKE_SA stays, exactly once ([finish_nodup]), and nothing is deleted in the kernel *)
    Lemma finish_alive : sa_state C s <> ST_DELETED ->
      In (cid s) (cids (dr_table C r)) /\ dr_delsa C r = [].
    Proof.
      unfold r. rewrite finish_unfold. pose proof (after_register_spec t s Hnd Hin Hfresh) as H.
      destruct (after_register t s) as [t1 s1]. destruct H as (Hc & Hst & Hk & N & I1 & _).
      intros Hd. destruct (dispatch_remove (sa_state C s1)) eqn:Hr; [apply remove_iff in Hr; congruence|].
      cbn. split; [|reflexivity]. rewrite <- Hc. apply in_map. exact I1.
    Qed.

    (** the IKE_SA created by a rekey is registered when the state says so; the reference is then dropped, so it
        cannot be registered again by a later datagram *)
    Lemma finish_registers : forall n, sa_successor C s = Some n ->
      dispatch_register_successor (sa_state C s) true = true ->
      In (cid n) (cids (dr_table C r)) /\
      (sa_state C s <> ST_DELETED ->
       exists s', In s' (dr_table C r) /\ cid s' = cid s /\ sa_successor C s' = None).
    Proof.
      unfold r. rewrite finish_unfold. pose proof (after_register_spec t s Hnd Hin Hfresh) as H.
      destruct (after_register t s) as [t1 s1]. destruct H as (Hc & Hst & Hk & N & I1 & _ & _ & R).
      intros n Hn Hreg. destruct (R n Hn Hreg) as [Rn Rs].
      assert (Hne : cid n <> cid s1).
      { rewrite Hc. intros Heq. apply (Hfresh n Hn). rewrite Heq. exact Hin. }
      destruct (dispatch_remove (sa_state C s1)) eqn:Hr; cbn.
      - split; [apply in_map; apply remove_other; assumption|].
        intros Hd. apply remove_iff in Hr. congruence.
      - split; [apply in_map; exact Rn|]. intros _. exists s1. repeat split; assumption.
    Qed.

    (** nothing else is added to the table *)
    Lemma finish_no_other : forall c, In c (cids (dr_table C r)) ->
      In c (cids t) \/ exists n, sa_successor C s = Some n /\ c = cid n.
    Proof.
      unfold r. rewrite finish_unfold. pose proof (after_register_spec t s Hnd Hin Hfresh) as H.
      destruct (after_register t s) as [t1 s1]. destruct H as (_ & _ & _ & _ & _ & _ & O & _).
      intros c Hc. destruct (dispatch_remove (sa_state C s1)); cbn in Hc; [apply remove_subset in Hc|]; apply O; exact Hc.
    Qed.
  End Finish.

  (* ------------------------------------------------------------------ dispatch: routing *)

  Lemma dispatch_unknown_spi t exch req init spi_i spi_r mk data :
    dispatch_is_init_request exch req = false ->
    find (fun s => Z.eqb (sa_my_spi C s) (dispatch_my_spi init spi_i spi_r)) t = None ->
    dispatch C t (HOk exch req init spi_i spi_r) mk data = mk_dres C t None None None [].
  Proof. intros H1 H2. unfold dispatch. rewrite H1, H2. reflexivity. Qed.

  (** a datagram that is not an IKE_SA_INIT request is handed to the FIRST table entry whose local SPI equals
      SPIr if the I flag is set and SPIi otherwise, and to no other *)
  Lemma dispatch_routes t exch req init spi_i spi_r mk data c :
    dispatch_is_init_request exch req = false ->
    dr_handled_by C (dispatch C t (HOk exch req init spi_i spi_r) mk data) = Some c ->
    exists pre s post, t = pre ++ s :: post /\ cid s = c /\
      sa_my_spi C s = (if init then spi_r else spi_i) /\
      (forall x, In x pre -> sa_my_spi C x <> (if init then spi_r else spi_i)).
  Proof.
    intros H1 H2. unfold dispatch in H2. rewrite H1 in H2.
    change (dispatch_my_spi init spi_i spi_r) with (if init then spi_r else spi_i) in H2.
    set (spi := if init then spi_r else spi_i) in *.
    destruct (find (fun s => Z.eqb (sa_my_spi C s) spi) t) as [s|] eqn:Hf; [|cbn in H2; discriminate].
    assert (Hsplit : exists pre post, t = pre ++ s :: post /\ sa_my_spi C s = spi /\
                                      forall x, In x pre -> sa_my_spi C x <> spi).
    { clear H2. induction t as [|y r IH]; [discriminate|]. cbn [find] in Hf.
      destruct (Z.eqb (sa_my_spi C y) spi) eqn:E.
      - inversion Hf; subst y. exists [], r. split; [reflexivity|]. split; [apply Z.eqb_eq; exact E|intros x []].
      - destruct (IH Hf) as (pre & post & Ht & Hs & Hp). exists (y :: pre), post. split; [cbn; now rewrite Ht|].
        split; [exact Hs|]. intros x [->|Hx]; [apply Z.eqb_neq; exact E|apply Hp; exact Hx]. }
    destruct Hsplit as (pre & post & Ht & Hs & Hp). exists pre, s, post. split; [exact Ht|].
    split; [|split; assumption].
    destruct (sa_process C s data) as [s2 r|s2 e] eqn:Hp2.
    - unfold finish in H2. pose proof (cid_process_done _ _ _ _ Hp2) as Hc.
      destruct (sa_successor C s2); [destruct (dispatch_register_successor _ _)|];
        match type of H2 with context [if ?c then _ else _] => destruct c end; cbn in H2;
        inversion H2; rewrite ?cid_clear; congruence.
    - pose proof (cid_process_raised _ _ _ _ Hp2) as Hc.
      destruct (catches dispatch_process_catches e); cbn in H2; inversion H2; congruence.
  Qed.

  (** one call of dispatch_message keeps the table duplicate-free, leaves every IKE_SA other than the one that
      handled the datagram untouched, and adds nothing but a fresh responder or a rekey successor *)
  Lemma dispatch_table_step t hp mk data :
    NoDup (cids t) ->
    (forall s0, mk = Fresh C s0 -> ~ In (cid s0) (cids t)) ->
    (forall s d s2 r n, sa_process C s d = PDone s2 r -> sa_successor C s2 = Some n ->
                        ~ In (cid n) (cids t) /\ (forall s0, mk = Fresh C s0 -> cid n <> cid s0)) ->
    let r := dispatch C t hp mk data in
    NoDup (cids (dr_table C r)) /\
    (forall x, In x t -> Some (cid x) <> dr_handled_by C r -> In x (dr_table C r)).
  Proof.
    intros Hnd Hfresh Hsucc. unfold dispatch.
    destruct hp as [e|exch req init spi_i spi_r].
    { destruct (catches dispatch_header_catches e); cbn; split; auto. }
    destruct (dispatch_is_init_request exch req).
    - destruct mk as [e|s0].
      { destruct (catches dispatch_conf_catches e); cbn; split; auto. }
      specialize (Hfresh s0 eq_refl).
      assert (Hnd0 : NoDup (cids (t ++ [s0]))).
      { unfold cids. rewrite map_app. cbn [map]. apply nodup_snoc; assumption. }
      set (s1 := if dispatch_arm_cookie (halfopen C (t ++ [s0])) then sa_arm_cookie C s0 else s0).
      assert (Hc1 : cid s1 = cid s0) by (unfold s1; destruct (dispatch_arm_cookie _); [apply cid_arm|reflexivity]).
      assert (Hin0 : In (cid s0) (cids (t ++ [s0]))).
      { unfold cids. rewrite map_app. apply in_or_app. right. left. reflexivity. }
      destruct (sa_process C s1 data) as [s2 rp|s2 e] eqn:Hp.
      + pose proof (cid_process_done _ _ _ _ Hp) as Hc2.
        assert (Hin2 : In (cid s2) (cids (t ++ [s0]))) by (rewrite Hc2, Hc1; exact Hin0).
        assert (Hf2 : forall n, sa_successor C s2 = Some n -> ~ In (cid n) (cids (t ++ [s0]))).
        { intros n Hn Hin. destruct (Hsucc _ _ _ _ n Hp Hn) as [A Bq].
          unfold cids in Hin. rewrite map_app in Hin. apply in_app_or in Hin. destruct Hin as [Hin|[Hin|[]]].
          - apply A. exact Hin.
          - apply (Bq s0 eq_refl). symmetry. exact Hin. }
        destruct (dispatch_drop_ignored (sa_state C s2)).
        { assert (Hnd2 : NoDup (cids (replace C (t ++ [s0]) s2))) by (rewrite replace_cids; exact Hnd0).
          cbn. split; [apply remove_cids_nodup; exact Hnd2|].
          intros x Hx Hne. apply remove_other; [apply replace_other; [apply in_or_app; left; exact Hx|]|]; congruence. }
        split; [apply finish_nodup; assumption|].
        intros x Hx Hne. apply finish_frame; try assumption; [apply in_or_app; left; exact Hx|].
        destruct (finish_basic (t ++ [s0]) s2 rp Hnd0 Hin2 Hf2) as (_ & _ & Hh). rewrite Hh in Hne. congruence.
      + pose proof (cid_process_raised _ _ _ _ Hp) as Hc2.
        assert (Hnd2 : NoDup (cids (replace C (t ++ [s0]) s2))) by (rewrite replace_cids; exact Hnd0).
        destruct (catches dispatch_process_catches e); cbn.
        * split; [apply remove_cids_nodup; exact Hnd2|].
          intros x Hx Hne. apply remove_other; [apply replace_other; [apply in_or_app; left; exact Hx|]|]; congruence.
        * split; [exact Hnd2|]. intros x Hx Hne. apply replace_other; [apply in_or_app; left; exact Hx|congruence].
    - destruct (find (fun s => Z.eqb (sa_my_spi C s) (dispatch_my_spi init spi_i spi_r)) t) as [s|] eqn:Hf;
        [|cbn; split; auto].
      assert (Hins : In s t) by (apply find_some in Hf; apply Hf).
      destruct (sa_process C s data) as [s2 rp|s2 e] eqn:Hp.
      + pose proof (cid_process_done _ _ _ _ Hp) as Hc2.
        assert (Hin2 : In (cid s2) (cids t)) by (rewrite Hc2; apply in_map; exact Hins).
        assert (Hf2 : forall n, sa_successor C s2 = Some n -> ~ In (cid n) (cids t)).
        { intros n Hn. apply (Hsucc _ _ _ _ n Hp Hn). }
        split; [apply finish_nodup; assumption|].
        intros x Hx Hne. apply finish_frame; try assumption.
        destruct (finish_basic t s2 rp Hnd Hin2 Hf2) as (_ & _ & Hh). rewrite Hh in Hne. congruence.
      + pose proof (cid_process_raised _ _ _ _ Hp) as Hc2.
        destruct (catches dispatch_process_catches e); cbn; (split; [rewrite replace_cids; exact Hnd|]);
          intros x Hx Hne; apply replace_other; congruence.
  Qed.

  (** what can escape dispatch_message: nothing the code names (protocol errors from parsing, an unknown peer) *)
  Lemma dispatch_contains_protocol_errors :
    catches dispatch_header_catches E_IkeSaError = true /\
    catches dispatch_conf_catches E_ConfigurationNotFound = true /\
    catches dispatch_process_catches E_IkeSaError = true.
  Proof. repeat split; reflexivity. Qed.

  (** every exception class that is an Exception is caught by the event loop *)
  Lemma loop_catches_everything (e : exn_class) : catches loop_catches e = true.
  Proof. destruct e; reflexivity. Qed.

  (* ------------------------------------------------------------------ the timer loops and whole runs *)
  Hypothesis cid_rt : forall s now, cid (fst (sa_check_retransmission C s now)) = cid s.
  Hypothesis cid_dpd : forall s now, cid (fst (sa_check_dpd C s now)) = cid s.
  Hypothesis cid_life : forall s now, cid (fst (sa_check_lifetime C s now)) = cid s.

  Lemma map_loop_cids f t now :
    (forall s n, cid (fst (f s n)) = cid s) -> cids (fst (map_loop C f t now)) = cids t.
  Proof.
    intros Hf. induction t as [|s r IH]; [reflexivity|]. cbn [map_loop].
    pose proof (Hf s now) as Hc. destruct (f s now) as [s1 o]. cbn [fst] in Hc.
    destruct (map_loop C f r now) as [r1 os]. cbn [fst] in *. unfold cids in *. cbn [map]. rewrite Hc, IH. reflexivity.
  Qed.

  Lemma rt_loop_cids fuel : forall i t now out del,
    NoDup (cids t) ->
    NoDup (cids (fst (fst (rt_loop C fuel i t now out del)))) /\
    (forall c, In c (cids (fst (fst (rt_loop C fuel i t now out del)))) -> In c (cids t)).
  Proof.
    induction fuel as [|fuel IH]; intros i t now out del Hnd; [cbn; auto|].
    cbn [rt_loop]. destruct (nth_error t i) as [s|]; [|cbn; auto].
    pose proof (cid_rt s now) as Hc. destruct (sa_check_retransmission C s now) as [s1 o]. cbn [fst] in Hc.
    assert (Hr : NoDup (cids (replace C t s1))) by (rewrite replace_cids; exact Hnd).
    destruct (dispatch_remove (sa_state C s1)).
    - destruct (remove_cids_nodup _ (cid s1) Hr) as [Hnd2 _].
      destruct (IH (S i) (remove_cid C (replace C t s1) (cid s1)) now
                   (match o with Some d => out ++ [d] | None => out end) (del ++ sa_kernel_keys C s1) Hnd2) as [A Bq].
      split; [exact A|]. intros c Hin. apply Bq in Hin. apply remove_subset in Hin. rewrite replace_cids in Hin. exact Hin.
    - destruct (IH (S i) (replace C t s1) now (match o with Some d => out ++ [d] | None => out end) del Hr) as [A Bq].
      split; [exact A|]. intros c Hin. apply Bq in Hin. rewrite replace_cids in Hin. exact Hin.
  Qed.

  (** the three timer loops keep the table duplicate-free and never add an entry *)
  Lemma timers_table t now :
    NoDup (cids t) ->
    NoDup (cids (fst (fst (timers C t now)))) /\
    (forall c, In c (cids (fst (fst (timers C t now)))) -> In c (cids t)).
  Proof.
    intros Hnd. unfold timers.
    destruct (rt_loop_cids (S (length t)) 0 t now [] [] Hnd) as [A Bq].
    destruct (rt_loop C (S (length t)) 0 t now [] []) as [[t1 o1] del]. cbn [fst] in A, Bq.
    pose proof (map_loop_cids (sa_check_dpd C) t1 now cid_dpd) as H2.
    destruct (map_loop C (sa_check_dpd C) t1 now) as [t2 o2]. cbn [fst] in H2.
    pose proof (map_loop_cids (sa_check_lifetime C) t2 now cid_life) as H3.
    destruct (map_loop C (sa_check_lifetime C) t2 now) as [t3 o3]. cbn [fst] in *.
    rewrite H3, H2. split; assumption.
  Qed.

  (** what the event loop does to the table, one event after the other *)
  Inductive cevent :=
  | CDatagram (hp : hparse) (mk : newsa C) (data : D)
  | CTimers (now : Z).

  Definition cstep (t : table C) (e : cevent) : table C :=
    match e with
    | CDatagram hp mk data => dr_table C (dispatch C t hp mk data)
    | CTimers now => fst (fst (timers C t now))
    end.

  (** object identity: an IkeSa object created while handling an event is not one already in the table *)
  Definition fresh_for (t : table C) (e : cevent) : Prop :=
    match e with
    | CDatagram hp mk data =>
        (forall s0, mk = Fresh C s0 -> ~ In (cid s0) (cids t)) /\
        (forall s d s2 r n, sa_process C s d = PDone s2 r -> sa_successor C s2 = Some n ->
                            ~ In (cid n) (cids t) /\ (forall s0, mk = Fresh C s0 -> cid n <> cid s0))
    | CTimers _ => True
    end.

  Fixpoint fresh_run (t : table C) (es : list cevent) : Prop :=
    match es with
    | [] => True
    | e :: r => fresh_for t e /\ fresh_run (cstep t e) r
    end.

  Lemma run_table_nodup (es : list cevent) : forall t,
    NoDup (cids t) -> fresh_run t es -> NoDup (cids (fold_left cstep es t)).
  Proof.
    induction es as [|e r IH]; intros t Hnd Hf; [exact Hnd|].
    cbn [fold_left]. destruct Hf as [Hfe Hfr]. apply IH; [|exact Hfr].
    destruct e as [hp mk data|now]; cbn [cstep].
    - destruct Hfe as [Hf1 Hf2]. apply (dispatch_table_step t hp mk data Hnd Hf1 Hf2).
    - apply (timers_table t now Hnd).
  Qed.

End Proofs.
