(** C09: the IKE_SA state machine as a specification (written from RFC 7296 sections 1.2-1.4, 2.8 and 2.25,
    independently of the code), and the over-approximation of the code's transitions that the translator
    regenerates: a method admitted in the states of [admissions] may leave the state as it is or assign one of the
    states in [assigns] (transitively through the self.* methods it calls); the shell additionally assigns DELETED. *)
From Coq Require Import ZArith Bool List.
From IkeSa Require Import Gen.IkeFacts.
Import ListNotations.
Open Scope Z_scope.

Definition is_req_sent (st : Z) : bool :=
  existsb (Z.eqb st) [ST_INIT_REQ_SENT; ST_AUTH_REQ_SENT; ST_NEW_CHILD_REQ_SENT; ST_REK_CHILD_REQ_SENT;
                      ST_REK_IKE_SA_REQ_SENT; ST_DEL_CHILD_REQ_SENT; ST_DEL_IKE_SA_REQ_SENT;
                      ST_DEL_AFTER_REKEY_IKE_SA_REQ_SENT; ST_DPD_REQ_SENT].

(** allowed next states (besides staying and besides DELETED, which is allowed from everywhere: fatal error,
    authentication failure, delete exchange, retransmission give-up) *)
Definition allowed_next (st : Z) : list Z :=
  if Z.eqb st ST_INITIAL then [ST_INIT_RES_SENT; ST_INIT_REQ_SENT]
  else if Z.eqb st ST_INIT_RES_SENT then [ST_ESTABLISHED]
  else if Z.eqb st ST_INIT_REQ_SENT then [ST_AUTH_REQ_SENT]                      (* incl. COOKIE / INVALID_KE retries: stays *)
  else if Z.eqb st ST_AUTH_REQ_SENT then [ST_ESTABLISHED]
  else if Z.eqb st ST_ESTABLISHED then
    [ST_NEW_CHILD_REQ_SENT; ST_REK_CHILD_REQ_SENT; ST_REK_IKE_SA_REQ_SENT; ST_DEL_CHILD_REQ_SENT; ST_DEL_IKE_SA_REQ_SENT;
     ST_DPD_REQ_SENT; ST_REKEYED]
  else if Z.eqb st ST_NEW_CHILD_REQ_SENT then [ST_ESTABLISHED; ST_DEL_CHILD_REQ_SENT]
  else if Z.eqb st ST_REK_CHILD_REQ_SENT then [ST_ESTABLISHED; ST_DEL_CHILD_REQ_SENT]
  else if Z.eqb st ST_REK_IKE_SA_REQ_SENT then
    [ST_ESTABLISHED; ST_DEL_IKE_SA_REQ_SENT; ST_DEL_AFTER_REKEY_IKE_SA_REQ_SENT]   (* 16: rekeyed, now deleting the old one *)
  else if Z.eqb st ST_DEL_CHILD_REQ_SENT then [ST_ESTABLISHED]
  else if Z.eqb st ST_DEL_IKE_SA_REQ_SENT then []
  else if Z.eqb st ST_DEL_AFTER_REKEY_IKE_SA_REQ_SENT then []
  else if Z.eqb st ST_DPD_REQ_SENT then [ST_ESTABLISHED]
  else if Z.eqb st ST_REKEYED then []
  else [].

Definition allowed (st st' : Z) : bool :=
  Z.eqb st st' || Z.eqb st' ST_DELETED && negb (Z.eqb st ST_DELETED) || existsb (Z.eqb st') (allowed_next st).

(** the regenerated facts *)
Definition admitted_in (f : nat) : list Z :=
  flat_map (fun a => match a with (g, _, sts) => if Nat.eqb g f then sts else [] end) admissions.
Definition assigned_by (f : nat) : list Z :=
  flat_map (fun a => if Nat.eqb (fst a) f then snd a else []) assigns.

(** the code's transitions: for every entry point (request/response handlers, local triggers, timers, and the shell
    functions _process_request/_process_response themselves) and every state in which it can be entered, the states
    it can leave the IkeSa in (abstract interpretation of the current source, see py/props/ikefacts.py) *)
Definition code_transitions : list (Z * Z) :=
  flat_map (fun e => map (fun s' => (fst e, s')) (snd e)) entry_exits.

Definition trigger_transitions : list (Z * Z) := [].

(** CREATE_CHILD_SA collision decision (RFC 7296 2.25), in the order of the source *)
Inductive collision := TemporaryFailure | ChildSaNotFound | NoCollision.
Definition child_request_collision (st : Z) (is_rekey found same_deleting same_rekeying : bool) : collision :=
  if child_request_while_ike_busy st then TemporaryFailure
  else if is_rekey then
    if rekey_unknown_child found then ChildSaNotFound
    else if rekey_child_being_deleted st same_deleting then TemporaryFailure
    else if rekey_child_being_rekeyed st same_rekeying then TemporaryFailure
    else NoCollision
  else NoCollision.
Definition ike_rekey_request_collision (st : Z) : collision :=
  if ike_rekey_while_busy st then TemporaryFailure else NoCollision.
