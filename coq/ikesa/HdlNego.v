(** C11 / C12 for the handler model Hdl.v.

    C11  "algorithm negotiation never selects anything outside both offers"
    C12  "traffic selectors are only ever narrowed and the mode must match"

    Part 1: the pure functions (Proposal.intersection, _select_best_sa_proposal, TrafficSelector.is_subset,
            _get_ipsec_configuration).
    Part 2: the responder of a CHILD_SA negotiation (child_nego_req_body / child_nego_req).
    Part 3: the initiator of a CHILD_SA negotiation (child_nego_res).
    Part 4: the IKE_SA negotiation of both roles and handle_invalid_ke.
    Part 5: non-vacuity examples.

    [E] (cryptography), the state, the message and the tape are arbitrary everywhere. *)
From Coq Require Import ZArith NArith Bool List Lia ZifyBool.
From RecordUpdate Require Import RecordSet.
From VLib Require Import Bytes.
From IkeSa Require Import Gen.IkeFacts Shell Hdl HdlAuth HdlAgree.
Import ListNotations RecordSetNotations.
Open Scope Z_scope.

(* ================================================================================================ *)
(** * Part 1a. Proposal.intersection *)

Lemma optZ_eqb_eq a b : optZ_eqb a b = true <-> a = b.
Proof.
  destruct a as [x|], b as [y|]; cbn; split; intros Hx; try discriminate; try reflexivity.
  - apply Z.eqb_eq in Hx. congruence.
  - inversion Hx. apply Z.eqb_refl.
Qed.
(** Transform.__eq__ is equality of the three fields *)
Lemma tr_eqb_eq a b : tr_eqb a b = true <-> a = b.
Proof.
  unfold tr_eqb. destruct a as [t1 i1 k1], b as [t2 i2 k2]. cbn. rewrite !andb_true_iff, optZ_eqb_eq, !Z.eqb_eq.
  split; [intros [[-> ->] ->]; reflexivity|intros Hx; inversion Hx; auto].
Qed.
Lemma tr_eqb_refl a : tr_eqb a a = true.
Proof. apply tr_eqb_eq. reflexivity. Qed.

(** "my transform [m] is also offered by the peer" *)
Definition acceptable (other : list transform) (m : transform) : bool := existsb (tr_eqb m) other.
Lemma acceptable_In other m : acceptable other m = true <-> In m other.
Proof.
  unfold acceptable. rewrite existsb_exists. split.
  - intros (x & Hin & Heq). apply tr_eqb_eq in Heq. subst x. exact Hin.
  - intros Hin. exists m. split; [exact Hin|apply tr_eqb_refl].
Qed.
Lemma memZ_In x l : memZ x l = true <-> In x l.
Proof.
  unfold memZ. rewrite existsb_exists. split.
  - intros (y & Hin & Heq). apply Z.eqb_eq in Heq. subst y. exact Hin.
  - intros Hin. exists x. split; [exact Hin|apply Z.eqb_refl].
Qed.
Lemma memZ_false x l : memZ x l = false <-> ~ In x l.
Proof. rewrite <- memZ_In. destruct (memZ x l); split; intros; try discriminate; try reflexivity; exfalso; auto. Qed.
Lemma subsetZ_incl a b : subsetZ a b = true <-> incl a b.
Proof.
  unfold subsetZ. rewrite forallb_forall. unfold incl. split; intros Hx x Hin; [apply memZ_In|apply memZ_In]; auto.
Qed.

(** my FIRST transform of type [ty] that the peer offers too *)
Definition first_ok (mine other : list transform) (ty : Z) : option transform :=
  find (fun m => Z.eqb (tr_type m) ty && acceptable other m) mine.

(** order-preserving sub-list *)
Inductive subseq {A} : list A -> list A -> Prop :=
| subseq_nil l : subseq [] l
| subseq_keep x a l : subseq a l -> subseq (x :: a) (x :: l)
| subseq_skip x a l : subseq a l -> subseq a (x :: l).

(** the loop of Proposal.intersection without its accumulator *)
Fixpoint picks (mine other : list transform) (seen : list Z) : list transform :=
  match mine with
  | [] => []
  | m :: r => if acceptable other m && negb (memZ (tr_type m) seen)
              then m :: picks r other (seen ++ [tr_type m]) else picks r other seen
  end.
Lemma isect_loop_picks mine other : forall sel,
  isect_loop mine other sel = sel ++ picks mine other (map tr_type sel).
Proof.
  induction mine as [|m r IH]; intros sel; cbn [isect_loop picks]; [symmetry; apply app_nil_r|].
  fold (acceptable other m). destruct (acceptable other m && negb (memZ (tr_type m) (map tr_type sel))).
  - rewrite IH, map_app, <- app_assoc. reflexivity.
  - apply IH.
Qed.

Lemma picks_sound mine other : forall seen t,
  In t (picks mine other seen) -> In t mine /\ In t other /\ ~ In (tr_type t) seen.
Proof.
  induction mine as [|m r IH]; intros seen t Hin; cbn [picks] in Hin; [destruct Hin|].
  destruct (acceptable other m && negb (memZ (tr_type m) seen)) eqn:Ec.
  - apply andb_true_iff in Ec. destruct Ec as [Ea Es]. apply negb_true_iff, memZ_false in Es.
    destruct Hin as [<-|Hin].
    + split; [left; reflexivity|]. split; [apply acceptable_In; exact Ea|exact Es].
    + destruct (IH _ _ Hin) as (H1 & H2 & H3). split; [right; exact H1|]. split; [exact H2|].
      intros Hs. apply H3. apply in_or_app. left; exact Hs.
  - destruct (IH _ _ Hin) as (H1 & H2 & H3). split; [right; exact H1|]. auto.
Qed.
Lemma picks_nodup mine other : forall seen, NoDup (map tr_type (picks mine other seen)).
Proof.
  induction mine as [|m r IH]; intros seen; cbn [picks]; [constructor|].
  destruct (acceptable other m && negb (memZ (tr_type m) seen)); [|apply IH].
  cbn [map]. constructor; [|apply IH]. intros Hin. apply in_map_iff in Hin. destruct Hin as (t & Ht & Hin).
  apply picks_sound in Hin. destruct Hin as (_ & _ & Hn). apply Hn. apply in_or_app. right. left. symmetry; exact Ht.
Qed.
Lemma picks_subseq mine other : forall seen, subseq (picks mine other seen) mine.
Proof.
  induction mine as [|m r IH]; intros seen; cbn [picks]; [constructor|].
  destruct (acceptable other m && negb (memZ (tr_type m) seen)); [apply subseq_keep|apply subseq_skip]; apply IH.
Qed.
Lemma picks_first mine other : forall seen t,
  In t (picks mine other seen) -> first_ok mine other (tr_type t) = Some t.
Proof.
  unfold first_ok. induction mine as [|m r IH]; intros seen t Hin; cbn [picks] in Hin; [destruct Hin|]. cbn [find].
  destruct (acceptable other m && negb (memZ (tr_type m) seen)) eqn:Ec.
  - apply andb_true_iff in Ec. destruct Ec as [Ea Es]. destruct Hin as [<-|Hin].
    + rewrite Z.eqb_refl, Ea. reflexivity.
    + pose proof (picks_sound _ _ _ _ Hin) as (_ & _ & Hn).
      assert (Hne : Z.eqb (tr_type m) (tr_type t) = false).
      { apply Z.eqb_neq. intros He. apply Hn. apply in_or_app. right. left. exact He. }
      rewrite Hne. cbn [andb]. eapply IH; exact Hin.
  - pose proof (picks_sound _ _ _ _ Hin) as (_ & _ & Hn).
    destruct (Z.eqb (tr_type m) (tr_type t) && acceptable other m) eqn:Ep; [|eapply IH; exact Hin].
    exfalso. apply andb_true_iff in Ep. destruct Ep as [E1 E2]. rewrite E2 in Ec. cbn in Ec.
    apply negb_false_iff, memZ_In in Ec. apply Hn. apply Z.eqb_eq in E1. rewrite <- E1. exact Ec.
Qed.
Lemma picks_complete mine other : forall seen m,
  In m mine -> In m other -> ~ In (tr_type m) seen -> In (tr_type m) (map tr_type (picks mine other seen)).
Proof.
  induction mine as [|x r IH]; intros seen m Hin Hacc Hns; [destruct Hin|]. cbn [picks].
  destruct (acceptable other x && negb (memZ (tr_type x) seen)) eqn:Ec.
  - destruct (Z.eq_dec (tr_type x) (tr_type m)) as [He|Hne]; [left; exact He|]. right.
    destruct Hin as [->|Hin]; [contradiction Hne; reflexivity|].
    apply IH; auto. intros Hs. apply in_app_or in Hs. destruct Hs as [Hs|[Hs|[]]]; auto.
  - destruct Hin as [->|Hin]; [|apply IH; auto].
    exfalso. apply acceptable_In in Hacc. rewrite Hacc in Ec. cbn in Ec. apply negb_false_iff, memZ_In in Ec. auto.
Qed.

Lemma first_ok_some mine other ty t :
  first_ok mine other ty = Some t -> In t mine /\ In t other /\ tr_type t = ty.
Proof.
  unfold first_ok. intros Hf. apply find_some in Hf. destruct Hf as [Hin Hp]. apply andb_true_iff in Hp.
  destruct Hp as [H1 H2]. apply Z.eqb_eq in H1. apply acceptable_In in H2. auto.
Qed.
Lemma first_ok_none mine other ty :
  first_ok mine other ty = None <-> forall m, In m mine -> tr_type m = ty -> ~ In m other.
Proof.
  unfold first_ok. split.
  - intros Hf m Hin Hty Hacc. pose proof (find_none _ _ Hf m Hin) as Hp. cbn in Hp.
    apply acceptable_In in Hacc. rewrite Hacc in Hp. apply Z.eqb_eq in Hty. rewrite Hty in Hp. discriminate.
  - intros Hall. destruct (find _ mine) as [t|] eqn:Ef; [|reflexivity]. exfalso.
    apply find_some in Ef. destruct Ef as [Hin Hp]. apply andb_true_iff in Hp. destruct Hp as [H1 H2].
    apply Z.eqb_eq in H1. apply acceptable_In in H2. exact (Hall t Hin H1 H2).
Qed.

(** the transforms of the result, when there is one *)
Definition isect_trs (mine peer : proposal) : list transform := picks (pr_trs mine) (pr_trs peer) [].

(** every type of mine has a transform the peer offers too *)
Definition all_types_match (mine peer : proposal) : Prop :=
  forall ty, In ty (map tr_type (pr_trs mine)) -> first_ok (pr_trs mine) (pr_trs peer) ty <> None.

Lemma intersection_unfold mine peer :
  intersection mine peer =
  if Z.eqb (pr_proto mine) (pr_proto peer) then
    if subsetZ (map tr_type (pr_trs mine)) (map tr_type (isect_trs mine peer))
    then Some (mk_prop (pr_num peer) (pr_proto mine) (pr_spi peer) (isect_trs mine peer)) else None
  else None.
Proof.
  unfold intersection, isect_trs. destruct (Z.eqb (pr_proto mine) (pr_proto peer)); [|reflexivity].
  cbv zeta. rewrite isect_loop_picks. cbn [app map].
  assert (Hs : subsetZ (map tr_type (picks (pr_trs mine) (pr_trs peer) [])) (map tr_type (pr_trs mine)) = true).
  { apply subsetZ_incl. intros ty Hin. apply in_map_iff in Hin. destruct Hin as (t & <- & Hin).
    apply picks_sound in Hin. apply in_map. tauto. }
  rewrite Hs. reflexivity.
Qed.

Lemma cover_iff mine peer :
  subsetZ (map tr_type (pr_trs mine)) (map tr_type (isect_trs mine peer)) = true <-> all_types_match mine peer.
Proof.
  rewrite subsetZ_incl. unfold all_types_match, isect_trs. split.
  - intros Hinc ty Hty. specialize (Hinc ty Hty). apply in_map_iff in Hinc. destruct Hinc as (t & <- & Hin).
    rewrite (picks_first _ _ _ _ Hin). discriminate.
  - intros Hall ty Hty. specialize (Hall ty Hty).
    destruct (first_ok (pr_trs mine) (pr_trs peer) ty) as [t|] eqn:Ef; [|contradiction Hall; reflexivity].
    apply first_ok_some in Ef. destruct Ef as (H1 & H2 & <-). apply picks_complete; auto.
Qed.

(** (a) the result of an intersection: the peer's number and SPI, my protocol (= the peer's); every transform is
    one of mine AND one of the peer's, namely MY FIRST acceptable transform of its type; exactly one transform per
    type, exactly the types of mine, in my order *)
Theorem intersection_some mine peer r :
  intersection mine peer = Some r ->
  pr_proto mine = pr_proto peer /\ pr_proto r = pr_proto mine /\ pr_num r = pr_num peer /\ pr_spi r = pr_spi peer /\
  (forall t, In t (pr_trs r) ->
     In t (pr_trs mine) /\ In t (pr_trs peer) /\ first_ok (pr_trs mine) (pr_trs peer) (tr_type t) = Some t) /\
  NoDup (map tr_type (pr_trs r)) /\
  (forall ty, In ty (map tr_type (pr_trs r)) <-> In ty (map tr_type (pr_trs mine))) /\
  (forall ty, In ty (map tr_type (pr_trs mine)) ->
     exists t, first_ok (pr_trs mine) (pr_trs peer) ty = Some t /\ In t (pr_trs r)) /\
  subseq (pr_trs r) (pr_trs mine).
Proof.
  rewrite intersection_unfold. destruct (Z.eqb (pr_proto mine) (pr_proto peer)) eqn:Ep; [|discriminate].
  destruct (subsetZ _ _) eqn:Ec; [|discriminate]. intros Hx. inversion Hx; subst r; clear Hx. cbn.
  apply Z.eqb_eq in Ep. apply subsetZ_incl in Ec. unfold isect_trs in *.
  split; [exact Ep|]. split; [reflexivity|]. split; [reflexivity|]. split; [reflexivity|].
  split. { intros t Hin. pose proof (picks_sound _ _ _ _ Hin) as (H1 & H2 & _). split; [exact H1|]. split; [exact H2|].
           eapply picks_first; exact Hin. }
  split; [apply picks_nodup|].
  split. { intros ty. split; [|apply Ec]. intros Hin. apply in_map_iff in Hin. destruct Hin as (t & <- & Hin).
           apply picks_sound in Hin. apply in_map. tauto. }
  split; [|apply picks_subseq].
  intros ty Hty. specialize (Ec ty Hty). apply in_map_iff in Ec. destruct Ec as (t & <- & Hin).
  exists t. split; [eapply picks_first; exact Hin|exact Hin].
Qed.

(** ... and it exists iff the protocols agree and every type of mine has a match *)
Theorem intersection_some_iff mine peer :
  (exists r, intersection mine peer = Some r) <-> pr_proto mine = pr_proto peer /\ all_types_match mine peer.
Proof.
  rewrite intersection_unfold, <- cover_iff. destruct (Z.eqb (pr_proto mine) (pr_proto peer)) eqn:Ep.
  - apply Z.eqb_eq in Ep. destruct (subsetZ _ _); split.
    + auto. + intros _. eexists; reflexivity. + intros [r Hr]; discriminate. + intros [_ Hx]; discriminate.
  - apply Z.eqb_neq in Ep. split; [intros [r Hr]; discriminate|intros [Hx _]; contradiction].
Qed.
Theorem intersection_none_iff mine peer :
  intersection mine peer = None <->
  pr_proto mine <> pr_proto peer \/
  exists ty, In ty (map tr_type (pr_trs mine)) /\
             forall m, In m (pr_trs mine) -> tr_type m = ty -> ~ In m (pr_trs peer).
Proof.
  split.
  - intros Hn. destruct (Z.eq_dec (pr_proto mine) (pr_proto peer)) as [Ep|Ep]; [|left; exact Ep]. right.
    rewrite intersection_unfold in Hn. apply Z.eqb_eq in Ep. rewrite Ep in Hn.
    destruct (subsetZ _ _) eqn:Ec; [discriminate|].
    (* some type is not covered *)
    unfold subsetZ in Ec.
    assert (Hex : exists ty, In ty (map tr_type (pr_trs mine)) /\ memZ ty (map tr_type (isect_trs mine peer)) = false).
    { clear Hn. induction (map tr_type (pr_trs mine)) as [|x l IH]; [discriminate|]. cbn in Ec.
      apply andb_false_iff in Ec. destruct Ec as [Ec|Ec].
      - exists x. split; [left; reflexivity|exact Ec].
      - destruct (IH Ec) as (ty & H1 & H2). exists ty. split; [right; exact H1|exact H2]. }
    destruct Hex as (ty & Hty & Hmem). exists ty. split; [exact Hty|]. apply first_ok_none.
    destruct (first_ok (pr_trs mine) (pr_trs peer) ty) as [t|] eqn:Ef; [|reflexivity]. exfalso.
    apply first_ok_some in Ef. destruct Ef as (H1 & H2 & <-). apply memZ_false in Hmem. apply Hmem.
    apply picks_complete; auto.
  - intros Hx. destruct (intersection mine peer) as [r|] eqn:Ei; [|reflexivity]. exfalso.
    destruct (proj1 (intersection_some_iff mine peer) (ex_intro _ r Ei)) as [Hp Hall].
    destruct Hx as [Hx|(ty & Hty & Hno)]; [contradiction|].
    apply (Hall ty Hty). apply first_ok_none. exact Hno.
Qed.

(** Proposal.__eq__ and is_subset in terms of membership *)
Lemma trs_subset_incl a b : trs_subset a b = true <-> incl a b.
Proof.
  unfold trs_subset. rewrite forallb_forall. unfold incl. split; intros Hx x Hin.
  - apply acceptable_In. apply Hx. exact Hin.
  - apply (proj2 (acceptable_In b x)). apply Hx. exact Hin.
Qed.
Lemma prop_eqb_iff a b :
  prop_eqb a b = true <-> pr_proto a = pr_proto b /\ incl (pr_trs a) (pr_trs b) /\ incl (pr_trs b) (pr_trs a).
Proof. unfold prop_eqb. rewrite !andb_true_iff, !trs_subset_incl, Z.eqb_eq. tauto. Qed.

(** the acceptance test of both initiators: [intersection mine ch = Some i /\ i == ch]: the answer [ch] consists
    of transforms of my offer only, exactly one for each type of my offer *)
Theorem accepted_answer mine ch i :
  intersection mine ch = Some i -> prop_eqb i ch = true ->
  pr_proto ch = pr_proto mine /\
  (forall t, In t (pr_trs ch) -> In t (pr_trs mine)) /\
  (forall ty, In ty (map tr_type (pr_trs ch)) <-> In ty (map tr_type (pr_trs mine))) /\
  (forall t1 t2, In t1 (pr_trs ch) -> In t2 (pr_trs ch) -> tr_type t1 = tr_type t2 -> t1 = t2).
Proof.
  intros Hi He. apply intersection_some in Hi. destruct Hi as (Hp & Hpi & _ & _ & Hin & Hnd & Hty & _ & _).
  apply prop_eqb_iff in He. destruct He as (_ & H1 & H2).
  split; [symmetry; exact Hp|]. split; [intros t Ht; apply (Hin t); apply H2; exact Ht|].
  split.
  { intros ty. rewrite <- Hty. split; intros Hx; apply in_map_iff in Hx; destruct Hx as (t & <- & Ht); apply in_map; auto. }
  intros t1 t2 Ht1 Ht2 Heq. apply H2 in Ht1. apply H2 in Ht2.
  destruct (Hin t1 Ht1) as (_ & _ & F1). destruct (Hin t2 Ht2) as (_ & _ & F2). rewrite Heq in F1. congruence.
Qed.

(* ================================================================================================ *)
(** * Part 1b. _select_best_sa_proposal *)

Fixpoint sel_first (mine : proposal) (ps : list proposal) : option proposal :=
  match ps with
  | [] => None
  | p :: r => match intersection mine p with Some i => Some i | None => sel_first mine r end
  end.

Lemma select_best_eq mine ps s :
  select_best mine ps s = (match sel_first mine ps with Some i => Ok i | None => Raise X_NoProposalChosen end, s).
Proof.
  unfold select_best.
  induction ps as [|p r IH]; [reflexivity|]. cbn [flat_map sel_first].
  destruct (intersection mine p) as [i|]; [reflexivity|]. cbn [app]. exact IH.
Qed.

Lemma sel_first_some mine ps i :
  sel_first mine ps = Some i <->
  exists pre p post, ps = pre ++ p :: post /\ (forall q, In q pre -> intersection mine q = None) /\
                     intersection mine p = Some i.
Proof.
  induction ps as [|x r IH]; cbn [sel_first].
  - split; [discriminate|]. intros (pre & p & post & Hx & _). destruct pre; discriminate.
  - destruct (intersection mine x) as [j|] eqn:Ei.
    + split.
      * intros Hx. inversion Hx; subst j. exists [], x, r. split; [reflexivity|]. split; [intros q []|exact Ei].
      * intros (pre & p & post & Hx & Hpre & Hp). destruct pre as [|y pre]; cbn in Hx; inversion Hx; subst.
        -- congruence.
        -- rewrite (Hpre y (or_introl eq_refl)) in Ei. discriminate.
    + rewrite IH. split.
      * intros (pre & p & post & -> & Hpre & Hp). exists (x :: pre), p, post. split; [reflexivity|].
        split; [|exact Hp]. intros q [<-|Hq]; auto.
      * intros (pre & p & post & Hx & Hpre & Hp). destruct pre as [|y pre]; cbn in Hx; inversion Hx; subst.
        -- congruence.
        -- exists pre, p, post. split; [reflexivity|]. split; [|exact Hp]. intros q Hq. apply Hpre. right; exact Hq.
Qed.
Lemma sel_first_none mine ps : sel_first mine ps = None <-> forall q, In q ps -> intersection mine q = None.
Proof.
  induction ps as [|x r IH]; cbn [sel_first]; [split; [intros _ q []|reflexivity]|].
  destruct (intersection mine x) as [j|] eqn:Ei.
  - split; [discriminate|]. intros Hall. rewrite (Hall x (or_introl eq_refl)) in Ei. discriminate.
  - rewrite IH. split; [intros Hall q [<-|Hq]; auto|intros Hall q Hq; apply Hall; right; exact Hq].
Qed.

(** (b) the result is the intersection with the FIRST proposal of the peer that intersects; NoProposalChosen is
    raised iff none does; nothing else can happen and the state is never touched *)
Theorem select_best_ok_iff mine ps i s s' :
  select_best mine ps s = (Ok i, s') <->
  s' = s /\ exists pre p post, ps = pre ++ p :: post /\ (forall q, In q pre -> intersection mine q = None) /\
                               intersection mine p = Some i.
Proof.
  rewrite select_best_eq, <- sel_first_some. destruct (sel_first mine ps) as [j|]; split.
  - intros Hx; inversion Hx; auto.
  - intros [-> Hx]. inversion Hx; reflexivity.
  - discriminate.
  - intros [_ Hx]; discriminate.
Qed.
Theorem select_best_raise_iff mine ps e s s' :
  select_best mine ps s = (Raise e, s') <->
  s' = s /\ e = X_NoProposalChosen /\ forall q, In q ps -> intersection mine q = None.
Proof.
  rewrite select_best_eq, <- sel_first_none. destruct (sel_first mine ps) as [j|]; split.
  - discriminate.
  - intros (_ & _ & Hx); discriminate.
  - intros Hx; inversion Hx; auto.
  - intros (-> & -> & _). reflexivity.
Qed.
Theorem select_best_not_stuck mine ps s : fst (select_best mine ps s) <> Stuck.
Proof. rewrite select_best_eq. destruct (sel_first mine ps); discriminate. Qed.

(** whatever is selected consists of my transforms and of the transforms of ONE proposal of the peer *)
Theorem sel_first_sound mine ps i :
  sel_first mine ps = Some i ->
  exists p, In p ps /\ intersection mine p = Some i /\
            forall t, In t (pr_trs i) -> In t (pr_trs mine) /\ In t (pr_trs p).
Proof.
  intros Hs. apply sel_first_some in Hs. destruct Hs as (pre & p & post & -> & _ & Hp).
  exists p. split; [apply in_or_app; right; left; reflexivity|]. split; [exact Hp|].
  intros t Ht. apply intersection_some in Hp. destruct Hp as (_ & _ & _ & _ & Hin & _). destruct (Hin t Ht); tauto.
Qed.

Lemma copy_without_dh_trs p t : In t (pr_trs (copy_without_dh p)) <-> In t (pr_trs p) /\ tr_type t <> T_DH.
Proof.
  unfold copy_without_dh. cbn. rewrite filter_In, negb_true_iff, Z.eqb_neq. tauto.
Qed.

(* ================================================================================================ *)
(** * Part 1c. TrafficSelector.is_subset *)

Lemma ts_is_subset_iff a b :
  ts_is_subset a b = true <->
  ts_type a = ts_type b /\ (ts_proto b = 0 \/ ts_proto a = ts_proto b) /\
  ts_sport b <= ts_sport a /\ ts_eport a <= ts_eport b /\ ts_saddr b <= ts_saddr a /\ ts_eaddr a <= ts_eaddr b.
Proof.
  unfold ts_is_subset.
  destruct (Z.eqb (ts_type a) (ts_type b)) eqn:E1; cbn [negb]; [|split; [discriminate|lia]].
  destruct (Z.eqb (ts_proto b) 0) eqn:E2, (Z.eqb (ts_proto a) (ts_proto b)) eqn:E3; cbn [negb andb];
    try (split; [discriminate|lia]);
    (destruct (ts_sport a <? ts_sport b) eqn:E4, (ts_eport a >? ts_eport b) eqn:E5; cbn [orb];
     try (split; [discriminate|lia]);
     destruct (ts_saddr a <? ts_saddr b) eqn:E6, (ts_eaddr a >? ts_eaddr b) eqn:E7; cbn [orb];
     try (split; [discriminate|lia]); split; [intros _; lia|reflexivity]).
Qed.
Theorem ts_is_subset_refl a : ts_is_subset a a = true.
Proof. apply ts_is_subset_iff. lia. Qed.
Theorem ts_is_subset_trans a b c : ts_is_subset a b = true -> ts_is_subset b c = true -> ts_is_subset a c = true.
Proof. rewrite !ts_is_subset_iff. lia. Qed.
Lemma ts_eqb_eq a b : ts_eqb a b = true <-> a = b.
Proof.
  unfold ts_eqb. destruct a, b; cbn. rewrite !andb_true_iff, !Z.eqb_eq.
  split; [intros [[[[[-> ->] ->] ->] ->] ->]; reflexivity|intros Hx; inversion Hx; tauto].
Qed.
Lemma tsl_eqb_eq a : forall b, tsl_eqb a b = true <-> a = b.
Proof.
  induction a as [|x a IH]; intros [|y b]; cbn; try (split; [discriminate|discriminate]); [tauto|].
  rewrite andb_true_iff, ts_eqb_eq, IH. split; [intros [-> ->]; reflexivity|intros Hx; inversion Hx; auto].
Qed.
(** what containment means for packets: every (type, protocol, port, address) matched by [a] is matched by [b] *)
Definition ts_matches (t : ts) (ty proto port addr : Z) : Prop :=
  ty = ts_type t /\ (ts_proto t = 0 \/ proto = ts_proto t) /\ ts_sport t <= port <= ts_eport t /\
  ts_saddr t <= addr <= ts_eaddr t.
Theorem ts_is_subset_matches a b ty proto port addr :
  ts_is_subset a b = true -> ts_proto a <> 0 \/ ts_proto b = 0 -> ts_matches a ty proto port addr ->
  ts_matches b ty proto port addr.
Proof. rewrite ts_is_subset_iff. unfold ts_matches. lia. Qed.

(* ================================================================================================ *)
(** * Part 1d. _get_ipsec_configuration *)

(** the policy covers the requested pair / the requested pair covers the policy *)
Definition larger (p : protect) (tsi tsr : ts) : bool := ts_is_subset tsi (pt_peer_ts p) && ts_is_subset tsr (pt_my_ts p).
Definition smaller (p : protect) (tsi tsr : ts) : bool := ts_is_subset (pt_peer_ts p) tsi && ts_is_subset (pt_my_ts p) tsr.
Definition pair_matches (l : list protect) (tsi tsr : ts) : Prop :=
  exists p, In p l /\ (larger p tsi tsr = true \/ smaller p tsi tsr = true).

Lemma find_larger_some tsi tsr l p :
  find_larger tsi tsr l = Some p <->
  exists pre post, l = pre ++ p :: post /\ larger p tsi tsr = true /\ forall q, In q pre -> larger q tsi tsr = false.
Proof.
  induction l as [|x r IH]; cbn [find_larger].
  - split; [discriminate|]. intros (pre & post & Hx & _). destruct pre; discriminate.
  - fold (larger x tsi tsr). destruct (larger x tsi tsr) eqn:El.
    + split.
      * intros Hx; inversion Hx; subst x. exists [], r. split; [reflexivity|]. split; [exact El|intros q []].
      * intros (pre & post & Hx & Hp & Hpre). destruct pre as [|y pre]; cbn in Hx; inversion Hx; subst; [reflexivity|].
        rewrite (Hpre y (or_introl eq_refl)) in El. discriminate.
    + rewrite IH. split.
      * intros (pre & post & -> & Hp & Hpre). exists (x :: pre), post. split; [reflexivity|]. split; [exact Hp|].
        intros q [<-|Hq]; auto.
      * intros (pre & post & Hx & Hp & Hpre). destruct pre as [|y pre]; cbn in Hx; inversion Hx; subst; [congruence|].
        exists pre, post. split; [reflexivity|]. split; [exact Hp|]. intros q Hq. apply Hpre. right; exact Hq.
Qed.
Lemma find_larger_none tsi tsr l : find_larger tsi tsr l = None <-> forall q, In q l -> larger q tsi tsr = false.
Proof.
  induction l as [|x r IH]; cbn [find_larger]; [split; [intros _ q []|reflexivity]|].
  fold (larger x tsi tsr). destruct (larger x tsi tsr) eqn:El.
  - split; [discriminate|]. intros Hall. rewrite (Hall x (or_introl eq_refl)) in El. discriminate.
  - rewrite IH. split; [intros Hall q [<-|Hq]; auto|intros Hall q Hq; apply Hall; right; exact Hq].
Qed.
Lemma find_smaller_some tsi tsr l p :
  find_smaller tsi tsr l = Some p <->
  exists pre post, l = pre ++ p :: post /\ smaller p tsi tsr = true /\ forall q, In q pre -> smaller q tsi tsr = false.
Proof.
  induction l as [|x r IH]; cbn [find_smaller].
  - split; [discriminate|]. intros (pre & post & Hx & _). destruct pre; discriminate.
  - fold (smaller x tsi tsr). destruct (smaller x tsi tsr) eqn:El.
    + split.
      * intros Hx; inversion Hx; subst x. exists [], r. split; [reflexivity|]. split; [exact El|intros q []].
      * intros (pre & post & Hx & Hp & Hpre). destruct pre as [|y pre]; cbn in Hx; inversion Hx; subst; [reflexivity|].
        rewrite (Hpre y (or_introl eq_refl)) in El. discriminate.
    + rewrite IH. split.
      * intros (pre & post & -> & Hp & Hpre). exists (x :: pre), post. split; [reflexivity|]. split; [exact Hp|].
        intros q [<-|Hq]; auto.
      * intros (pre & post & Hx & Hp & Hpre). destruct pre as [|y pre]; cbn in Hx; inversion Hx; subst; [congruence|].
        exists pre, post. split; [reflexivity|]. split; [exact Hp|]. intros q Hq. apply Hpre. right; exact Hq.
Qed.
Lemma find_smaller_none tsi tsr l : find_smaller tsi tsr l = None <-> forall q, In q l -> smaller q tsi tsr = false.
Proof.
  induction l as [|x r IH]; cbn [find_smaller]; [split; [intros _ q []|reflexivity]|].
  fold (smaller x tsi tsr). destruct (smaller x tsi tsr) eqn:El.
  - split; [discriminate|]. intros Hall. rewrite (Hall x (or_introl eq_refl)) in El. discriminate.
  - rewrite IH. split; [intros Hall q [<-|Hq]; auto|intros Hall q Hq; apply Hall; right; exact Hq].
Qed.

(** the decision for ONE requested pair: the first policy that covers it, else the first policy it covers (and then
    the policy's own selectors are chosen) *)
Definition pair_choice (l : list protect) (tsi tsr : ts) (pc : protect) (ctsr ctsi : ts) : Prop :=
  (ctsi = tsi /\ ctsr = tsr /\
   exists pre post, l = pre ++ pc :: post /\ larger pc tsi tsr = true /\ forall q, In q pre -> larger q tsi tsr = false)
  \/
  (ctsi = pt_peer_ts pc /\ ctsr = pt_my_ts pc /\ (forall q, In q l -> larger q tsi tsr = false) /\
   exists pre post, l = pre ++ pc :: post /\ smaller pc tsi tsr = true /\ forall q, In q pre -> smaller q tsi tsr = false).

Lemma no_pair_match l tsi tsr :
  ~ pair_matches l tsi tsr <-> (forall q, In q l -> larger q tsi tsr = false) /\ (forall q, In q l -> smaller q tsi tsr = false).
Proof.
  unfold pair_matches. split.
  - intros Hn. split; intros q Hq.
    + destruct (larger q tsi tsr) eqn:E; [|reflexivity]. exfalso. apply Hn. exists q. auto.
    + destruct (smaller q tsi tsr) eqn:E; [|reflexivity]. exfalso. apply Hn. exists q. auto.
  - intros [H1 H2] (p & Hp & [Hx|Hx]); [rewrite (H1 p Hp) in Hx|rewrite (H2 p Hp) in Hx]; discriminate.
Qed.

Lemma conf_for_tsr_some l tsi tsrs pc ctsr ctsi :
  conf_for_tsr l tsi tsrs = Some (pc, ctsr, ctsi) <->
  exists pre tsr post, tsrs = pre ++ tsr :: post /\ (forall t, In t pre -> ~ pair_matches l tsi t) /\
                       pair_choice l tsi tsr pc ctsr ctsi.
Proof.
  induction tsrs as [|x r IH]; cbn [conf_for_tsr].
  - split; [discriminate|]. intros (pre & tsr & post & Hx & _). destruct pre; discriminate.
  - destruct (find_larger tsi x l) as [p|] eqn:Efl.
    { split.
      - intros Hx. inversion Hx; subst p ctsr ctsi. exists [], x, r. split; [reflexivity|]. split; [intros t []|].
        left. split; [reflexivity|]. split; [reflexivity|]. apply find_larger_some. exact Efl.
      - intros (pre & tsr & post & Hx & Hpre & Hc). destruct pre as [|y pre]; cbn in Hx; inversion Hx; subst.
        + destruct Hc as [(-> & -> & Hc)|(_ & _ & Hno & _)].
          * apply find_larger_some in Hc. congruence.
          * apply find_larger_none in Hno. congruence.
        + exfalso. apply (Hpre y (or_introl eq_refl)). apply find_larger_some in Efl.
          destruct Efl as (a & b & -> & Hl & _). exists p. split; [apply in_or_app; right; left; reflexivity|auto]. }
    destruct (find_smaller tsi x l) as [p|] eqn:Efs.
    { split.
      - intros Hx. inversion Hx; subst. exists [], x, r. split; [reflexivity|]. split; [intros t []|].
        right. split; [reflexivity|]. split; [reflexivity|]. split; [apply find_larger_none; exact Efl|].
        apply find_smaller_some. exact Efs.
      - intros (pre & tsr & post & Hx & Hpre & Hc). destruct pre as [|y pre]; cbn in Hx; inversion Hx; subst.
        + destruct Hc as [(-> & -> & Hc)|(-> & -> & _ & Hc)].
          * apply find_larger_some in Hc. congruence.
          * apply find_smaller_some in Hc. congruence.
        + exfalso. apply (Hpre y (or_introl eq_refl)). apply find_smaller_some in Efs.
          destruct Efs as (a & b & -> & Hl & _). exists p. split; [apply in_or_app; right; left; reflexivity|auto]. }
    rewrite IH. pose proof (proj1 (find_larger_none _ _ _) Efl) as Hnl. pose proof (proj1 (find_smaller_none _ _ _) Efs) as Hns. clear Efl Efs.
    assert (Hnx : ~ pair_matches l tsi x) by (apply no_pair_match; auto).
    split.
    + intros (pre & tsr & post & -> & Hpre & Hc). exists (x :: pre), tsr, post. split; [reflexivity|]. split; [|exact Hc].
      intros t [<-|Ht]; auto.
    + intros (pre & tsr & post & Hx & Hpre & Hc). destruct pre as [|y pre]; cbn in Hx; inversion Hx; subst.
      * exfalso. apply Hnx. destruct Hc as [(_ & _ & a & b & -> & Hl & _)|(_ & _ & _ & a & b & -> & Hl & _)];
          exists pc; (split; [apply in_or_app; right; left; reflexivity|auto]).
      * exists pre, tsr, post. split; [reflexivity|]. split; [|exact Hc]. intros t Ht. apply Hpre. right; exact Ht.
Qed.
Lemma conf_for_tsr_none l tsi tsrs : conf_for_tsr l tsi tsrs = None <-> forall t, In t tsrs -> ~ pair_matches l tsi t.
Proof.
  induction tsrs as [|x r IH]; cbn [conf_for_tsr]; [split; [intros _ t []|reflexivity]|].
  destruct (find_larger tsi x l) as [p|] eqn:Efl.
  { split; [discriminate|]. intros Hall. exfalso. apply (Hall x (or_introl eq_refl)). apply find_larger_some in Efl.
    destruct Efl as (a & b & -> & Hl & _). exists p. split; [apply in_or_app; right; left; reflexivity|auto]. }
  destruct (find_smaller tsi x l) as [p|] eqn:Efs.
  { split; [discriminate|]. intros Hall. exfalso. apply (Hall x (or_introl eq_refl)). apply find_smaller_some in Efs.
    destruct Efs as (a & b & -> & Hl & _). exists p. split; [apply in_or_app; right; left; reflexivity|auto]. }
  rewrite IH. pose proof (proj1 (find_larger_none _ _ _) Efl) as Hnl. pose proof (proj1 (find_smaller_none _ _ _) Efs) as Hns. clear Efl Efs.
  assert (Hnx : ~ pair_matches l tsi x) by (apply no_pair_match; auto).
  split; [intros Hall t [<-|Ht]; auto|intros Hall t Ht; apply Hall; right; exact Ht].
Qed.

(** the complete characterisation of the search: the FIRST pair (tsi outer loop, tsr inner loop) that matches any
    policy decides *)
Lemma conf_for_tsi_some l tsis tsrs pc ctsr ctsi :
  conf_for_tsi l tsis tsrs = Some (pc, ctsr, ctsi) <->
  exists prei tsi posti prer tsr postr,
    tsis = prei ++ tsi :: posti /\ tsrs = prer ++ tsr :: postr /\
    (forall a b, In a prei -> In b tsrs -> ~ pair_matches l a b) /\
    (forall b, In b prer -> ~ pair_matches l tsi b) /\
    pair_choice l tsi tsr pc ctsr ctsi.
Proof.
  induction tsis as [|x r IH]; cbn [conf_for_tsi].
  - split; [discriminate|]. intros (prei & tsi & posti & prer & tsr & postr & Hx & _). destruct prei; discriminate.
  - destruct (conf_for_tsr l x tsrs) as [[[p a] b]|] eqn:Ec.
    + split.
      * intros Hx. inversion Hx; subst p a b. apply conf_for_tsr_some in Ec. destruct Ec as (prer & tsr & postr & -> & Hpre & Hc).
        exists [], x, r, prer, tsr, postr. split; [reflexivity|]. split; [reflexivity|]. split; [intros ? ? []|]. auto.
      * intros (prei & tsi & posti & prer & tsr & postr & Hx & -> & Hprei & Hprer & Hc).
        destruct prei as [|y prei]; cbn in Hx; inversion Hx; subst.
        -- assert (Hs : conf_for_tsr l tsi (prer ++ tsr :: postr) = Some (pc, ctsr, ctsi)).
           { apply conf_for_tsr_some. exists prer, tsr, postr. auto. }
           congruence.
        -- exfalso. apply conf_for_tsr_some in Ec. destruct Ec as (pr & t & po & Ht & _ & Hch).
           apply (Hprei y t (or_introl eq_refl)); [rewrite Ht; apply in_or_app; right; left; reflexivity|].
           destruct Hch as [(_ & _ & u & v & -> & Hl & _)|(_ & _ & _ & u & v & -> & Hl & _)];
             exists p; (split; [apply in_or_app; right; left; reflexivity|auto]).
    + rewrite IH. pose proof (proj1 (conf_for_tsr_none l x tsrs) Ec) as Hnx. split.
      * intros (prei & tsi & posti & prer & tsr & postr & -> & -> & Hprei & Hprer & Hc).
        exists (x :: prei), tsi, posti, prer, tsr, postr. split; [reflexivity|]. split; [reflexivity|].
        split; [|auto]. intros a b [<-|Ha] Hb; auto.
      * intros (prei & tsi & posti & prer & tsr & postr & Hx & -> & Hprei & Hprer & Hc).
        destruct prei as [|y prei]; cbn in Hx; inversion Hx; subst.
        -- exfalso. apply (Hnx tsr); [apply in_or_app; right; left; reflexivity|].
           destruct Hc as [(_ & _ & u & v & -> & Hl & _)|(_ & _ & _ & u & v & -> & Hl & _)];
             exists pc; (split; [apply in_or_app; right; left; reflexivity|auto]).
        -- exists prei, tsi, posti, prer, tsr, postr. split; [reflexivity|]. split; [reflexivity|].
           split; [|auto]. intros a b Ha Hb. apply Hprei; [right; exact Ha|exact Hb].
Qed.
Lemma conf_for_tsi_none l tsis tsrs :
  conf_for_tsi l tsis tsrs = None <-> forall a b, In a tsis -> In b tsrs -> ~ pair_matches l a b.
Proof.
  induction tsis as [|x r IH]; cbn [conf_for_tsi]; [split; [intros _ a b []|reflexivity]|].
  destruct (conf_for_tsr l x tsrs) as [[[p a] b]|] eqn:Ec.
  - split; [discriminate|]. intros Hall. exfalso. apply conf_for_tsr_some in Ec.
    destruct Ec as (pr & t & po & Ht & _ & Hch).
    apply (Hall x t (or_introl eq_refl)); [rewrite Ht; apply in_or_app; right; left; reflexivity|].
    destruct Hch as [(_ & _ & u & v & -> & Hl & _)|(_ & _ & _ & u & v & -> & Hl & _)];
      exists p; (split; [apply in_or_app; right; left; reflexivity|auto]).
  - rewrite IH. pose proof (proj1 (conf_for_tsr_none l x tsrs) Ec) as Hnx.
    split; [intros Hall u v [<-|Hu] Hv; auto|intros Hall u v Hu Hv; apply Hall; [right; exact Hu|exact Hv]].
Qed.

(** the selectors chosen for the pair are contained in the requested pair AND in the policy *)
Definition ts_within (x outer1 outer2 : ts) : Prop := ts_is_subset x outer1 = true /\ ts_is_subset x outer2 = true.
Lemma pair_choice_sound l tsi tsr pc ctsr ctsi :
  pair_choice l tsi tsr pc ctsr ctsi ->
  In pc l /\
  ((ctsi = tsi /\ ctsr = tsr /\ ts_is_subset tsi (pt_peer_ts pc) = true /\ ts_is_subset tsr (pt_my_ts pc) = true) \/
   (ctsi = pt_peer_ts pc /\ ctsr = pt_my_ts pc /\ ts_is_subset (pt_peer_ts pc) tsi = true /\
    ts_is_subset (pt_my_ts pc) tsr = true)) /\
  ts_within ctsi tsi (pt_peer_ts pc) /\ ts_within ctsr tsr (pt_my_ts pc).
Proof.
  unfold ts_within.
  intros [(-> & -> & a & b & -> & Hl & _)|(-> & -> & _ & a & b & -> & Hl & _)];
    (split; [apply in_or_app; right; left; reflexivity|]); apply andb_true_iff in Hl; destruct Hl as [H1 H2].
  - split; [left; auto|]. rewrite !ts_is_subset_refl. auto.
  - split; [right; auto|]. rewrite !ts_is_subset_refl. auto.
Qed.

(** (g) _get_ipsec_configuration *)
Theorem get_ipsec_configuration_eq l tsis tsrs s :
  get_ipsec_configuration l tsis tsrs s =
  (match conf_for_tsi l (rev tsis) (rev tsrs) with Some x => Ok x | None => Raise X_TsUnacceptable end, s).
Proof. unfold get_ipsec_configuration. destruct (conf_for_tsi l (rev tsis) (rev tsrs)); reflexivity. Qed.

Theorem get_ipsec_configuration_ok l tsis tsrs pc ctsr ctsi s s' :
  get_ipsec_configuration l tsis tsrs s = (Ok (pc, ctsr, ctsi), s') ->
  s' = s /\ In pc l /\
  exists tsi tsr, In tsi tsis /\ In tsr tsrs /\
    (* either the requested pair itself, covered by the policy, or the policy's own pair, covered by the request *)
    ((ctsi = tsi /\ ctsr = tsr /\ ts_is_subset tsi (pt_peer_ts pc) = true /\ ts_is_subset tsr (pt_my_ts pc) = true) \/
     (ctsi = pt_peer_ts pc /\ ctsr = pt_my_ts pc /\ ts_is_subset (pt_peer_ts pc) tsi = true /\
      ts_is_subset (pt_my_ts pc) tsr = true /\ forall q, In q l -> larger q tsi tsr = false)) /\
    (* in both cases: contained in a requested pair and in the policy *)
    ts_is_subset ctsi tsi = true /\ ts_is_subset ctsi (pt_peer_ts pc) = true /\
    ts_is_subset ctsr tsr = true /\ ts_is_subset ctsr (pt_my_ts pc) = true.
Proof.
  rewrite get_ipsec_configuration_eq. destruct (conf_for_tsi l (rev tsis) (rev tsrs)) as [[[p a] b]|] eqn:Ec; [|discriminate].
  intros Hx. inversion Hx; subst p a b s'. split; [reflexivity|].
  apply conf_for_tsi_some in Ec. destruct Ec as (prei & tsi & posti & prer & tsr & postr & Hi & Hr & _ & _ & Hc).
  pose proof (pair_choice_sound _ _ _ _ _ _ Hc) as (Hin & Hcases & [W1 W2] & [W3 W4]). split; [exact Hin|].
  exists tsi, tsr.
  split. { apply in_rev. rewrite Hi. apply in_or_app; right; left; reflexivity. }
  split. { apply in_rev. rewrite Hr. apply in_or_app; right; left; reflexivity. }
  split; [|auto].
  destruct Hc as [(-> & -> & a & b & -> & Hl & _)|(-> & -> & Hno & a & b & -> & Hl & _)];
    apply andb_true_iff in Hl; destruct Hl as [H1 H2]; [left; auto|right; auto 6].
Qed.

(** TsUnacceptable iff no requested pair matches any policy in either direction *)
Theorem get_ipsec_configuration_raise_iff l tsis tsrs e s s' :
  get_ipsec_configuration l tsis tsrs s = (Raise e, s') <->
  s' = s /\ e = X_TsUnacceptable /\
  forall tsi tsr p, In tsi tsis -> In tsr tsrs -> In p l -> larger p tsi tsr = false /\ smaller p tsi tsr = false.
Proof.
  rewrite get_ipsec_configuration_eq.
  assert (Hiff : conf_for_tsi l (rev tsis) (rev tsrs) = None <->
                 forall tsi tsr p, In tsi tsis -> In tsr tsrs -> In p l -> larger p tsi tsr = false /\ smaller p tsi tsr = false).
  { rewrite conf_for_tsi_none. split.
    - intros Hall tsi tsr p Hi Hr Hp. apply in_rev in Hi. apply in_rev in Hr.
      pose proof (proj1 (no_pair_match l tsi tsr) (Hall tsi tsr Hi Hr)) as [H1 H2]. auto.
    - intros Hall a b Ha Hb. apply in_rev in Ha. apply in_rev in Hb. apply no_pair_match.
      split; intros q Hq; destruct (Hall a b q Ha Hb Hq); auto. }
  destruct (conf_for_tsi l (rev tsis) (rev tsrs)) as [x|]; split.
  - discriminate.
  - intros (_ & _ & Hall). apply Hiff in Hall. discriminate.
  - intros Hx. inversion Hx. split; [reflexivity|]. split; [reflexivity|]. apply Hiff. reflexivity.
  - intros (-> & -> & _). reflexivity.
Qed.
Theorem get_ipsec_configuration_not_stuck l tsis tsrs s : fst (get_ipsec_configuration l tsis tsrs s) <> Stuck.
Proof. rewrite get_ipsec_configuration_eq. destruct (conf_for_tsi _ _ _); discriminate. Qed.

(** which pair decides: the LAST TSi (then the last TSr) of the request that matches any policy *)
Theorem get_ipsec_configuration_order l tsis tsrs pc ctsr ctsi s s' :
  get_ipsec_configuration l tsis tsrs s = (Ok (pc, ctsr, ctsi), s') ->
  exists prei tsi posti prer tsr postr,
    tsis = prei ++ tsi :: posti /\ tsrs = prer ++ tsr :: postr /\
    (forall a b, In a posti -> In b tsrs -> ~ pair_matches l a b) /\
    (forall b, In b postr -> ~ pair_matches l tsi b) /\
    pair_choice l tsi tsr pc ctsr ctsi.
Proof.
  rewrite get_ipsec_configuration_eq. destruct (conf_for_tsi l (rev tsis) (rev tsrs)) as [[[p a] b]|] eqn:Ec; [|discriminate].
  intros Hx. inversion Hx; subst p a b s'.
  apply conf_for_tsi_some in Ec. destruct Ec as (prei & tsi & posti & prer & tsr & postr & Hi & Hr & H1 & H2 & Hc).
  exists (rev posti), tsi, (rev prei), (rev postr), tsr, (rev prer).
  assert (Ei : tsis = rev posti ++ tsi :: rev prei).
  { rewrite <- (rev_involutive tsis), Hi, rev_app_distr. cbn. rewrite <- app_assoc. reflexivity. }
  assert (Er : tsrs = rev postr ++ tsr :: rev prer).
  { rewrite <- (rev_involutive tsrs), Hr, rev_app_distr. cbn. rewrite <- app_assoc. reflexivity. }
  split; [exact Ei|]. split; [exact Er|].
  split. { intros u v Hu Hv. apply H1; [apply in_rev; exact Hu|apply in_rev; rewrite rev_involutive; exact Hv]. }
  split; [|exact Hc]. intros v Hv. apply H2. apply in_rev. exact Hv.
Qed.

(* ================================================================================================ *)
(** * Part 2. The responder of a CHILD_SA negotiation *)

(** ** a small kit: what a step may change *)
Definition suffix (t' t : list draw) : Prop := exists used, t = used ++ t'.
Lemma suffix_refl t : suffix t t. Proof. exists []. reflexivity. Qed.
Lemma suffix_trans a b c : suffix a b -> suffix b c -> suffix a c.
Proof. intros [u ->] [v ->]. exists (v ++ u). apply app_assoc. Qed.
Lemma suffix_cons d t' t : suffix t' t -> suffix t' (d :: t).
Proof. intros [u ->]. exists (d :: u). reflexivity. Qed.

(** [fr s s' ks]: from [s] to [s'] the kernel operations [ks] were issued, draws were consumed from the tape, and
    nothing else changed (the IkeSa itself, its successor, the clock) *)
Definition fr (s s' : isa) (ks : list kop) : Prop :=
  co s' = co s /\ new_sa s' = new_sa s /\ rek_push s' = rek_push s /\ now s' = now s /\ kops s' = kops s ++ ks /\
  suffix (tape s') (tape s).
Definition tonly (s s' : isa) : Prop := fr s s' [].
Lemma fr_refl s : fr s s [].
Proof. unfold fr. rewrite app_nil_r. repeat split; auto using suffix_refl. Qed.
Lemma fr_trans a b c k1 k2 : fr a b k1 -> fr b c k2 -> fr a c (k1 ++ k2).
Proof.
  unfold fr. intros (A1 & A2 & A3 & A4 & A5 & A6) (B1 & B2 & B3 & B4 & B5 & B6).
  repeat split; try congruence. - rewrite B5, A5. symmetry; apply app_assoc. - eapply suffix_trans; eassumption.
Qed.
Lemma tonly_refl s : tonly s s. Proof. apply fr_refl. Qed.
Lemma tonly_trans a b c : tonly a b -> tonly b c -> tonly a c.
Proof. intros H1 H2. exact (fr_trans _ _ _ _ _ H1 H2). Qed.
Lemma tonly_fr a b c ks : tonly a b -> fr b c ks -> fr a c ks.
Proof. intros H1 H2. exact (fr_trans _ _ _ _ _ H1 H2). Qed.
Lemma fr_tonly a b c ks : fr a b ks -> tonly b c -> fr a c ks.
Proof. intros H1 H2. pose proof (fr_trans _ _ _ _ _ H1 H2) as Hx. rewrite app_nil_r in Hx. exact Hx. Qed.
Lemma tonly_tape s r d : tape s = d :: r -> tonly s (s <| tape := r |>).
Proof. intros Ht. unfold tonly, fr. cbn. rewrite app_nil_r, Ht. repeat split; auto. exists [d]. reflexivity. Qed.
Lemma fr_emit s k : fr s (s <| kops := kops s ++ [k] |>) [k].
Proof. unfold fr. cbn. repeat split; auto using suffix_refl. Qed.
Lemma tonly_kops s s' : tonly s s' -> kops s' = kops s.
Proof. intros (_ & _ & _ & _ & Hk & _). rewrite app_nil_r in Hk. exact Hk. Qed.
Lemma tonly_co s s' : tonly s s' -> co s' = co s.
Proof. intros (Hc & _). exact Hc. Qed.

(** computations that only consume draws *)
Definition tl_m {A} (m : H A) : Prop := forall s, tonly s (snd (m s)).
Lemma tl_ret {A} (a : A) : tl_m (ret a). Proof. intro; apply tonly_refl. Qed.
Lemma tl_raise {A} e : tl_m (@raise A e). Proof. intro; apply tonly_refl. Qed.
Lemma tl_stuck {A} : tl_m (@stuck A). Proof. intro; apply tonly_refl. Qed.
Lemma tl_get : tl_m get. Proof. intro; apply tonly_refl. Qed.
Lemma tl_getc : tl_m getc. Proof. intro; apply tonly_refl. Qed.
Lemma tl_bind {A B} (m : H A) (f : A -> H B) : tl_m m -> (forall a, tl_m (f a)) -> tl_m (bind m f).
Proof.
  intros Hm Hf s. unfold bind. specialize (Hm s). destruct (m s) as [[a|e|] s1]; cbn [snd] in *; auto.
  eapply tonly_trans; [exact Hm|apply Hf].
Qed.
Lemma tl_pop : tl_m pop.
Proof. intros s. unfold pop. destruct (tape s) as [|d r] eqn:Et; cbn [snd]; [apply tonly_refl|apply (tonly_tape s r d Et)]. Qed.
Lemma tl_of_opt {A} (o : option A) e : tl_m (of_opt o e). Proof. destruct o; intro; apply tonly_refl. Qed.
Lemma tl_get_payload m k enc : tl_m (get_payload m k enc).
Proof. unfold get_payload. destruct (get_payloads m k enc); intro; apply tonly_refl. Qed.

Ltac tl_step :=
  match goal with
  | |- tl_m (bind _ _) => apply tl_bind; [ | intros ]
  | |- tl_m (ret _) => apply tl_ret
  | |- tl_m (raise _) => apply tl_raise
  | |- tl_m stuck => apply tl_stuck
  | |- tl_m get => apply tl_get
  | |- tl_m getc => apply tl_getc
  | |- tl_m pop => apply tl_pop
  | |- tl_m (of_opt _ _) => apply tl_of_opt
  | |- tl_m (get_payload _ _ _) => apply tl_get_payload
  | |- tl_m (if ?b then _ else _) => destruct b
  | |- tl_m (match ?x with _ => _ end) => destruct x
  | |- tl_m (let (_, _) := ?x in _) => destruct x
  end.
Ltac tl_prim :=
  progress unfold draw_bytes, draw_num, draw_dh, draw_verdict, first_prop, get_transform, one_ts, select_best,
    amsg_nonce, req_get, fresh_nonce, get_ipsec_configuration, opt_nonce.
Ltac tl_go := repeat (first [ tl_step | progress cbv beta | tl_prim ]).

Lemma wp_eqn {A} (m : H A) s (Q : res A -> isa -> Prop) : (forall r s1, m s = (r, s1) -> Q r s1) -> wp m s Q.
Proof. intros Hq. unfold wp. apply Hq. destruct (m s); reflexivity. Qed.
Lemma wp_tl {A} (m : H A) s (Q : res A -> isa -> Prop) :
  tl_m m -> (forall r s1, m s = (r, s1) -> tonly s s1 -> Q r s1) -> wp m s Q.
Proof. intros Ht Hq. apply wp_eqn. intros r s1 He. apply Hq; [exact He|]. specialize (Ht s). rewrite He in Ht. exact Ht. Qed.

Lemma wp_get_payload_hd m k enc s (Q : res payload -> isa -> Prop) :
  (forall p, hd_error (get_payloads m k enc) = Some p -> Q (Ok p) s) ->
  (get_payloads m k enc = [] -> Q (Raise X_PayloadNotFound) s) -> wp (get_payload m k enc) s Q.
Proof. intros H1 H2. apply wp_get_payload; [intros p rest Hp; apply H1; rewrite Hp; reflexivity|exact H2]. Qed.
Lemma wp_guard (b : bool) e s (Q : res unit -> isa -> Prop) :
  (b = true -> Q (Ok tt) s) -> (b = false -> Q (Raise e) s) -> wp (if b then ret tt else raise e) s Q.
Proof. destruct b; unfold wp; cbn; auto. Qed.
Lemma wp_nguard (b : bool) e s (Q : res unit -> isa -> Prop) :
  (b = false -> Q (Ok tt) s) -> (b = true -> Q (Raise e) s) -> wp (if b then raise e else ret tt) s Q.
Proof. destruct b; unfold wp; cbn; auto. Qed.
Lemma wp_select_best mine ps s (Q : res proposal -> isa -> Prop) :
  (forall i, sel_first mine ps = Some i -> Q (Ok i) s) -> (sel_first mine ps = None -> Q (Raise X_NoProposalChosen) s) ->
  wp (select_best mine ps) s Q.
Proof. intros H1 H2. unfold wp. rewrite select_best_eq. cbn [fst snd]. destruct (sel_first mine ps); auto. Qed.
Lemma wp_get_ipsec l a b s (Q : res (protect * ts * ts) -> isa -> Prop) :
  (forall pc ctsr ctsi, conf_for_tsi l (rev a) (rev b) = Some (pc, ctsr, ctsi) -> Q (Ok (pc, ctsr, ctsi)) s) ->
  (conf_for_tsi l (rev a) (rev b) = None -> Q (Raise X_TsUnacceptable) s) -> wp (get_ipsec_configuration l a b) s Q.
Proof.
  intros H1 H2. unfold wp. rewrite get_ipsec_configuration_eq. cbn [fst snd].
  destruct (conf_for_tsi l (rev a) (rev b)) as [[[pc x] y]|]; auto.
Qed.
Lemma wp_first_prop p s (Q : res proposal -> isa -> Prop) :
  (forall x, hd_error (sa_props p) = Some x -> Q (Ok x) s) -> (sa_props p = [] -> Q (Raise X_Other) s) ->
  wp (first_prop p) s Q.
Proof. intros H1 H2. unfold first_prop, wp. destruct (sa_props p); cbn; auto. Qed.
Lemma wp_get_transform p ty s (Q : res transform -> isa -> Prop) :
  (forall t, hd_error (get_transforms p ty) = Some t -> Q (Ok t) s) -> (get_transforms p ty = [] -> Q (Raise X_Other) s) ->
  wp (get_transform p ty) s Q.
Proof. intros H1 H2. unfold get_transform, wp. destruct (get_transforms p ty); cbn; auto. Qed.
Lemma wp_modc f s (Q : res unit -> isa -> Prop) : Q (Ok tt) (s <| co := f (co s) |>) -> wp (modc f) s Q.
Proof. exact (fun h => h). Qed.
Lemma wp_emit k s (Q : res unit -> isa -> Prop) : (forall s1, fr s s1 [k] -> Q (Ok tt) s1) -> wp (emit k) s Q.
Proof. intros Hq. unfold emit. apply wp_modify. apply Hq. apply fr_emit. Qed.

Lemma draw_bytes_tl : tl_m draw_bytes. Proof. tl_go. Qed.
Lemma draw_num_tl : tl_m draw_num. Proof. tl_go. Qed.
Lemma draw_verdict_tl : tl_m draw_verdict. Proof. tl_go. Qed.
Lemma draw_dh_tl g : tl_m (draw_dh g). Proof. tl_go. Qed.
Lemma fresh_nonce_tl : tl_m fresh_nonce. Proof. tl_go. Qed.
Lemma opt_nonce_tl x m : tl_m (opt_nonce x m). Proof. tl_go. Qed.

(** exact evaluation *)
Lemma bind_ok_eq {A B} (m : H A) (f : A -> H B) s a s1 : m s = (Ok a, s1) -> bind m f s = f a s1.
Proof. intros Hm. unfold bind. rewrite Hm. reflexivity. Qed.
Lemma bind_raise_eq {A B} (m : H A) (f : A -> H B) s e s1 : m s = (Raise e, s1) -> bind m f s = (Raise e, s1).
Proof. intros Hm. unfold bind. rewrite Hm. reflexivity. Qed.
Lemma get_payload_eval m k enc p s : hd_error (get_payloads m k enc) = Some p -> get_payload m k enc s = (Ok p, s).
Proof. unfold get_payload. destruct (get_payloads m k enc); cbn; intros Hx; inversion Hx; reflexivity. Qed.

(** every element of get_notifies is a NOTIFY of the requested type *)
Lemma get_notifies_shape m ty enc p :
  In p (get_notifies m ty enc) -> exists a b c, p = P_NOTIFY a ty b c.
Proof.
  unfold get_notifies, get_payloads. rewrite !filter_In. intros [[_ Hk] Ht]. destruct p; try discriminate Hk.
  cbn in Ht. apply Z.eqb_eq in Ht. subst. eauto.
Qed.

(** ** the kernel primitive *)
(** a kernel SA built from CHILD_SA [ch]: its proposal, mode and protocol, and the selector pair of [ch] -
    (TSi-of-the-child, TSr-of-the-child) as (source, destination) for the outbound SA, swapped for the inbound one *)
Definition ksa_common (ch : child) (x : ksa) : Prop :=
  k_prop x = c_prop ch /\ k_mode x = c_mode ch /\ k_proto x = ipsec_proto (c_prop ch).
Definition ksa_out (c : core) (ch : child) (x : ksa) : Prop :=
  ksa_common ch x /\ k_spi x = c_out ch /\ k_src x = my_addr c /\ k_dst x = peer_addr c /\
  c_tsi ch = [k_sel_src x] /\ c_tsr ch = [k_sel_dst x].
Definition ksa_in (c : core) (ch : child) (x : ksa) : Prop :=
  ksa_common ch x /\ k_spi x = c_in ch /\ k_src x = peer_addr c /\ k_dst x = my_addr c /\
  c_tsr ch = [k_sel_src x] /\ c_tsi ch = [k_sel_dst x].
Definition ksa_of_child (c : core) (ch : child) (x : ksa) : Prop := ksa_out c ch x \/ ksa_in c ch x.

Lemma wp_draw_verdict s (Q : res bool -> isa -> Prop) :
  (forall v s1, tonly s s1 -> Q (Ok v) s1) -> (forall s1, tonly s s1 -> Q Stuck s1) -> wp draw_verdict s Q.
Proof.
  intros H1 H2. apply wp_tl; [apply draw_verdict_tl|]. intros [v|e|] s1 He Ht; auto.
  exfalso. unfold draw_verdict, bind, pop in He. destruct (tape s) as [|[] r]; cbn in He; discriminate He.
Qed.

Section Create.
  Variables (ch : child) (k : ckeyring) (ini : bool).

  Definition create_post (s : isa) (r : res unit) (s' : isa) : Prop :=
    exists ks, fr s s' ks /\
      (forall x ok, In (K_add x ok) ks -> ksa_of_child (co s) ch x) /\
      (forall u, r = Ok u -> exists a b, ks = [K_add a true; K_add b true] /\ ksa_out (co s) ch a /\ ksa_in (co s) ch b) /\
      (forall e, r = Raise e -> e = X_Other \/ e = X_Netlink).

  Lemma create_child_sa_spec s : wp (create_child_sa ch k ini) s (create_post s).
  Proof.
    assert (Hnil : forall r s1, tonly s s1 -> r = Stuck \/ r = Raise X_Other -> create_post s r s1).
    { intros r s1 Ht Hr. exists []. split; [exact Ht|]. split; [intros x ok []|].
      split; [intros u Hu; destruct Hr as [->| ->]; discriminate Hu|].
      intros e He. destruct Hr as [->| ->]; inversion He. left; reflexivity. }
    unfold create_child_sa.
    apply wp_bind, wp_getc.
    apply wp_bind. unfold one_ts. destruct (c_tsi ch) as [|tsi [|? ?]] eqn:Ei;
      try (apply wp_raise, Hnil; [apply tonly_refl|right; reflexivity]). apply wp_ret.
    apply wp_bind. destruct (c_tsr ch) as [|tsr [|? ?]] eqn:Er;
      try (apply wp_raise, Hnil; [apply tonly_refl|right; reflexivity]). apply wp_ret.
    cbv zeta.
    apply wp_bind.
    apply (wp_conseq _ _ (fun r s1 => s1 = s /\ (r = Ok tt \/ r = Raise X_Other))).
    { destruct (Z.eqb (ipsec_proto (c_prop ch)) 50); [|apply wp_ret; auto].
      apply wp_bind, wp_get_transform; [intros t _|intros _; auto].
      destruct (Z.eqb (tr_id t) 12); [apply wp_ret|apply wp_raise]; auto. }
    intros r1 s1 [-> [->| ->]]; [|apply Hnil; [apply tonly_refl|right; reflexivity]].
    apply wp_bind, wp_get_transform; [intros ti _|intros _; apply Hnil; [apply tonly_refl|right; reflexivity]].
    apply wp_bind, wp_guard; [intros _|intros _; apply Hnil; [apply tonly_refl|right; reflexivity]].
    apply wp_bind.
    apply (wp_conseq _ _ (fun r s1 => tonly s s1 /\ ((exists l, r = Ok l) \/ r = Stuck))).
    { destruct (Z.eqb (c_life ch) (-1)); [apply wp_ret; split; [apply tonly_refl|left; eauto]|].
      apply wp_bind, wp_tl; [apply draw_num_tl|]. intros [j|e|] s1 He Ht.
      - apply wp_ret. split; [exact Ht|left; eauto].
      - exfalso. unfold draw_num, bind, pop in He. destruct (tape s) as [|[] r]; cbn in He; discriminate He.
      - split; [exact Ht|right; reflexivity]. }
    intros rl s1 [Ht1 [[life ->]| ->]]; [|apply Hnil; [exact Ht1|left; reflexivity]].
    assert (Hkeys : (if ini then (ck_ei k, ck_er k, ck_ai k, ck_ar k) else (ck_er k, ck_ei k, ck_ar k, ck_ai k)) =
                    (if ini then ck_ei k else ck_er k, if ini then ck_er k else ck_ei k,
                     if ini then ck_ai k else ck_ar k, if ini then ck_ar k else ck_ai k)) by (destruct ini; reflexivity).
    rewrite Hkeys. cbv beta iota.
    set (a := mk_ksa (c_out ch) (my_addr (co s)) (peer_addr (co s)) (ipsec_proto (c_prop ch)) (c_mode ch) tsi tsr
                     (c_prop ch) (if ini then ck_ei k else ck_er k) (if ini then ck_ai k else ck_ar k) life).
    set (b := mk_ksa (c_in ch) (peer_addr (co s)) (my_addr (co s)) (ipsec_proto (c_prop ch)) (c_mode ch) tsr tsi
                     (c_prop ch) (if ini then ck_er k else ck_ei k) (if ini then ck_ar k else ck_ai k) life).
    assert (Ha' : ksa_out (co s) ch a).
    { unfold ksa_out, ksa_common, a. cbn. rewrite Ei, Er. repeat split; reflexivity. }
    assert (Hb' : ksa_in (co s) ch b).
    { unfold ksa_in, ksa_common, b. cbn. rewrite Ei, Er. repeat split; reflexivity. }
    assert (Ha : ksa_of_child (co s) ch a) by (left; exact Ha').
    assert (Hb : ksa_of_child (co s) ch b) by (right; exact Hb').
    clearbody a b.
    assert (Hnl : forall e : exn, Raise (A := unit) X_Netlink = Raise e -> e = X_Other \/ e = X_Netlink).
    { intros e He. inversion He. right; reflexivity. }
    apply wp_bind, wp_guard; [intros _|intros _; apply Hnil; [exact Ht1|right; reflexivity]].
    apply wp_bind, wp_draw_verdict; [intros v1 s2 Ht2|intros s2 Ht2; apply Hnil; [eapply tonly_trans; eassumption|left; reflexivity]].
    apply wp_bind, wp_emit. intros s3 Hf3.
    assert (F3 : fr s s3 [K_add a v1]) by (eapply tonly_fr; [eapply tonly_trans; eassumption|exact Hf3]).
    apply wp_bind. destruct v1.
    2:{ apply wp_raise. exists [K_add a false]. split; [exact F3|]. split; [|split; [discriminate|exact Hnl]].
        intros x ok [Hx|[]]. inversion Hx; subst. exact Ha. }
    apply wp_ret.
    apply wp_bind, wp_draw_verdict.
    2:{ intros s4 Ht4. exists [K_add a true]. split; [eapply fr_tonly; eassumption|]. split; [|split; discriminate].
        intros x ok [Hx|[]]. inversion Hx; subst. exact Ha. }
    intros v2 s4 Ht4. apply wp_bind, wp_emit. intros s5 Hf5.
    assert (F5 : fr s s5 [K_add a true; K_add b v2]).
    { pose proof (fr_trans _ _ _ _ _ (fr_tonly _ _ _ _ F3 Ht4) Hf5) as Hx. exact Hx. }
    destruct v2.
    - apply wp_ret. exists [K_add a true; K_add b true]. split; [exact F5|]. split; [|split; [|discriminate]].
      + intros x ok [Hx|[Hx|[]]]; inversion Hx; subst; assumption.
      + intros _ _. exists a, b. auto.
    - apply wp_bind, wp_draw_verdict.
      2:{ intros s6 Ht6. exists [K_add a true; K_add b false]. split; [eapply fr_tonly; eassumption|].
          split; [|split; discriminate]. intros x ok [Hx|[Hx|[]]]; inversion Hx; subst; assumption. }
      intros v3 s6 Ht6. apply wp_bind, wp_emit. intros s7 Hf7. apply wp_raise.
      eexists. split; [exact (fr_trans _ _ _ _ _ (fr_tonly _ _ _ _ F5 Ht6) Hf7)|]. split; [|split; [discriminate|exact Hnl]].
      intros x ok [Hx|[Hx|[Hx|[]]]]; inversion Hx; subst; assumption.
  Qed.
End Create.

(** ** the responder *)
Section Responder.
  Variable E : env.

  (** what the request asks for *)
  Definition req_mode (m : pmsg body) : Z :=
    if nonempty (get_notifies m N_USE_TRANSPORT_MODE true) then MODE_TRANSPORT else MODE_TUNNEL.
  Definition mode_reply (m : pmsg body) : list payload :=
    if nonempty (get_notifies m N_USE_TRANSPORT_MODE true) then [P_NOTIFY PROTO_NONE N_USE_TRANSPORT_MODE [] []] else [].
  (** my offer: the policy's proposal, without the DH transforms inside IKE_AUTH *)
  Definition offer_of (exch : Z) (p : proposal) : proposal := if Z.eqb exch EX_IKE_AUTH then copy_without_dh p else p.

  (** the REKEY_SA block of the handler *)
  Definition rekey_block (m : pmsg body) (c : core) (psa ptsi ptsr : payload) : H (list payload) :=
    match get_notifies m N_REKEY_SA true with
    | P_NOTIFY nproto _ nspi _ :: _ =>
        match find_child (children c) nspi with
        | None => raise (X_ChildSaNotFound nspi nproto)
        | Some rk =>
            if rekey_child_being_deleted (st c) (opt_child_eqb rk (deleting c)) then raise X_TemporaryFailure
            else if rekey_child_being_rekeyed (st c) (opt_child_eqb rk (rekeying c)) then raise X_TemporaryFailure
            else if negb (tsl_eqb (tsl_of ptsi) (c_tsr rk)) || negb (tsl_eqb (tsl_of ptsr) (c_tsi rk))
            then raise X_TsUnacceptable
            else p0 <- first_prop psa ;; ret [P_NOTIFY (pr_proto p0) N_REKEY_SA (c_in rk) []]
        end
    | _ => ret []
    end.
  (** ... lets the request pass iff there is no REKEY_SA notification, or the FIRST one names a tracked CHILD_SA
      [rk] that is not the one this endpoint is itself deleting / rekeying, and the selector LISTS of the request
      equal those of [rk] (TSi of the request = my TSr of rk, because rk stores them from the responder's side) *)
  Definition rekey_gate (m : pmsg body) (c : core) (psa ptsi ptsr : payload) (r0 : list payload) : Prop :=
    match get_notifies m N_REKEY_SA true with
    | [] => r0 = []
    | n :: _ => exists nproto nspi d rk p0,
        n = P_NOTIFY nproto N_REKEY_SA nspi d /\ find_child (children c) nspi = Some rk /\
        rekey_child_being_deleted (st c) (opt_child_eqb rk (deleting c)) = false /\
        rekey_child_being_rekeyed (st c) (opt_child_eqb rk (rekeying c)) = false /\
        tsl_of ptsi = c_tsr rk /\ tsl_of ptsr = c_tsi rk /\
        hd_error (sa_props psa) = Some p0 /\ r0 = [P_NOTIFY (pr_proto p0) N_REKEY_SA (c_in rk) []]
    end.

  Lemma wp_rekey_block m c psa ptsi ptsr s (Q : res (list payload) -> isa -> Prop) :
    (forall r0, rekey_gate m c psa ptsi ptsr r0 -> Q (Ok r0) s) -> (forall e, Q (Raise e) s) ->
    wp (rekey_block m c psa ptsi ptsr) s Q.
  Proof.
    intros Hok Hbad. unfold rekey_block, rekey_gate in *.
    destruct (get_notifies m N_REKEY_SA true) as [|n rest] eqn:En; [apply wp_ret, Hok; reflexivity|].
    destruct (get_notifies_shape m N_REKEY_SA true n) as (a & b & d & ->); [rewrite En; left; reflexivity|].
    destruct (find_child (children c) b) as [rk|] eqn:Ef; [|apply wp_raise, Hbad].
    destruct (rekey_child_being_deleted _ _) eqn:E1; [apply wp_raise, Hbad|].
    destruct (rekey_child_being_rekeyed _ _) eqn:E2; [apply wp_raise, Hbad|].
    destruct (negb (tsl_eqb (tsl_of ptsi) (c_tsr rk)) || negb (tsl_eqb (tsl_of ptsr) (c_tsi rk))) eqn:E3;
      [apply wp_raise, Hbad|].
    apply orb_false_iff in E3. destruct E3 as [E3 E4]. apply negb_false_iff, tsl_eqb_eq in E3, E4.
    apply wp_bind, wp_first_prop; [intros p0 Hp0|intros _; apply Hbad].
    apply wp_ret, Hok. exists a, b, d, rk, p0. auto 10.
  Qed.
  Lemma rekey_block_eval m c psa ptsi ptsr r0 s :
    rekey_gate m c psa ptsi ptsr r0 -> rekey_block m c psa ptsi ptsr s = (Ok r0, s).
  Proof.
    unfold rekey_gate, rekey_block. destruct (get_notifies m N_REKEY_SA true) as [|n rest]; [intros ->; reflexivity|].
    intros (a & b & d & rk & p0 & -> & Hf & H1 & H2 & H3 & H4 & H5 & ->).
    rewrite Hf, H1, H2, H3, H4. rewrite (proj2 (tsl_eqb_eq _ _) eq_refl), (proj2 (tsl_eqb_eq _ _) eq_refl). cbn [negb orb].
    unfold first_prop. destruct (sa_props psa); inversion H5; subst. reflexivity.
  Qed.

  (** the key-exchange block *)
  Definition ke_block (m : pmsg body) (ch : proposal) (n_req n_res : bytes) : H (bytes * list payload) :=
    if nonempty (get_transforms ch T_DH) then
      pke <- get_payload m K_KE true ;;
      dht <- get_transform ch T_DH ;;
      let '(ke_g, ke_d) := ke_of pke in
      (if Z.eqb (tr_id dht) ke_g then ret tt else raise (X_InvalidKe (tr_id dht))) ;;;
      hp <- draw_dh ke_g ;;
      secret <- of_opt (e_dh_secret E ke_g (fst hp) ke_d) X_Other ;;
      ret (secret ++ n_req ++ n_res, [P_KE ke_g (snd hp)])
    else ret (n_req ++ n_res, []).
  (** a negotiated DH group must be the group of the KE payload *)
  Definition ke_gate (m : pmsg body) (ch : proposal) : Prop :=
    match get_transforms ch T_DH with
    | [] => True
    | dht :: _ => exists pke, hd_error (get_payloads m K_KE true) = Some pke /\ fst (ke_of pke) = tr_id dht
    end.
  Lemma ke_block_tl m ch a b : tl_m (ke_block m ch a b).
  Proof. unfold ke_block. tl_go. Qed.
  Lemma ke_block_ok m ch a b kk s s1 : ke_block m ch a b s = (Ok kk, s1) -> ke_gate m ch.
  Proof.
    unfold ke_block, ke_gate. destruct (get_transforms ch T_DH) as [|dht rest] eqn:Eg; cbn [nonempty]; [trivial|].
    intros Hx. bpure Hx pke Hp get_payload_ok. bpure Hx t Ht get_transform_ok. rewrite Eg in Ht. cbn in Ht.
    inversion Ht; subst t. destruct (ke_of pke) as [g d] eqn:Ek. bpure Hx u Hg guard_ok. apply Z.eqb_eq in Hg.
    exists pke. rewrite Ek. auto.
  Qed.

  (** everything that precedes the choice of algorithms went through: the three payloads are there, no IKE_SA
      rekey/delete of ours is pending, the REKEY_SA gate, the nonces, and the policy lookup found [pc] with the
      selectors [ctsr]/[ctsi] *)
  Definition resp_pre (m : pmsg body) (s : isa) (psa ptsi ptsr : payload) (r0 : list payload)
    (nn : bytes * bytes * list payload) (s1 : isa) (pc : protect) (ctsr ctsi : ts) : Prop :=
    hd_error (get_payloads m K_SA true) = Some psa /\
    hd_error (get_payloads m K_TSi true) = Some ptsi /\
    hd_error (get_payloads m K_TSr true) = Some ptsr /\
    child_request_while_ike_busy (st (co s)) = false /\
    rekey_gate m (co s) psa ptsi ptsr r0 /\
    opt_nonce (h_exch (p_hdr m)) m s = (Ok nn, s1) /\
    conf_for_tsi (cf_protect (cfg (co s))) (rev (tsl_of ptsi)) (rev (tsl_of ptsr)) = Some (pc, ctsr, ctsi).

  (** the CHILD_SA the responder builds *)
  Definition resp_child (inb : bytes) (pc : protect) (ctsr ctsi : ts) (ch : proposal) (mode : Z) : child :=
    mk_child inb (pr_spi ch) (pt_prop pc) ch [ctsr] [ctsi] mode (pt_life pc).

  (** the handler got as far as the kernel: all gates passed; [ks] are the kernel operations issued *)
  Inductive resp_installed (m : pmsg body) (s : isa) (r : res (list payload)) (s' : isa) : Prop :=
  | RespInstalled psa ptsi ptsr r0 nn s1 pc ctsr ctsi ch kk s2 k cp ck inb s3 ks
      (Hpre : resp_pre m s psa ptsi ptsr r0 nn s1 pc ctsr ctsi)
      (Hmode : pt_mode pc = req_mode m)
      (Hsel : sel_first (offer_of (h_exch (p_hdr m)) (pt_prop pc)) (sa_props psa) = Some ch)
      (Hke : ke_gate m ch)
      (Hkk : ke_block m ch (fst (fst nn)) (snd (fst nn)) s1 = (Ok kk, s2))
      (Hk : kr (co s) = Some k) (Hcp : cprop (co s) = Some cp)
      (Hck : e_child_keys E cp ch (fst kk) (sk_d k) = Some ck)
      (Hfr : fr s s3 ks)
      (Hks : forall x ok, In (K_add x ok) ks ->
                          ksa_of_child (co s) (resp_child inb pc ctsr ctsi ch (req_mode m)) x)
      (Hres : (s' = s3 /\ forall ps, r <> Ok ps) \/
              (s' = s3 <| co := (co s3) <| children := children (co s3) ++
                       [(resp_child inb pc ctsr ctsi ch (req_mode m)) <| c_prop := ch <| pr_spi := inb |> |>] |> |> /\
               r = Ok (r0 ++ snd nn ++ mode_reply m ++ snd kk
                          ++ [P_SA [ch <| pr_spi := inb |>]; P_TSi [ctsi]; P_TSr [ctsr]]) /\
               exists a b, ks = [K_add a true; K_add b true] /\
                           ksa_out (co s) (resp_child inb pc ctsr ctsi ch (req_mode m)) a /\
                           ksa_in (co s) (resp_child inb pc ctsr ctsi ch (req_mode m)) b)).

  Definition resp_post (m : pmsg body) (s : isa) (r : res (list payload)) (s' : isa) : Prop :=
    (tonly s s' /\ forall ps, r <> Ok ps) \/ resp_installed m s r s'.

  Ltac nochg := left; split; [eauto 8 using tonly_refl, tonly_trans | intros ? ?Hx; discriminate Hx].

  Theorem resp_body_cases m s : wp (child_nego_req_body E m) s (resp_post m s).
  Proof.
    unfold child_nego_req_body, resp_post. cbv zeta.
    apply wp_bind, wp_get_payload_hd; [intros psa Hsa|intros _; nochg].
    apply wp_bind, wp_get_payload_hd; [intros ptsi Htsi|intros _; nochg].
    apply wp_bind, wp_get_payload_hd; [intros ptsr Htsr|intros _; nochg].
    apply wp_bind, wp_getc.
    apply wp_bind, wp_nguard; [intros Hbusy|intros _; nochg].
    apply wp_bind. apply (wp_rekey_block m (co s) psa ptsi ptsr); [intros r0 Hr0|intros e; nochg].
    apply wp_bind, wp_tl; [apply opt_nonce_tl|]. intros [nn|e|] s1 Hnn Ht1; [|nochg|nochg].
    destruct nn as [[n_req n_res] r1].
    apply wp_bind, wp_get_ipsec; [intros pc ctsr ctsi Hconf|intros _; nochg].
    apply wp_bind, wp_guard; [intros Hmode|intros _; nochg]. apply Z.eqb_eq in Hmode.
    apply wp_bind, wp_select_best; [intros ch Hsel|intros _; nochg].
    apply wp_bind. apply (wp_tl (ke_block m ch n_req n_res)); [apply ke_block_tl|].
    intros [kk|e|] s2 Hkk Ht2; [|nochg|nochg].
    pose proof (ke_block_ok _ _ _ _ _ _ _ Hkk) as Hke. destruct kk as [keyseed r3] eqn:Ekk.
    apply wp_bind, wp_of_opt; [intros k Hk|intros _; nochg].
    apply wp_bind, wp_of_opt; [intros cp Hcp|intros _; nochg].
    apply wp_bind, wp_of_opt; [intros ck Hck|intros _; nochg].
    apply wp_bind, wp_tl; [apply draw_bytes_tl|]. intros [inb|e|] s3 _ Ht3; [|nochg|nochg].
    assert (Hpre : resp_pre m s psa ptsi ptsr r0 (n_req, n_res, r1) s1 pc ctsr ctsi) by (unfold resp_pre; auto 10).
    assert (Hc3 : co s3 = co s).
    { rewrite (tonly_co _ _ Ht3), (tonly_co _ _ Ht2), (tonly_co _ _ Ht1). reflexivity. }
    apply wp_bind. eapply wp_conseq; [apply create_child_sa_spec|]. cbv beta.
    intros rc s4 (ks & Hf4 & Hks & Hok & Hexn). rewrite Hc3 in Hks.
    assert (F4 : fr s s4 ks) by (eapply tonly_fr; [|exact Hf4]; eauto using tonly_trans).
    fold (req_mode m) in *. fold (mode_reply m).
    destruct rc as [[]|e|].
    - apply wp_bind, wp_modc, wp_ret. right.
      eapply (RespInstalled m s _ _ psa ptsi ptsr r0 (n_req, n_res, r1) s1 pc ctsr ctsi ch (keyseed, r3) s2 k cp ck inb s4 ks);
        eauto.
      right. split; [reflexivity|]. split; [reflexivity|]. rewrite Hc3 in Hok. exact (Hok tt eq_refl).
    - right.
      eapply (RespInstalled m s _ _ psa ptsi ptsr r0 (n_req, n_res, r1) s1 pc ctsr ctsi ch (keyseed, r3) s2 k cp ck inb s4 ks);
        eauto.
      left. split; [reflexivity|discriminate].
    - right.
      eapply (RespInstalled m s _ _ psa ptsi ptsr r0 (n_req, n_res, r1) s1 pc ctsr ctsi ch (keyseed, r3) s2 k cp ck inb s4 ks);
        eauto.
      left. split; [reflexivity|discriminate].
  Qed.

  (** *** the wrapper with its except clauses *)
  Definition NPC : payload := P_NOTIFY PROTO_NONE N_NO_PROPOSAL_CHOSEN [] [].
  Definition resp_catch (rb : res (list payload)) : res (list payload) :=
    match rb with
    | Raise e => match e with
                 | X_TsUnacceptable | X_NoProposalChosen | X_ChildSaNotFound _ _ | X_TemporaryFailure | X_InvalidKe _ =>
                     Ok [notify_of e]
                 | X_Netlink => Ok [NPC]
                 | _ => if is_ikesa_error e then Ok [NPC] else Raise e
                 end
    | r => r
    end.
  Lemma child_nego_req_eq m s :
    child_nego_req E m s = (resp_catch (fst (child_nego_req_body E m s)), snd (child_nego_req_body E m s)).
  Proof.
    unfold child_nego_req, try_catch. destruct (child_nego_req_body E m s) as [[ps|e|] s1]; try reflexivity.
    destruct e; reflexivity.
  Qed.
  Lemma child_nego_req_of_body m s rb s' :
    child_nego_req_body E m s = (rb, s') -> child_nego_req E m s = (resp_catch rb, s').
  Proof. intros Hb. rewrite child_nego_req_eq, Hb. reflexivity. Qed.

  (** nothing reaches the kernel and no CHILD_SA is recorded unless every gate was passed *)
  Lemma resp_change_body m s rb s' ks :
    child_nego_req_body E m s = (rb, s') -> kops s' = kops s ++ ks ->
    (exists x ok, In (K_add x ok) ks) \/ children (co s') <> children (co s) -> resp_installed m s rb s'.
  Proof.
    intros Hb Hk Hch. pose proof (resp_body_cases m s) as Hw. unfold wp in Hw. rewrite Hb in Hw. cbn [fst snd] in Hw.
    destruct Hw as [[Ht _]|Hi]; [|exact Hi]. exfalso.
    pose proof (tonly_kops _ _ Ht) as Hk'. rewrite Hk' in Hk.
    assert (ks = []) as -> by (apply (app_inv_head (kops s)); rewrite app_nil_r; auto).
    destruct Hch as [(x & ok & [])|Hc]. apply Hc. rewrite (tonly_co _ _ Ht). reflexivity.
  Qed.
  Lemma resp_change m s r s' ks :
    child_nego_req E m s = (r, s') -> kops s' = kops s ++ ks ->
    (exists x ok, In (K_add x ok) ks) \/ children (co s') <> children (co s) ->
    exists rb, resp_installed m s rb s'.
  Proof.
    rewrite child_nego_req_eq. destruct (child_nego_req_body E m s) as [rb s1] eqn:Hb. cbn [fst snd].
    intros Hx. inversion Hx; subst s1. intros Hk Hch. exists rb. eapply resp_change_body; eauto.
  Qed.

  (** *** what "every gate was passed" says, in terms of the request and the configuration only *)
  Definition rekey_clause (m : pmsg body) (c : core) (ptsi ptsr : payload) : Prop :=
    forall nproto ty nspi d rest, get_notifies m N_REKEY_SA true = P_NOTIFY nproto ty nspi d :: rest ->
      exists rk, find_child (children c) nspi = Some rk /\ tsl_of ptsi = c_tsr rk /\ tsl_of ptsr = c_tsi rk /\
                 rekey_child_being_deleted (st c) (opt_child_eqb rk (deleting c)) = false /\
                 rekey_child_being_rekeyed (st c) (opt_child_eqb rk (rekeying c)) = false.

  Lemma resp_master m s rb s' :
    resp_installed m s rb s' ->
    exists psa ptsi ptsr pc ctsr ctsi ch p inb ks tsi tsr,
      hd_error (get_payloads m K_SA true) = Some psa /\ hd_error (get_payloads m K_TSi true) = Some ptsi /\
      hd_error (get_payloads m K_TSr true) = Some ptsr /\
      child_request_while_ike_busy (st (co s)) = false /\ rekey_clause m (co s) ptsi ptsr /\
      (* the policy and the selectors *)
      conf_for_tsi (cf_protect (cfg (co s))) (rev (tsl_of ptsi)) (rev (tsl_of ptsr)) = Some (pc, ctsr, ctsi) /\
      In pc (cf_protect (cfg (co s))) /\ In tsi (tsl_of ptsi) /\ In tsr (tsl_of ptsr) /\
      ((ctsi = tsi /\ ctsr = tsr) \/ (ctsi = pt_peer_ts pc /\ ctsr = pt_my_ts pc)) /\
      ts_is_subset ctsi tsi = true /\ ts_is_subset ctsi (pt_peer_ts pc) = true /\
      ts_is_subset ctsr tsr = true /\ ts_is_subset ctsr (pt_my_ts pc) = true /\
      (* the mode *)
      pt_mode pc = req_mode m /\
      (* the algorithms *)
      In p (sa_props psa) /\ intersection (offer_of (h_exch (p_hdr m)) (pt_prop pc)) p = Some ch /\
      sel_first (offer_of (h_exch (p_hdr m)) (pt_prop pc)) (sa_props psa) = Some ch /\ ke_gate m ch /\
      (* what was done *)
      kops s' = kops s ++ ks /\ new_sa s' = new_sa s /\
      (forall x ok, In (K_add x ok) ks ->
         k_prop x = ch /\ k_mode x = req_mode m /\
         ((k_spi x = pr_spi ch /\ k_sel_src x = ctsr /\ k_sel_dst x = ctsi) \/
          (k_spi x = inb /\ k_sel_src x = ctsi /\ k_sel_dst x = ctsr))) /\
      ((co s' = co s /\ forall ps, rb <> Ok ps) \/
       (co s' = (co s) <| children := children (co s) ++
                   [mk_child inb (pr_spi ch) (pt_prop pc) (ch <| pr_spi := inb |>) [ctsr] [ctsi] (req_mode m) (pt_life pc)] |> /\
        (exists a b, ks = [K_add a true; K_add b true] /\
                     k_spi a = pr_spi ch /\ k_sel_src a = ctsr /\ k_sel_dst a = ctsi /\
                     k_spi b = inb /\ k_sel_src b = ctsi /\ k_sel_dst b = ctsr) /\
        exists pre, rb = Ok (pre ++ [P_SA [ch <| pr_spi := inb |>]; P_TSi [ctsi]; P_TSr [ctsr]]))).
  Proof.
    intros [psa ptsi ptsr r0 nn s1 pc ctsr ctsi ch kk s2 k cp ck inb s3 ks
              (Hsa & Htsi & Htsr & Hbusy & Hr0 & Hnn & Hconf) Hmode Hsel Hke Hkk Hk Hcp Hck Hfr Hks Hres].
    destruct (sel_first_sound _ _ _ Hsel) as (p & Hp & Hint & _).
    assert (Hg : get_ipsec_configuration (cf_protect (cfg (co s))) (tsl_of ptsi) (tsl_of ptsr) s = (Ok (pc, ctsr, ctsi), s)).
    { rewrite get_ipsec_configuration_eq, Hconf. reflexivity. }
    apply get_ipsec_configuration_ok in Hg.
    destruct Hg as (_ & Hpc & tsi & tsr & Hi & Hr & Hcase & S1 & S2 & S3 & S4).
    destruct Hfr as (F1 & F2 & F3 & F4 & F5 & F6).
    exists psa, ptsi, ptsr, pc, ctsr, ctsi, ch, p, inb, ks, tsi, tsr.
    split; [exact Hsa|]. split; [exact Htsi|]. split; [exact Htsr|]. split; [exact Hbusy|].
    split.
    { intros nproto ty nspi d rest Hn. unfold rekey_gate in Hr0. rewrite Hn in Hr0.
      destruct Hr0 as (a & b & d' & rk & p0 & Heq & Hf & H1 & H2 & H3 & H4 & _). inversion Heq; subst.
      exists rk. auto. }
    split; [exact Hconf|]. split; [exact Hpc|]. split; [exact Hi|]. split; [exact Hr|].
    split. { destruct Hcase as [(-> & -> & _)|(-> & -> & _)]; auto. }
    split; [exact S1|]. split; [exact S2|]. split; [exact S3|]. split; [exact S4|].
    split; [exact Hmode|]. split; [exact Hp|]. split; [exact Hint|]. split; [exact Hsel|]. split; [exact Hke|].
    assert (Hkops : kops s' = kops s ++ ks /\ new_sa s' = new_sa s).
    { destruct Hres as [[-> _]|(-> & _)]; cbn; auto. }
    split; [apply Hkops|]. split; [apply Hkops|].
    assert (Hout : forall x, ksa_out (co s) (resp_child inb pc ctsr ctsi ch (req_mode m)) x ->
                             k_prop x = ch /\ k_mode x = req_mode m /\ k_spi x = pr_spi ch /\ k_sel_src x = ctsr /\ k_sel_dst x = ctsi).
    { intros x ((K1 & K2 & _) & C1 & _ & _ & C2 & C3). cbn in K1, K2, C1, C2, C3. inversion C2. inversion C3. auto. }
    assert (Hin : forall x, ksa_in (co s) (resp_child inb pc ctsr ctsi ch (req_mode m)) x ->
                            k_prop x = ch /\ k_mode x = req_mode m /\ k_spi x = inb /\ k_sel_src x = ctsi /\ k_sel_dst x = ctsr).
    { intros x ((K1 & K2 & _) & C1 & _ & _ & C2 & C3). cbn in K1, K2, C1, C2, C3. inversion C2. inversion C3. auto. }
    split.
    { intros x ok Hx. destruct (Hks x ok Hx) as [Ho|Hi']; [apply Hout in Ho|apply Hin in Hi']; tauto. }
    destruct Hres as [[-> Hn]|(-> & -> & a & b & -> & Ha & Hb)]; [left; auto|right]. cbn. rewrite F1.
    split; [reflexivity|]. apply Hout in Ha. apply Hin in Hb.
    split; [exists a, b; tauto|]. eexists. rewrite !app_assoc. reflexivity.
  Qed.

  (** (c) responder, algorithms: whatever is handed to the kernel or recorded as a CHILD_SA uses the proposal [ch] =
      the intersection of MY policy's proposal (without DH inside IKE_AUTH) with ONE proposal [p] of the peer - the
      first that intersects: every transform is the policy's and the peer's, one per type of the policy's proposal *)
  Theorem resp_algorithms m s r s' ks :
    child_nego_req E m s = (r, s') -> kops s' = kops s ++ ks ->
    (exists x ok, In (K_add x ok) ks) \/ children (co s') <> children (co s) ->
    exists psa pc p ch,
      hd_error (get_payloads m K_SA true) = Some psa /\ In pc (cf_protect (cfg (co s))) /\ In p (sa_props psa) /\
      intersection (offer_of (h_exch (p_hdr m)) (pt_prop pc)) p = Some ch /\
      sel_first (offer_of (h_exch (p_hdr m)) (pt_prop pc)) (sa_props psa) = Some ch /\
      (forall t, In t (pr_trs ch) ->
         In t (pr_trs (pt_prop pc)) /\ In t (pr_trs p) /\ (h_exch (p_hdr m) = EX_IKE_AUTH -> tr_type t <> T_DH)) /\
      NoDup (map tr_type (pr_trs ch)) /\
      (forall ty, In ty (map tr_type (pr_trs ch)) <->
                  In ty (map tr_type (pr_trs (offer_of (h_exch (p_hdr m)) (pt_prop pc))))) /\
      ke_gate m ch /\
      (forall x ok, In (K_add x ok) ks -> k_prop x = ch) /\
      (forall c, In c (children (co s')) ->
         In c (children (co s)) \/
         (pr_trs (c_prop c) = pr_trs ch /\ pr_proto (c_prop c) = pr_proto ch /\ pr_num (c_prop c) = pr_num ch /\
          c_orig c = pt_prop pc)).
  Proof.
    intros Hr Hk Hch. destruct (resp_change m s r s' ks Hr Hk Hch) as [rb Hi].
    destruct (resp_master m s rb s' Hi)
      as (psa & ptsi & ptsr & pc & ctsr & ctsi & ch & p & inb & ks' & tsi & tsr & Hsa & _ & _ & _ & _ & _ & Hpc & _ & _ & _
          & _ & _ & _ & _ & _ & Hp & Hint & Hsel & Hke & Hk' & _ & Hadd & Hco).
    rewrite Hk in Hk'. apply app_inv_head in Hk'. subst ks'.
    exists psa, pc, p, ch. split; [exact Hsa|]. split; [exact Hpc|]. split; [exact Hp|]. split; [exact Hint|].
    split; [exact Hsel|].
    pose proof (intersection_some _ _ _ Hint) as (_ & _ & _ & _ & Hin & Hnd & Hty & _ & _).
    split.
    { intros t Ht. destruct (Hin t Ht) as (H1 & H2 & _). unfold offer_of in H1.
      destruct (Z.eqb (h_exch (p_hdr m)) EX_IKE_AUTH) eqn:Ex.
      - apply copy_without_dh_trs in H1. destruct H1 as [H1 H3]. auto.
      - split; [exact H1|]. split; [exact H2|]. intros He. rewrite He in Ex. discriminate Ex. }
    split; [exact Hnd|]. split; [exact Hty|]. split; [exact Hke|].
    split; [intros x ok Hx; apply (Hadd x ok Hx)|].
    intros c Hc. destruct Hco as [[Hco _]|(Hco & _)]; rewrite Hco in Hc; [left; exact Hc|]. cbn in Hc.
    apply in_app_or in Hc. destruct Hc as [Hc|[<-|[]]]; [left; exact Hc|right]. cbn. auto.
  Qed.

  (** (h) responder, selectors and mode: the selectors of every kernel SA are the pair chosen by the policy lookup -
      contained in a requested pair and in the policy; the mode is the requested one and the policy's; a REKEY_SA
      request got here only with selector lists EQUAL to those of the CHILD_SA it replaces - whatever the state *)
  Theorem resp_selectors_mode m s r s' ks :
    child_nego_req E m s = (r, s') -> kops s' = kops s ++ ks ->
    (exists x ok, In (K_add x ok) ks) \/ children (co s') <> children (co s) ->
    exists ptsi ptsr pc ctsr ctsi tsi tsr,
      hd_error (get_payloads m K_TSi true) = Some ptsi /\ hd_error (get_payloads m K_TSr true) = Some ptsr /\
      In pc (cf_protect (cfg (co s))) /\ In tsi (tsl_of ptsi) /\ In tsr (tsl_of ptsr) /\
      conf_for_tsi (cf_protect (cfg (co s))) (rev (tsl_of ptsi)) (rev (tsl_of ptsr)) = Some (pc, ctsr, ctsi) /\
      ((ctsi = tsi /\ ctsr = tsr) \/ (ctsi = pt_peer_ts pc /\ ctsr = pt_my_ts pc)) /\
      ts_is_subset ctsi tsi = true /\ ts_is_subset ctsi (pt_peer_ts pc) = true /\
      ts_is_subset ctsr tsr = true /\ ts_is_subset ctsr (pt_my_ts pc) = true /\
      pt_mode pc = req_mode m /\
      rekey_clause m (co s) ptsi ptsr /\
      (forall x ok, In (K_add x ok) ks ->
         k_mode x = req_mode m /\ k_mode x = pt_mode pc /\
         ((k_sel_src x = ctsr /\ k_sel_dst x = ctsi) \/ (k_sel_src x = ctsi /\ k_sel_dst x = ctsr))) /\
      (children (co s') = children (co s) \/
       exists c a b, children (co s') = children (co s) ++ [c] /\
                     c_tsi c = [ctsr] /\ c_tsr c = [ctsi] /\ c_mode c = req_mode m /\
                     ks = [K_add a true; K_add b true] /\
                     (* outbound: source = my side *) k_spi a = c_out c /\ k_sel_src a = ctsr /\ k_sel_dst a = ctsi /\
                     (* inbound: swapped *)           k_spi b = c_in c /\ k_sel_src b = ctsi /\ k_sel_dst b = ctsr).
  Proof.
    intros Hr Hk Hch. destruct (resp_change m s r s' ks Hr Hk Hch) as [rb Hi].
    destruct (resp_master m s rb s' Hi)
      as (psa & ptsi & ptsr & pc & ctsr & ctsi & ch & p & inb & ks' & tsi & tsr & Hsa & Htsi & Htsr & _ & Hrk & Hconf & Hpc
          & Hi1 & Hi2 & Hcase & S1 & S2 & S3 & S4 & Hmode & _ & _ & _ & _ & Hk' & _ & Hadd & Hco).
    rewrite Hk in Hk'. apply app_inv_head in Hk'. subst ks'.
    exists ptsi, ptsr, pc, ctsr, ctsi, tsi, tsr.
    split; [exact Htsi|]. split; [exact Htsr|]. split; [exact Hpc|]. split; [exact Hi1|]. split; [exact Hi2|].
    split; [exact Hconf|]. split; [exact Hcase|]. split; [exact S1|]. split; [exact S2|]. split; [exact S3|].
    split; [exact S4|]. split; [exact Hmode|]. split; [exact Hrk|].
    split.
    { intros x ok Hx. destruct (Hadd x ok Hx) as (_ & K2 & K3). split; [exact K2|]. split; [congruence|]. tauto. }
    destruct Hco as [[Hco _]|(Hco & (a & b & -> & A1 & A2 & A3 & B1 & B2 & B3) & _)]; rewrite Hco; [left; reflexivity|right].
    eexists _, a, b. cbn. split; [reflexivity|]. auto 12.
  Qed.
End Responder.

(** ** the responder's exact answers to a refused request *)
Section RespForward.
  Variable E : env.

  (** the handler from the mode check on *)
  Definition resp_tail (m : pmsg body) (c : core) (psa : payload) (r0 : list payload) (n_req n_res : bytes)
    (r1 : list payload) (pc : protect) (chosen_tsr chosen_tsi : ts) : H (list payload) :=
    (if Z.eqb (pt_mode pc) (req_mode m) then ret tt else raise X_TsUnacceptable) ;;;
    ch <- select_best (offer_of (h_exch (p_hdr m)) (pt_prop pc)) (sa_props psa) ;;
    kk <- ke_block E m ch n_req n_res ;;
    let '(keyseed, r3) := kk in
    k <- of_opt (kr c) X_Other ;;
    cp <- of_opt (cprop c) X_Other ;;
    ck <- of_opt (e_child_keys E cp ch keyseed (sk_d k)) X_Other ;;
    inb <- draw_bytes ;;
    let child0 := mk_child inb (pr_spi ch) (pt_prop pc) ch [chosen_tsr] [chosen_tsi] (req_mode m) (pt_life pc) in
    create_child_sa child0 ck false ;;;
    let ch' := ch <| pr_spi := inb |> in
    modc (fun c => c <| children := children c ++ [child0 <| c_prop := ch' |>] |>) ;;;
    ret (r0 ++ r1 ++ mode_reply m ++ r3 ++ [P_SA [ch']; P_TSi [chosen_tsi]; P_TSr [chosen_tsr]]).

  (** the gates before the policy lookup *)
  Definition resp_pre0 (m : pmsg body) (s : isa) (psa ptsi ptsr : payload) (r0 : list payload)
    (nn : bytes * bytes * list payload) (s1 : isa) : Prop :=
    hd_error (get_payloads m K_SA true) = Some psa /\
    hd_error (get_payloads m K_TSi true) = Some ptsi /\
    hd_error (get_payloads m K_TSr true) = Some ptsr /\
    child_request_while_ike_busy (st (co s)) = false /\
    rekey_gate m (co s) psa ptsi ptsr r0 /\
    opt_nonce (h_exch (p_hdr m)) m s = (Ok nn, s1).
  Lemma resp_pre_split m s psa ptsi ptsr r0 nn s1 pc ctsr ctsi :
    resp_pre m s psa ptsi ptsr r0 nn s1 pc ctsr ctsi <->
    resp_pre0 m s psa ptsi ptsr r0 nn s1 /\
    conf_for_tsi (cf_protect (cfg (co s))) (rev (tsl_of ptsi)) (rev (tsl_of ptsr)) = Some (pc, ctsr, ctsi).
  Proof. unfold resp_pre, resp_pre0. tauto. Qed.

  Lemma resp_body_to_lookup m s psa ptsi ptsr r0 nn s1 :
    resp_pre0 m s psa ptsi ptsr r0 nn s1 ->
    child_nego_req_body E m s =
    (sel <- get_ipsec_configuration (cf_protect (cfg (co s))) (tsl_of ptsi) (tsl_of ptsr) ;;
     let '(pc, ctsr, ctsi) := sel in
     resp_tail m (co s) psa r0 (fst (fst nn)) (snd (fst nn)) (snd nn) pc ctsr ctsi) s1.
  Proof.
    intros (Hsa & Htsi & Htsr & Hbusy & Hr0 & Hnn).
    unfold child_nego_req_body. cbv zeta.
    rewrite (bind_ok_eq _ _ _ _ _ (get_payload_eval _ _ _ _ s Hsa)).
    rewrite (bind_ok_eq _ _ _ _ _ (get_payload_eval _ _ _ _ s Htsi)).
    rewrite (bind_ok_eq _ _ _ _ _ (get_payload_eval _ _ _ _ s Htsr)).
    rewrite (bind_ok_eq getc _ s (co s) s eq_refl).
    rewrite Hbusy. rewrite (bind_ok_eq (ret tt) _ s tt s eq_refl).
    rewrite (bind_ok_eq _ _ _ _ _ (rekey_block_eval m (co s) psa ptsi ptsr r0 s Hr0)).
    rewrite (bind_ok_eq _ _ _ _ _ Hnn). destruct nn as [[n_req n_res] r1]. reflexivity.
  Qed.

  Lemma resp_body_run m s psa ptsi ptsr r0 nn s1 pc ctsr ctsi :
    resp_pre m s psa ptsi ptsr r0 nn s1 pc ctsr ctsi ->
    child_nego_req_body E m s = resp_tail m (co s) psa r0 (fst (fst nn)) (snd (fst nn)) (snd nn) pc ctsr ctsi s1.
  Proof.
    intros Hpre. apply resp_pre_split in Hpre. destruct Hpre as [Hpre Hconf].
    rewrite (resp_body_to_lookup _ _ _ _ _ _ _ _ Hpre).
    assert (Hg : get_ipsec_configuration (cf_protect (cfg (co s))) (tsl_of ptsi) (tsl_of ptsr) s1 = (Ok (pc, ctsr, ctsi), s1)).
    { rewrite get_ipsec_configuration_eq, Hconf. reflexivity. }
    rewrite (bind_ok_eq _ _ _ _ _ Hg). reflexivity.
  Qed.

  (** the nonce is the only draw consumed before the algorithms are looked at *)
  Lemma opt_nonce_tape exch m s nn s1 :
    opt_nonce exch m s = (Ok nn, s1) ->
    tonly s s1 /\ (tape s1 = tape s \/ exists j, tape s = D_num j :: D_bytes (snd (fst nn)) :: tape s1).
  Proof.
    intros Hn. split. { pose proof (opt_nonce_tl exch m s) as Ht. rewrite Hn in Ht. exact Ht. }
    unfold opt_nonce in Hn. bpure Hn c Hc getc_ok. destruct (Z.eqb exch EX_IKE_AUTH).
    - bpure Hn a Ha amsg_nonce_ok. bpure Hn b Hb amsg_nonce_ok. apply ret_ok in Hn. destruct Hn as [_ ->]. left; reflexivity.
    - bpure Hn pn Hp get_payload_ok. binv Hn nr s2 Hf. apply fresh_nonce_ok in Hf. destruct Hf as (j & r & Ht & ->).
      apply ret_ok in Hn. destruct Hn as [-> ->]. right. exists j. cbn. exact Ht.
  Qed.

  (** (c) no proposal of the peer intersects my policy's proposal: exactly NO_PROPOSAL_CHOSEN, nothing installed *)
  Theorem resp_no_proposal m s psa ptsi ptsr r0 nn s1 pc ctsr ctsi :
    resp_pre m s psa ptsi ptsr r0 nn s1 pc ctsr ctsi -> pt_mode pc = req_mode m ->
    (forall p, In p (sa_props psa) -> intersection (offer_of (h_exch (p_hdr m)) (pt_prop pc)) p = None) ->
    child_nego_req_body E m s = (Raise X_NoProposalChosen, s1) /\
    child_nego_req E m s = (Ok [P_NOTIFY PROTO_NONE N_NO_PROPOSAL_CHOSEN [] []], s1) /\
    kops s1 = kops s /\ co s1 = co s /\ new_sa s1 = new_sa s.
  Proof.
    intros Hpre Hmode Hnone. apply sel_first_none in Hnone.
    assert (Hb : child_nego_req_body E m s = (Raise X_NoProposalChosen, s1)).
    { rewrite (resp_body_run _ _ _ _ _ _ _ _ _ _ _ Hpre). unfold resp_tail.
      rewrite Hmode, Z.eqb_refl. rewrite (bind_ok_eq (ret tt) _ s1 tt s1 eq_refl).
      apply bind_raise_eq. rewrite select_best_eq, Hnone. reflexivity. }
    split; [exact Hb|]. split; [rewrite (child_nego_req_of_body E _ _ _ _ Hb); reflexivity|].
    destruct Hpre as (_ & _ & _ & _ & _ & Hnn & _). apply opt_nonce_tape in Hnn. destruct Hnn as [Ht _].
    split; [apply tonly_kops; exact Ht|]. split; [apply tonly_co; exact Ht|]. apply Ht.
  Qed.

  (** (c) the KE payload is in another group than the chosen DH transform's: exactly INVALID_KE_PAYLOAD naming the
      chosen group (2 octets, big endian), nothing installed, no DH key pair drawn *)
  Theorem resp_invalid_ke m s psa ptsi ptsr r0 nn s1 pc ctsr ctsi ch dht pke :
    resp_pre m s psa ptsi ptsr r0 nn s1 pc ctsr ctsi -> pt_mode pc = req_mode m ->
    sel_first (offer_of (h_exch (p_hdr m)) (pt_prop pc)) (sa_props psa) = Some ch ->
    hd_error (get_transforms ch T_DH) = Some dht ->
    hd_error (get_payloads m K_KE true) = Some pke -> fst (ke_of pke) <> tr_id dht ->
    child_nego_req_body E m s = (Raise (X_InvalidKe (tr_id dht)), s1) /\
    child_nego_req E m s =
      (Ok [P_NOTIFY PROTO_NONE N_INVALID_KE_PAYLOAD [] (be_encode 2 (Z.to_N (tr_id dht)))], s1) /\
    kops s1 = kops s /\ co s1 = co s /\ new_sa s1 = new_sa s /\
    (tape s1 = tape s \/ exists j, tape s = D_num j :: D_bytes (snd (fst nn)) :: tape s1).
  Proof.
    intros Hpre Hmode Hsel Hdh Hke Hne.
    assert (Hb : child_nego_req_body E m s = (Raise (X_InvalidKe (tr_id dht)), s1)).
    { rewrite (resp_body_run _ _ _ _ _ _ _ _ _ _ _ Hpre). unfold resp_tail.
      rewrite Hmode, Z.eqb_refl. rewrite (bind_ok_eq (ret tt) _ s1 tt s1 eq_refl).
      assert (Hs : select_best (offer_of (h_exch (p_hdr m)) (pt_prop pc)) (sa_props psa) s1 = (Ok ch, s1))
        by (rewrite select_best_eq, Hsel; reflexivity).
      rewrite (bind_ok_eq _ _ _ _ _ Hs). apply bind_raise_eq. unfold ke_block.
      destruct (get_transforms ch T_DH) as [|d0 rest] eqn:Eg; [discriminate Hdh|]. cbn in Hdh. inversion Hdh; subst d0.
      cbn [nonempty]. rewrite (bind_ok_eq _ _ _ _ _ (get_payload_eval _ _ _ _ s1 Hke)).
      unfold get_transform. rewrite Eg. rewrite (bind_ok_eq (ret dht) _ s1 dht s1 eq_refl).
      destruct (ke_of pke) as [g d] eqn:Ek. cbn [fst] in Hne.
      assert (Hz : Z.eqb (tr_id dht) g = false) by (apply Z.eqb_neq; congruence). rewrite Hz. reflexivity. }
    split; [exact Hb|]. split; [rewrite (child_nego_req_of_body E _ _ _ _ Hb); reflexivity|].
    destruct Hpre as (_ & _ & _ & _ & _ & Hnn & _). apply opt_nonce_tape in Hnn. destruct Hnn as [Ht Htape].
    split; [apply tonly_kops; exact Ht|]. split; [apply tonly_co; exact Ht|]. split; [apply Ht|exact Htape].
  Qed.

  (** (h) the requested mode is not the policy's: exactly TS_UNACCEPTABLE, nothing installed *)
  Theorem resp_mode_mismatch m s psa ptsi ptsr r0 nn s1 pc ctsr ctsi :
    resp_pre m s psa ptsi ptsr r0 nn s1 pc ctsr ctsi -> pt_mode pc <> req_mode m ->
    child_nego_req_body E m s = (Raise X_TsUnacceptable, s1) /\
    child_nego_req E m s = (Ok [P_NOTIFY PROTO_NONE N_TS_UNACCEPTABLE [] []], s1) /\
    kops s1 = kops s /\ co s1 = co s /\ new_sa s1 = new_sa s.
  Proof.
    intros Hpre Hmode.
    assert (Hb : child_nego_req_body E m s = (Raise X_TsUnacceptable, s1)).
    { rewrite (resp_body_run _ _ _ _ _ _ _ _ _ _ _ Hpre). unfold resp_tail.
      apply Z.eqb_neq in Hmode. rewrite Hmode. reflexivity. }
    split; [exact Hb|]. split; [rewrite (child_nego_req_of_body E _ _ _ _ Hb); reflexivity|].
    destruct Hpre as (_ & _ & _ & _ & _ & Hnn & _). apply opt_nonce_tape in Hnn. destruct Hnn as [Ht _].
    split; [apply tonly_kops; exact Ht|]. split; [apply tonly_co; exact Ht|]. apply Ht.
  Qed.

  (** (h) no requested pair matches any policy: exactly TS_UNACCEPTABLE, nothing installed *)
  Theorem resp_ts_unacceptable m s psa ptsi ptsr r0 nn s1 :
    resp_pre0 m s psa ptsi ptsr r0 nn s1 ->
    (forall tsi tsr p, In tsi (tsl_of ptsi) -> In tsr (tsl_of ptsr) -> In p (cf_protect (cfg (co s))) ->
                       larger p tsi tsr = false /\ smaller p tsi tsr = false) ->
    child_nego_req_body E m s = (Raise X_TsUnacceptable, s1) /\
    child_nego_req E m s = (Ok [P_NOTIFY PROTO_NONE N_TS_UNACCEPTABLE [] []], s1) /\
    kops s1 = kops s /\ co s1 = co s /\ new_sa s1 = new_sa s.
  Proof.
    intros Hpre Hno.
    assert (Hg : get_ipsec_configuration (cf_protect (cfg (co s))) (tsl_of ptsi) (tsl_of ptsr) s1 = (Raise X_TsUnacceptable, s1)).
    { apply get_ipsec_configuration_raise_iff. auto. }
    assert (Hb : child_nego_req_body E m s = (Raise X_TsUnacceptable, s1)).
    { rewrite (resp_body_to_lookup _ _ _ _ _ _ _ _ Hpre). apply bind_raise_eq. exact Hg. }
    split; [exact Hb|]. split; [rewrite (child_nego_req_of_body E _ _ _ _ Hb); reflexivity|].
    destruct Hpre as (_ & _ & _ & _ & _ & Hnn). apply opt_nonce_tape in Hnn. destruct Hnn as [Ht _].
    split; [apply tonly_kops; exact Ht|]. split; [apply tonly_co; exact Ht|]. apply Ht.
  Qed.

  (** (h) a rekey whose selector lists differ from those of the CHILD_SA it replaces: exactly TS_UNACCEPTABLE and the
      state is untouched - in EVERY state in which a CREATE_CHILD_SA request is processed at all; in particular
      while this endpoint has its own DELETE / rekey of ANOTHER CHILD_SA in flight *)
  Theorem resp_rekey_ts_mismatch m s psa ptsi ptsr nproto ty nspi d rest rk :
    hd_error (get_payloads m K_SA true) = Some psa ->
    hd_error (get_payloads m K_TSi true) = Some ptsi ->
    hd_error (get_payloads m K_TSr true) = Some ptsr ->
    st (co s) <> ST_REK_IKE_SA_REQ_SENT -> st (co s) <> ST_DEL_IKE_SA_REQ_SENT ->
    get_notifies m N_REKEY_SA true = P_NOTIFY nproto ty nspi d :: rest ->
    find_child (children (co s)) nspi = Some rk ->
    (st (co s) = ST_DEL_CHILD_REQ_SENT -> opt_child_eqb rk (deleting (co s)) = false) ->
    (st (co s) = ST_REK_CHILD_REQ_SENT -> opt_child_eqb rk (rekeying (co s)) = false) ->
    tsl_of ptsi <> c_tsr rk \/ tsl_of ptsr <> c_tsi rk ->
    child_nego_req_body E m s = (Raise X_TsUnacceptable, s) /\
    child_nego_req E m s = (Ok [P_NOTIFY PROTO_NONE N_TS_UNACCEPTABLE [] []], s).
  Proof.
    intros Hsa Htsi Htsr Hb1 Hb2 Hn Hf Hdel Hrek Hne.
    assert (Hb : child_nego_req_body E m s = (Raise X_TsUnacceptable, s)).
    { unfold child_nego_req_body. cbv zeta.
      rewrite (bind_ok_eq _ _ _ _ _ (get_payload_eval _ _ _ _ s Hsa)).
      rewrite (bind_ok_eq _ _ _ _ _ (get_payload_eval _ _ _ _ s Htsi)).
      rewrite (bind_ok_eq _ _ _ _ _ (get_payload_eval _ _ _ _ s Htsr)).
      rewrite (bind_ok_eq getc _ s (co s) s eq_refl).
      assert (Hbusy : child_request_while_ike_busy (st (co s)) = false).
      { unfold child_request_while_ike_busy. apply orb_false_iff. split; apply Z.eqb_neq; assumption. }
      rewrite Hbusy. rewrite (bind_ok_eq (ret tt) _ s tt s eq_refl).
      apply bind_raise_eq. rewrite Hn, Hf.
      assert (H1 : rekey_child_being_deleted (st (co s)) (opt_child_eqb rk (deleting (co s))) = false).
      { unfold rekey_child_being_deleted. destruct (Z.eqb (st (co s)) ST_DEL_CHILD_REQ_SENT) eqn:Ez; [|reflexivity].
        apply Z.eqb_eq in Ez. rewrite (Hdel Ez). reflexivity. }
      assert (H2 : rekey_child_being_rekeyed (st (co s)) (opt_child_eqb rk (rekeying (co s))) = false).
      { unfold rekey_child_being_rekeyed. destruct (Z.eqb (st (co s)) ST_REK_CHILD_REQ_SENT) eqn:Ez; [|reflexivity].
        apply Z.eqb_eq in Ez. rewrite (Hrek Ez). reflexivity. }
      rewrite H1, H2.
      assert (H3 : negb (tsl_eqb (tsl_of ptsi) (c_tsr rk)) || negb (tsl_eqb (tsl_of ptsr) (c_tsi rk)) = true).
      { apply orb_true_iff. destruct Hne as [Hx|Hx]; [left|right]; apply negb_true_iff;
          (destruct (tsl_eqb _ _) eqn:Et; [apply tsl_eqb_eq in Et; contradiction|reflexivity]). }
      rewrite H3. reflexivity. }
    split; [exact Hb|]. rewrite (child_nego_req_of_body E _ _ _ _ Hb). reflexivity.
  Qed.
End RespForward.

(* ================================================================================================ *)
(** * Part 3. The initiator of a CHILD_SA negotiation *)
Section Initiator.
  Variable E : env.

  Definition REJECTS : list Z :=
    [N_NO_PROPOSAL_CHOSEN; N_TS_UNACCEPTABLE; N_CHILD_SA_NOT_FOUND; N_TEMPORARY_FAILURE; N_NO_ADDITIONAL_SAS].
  Definition rejected (m : pmsg body) : bool := existsb (fun ty => nonempty (get_notifies m ty true)) REJECTS.

  Definition res_nonces (m : pmsg body) (c : core) : H (bytes * bytes) :=
    if Z.eqb (h_exch (p_hdr m)) EX_IKE_AUTH then
      a <- amsg_nonce (init_req c) ;; b <- amsg_nonce (init_res c) ;; ret (a, b)
    else
      req <- of_opt (request c) X_Other ;;
      a <- req_get req K_NONCE ;; b <- get_payload m K_NONCE true ;; ret (nonce_of a, nonce_of b).
  Definition res_keyseed (m : pmsg body) (c : core) (ch : proposal) (n_req n_res : bytes) : H bytes :=
    if nonempty (get_transforms ch T_DH) then
      pke <- get_payload m K_KE true ;;
      d <- of_opt (dh c) X_Other ;;
      secret <- of_opt (e_dh_secret E (fst d) (snd d) (snd (ke_of pke))) X_Other ;;
      ret (secret ++ n_req ++ n_res)
    else ret (n_req ++ n_res).
  Lemma res_nonces_tl m c : tl_m (res_nonces m c). Proof. unfold res_nonces. tl_go. Qed.
  Lemma res_keyseed_tl m c ch a b : tl_m (res_keyseed m c ch a b). Proof. unfold res_keyseed. tl_go. Qed.
  (** both blocks are pure *)
  Lemma res_nonces_pure m c r s s1 : res_nonces m c s = (r, s1) -> s1 = s.
  Proof.
    unfold res_nonces, bind, amsg_nonce, of_opt, req_get, get_payload, ret, raise.
    destruct (Z.eqb (h_exch (p_hdr m)) EX_IKE_AUTH).
    - destruct (init_req c) as [[? [cl ?]]|]; [|intros Hx; inversion Hx; reflexivity].
      destruct (filter _ cl) as [|[] ?]; try (intros Hx; inversion Hx; reflexivity).
      destruct (init_res c) as [[? [cl2 ?]]|]; [|intros Hx; inversion Hx; reflexivity].
      destruct (filter _ cl2) as [|[] ?]; intros Hx; inversion Hx; reflexivity.
    - destruct (request c) as [rq|]; [|intros Hx; inversion Hx; reflexivity].
      destruct (filter _ (snd rq)); [intros Hx; inversion Hx; reflexivity|].
      destruct (get_payloads m K_NONCE true); intros Hx; inversion Hx; reflexivity.
  Qed.
  Lemma res_keyseed_pure m c ch a b r s s1 : res_keyseed m c ch a b s = (r, s1) -> s1 = s.
  Proof.
    unfold res_keyseed, bind, of_opt, get_payload, ret, raise. destruct (nonempty _); [|intros Hx; inversion Hx; reflexivity].
    destruct (get_payloads m K_KE true); [intros Hx; inversion Hx; reflexivity|].
    destruct (dh c); [|intros Hx; inversion Hx; reflexivity].
    destruct (e_dh_secret _ _ _ _); intros Hx; inversion Hx; reflexivity.
  Qed.

  (** the CHILD_SA the initiator records: its request [cr], with the responder's SPI, proposal and selectors *)
  Definition init_child (cr : child) (ch : proposal) (ctsi ctsr : ts) : child :=
    cr <| c_out := pr_spi ch |> <| c_prop := ch |> <| c_tsi := [ctsi] |> <| c_tsr := [ctsr] |>.

  (** the acceptance conditions of a CHILD_SA response *)
  Definition init_accepts (m : pmsg body) (s : isa) (psa ptsi ptsr : payload) (cr : child) (ch i : proposal)
    (ctsi ctsr : ts) : Prop :=
    rejected m = false /\
    hd_error (get_payloads m K_SA true) = Some psa /\
    hd_error (get_payloads m K_TSi true) = Some ptsi /\
    hd_error (get_payloads m K_TSr true) = Some ptsr /\
    creating (co s) = Some cr /\
    c_mode cr = req_mode m /\
    hd_error (sa_props psa) = Some ch /\
    intersection (offer_of (h_exch (p_hdr m)) (c_prop cr)) ch = Some i /\ prop_eqb i ch = true /\
    hd_error (tsl_of ptsi) = Some ctsi /\ hd_error (tsl_of ptsr) = Some ctsr /\
    existsb (ts_is_subset ctsi) (c_tsi cr) = true /\ existsb (ts_is_subset ctsr) (c_tsr cr) = true.

  Inductive init_installed (m : pmsg body) (s : isa) (r : res unit) (s' : isa) : Prop :=
  | InitInstalled psa ptsi ptsr cr ch i ctsi ctsr s3 ks
      (Hacc : init_accepts m s psa ptsi ptsr cr ch i ctsi ctsr)
      (Hfr : fr (s <| co := (co s) <| creating := Some (init_child cr ch ctsi ctsr) |> |>) s3 ks)
      (Hks : forall x ok, In (K_add x ok) ks -> ksa_of_child (co s) (init_child cr ch ctsi ctsr) x)
      (Hres : (s' = s3 /\ (r = Stuck \/ exists e, r = Raise e /\ (e = X_Other \/ e = X_Netlink))) \/
              (s' = s3 <| co := (co s3) <| children := children (co s3) ++ [init_child cr ch ctsi ctsr] |> |> /\
               r = Ok tt /\
               exists a b, ks = [K_add a true; K_add b true] /\
                           ksa_out (co s) (init_child cr ch ctsi ctsr) a /\ ksa_in (co s) (init_child cr ch ctsi ctsr) b)).

  (** why a response was refused before anything was touched *)
  Definition init_refusal (m : pmsg body) (s : isa) (r : res unit) : Prop :=
    match r with
    | Ok _ => False
    | Raise X_NoProposalChosen =>
        exists psa cr ch, hd_error (get_payloads m K_SA true) = Some psa /\ creating (co s) = Some cr /\
                          c_mode cr = req_mode m /\ hd_error (sa_props psa) = Some ch /\
                          forall i, intersection (offer_of (h_exch (p_hdr m)) (c_prop cr)) ch = Some i -> prop_eqb i ch = false
    | Raise X_TsUnacceptable =>
        exists cr, creating (co s) = Some cr /\
          (c_mode cr <> req_mode m \/
           exists ptsi ptsr ctsi ctsr,
             hd_error (get_payloads m K_TSi true) = Some ptsi /\ hd_error (get_payloads m K_TSr true) = Some ptsr /\
             hd_error (tsl_of ptsi) = Some ctsi /\ hd_error (tsl_of ptsr) = Some ctsr /\
             (existsb (ts_is_subset ctsi) (c_tsi cr) = false \/ existsb (ts_is_subset ctsr) (c_tsr cr) = false))
    | Raise X_ChildRejected => rejected m = true
    | _ => True
    end.

  Definition init_post (m : pmsg body) (s : isa) (r : res unit) (s' : isa) : Prop :=
    (s' = s /\ init_refusal m s r) \/ init_installed m s r s'.

  Theorem init_cases m s : wp (child_nego_res E m) s (init_post m s).
  Proof.
    unfold child_nego_res, init_post. cbv zeta. fold REJECTS. fold (rejected m).
    apply wp_bind, wp_nguard; [intros Hrej|intros Hrej; left; split; [reflexivity|exact Hrej]].
    apply wp_bind, wp_get_payload_hd; [intros psa Hsa|intros _; left; split; [reflexivity|exact Logic.I]].
    apply wp_bind, wp_get_payload_hd; [intros ptsi Htsi|intros _; left; split; [reflexivity|exact Logic.I]].
    apply wp_bind, wp_get_payload_hd; [intros ptsr Htsr|intros _; left; split; [reflexivity|exact Logic.I]].
    apply wp_bind, wp_getc.
    apply wp_bind. apply (wp_eqn (res_nonces m (co s))). intros rn s1 Hn. pose proof (res_nonces_pure _ _ _ _ _ Hn) as ->.
    assert (Hgen : forall e : exn, Raise (A := bytes * bytes) e = rn -> init_refusal m s (Raise e)).
    { intros e <-. unfold res_nonces, bind, amsg_nonce, of_opt, req_get, get_payload, ret, raise in Hn.
      destruct (Z.eqb (h_exch (p_hdr m)) EX_IKE_AUTH).
      - destruct (init_req (co s)) as [[? [cl ?]]|]; [|inversion Hn; exact Logic.I].
        destruct (filter _ cl) as [|[] ?]; try (inversion Hn; exact Logic.I).
        destruct (init_res (co s)) as [[? [cl2 ?]]|]; [|inversion Hn; exact Logic.I].
        destruct (filter _ cl2) as [|[] ?]; inversion Hn; exact Logic.I.
      - destruct (request (co s)) as [rq|]; [|inversion Hn; exact Logic.I].
        destruct (filter _ (snd rq)); [inversion Hn; exact Logic.I|].
        destruct (get_payloads m K_NONCE true); inversion Hn; exact Logic.I. }
    destruct rn as [[n_req n_res]|e|]; [|left; split; [reflexivity|apply Hgen; reflexivity]|left; split; [reflexivity|exact Logic.I]].
    clear Hgen Hn.
    apply wp_bind, wp_of_opt; [intros cr Hcr|intros _; left; split; [reflexivity|exact Logic.I]].
    fold (req_mode m).
    apply wp_bind, wp_guard; [intros Hmode|intros Hmode; left; split; [reflexivity|]].
    2:{ exists cr. split; [exact Hcr|]. left. apply Z.eqb_neq. exact Hmode. }
    apply Z.eqb_eq in Hmode.
    apply wp_bind, wp_first_prop; [intros ch Hch|intros _; left; split; [reflexivity|exact Logic.I]].
    fold (offer_of (h_exch (p_hdr m)) (c_prop cr)).
    apply wp_bind.
    destruct (intersection (offer_of (h_exch (p_hdr m)) (c_prop cr)) ch) as [i|] eqn:Hint.
    2:{ apply wp_raise. left. split; [reflexivity|]. exists psa, cr, ch. repeat split; auto. intros j Hj. rewrite Hint in Hj. discriminate Hj. }
    destruct (prop_eqb i ch) eqn:Heq.
    2:{ apply wp_raise. left. split; [reflexivity|]. exists psa, cr, ch. repeat split; auto. intros j Hj. rewrite Hint in Hj. inversion Hj; subst. exact Heq. }
    apply wp_ret.
    apply wp_bind. apply (wp_eqn (res_keyseed m (co s) ch n_req n_res)). intros rk s1 Hks.
    pose proof (res_keyseed_pure _ _ _ _ _ _ _ _ Hks) as ->.
    assert (Hgen : forall e : exn, Raise (A := bytes) e = rk -> init_refusal m s (Raise e)).
    { intros e <-. unfold res_keyseed, bind, of_opt, get_payload, ret, raise in Hks.
      destruct (nonempty _); [|inversion Hks].
      destruct (get_payloads m K_KE true); [inversion Hks; exact Logic.I|].
      destruct (dh (co s)); [|inversion Hks; exact Logic.I].
      destruct (e_dh_secret _ _ _ _); inversion Hks; exact Logic.I. }
    destruct rk as [keyseed|e|]; [|left; split; [reflexivity|apply Hgen; reflexivity]|left; split; [reflexivity|exact Logic.I]].
    clear Hgen Hks.
    apply wp_bind, wp_of_opt; [intros k Hk|intros _; left; split; [reflexivity|exact Logic.I]].
    apply wp_bind, wp_of_opt; [intros cp Hcp|intros _; left; split; [reflexivity|exact Logic.I]].
    apply wp_bind, wp_of_opt; [intros ck Hck|intros _; left; split; [reflexivity|exact Logic.I]].
    apply wp_bind. destruct (tsl_of ptsi) as [|ctsi resti] eqn:Eti; [apply wp_raise; left; split; [reflexivity|exact Logic.I]|apply wp_ret].
    apply wp_bind. destruct (tsl_of ptsr) as [|ctsr restr] eqn:Etr; [apply wp_raise; left; split; [reflexivity|exact Logic.I]|apply wp_ret].
    apply wp_bind, wp_guard; [intros Hsub|intros Hsub; left; split; [reflexivity|]].
    2:{ exists cr. split; [exact Hcr|]. right. exists ptsi, ptsr, ctsi, ctsr. rewrite Eti, Etr.
        apply andb_false_iff in Hsub. auto 8. }
    apply andb_true_iff in Hsub. destruct Hsub as [Hsub1 Hsub2].
    fold (init_child cr ch ctsi ctsr).
    assert (Hacc : init_accepts m s psa ptsi ptsr cr ch i ctsi ctsr).
    { unfold init_accepts. rewrite Eti, Etr. auto 15. }
    apply wp_bind, wp_modc.
    apply wp_bind. eapply wp_conseq; [apply create_child_sa_spec|]. cbv beta.
    intros rc s4 (ks & Hf4 & Hks & Hok & Hexn). cbn [co] in Hks, Hok.
    assert (Hks' : forall x ok, In (K_add x ok) ks -> ksa_of_child (co s) (init_child cr ch ctsi ctsr) x)
      by (intros x ok Hx; exact (Hks x ok Hx)).
    destruct rc as [[]|e|].
    - apply wp_modc. right. eapply (InitInstalled m s _ _ psa ptsi ptsr cr ch i ctsi ctsr s4 ks); [exact Hacc|exact Hf4|exact Hks'|].
      right. split; [reflexivity|]. split; [reflexivity|]. exact (Hok tt eq_refl).
    - right. eapply (InitInstalled m s _ _ psa ptsi ptsr cr ch i ctsi ctsr s4 ks); [exact Hacc|exact Hf4|exact Hks'|].
      left. split; [reflexivity|]. right. exists e. split; [reflexivity|]. apply Hexn. reflexivity.
    - right. eapply (InitInstalled m s _ _ psa ptsi ptsr cr ch i ctsi ctsr s4 ks); [exact Hacc|exact Hf4|exact Hks'|].
      left. split; [reflexivity|]. left; reflexivity.
  Qed.

  Lemma init_run m s r s' : child_nego_res E m s = (r, s') -> init_post m s r s'.
  Proof. intros Hx. pose proof (init_cases m s) as Hw. unfold wp in Hw. rewrite Hx in Hw. exact Hw. Qed.

  Lemma init_installed_of m s r s' ks :
    child_nego_res E m s = (r, s') -> kops s' = kops s ++ ks ->
    (exists u, r = Ok u) \/ (exists x ok, In (K_add x ok) ks) \/ children (co s') <> children (co s) ->
    init_installed m s r s'.
  Proof.
    intros Hx Hk Hch. destruct (init_run m s r s' Hx) as [[-> Href]|Hi]; [|exact Hi]. exfalso.
    destruct Hch as [[u ->]|[(x & ok & Hin)|Hc]].
    - exact Href.
    - assert (ks = []) as -> by (apply (app_inv_head (kops s)); rewrite app_nil_r; auto). destruct Hin.
    - apply Hc; reflexivity.
  Qed.

  Lemma init_master m s r s' :
    init_installed m s r s' ->
    exists psa ptsi ptsr cr ch i ctsi ctsr ks,
      init_accepts m s psa ptsi ptsr cr ch i ctsi ctsr /\
      kops s' = kops s ++ ks /\ new_sa s' = new_sa s /\
      (forall x ok, In (K_add x ok) ks ->
         k_prop x = ch /\ k_mode x = c_mode cr /\
         ((k_spi x = pr_spi ch /\ k_sel_src x = ctsi /\ k_sel_dst x = ctsr) \/
          (k_spi x = c_in cr /\ k_sel_src x = ctsr /\ k_sel_dst x = ctsi))) /\
      ((children (co s') = children (co s) /\ forall u, r <> Ok u) \/
       (children (co s') = children (co s) ++ [init_child cr ch ctsi ctsr] /\ r = Ok tt /\
        exists a b, ks = [K_add a true; K_add b true] /\
                    k_spi a = pr_spi ch /\ k_sel_src a = ctsi /\ k_sel_dst a = ctsr /\
                    k_spi b = c_in cr /\ k_sel_src b = ctsr /\ k_sel_dst b = ctsi)).
  Proof.
    intros [psa ptsi ptsr cr ch i ctsi ctsr s3 ks Hacc Hfr Hks Hres].
    destruct Hfr as (F1 & F2 & F3 & F4 & F5 & F6). cbn in F1, F2, F5.
    exists psa, ptsi, ptsr, cr, ch, i, ctsi, ctsr, ks. split; [exact Hacc|].
    assert (Hkops : kops s' = kops s ++ ks /\ new_sa s' = new_sa s).
    { destruct Hres as [[-> _]|(-> & _)]; cbn; auto. }
    split; [apply Hkops|]. split; [apply Hkops|].
    assert (Hout : forall x, ksa_out (co s) (init_child cr ch ctsi ctsr) x ->
                             k_prop x = ch /\ k_mode x = c_mode cr /\ k_spi x = pr_spi ch /\ k_sel_src x = ctsi /\ k_sel_dst x = ctsr).
    { intros x ((K1 & K2 & _) & C1 & _ & _ & C2 & C3). cbn in K1, K2, C1, C2, C3. inversion C2. inversion C3. auto. }
    assert (Hin : forall x, ksa_in (co s) (init_child cr ch ctsi ctsr) x ->
                            k_prop x = ch /\ k_mode x = c_mode cr /\ k_spi x = c_in cr /\ k_sel_src x = ctsr /\ k_sel_dst x = ctsi).
    { intros x ((K1 & K2 & _) & C1 & _ & _ & C2 & C3). cbn in K1, K2, C1, C2, C3. inversion C2. inversion C3. auto. }
    split.
    { intros x ok Hx. destruct (Hks x ok Hx) as [Ho|Hi']; [apply Hout in Ho|apply Hin in Hi']; tauto. }
    destruct Hres as [[-> Hn]|(-> & -> & a & b & -> & Ha & Hb)].
    - left. rewrite F1. cbn. split; [reflexivity|]. intros u Hu. destruct Hn as [Hn|(e & Hn & _)]; rewrite Hn in Hu; discriminate Hu.
    - right. cbn. rewrite F1. cbn. split; [reflexivity|]. split; [reflexivity|].
      apply Hout in Ha. apply Hin in Hb. exists a, b. tauto.
  Qed.

  (** (e) initiator, algorithms: a response is accepted - and only then is anything installed or recorded - only if
      its FIRST proposal [ch] passes [intersection offer ch = Some i /\ i == ch]: it consists of transforms of my
      offer (without DH inside IKE_AUTH), exactly one for each type of my offer *)
  Theorem init_algorithms m s r s' ks :
    child_nego_res E m s = (r, s') -> kops s' = kops s ++ ks ->
    (exists u, r = Ok u) \/ (exists x ok, In (K_add x ok) ks) \/ children (co s') <> children (co s) ->
    exists psa cr ch i,
      hd_error (get_payloads m K_SA true) = Some psa /\ creating (co s) = Some cr /\ hd_error (sa_props psa) = Some ch /\
      intersection (offer_of (h_exch (p_hdr m)) (c_prop cr)) ch = Some i /\ prop_eqb i ch = true /\
      pr_proto ch = pr_proto (c_prop cr) /\
      (forall t, In t (pr_trs ch) -> In t (pr_trs (c_prop cr)) /\ (h_exch (p_hdr m) = EX_IKE_AUTH -> tr_type t <> T_DH)) /\
      (forall ty, In ty (map tr_type (pr_trs ch)) <->
                  In ty (map tr_type (pr_trs (offer_of (h_exch (p_hdr m)) (c_prop cr))))) /\
      (forall t1 t2, In t1 (pr_trs ch) -> In t2 (pr_trs ch) -> tr_type t1 = tr_type t2 -> t1 = t2) /\
      (forall x ok, In (K_add x ok) ks -> k_prop x = ch) /\
      (forall c, In c (children (co s')) -> In c (children (co s)) \/ c_prop c = ch).
  Proof.
    intros Hx Hk Hch. pose proof (init_installed_of m s r s' ks Hx Hk Hch) as Hi.
    destruct (init_master m s r s' Hi) as (psa & ptsi & ptsr & cr & ch & i & ctsi & ctsr & ks' & Hacc & Hk' & _ & Hadd & Hco).
    rewrite Hk in Hk'. apply app_inv_head in Hk'. subst ks'.
    destruct Hacc as (_ & Hsa & _ & _ & Hcr & _ & Hc & Hint & Heq & _).
    exists psa, cr, ch, i. split; [exact Hsa|]. split; [exact Hcr|]. split; [exact Hc|]. split; [exact Hint|].
    split; [exact Heq|].
    destruct (accepted_answer _ _ _ Hint Heq) as (A1 & A2 & A3 & A4).
    split. { rewrite A1. unfold offer_of. destruct (Z.eqb _ _); reflexivity. }
    split.
    { intros t Ht. specialize (A2 t Ht). unfold offer_of in A2. destruct (Z.eqb (h_exch (p_hdr m)) EX_IKE_AUTH) eqn:Ex.
      - apply copy_without_dh_trs in A2. tauto.
      - split; [exact A2|]. intros He. rewrite He in Ex. discriminate Ex. }
    split; [exact A3|]. split; [exact A4|].
    split; [intros x ok Hin; apply (Hadd x ok Hin)|].
    intros c Hin. destruct Hco as [[Hco _]|(Hco & _)]; rewrite Hco in Hin; [left; exact Hin|].
    apply in_app_or in Hin. destruct Hin as [Hin|[<-|[]]]; [left; exact Hin|right; reflexivity].
  Qed.

  (** (i) initiator, selectors and mode: the response's FIRST TSi / TSr are each contained in one of the offered
      selectors, its mode is the offered mode, and exactly those selectors reach the kernel *)
  Theorem init_selectors_mode m s r s' ks :
    child_nego_res E m s = (r, s') -> kops s' = kops s ++ ks ->
    (exists u, r = Ok u) \/ (exists x ok, In (K_add x ok) ks) \/ children (co s') <> children (co s) ->
    exists ptsi ptsr cr ctsi ctsr tsi tsr,
      hd_error (get_payloads m K_TSi true) = Some ptsi /\ hd_error (get_payloads m K_TSr true) = Some ptsr /\
      creating (co s) = Some cr /\ hd_error (tsl_of ptsi) = Some ctsi /\ hd_error (tsl_of ptsr) = Some ctsr /\
      In tsi (c_tsi cr) /\ ts_is_subset ctsi tsi = true /\ In tsr (c_tsr cr) /\ ts_is_subset ctsr tsr = true /\
      c_mode cr = req_mode m /\
      (forall x ok, In (K_add x ok) ks ->
         k_mode x = c_mode cr /\
         ((k_sel_src x = ctsi /\ k_sel_dst x = ctsr) \/ (k_sel_src x = ctsr /\ k_sel_dst x = ctsi))) /\
      ((children (co s') = children (co s) /\ forall u, r <> Ok u) \/
       exists c a b, children (co s') = children (co s) ++ [c] /\
                     c_tsi c = [ctsi] /\ c_tsr c = [ctsr] /\ c_mode c = c_mode cr /\
                     ks = [K_add a true; K_add b true] /\
                     k_spi a = c_out c /\ k_sel_src a = ctsi /\ k_sel_dst a = ctsr /\
                     k_spi b = c_in c /\ k_sel_src b = ctsr /\ k_sel_dst b = ctsi).
  Proof.
    intros Hx Hk Hch. pose proof (init_installed_of m s r s' ks Hx Hk Hch) as Hi.
    destruct (init_master m s r s' Hi) as (psa & ptsi & ptsr & cr & ch & i & ctsi & ctsr & ks' & Hacc & Hk' & _ & Hadd & Hco).
    rewrite Hk in Hk'. apply app_inv_head in Hk'. subst ks'.
    destruct Hacc as (_ & _ & Htsi & Htsr & Hcr & Hmode & _ & _ & _ & Hci & Hcr' & Hs1 & Hs2).
    apply existsb_exists in Hs1. destruct Hs1 as (tsi & Hi1 & Hs1).
    apply existsb_exists in Hs2. destruct Hs2 as (tsr & Hi2 & Hs2).
    exists ptsi, ptsr, cr, ctsi, ctsr, tsi, tsr. repeat (split; [assumption|]).
    split.
    { intros x ok Hin. destruct (Hadd x ok Hin) as (_ & K2 & K3). split; [exact K2|]. tauto. }
    destruct Hco as [Hco|(Hco & _ & a & b & -> & A)]; [left; exact Hco|right].
    exists (init_child cr ch ctsi ctsr), a, b. cbn. split; [exact Hco|]. tauto.
  Qed.

  (** (e) NoProposalChosen is raised exactly for a first proposal that fails the test, and then the state is untouched *)
  Theorem init_no_proposal_untouched m s s' :
    child_nego_res E m s = (Raise X_NoProposalChosen, s') ->
    s' = s /\
    exists psa cr ch, hd_error (get_payloads m K_SA true) = Some psa /\ creating (co s) = Some cr /\
                      c_mode cr = req_mode m /\ hd_error (sa_props psa) = Some ch /\
                      forall i, intersection (offer_of (h_exch (p_hdr m)) (c_prop cr)) ch = Some i -> prop_eqb i ch = false.
  Proof.
    intros Hx. destruct (init_run m s _ s' Hx) as [[-> Href]|Hi]; [split; [reflexivity|exact Href]|]. exfalso.
    destruct Hi as [? ? ? ? ? ? ? ? ? ? _ _ _ [[_ [Hr|(e & Hr & [->| ->])]]|(_ & Hr & _)]]; discriminate Hr.
  Qed.
  (** (i) TsUnacceptable is raised exactly for a mode other than the offered one or selectors that are not contained
      in the offered ones, and then the state is untouched *)
  Theorem init_ts_unacceptable_untouched m s s' :
    child_nego_res E m s = (Raise X_TsUnacceptable, s') ->
    s' = s /\
    exists cr, creating (co s) = Some cr /\
      (c_mode cr <> req_mode m \/
       exists ptsi ptsr ctsi ctsr,
         hd_error (get_payloads m K_TSi true) = Some ptsi /\ hd_error (get_payloads m K_TSr true) = Some ptsr /\
         hd_error (tsl_of ptsi) = Some ctsi /\ hd_error (tsl_of ptsr) = Some ctsr /\
         (existsb (ts_is_subset ctsi) (c_tsi cr) = false \/ existsb (ts_is_subset ctsr) (c_tsr cr) = false)).
  Proof.
    intros Hx. destruct (init_run m s _ s' Hx) as [[-> Href]|Hi]; [split; [reflexivity|exact Href]|]. exfalso.
    destruct Hi as [? ? ? ? ? ? ? ? ? ? _ _ _ [[_ [Hr|(e & Hr & [->| ->])]]|(_ & Hr & _)]]; discriminate Hr.
  Qed.

  (** the converse direction, by evaluation: the gates that precede the test *)
  Definition init_pre (m : pmsg body) (s : isa) (psa ptsi ptsr : payload) (nn : bytes * bytes) (cr : child) : Prop :=
    rejected m = false /\
    hd_error (get_payloads m K_SA true) = Some psa /\
    hd_error (get_payloads m K_TSi true) = Some ptsi /\
    hd_error (get_payloads m K_TSr true) = Some ptsr /\
    res_nonces m (co s) s = (Ok nn, s) /\
    creating (co s) = Some cr.

  Lemma of_opt_eval {A} (o : option A) e a s : o = Some a -> of_opt o e s = (Ok a, s).
  Proof. intros ->. reflexivity. Qed.

  Theorem init_refuses_mode m s psa ptsi ptsr nn cr :
    init_pre m s psa ptsi ptsr nn cr -> c_mode cr <> req_mode m ->
    child_nego_res E m s = (Raise X_TsUnacceptable, s).
  Proof.
    intros (Hrej & Hsa & Htsi & Htsr & Hn & Hcr) Hmode.
    unfold child_nego_res. cbv zeta. fold REJECTS. fold (rejected m). rewrite Hrej.
    rewrite (bind_ok_eq (ret tt) _ s tt s eq_refl).
    rewrite (bind_ok_eq _ _ _ _ _ (get_payload_eval _ _ _ _ s Hsa)).
    rewrite (bind_ok_eq _ _ _ _ _ (get_payload_eval _ _ _ _ s Htsi)).
    rewrite (bind_ok_eq _ _ _ _ _ (get_payload_eval _ _ _ _ s Htsr)).
    rewrite (bind_ok_eq getc _ s (co s) s eq_refl).
    rewrite (bind_ok_eq _ _ _ _ _ Hn). destruct nn as [n_req n_res].
    rewrite (bind_ok_eq _ _ _ _ _ (of_opt_eval _ _ _ s Hcr)).
    fold (req_mode m). apply Z.eqb_neq in Hmode. rewrite Hmode. reflexivity.
  Qed.

  Theorem init_refuses_proposal m s psa ptsi ptsr nn cr ch :
    init_pre m s psa ptsi ptsr nn cr -> c_mode cr = req_mode m -> hd_error (sa_props psa) = Some ch ->
    (forall i, intersection (offer_of (h_exch (p_hdr m)) (c_prop cr)) ch = Some i -> prop_eqb i ch = false) ->
    child_nego_res E m s = (Raise X_NoProposalChosen, s).
  Proof.
    intros (Hrej & Hsa & Htsi & Htsr & Hn & Hcr) Hmode Hch Hbad.
    unfold child_nego_res. cbv zeta. fold REJECTS. fold (rejected m). rewrite Hrej.
    rewrite (bind_ok_eq (ret tt) _ s tt s eq_refl).
    rewrite (bind_ok_eq _ _ _ _ _ (get_payload_eval _ _ _ _ s Hsa)).
    rewrite (bind_ok_eq _ _ _ _ _ (get_payload_eval _ _ _ _ s Htsi)).
    rewrite (bind_ok_eq _ _ _ _ _ (get_payload_eval _ _ _ _ s Htsr)).
    rewrite (bind_ok_eq getc _ s (co s) s eq_refl).
    rewrite (bind_ok_eq _ _ _ _ _ Hn). destruct nn as [n_req n_res].
    rewrite (bind_ok_eq _ _ _ _ _ (of_opt_eval _ _ _ s Hcr)).
    fold (req_mode m). rewrite Hmode, Z.eqb_refl. rewrite (bind_ok_eq (ret tt) _ s tt s eq_refl).
    assert (Hf : first_prop psa s = (Ok ch, s)) by (unfold first_prop; destruct (sa_props psa); inversion Hch; reflexivity).
    rewrite (bind_ok_eq _ _ _ _ _ Hf). fold (offer_of (h_exch (p_hdr m)) (c_prop cr)).
    apply bind_raise_eq. destruct (intersection _ ch) as [i|]; [|reflexivity]. rewrite (Hbad i eq_refl). reflexivity.
  Qed.

  Theorem init_refuses_selectors m s psa ptsi ptsr nn cr ch i keyseed k cp ck ctsi ctsr :
    init_pre m s psa ptsi ptsr nn cr -> c_mode cr = req_mode m -> hd_error (sa_props psa) = Some ch ->
    intersection (offer_of (h_exch (p_hdr m)) (c_prop cr)) ch = Some i -> prop_eqb i ch = true ->
    res_keyseed m (co s) ch (fst nn) (snd nn) s = (Ok keyseed, s) ->
    kr (co s) = Some k -> cprop (co s) = Some cp -> e_child_keys E cp ch keyseed (sk_d k) = Some ck ->
    hd_error (tsl_of ptsi) = Some ctsi -> hd_error (tsl_of ptsr) = Some ctsr ->
    existsb (ts_is_subset ctsi) (c_tsi cr) = false \/ existsb (ts_is_subset ctsr) (c_tsr cr) = false ->
    child_nego_res E m s = (Raise X_TsUnacceptable, s).
  Proof.
    intros (Hrej & Hsa & Htsi & Htsr & Hn & Hcr) Hmode Hch Hint Heq Hks Hk Hcp Hck Hci Hcr' Hbad.
    unfold child_nego_res. cbv zeta. fold REJECTS. fold (rejected m). rewrite Hrej.
    rewrite (bind_ok_eq (ret tt) _ s tt s eq_refl).
    rewrite (bind_ok_eq _ _ _ _ _ (get_payload_eval _ _ _ _ s Hsa)).
    rewrite (bind_ok_eq _ _ _ _ _ (get_payload_eval _ _ _ _ s Htsi)).
    rewrite (bind_ok_eq _ _ _ _ _ (get_payload_eval _ _ _ _ s Htsr)).
    rewrite (bind_ok_eq getc _ s (co s) s eq_refl).
    rewrite (bind_ok_eq _ _ _ _ _ Hn). destruct nn as [n_req n_res]. cbn [fst snd] in Hks.
    rewrite (bind_ok_eq _ _ _ _ _ (of_opt_eval _ _ _ s Hcr)).
    fold (req_mode m). rewrite Hmode, Z.eqb_refl. rewrite (bind_ok_eq (ret tt) _ s tt s eq_refl).
    assert (Hf : first_prop psa s = (Ok ch, s)) by (unfold first_prop; destruct (sa_props psa); inversion Hch; reflexivity).
    rewrite (bind_ok_eq _ _ _ _ _ Hf). fold (offer_of (h_exch (p_hdr m)) (c_prop cr)).
    rewrite Hint, Heq. rewrite (bind_ok_eq (ret tt) _ s tt s eq_refl).
    rewrite (bind_ok_eq _ _ _ _ _ Hks).
    rewrite (bind_ok_eq _ _ _ _ _ (of_opt_eval _ _ _ s Hk)).
    rewrite (bind_ok_eq _ _ _ _ _ (of_opt_eval _ _ _ s Hcp)).
    rewrite (bind_ok_eq _ _ _ _ _ (of_opt_eval _ _ _ s Hck)).
    destruct (tsl_of ptsi) as [|x xs]; inversion Hci; subst x.
    destruct (tsl_of ptsr) as [|y ys]; inversion Hcr'; subst y.
    rewrite (bind_ok_eq (ret ctsi) _ s ctsi s eq_refl). rewrite (bind_ok_eq (ret ctsr) _ s ctsr s eq_refl).
    apply bind_raise_eq.
    assert (Hz : existsb (ts_is_subset ctsi) (c_tsi cr) && existsb (ts_is_subset ctsr) (c_tsr cr) = false)
      by (apply andb_false_iff; exact Hbad).
    rewrite Hz. reflexivity.
  Qed.
End Initiator.

(* ================================================================================================ *)
(** * Part 4. The IKE_SA negotiation and INVALID_KE_PAYLOAD *)

(** Proposal.is_subset: the answer has the protocol of the offer, only transforms of the offer, and no two
    different transforms of one type.  (It does NOT require a transform for every type of the offer.) *)
Lemma prop_is_subset_iff p q :
  prop_is_subset p q = true <->
  pr_proto p = pr_proto q /\ (forall t, In t (pr_trs p) -> In t (pr_trs q)) /\
  (forall t1 t2, In t1 (pr_trs p) -> In t2 (pr_trs p) -> tr_type t1 = tr_type t2 -> t1 = t2).
Proof.
  unfold prop_is_subset. split.
  - destruct (intersection p q) as [i|] eqn:Hi; [|discriminate]. intros He.
    pose proof (intersection_some _ _ _ Hi) as (Hp & _ & _ & _ & Hin & _ & _ & _ & _).
    apply prop_eqb_iff in He. destruct He as (_ & _ & H2).
    split; [exact Hp|]. split; [intros t Ht; apply (Hin t); apply H2; exact Ht|].
    intros t1 t2 Ht1 Ht2 Heq. apply H2 in Ht1. apply H2 in Ht2.
    destruct (Hin t1 Ht1) as (_ & _ & F1). destruct (Hin t2 Ht2) as (_ & _ & F2). rewrite Heq in F1. congruence.
  - intros (Hp & Hsub & Huniq).
    assert (Hall : all_types_match p q).
    { intros ty Hty Hnone. apply in_map_iff in Hty. destruct Hty as (t & Ht & Hin).
      apply (proj1 (first_ok_none _ _ _) Hnone t Hin Ht). apply Hsub. exact Hin. }
    destruct (proj2 (intersection_some_iff p q) (conj Hp Hall)) as [i Hi]. rewrite Hi.
    pose proof (intersection_some _ _ _ Hi) as (_ & Hpi & _ & _ & Hin & _ & _ & Hcov & _).
    apply prop_eqb_iff. split; [exact Hpi|]. split; [intros t Ht; apply (Hin t Ht)|].
    intros t Ht. destruct (Hcov (tr_type t) (in_map tr_type _ _ Ht)) as (t' & Hf & Hin').
    apply first_ok_some in Hf. destruct Hf as (H1 & _ & H3). rewrite (Huniq t t' Ht H1 (eq_sym H3)). exact Hin'.
Qed.

Lemma fresh_nonce_never_raises e s s1 : fresh_nonce s <> (Raise e, s1).
Proof.
  unfold fresh_nonce, bind, draw_num, draw_bytes, bind, pop.
  destruct (tape s) as [|[] [|[] r]]; cbn; discriminate.
Qed.
Lemma draw_dh_raise g e s s1 : draw_dh g s = (Raise e, s1) -> e = X_Other.
Proof.
  unfold draw_dh, bind, pop. destruct (tape s) as [|[] r]; cbn; try discriminate.
  - destruct (Z.eqb g g0); cbn; discriminate.
  - destruct (Z.eqb g g0); cbn; [intros Hx; inversion Hx; reflexivity|discriminate].
Qed.
Lemma wp_fresh_nonce_exact s (Q : res bytes -> isa -> Prop) :
  (forall j n r, tape s = D_num j :: D_bytes n :: r -> Q (Ok n) (s <| tape := r |>)) -> (forall s1, Q Stuck s1) ->
  wp fresh_nonce s Q.
Proof.
  intros H1 H2. apply wp_eqn. intros [n|e|] s1 He; [|destruct (fresh_nonce_never_raises _ _ _ He)|apply H2].
  apply fresh_nonce_ok in He. destruct He as (j & r & Ht & ->). apply (H1 j n r Ht).
Qed.
Lemma wp_draw_dh_exact g s (Q : res (bytes * bytes) -> isa -> Prop) :
  (forall h pub r, tape s = D_dh g h pub :: r -> Q (Ok (h, pub)) (s <| tape := r |>)) ->
  (forall s1, Q (Raise X_Other) s1) -> (forall s1, Q Stuck s1) -> wp (draw_dh g) s Q.
Proof.
  intros H1 H2 H3. apply wp_eqn. intros [hp|e|] s1 He; [| |apply H3].
  - apply draw_dh_ok in He. destruct He as (r & Ht & ->). destruct hp as [h pub]. apply (H1 h pub r Ht).
  - apply draw_dh_raise in He. subst e. apply H2.
Qed.
Lemma wp_getw w s (Q : res core -> isa -> Prop) :
  (forall c, view w s = Some c -> Q (Ok c) s) -> (view w s = None -> Q (Raise X_Other) s) -> wp (getw w) s Q.
Proof.
  intros H1 H2. unfold getw. apply wp_bind, wp_get. unfold view in *. destruct w; [|apply wp_ret, H1; reflexivity].
  apply wp_of_opt; auto.
Qed.
Lemma wp_modw w f s (Q : res unit -> isa -> Prop) : Q (Ok tt) (upd w f s) -> wp (modw w f) s Q.
Proof. intros Hq. unfold modw, upd in *. destruct w; exact Hq. Qed.

Section IkeNego.
  Variable E : env.

  (** the responder's choice: my IKE proposal intersected with the first proposal of the peer that intersects
      (carrying my SPI when the peer's proposal carries one: IKE_SA rekey) *)
  Definition ike_choice (c : core) (psa : payload) : option proposal :=
    match sel_first (cf_prop (cfg c)) (sa_props psa) with
    | Some ch0 => Some (if nonempty (pr_spi ch0) then ch0 <| pr_spi := my_spi_b c |> else ch0)
    | None => None
    end.
  Definition set_chosen (ch : proposal) (c : core) : core := c <| chosen := Some ch |>.

  Definition cookie_block (m : pmsg body) (pn : payload) (c : core) : H unit :=
    match cookie_secret c with
    | Some sec =>
        let expected := e_cookie E sec (be_encode 8 (Z.to_N (h_spi_i (p_hdr m))) ++ nonce_of pn
                                        ++ e_addr_packed E (peer_addr c)) in
        match get_notifies m N_COOKIE false with
        | P_NOTIFY _ _ _ d :: _ => if bytes_eqb d expected then ret tt else raise (X_CookieRequired expected)
        | _ => raise (X_CookieRequired expected)
        end
    | None => ret tt
    end.
  Lemma cookie_block_spec m pn c s :
    cookie_block m pn c s = (Ok tt, s) \/ exists ck, cookie_block m pn c s = (Raise (X_CookieRequired ck), s).
  Proof.
    unfold cookie_block. destruct (cookie_secret c); [|left; reflexivity].
    destruct (get_notifies m N_COOKIE false) as [|[] ?]; try (right; eexists; reflexivity).
    destruct (bytes_eqb _ _); [left; reflexivity|right; eexists; reflexivity].
  Qed.

  Definition ike_req_post (w : bool) (m : pmsg body) (enc : bool) (s : isa) (r : res (list payload)) (s' : isa) : Prop :=
    match r with
    | Ok rps =>
        exists psa pke c ch dht nr pub,
          hd_error (get_payloads m K_SA enc) = Some psa /\ hd_error (get_payloads m K_KE enc) = Some pke /\
          view w s = Some c /\ ike_choice c psa = Some ch /\
          hd_error (get_transforms ch T_DH) = Some dht /\ tr_id dht = fst (ke_of pke) /\
          rps = [P_SA [ch]; P_NONCE nr; P_KE (tr_id dht) pub] /\
          option_map chosen (view w s') = Some (Some ch) /\ option_map cprop (view w s') = Some (Some ch) /\
          kops s' = kops s
    | Raise X_NoProposalChosen =>
        s' = s /\ exists psa c, hd_error (get_payloads m K_SA enc) = Some psa /\ view w s = Some c /\
                                forall p, In p (sa_props psa) -> intersection (cf_prop (cfg c)) p = None
    | Raise (X_InvalidKe g) =>
        exists psa pke c ch dht j n,
          hd_error (get_payloads m K_SA enc) = Some psa /\ hd_error (get_payloads m K_KE enc) = Some pke /\
          view w s = Some c /\ ike_choice c psa = Some ch /\
          hd_error (get_transforms ch T_DH) = Some dht /\ g = tr_id dht /\ fst (ke_of pke) <> g /\
          (* the nonce is the only draw consumed: no DH key pair was generated *)
          tape s = D_num j :: D_bytes n :: tape s' /\
          s' = (upd w (set_chosen ch) s) <| tape := tape s' |>
    | _ => True
    end.

  (** (d) the responder of an IKE_SA negotiation (IKE_SA_INIT and IKE_SA rekey) *)
  Theorem ike_nego_request_cases w m enc old s : wp (ike_nego_request E w m enc old) s (ike_req_post w m enc s).
  Proof.
    unfold ike_nego_request, ike_req_post.
    apply wp_bind, wp_get_payload_hd; [intros psa Hsa|intros _; exact Logic.I].
    apply wp_bind, wp_get_payload_hd; [intros pn Hpn|intros _; exact Logic.I].
    apply wp_bind, wp_get_payload_hd; [intros pke Hke|intros _; exact Logic.I].
    apply wp_bind, wp_getw; [intros c Hc|intros _; exact Logic.I].
    apply wp_bind. apply (wp_eqn (cookie_block m pn c)). intros rc s1 Hck.
    destruct (cookie_block_spec m pn c s) as [Hok|[ck Hbad]]; rewrite Hck in *; [|inversion Hbad; exact Logic.I].
    inversion Hok; subst rc s1. clear Hok Hck.
    apply wp_bind, wp_select_best.
    2:{ intros Hnone. split; [reflexivity|]. exists psa, c. split; [exact Hsa|]. split; [exact Hc|].
        apply sel_first_none. exact Hnone. }
    intros ch0 Hsel. cbv zeta.
    set (ch := if nonempty (pr_spi ch0) then ch0 <| pr_spi := my_spi_b c |> else ch0).
    assert (Hch : ike_choice c psa = Some ch) by (unfold ike_choice; rewrite Hsel; reflexivity).
    clearbody ch.
    apply wp_bind, wp_modw. fold (set_chosen ch).
    apply wp_bind, wp_fresh_nonce_exact; [intros j nr r Ht|intros s1; exact Logic.I].
    rewrite (proj1 (upd_frame w (set_chosen ch) s)) in Ht.
    apply wp_bind, wp_get_transform; [intros dht Hdht|intros _; exact Logic.I].
    destruct (ke_of pke) as [ke_g ke_d] eqn:Eke.
    apply wp_bind, wp_guard; [intros Hg|intros Hg].
    2:{ apply Z.eqb_neq in Hg. exists psa, pke, c, ch, dht, j, nr. cbn [tape]. rewrite Eke. cbn [fst].
        split; [exact Hsa|]. split; [exact Hke|]. split; [exact Hc|]. split; [exact Hch|]. split; [exact Hdht|].
        split; [reflexivity|]. split; [congruence|]. split; [exact Ht|reflexivity]. }
    apply Z.eqb_eq in Hg.
    apply wp_bind, wp_draw_dh_exact; [intros h pub r2 Ht2|intros s1; exact Logic.I|intros s1; exact Logic.I].
    apply wp_bind, wp_of_opt; [intros secret Hsec|intros _; exact Logic.I].
    apply wp_bind. apply wp_eqn. intros rg s3 Hgk. destruct rg as [[]|e|]; [| |exact Logic.I].
    2:{ unfold gen_keys in Hgk. destruct (e_ike_keys _ _ _ _ _ _ _ _); [|inversion Hgk; exact Logic.I].
        exfalso. unfold modw in Hgk. destruct w; discriminate Hgk. }
    apply gen_keys_ok in Hgk. destruct Hgk as (k & Hk & ->). apply wp_ret.
    exists psa, pke, c, ch, dht, nr, pub. rewrite Eke. cbn [fst snd].
    split; [exact Hsa|]. split; [exact Hke|]. split; [exact Hc|]. split; [exact Hch|]. split; [exact Hdht|].
    split; [exact Hg|]. split; [rewrite Hg; reflexivity|].
    rewrite !view_upd, !view_tape, view_upd, Hc. cbn. split; [reflexivity|]. split; [reflexivity|].
    destruct w; reflexivity.
  Qed.

  Lemma ike_nego_request_run w m enc old s r s' :
    ike_nego_request E w m enc old s = (r, s') -> ike_req_post w m enc s r s'.
  Proof. intros Hx. pose proof (ike_nego_request_cases w m enc old s) as Hw. unfold wp in Hw. rewrite Hx in Hw. exact Hw. Qed.

  (** the three clauses of [ike_req_post], one by one *)
  Theorem ike_nego_request_ok w m enc old s rps s' :
    ike_nego_request E w m enc old s = (Ok rps, s') ->
    exists psa pke c ch dht nr pub,
      hd_error (get_payloads m K_SA enc) = Some psa /\ hd_error (get_payloads m K_KE enc) = Some pke /\
      view w s = Some c /\ ike_choice c psa = Some ch /\
      hd_error (get_transforms ch T_DH) = Some dht /\ tr_id dht = fst (ke_of pke) /\
      rps = [P_SA [ch]; P_NONCE nr; P_KE (tr_id dht) pub] /\
      option_map chosen (view w s') = Some (Some ch) /\ option_map cprop (view w s') = Some (Some ch) /\
      kops s' = kops s.
  Proof. exact (ike_nego_request_run w m enc old s (Ok rps) s'). Qed.
  Theorem ike_nego_request_no_proposal w m enc old s s' :
    ike_nego_request E w m enc old s = (Raise X_NoProposalChosen, s') ->
    s' = s /\ exists psa c, hd_error (get_payloads m K_SA enc) = Some psa /\ view w s = Some c /\
                            forall p, In p (sa_props psa) -> intersection (cf_prop (cfg c)) p = None.
  Proof. exact (ike_nego_request_run w m enc old s (Raise X_NoProposalChosen) s'). Qed.
  Theorem ike_nego_request_invalid_ke_raised w m enc old s g s' :
    ike_nego_request E w m enc old s = (Raise (X_InvalidKe g), s') ->
    exists psa pke c ch dht j n,
      hd_error (get_payloads m K_SA enc) = Some psa /\ hd_error (get_payloads m K_KE enc) = Some pke /\
      view w s = Some c /\ ike_choice c psa = Some ch /\
      hd_error (get_transforms ch T_DH) = Some dht /\ g = tr_id dht /\ fst (ke_of pke) <> g /\
      tape s = D_num j :: D_bytes n :: tape s' /\
      s' = (upd w (set_chosen ch) s) <| tape := tape s' |>.
  Proof. exact (ike_nego_request_run w m enc old s (Raise (X_InvalidKe g)) s'). Qed.

  (** what is chosen consists of transforms of my IKE proposal and of ONE proposal of the peer *)
  Theorem ike_choice_sound c psa ch :
    ike_choice c psa = Some ch ->
    exists p i, In p (sa_props psa) /\ intersection (cf_prop (cfg c)) p = Some i /\
                pr_trs ch = pr_trs i /\ pr_proto ch = pr_proto i /\ pr_num ch = pr_num i /\
                (forall t, In t (pr_trs ch) -> In t (pr_trs (cf_prop (cfg c))) /\ In t (pr_trs p)).
  Proof.
    unfold ike_choice. destruct (sel_first _ _) as [ch0|] eqn:Hs; [|discriminate]. intros Hx; inversion Hx; subst ch; clear Hx.
    destruct (sel_first_sound _ _ _ Hs) as (p & Hp & Hi & Hin). exists p, ch0. split; [exact Hp|]. split; [exact Hi|].
    destruct (nonempty (pr_spi ch0)); cbn; auto.
  Qed.

  (** the converse of the InvalidKe clause, by evaluation *)
  Theorem ike_nego_request_invalid_ke w m enc old s psa pn pke c ch dht j n r :
    hd_error (get_payloads m K_SA enc) = Some psa -> hd_error (get_payloads m K_NONCE enc) = Some pn ->
    hd_error (get_payloads m K_KE enc) = Some pke -> view w s = Some c ->
    cookie_block m pn c s = (Ok tt, s) -> ike_choice c psa = Some ch ->
    tape s = D_num j :: D_bytes n :: r ->
    hd_error (get_transforms ch T_DH) = Some dht -> fst (ke_of pke) <> tr_id dht ->
    ike_nego_request E w m enc old s = (Raise (X_InvalidKe (tr_id dht)), (upd w (set_chosen ch) s) <| tape := r |>).
  Proof.
    intros Hsa Hpn Hke Hc Hck Hch Ht Hdht Hne. unfold ike_nego_request.
    rewrite (bind_ok_eq _ _ _ _ _ (get_payload_eval _ _ _ _ s Hsa)).
    rewrite (bind_ok_eq _ _ _ _ _ (get_payload_eval _ _ _ _ s Hpn)).
    rewrite (bind_ok_eq _ _ _ _ _ (get_payload_eval _ _ _ _ s Hke)).
    assert (Hg : getw w s = (Ok c, s)).
    { unfold getw, view in *. destruct w; cbn; [rewrite Hc; reflexivity|inversion Hc; reflexivity]. }
    rewrite (bind_ok_eq _ _ _ _ _ Hg). rewrite (bind_ok_eq _ _ _ _ _ Hck).
    unfold ike_choice in Hch. destruct (sel_first (cf_prop (cfg c)) (sa_props psa)) as [ch0|] eqn:Hs; [|discriminate Hch].
    inversion Hch; subst ch; clear Hch.
    assert (Hsb : select_best (cf_prop (cfg c)) (sa_props psa) s = (Ok ch0, s)) by (rewrite select_best_eq, Hs; reflexivity).
    rewrite (bind_ok_eq _ _ _ _ _ Hsb). cbv zeta.
    set (ch := if nonempty (pr_spi ch0) then ch0 <| pr_spi := my_spi_b c |> else ch0) in *.
    assert (Hm : modw w (fun c0 => c0 <| chosen := Some ch |>) s = (Ok tt, upd w (set_chosen ch) s)) by (destruct w; reflexivity).
    rewrite (bind_ok_eq _ _ _ _ _ Hm).
    assert (Hf : fresh_nonce (upd w (set_chosen ch) s) = (Ok n, (upd w (set_chosen ch) s) <| tape := r |>)).
    { unfold fresh_nonce, bind, draw_num, draw_bytes, bind, pop. rewrite (proj1 (upd_frame w (set_chosen ch) s)), Ht. reflexivity. }
    rewrite (bind_ok_eq _ _ _ _ _ Hf).
    unfold get_transform. destruct (get_transforms ch T_DH) as [|d0 rest]; [discriminate Hdht|]. cbn in Hdht.
    inversion Hdht; subst d0. rewrite (bind_ok_eq (ret dht) _ _ dht _ eq_refl).
    destruct (ke_of pke) as [g d] eqn:Ek. cbn [fst] in Hne.
    assert (Hz : Z.eqb (tr_id dht) g = false) by (apply Z.eqb_neq; congruence). rewrite Hz. reflexivity.
  Qed.

  (** (e) the initiator of an IKE_SA negotiation accepts only an answer that [is_subset] of its own offer *)
  Theorem ike_nego_response_ok w m nonce enc old u s s' :
    ike_nego_response E w m nonce enc old s = (Ok u, s') ->
    exists psa c p0 ch,
      hd_error (get_payloads m K_SA enc) = Some psa /\ view w s = Some c /\ hd_error (sa_props psa) = Some p0 /\
      chosen c = Some ch /\ prop_is_subset p0 ch = true /\
      pr_proto p0 = pr_proto ch /\ (forall t, In t (pr_trs p0) -> In t (pr_trs ch)) /\
      (forall t1 t2, In t1 (pr_trs p0) -> In t2 (pr_trs p0) -> tr_type t1 = tr_type t2 -> t1 = t2) /\
      option_map chosen (view w s') = Some (Some p0) /\ option_map cprop (view w s') = Some (Some p0) /\ kops s' = kops s.
  Proof.
    unfold ike_nego_response. intros Hx.
    bpure Hx psa Hsa get_payload_ok. bpure Hx pn Hpn get_payload_ok. bpure Hx pke Hke get_payload_ok.
    bpure Hx c Hc getw_ok. bpure Hx p0 Hp0 first_prop_ok. bpure Hx ch Hch of_opt_ok.
    bpure Hx u1 Hsub guard_ok. bupd Hx modw_ok. bpure Hx d Hd of_opt_ok. bpure Hx secret Hsec of_opt_ok.
    apply gen_keys_ok in Hx. destruct Hx as (k & Hk & ->).
    exists psa, c, p0, ch. split; [exact Hsa|]. split; [exact Hc|]. split; [exact Hp0|]. split; [exact Hch|].
    split; [exact Hsub|]. pose proof (proj1 (prop_is_subset_iff _ _) Hsub) as (S1 & S2 & S3).
    split; [exact S1|]. split; [exact S2|]. split; [exact S3|].
    rewrite !view_upd, Hc. cbn. split; [reflexivity|]. split; [reflexivity|]. destruct w; reflexivity.
  Qed.
  Theorem ike_nego_response_not_subset w m nonce enc old s psa pn pke c p0 ch :
    hd_error (get_payloads m K_SA enc) = Some psa -> hd_error (get_payloads m K_NONCE enc) = Some pn ->
    hd_error (get_payloads m K_KE enc) = Some pke -> view w s = Some c -> hd_error (sa_props psa) = Some p0 ->
    chosen c = Some ch -> prop_is_subset p0 ch = false ->
    ike_nego_response E w m nonce enc old s = (Raise X_NoProposalChosen, s).
  Proof.
    intros Hsa Hpn Hke Hc Hp0 Hch Hns. unfold ike_nego_response.
    rewrite (bind_ok_eq _ _ _ _ _ (get_payload_eval _ _ _ _ s Hsa)).
    rewrite (bind_ok_eq _ _ _ _ _ (get_payload_eval _ _ _ _ s Hpn)).
    rewrite (bind_ok_eq _ _ _ _ _ (get_payload_eval _ _ _ _ s Hke)).
    assert (Hg : getw w s = (Ok c, s)).
    { unfold getw, view in *. destruct w; cbn; [rewrite Hc; reflexivity|inversion Hc; reflexivity]. }
    rewrite (bind_ok_eq _ _ _ _ _ Hg).
    assert (Hf : first_prop psa s = (Ok p0, s)) by (unfold first_prop; destruct (sa_props psa); inversion Hp0; reflexivity).
    rewrite (bind_ok_eq _ _ _ _ _ Hf). rewrite Hch. rewrite (bind_ok_eq (ret ch) _ s ch s eq_refl). rewrite Hns. reflexivity.
  Qed.

  (** (f) handle_invalid_ke *)
  Lemma replace_ke_spec l g pub :
    kfilter K_KE l <> [] ->
    exists pre g0 d0 post, l = pre ++ P_KE g0 d0 :: post /\ kfilter K_KE pre = [] /\
                           replace_ke l g pub = pre ++ P_KE g pub :: post.
  Proof.
    induction l as [|p l IH]; [intros Hx; contradiction Hx; reflexivity|]. intros Hne.
    destruct p; try (unfold kfilter in Hne; cbn in Hne; fold (kfilter K_KE l) in Hne;
                     destruct (IH Hne) as (pre & g0 & d0 & post & -> & Hpre & Hr);
                     eexists (_ :: pre), g0, d0, post; cbn [replace_ke]; rewrite Hr;
                     split; [reflexivity|]; split; [unfold kfilter; cbn; exact Hpre|reflexivity]).
    exists [], g0, d, l. cbn. auto.
  Qed.

  Definition hik_post (nots : list payload) (s : isa) (r : res ((Z * bytes) * (Z * list payload))) (s' : isa) : Prop :=
    match r with
    | Ok ((g, h), (ex, ps')) =>
        exists req psa mine a b c d pub pre g0 d0 post,
          request (co s) = Some req /\ hd_error (kfilter K_SA (snd req)) = Some psa /\
          hd_error (sa_props psa) = Some mine /\ hd_error nots = Some (P_NOTIFY a b c d) /\ length d = 2%nat /\
          g = Z.of_N (be_decode d) /\ In g (map tr_id (get_transforms mine T_DH)) /\
          tape s = D_dh g h pub :: tape s' /\
          (* exactly the first KE payload is rewritten *)
          snd req = pre ++ P_KE g0 d0 :: post /\ kfilter K_KE pre = [] /\
          ex = fst req /\ ps' = pre ++ P_KE g pub :: post /\ ps' = replace_ke (snd req) g pub /\
          s' = (s <| tape := tape s' |>) <| co := (co s) <| request := Some (fst req, ps') |> |>
    | Raise X_NoProposalChosen =>
        s' = s /\
        exists req psa mine a b c d,
          request (co s) = Some req /\ hd_error (kfilter K_SA (snd req)) = Some psa /\
          hd_error (sa_props psa) = Some mine /\ hd_error nots = Some (P_NOTIFY a b c d) /\ length d = 2%nat /\
          ~ In (Z.of_N (be_decode d)) (map tr_id (get_transforms mine T_DH))
    | _ => True
    end.

  Theorem handle_invalid_ke_cases nots s : wp (handle_invalid_ke nots) s (hik_post nots s).
  Proof.
    unfold handle_invalid_ke, hik_post.
    apply wp_bind, wp_getc.
    apply wp_bind, wp_of_opt; [intros req Hreq|intros _; exact Logic.I].
    apply wp_bind. unfold req_get. fold (kfilter K_SA (snd req)).
    destruct (kfilter K_SA (snd req)) as [|psa rest] eqn:Esa; [apply wp_raise; exact Logic.I|apply wp_ret].
    apply wp_bind, wp_first_prop; [intros mine Hmine|intros _; exact Logic.I].
    apply wp_bind. destruct nots as [|[] nrest]; try (apply wp_raise; exact Logic.I). apply wp_ret.
    apply wp_bind, wp_guard; [intros Hlen|intros _; exact Logic.I]. apply Nat.eqb_eq in Hlen.
    cbv zeta.
    apply wp_bind, wp_guard; [intros Hmem|intros Hmem].
    2:{ split; [reflexivity|]. exists req, psa, mine, proto, ty, spi, data. apply memZ_false in Hmem.
        split; [exact Hreq|]. split; [rewrite Esa; reflexivity|]. split; [exact Hmine|]. split; [reflexivity|]. split; [exact Hlen|exact Hmem]. }
    apply memZ_In in Hmem.
    apply wp_bind, wp_draw_dh_exact; [intros h pub r Ht|intros s1; exact Logic.I|intros s1; exact Logic.I].
    apply wp_bind. fold (kfilter K_KE (snd req)).
    destruct (kfilter K_KE (snd req)) as [|pke krest] eqn:Eke; [apply wp_raise; exact Logic.I|apply wp_ret].
    apply wp_bind, wp_modc, wp_ret.
    destruct (replace_ke_spec (snd req) (Z.of_N (be_decode data)) pub) as (pre & g0 & d0 & post & Hl & Hpre & Hr);
      [rewrite Eke; discriminate|].
    exists req, psa, mine, proto, ty, spi, data, pub, pre, g0, d0, post. cbn [fst snd tape co].
    split; [exact Hreq|]. split; [rewrite Esa; reflexivity|]. split; [exact Hmine|]. split; [reflexivity|]. split; [exact Hlen|].
    split; [reflexivity|]. split; [exact Hmem|]. split; [exact Ht|]. split; [exact Hl|]. split; [exact Hpre|].
    split; [reflexivity|]. split; [exact Hr|]. split; [reflexivity|]. reflexivity.
  Qed.
  Lemma handle_invalid_ke_run nots s r s' : handle_invalid_ke nots s = (r, s') -> hik_post nots s r s'.
  Proof. intros Hx. pose proof (handle_invalid_ke_cases nots s) as Hw. unfold wp in Hw. rewrite Hx in Hw. exact Hw. Qed.

  Theorem handle_invalid_ke_ok nots s g h ex ps' s' :
    handle_invalid_ke nots s = (Ok ((g, h), (ex, ps')), s') ->
    exists req psa mine a b c d pub pre g0 d0 post,
      request (co s) = Some req /\ hd_error (kfilter K_SA (snd req)) = Some psa /\
      hd_error (sa_props psa) = Some mine /\ hd_error nots = Some (P_NOTIFY a b c d) /\ length d = 2%nat /\
      g = Z.of_N (be_decode d) /\ In g (map tr_id (get_transforms mine T_DH)) /\
      tape s = D_dh g h pub :: tape s' /\
      snd req = pre ++ P_KE g0 d0 :: post /\ kfilter K_KE pre = [] /\
      ex = fst req /\ ps' = pre ++ P_KE g pub :: post /\ ps' = replace_ke (snd req) g pub /\
      s' = (s <| tape := tape s' |>) <| co := (co s) <| request := Some (fst req, ps') |> |>.
  Proof. exact (handle_invalid_ke_run nots s (Ok ((g, h), (ex, ps'))) s'). Qed.
  Theorem handle_invalid_ke_no_proposal nots s s' :
    handle_invalid_ke nots s = (Raise X_NoProposalChosen, s') ->
    s' = s /\
    exists req psa mine a b c d,
      request (co s) = Some req /\ hd_error (kfilter K_SA (snd req)) = Some psa /\
      hd_error (sa_props psa) = Some mine /\ hd_error nots = Some (P_NOTIFY a b c d) /\ length d = 2%nat /\
      ~ In (Z.of_N (be_decode d)) (map tr_id (get_transforms mine T_DH)).
  Proof. exact (handle_invalid_ke_run nots s (Raise X_NoProposalChosen) s'). Qed.

  (** a suggested group that is not among the DH transforms I offered: NoProposalChosen, state untouched - in
      particular no DH key pair is drawn *)
  Theorem handle_invalid_ke_foreign_group nots s req psa mine a b c d rest :
    request (co s) = Some req -> hd_error (kfilter K_SA (snd req)) = Some psa -> hd_error (sa_props psa) = Some mine ->
    nots = P_NOTIFY a b c d :: rest -> length d = 2%nat ->
    ~ In (Z.of_N (be_decode d)) (map tr_id (get_transforms mine T_DH)) ->
    handle_invalid_ke nots s = (Raise X_NoProposalChosen, s).
  Proof.
    intros Hreq Hsa Hmine -> Hlen Hno. unfold handle_invalid_ke.
    rewrite (bind_ok_eq getc _ s (co s) s eq_refl). rewrite (bind_ok_eq _ _ _ _ _ (of_opt_eval _ _ _ s Hreq)).
    assert (Hg : req_get req K_SA s = (Ok psa, s)).
    { unfold req_get. fold (kfilter K_SA (snd req)). destruct (kfilter K_SA (snd req)); inversion Hsa; reflexivity. }
    rewrite (bind_ok_eq _ _ _ _ _ Hg).
    assert (Hf : first_prop psa s = (Ok mine, s)) by (unfold first_prop; destruct (sa_props psa); inversion Hmine; reflexivity).
    rewrite (bind_ok_eq _ _ _ _ _ Hf). rewrite (bind_ok_eq (ret d) _ s d s eq_refl).
    rewrite Hlen. cbn [Nat.eqb]. rewrite (bind_ok_eq (ret tt) _ s tt s eq_refl). cbv zeta.
    apply memZ_false in Hno. rewrite Hno. reflexivity.
  Qed.
End IkeNego.

(* ================================================================================================ *)
(** * Part 4b. The request handler of CREATE_CHILD_SA *)
Section HandlerLevel.
  Variable E : env.

  (** in every state in which process_create_child_sa_request accepts requests, a request whose first proposal is
      not for IKE IS the CHILD_SA negotiation above, on the same state *)
  Theorem ccsa_request_is_child_nego m s psa p0 :
    memZ (st (co s)) (states_range ST_ESTABLISHED ST_REKEYED) = true ->
    hd_error (get_payloads m K_SA true) = Some psa -> hd_error (sa_props psa) = Some p0 -> pr_proto p0 <> PROTO_IKE ->
    process_create_child_sa_request E m s = child_nego_req E m s.
  Proof.
    intros Hst Hsa Hp0 Hne. unfold process_create_child_sa_request.
    assert (Hc : check_in_states (states_range ST_ESTABLISHED ST_REKEYED) s = (Ok tt, s)).
    { unfold check_in_states. rewrite (bind_ok_eq getc _ s (co s) s eq_refl). rewrite Hst. reflexivity. }
    rewrite (bind_ok_eq _ _ _ _ _ Hc). rewrite (bind_ok_eq _ _ _ _ _ (get_payload_eval _ _ _ _ s Hsa)).
    assert (Hf : first_prop psa s = (Ok p0, s)) by (unfold first_prop; destruct (sa_props psa); inversion Hp0; reflexivity).
    rewrite (bind_ok_eq _ _ _ _ _ Hf). apply Z.eqb_neq in Hne. rewrite Hne. reflexivity.
  Qed.
  Lemma states_range_child : states_range ST_ESTABLISHED ST_REKEYED =
    [ST_ESTABLISHED; ST_NEW_CHILD_REQ_SENT; ST_REK_CHILD_REQ_SENT; ST_REK_IKE_SA_REQ_SENT; ST_DEL_CHILD_REQ_SENT;
     ST_DEL_IKE_SA_REQ_SENT; ST_DEL_AFTER_REKEY_IKE_SA_REQ_SENT; ST_DPD_REQ_SENT].
  Proof. reflexivity. Qed.

  (** (h) at the level of the handler: a rekey with other selector lists than the replaced CHILD_SA is answered
      TS_UNACCEPTABLE and changes nothing, also while a DELETE / rekey of ANOTHER CHILD_SA of ours is in flight *)
  Theorem ccsa_request_rekey_ts_mismatch m s psa p0 ptsi ptsr nproto ty nspi d rest rk :
    In (st (co s)) [ST_ESTABLISHED; ST_NEW_CHILD_REQ_SENT; ST_REK_CHILD_REQ_SENT; ST_DEL_CHILD_REQ_SENT;
                    ST_DEL_AFTER_REKEY_IKE_SA_REQ_SENT; ST_DPD_REQ_SENT] ->
    hd_error (get_payloads m K_SA true) = Some psa -> hd_error (sa_props psa) = Some p0 -> pr_proto p0 <> PROTO_IKE ->
    hd_error (get_payloads m K_TSi true) = Some ptsi -> hd_error (get_payloads m K_TSr true) = Some ptsr ->
    get_notifies m N_REKEY_SA true = P_NOTIFY nproto ty nspi d :: rest ->
    find_child (children (co s)) nspi = Some rk ->
    (st (co s) = ST_DEL_CHILD_REQ_SENT -> opt_child_eqb rk (deleting (co s)) = false) ->
    (st (co s) = ST_REK_CHILD_REQ_SENT -> opt_child_eqb rk (rekeying (co s)) = false) ->
    tsl_of ptsi <> c_tsr rk \/ tsl_of ptsr <> c_tsi rk ->
    process_create_child_sa_request E m s = (Ok [P_NOTIFY PROTO_NONE N_TS_UNACCEPTABLE [] []], s).
  Proof.
    intros Hst Hsa Hp0 Hne Htsi Htsr Hn Hf Hd Hr Hts.
    assert (Hmem : memZ (st (co s)) (states_range ST_ESTABLISHED ST_REKEYED) = true).
    { rewrite states_range_child. apply memZ_In. cbn in Hst |- *. tauto. }
    rewrite (ccsa_request_is_child_nego m s psa p0 Hmem Hsa Hp0 Hne).
    refine (proj2 (resp_rekey_ts_mismatch E m s psa ptsi ptsr nproto ty nspi d rest rk Hsa Htsi Htsr _ _ Hn Hf Hd Hr Hts)).
    - intros He. rewrite He in Hst. cbn in Hst. repeat (destruct Hst as [Hst|Hst]; [discriminate Hst|]). exact Hst.
    - intros He. rewrite He in Hst. cbn in Hst. repeat (destruct Hst as [Hst|Hst]; [discriminate Hst|]). exact Hst.
  Qed.
  (** the history of kernel operations only grows, in every outcome *)
  Theorem resp_kops_extends m s r s' : child_nego_req E m s = (r, s') -> exists ks, kops s' = kops s ++ ks.
  Proof.
    rewrite child_nego_req_eq. destruct (child_nego_req_body E m s) as [rb s1] eqn:Hb. cbn [fst snd].
    intros Hx; inversion Hx; subst s1. pose proof (resp_body_cases E m s) as Hw. unfold wp in Hw. rewrite Hb in Hw.
    cbn [fst snd] in Hw. destruct Hw as [[Ht _]|Hi].
    - exists []. rewrite app_nil_r. apply tonly_kops. exact Ht.
    - destruct (resp_master E m s rb s' Hi) as (? & ? & ? & ? & ? & ? & ? & ? & ? & ks & ? & ? & Hx').
      exists ks. apply Hx'.
  Qed.
  Theorem init_kops_extends m s r s' : child_nego_res E m s = (r, s') -> exists ks, kops s' = kops s ++ ks.
  Proof.
    intros Hx. destruct (init_run E m s r s' Hx) as [[-> _]|Hi]; [exists []; symmetry; apply app_nil_r|].
    destruct (init_master m s r s' Hi) as (? & ? & ? & ? & ? & ? & ? & ? & ks & _ & Hk & _). exists ks. exact Hk.
  Qed.
End HandlerLevel.

(* ================================================================================================ *)
(** * The vocabulary of the statements, written out *)
Lemma def_offer_of exch p : offer_of exch p = if Z.eqb exch EX_IKE_AUTH then copy_without_dh p else p.
Proof. reflexivity. Qed.
Lemma def_req_mode m :
  req_mode m = if nonempty (get_notifies m N_USE_TRANSPORT_MODE true) then MODE_TRANSPORT else MODE_TUNNEL.
Proof. reflexivity. Qed.
Lemma def_first_ok mine other ty :
  first_ok mine other ty = find (fun m => Z.eqb (tr_type m) ty && existsb (tr_eqb m) other) mine.
Proof. reflexivity. Qed.
Lemma def_all_types_match mine peer :
  all_types_match mine peer <->
  forall ty, In ty (map tr_type (pr_trs mine)) -> first_ok (pr_trs mine) (pr_trs peer) ty <> None.
Proof. reflexivity. Qed.
Lemma def_sel_first mine ps :
  sel_first mine ps = match ps with
                      | [] => None
                      | p :: r => match intersection mine p with Some i => Some i | None => sel_first mine r end
                      end.
Proof. destruct ps; reflexivity. Qed.
Lemma def_ke_gate m ch :
  ke_gate m ch <->
  match get_transforms ch T_DH with
  | [] => True
  | dht :: _ => exists pke, hd_error (get_payloads m K_KE true) = Some pke /\ fst (ke_of pke) = tr_id dht
  end.
Proof. reflexivity. Qed.
Lemma def_rekey_gate m c psa ptsi ptsr r0 :
  rekey_gate m c psa ptsi ptsr r0 <->
  match get_notifies m N_REKEY_SA true with
  | [] => r0 = []
  | n :: _ => exists nproto nspi d rk p0,
      n = P_NOTIFY nproto N_REKEY_SA nspi d /\ find_child (children c) nspi = Some rk /\
      rekey_child_being_deleted (st c) (opt_child_eqb rk (deleting c)) = false /\
      rekey_child_being_rekeyed (st c) (opt_child_eqb rk (rekeying c)) = false /\
      tsl_of ptsi = c_tsr rk /\ tsl_of ptsr = c_tsi rk /\
      hd_error (sa_props psa) = Some p0 /\ r0 = [P_NOTIFY (pr_proto p0) N_REKEY_SA (c_in rk) []]
  end.
Proof. reflexivity. Qed.
Lemma def_rekey_clause m c ptsi ptsr :
  rekey_clause m c ptsi ptsr <->
  forall nproto ty nspi d rest, get_notifies m N_REKEY_SA true = P_NOTIFY nproto ty nspi d :: rest ->
    exists rk, find_child (children c) nspi = Some rk /\ tsl_of ptsi = c_tsr rk /\ tsl_of ptsr = c_tsi rk /\
               rekey_child_being_deleted (st c) (opt_child_eqb rk (deleting c)) = false /\
               rekey_child_being_rekeyed (st c) (opt_child_eqb rk (rekeying c)) = false.
Proof. reflexivity. Qed.
Lemma def_resp_pre0 m s psa ptsi ptsr r0 nn s1 :
  resp_pre0 m s psa ptsi ptsr r0 nn s1 <->
  hd_error (get_payloads m K_SA true) = Some psa /\
  hd_error (get_payloads m K_TSi true) = Some ptsi /\
  hd_error (get_payloads m K_TSr true) = Some ptsr /\
  child_request_while_ike_busy (st (co s)) = false /\
  rekey_gate m (co s) psa ptsi ptsr r0 /\
  opt_nonce (h_exch (p_hdr m)) m s = (Ok nn, s1).
Proof. reflexivity. Qed.
Lemma def_resp_pre m s psa ptsi ptsr r0 nn s1 pc ctsr ctsi :
  resp_pre m s psa ptsi ptsr r0 nn s1 pc ctsr ctsi <->
  resp_pre0 m s psa ptsi ptsr r0 nn s1 /\
  conf_for_tsi (cf_protect (cfg (co s))) (rev (tsl_of ptsi)) (rev (tsl_of ptsr)) = Some (pc, ctsr, ctsi).
Proof. apply resp_pre_split. Qed.
Lemma def_conf_for_tsi l tsis tsrs x :
  conf_for_tsi l (rev tsis) (rev tsrs) = Some x <->
  forall s, get_ipsec_configuration l tsis tsrs s = (Ok x, s).
Proof.
  split.
  - intros Hc s. rewrite get_ipsec_configuration_eq, Hc. reflexivity.
  - intros Hg. specialize (Hg (mk_isa (mk_core 0 false [] [] 0 0 (mk_conf (mk_prop 0 0 [] []) [] (mk_authc 0 [] None false false)
                                    (mk_authc 0 [] None false false) 0 0) None None None [] None None None None None None
                                    None None 0 0 0 false) None None 0 [] [])).
    rewrite get_ipsec_configuration_eq in Hg. destruct (conf_for_tsi l (rev tsis) (rev tsrs)); inversion Hg; reflexivity.
Qed.
Lemma def_larger p tsi tsr : larger p tsi tsr = ts_is_subset tsi (pt_peer_ts p) && ts_is_subset tsr (pt_my_ts p).
Proof. reflexivity. Qed.
Lemma def_smaller p tsi tsr : smaller p tsi tsr = ts_is_subset (pt_peer_ts p) tsi && ts_is_subset (pt_my_ts p) tsr.
Proof. reflexivity. Qed.
Lemma def_pair_matches l tsi tsr :
  pair_matches l tsi tsr <-> exists p, In p l /\ (larger p tsi tsr = true \/ smaller p tsi tsr = true).
Proof. reflexivity. Qed.
Lemma def_pair_choice l tsi tsr pc ctsr ctsi :
  pair_choice l tsi tsr pc ctsr ctsi <->
  (ctsi = tsi /\ ctsr = tsr /\
   exists pre post, l = pre ++ pc :: post /\ larger pc tsi tsr = true /\ forall q, In q pre -> larger q tsi tsr = false)
  \/
  (ctsi = pt_peer_ts pc /\ ctsr = pt_my_ts pc /\ (forall q, In q l -> larger q tsi tsr = false) /\
   exists pre post, l = pre ++ pc :: post /\ smaller pc tsi tsr = true /\ forall q, In q pre -> smaller q tsi tsr = false).
Proof. reflexivity. Qed.
Lemma def_ike_choice c psa :
  ike_choice c psa = match sel_first (cf_prop (cfg c)) (sa_props psa) with
                     | Some ch0 => Some (if nonempty (pr_spi ch0) then ch0 <| pr_spi := my_spi_b c |> else ch0)
                     | None => None
                     end.
Proof. reflexivity. Qed.
Lemma def_set_chosen ch c : set_chosen ch c = c <| chosen := Some ch |>.
Proof. reflexivity. Qed.
Lemma def_view_upd w f s :
  view w s = (if w then new_sa s else Some (co s)) /\
  upd w f s = (if w then s <| new_sa := option_map f (new_sa s) |> else s <| co := f (co s) |>).
Proof. split; reflexivity. Qed.
Lemma def_rejected m :
  rejected m = existsb (fun ty => nonempty (get_notifies m ty true))
                       [N_NO_PROPOSAL_CHOSEN; N_TS_UNACCEPTABLE; N_CHILD_SA_NOT_FOUND; N_TEMPORARY_FAILURE; N_NO_ADDITIONAL_SAS].
Proof. reflexivity. Qed.
Lemma def_init_pre m s psa ptsi ptsr nn cr :
  init_pre m s psa ptsi ptsr nn cr <->
  rejected m = false /\
  hd_error (get_payloads m K_SA true) = Some psa /\
  hd_error (get_payloads m K_TSi true) = Some ptsi /\
  hd_error (get_payloads m K_TSr true) = Some ptsr /\
  res_nonces m (co s) s = (Ok nn, s) /\
  creating (co s) = Some cr.
Proof. reflexivity. Qed.
Lemma def_res_nonces m c :
  res_nonces m c =
  if Z.eqb (h_exch (p_hdr m)) EX_IKE_AUTH then
    a <- amsg_nonce (init_req c) ;; b <- amsg_nonce (init_res c) ;; ret (a, b)
  else
    req <- of_opt (request c) X_Other ;;
    a <- req_get req K_NONCE ;; b <- get_payload m K_NONCE true ;; ret (nonce_of a, nonce_of b).
Proof. reflexivity. Qed.
Lemma def_res_keyseed E m c ch n_req n_res :
  res_keyseed E m c ch n_req n_res =
  if nonempty (get_transforms ch T_DH) then
    pke <- get_payload m K_KE true ;;
    d <- of_opt (dh c) X_Other ;;
    secret <- of_opt (e_dh_secret E (fst d) (snd d) (snd (ke_of pke))) X_Other ;;
    ret (secret ++ n_req ++ n_res)
  else ret (n_req ++ n_res).
Proof. reflexivity. Qed.
Lemma def_cookie_block E m pn c :
  cookie_block E m pn c =
  match cookie_secret c with
  | Some sec =>
      let expected := e_cookie E sec (be_encode 8 (Z.to_N (h_spi_i (p_hdr m))) ++ nonce_of pn
                                      ++ e_addr_packed E (peer_addr c)) in
      match get_notifies m N_COOKIE false with
      | P_NOTIFY _ _ _ d :: _ => if bytes_eqb d expected then ret tt else raise (X_CookieRequired expected)
      | _ => raise (X_CookieRequired expected)
      end
  | None => ret tt
  end.
Proof. reflexivity. Qed.
Lemma def_ts_matches t ty proto port addr :
  ts_matches t ty proto port addr <->
  ty = ts_type t /\ (ts_proto t = 0 \/ proto = ts_proto t) /\ ts_sport t <= port <= ts_eport t /\
  ts_saddr t <= addr <= ts_eaddr t.
Proof. reflexivity. Qed.

(* ================================================================================================ *)
(** * Part 5. Non-vacuity: concrete instances on which the hypotheses hold and the handlers do what is claimed *)
Module NegoToy.
  Import Toy.
  Definition the {A} (o : option A) (d : A) : A := match o with Some a => a | None => d end.
  Definition okv {A} (r : res A) (d : A) : A := match r with Ok a => a | _ => d end.

  (** (a) *)
  Definition mine : proposal :=
    mk_prop 1 PROTO_ESP [] [mk_tr T_ENCR 12 (Some 128); mk_tr T_ENCR 12 (Some 256); mk_tr T_INTEG 12 None;
                            mk_tr T_INTEG 14 None; mk_tr T_ESN 0 None].
  Definition peer : proposal :=
    mk_prop 3 PROTO_ESP [9]%N [mk_tr T_ENCR 12 (Some 256); mk_tr T_INTEG 14 None; mk_tr T_INTEG 12 None;
                               mk_tr T_ESN 0 None; mk_tr T_ESN 1 None].
  Example intersection_example :
    intersection mine peer =
    Some (mk_prop 3 PROTO_ESP [9]%N [mk_tr T_ENCR 12 (Some 256); mk_tr T_INTEG 12 None; mk_tr T_ESN 0 None]).
  Proof. reflexivity. Qed.
  (** no ESN transform in common *)
  Definition peer_bad : proposal := mk_prop 2 PROTO_ESP [8]%N [mk_tr T_ENCR 12 (Some 256); mk_tr T_INTEG 14 None; mk_tr T_ESN 1 None].
  Example intersection_none_example : intersection mine peer_bad = None /\ intersection mine (peer <| pr_proto := PROTO_AH |>) = None.
  Proof. split; reflexivity. Qed.
  (** (b) *)
  Example select_best_example s :
    select_best mine [peer_bad; peer; peer <| pr_num := 4 |>] s = (Ok (the (intersection mine peer) mine), s) /\
    select_best mine [peer_bad; peer_bad] s = (Raise X_NoProposalChosen, s).
  Proof. split; reflexivity. Qed.

  (** (g) a policy 10..20 <-> 100..200; the request's last TSi 12..15 is covered: chosen as requested;
      a request 0..50 covers the policy: narrowed to the policy; a disjoint request: TsUnacceptable *)
  Definition pol : protect := mk_protect 1 mine (mk_ts 7 0 0 65535 10 20) (mk_ts 7 6 0 65535 100 200) MODE_TUNNEL 300.
  Example ipsec_conf_covered s :
    get_ipsec_configuration [pol] [mk_ts 7 6 0 65535 0 255; mk_ts 7 6 80 80 120 130] [mk_ts 7 17 0 65535 12 15] s =
    (Ok (pol, mk_ts 7 17 0 65535 12 15, mk_ts 7 6 80 80 120 130), s).
  Proof. reflexivity. Qed.
  Example ipsec_conf_narrowed s :
    get_ipsec_configuration [pol] [mk_ts 7 0 0 65535 0 255] [mk_ts 7 0 0 65535 0 50] s =
    (Ok (pol, pt_my_ts pol, pt_peer_ts pol), s).
  Proof. reflexivity. Qed.
  Example ipsec_conf_unacceptable s :
    get_ipsec_configuration [pol] [mk_ts 7 0 0 65535 0 255] [mk_ts 7 0 0 65535 30 50] s = (Raise X_TsUnacceptable, s).
  Proof. reflexivity. Qed.

  (** (c)(h) the responder of HdlAgree.Toy installs: the hypotheses of [resp_algorithms] / [resp_selectors_mode] hold *)
  Example responder_installs : forall pfs : bool,
    let s := cR0 pfs in let r := cR1 E0 pfs in
    exists a b, kops (snd r) = kops s ++ [K_add a true; K_add b true] /\
                k_sel_src a = ts_b /\ k_sel_dst a = ts_a /\ k_sel_src b = ts_a /\ k_sel_dst b = ts_b /\
                k_mode a = MODE_TUNNEL /\ pr_trs (k_prop a) = pr_trs (esp_prop pfs) /\
                length (children (co (snd r))) = 1%nat.
  Proof. intros []; vm_compute; do 2 eexists; repeat split. Qed.

  (** the same request with another SA payload / KE group / mode / selectors *)
  Definition with_payload (f : payload -> list payload) (m : pmsg body) : pmsg body :=
    mk_pmsg (p_hdr m) (p_auth m) (fst (p_body m), flat_map f (snd (p_body m))).
  Definition m_noprop : pmsg body :=
    with_payload (fun p => match p with P_SA _ => [P_SA [peer_bad; peer_bad <| pr_proto := PROTO_AH |>]] | _ => [p] end) (cmR false).
  Definition m_badke : pmsg body :=
    with_payload (fun p => match p with P_KE _ d => [P_KE 15 d] | _ => [p] end) (cmR true).
  Definition m_transport : pmsg body :=
    with_payload (fun p => match p with P_SA _ => [p; P_NOTIFY PROTO_NONE N_USE_TRANSPORT_MODE [] []] | _ => [p] end) (cmR false).
  Definition m_badts : pmsg body :=
    with_payload (fun p => match p with P_TSi _ => [P_TSi [mk_ts 7 0 0 65535 300 400]] | _ => [p] end) (cmR false).

  Definition w_psa (m : pmsg body) := the (hd_error (get_payloads m K_SA true)) (P_OTHER 0).
  Definition w_tsi (m : pmsg body) := the (hd_error (get_payloads m K_TSi true)) (P_OTHER 0).
  Definition w_tsr (m : pmsg body) := the (hd_error (get_payloads m K_TSr true)) (P_OTHER 0).
  Definition w_nn (m : pmsg body) (s : isa) := okv (fst (opt_nonce (h_exch (p_hdr m)) m s)) ([], [], []).
  Definition w_s1 (m : pmsg body) (s : isa) := snd (opt_nonce (h_exch (p_hdr m)) m s).
  Definition w_sel (m : pmsg body) (s : isa) :=
    the (conf_for_tsi (cf_protect (cfg (co s))) (rev (tsl_of (w_tsi m))) (rev (tsl_of (w_tsr m)))) (pol, ts_a, ts_a).
  Definition w_pc m s := fst (fst (w_sel m s)).
  Definition w_pre (m : pmsg body) (s : isa) : Prop :=
    resp_pre m s (w_psa m) (w_tsi m) (w_tsr m) [] (w_nn m s) (w_s1 m s) (w_pc m s) (snd (fst (w_sel m s))) (snd (w_sel m s)).

  Example resp_no_proposal_nonvacuous :
    let m := m_noprop in let s := cR0 false in
    w_pre m s /\ pt_mode (w_pc m s) = req_mode m /\
    (forall p, In p (sa_props (w_psa m)) -> intersection (offer_of (h_exch (p_hdr m)) (pt_prop (w_pc m s))) p = None) /\
    child_nego_req E0 m s = (Ok [P_NOTIFY PROTO_NONE N_NO_PROPOSAL_CHOSEN [] []], w_s1 m s) /\ kops (w_s1 m s) = [] /\
    children (co (w_s1 m s)) = [].
  Proof.
    split; [vm_compute; repeat split|]. split; [vm_compute; reflexivity|].
    split; [intros p Hin; vm_compute in Hin; destruct Hin as [Hin|[Hin|[]]]; subst p; vm_compute; reflexivity|].
    vm_compute. repeat split.
  Qed.
  Example resp_invalid_ke_nonvacuous :
    let m := m_badke in let s := cR0 true in
    w_pre m s /\ pt_mode (w_pc m s) = req_mode m /\
    sel_first (offer_of (h_exch (p_hdr m)) (pt_prop (w_pc m s))) (sa_props (w_psa m))
      = Some ((esp_prop true) <| pr_spi := [9;9;9;1]%N |>) /\
    hd_error (get_transforms (esp_prop true) T_DH) = Some (mk_tr T_DH 14 None) /\
    hd_error (get_payloads m K_KE true) = Some (P_KE 15 [5]%N) /\
    child_nego_req E0 m s = (Ok [P_NOTIFY PROTO_NONE N_INVALID_KE_PAYLOAD [] [0; 14]%N], w_s1 m s) /\ kops (w_s1 m s) = [] /\
    tape (w_s1 m s) = [D_dh 14 [6]%N [6]%N; D_bytes [4;4;4;2]%N; D_num 3; D_verdict true; D_verdict true].
  Proof. vm_compute. repeat split. Qed.
  Example resp_mode_mismatch_nonvacuous :
    let m := m_transport in let s := cR0 false in
    w_pre m s /\ pt_mode (w_pc m s) <> req_mode m /\
    child_nego_req E0 m s = (Ok [P_NOTIFY PROTO_NONE N_TS_UNACCEPTABLE [] []], w_s1 m s) /\ kops (w_s1 m s) = [].
  Proof. vm_compute. repeat split. discriminate. Qed.
  Example resp_ts_unacceptable_nonvacuous :
    let m := m_badts in let s := cR0 false in
    resp_pre0 m s (w_psa m) (w_tsi m) (w_tsr m) [] (w_nn m s) (w_s1 m s) /\
    conf_for_tsi (cf_protect (cfg (co s))) (rev (tsl_of (w_tsi m))) (rev (tsl_of (w_tsr m))) = None /\
    child_nego_req E0 m s = (Ok [P_NOTIFY PROTO_NONE N_TS_UNACCEPTABLE [] []], w_s1 m s) /\ kops (w_s1 m s) = [].
  Proof. vm_compute. repeat split. Qed.

  (** (h) rekey while this endpoint is itself deleting ANOTHER CHILD_SA (state DEL_CHILD_REQ_SENT) *)
  Definition r_child : child := mk_child [4;4;4;2]%N [9;9;9;1]%N (esp_prop false) (esp_prop false) [ts_b] [ts_a] MODE_TUNNEL 400.
  Definition other_child : child := mk_child [4;4;4;3]%N [9;9;9;3]%N (esp_prop false) (esp_prop false) [ts_b] [ts_a] MODE_TUNNEL 400.
  Definition del_state : isa :=
    mk_isa ((est false spiR spiI (conf_R false) 20 10) <| st := ST_DEL_CHILD_REQ_SENT |> <| children := [r_child; other_child] |>
              <| deleting := Some other_child |>) None None 1000
           [D_num 16; D_bytes [8;8;8]%N; D_bytes [4;4;4;5]%N; D_num 3; D_verdict true; D_verdict true] [].
  Definition rekey_msg (tsi : ts) : pmsg body :=
    msg (hdrx spiI spiR EX_CREATE_CHILD_SA false true) []
        [P_NOTIFY PROTO_ESP N_REKEY_SA [9;9;9;1]%N []; P_TSi [tsi]; P_TSr [ts_b];
         P_SA [(esp_prop false) <| pr_spi := [9;9;9;7]%N |>]; P_NONCE [7;7;7]%N].
  (** selector lists equal to those of the replaced SA: installed *)
  Example rekey_in_del_state_installs :
    let r := child_nego_req E0 (rekey_msg ts_a) del_state in
    length (kops (snd r)) = 2%nat /\ length (children (co (snd r))) = 3%nat /\
    hd_error (okv (fst r) []) = Some (P_NOTIFY PROTO_ESP N_REKEY_SA [4;4;4;2]%N []).
  Proof. vm_compute. repeat split. Qed.
  (** a narrower TSi (contained in the policy, so a NEW CHILD_SA with it would be accepted): refused *)
  Example rekey_in_del_state_ts_mismatch :
    let m := rekey_msg (mk_ts 7 6 0 65535 100 100) in let s := del_state in
    st (co s) = ST_DEL_CHILD_REQ_SENT /\
    get_notifies m N_REKEY_SA true = [P_NOTIFY PROTO_ESP N_REKEY_SA [9;9;9;1]%N []] /\
    find_child (children (co s)) [9;9;9;1]%N = Some r_child /\ opt_child_eqb r_child (deleting (co s)) = false /\
    tsl_of (P_TSi [mk_ts 7 6 0 65535 100 100]) <> c_tsr r_child /\
    child_nego_req E0 m s = (Ok [P_NOTIFY PROTO_NONE N_TS_UNACCEPTABLE [] []], s).
  Proof. vm_compute. repeat split. discriminate. Qed.

  (** (e)(i) the initiator of HdlAgree.Toy installs; a response choosing a transform that was not offered, another
      mode, or wider selectors is refused with the state untouched *)
  Example initiator_installs : forall pfs : bool,
    let s := cI1' pfs in let r := cI2 E0 pfs in
    fst r = Ok tt /\ exists a b, kops (snd r) = kops s ++ [K_add a true; K_add b true] /\
                                 k_sel_src a = ts_a /\ k_sel_dst a = ts_b /\ k_sel_src b = ts_b /\ k_sel_dst b = ts_a.
  Proof. intros []; vm_compute; (split; [reflexivity|]); do 2 eexists; repeat split. Qed.
  Definition res_with (f : payload -> list payload) : pmsg body := with_payload f (cmI E0 false).
  Example initiator_refuses_foreign_transform :
    let m := res_with (fun p => match p with
                                | P_SA [q] => [P_SA [q <| pr_trs := [mk_tr T_ENCR 12 (Some 256); mk_tr T_INTEG 12 None; mk_tr T_ESN 0 None] |>]]
                                | _ => [p] end) in
    child_nego_res E0 m (cI1' false) = (Raise X_NoProposalChosen, cI1' false).
  Proof. vm_compute. reflexivity. Qed.
  Example initiator_refuses_missing_type :
    let m := res_with (fun p => match p with
                                | P_SA [q] => [P_SA [q <| pr_trs := [mk_tr T_ENCR 12 (Some 128); mk_tr T_INTEG 12 None] |>]]
                                | _ => [p] end) in
    child_nego_res E0 m (cI1' false) = (Raise X_NoProposalChosen, cI1' false).
  Proof. vm_compute. reflexivity. Qed.
  Example initiator_refuses_mode :
    let m := res_with (fun p => match p with P_SA _ => [p; P_NOTIFY PROTO_NONE N_USE_TRANSPORT_MODE [] []] | _ => [p] end) in
    child_nego_res E0 m (cI1' false) = (Raise X_TsUnacceptable, cI1' false).
  Proof. vm_compute. reflexivity. Qed.
  Example initiator_refuses_wider_selectors :
    let m := res_with (fun p => match p with P_TSr _ => [P_TSr [mk_ts 7 0 0 65535 200 201]] | _ => [p] end) in
    child_nego_res E0 m (cI1' false) = (Raise X_TsUnacceptable, cI1' false).
  Proof. vm_compute. reflexivity. Qed.

  (** (d) IKE_SA_INIT responder: KE in group 15 while the chosen proposal has group 14 *)
  Definition im_badke : pmsg body :=
    mk_pmsg (p_hdr imR) true (flat_map (fun p => match p with P_KE _ d => [P_KE 15 d] | _ => [p] end) (fst (p_body imR)), []).
  Example ike_invalid_ke_example :
    let r := ike_nego_request E0 false im_badke false None iR0 in
    fst r = Raise (X_InvalidKe 14) /\ tape (snd r) = [D_dh 14 [6]%N [6]%N] /\ kr (co (snd r)) = None /\
    chosen (co (snd r)) = Some (ike_prop <| pr_spi := spiR |>).
  Proof. vm_compute. repeat split. Qed.
  Example ike_nego_ok_example :
    let r := ike_nego_request E0 false imR false None iR0 in
    exists nr pub, fst r = Ok [P_SA [ike_prop <| pr_spi := spiR |>]; P_NONCE nr; P_KE 14 pub] /\
                   chosen (co (snd r)) = Some (ike_prop <| pr_spi := spiR |>).
  Proof. vm_compute. do 2 eexists. split; reflexivity. Qed.

  (** observation: the IKE_SA initiator's test [is_subset] accepts an answer that OMITS a transform type of the offer
      (here INTEG and PRF); the CHILD_SA initiator's test [intersection offer answer == answer] does not *)
  Definition ike_short : proposal := mk_prop 1 PROTO_IKE [] [mk_tr T_ENCR 12 (Some 128); mk_tr T_DH 14 None].
  Example is_subset_accepts_missing_types :
    prop_is_subset ike_short ike_prop = true /\
    (forall i, intersection ike_prop ike_short = Some i -> prop_eqb i ike_short = false).
  Proof. split; [reflexivity|]. intros i Hi. vm_compute in Hi. discriminate Hi. Qed.

  (** (f) the peer suggests group 14 (offered) / group 19 (not offered) *)
  Definition hik_state : isa := (snd iI1) <| tape := [D_dh 14 [9]%N [9]%N] |>.
  Example handle_invalid_ke_example :
    let r := handle_invalid_ke [P_NOTIFY PROTO_NONE N_INVALID_KE_PAYLOAD [] [0; 14]%N] hik_state in
    exists rest, fst r = Ok ((14, [9]%N), (EX_IKE_SA_INIT, rest)) /\ In (P_KE 14 [9]%N) rest /\ tape (snd r) = [].
  Proof. vm_compute. eexists. split; [reflexivity|]. split; [|reflexivity]. cbn. tauto. Qed.
  Example handle_invalid_ke_foreign_example :
    handle_invalid_ke [P_NOTIFY PROTO_NONE N_INVALID_KE_PAYLOAD [] [0; 19]%N] hik_state = (Raise X_NoProposalChosen, hik_state).
  Proof. vm_compute. reflexivity. Qed.
End NegoToy.
