(** C18 on the handler model (Hdl.v) and the endpoint model (Endpoint.v): under load, no responder state or
    Diffie-Hellman work without a valid cookie.

    Part 1  the cookie check of [ike_nego_request] (_process_ike_sa_negotiation_request) and what the IKE_SA_INIT
            request handler / [h_request] make of it: CookieRequired with the expected value, the state untouched
            (no draw, no DH key pair, [e_dh_secret] not called), the reply body is the single COOKIE notification;
            a correct first cookie makes the armed run equal to the unarmed one.
    Part 2  binding: the accepted value is a function of (secret, SPIi, Ni, peer address) only.
    Part 3  the dispatcher: creation, arming above the threshold, answer, removal - the table is exactly the old one,
            one datagram, no kernel operation, two draws (SPI and jitter of IkeSa.__init__) and nothing else.
    Part 4  the initiator's retry: same payloads with the cookie first, Message ID 0, [init_req] refreshed - and the
            AUTH payload generated later covers exactly the refreshed octets.
    Part 5  non-vacuity on a toy environment.

    [E] (cryptography, serialisation, address packing) is arbitrary everywhere in Parts 1-4. *)
From Coq Require Import ZArith NArith Bool List Lia ZifyBool PeanoNat.
From RecordUpdate Require Import RecordSet.
From VLib Require Import Bytes.
From IkeSa Require Import Gen.IkeFacts Shell Hdl HdlAuth HdlAgree HdlNego Endpoint EndpointSad.
Import ListNotations RecordSetNotations.
Open Scope Z_scope.

(* ================================================================================================ *)
(** * Part 1. The responder's cookie check *)

Section CookieCheck.
  Variable E : env.

  (** what the keyed hash is computed over: request.spi_i + payload_nonce.nonce + self.peer_addr.packed *)
  Definition cookie_input (spi : Z) (n : bytes) (addr : Z) : bytes :=
    be_encode 8 (Z.to_N spi) ++ n ++ e_addr_packed E addr.
  (** HMAC(self.cookie_secret, ...) *)
  Definition cookie_for (sec : bytes) (spi : Z) (n : bytes) (addr : Z) : bytes := e_cookie E sec (cookie_input spi n addr).
  (** received_cookies[0].notification_data, if there is a COOKIE notification among the clear payloads *)
  Definition presented (m : pmsg body) : option bytes :=
    match get_notifies m N_COOKIE false with P_NOTIFY _ _ _ d :: _ => Some d | _ => None end.
  (** the three payloads the negotiation looks up first; [n] is the nonce of the first NONCE payload *)
  Definition has_triple (m : pmsg body) (enc : bool) (n : bytes) : Prop :=
    get_payloads m K_SA enc <> [] /\ hd_error (get_payloads m K_NONCE enc) = Some (P_NONCE n) /\
    get_payloads m K_KE enc <> [].

  Lemma presented_none m : presented m = None <-> get_notifies m N_COOKIE false = [].
  Proof.
    unfold presented. destruct (get_notifies m N_COOKIE false) as [|p r] eqn:Eg; [tauto|].
    destruct (get_notifies_shape m N_COOKIE false p) as (a & b & c & ->); [rewrite Eg; left; reflexivity|].
    split; discriminate.
  Qed.
  Lemma presented_some m d :
    presented m = Some d <-> exists a b r, get_notifies m N_COOKIE false = P_NOTIFY a N_COOKIE b d :: r.
  Proof.
    unfold presented. destruct (get_notifies m N_COOKIE false) as [|p r] eqn:Eg.
    - split; [discriminate|intros (a & b & r & Hx); discriminate Hx].
    - destruct (get_notifies_shape m N_COOKIE false p) as (a & b & c & ->); [rewrite Eg; left; reflexivity|].
      split; [intros Hx; inversion Hx; subst; eauto|intros (a' & b' & r' & Hx); inversion Hx; reflexivity].
  Qed.

  (** the code after the cookie check: _process_ike_sa_negotiation_request with the check deleted *)
  Definition nego_after_check (w : bool) (c : core) (psa pn pke : payload) (old : option bytes) : H (list payload) :=
    ch0 <- select_best (cf_prop (cfg c)) (sa_props psa) ;;
    let ch := if nonempty (pr_spi ch0) then ch0 <| pr_spi := my_spi_b c |> else ch0 in
    modw w (fun c => c <| chosen := Some ch |>) ;;;
    nr <- fresh_nonce ;;
    dht <- get_transform ch T_DH ;;
    let '(ke_g, ke_d) := ke_of pke in
    (if Z.eqb (tr_id dht) ke_g then ret tt else raise (X_InvalidKe (tr_id dht))) ;;;
    hp <- draw_dh ke_g ;;
    secret <- of_opt (e_dh_secret E ke_g (fst hp) ke_d) X_Other ;;
    gen_keys E w ch (nonce_of pn) nr (peer_spi_b c) (my_spi_b c) secret old ;;;
    ret [P_SA [ch]; P_NONCE nr; P_KE ke_g (snd hp)].
  Definition ike_nego_request_unchecked (w : bool) (m : pmsg body) (enc : bool) (old : option bytes) : H (list payload) :=
    psa <- get_payload m K_SA enc ;;
    pn <- get_payload m K_NONCE enc ;;
    pke <- get_payload m K_KE enc ;;
    c <- getw w ;;
    nego_after_check w c psa pn pke old.

  Lemma ike_nego_request_split w m enc old :
    ike_nego_request E w m enc old =
    (psa <- get_payload m K_SA enc ;; pn <- get_payload m K_NONCE enc ;; pke <- get_payload m K_KE enc ;;
     c <- getw w ;; cookie_block E m pn c ;;; nego_after_check w c psa pn pke old).
  Proof. reflexivity. Qed.

  Lemma getw_eval w s c : view w s = Some c -> getw w s = (Ok c, s).
  Proof. unfold getw, view, bind, get. destruct w; cbn; [intros ->; reflexivity|intros Hx; inversion Hx; reflexivity]. Qed.

  Lemma bind_ext {A B} (m : H A) (f g : A -> H B) s :
    (forall a s1, m s = (Ok a, s1) -> f a s1 = g a s1) -> bind m f s = bind m g s.
  Proof. intros Hfg. unfold bind. destruct (m s) as [[a| |] s1]; auto. Qed.

  Lemma hd_nonempty {A} (l : list A) : l <> [] -> exists x, hd_error l = Some x.
  Proof. destruct l as [|x r]; [intros Hx; destruct (Hx eq_refl)|intros _; exists x; reflexivity]. Qed.

  (** (1a) armed, cookie absent or different: CookieRequired carrying the expected value, the state literally
      untouched - in particular the tape (no nonce drawn, no DH key pair) and no call of [e_dh_secret] *)
  Theorem ike_nego_request_cookie_required w m enc old s c sec n :
    view w s = Some c -> cookie_secret c = Some sec -> has_triple m enc n ->
    presented m <> Some (cookie_for sec (h_spi_i (p_hdr m)) n (peer_addr c)) ->
    ike_nego_request E w m enc old s = (Raise (X_CookieRequired (cookie_for sec (h_spi_i (p_hdr m)) n (peer_addr c))), s).
  Proof.
    intros Hv Hsec (Hsa & Hn & Hke) Hbad. rewrite ike_nego_request_split.
    destruct (hd_nonempty _ Hsa) as (psa & Hpsa). destruct (hd_nonempty _ Hke) as (pke & Hpke).
    rewrite (bind_ok_eq _ _ _ _ _ (get_payload_eval m K_SA enc psa s Hpsa)).
    rewrite (bind_ok_eq _ _ _ _ _ (get_payload_eval m K_NONCE enc _ s Hn)).
    rewrite (bind_ok_eq _ _ _ _ _ (get_payload_eval m K_KE enc pke s Hpke)).
    rewrite (bind_ok_eq _ _ _ _ _ (getw_eval w s c Hv)).
    apply bind_raise_eq. unfold cookie_block. rewrite Hsec. cbn [nonce_of].
    fold (cookie_input (h_spi_i (p_hdr m)) n (peer_addr c)). fold (cookie_for sec (h_spi_i (p_hdr m)) n (peer_addr c)).
    unfold presented in Hbad. destruct (get_notifies m N_COOKIE false) as [|[] r]; try reflexivity.
    destruct (bytes_eqb data _) eqn:Eb; [|reflexivity]. apply bytes_eqb_true in Eb. subst data. destruct (Hbad eq_refl).
  Qed.

  (** (1c) armed, the first COOKIE notification carries exactly the expected value: the check passes and the
      negotiation continues exactly as the code without the check *)
  Theorem ike_nego_request_cookie_accepted w m enc old s c sec n :
    view w s = Some c -> cookie_secret c = Some sec -> has_triple m enc n ->
    presented m = Some (cookie_for sec (h_spi_i (p_hdr m)) n (peer_addr c)) ->
    ike_nego_request E w m enc old s = ike_nego_request_unchecked w m enc old s.
  Proof.
    intros Hv Hsec (Hsa & Hn & Hke) Hgood. rewrite ike_nego_request_split. unfold ike_nego_request_unchecked.
    destruct (hd_nonempty _ Hsa) as (psa & Hpsa). destruct (hd_nonempty _ Hke) as (pke & Hpke).
    rewrite !(bind_ok_eq _ _ _ _ _ (get_payload_eval m K_SA enc psa s Hpsa)).
    rewrite !(bind_ok_eq _ _ _ _ _ (get_payload_eval m K_NONCE enc _ s Hn)).
    rewrite !(bind_ok_eq _ _ _ _ _ (get_payload_eval m K_KE enc pke s Hpke)).
    rewrite !(bind_ok_eq _ _ _ _ _ (getw_eval w s c Hv)).
    rewrite (bind_ok_eq (cookie_block E m (P_NONCE n) c) _ s tt s); [reflexivity|].
    unfold cookie_block. rewrite Hsec. cbn [nonce_of].
    fold (cookie_input (h_spi_i (p_hdr m)) n (peer_addr c)). fold (cookie_for sec (h_spi_i (p_hdr m)) n (peer_addr c)).
    unfold presented in Hgood. destruct (get_notifies m N_COOKIE false) as [|[] r]; try discriminate Hgood.
    inversion Hgood; subst data. unfold bytes_eqb. destruct (list_eq_dec _ _ _) as [_|Hne]; [reflexivity|destruct (Hne eq_refl)].
  Qed.
  (** unarmed: the same code, whatever cookies the message carries *)
  Theorem ike_nego_request_unarmed w m enc old s c :
    view w s = Some c -> cookie_secret c = None ->
    ike_nego_request E w m enc old s = ike_nego_request_unchecked w m enc old s.
  Proof.
    intros Hv Hsec. rewrite ike_nego_request_split. unfold ike_nego_request_unchecked.
    apply bind_ext. intros psa s1 H1. apply get_payload_ok in H1. destruct H1 as [_ ->].
    apply bind_ext. intros pn s1 H1. apply get_payload_ok in H1. destruct H1 as [_ ->].
    apply bind_ext. intros pke s1 H1. apply get_payload_ok in H1. destruct H1 as [_ ->].
    rewrite !(bind_ok_eq _ _ _ _ _ (getw_eval w s c Hv)).
    rewrite (bind_ok_eq (cookie_block E m _ c) _ s tt s); [reflexivity|].
    unfold cookie_block. rewrite Hsec. reflexivity.
  Qed.

  (** ** the IKE_SA_INIT request handler and the reply the shell interface builds from the exception *)
  Definition cookie_reply (ck : bytes) : body := ([P_NOTIFY PROTO_NONE N_COOKIE [] ck], []).

  Theorem init_request_cookie_required m s sec n :
    st (co s) = ST_INITIAL -> cookie_secret (co s) = Some sec -> has_triple m false n ->
    presented m <> Some (cookie_for sec (h_spi_i (p_hdr m)) n (peer_addr (co s))) ->
    process_ike_sa_init_request E m s
    = (Raise (X_CookieRequired (cookie_for sec (h_spi_i (p_hdr m)) n (peer_addr (co s)))), s).
  Proof.
    intros Hst Hsec Ht Hbad. unfold process_ike_sa_init_request.
    assert (Hc : check_in_states [ST_INITIAL] s = (Ok tt, s)).
    { unfold check_in_states, bind, getc. rewrite Hst. reflexivity. }
    rewrite (bind_ok_eq _ _ _ _ _ Hc). apply bind_raise_eq.
    apply (ike_nego_request_cookie_required false m false None s (co s) sec n eq_refl Hsec Ht Hbad).
  Qed.

  (** (1b) the handler interface: the error body is exactly the COOKIE notification among the clear payloads and
      nothing encrypted; the state is the input state with the per-call flag cleared *)
  Theorem h_request_cookie_required m s sec n :
    h_exch (p_hdr m) = EX_IKE_SA_INIT ->
    st (co s) = ST_INITIAL -> cookie_secret (co s) = Some sec -> has_triple m false n ->
    presented m <> Some (cookie_for sec (h_spi_i (p_hdr m)) n (peer_addr (co s))) ->
    h_request E s m = (clear_flags s, HErr (cookie_reply (cookie_for sec (h_spi_i (p_hdr m)) n (peer_addr (co s))))).
  Proof.
    intros Hex Hst Hsec Ht Hbad. unfold h_request. rewrite Hex.
    change (request_handler E EX_IKE_SA_INIT) with (Some (process_ike_sa_init_request E)). cbv iota beta.
    rewrite (init_request_cookie_required m (clear_flags s) sec n Hst Hsec Ht Hbad). reflexivity.
  Qed.


  (** a request lacking SA, NONCE or KE never reaches the cookie check (the cookie cannot even be computed without
      the nonce): PayloadNotFound, the state untouched - equally no draw and no DH - and a single INVALID_SYNTAX
      notification as the reply *)
  Theorem ike_nego_request_malformed w m enc old s :
    get_payloads m K_SA enc = [] \/ get_payloads m K_NONCE enc = [] \/ get_payloads m K_KE enc = [] ->
    ike_nego_request E w m enc old s = (Raise X_PayloadNotFound, s).
  Proof.
    intros Hm. unfold ike_nego_request, get_payload.
    destruct (get_payloads m K_SA enc) as [|psa r1]; [reflexivity|].
    destruct (get_payloads m K_NONCE enc) as [|pn r2]; [reflexivity|].
    destruct (get_payloads m K_KE enc) as [|pke r3]; [reflexivity|].
    destruct Hm as [Hm|[Hm|Hm]]; discriminate Hm.
  Qed.
  Theorem h_request_malformed m s :
    h_exch (p_hdr m) = EX_IKE_SA_INIT -> st (co s) = ST_INITIAL ->
    get_payloads m K_SA false = [] \/ get_payloads m K_NONCE false = [] \/ get_payloads m K_KE false = [] ->
    h_request E s m = (clear_flags s, HErr ([P_NOTIFY PROTO_NONE N_INVALID_SYNTAX [] []], [])).
  Proof.
    intros Hex Hst Hm. unfold h_request. rewrite Hex.
    change (request_handler E EX_IKE_SA_INIT) with (Some (process_ike_sa_init_request E)). cbv iota beta.
    unfold process_ike_sa_init_request.
    assert (Hc : check_in_states [ST_INITIAL] (clear_flags s) = (Ok tt, clear_flags s)).
    { unfold check_in_states, bind, getc. cbn [co clear_flags set st]. rewrite Hst. reflexivity. }
    rewrite (bind_ok_eq _ _ _ _ _ Hc).
    rewrite (bind_raise_eq _ _ _ _ _ (ike_nego_request_malformed false m false None (clear_flags s) Hm)). reflexivity.
  Qed.

  (** ** armed with the right cookie = unarmed, state by state *)
  Definition disarm_core (c : core) : core := c <| cookie_secret := None |>.
  Definition disarm (w : bool) (s : isa) : isa := upd w disarm_core s.
  Definition commutes (w : bool) {A} (K : H A) : Prop := forall s, K (disarm w s) = (fst (K s), disarm w (snd (K s))).

  Lemma com_const w {A} (K : H A) r : (forall s, K s = (r, s)) -> commutes w K.
  Proof. intros Hk s. rewrite !Hk. reflexivity. Qed.
  Lemma com_bind w {A B} (m : H A) (f : A -> H B) : commutes w m -> (forall a, commutes w (f a)) -> commutes w (bind m f).
  Proof.
    intros Hm Hf s. unfold bind. rewrite (Hm s). destruct (m s) as [[a| |] s1]; cbn [fst snd]; try reflexivity. apply Hf.
  Qed.
  Lemma com_pop w : commutes w pop.
  Proof. intros s. unfold pop, disarm, upd. destruct w; cbn; destruct (tape s); reflexivity. Qed.
  Lemma com_modw w f : (forall c, f (disarm_core c) = disarm_core (f c)) -> commutes w (modw w f).
  Proof.
    intros Hf s. unfold modw, modc, modify, disarm, upd. destruct w; cbn [fst snd].
    - f_equal. destruct s as [c0 [n0|] rp nw tp ko]; cbn; [rewrite Hf|]; reflexivity.
    - f_equal. destruct s as [c0 n0 rp nw tp ko]; cbn. rewrite Hf. reflexivity.
  Qed.
  Lemma com_draw_num w : commutes w draw_num.
  Proof. apply com_bind; [apply com_pop|]. intros []; try (apply com_const with (r := Stuck); intros s; reflexivity).
         apply com_const with (r := Ok z). intros s; reflexivity. Qed.
  Lemma com_draw_bytes w : commutes w draw_bytes.
  Proof. apply com_bind; [apply com_pop|]. intros []; try (apply com_const with (r := Stuck); intros s; reflexivity).
         apply com_const with (r := Ok b). intros s; reflexivity. Qed.
  Lemma com_draw_dh w g : commutes w (draw_dh g).
  Proof.
    apply com_bind; [apply com_pop|]. intros []; try (apply com_const with (r := Stuck); intros s; reflexivity).
    - destruct (Z.eqb g g0); [apply com_const with (r := Ok (h, pub))|apply com_const with (r := Stuck)]; intros s; reflexivity.
    - destruct (Z.eqb g g0); [apply com_const with (r := Raise X_Other)|apply com_const with (r := Stuck)]; intros s; reflexivity.
  Qed.

  Lemma nego_after_check_commutes w c psa pn pke old : commutes w (nego_after_check w c psa pn pke old).
  Proof.
    unfold nego_after_check. apply com_bind.
    { unfold select_best. destruct (flat_map _ _); [eapply com_const|eapply com_const]; intros s; reflexivity. }
    intros ch0. apply com_bind; [apply com_modw; intros c0; reflexivity|]. intros _.
    apply com_bind; [unfold fresh_nonce; apply com_bind; [apply com_draw_num|intros _; apply com_draw_bytes]|]. intros nr.
    apply com_bind. { unfold get_transform. destruct (get_transforms _ _); eapply com_const; intros s; reflexivity. }
    intros dht. destruct (ke_of pke) as [ke_g ke_d].
    apply com_bind. { destruct (Z.eqb _ _); eapply com_const; intros s; reflexivity. }
    intros _. apply com_bind; [apply com_draw_dh|]. intros hp.
    apply com_bind. { destruct (e_dh_secret _ _ _ _); eapply com_const; intros s; reflexivity. }
    intros secret. apply com_bind.
    { unfold gen_keys. destruct (e_ike_keys _ _ _ _ _ _ _ _); [apply com_modw; intros c0; reflexivity|].
      eapply com_const; intros s; reflexivity. }
    intros _. eapply com_const; intros s; reflexivity.
  Qed.

  Lemma unchecked_disarm w m enc old s c :
    view w s = Some c ->
    ike_nego_request_unchecked w m enc old (disarm w s)
    = (fst (ike_nego_request_unchecked w m enc old s), disarm w (snd (ike_nego_request_unchecked w m enc old s))).
  Proof.
    intros Hv. unfold ike_nego_request_unchecked, get_payload.
    destruct (get_payloads m K_SA enc) as [|psa r1]; [reflexivity|].
    destruct (get_payloads m K_NONCE enc) as [|pn r2]; [reflexivity|].
    destruct (get_payloads m K_KE enc) as [|pke r3]; [reflexivity|].
    cbn [bind ret].
    assert (Hv' : view w (disarm w s) = Some (disarm_core c)) by (unfold disarm; rewrite view_upd, Hv; reflexivity).
    rewrite (bind_ok_eq _ _ _ _ _ (getw_eval w _ _ Hv')), (bind_ok_eq _ _ _ _ _ (getw_eval w _ _ Hv)).
    change (nego_after_check w (disarm_core c) psa pn pke old) with (nego_after_check w c psa pn pke old).
    apply nego_after_check_commutes.
  Qed.

  (** (1c') the run on the armed state with the right cookie and the run on the same state with the cookie secret
      removed give the same result, and final states that differ only in the cookie secret *)
  Theorem ike_nego_request_armed_eq_unarmed w m enc old s c sec n :
    view w s = Some c -> cookie_secret c = Some sec -> has_triple m enc n ->
    presented m = Some (cookie_for sec (h_spi_i (p_hdr m)) n (peer_addr c)) ->
    ike_nego_request E w m enc old (disarm w s)
    = (fst (ike_nego_request E w m enc old s), disarm w (snd (ike_nego_request E w m enc old s))).
  Proof.
    intros Hv Hsec Ht Hgood.
    rewrite (ike_nego_request_cookie_accepted w m enc old s c sec n Hv Hsec Ht Hgood).
    assert (Hv' : view w (disarm w s) = Some (disarm_core c)) by (unfold disarm; rewrite view_upd, Hv; reflexivity).
    rewrite (ike_nego_request_unarmed w m enc old (disarm w s) (disarm_core c) Hv' eq_refl).
    apply (unchecked_disarm w m enc old s c Hv).
  Qed.
End CookieCheck.


(* ================================================================================================ *)
(** * Part 2. Binding *)

Lemma app_inj_length {A} (a a' b b' : list A) : length a = length a' -> a ++ b = a' ++ b' -> a = a' /\ b = b'.
Proof.
  revert a'. induction a as [|x r IH]; intros [|y r'] Hl He; cbn in *; try discriminate; [auto|].
  injection He as -> He. injection Hl as Hl. destruct (IH r' Hl He) as [-> ->]. auto.
Qed.

Section Binding.
  Variable E : env.

  (** acceptance = the handler did not answer CookieRequired.  (2a) An armed responder accepts only a request whose
      FIRST COOKIE notification is the keyed hash of this request's SPIi, this request's nonce and the address the
      request came from *)
  Theorem accepted_cookie_is_expected w m enc old s c sec n r s' :
    view w s = Some c -> cookie_secret c = Some sec -> has_triple m enc n ->
    ike_nego_request E w m enc old s = (r, s') -> (forall ck, r <> Raise (X_CookieRequired ck)) ->
    presented m = Some (cookie_for E sec (h_spi_i (p_hdr m)) n (peer_addr c)).
  Proof.
    intros Hv Hsec Ht Hrun Hacc.
    assert (Hdec : forall a b : option bytes, a = b \/ a <> b).
    { intros [a|] [b|]; try (right; discriminate); [|left; reflexivity].
      destruct (list_eq_dec N.eq_dec a b) as [->|Hne]; [left; reflexivity|right; intros Hx; inversion Hx; auto]. }
    destruct (Hdec (presented m) (Some (cookie_for E sec (h_spi_i (p_hdr m)) n (peer_addr c)))) as [Heq|Hne]; [exact Heq|].
    rewrite (ike_nego_request_cookie_required E w m enc old s c sec n Hv Hsec Ht Hne) in Hrun.
    inversion Hrun; subst r. destruct (Hacc _ eq_refl).
  Qed.

  (** (2b) a cookie issued for (spi0, n0, addr0) - the value the responder sends by [ike_nego_request_cookie_required] -
      and presented with another SPI, nonce or source address is accepted only if the keyed hash collides *)
  Theorem replayed_cookie_accepted_only_on_collision w m enc old s c sec n r s' spi0 n0 addr0 :
    view w s = Some c -> cookie_secret c = Some sec -> has_triple m enc n ->
    presented m = Some (cookie_for E sec spi0 n0 addr0) ->
    ike_nego_request E w m enc old s = (r, s') -> (forall ck, r <> Raise (X_CookieRequired ck)) ->
    e_cookie E sec (cookie_input E spi0 n0 addr0) = e_cookie E sec (cookie_input E (h_spi_i (p_hdr m)) n (peer_addr c)).
  Proof.
    intros Hv Hsec Ht Hp Hrun Hacc.
    pose proof (accepted_cookie_is_expected w m enc old s c sec n r s' Hv Hsec Ht Hrun Hacc) as Hx.
    rewrite Hp in Hx. injection Hx as Hx. exact Hx.
  Qed.

  (** the hashed string determines its three parts when the nonces have equal lengths (the SPI part always has 8 bytes) *)
  Lemma cookie_input_inj spi n addr spi' n' addr' :
    length n = length n' -> cookie_input E spi n addr = cookie_input E spi' n' addr' ->
    be_encode 8 (Z.to_N spi) = be_encode 8 (Z.to_N spi') /\ n = n' /\ e_addr_packed E addr = e_addr_packed E addr'.
  Proof.
    intros Hl He. unfold cookie_input in He.
    apply app_inj_length in He; [|rewrite !be_encode_length; reflexivity]. destruct He as [H1 He].
    apply app_inj_length in He; [|exact Hl]. tauto.
  Qed.
  (** ... or when the packed addresses have equal lengths (same address family) *)
  Lemma cookie_input_inj_family spi n addr spi' n' addr' :
    length (e_addr_packed E addr) = length (e_addr_packed E addr') -> cookie_input E spi n addr = cookie_input E spi' n' addr' ->
    be_encode 8 (Z.to_N spi) = be_encode 8 (Z.to_N spi') /\ n = n' /\ e_addr_packed E addr = e_addr_packed E addr'.
  Proof.
    intros Hl He. apply cookie_input_inj; [|exact He]. apply (f_equal (@length N)) in He. unfold cookie_input in He.
    rewrite !app_length, !be_encode_length in He. lia.
  Qed.
  Lemma spi_bytes_inj spi spi' :
    0 <= spi < 2 ^ 64 -> 0 <= spi' < 2 ^ 64 -> be_encode 8 (Z.to_N spi) = be_encode 8 (Z.to_N spi') -> spi = spi'.
  Proof.
    intros H1 H2 He. apply (f_equal be_decode) in He.
    rewrite !be_decode_encode in He by (change (256 ^ N.of_nat 8)%N with (Z.to_N (2 ^ 64)); lia). lia.
  Qed.

  (** (2c) with a keyed hash that does not collide on the two strings, acceptance of a replayed cookie means: same
      SPI, same nonce, same packed source address *)
  Theorem replayed_cookie_binding w m enc old s c sec n r s' spi0 n0 addr0 :
    view w s = Some c -> cookie_secret c = Some sec -> has_triple m enc n ->
    presented m = Some (cookie_for E sec spi0 n0 addr0) ->
    ike_nego_request E w m enc old s = (r, s') -> (forall ck, r <> Raise (X_CookieRequired ck)) ->
    (* no collision of the keyed hash on these two inputs *)
    (e_cookie E sec (cookie_input E spi0 n0 addr0) = e_cookie E sec (cookie_input E (h_spi_i (p_hdr m)) n (peer_addr c)) ->
     cookie_input E spi0 n0 addr0 = cookie_input E (h_spi_i (p_hdr m)) n (peer_addr c)) ->
    (length n0 = length n \/ length (e_addr_packed E addr0) = length (e_addr_packed E (peer_addr c))) ->
    be_encode 8 (Z.to_N spi0) = be_encode 8 (Z.to_N (h_spi_i (p_hdr m))) /\ n0 = n /\
    e_addr_packed E addr0 = e_addr_packed E (peer_addr c) /\
    (0 <= spi0 < 2 ^ 64 -> 0 <= h_spi_i (p_hdr m) < 2 ^ 64 -> spi0 = h_spi_i (p_hdr m)).
  Proof.
    intros Hv Hsec Ht Hp Hrun Hacc Hnc Hlen.
    pose proof (Hnc (replayed_cookie_accepted_only_on_collision w m enc old s c sec n r s' spi0 n0 addr0 Hv Hsec Ht Hp Hrun Hacc)) as Hi.
    assert (Hx : be_encode 8 (Z.to_N spi0) = be_encode 8 (Z.to_N (h_spi_i (p_hdr m))) /\ n0 = n /\
                 e_addr_packed E addr0 = e_addr_packed E (peer_addr c)).
    { destruct Hlen as [Hl|Hl]; [apply cookie_input_inj|apply cookie_input_inj_family]; assumption. }
    destruct Hx as (H1 & H2 & H3). repeat split; try assumption. intros R1 R2. apply spi_bytes_inj; assumption.
  Qed.
End Binding.

(* ================================================================================================ *)
(** * Part 4. The initiator's retry *)

Definition ob_ireq (s : isa) : option amsg * conf := (init_req (co s), cfg (co s)).

Section Retry.
  Variable E : env.
  Notation P := (hdl_iface E).

  (** the state after the COOKIE branch of process_ike_sa_init_response: self.request with the notification inserted
      first, ike_sa_init_req_data re-serialised from it (Message ID 0), my_msg_id = 0 *)
  Definition retry_state (s : isa) (ck : payload) (ex : Z) (ps : list payload) : isa :=
    s <| co := (co s) <| request := Some (ex, ck :: ps) |>
                      <| init_req := Some (hdr_of (co s) ex false 0, body_of ex (ck :: ps)) |>
                      <| my_msg_id_reset := true |> |>.

  (** (4a) *)
  Theorem init_response_cookie_retry m s ex ps ck rest :
    st (co s) = ST_INIT_REQ_SENT -> request (co s) = Some (ex, ps) ->
    get_notifies m N_INVALID_KE_PAYLOAD false = [] -> get_notifies m N_COOKIE false = ck :: rest ->
    process_ike_sa_init_response E m s = (Ok (Some (ex, ck :: ps)), retry_state s ck ex ps).
  Proof.
    intros Hst Hreq Hke Hck. unfold process_ike_sa_init_response.
    assert (Hc : check_in_states [ST_INIT_REQ_SENT] s = (Ok tt, s)).
    { unfold check_in_states, bind, getc. rewrite Hst. reflexivity. }
    rewrite (bind_ok_eq _ _ _ _ _ Hc). rewrite Hke, Hck.
    unfold bind, getc, of_opt, modc, modify, ret. rewrite Hreq. reflexivity.
  Qed.

  Corollary init_response_cookie_retry_fields m s ps ck rest :
    st (co s) = ST_INIT_REQ_SENT -> request (co s) = Some (EX_IKE_SA_INIT, ps) ->
    get_notifies m N_INVALID_KE_PAYLOAD false = [] -> get_notifies m N_COOKIE false = ck :: rest ->
    let r := process_ike_sa_init_response E m s in
    fst r = Ok (Some (EX_IKE_SA_INIT, ck :: ps)) /\
    request (co (snd r)) = Some (EX_IKE_SA_INIT, ck :: ps) /\
    init_req (co (snd r)) = Some (hdr_of (co s) EX_IKE_SA_INIT false 0, (ck :: ps, [])) /\
    h_id (hdr_of (co s) EX_IKE_SA_INIT false 0) = 0 /\
    my_msg_id_reset (co (snd r)) = true /\
    st (co (snd r)) = ST_INIT_REQ_SENT /\ tape (snd r) = tape s /\ kops (snd r) = kops s /\ dh (co (snd r)) = dh (co s).
  Proof.
    intros Hst Hreq Hke Hck r. unfold r. rewrite (init_response_cookie_retry m s _ ps ck rest Hst Hreq Hke Hck).
    cbn. repeat split; auto.
  Qed.

  (** the handler interface: follow-up request, "reset my_msg_id" reported to the shell *)
  Theorem h_response_cookie_retry m s ps ck rest :
    h_exch (p_hdr m) = EX_IKE_SA_INIT ->
    st (co s) = ST_INIT_REQ_SENT -> request (co s) = Some (EX_IKE_SA_INIT, ps) ->
    get_notifies m N_INVALID_KE_PAYLOAD false = [] -> get_notifies m N_COOKIE false = ck :: rest ->
    h_response E s m = (retry_state (clear_flags s) ck EX_IKE_SA_INIT ps, ROk (Some (EX_IKE_SA_INIT, (ck :: ps, []))) true).
  Proof.
    intros Hex Hst Hreq Hke Hck. unfold h_response. rewrite Hex.
    change (response_handler E EX_IKE_SA_INIT) with (Some (process_ike_sa_init_response E)). cbv iota beta.
    rewrite (init_response_cookie_retry m (clear_flags s) EX_IKE_SA_INIT ps ck rest Hst Hreq Hke Hck). reflexivity.
  Qed.

  (** the shell: the retry goes out with Message ID 0, the identical payloads with the cookie placed first, and is
      what will be retransmitted *)
  Theorem process_response_cookie_retry (s : sa P) m tnow ps ck rest :
    h_id (p_hdr m) = my_id P s -> h_exch (p_hdr m) = EX_IKE_SA_INIT ->
    st (co (inner P s)) = ST_INIT_REQ_SENT -> request (co (inner P s)) = Some (EX_IKE_SA_INIT, ps) ->
    get_notifies m N_INVALID_KE_PAYLOAD false = [] -> get_notifies m N_COOKIE false = ck :: rest ->
    let d := mk_dgram (mk_hdr (spi_i P s) (spi_r P s) GEN_MAJOR GEN_MINOR EX_IKE_SA_INIT false (is_init P s) 0)
                      (ck :: ps, []) in
    let r := process_response P s m tnow in
    snd r = Some d /\ req_data P (fst r) = Some d /\ my_id P (fst r) = 0 /\
    inner P (fst r) = retry_state (clear_flags (inner P s)) ck EX_IKE_SA_INIT ps.
  Proof.
    intros Hid Hex Hst Hreq Hke Hck d r. unfold r, d, process_response. change (B P) with body. cbv zeta.
    unfold res_id_unexpected. rewrite Hid, Z.eqb_refl. cbn [negb]. rewrite Hex.
    change (negb (existsb (Z.eqb EX_IKE_SA_INIT) response_exchanges)) with false. cbv iota.
    change (handle_response P) with (h_response E). cbn [inner set_my_id].
    rewrite (h_response_cookie_retry m (inner P s) ps ck rest Hex Hst Hreq Hke Hck).
    cbn. repeat split; reflexivity.
  Qed.
  (** ... and it is, field by field, the message stored for the AUTH computation (for an IkeSa whose shell fields
      agree with its core, as every IkeSa the controller creates does) *)
  Corollary retry_datagram_is_stored_init_req (s : sa P) m tnow ps ck rest :
    is_init P s = c_init (co (inner P s)) -> my_spi P s = spiZ (my_spi_b (co (inner P s))) ->
    h_id (p_hdr m) = my_id P s -> h_exch (p_hdr m) = EX_IKE_SA_INIT ->
    st (co (inner P s)) = ST_INIT_REQ_SENT -> request (co (inner P s)) = Some (EX_IKE_SA_INIT, ps) ->
    get_notifies m N_INVALID_KE_PAYLOAD false = [] -> get_notifies m N_COOKIE false = ck :: rest ->
    let r := process_response P s m tnow in
    exists d, snd r = Some d /\ init_req (co (inner P (fst r))) = Some (d_hdr d, d_body d).
  Proof.
    intros Hi Hspi Hid Hex Hst Hreq Hke Hck r.
    destruct (process_response_cookie_retry s m tnow ps ck rest Hid Hex Hst Hreq Hke Hck) as (Hd & _ & _ & Hin).
    fold r in Hd, Hin. eexists. split; [exact Hd|]. rewrite Hin. cbn.
    unfold hdr_of, spi_i_of, spi_r_of, spi_i, spi_r, peer_spi. cbn. rewrite Hi, Hspi.
    destruct (c_init (co (inner P s))); reflexivity.
  Qed.

  (** ** what the AUTH payload of the IKE_AUTH request covers *)
  (** [auth_over a cp octets pa]: [pa] is the AUTH payload _generate_auth_payload builds over [octets] *)
  Definition auth_over (a : authc) (cp : proposal) (octets : bytes) (pa : payload) : Prop :=
    pa = P_AUTH AUTH_RSA (e_sign E octets) \/
    exists psk, a_psk a = Some psk /\ pa = P_AUTH AUTH_PSK (psk_auth E cp psk octets).

  Lemma gen_auth_over msgdata nonce idt idd skp pa s s' :
    gen_auth E msgdata nonce idt idd skp s = (Ok pa, s') ->
    exists cp, cprop (co s) = Some cp /\
               auth_over (cf_my_auth (cfg (co s))) cp (msgdata ++ nonce ++ e_prf E cp skp (id_bytes idt idd)) pa.
  Proof.
    unfold gen_auth. intros Hx. bpure Hx c Hc getc_ok. subst c. bpure Hx cp Hp of_opt_ok. exists cp. split; [exact Hp|].
    unfold signed_octets in Hx. destruct (a_priv _).
    - apply ret_ok in Hx. destruct Hx as [-> _]. left. reflexivity.
    - destruct (truthy _) eqn:Et; [|apply raise_ok in Hx; tauto]. apply ret_ok in Hx. destruct Hx as [-> _].
      right. destruct (a_psk _) as [k|]; [|discriminate Et]. exists k. split; reflexivity.
  Qed.

  (** (4b) generate_ike_auth_request signs the serialisation of exactly the stored [init_req] *)
  Theorem generate_ike_auth_request_signs s r s' msg :
    generate_ike_auth_request E s = (Ok r, s') -> init_req (co s) = Some msg ->
    exists cps pa cp nonce_r skp,
      r = (EX_IKE_AUTH, cps ++ [P_IDi (a_id_type (cf_my_auth (cfg (co s)))) (a_id_data (cf_my_auth (cfg (co s)))); pa]) /\
      cprop (co s) = Some cp /\
      auth_over (cf_my_auth (cfg (co s))) cp
                (e_ser E msg ++ nonce_r
                 ++ e_prf E cp skp (id_bytes (a_id_type (cf_my_auth (cfg (co s)))) (a_id_data (cf_my_auth (cfg (co s)))))) pa.
  Proof.
    unfold generate_ike_auth_request. intros Hx Hmsg.
    bpure Hx u0 Hst assert_state_ok. bpure Hx c Hc getc_ok. subst c. bpure Hx cr Hcr of_opt_ok.
    binv Hx cps sB Hg. binv Hx nr s2 Hn. apply amsg_nonce_ok in Hn. destruct Hn as [_ ->].
    binv Hx rqd s2 Hs. rewrite Hmsg in Hs. apply ret_ok in Hs. destruct Hs as [-> ->].
    binv Hx skp s2 Hk. apply my_sk_p_pure in Hk. subst s2.
    binv Hx pa s2 Ha. apply gen_auth_over in Ha. destruct Ha as (cp & Hcp & Hov).
    binv Hx rr s3 Hr. apply set_request_ok in Hr. destruct Hr as [-> _].
    bupd Hx set_state_ok. apply ret_ok in Hx. destruct Hx as [-> _].
    assert (Hsame : cprop (co sB) = cprop (co s) /\ cfg (co sB) = cfg (co s)).
    { destruct (gen_child_nego_req_ok _ _ _ _ Hg) as [(_ & -> & _)|(t & rest & h & pub & r0 & _ & _ & -> & _)]; cbn; auto. }
    destruct Hsame as [H1 H2]. rewrite H1 in Hcp. rewrite H2 in Hov.
    exists cps, pa, cp, nr, skp. split; [reflexivity|]. split; [exact Hcp|exact Hov].
  Qed.

  Lemma ike_nego_response_ireq m n enc old : keeps ob_ireq (ike_nego_response E false m n enc old).
  Proof. unfold ike_nego_response. keeps_go. Qed.

  (** the normal branch of process_ike_sa_init_response: the IKE_AUTH request it returns is authenticated over the
      [init_req] stored at that moment *)
  Theorem init_response_auth_covers_stored m s r s' msg :
    get_notifies m N_INVALID_KE_PAYLOAD false = [] -> get_notifies m N_COOKIE false = [] ->
    process_ike_sa_init_response E m s = (Ok (Some r), s') -> init_req (co s) = Some msg ->
    exists cps pa cp nonce_r skp idt idd,
      r = (EX_IKE_AUTH, cps ++ [P_IDi idt idd; pa]) /\
      idt = a_id_type (cf_my_auth (cfg (co s))) /\ idd = a_id_data (cf_my_auth (cfg (co s))) /\
      auth_over (cf_my_auth (cfg (co s))) cp (e_ser E msg ++ nonce_r ++ e_prf E cp skp (id_bytes idt idd)) pa.
  Proof.
    intros Hke Hck Hx Hmsg. unfold process_ike_sa_init_response in Hx.
    bpure Hx u0 Hst check_in_states_ok. rewrite Hke, Hck in Hx.
    binv Hx u1 s1 Ha. unfold abort_on_error_notifies in Ha. apply nguard_ok in Ha. destruct Ha as [_ ->].
    bpure Hx c Hc getc_ok. subst c. bpure Hx req Hreq of_opt_ok. bpure Hx pn Hpn req_get_ok.
    binv Hx u2 s2 Hn. pose proof (ike_nego_response_ireq m (nonce_of pn) false None s) as Hkeep.
    rewrite Hn in Hkeep. cbn [snd] in Hkeep. unfold ob_ireq in Hkeep. injection Hkeep as Hkeep Hcfg.
    bupd Hx modc_ok. binv Hx r1 s3 Hg. apply ret_ok in Hx. destruct Hx as [Hr _]. inversion Hr; subst r1.
    eapply generate_ike_auth_request_signs in Hg; [|cbn; rewrite Hkeep; exact Hmsg].
    destruct Hg as (cps & pa & cp & nr & skp & -> & _ & Hov). cbn in Hov. rewrite Hcfg in Hov.
    exists cps, pa, cp, nr, skp. eexists. eexists. split; [cbn; rewrite Hcfg; reflexivity|]. split; [reflexivity|].
    split; [reflexivity|exact Hov].
  Qed.

  (** (4c) the clause a seeded regression broke (not refreshing ike_sa_init_req_data in the COOKIE branch): after a
      COOKIE retry, when the real response arrives - in any later state of the same IkeSa whose stored request octets
      are the ones the retry stored - the AUTH payload of the IKE_AUTH request covers the serialisation of the request
      WITH the cookie (Message ID 0, the cookie first, then the original payloads), i.e. the request the responder
      accepted and will verify the AUTH payload against *)
  Theorem cookie_retry_then_auth_covers_retried_request m1 s ps ck rest m2 s1 r2 s2 :
    st (co s) = ST_INIT_REQ_SENT -> request (co s) = Some (EX_IKE_SA_INIT, ps) ->
    get_notifies m1 N_INVALID_KE_PAYLOAD false = [] -> get_notifies m1 N_COOKIE false = ck :: rest ->
    init_req (co s1) = init_req (co (snd (process_ike_sa_init_response E m1 s))) ->
    get_notifies m2 N_INVALID_KE_PAYLOAD false = [] -> get_notifies m2 N_COOKIE false = [] ->
    process_ike_sa_init_response E m2 s1 = (Ok (Some r2), s2) ->
    exists cps pa cp nonce_r skp idt idd,
      r2 = (EX_IKE_AUTH, cps ++ [P_IDi idt idd; pa]) /\
      auth_over (cf_my_auth (cfg (co s1))) cp
                (e_ser E (hdr_of (co s) EX_IKE_SA_INIT false 0, (ck :: ps, [])) ++ nonce_r
                 ++ e_prf E cp skp (id_bytes idt idd)) pa.
  Proof.
    intros Hst Hreq Hke1 Hck1 Hsame Hke2 Hck2 Hx.
    rewrite (init_response_cookie_retry m1 s _ ps ck rest Hst Hreq Hke1 Hck1) in Hsame. cbn in Hsame.
    destruct (init_response_auth_covers_stored m2 s1 r2 s2 _ Hke2 Hck2 Hx Hsame)
      as (cps & pa & cp & nr & skp & idt & idd & -> & _ & _ & Hov).
    exists cps, pa, cp, nr, skp, idt, idd. split; [reflexivity|exact Hov].
  Qed.
End Retry.

(* ================================================================================================ *)
(** * Part 3. The dispatcher under load *)

Section Dispatch.
  Variable E : env.
  Notation P := (hdl_iface E).
  Notation esa := (Endpoint.esa E).
  Notation endpoint := (Endpoint.endpoint E).

  (** the handler-owned part of IkeSa(is_initiator, peer_spi, configuration, my_addr, peer_addr) built at time [tnow]
      with the two draws of __init__: [spi] (os.urandom(8)) and [j] (random.uniform(0, 5)) *)
  Definition fresh_core (ii : bool) (cf : conf) (my peer : Z) (pspi spi : bytes) (j tnow : Z) : core :=
    mk_core ST_INITIAL ii spi pspi my peer cf None None None [] None None None None None None None None
            (tnow + cf_dpd cf) (tnow + cf_life cf + j) (tnow + cf_life cf + j + DELETE_AFTER) false.

  Lemma create_eval (ep : endpoint) ii pspi cf my peer spi j rest :
    ep_tape E ep = D_bytes spi :: D_num j :: rest ->
    create E ep ii pspi cf my peer
    = Some (mk_ep E (table E ep ++ [(next_cid E ep, sa_of_core E (fresh_core ii cf my peer pspi spi j (ep_now E ep)))])
                  (S (next_cid E ep)) (confs E ep) (ep_cookie_secret E ep) rest (ep_now E ep) (ep_kops E ep)
                  (ep_sent E ep) (ep_routed E ep) (ep_status E ep),
            next_cid E ep, sa_of_core E (fresh_core ii cf my peer pspi spi j (ep_now E ep))).
  Proof. intros Ht. unfold create. rewrite Ht. reflexivity. Qed.

  (** [create] consumes exactly two draws: D_bytes (the SPI) and D_num (the jitter); in particular no D_dh *)
  Lemma create_draws (ep : endpoint) ii pspi cf my peer ep0 cid (s0 : esa) :
    create E ep ii pspi cf my peer = Some (ep0, cid, s0) ->
    exists spi j, ep_tape E ep = D_bytes spi :: D_num j :: ep_tape E ep0 /\
                  s0 = sa_of_core E (fresh_core ii cf my peer pspi spi j (ep_now E ep)).
  Proof.
    intros Hc. destruct (ep_tape E ep) as [|[spi| | | |] [|[|j| | |] rest]] eqn:Ht;
      try (unfold create in Hc; rewrite Ht in Hc; discriminate Hc).
    rewrite (create_eval ep ii pspi cf my peer spi j rest Ht) in Hc. inversion Hc. exists spi, j. split; reflexivity.
  Qed.

  Lemma halfopen_snoc t cid (s : esa) :
    halfopen E (t ++ [(cid, s)]) = halfopen E t + (if Z.ltb (state P s) ST_ESTABLISHED then 1 else 0).
  Proof.
    unfold halfopen. rewrite filter_app, app_length, Nat2Z.inj_add. f_equal. cbn [filter snd].
    destruct (Z.ltb (state P s) ST_ESTABLISHED); reflexivity.
  Qed.
  (** the count the controller compares with the threshold includes the entry just created *)
  Lemma halfopen_created (ep : endpoint) ii pspi cf my peer ep0 cid (s0 : esa) :
    create E ep ii pspi cf my peer = Some (ep0, cid, s0) -> halfopen E (table E ep0) = halfopen E (table E ep) + 1.
  Proof.
    intros Hc. destruct (create_facts E _ _ _ _ _ _ _ _ _ Hc) as (_ & Ht & _ & _ & _ & _ & Hst).
    rewrite Ht, halfopen_snoc. unfold state. cbn [istate hdl_iface]. rewrite Hst. reflexivity.
  Qed.

  (** the reply datagram: response header stamped for the request, the COOKIE notification as the only payload *)
  Definition cookie_datagram (spi_i spi_r : Z) (mid : Z) (ck : bytes) : dgram body :=
    mk_dgram (mk_hdr spi_i spi_r GEN_MAJOR GEN_MINOR EX_IKE_SA_INIT true false mid) (cookie_reply ck).

  (** the shell on a fresh responder IkeSa whose cookie secret is armed *)
  Lemma process_message_cookie_required (s : sa P) m tnow sec n :
    is_init P s = false -> peer_id P s = 0 ->
    h_init (p_hdr m) = true -> h_resp (p_hdr m) = false -> h_exch (p_hdr m) = EX_IKE_SA_INIT -> h_id (p_hdr m) = 0 ->
    st (co (inner P s)) = ST_INITIAL -> cprop (co (inner P s)) = None -> cookie_secret (co (inner P s)) = Some sec ->
    has_triple m false n ->
    presented m <> Some (cookie_for E sec (h_spi_i (p_hdr m)) n (peer_addr (co (inner P s)))) ->
    let d := cookie_datagram (spiZ (peer_spi_b (co (inner P s)))) (my_spi P s) 0
                             (cookie_for E sec (h_spi_i (p_hdr m)) n (peer_addr (co (inner P s)))) in
    process_message P s m tnow
    = (mk_sa P ((clear_flags (inner P s)) <| co := (co (clear_flags (inner P s))) <| st := ST_DELETED |> |>)
             false (my_spi P s) (my_id P s) 1 (Some d) (req_data P s) (rt_at P s) (rt_n P s) (tnow + dpd_cfg P s)
             (rek_at P s) (del_at P s) (dpd_cfg P s) (pending P s), Some d).
  Proof.
    intros Hi Hpid Hini Hresp Hex Hid Hst Hcp Hsec Ht Hbad d.
    unfold process_message. change (B P) with body. cbv zeta.
    unfold process_message_decision. rewrite Hini, Hi, Hex, Hresp.
    change (has_keys P (inner P s)) with (match cprop (co (inner P s)) with Some _ => true | None => false end).
    rewrite Hcp. cbn [Bool.eqb negb andb Z.eqb EX_IKE_SA_INIT Pos.eqb].
    rewrite Hid, Hpid. change (Z.eqb 0 0) with true. cbv iota.
    unfold process_request. change (B P) with body. cbv zeta. cbn [p_hdr peer_id my_id set_dpd_at inner].
    rewrite Hid, Hpid, Hex.
    change (req_is_retransmission 0 0 (my_id P s)) with false. change (req_id_unexpected 0 0 (my_id P s)) with false.
    change (negb (existsb (Z.eqb EX_IKE_SA_INIT) request_exchanges)) with false. cbv iota.
    change (handle_request P) with (h_request E).
    rewrite (h_request_cookie_required E m (inner P s) sec n Hex Hst Hsec Ht Hbad).
    unfold d, cookie_datagram, stamp_response, spi_i, spi_r, peer_spi, with_state, with_inner. cbn. rewrite Hi, Hpid. reflexivity.
  Qed.

  Lemma remove_snoc_fresh (t : list (nat * esa)) cid (s0 : esa) :
    (forall x, In x t -> fst x <> cid) -> remove_cid E (t ++ [(cid, s0)]) cid = t.
  Proof.
    intros Hfresh. induction t as [|[c0 x] r IH]; cbn; [rewrite Nat.eqb_refl; reflexivity|].
    destruct (Nat.eqb c0 cid) eqn:Ec.
    - apply Nat.eqb_eq in Ec. destruct (Hfresh (c0, x) (or_introl eq_refl) Ec).
    - f_equal. apply IH. intros y Hy. apply Hfresh. right. exact Hy.
  Qed.

  (** the tail of dispatch_message for an IkeSa that ended without CHILD_SAs and without successor: removed, no
      kernel operation, no draw *)
  Lemma finish_deleted_childless (ep : endpoint) cid (s : esa) :
    new_sa (inner P s) = None -> st (co (inner P s)) = ST_DELETED -> children (co (inner P s)) = [] ->
    finish E ep cid s
    = mk_ep E (remove_cid E (table E ep) cid) (next_cid E ep) (confs E ep) (ep_cookie_secret E ep) (ep_tape E ep)
            (ep_now E ep) (ep_kops E ep) (ep_sent E ep) (ep_routed E ep) (ep_status E ep).
  Proof.
    intros Hn Hst Hch. unfold finish. rewrite Hn.
    change (state P s) with (st (co (inner P s))). rewrite Hst.
    change (dispatch_remove ST_DELETED) with true. cbv iota.
    unfold teardown, delete_child_sas, enter. cbn [inner with_inner].
    unfold bind, getc. cbn [co set]. rewrite Hch. cbn. rewrite app_nil_r, (remove_replace E). reflexivity.
  Qed.

  (** (3) more half-open IKE_SAs than the threshold (the new one included), no correct cookie: the entry is created,
      answers with the COOKIE notification alone, ends and is removed.  The endpoint afterwards, field by field:
      the table is EXACTLY the old one, the tape lost the two draws of IkeSa.__init__ and nothing else (no D_dh: no
      Diffie-Hellman work), no kernel operation, one datagram added. *)
  Theorem dispatch_cookie_challenge (ep : endpoint) h my peer m cf spi j rest n :
    h_exch h = EX_IKE_SA_INIT -> h_resp h = false -> h_init h = true -> h_id h = 0 -> p_hdr m = h ->
    find_conf E ep my peer = Some cf ->
    ep_tape E ep = D_bytes spi :: D_num j :: rest ->
    (forall x, In x (table E ep) -> fst x <> next_cid E ep) ->
    halfopen E (table E ep) + 1 > cookie_threshold ->
    has_triple m false n ->
    presented m <> Some (cookie_for E (ep_cookie_secret E ep) (h_spi_i h) n peer) ->
    dispatch E ep (Dg h my peer (Some m))
    = mk_ep E (table E ep) (S (next_cid E ep)) (confs E ep) (ep_cookie_secret E ep) rest (ep_now E ep) (ep_kops E ep)
            (ep_sent E ep ++ [cookie_datagram (spiZ (be_encode 8 (Z.to_N (h_spi_i h)))) (spiZ spi) (h_id h)
                                               (cookie_for E (ep_cookie_secret E ep) (h_spi_i h) n peer)])
            (Some (next_cid E ep)) (ep_status E ep).
  Proof.
    intros Hex Hresp Hini Hid Hm Hconf Htape Hfresh Hload Htr Hbad.
    unfold dispatch. rewrite Hex, Hresp. change (dispatch_is_init_request EX_IKE_SA_INIT (negb false)) with true. cbv iota.
    rewrite Hconf, (create_eval ep false _ cf my peer spi j rest Htape). cbv iota beta zeta.
    cbn [table ep_cookie_secret ep_now].
    assert (Harm : dispatch_arm_cookie
                     (halfopen E (table E ep ++ [(next_cid E ep,
                        sa_of_core E (fresh_core false cf my peer (be_encode 8 (Z.to_N (h_spi_i h))) spi j (ep_now E ep)))]))
                   = true).
    { rewrite halfopen_snoc. change (state P (sa_of_core E _)) with ST_INITIAL.
      change (Z.ltb ST_INITIAL ST_ESTABLISHED) with true. cbv iota. unfold dispatch_arm_cookie. lia. }
    rewrite Harm.
    match goal with |- context [process_message P ?s0 m ?t] =>
      pose proof (process_message_cookie_required s0 m t (ep_cookie_secret E ep) n eq_refl eq_refl) as Hpm end.
    rewrite Hm in Hpm. specialize (Hpm Hini Hresp Hex Hid eq_refl eq_refl eq_refl Htr Hbad). cbv zeta in Hpm.
    cbn [set] in Hpm |- *. rewrite Hpm. clear Hpm.
    cbn [leave inner rek_push enter with_inner clear_flags set co]. cbv beta iota zeta.
    match goal with |- (if Z.eqb (state P ?x) ST_INITIAL then _ else _) = _ =>
      change (Z.eqb (state P x) ST_INITIAL) with false; cbv iota end.
    cbn [send set]. rewrite finish_deleted_childless; [|reflexivity|reflexivity|reflexivity].
    f_equal; cbn -[be_encode]; try reflexivity.
    - rewrite !(remove_replace E). apply remove_snoc_fresh. exact Hfresh.
    - apply app_nil_r.
    - rewrite Hid. reflexivity.
  Qed.

  (** the same with the hypothesis on the load stated literally: the half-open count of the table AFTER the new
      entry was appended exceeds the threshold; the two draws are the ones [create] consumed *)
  Theorem dispatch_cookie_challenge_create (ep : endpoint) h my peer m cf ep0 cid (s0 : esa) n :
    h_exch h = EX_IKE_SA_INIT -> h_resp h = false -> h_init h = true -> h_id h = 0 -> p_hdr m = h ->
    find_conf E ep my peer = Some cf ->
    create E ep false (be_encode 8 (Z.to_N (h_spi_i h))) cf my peer = Some (ep0, cid, s0) ->
    halfopen E (table E ep0) > cookie_threshold ->
    (forall x, In x (table E ep) -> fst x <> next_cid E ep) ->
    has_triple m false n ->
    presented m <> Some (cookie_for E (ep_cookie_secret E ep) (h_spi_i h) n peer) ->
    let ep' := dispatch E ep (Dg h my peer (Some m)) in
    table E ep' = table E ep /\
    ep_kops E ep' = ep_kops E ep /\
    ep_tape E ep' = ep_tape E ep0 /\
    (exists spi j, ep_tape E ep = D_bytes spi :: D_num j :: ep_tape E ep' /\
                   ep_sent E ep' = ep_sent E ep ++ [cookie_datagram (spiZ (be_encode 8 (Z.to_N (h_spi_i h)))) (spiZ spi) (h_id h)
                                                      (cookie_for E (ep_cookie_secret E ep) (h_spi_i h) n peer)]) /\
    next_cid E ep' = S (next_cid E ep) /\ ep_routed E ep' = Some cid /\
    confs E ep' = confs E ep /\ ep_cookie_secret E ep' = ep_cookie_secret E ep /\ ep_now E ep' = ep_now E ep.
  Proof.
    intros Hex Hresp Hini Hid Hm Hconf Hc Hload Hfresh Htr Hbad ep'.
    pose proof (halfopen_created _ _ _ _ _ _ _ _ _ Hc) as Hh.
    destruct (create_facts E _ _ _ _ _ _ _ _ _ Hc) as (-> & _).
    destruct (create_draws _ _ _ _ _ _ _ _ _ Hc) as (spi & j & Ht & _).
    assert (Hl : halfopen E (table E ep) + 1 > cookie_threshold) by lia.
    unfold ep'. rewrite (dispatch_cookie_challenge ep h my peer m cf spi j _ n Hex Hresp Hini Hid Hm Hconf Ht Hfresh Hl Htr Hbad).
    cbn [table ep_kops ep_tape ep_sent next_cid ep_routed confs ep_cookie_secret ep_now].
    repeat split; try reflexivity. exists spi, j. split; [exact Ht|reflexivity].
  Qed.


  (** the freshness hypothesis is part of the whole-daemon invariant of EndpointSad.v (true after every history) *)
  Lemma cids_fresh_of_invariant (ep : endpoint) sd :
    EInv E ep sd -> forall x, In x (table E ep) -> fst x <> next_cid E ep.
  Proof.
    intros Hinv x Hin. destruct (cids_unique E ep sd Hinv) as [_ Hlt].
    specialize (Hlt (fst x) (in_map fst _ _ Hin)). lia.
  Qed.

  (** one main_loop iteration whose event is such a datagram: the datagram part contributes exactly one datagram and
      no kernel operation, consumes the two draws, and hands the timer section the old table *)
  Theorem iteration_cookie_challenge (ep : endpoint) tnow h my peer m cf spi j rest n :
    h_exch h = EX_IKE_SA_INIT -> h_resp h = false -> h_init h = true -> h_id h = 0 -> p_hdr m = h ->
    find_conf E ep my peer = Some cf ->
    (forall x, In x (table E ep) -> fst x <> next_cid E ep) ->
    halfopen E (table E ep) + 1 > cookie_threshold ->
    has_triple m false n ->
    presented m <> Some (cookie_for E (ep_cookie_secret E ep) (h_spi_i h) n peer) ->
    iteration E ep tnow (D_bytes spi :: D_num j :: rest) (Ev_datagram (Dg h my peer (Some m)))
    = timers E (mk_ep E (table E ep) (S (next_cid E ep)) (confs E ep) (ep_cookie_secret E ep) rest tnow []
                      [cookie_datagram (spiZ (be_encode 8 (Z.to_N (h_spi_i h)))) (spiZ spi) (h_id h)
                                       (cookie_for E (ep_cookie_secret E ep) (h_spi_i h) n peer)]
                      (Some (next_cid E ep)) None).
  Proof.
    intros Hex Hresp Hini Hid Hm Hconf Hfresh Hload Htr Hbad. rewrite iteration_eq. cbn [event_step]. f_equal.
    apply (dispatch_cookie_challenge (start E ep tnow (D_bytes spi :: D_num j :: rest)) h my peer m cf spi j rest n
             Hex Hresp Hini Hid Hm Hconf eq_refl Hfresh Hload Htr Hbad).
  Qed.

  (** arming: the entry that processes the request carries the controller's cookie secret exactly when the half-open
      count (the new entry included) exceeds the threshold; at or below the threshold it carries none *)
  Theorem arm_spec (ep : endpoint) ii pspi cf my peer ep0 cid (s0 : esa) :
    create E ep ii pspi cf my peer = Some (ep0, cid, s0) ->
    cookie_secret (co (inner P (arm E ep0 s0)))
    = if Z.gtb (halfopen E (table E ep0)) cookie_threshold then Some (ep_cookie_secret E ep) else None.
  Proof.
    intros Hc. destruct (create_draws _ _ _ _ _ _ _ _ _ Hc) as (spi & j & Ht & ->).
    rewrite (create_eval ep ii pspi cf my peer spi j _ Ht) in Hc. inversion Hc as [[He0 Hcid]]. clear Hc.
    unfold arm, dispatch_arm_cookie. destruct (Z.gtb _ _); reflexivity.
  Qed.
  Theorem dispatch_below_threshold_not_armed (ep : endpoint) h my peer m cf ep0 cid (s0 : esa) :
    dispatch_is_init_request (h_exch h) (negb (h_resp h)) = true -> find_conf E ep my peer = Some cf ->
    create E ep false (be_encode 8 (Z.to_N (h_spi_i h))) cf my peer = Some (ep0, cid, s0) ->
    halfopen E (table E ep0) <= cookie_threshold ->
    cookie_secret (co (inner P s0)) = None /\ arm E ep0 s0 = s0 /\
    dispatch E ep (Dg h my peer (Some m))
    = handle_fresh E (routed E (with_table E ep0 (replace E (table E ep0) cid s0)) cid) cid s0 m.
  Proof.
    intros Hi Hconf Hc Hload.
    assert (Ha : arm E ep0 s0 = s0).
    { unfold arm, dispatch_arm_cookie. replace (Z.gtb (halfopen E (table E ep0)) cookie_threshold) with false by lia. reflexivity. }
    split; [|split; [exact Ha|]].
    - destruct (create_draws _ _ _ _ _ _ _ _ _ Hc) as (spi & j & _ & ->). reflexivity.
    - destruct (dispatch_init_request E ep h my peer m cf ep0 cid s0 Hi Hconf Hc) as (_ & _ & Hd). rewrite Ha in Hd. exact Hd.
  Qed.

  (** ** requests the shell ignores
      An IKE_SA_INIT "request" whose INITIATOR flag is not set, or whose Message ID is not 0, is dropped by
      process_message / _process_request WITHOUT a reply and without any change of the IkeSa the dispatcher has just
      created for it.  Before the fix 73b0c79 of /repo that entry stayed in the table in state INITIAL for ever (no
      timer looks at an INITIAL entry): unbounded half-open state from unauthenticated datagrams.  Now the dispatcher
      removes an IkeSa that is still INITIAL after process_message: the table is the old one again. *)
  Lemma replace_snoc_fresh (t : list (nat * esa)) cid (s0 s' : esa) :
    (forall x, In x t -> fst x <> cid) -> replace E (t ++ [(cid, s0)]) cid s' = t ++ [(cid, s')].
  Proof.
    intros Hfresh. induction t as [|[c0 x] r IH]; cbn; [rewrite Nat.eqb_refl; reflexivity|].
    destruct (Nat.eqb c0 cid) eqn:Ec.
    - apply Nat.eqb_eq in Ec. destruct (Hfresh (c0, x) (or_introl eq_refl) Ec).
    - f_equal. apply IH. intros y Hy. apply Hfresh. right. exact Hy.
  Qed.

  Lemma process_message_ignored (s : sa P) (m : pmsg body) tnow :
    is_init P s = false -> peer_id P s = 0 -> last_resp P s = None -> cprop (co (inner P s)) = None ->
    h_exch (p_hdr m) = EX_IKE_SA_INIT -> h_resp (p_hdr m) = false ->
    (h_init (p_hdr m) = false \/ h_id (p_hdr m) <> 0) ->
    snd (process_message P s m tnow) = None /\ inner P (fst (process_message P s m tnow)) = inner P s.
  Proof.
    intros Hi Hpid Hlr Hcp Hex Hresp Hbad.
    unfold process_message. change (B P) with body. cbv zeta.
    unfold process_message_decision. rewrite Hi, Hex, Hresp.
    change (has_keys P (inner P s)) with (match cprop (co (inner P s)) with Some _ => true | None => false end).
    rewrite Hcp. destruct (h_init (p_hdr m)) eqn:Hini.
    - destruct Hbad as [Hbad|Hbad]; [discriminate Hbad|].
      cbn [Bool.eqb negb andb Z.eqb EX_IKE_SA_INIT Pos.eqb].
      destruct (Z.eqb (h_id (p_hdr m)) (peer_id P s));
        (unfold process_request; change (B P) with body; cbv zeta; cbn [p_hdr peer_id my_id set_dpd_at inner last_resp];
         rewrite Hpid, Hlr; unfold req_is_retransmission, req_id_unexpected;
         destruct (Z.eqb (h_id (p_hdr m)) (0 - 1)); [split; reflexivity|];
         replace (Z.eqb (h_id (p_hdr m)) 0) with false by lia; split; reflexivity).
    - cbn. split; reflexivity.
  Qed.

  Theorem dispatch_ignored_init_request_leaves_nothing (ep : endpoint) h my peer m cf spi j rest :
    h_exch h = EX_IKE_SA_INIT -> h_resp h = false -> p_hdr m = h ->
    find_conf E ep my peer = Some cf ->
    ep_tape E ep = D_bytes spi :: D_num j :: rest ->
    (forall x, In x (table E ep) -> fst x <> next_cid E ep) ->
    (h_init h = false \/ h_id h <> 0) ->
    let ep' := dispatch E ep (Dg h my peer (Some m)) in
    ep_sent E ep' = ep_sent E ep /\ ep_kops E ep' = ep_kops E ep /\ ep_tape E ep' = rest /\
    table E ep' = table E ep.
  Proof.
    intros Hex Hresp Hm Hconf Htape Hfresh Hbad ep'. unfold ep', dispatch.
    rewrite Hex, Hresp. change (dispatch_is_init_request EX_IKE_SA_INIT (negb false)) with true. cbv iota.
    rewrite Hconf, (create_eval ep false _ cf my peer spi j rest Htape). cbv iota beta zeta.
    cbn [table ep_cookie_secret ep_now].
    destruct (dispatch_arm_cookie _).
    all: match goal with |- context [process_message P ?s0 ?mm ?t] =>
      destruct (process_message_ignored s0 mm t) as [Hr Hin];
        [reflexivity|reflexivity|reflexivity|reflexivity|rewrite Hm; exact Hex|rewrite Hm; exact Hresp|rewrite Hm; exact Hbad|];
      destruct (process_message P s0 mm t) as [s2 reply] eqn:Epm end;
      cbn [fst snd] in Hr, Hin; subst reply; clear Epm; destruct s2 as [i2 ? ? ? ? ? ? ? ? ? ? ? ? ?]; cbn [inner] in Hin; subst i2;
      unfold leave; cbn -[be_encode replace app remove_cid]; rewrite app_nil_r, (remove_replace E), remove_snoc_fresh by exact Hfresh;
      repeat split; reflexivity.
  Qed.

  (** a request the fresh IkeSa answers by ending (any error: COOKIE required, malformed, no proposal chosen, ...):
      whatever process_message did, the table is the old one again and no kernel operation was issued *)
  Theorem dispatch_init_request_ended (ep : endpoint) h my peer (m : pmsg body) cf ep0 cid (s0 : esa) :
    dispatch_is_init_request (h_exch h) (negb (h_resp h)) = true -> find_conf E ep my peer = Some cf ->
    create E ep false (be_encode 8 (Z.to_N (h_spi_i h))) cf my peer = Some (ep0, cid, s0) ->
    (forall x, In x (table E ep) -> fst x <> next_cid E ep) ->
    let ep1 := routed E (with_table E ep0 (replace E (table E ep0) cid (arm E ep0 s0))) cid in
    let r := process_message P (enter E ep1 (arm E ep0 s0)) m (ep_now E ep1) in
    state P (fst r) = ST_DELETED ->
    table E (dispatch E ep (Dg h my peer (Some m))) = table E ep
    /\ ep_kops E (dispatch E ep (Dg h my peer (Some m))) = ep_kops E ep
    /\ ep_tape E (dispatch E ep (Dg h my peer (Some m))) = tape (inner P (fst r)).
  Proof.
    intros Hi Hconf Hc Hfresh ep1 r Hst.
    destruct (dispatch_init_request E ep h my peer m cf ep0 cid s0 Hi Hconf Hc) as (Hcid & Ht0 & ->).
    destruct (create_facts E _ _ _ _ _ _ _ _ _ Hc) as (_ & _ & _ & Hk0 & Hch0 & Hnew0 & Hst0).
    rewrite handle_fresh_def. fold ep1. fold r.
    destruct (leave_facts E ep1 (fst r)) as ([L0 L0'] & L2 & L3 & _).
    assert (Hs3 : state P (snd (leave E ep1 (fst r))) = ST_DELETED).
    { change (state P (snd (leave E ep1 (fst r)))) with (st (co (inner P (snd (leave E ep1 (fst r)))))).
      rewrite L0. exact Hst. }
    rewrite Hs3. change (Z.eqb ST_DELETED ST_INITIAL) with false. cbv iota. rewrite handle_def. fold ep1. fold r.
    assert (Hi1 : st (co (inner P (enter E ep1 (arm E ep0 s0)))) = ST_INITIAL).
    { unfold arm. destruct (dispatch_arm_cookie _); exact Hst0. }
    destruct (process_message_initial E (enter E ep1 (arm E ep0 s0)) m (ep_now E ep1) Hi1) as (K1 & K2 & K3). fold r in K1, K2, K3.
    assert (Hch : children (co (inner P (snd (leave E ep1 (fst r))))) = []).
    { rewrite L0, K2. unfold arm. destruct (dispatch_arm_cookie _); exact Hch0. }
    assert (Hnew : new_sa (inner P (snd (leave E ep1 (fst r)))) = None).
    { rewrite L0', K3. unfold arm. destruct (dispatch_arm_cookie _); exact Hnew0. }
    rewrite (finish_deleted_childless _ cid _ Hnew Hs3 Hch). cbn [table ep_kops ep_tape].
    destruct (send_facts E (fst (leave E ep1 (fst r))) (snd r)) as (S1 & _ & S3 & _ & S5 & _).
    rewrite S1, S3, S5, L2, L3, K1.
    split; [|split].
    - change (table E ep1) with (replace E (table E ep0) cid (arm E ep0 s0)).
      rewrite (remove_replace E), Ht0, Hcid. apply remove_snoc_fresh. exact Hfresh.
    - cbn. rewrite app_nil_r. exact Hk0.
    - unfold leave. destruct (rek_push (inner P (fst r))); reflexivity.
  Qed.

  Definition malformed (m : pmsg body) : Prop :=
    get_payloads m K_SA false = [] \/ get_payloads m K_NONCE false = [] \/ get_payloads m K_KE false = [].
  Lemma process_message_malformed (s : sa P) m tnow :
    is_init P s = false -> peer_id P s = 0 ->
    h_init (p_hdr m) = true -> h_resp (p_hdr m) = false -> h_exch (p_hdr m) = EX_IKE_SA_INIT -> h_id (p_hdr m) = 0 ->
    st (co (inner P s)) = ST_INITIAL -> cprop (co (inner P s)) = None -> malformed m ->
    state P (fst (process_message P s m tnow)) = ST_DELETED
    /\ tape (inner P (fst (process_message P s m tnow))) = tape (inner P s).
  Proof.
    intros Hi Hpid Hini Hresp Hex Hid Hst Hcp Hmal.
    unfold process_message. change (B P) with body. cbv zeta.
    unfold process_message_decision. rewrite Hini, Hi, Hex, Hresp.
    change (has_keys P (inner P s)) with (match cprop (co (inner P s)) with Some _ => true | None => false end).
    rewrite Hcp. cbn [Bool.eqb negb andb Z.eqb EX_IKE_SA_INIT Pos.eqb].
    rewrite Hid, Hpid. change (Z.eqb 0 0) with true. cbv iota.
    unfold process_request. change (B P) with body. cbv zeta. cbn [p_hdr peer_id my_id set_dpd_at inner].
    rewrite Hid, Hpid, Hex.
    change (req_is_retransmission 0 0 (my_id P s)) with false. change (req_id_unexpected 0 0 (my_id P s)) with false.
    change (negb (existsb (Z.eqb EX_IKE_SA_INIT) request_exchanges)) with false. cbv iota.
    change (handle_request P) with (h_request E).
    rewrite (h_request_malformed E m (inner P s) Hex Hst Hmal). split; reflexivity.
  Qed.

  (** a malformed IKE_SA_INIT request (SA, KE or NONCE payload missing) is answered with INVALID_SYNTAX and leaves
      nothing behind either: old table, no kernel operation, the two draws of IkeSa.__init__ only *)
  Theorem dispatch_malformed_init_request (ep : endpoint) h my peer m cf spi j rest :
    h_exch h = EX_IKE_SA_INIT -> h_resp h = false -> h_init h = true -> h_id h = 0 -> p_hdr m = h ->
    find_conf E ep my peer = Some cf ->
    ep_tape E ep = D_bytes spi :: D_num j :: rest ->
    (forall x, In x (table E ep) -> fst x <> next_cid E ep) ->
    malformed m ->
    table E (dispatch E ep (Dg h my peer (Some m))) = table E ep
    /\ ep_kops E (dispatch E ep (Dg h my peer (Some m))) = ep_kops E ep
    /\ ep_tape E (dispatch E ep (Dg h my peer (Some m))) = rest.
  Proof.
    intros Hex Hresp Hini Hid Hm Hconf Htape Hfresh Hmal.
    pose proof (create_eval ep false (be_encode 8 (Z.to_N (h_spi_i h))) cf my peer spi j rest Htape) as Hc.
    assert (Hi : dispatch_is_init_request (h_exch h) (negb (h_resp h)) = true) by (rewrite Hex, Hresp; reflexivity).
    match type of Hc with _ = Some (?e0, ?c0, ?x0) =>
      pose proof (dispatch_init_request_ended ep h my peer m cf e0 c0 x0 Hi Hconf Hc Hfresh) as Hd;
      set (ep0 := e0) in *; set (s0 := x0) in * end.
    cbv zeta in Hd.
    match type of Hd with state P (fst (process_message P ?s1 m ?t)) = _ -> _ =>
      destruct (process_message_malformed s1 m t) as [P1 P2] end.
    - unfold arm. destruct (dispatch_arm_cookie _); reflexivity.
    - unfold arm. destruct (dispatch_arm_cookie _); reflexivity.
    - rewrite Hm. exact Hini.
    - rewrite Hm. exact Hresp.
    - rewrite Hm. exact Hex.
    - rewrite Hm. exact Hid.
    - unfold arm. destruct (dispatch_arm_cookie _); reflexivity.
    - unfold arm. destruct (dispatch_arm_cookie _); reflexivity.
    - exact Hmal.
    - destruct (Hd P1) as (A & B & C). split; [exact A|]. split; [exact B|]. rewrite C, P2. reflexivity.
  Qed.

  (** ... hence, without any hypothesis on the INITIATOR flag or the Message ID: above the threshold an IKE_SA_INIT
      request (well-formed triple) that does not carry the correct cookie leaves the table exactly as it was, issues
      no kernel operation and consumes the two draws of IkeSa.__init__ only - in particular no Diffie-Hellman key pair *)
  Theorem leaves_no_ike_sa_behind (ep : endpoint) h my peer m cf spi j rest n :
    h_exch h = EX_IKE_SA_INIT -> h_resp h = false -> p_hdr m = h ->
    find_conf E ep my peer = Some cf ->
    ep_tape E ep = D_bytes spi :: D_num j :: rest ->
    (forall x, In x (table E ep) -> fst x <> next_cid E ep) ->
    halfopen E (table E ep) + 1 > cookie_threshold ->
    (has_triple m false n /\ presented m <> Some (cookie_for E (ep_cookie_secret E ep) (h_spi_i h) n peer))
    \/ malformed m ->
    table E (dispatch E ep (Dg h my peer (Some m))) = table E ep
    /\ ep_kops E (dispatch E ep (Dg h my peer (Some m))) = ep_kops E ep
    /\ ep_tape E (dispatch E ep (Dg h my peer (Some m))) = rest.
  Proof.
    intros Hex Hresp Hm Hconf Htape Hfresh Hload Hreq.
    destruct (h_init h) eqn:Hini.
    - destruct (Z.eq_dec (h_id h) 0) as [Hid|Hid].
      + destruct Hreq as [[Htr Hbad]|Hmal].
        * rewrite (dispatch_cookie_challenge ep h my peer m cf spi j rest n Hex Hresp Hini Hid Hm Hconf Htape Hfresh Hload Htr Hbad).
          repeat split; reflexivity.
        * apply (dispatch_malformed_init_request ep h my peer m cf spi j rest Hex Hresp Hini Hid Hm Hconf Htape Hfresh Hmal).
      + destruct (dispatch_ignored_init_request_leaves_nothing ep h my peer m cf spi j rest Hex Hresp Hm Hconf Htape Hfresh
                    (or_intror Hid)) as (_ & A & B & C). auto.
    - destruct (dispatch_ignored_init_request_leaves_nothing ep h my peer m cf spi j rest Hex Hresp Hm Hconf Htape Hfresh
                  (or_introl Hini)) as (_ & A & B & C). auto.
  Qed.
End Dispatch.

(* ================================================================================================ *)
(** * The vocabulary of the statements, written out (for Props/C18H.v) *)

Lemma def_cookie_input E spi n addr : cookie_input E spi n addr = be_encode 8 (Z.to_N spi) ++ n ++ e_addr_packed E addr.
Proof. reflexivity. Qed.
Lemma def_cookie_for E sec spi n addr :
  cookie_for E sec spi n addr = e_cookie E sec (be_encode 8 (Z.to_N spi) ++ n ++ e_addr_packed E addr).
Proof. reflexivity. Qed.
Lemma def_presented m :
  presented m = match get_notifies m N_COOKIE false with P_NOTIFY _ _ _ d :: _ => Some d | _ => None end.
Proof. reflexivity. Qed.
Lemma def_has_triple m enc n :
  has_triple m enc n <->
  get_payloads m K_SA enc <> [] /\ hd_error (get_payloads m K_NONCE enc) = Some (P_NONCE n) /\ get_payloads m K_KE enc <> [].
Proof. reflexivity. Qed.
Lemma def_cookie_reply ck : cookie_reply ck = ([P_NOTIFY PROTO_NONE N_COOKIE [] ck], []).
Proof. reflexivity. Qed.
Lemma def_cookie_datagram spi_i spi_r mid ck :
  cookie_datagram spi_i spi_r mid ck
  = mk_dgram (mk_hdr spi_i spi_r GEN_MAJOR GEN_MINOR EX_IKE_SA_INIT true false mid) ([P_NOTIFY PROTO_NONE N_COOKIE [] ck], []).
Proof. reflexivity. Qed.
(** _process_ike_sa_negotiation_request with the cookie check deleted *)
Lemma def_ike_nego_request_unchecked E w m enc old :
  ike_nego_request_unchecked E w m enc old =
  (psa <- get_payload m K_SA enc ;;
   pn <- get_payload m K_NONCE enc ;;
   pke <- get_payload m K_KE enc ;;
   c <- getw w ;;
   ch0 <- select_best (cf_prop (cfg c)) (sa_props psa) ;;
   let ch := if nonempty (pr_spi ch0) then ch0 <| pr_spi := my_spi_b c |> else ch0 in
   modw w (fun c => c <| chosen := Some ch |>) ;;;
   nr <- fresh_nonce ;;
   dht <- get_transform ch T_DH ;;
   let '(ke_g, ke_d) := ke_of pke in
   (if Z.eqb (tr_id dht) ke_g then ret tt else raise (X_InvalidKe (tr_id dht))) ;;;
   hp <- draw_dh ke_g ;;
   secret <- of_opt (e_dh_secret E ke_g (fst hp) ke_d) X_Other ;;
   gen_keys E w ch (nonce_of pn) nr (peer_spi_b c) (my_spi_b c) secret old ;;;
   ret [P_SA [ch]; P_NONCE nr; P_KE ke_g (snd hp)]).
Proof. reflexivity. Qed.
Lemma def_disarm w s :
  disarm w s = if w then s <| new_sa := option_map (fun c => c <| cookie_secret := None |>) (new_sa s) |>
               else s <| co := (co s) <| cookie_secret := None |> |>.
Proof. destruct w; reflexivity. Qed.
Lemma def_view w s : view w s = if w then new_sa s else Some (co s).
Proof. reflexivity. Qed.
Lemma def_retry_state s ck ex ps :
  retry_state s ck ex ps
  = s <| co := (co s) <| request := Some (ex, ck :: ps) |>
                      <| init_req := Some (hdr_of (co s) ex false 0, body_of ex (ck :: ps)) |>
                      <| my_msg_id_reset := true |> |>.
Proof. reflexivity. Qed.
Lemma def_auth_over E a cp octets pa :
  auth_over E a cp octets pa <->
  pa = P_AUTH AUTH_RSA (e_sign E octets) \/
  exists psk, a_psk a = Some psk /\ pa = P_AUTH AUTH_PSK (e_prf E cp (e_prf E cp psk KEYPAD) octets).
Proof. reflexivity. Qed.
Lemma def_fresh_core ii cf my peer pspi spi j tnow :
  fresh_core ii cf my peer pspi spi j tnow
  = mk_core ST_INITIAL ii spi pspi my peer cf None None None [] None None None None None None None None
            (tnow + cf_dpd cf) (tnow + cf_life cf + j) (tnow + cf_life cf + j + DELETE_AFTER) false.
Proof. reflexivity. Qed.
Lemma def_halfopen E t :
  halfopen E t = Z.of_nat (length (filter (fun x => Z.ltb (st (co (inner (hdl_iface E) (snd x)))) ST_ESTABLISHED) t)).
Proof. reflexivity. Qed.

(* ================================================================================================ *)
(** * Part 5. Non-vacuity on a toy environment (HdlAgree.Toy: cookie = secret ++ input, packed address = one byte) *)

Module CookieToy.
  Module T := HdlAgree.Toy.
  Definition E0 : env := T.E0.
  (** the same environment with a serialisation that distinguishes the retried request from the original one
      (Message ID, number of clear payloads, number of encrypted payloads) *)
  Definition E1 : env :=
    mk_env (e_ike_keys E0) (e_child_keys E0) (e_dh_secret E0) (e_prf E0) (e_sign E0) (e_verify E0)
           (fun x => [Z.to_N (h_id (fst x)); N.of_nat (length (fst (snd x))); N.of_nat (length (snd (snd x)))])
           (e_cookie E0) (e_addr_packed E0).
  Definition sec : bytes := [9; 9]%N.
  Definition armedR : isa := T.iR0 <| co := (co T.iR0) <| cookie_secret := Some sec |> |>.
  Definition okv {A} (r : res A) (d : A) : A := match r with Ok a => a | _ => d end.

  (** the initiator's first request (HdlAgree.Toy.imR): SA, NONCE [7;7;7], KE, VENDOR; no cookie *)
  Definition mR1 : pmsg body := T.imR.
  Definition ck : bytes := cookie_for E0 sec (h_spi_i (p_hdr mR1)) [7; 7; 7]%N 10.

  (** (1) an armed responder answers COOKIE and nothing else; its tape (nonce draws, DH key pair) is untouched *)
  Example armed_responder_answers_cookie :
    st (co armedR) = ST_INITIAL /\ cookie_secret (co armedR) = Some sec /\ h_exch (p_hdr mR1) = EX_IKE_SA_INIT /\
    has_triple mR1 false [7; 7; 7]%N /\ presented mR1 = None /\
    h_request E0 armedR mR1 = (clear_flags armedR, HErr (cookie_reply ck)) /\
    ike_nego_request E0 false mR1 false None armedR = (Raise (X_CookieRequired ck), armedR) /\
    tape armedR = [D_num 16; D_bytes [8; 8; 8]%N; D_dh 14 [6]%N [6]%N].
  Proof. vm_compute. repeat split; try reflexivity; discriminate. Qed.

  (** the same request with the right cookie placed first *)
  Definition mR1_ck : pmsg body := T.msg (p_hdr mR1) (P_NOTIFY PROTO_NONE N_COOKIE [] ck :: fst (p_body mR1)) [].
  Example right_cookie_accepted :
    has_triple mR1_ck false [7; 7; 7]%N /\ presented mR1_ck = Some ck /\
    (exists b, snd (h_request E0 armedR mR1_ck) = HOk b) /\
    st (co (fst (h_request E0 armedR mR1_ck))) = ST_INIT_RES_SENT /\
    tape (fst (h_request E0 armedR mR1_ck)) = [] /\
    (* same answer as the unarmed responder gives to the same message *)
    snd (h_request E0 armedR mR1_ck) = snd (h_request E0 T.iR0 mR1_ck) /\
    ike_nego_request E0 false mR1_ck false None (disarm false armedR)
    = (fst (ike_nego_request E0 false mR1_ck false None armedR),
       disarm false (snd (ike_nego_request E0 false mR1_ck false None armedR))).
  Proof. vm_compute. repeat split; try reflexivity; try discriminate. eexists; reflexivity. Qed.

  (** binding: the same cookie with a flipped byte, from another source address, with another SPI or another nonce *)
  Definition with_peer (s : isa) (a : Z) : isa := s <| co := (co s) <| peer_addr := a |> |>.
  Definition with_spi (m : pmsg body) (z : Z) : pmsg body :=
    mk_pmsg (mk_hdr z (h_spi_r (p_hdr m)) 2 0 (h_exch (p_hdr m)) (h_resp (p_hdr m)) (h_init (p_hdr m)) (h_id (p_hdr m)))
            (p_auth m) (p_body m).
  Definition with_nonce (m : pmsg body) (n : bytes) : pmsg body :=
    mk_pmsg (p_hdr m) (p_auth m)
            (map (fun p => match p with P_NONCE _ => P_NONCE n | _ => p end) (fst (p_body m)), snd (p_body m)).
  Definition is_cookie_required {A} (r : res A) : bool := match r with Raise (X_CookieRequired _) => true | _ => false end.
  Example cookie_is_bound :
    let run s m := is_cookie_required (fst (ike_nego_request E0 false m false None s)) in
    run armedR mR1_ck = false /\
    run armedR (T.msg (p_hdr mR1) (P_NOTIFY PROTO_NONE N_COOKIE [] (ck ++ [0]%N) :: fst (p_body mR1)) []) = true /\
    run (with_peer armedR 11) mR1_ck = true /\
    run armedR (with_spi mR1_ck 5) = true /\
    run armedR (with_nonce mR1_ck [7; 7; 8]%N) = true /\
    (* a second, correct cookie after a wrong first one does not help: only the first is looked at *)
    run armedR (T.msg (p_hdr mR1) (P_NOTIFY PROTO_NONE N_COOKIE [] [1]%N :: fst (p_body mR1_ck)) []) = true.
  Proof. vm_compute. repeat split. Qed.

  (** without a length hypothesis the hashed string does not determine (nonce, address): the boundary between the
      two is not marked (toy packing: one byte per address, so here the lengths of the nonces differ) *)
  Example cookie_input_needs_lengths :
    cookie_input E0 1 [1; 2]%N 3 = cookie_input (mk_env (e_ike_keys E0) (e_child_keys E0) (e_dh_secret E0) (e_prf E0)
                                                         (e_sign E0) (e_verify E0) (e_ser E0) (e_cookie E0)
                                                         (fun _ => [2; 3]%N)) 1 [1]%N 3.
  Proof. reflexivity. Qed.

  (** (3) the dispatcher: [n] half-open entries in the table, one configured pair (20, 10) *)
  Definition entry (i : nat) : nat * Endpoint.esa E0 :=
    (i, sa_of_core E0 (T.core0 false T.spiR T.spiI (T.conf_R false) 20 10)).
  Definition the_tape : list draw := [D_bytes T.spiR; D_num 1; D_num 16; D_bytes [8; 8; 8]%N; D_dh 14 [6]%N [6]%N].
  Definition ep_n (n : nat) : Endpoint.endpoint E0 :=
    mk_ep E0 (map entry (seq 0 n)) n [(20, 10, T.conf_R false)] sec the_tape 1000 [] [] None None.
  Definition dgm (m : pmsg body) : datagram := Dg (p_hdr m) 20 10 (Some m).

  Lemma ep_n_fresh n x : In x (table E0 (ep_n n)) -> fst x <> next_cid E0 (ep_n n).
  Proof.
    cbn [table next_cid ep_n]. intros Hin. apply in_map_iff in Hin. destruct Hin as (i & <- & Hi). apply in_seq in Hi.
    cbn [fst entry]. lia.
  Qed.

  (** [n] half-open entries with n + 1 > 10: every hypothesis of [dispatch_cookie_challenge] holds; its conclusion *)
  Lemma toy_challenge n :
    halfopen E0 (table E0 (ep_n n)) + 1 > cookie_threshold ->
    dispatch E0 (ep_n n) (dgm mR1)
    = mk_ep E0 (table E0 (ep_n n)) (S n) [(20, 10, T.conf_R false)] sec
            [D_num 16; D_bytes [8; 8; 8]%N; D_dh 14 [6]%N [6]%N] 1000 []
            [cookie_datagram (spiZ (be_encode 8 (Z.to_N (h_spi_i (p_hdr mR1))))) (spiZ T.spiR) 0 ck] (Some n) None.
  Proof.
    intros Hload.
    apply (dispatch_cookie_challenge E0 (ep_n n) (p_hdr mR1) 20 10 mR1 (T.conf_R false) T.spiR 1
             [D_num 16; D_bytes [8; 8; 8]%N; D_dh 14 [6]%N [6]%N] [7; 7; 7]%N); try reflexivity.
    - apply ep_n_fresh.
    - exact Hload.
    - vm_compute. repeat split; discriminate.
    - vm_compute. discriminate.
  Qed.
  Example dispatch_over_11_half_open :
    halfopen E0 (table E0 (ep_n 11)) = 11 /\ length (table E0 (ep_n 11)) = 11%nat /\
    dispatch E0 (ep_n 11) (dgm mR1)
    = mk_ep E0 (table E0 (ep_n 11)) 12 [(20, 10, T.conf_R false)] sec
            [D_num 16; D_bytes [8; 8; 8]%N; D_dh 14 [6]%N [6]%N] 1000 []
            [cookie_datagram (spiZ (be_encode 8 (Z.to_N (h_spi_i (p_hdr mR1))))) (spiZ T.spiR) 0 ck] (Some 11%nat) None /\
    spiZ (be_encode 8 (Z.to_N (h_spi_i (p_hdr mR1)))) = spiZ T.spiI /\
    (* observed directly on the run: 11 entries before and after, the DH key pair still on the tape *)
    length (table E0 (dispatch E0 (ep_n 11) (dgm mR1))) = 11%nat /\
    ep_tape E0 (dispatch E0 (ep_n 11) (dgm mR1)) = [D_num 16; D_bytes [8; 8; 8]%N; D_dh 14 [6]%N [6]%N] /\
    ep_kops E0 (dispatch E0 (ep_n 11) (dgm mR1)) = [] /\
    ep_sent E0 (dispatch E0 (ep_n 11) (dgm mR1)) = [cookie_datagram (spiZ T.spiI) (spiZ T.spiR) 0 ck].
  Proof.
    split; [vm_compute; reflexivity|]. split; [reflexivity|]. split; [apply toy_challenge; vm_compute; reflexivity|].
    vm_compute. repeat split.
  Qed.

  (** the same table, the request repeated with the right cookie: accepted, the entry stays (INIT_RES_SENT), the DH
      key pair is consumed *)
  Example dispatch_over_11_with_cookie :
    let ep' := dispatch E0 (ep_n 11) (dgm mR1_ck) in
    length (table E0 ep') = 12%nat /\ ep_tape E0 ep' = [] /\ length (ep_sent E0 ep') = 1%nat /\ ep_kops E0 ep' = [] /\
    option_map (fun x => st (co (inner (hdl_iface E0) (snd x)))) (nth_error (table E0 ep') 11) = Some ST_INIT_RES_SENT.
  Proof. vm_compute. repeat split. Qed.

  (** around the threshold (10): with 9 entries the new one is the 10th half-open - not armed, the request without
      cookie is processed (DH consumed, entry stays); with 10 entries it is the 11th - armed, COOKIE, entry gone *)
  Example threshold_boundary :
    let a := dispatch E0 (ep_n 9) (dgm mR1) in
    let b := dispatch E0 (ep_n 10) (dgm mR1) in
    length (table E0 a) = 10%nat /\ ep_tape E0 a = [] /\
    option_map (fun x => (st (co (inner (hdl_iface E0) (snd x))), cookie_secret (co (inner (hdl_iface E0) (snd x)))))
               (nth_error (table E0 a) 9) = Some (ST_INIT_RES_SENT, None) /\
    table E0 b = table E0 (ep_n 10) /\ ep_tape E0 b = [D_num 16; D_bytes [8; 8; 8]%N; D_dh 14 [6]%N [6]%N] /\
    ep_sent E0 b = [cookie_datagram (spiZ T.spiI) (spiZ T.spiR) 0 ck].
  Proof.
    cbv zeta. rewrite (toy_challenge 10) by (vm_compute; reflexivity). cbn [table ep_tape ep_sent].
    split; [vm_compute; reflexivity|]. split; [vm_compute; reflexivity|]. split; [vm_compute; reflexivity|].
    split; [reflexivity|]. split; [reflexivity|]. vm_compute. reflexivity.
  Qed.

  (** instances of [dispatch_ignored_init_request_leaves_nothing]: Message ID 1, or the INITIATOR flag not set: no
      reply, and the table is the old one (11 entries, 11 half-open) - before the fix 73b0c79 it had 12 *)
  Definition with_id (m : pmsg body) (z : Z) : pmsg body :=
    mk_pmsg (mk_hdr (h_spi_i (p_hdr m)) (h_spi_r (p_hdr m)) 2 0 (h_exch (p_hdr m)) (h_resp (p_hdr m)) (h_init (p_hdr m)) z)
            (p_auth m) (p_body m).
  Definition with_init (m : pmsg body) (b : bool) : pmsg body :=
    mk_pmsg (mk_hdr (h_spi_i (p_hdr m)) (h_spi_r (p_hdr m)) 2 0 (h_exch (p_hdr m)) (h_resp (p_hdr m)) b (h_id (p_hdr m)))
            (p_auth m) (p_body m).
  Example ignored_request_leaves_nothing_witness :
    let a := dispatch E0 (ep_n 11) (dgm (with_id mR1 1)) in
    let b := dispatch E0 (ep_n 11) (dgm (with_init mR1 false)) in
    ep_sent E0 a = [] /\ length (table E0 a) = 11%nat /\ halfopen E0 (table E0 a) = 11 /\
    ep_sent E0 b = [] /\ length (table E0 b) = 11%nat /\ halfopen E0 (table E0 b) = 11.
  Proof. vm_compute. repeat split. Qed.

  (** (4) end to end: request - COOKIE - retry with the cookie first - accepted - IKE_AUTH verified by the responder
      over the request it accepted; with a stale [init_req] (the seeded regression) the responder refuses *)
  Definition I1 := generate_ike_sa_init_request (T.child_I false) T.iI0.
  Definition rq1 : Z * list payload := okv (fst I1) (0, []).
  Definition mRa : pmsg body := T.msg (T.hdrx T.spiI T.spi0 EX_IKE_SA_INIT false true) (snd rq1) [].
  Definition ckbody : body := match snd (h_request E1 armedR mRa) with HErr b => b | HOk b => b end.
  Definition mI_ck : pmsg body := T.msg (T.hdrx T.spiI T.spiR EX_IKE_SA_INIT true false) (fst ckbody) [].
  Definition next_call (s : isa) (t : list draw) : isa := (clear_flags s) <| tape := t |>.
  Definition I2 := process_ike_sa_init_response E1 mI_ck (next_call (snd I1) []).
  Definition rq2 : Z * list payload := match fst I2 with Ok (Some r) => r | _ => (0, []) end.
  Definition mRb : pmsg body := T.msg (T.hdrx T.spiI T.spi0 EX_IKE_SA_INIT false true) (snd rq2) [].
  Definition R1 := process_ike_sa_init_request E1 mRb armedR.
  Definition mI2 : pmsg body := T.msg (T.hdrx T.spiI T.spiR EX_IKE_SA_INIT true false) (okv (fst R1) []) [].
  Definition auth_round (sI : isa) :=
    let I3 := process_ike_sa_init_response E1 mI2 (next_call sI []) in
    let rq3 := match fst I3 with Ok (Some r) => r | _ => (0, []) end in
    let mR3 := T.msg (T.hdrx T.spiI T.spiR EX_IKE_AUTH false true) [] (snd rq3) in
    process_ike_auth_request E1 mR3 (next_call (snd R1) [D_bytes [4; 4; 4; 2]%N; D_num 3; D_verdict true; D_verdict true]).
  Definition stale (s0 s : isa) : isa := s <| co := (co s) <| init_req := init_req (co s0) |> |>.

  Example retry_completes_normally :
    (* the COOKIE reply of the armed responder *)
    ckbody = cookie_reply ck /\
    (* the retry: identical payloads, the cookie first; my_msg_id reset; init_req refreshed *)
    rq2 = (EX_IKE_SA_INIT, P_NOTIFY PROTO_NONE N_COOKIE [] ck :: snd rq1) /\
    my_msg_id_reset (co (snd I2)) = true /\
    init_req (co (snd I2)) = Some (T.hdrx T.spiI T.spi0 EX_IKE_SA_INIT false true, (snd rq2, [])) /\
    (* accepted by an armed responder *)
    (exists ps, fst R1 = Ok ps) /\ st (co (snd R1)) = ST_INIT_RES_SENT /\
    (* IKE_AUTH: the responder verifies the AUTH payload and establishes *)
    (exists ps, fst (auth_round (snd I2)) = Ok ps) /\ st (co (snd (auth_round (snd I2)))) = ST_ESTABLISHED /\
    (* with the request octets NOT refreshed the same exchange fails authentication *)
    fst (auth_round (stale (snd I1) (snd I2))) = Raise X_AuthFailed.
  Proof. vm_compute. repeat split; try reflexivity; eexists; reflexivity. Qed.
End CookieToy.

