(** Executable model of a whole endpoint: ikesacontroller.py (the IKE_SA table, dispatch_message, process_acquire,
    process_expire, the timer section of main_loop with Python's remove-while-iterating semantics) composed with the
    shell of Shell.v instantiated by the handler model of Hdl.v.  One step = one iteration of main_loop: one event
    (datagram / kernel ACQUIRE / kernel EXPIRE / nothing) followed by the three timer sweeps.  The environment of the
    iteration (clock, tape of draws and kernel verdicts) is threaded through every IkeSa call in order.
    No proofs in this file. *)
From Coq Require Import ZArith NArith Bool List.
From RecordUpdate Require Import RecordSet.
From VLib Require Import Bytes.
From IkeSa Require Import Gen.IkeFacts Shell Hdl.
Import ListNotations RecordSetNotations.
Open Scope Z_scope.

Section Endpoint.
  Variable E : env.
  Let P := hdl_iface E.
  Definition esa := sa P.

  (** IkeSa.to_dict as far as it is state: local and peer SPI, role, state, message ID, and for every CHILD_SA its
      SPIs, protocol and mode (addresses and the selectors' text are configuration) *)
  Record status_entry := mk_status { su_my_spi : bytes; su_peer_spi : bytes; su_init : bool; su_state : Z; su_msg_id : Z;
                                     su_children : list (bytes * bytes * Z * Z) }.
  Definition status_of (s : esa) : status_entry :=
    let c := co (inner P s) in
    mk_status (my_spi_b c) (peer_spi_b c) (is_init P s) (st c) (my_id P s)
              (map (fun ch => (c_in ch, c_out ch, pr_proto (c_prop ch), c_mode ch)) (children c)).

  Record endpoint := mk_ep {
    table : list (nat * esa);                (* creation index (object identity) and the IkeSa, in list order *)
    next_cid : nat;
    confs : list (Z * Z * conf);             (* (my_addr, peer_addr) -> IkeConfiguration *)
    ep_cookie_secret : bytes;
    ep_tape : list draw;                     (* environment of the current iteration *)
    ep_now : Z;
    ep_kops : list kop;                      (* kernel operations issued during the current iteration *)
    ep_sent : list (dgram body);             (* datagrams written to the sockets during the current iteration *)
    ep_routed : option nat;                  (* the IkeSa (creation index) whose process_message the dispatcher called *)
    ep_status : option (list status_entry) }.   (* answer to the control-socket status query of this iteration *)
  #[export] Instance eta_ep : Settable _ :=
    settable! mk_ep <table; next_cid; confs; ep_cookie_secret; ep_tape; ep_now; ep_kops; ep_sent; ep_routed; ep_status>.

  (** run one IkeSa-level function with the endpoint's environment: the tape and the clock go in, what is left of the
      tape and the kernel operations come out *)
  Definition enter (ep : endpoint) (s : esa) : esa :=
    with_inner P s ((inner P s) <| now := ep_now ep |> <| tape := ep_tape ep |> <| kops := [] |> <| rek_push := None |>).
  Definition leave (ep : endpoint) (s : esa) : endpoint * esa :=
    let i := inner P s in
    let s1 := match rek_push i with
              | Some z => mk_sa P i (is_init P s) (my_spi P s) (my_id P s) (peer_id P s) (last_resp P s) (req_data P s)
                                (rt_at P s) (rt_n P s) (dpd_at P s) z (del_at P s) (dpd_cfg P s) (pending P s)
              | None => s
              end in
    (ep <| ep_tape := tape i |> <| ep_kops := ep_kops ep ++ kops i |>,
     with_inner P s1 ((inner P s1) <| tape := [] |> <| kops := [] |> <| rek_push := None |>)).
  Definition send (ep : endpoint) (d : option (dgram body)) : endpoint :=
    match d with Some x => ep <| ep_sent := ep_sent ep ++ [x] |> | None => ep end.

  Fixpoint replace (t : list (nat * esa)) (cid : nat) (s : esa) : list (nat * esa) :=
    match t with
    | [] => []
    | (c, x) :: r => if Nat.eqb c cid then (c, s) :: r else (c, x) :: replace r cid s
    end.
  Fixpoint remove_cid (t : list (nat * esa)) (cid : nat) : list (nat * esa) :=
    match t with
    | [] => []
    | (c, x) :: r => if Nat.eqb c cid then r else (c, x) :: remove_cid r cid
    end.

  Definition sa_of_core (nc : core) : esa :=
    mk_sa P (mk_isa nc None None 0 [] []) (c_init nc) (spiZ (my_spi_b nc)) 0 0 None None 0 0
          (dpd0 nc) (rek0 nc) (del0 nc) (cf_dpd (cfg nc)) [].
  Definition empty_core (c : conf) (my peer : Z) : core :=
    mk_core ST_INITIAL false [] [] my peer c None None None [] None None None None None None None None 0 0 0 false.

  (** IkeSa(is_initiator, peer_spi, configuration, my_addr, peer_addr) by the controller *)
  Definition create (ep : endpoint) (is_init : bool) (peer_spi : bytes) (c : conf) (my peer : Z)
    : option (endpoint * nat * esa) :=
    let i0 := mk_isa (empty_core c my peer) None None (ep_now ep) (ep_tape ep) [] in
    match new_core is_init peer_spi (empty_core c my peer) i0 with
    | (Ok nc, i1) =>
        let s := sa_of_core nc in
        Some (ep <| ep_tape := tape i1 |> <| next_cid := S (next_cid ep) |>
                 <| table := table ep ++ [(next_cid ep, s)] |>, next_cid ep, s)
    | _ => None
    end.

  Definition find_conf (ep : endpoint) (my peer : Z) : option conf :=
    match find (fun x => Z.eqb (fst (fst x)) my && Z.eqb (snd (fst x)) peer) (confs ep) with
    | Some x => Some (snd x) | None => None end.

  (** IkeSa.delete_child_sas() + self.ike_sas.remove(ike_sa) *)
  Definition teardown (ep : endpoint) (cid : nat) (s : esa) : endpoint :=
    let s0 := enter ep s in
    let '(_, i') := delete_child_sas (inner P s0) in
    let '(ep1, _) := leave ep (with_inner P s0 i') in
    ep1 <| table := remove_cid (table ep1) cid |>.

  (** the tail of dispatch_message: register the successor, remove an IKE_SA that ended *)
  Definition finish (ep : endpoint) (cid : nat) (s : esa) : endpoint :=
    let '(ep1, s1) :=
      match new_sa (inner P s) with
      | Some nc =>
          if dispatch_register_successor (state P s) true then
            let s' := with_inner P s ((inner P s) <| new_sa := None |>) in
            (ep <| table := replace (table ep) cid s' ++ [(next_cid ep, sa_of_core nc)] |>
                <| next_cid := S (next_cid ep) |>, s')
          else (ep <| table := replace (table ep) cid s |>, s)
      | None => (ep <| table := replace (table ep) cid s |>, s)
      end in
    if dispatch_remove (state P s1) then teardown ep1 cid s1 else ep1.

  (** what the header-only parse and the full parse of a datagram gave (the codec is the codec cluster's subject) *)
  Inductive datagram :=
  | Dg_bad                                                  (* Message.parse(header_only) raised *)
  | Dg (h : hdr) (my peer : Z) (parsed : option (pmsg body)).   (* None: the full parse raised in process_message *)

  Definition halfopen (t : list (nat * esa)) : Z :=
    Z.of_nat (length (filter (fun x => Z.ltb (state P (snd x)) ST_ESTABLISHED) t)).

  Definition dispatch (ep : endpoint) (d : datagram) : endpoint :=
    match d with
    | Dg_bad => ep
    | Dg h my peer parsed =>
        if dispatch_is_init_request (h_exch h) (negb (h_resp h)) then
          match find_conf ep my peer with
          | None => ep
          | Some c =>
              match create ep false (be_encode 8 (Z.to_N (h_spi_i h))) c my peer with
              | None => ep
              | Some (ep0, cid, s0) =>
                  let s1 := if dispatch_arm_cookie (halfopen (table ep0))
                            then with_inner P s0 ((inner P s0) <| co := (co (inner P s0)) <| cookie_secret := Some (ep_cookie_secret ep0) |> |>)
                            else s0 in
                  let ep1 := ep0 <| table := replace (table ep0) cid s1 |> <| ep_routed := Some cid |> in
                  match parsed with
                  | None => ep1 <| table := remove_cid (table ep1) cid |>
                  | Some m =>
                      let '(s2, reply) := process_message P (enter ep1 s1) m (ep_now ep1) in
                      let '(ep2, s3) := leave ep1 s2 in
                      (* an IKE_SA created for a request that was then ignored is of no use either (fix e1) *)
                      if Z.eqb (state P s3) ST_INITIAL
                      then send (ep2 <| table := remove_cid (table ep2) cid |>) reply
                      else finish (send ep2 reply) cid s3
                  end
              end
          end
        else
          let spi := dispatch_my_spi (h_init h) (h_spi_i h) (h_spi_r h) in
          match find (fun x => Z.eqb (my_spi P (snd x)) spi) (table ep) with
          | None => ep
          | Some (cid, s) =>
              let ep := ep <| ep_routed := Some cid |> in
              match parsed with
              | None => ep
              | Some m =>
                  let '(s2, reply) := process_message P (enter ep s) m (ep_now ep) in
                  let '(ep2, s3) := leave ep s2 in
                  finish (send ep2 reply) cid s3
              end
          end
    end.

  (** IkeSaController.process_acquire *)
  Definition acquire (ep : endpoint) (my peer : Z) (tsi tsr : ts) (index : Z) : endpoint :=
    let found := find (fun x => Z.eqb (my_addr (co (inner P (snd x)))) my && Z.eqb (peer_addr (co (inner P (snd x)))) peer
                                && acquire_usable (state P (snd x)))
                      (table ep) in
    let r := match found with
             | Some (cid, s) => Some (ep, cid, s)
             | None => match find_conf ep my peer with
                       | Some c => create ep true (repeat 0%N 8) c my peer
                       | None => None                       (* ConfigurationNotFound escapes to the loop's catch-all *)
                       end
             end in
    match r with
    | None => ep
    | Some (ep0, cid, s) =>
        let '(s2, reply) := process_trigger P (enter ep0 s) (ep_now ep0) (E_acquire tsi tsr index) in
        let '(ep2, s3) := leave ep0 s2 in
        (* an IKE_SA created for an ACQUIRE that then started nothing (unknown policy index) is dropped again (fix f21) *)
        if (match found with None => true | Some _ => false end) && acquire_drop_unstarted (state P s3)
        then send (ep2 <| table := remove_cid (table ep2) cid |>) reply
        else send (ep2 <| table := replace (table ep2) cid s3 |>) reply
    end.

  (** IkeSaController.process_expire *)
  Definition owns_spi (spi : bytes) (s : esa) : bool :=
    existsb (fun ch => bytes_eqb (c_in ch) spi || bytes_eqb (c_out ch) spi) (children (co (inner P s))).
  Definition expire (ep : endpoint) (spi : bytes) (hard : bool) : endpoint :=
    match find (fun x => owns_spi spi (snd x)) (table ep) with
    | None => ep
    | Some (cid, s) =>
        let '(s2, reply) := process_trigger P (enter ep s) (ep_now ep) (E_expire spi hard) in
        let '(ep2, s3) := leave ep s2 in
        send (ep2 <| table := replace (table ep2) cid s3 |>) reply
    end.

  (** the timer section of main_loop: `for ikesa in self.ike_sas:` with a removal in the body skips the element that
      follows a removed one *)
  Fixpoint rt_loop (fuel : nat) (i : nat) (ep : endpoint) : endpoint :=
    match fuel with
    | O => ep
    | S fuel' =>
        match nth_error (table ep) i with
        | None => ep
        | Some (cid, s) =>
            let '(s1, o) := check_retransmission P (enter ep s) (ep_now ep) in
            let '(ep1, s2) := leave ep s1 in
            let ep2 := send (ep1 <| table := replace (table ep1) cid s2 |>) o in
            if dispatch_remove (state P s2) then rt_loop fuel' (S i) (teardown ep2 cid s2)
            else rt_loop fuel' (S i) ep2
        end
    end.
  Fixpoint sweep (f : esa -> Z -> esa * option (dgram body)) (cids : list nat) (ep : endpoint) : endpoint :=
    match cids with
    | [] => ep
    | cid :: r =>
        match find (fun x => Nat.eqb (fst x) cid) (table ep) with
        | None => sweep f r ep
        | Some (_, s) =>
            let '(s1, o) := f (enter ep s) (ep_now ep) in
            let '(ep1, s2) := leave ep s1 in
            sweep f r (send (ep1 <| table := replace (table ep1) cid s2 |>) o)
        end
    end.
  Definition timers (ep : endpoint) : endpoint :=
    let ep1 := rt_loop (S (length (table ep))) 0 ep in
    let ep2 := sweep (check_dpd P) (map fst (table ep1)) ep1 in
    sweep (check_lifetime P) (map fst (table ep2)) ep2.

  (** (harness) the scenario driver of the correspondence writes the timers of a real IkeSa object *)
  Fixpoint set_timers (t : list (nat * esa)) (cid : nat) (d r dl : Z) : list (nat * esa) :=
    match t with
    | [] => []
    | (c, s) :: rest =>
        if Nat.eqb c cid then
          (c, mk_sa P (inner P s) (is_init P s) (my_spi P s) (my_id P s) (peer_id P s) (last_resp P s) (req_data P s)
                    (rt_at P s) (rt_n P s) d r dl (dpd_cfg P s) (pending P s)) :: rest
        else (c, s) :: set_timers rest cid d r dl
    end.
  Definition force_timers (ep : endpoint) (cid : nat) (d r dl : Z) : endpoint :=
    ep <| table := set_timers (table ep) cid d r dl |> <| ep_kops := [] |> <| ep_sent := [] |> <| ep_tape := [] |>
       <| ep_routed := None |> <| ep_status := None |>.

  Inductive event :=
  | Ev_datagram (d : datagram)
  | Ev_acquire (my peer : Z) (tsi tsr : ts) (index : Z)
  | Ev_expire (spi : bytes) (hard : bool)
  | Ev_status                                   (* control socket: the query is answered BEFORE the timer sweeps *)
  | Ev_none.

  (** one iteration of main_loop *)
  Definition iteration (ep : endpoint) (tnow : Z) (tp : list draw) (e : event) : endpoint :=
    let ep0 := ep <| ep_now := tnow |> <| ep_tape := tp |> <| ep_kops := [] |> <| ep_sent := [] |> <| ep_routed := None |>
                  <| ep_status := None |> in
    let ep1 := match e with
               | Ev_datagram d => dispatch ep0 d
               | Ev_acquire my peer a b i => acquire ep0 my peer a b i
               | Ev_expire spi hard => expire ep0 spi hard
               | Ev_status => ep0 <| ep_status := Some (map (fun x => status_of (snd x)) (table ep0)) |>
               | Ev_none => ep0
               end in
    timers ep1.
End Endpoint.
