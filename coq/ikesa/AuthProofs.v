(** C02 proofs: the IKE_AUTH gate is sound and complete w.r.t. its specification, every failure ends in AuthFailed,
    and the octets that are signed / MACed (RFC 7296 section 2.15) are an unambiguous encoding of their three parts. *)
From Coq Require Import ZArith NArith Bool List Lia Arith PeanoNat.
From VLib Require Import Bytes.
From IkeSa Require Import Gen.IkeFacts Cookie CookieProofs Auth.
Import ListNotations.
Open Scope Z_scope.

(** * list facts used below *)

Lemma app_eq_len {A} (a a' b b' : list A) :
  length a = length a' -> a ++ b = a' ++ b' -> a = a' /\ b = b'.
Proof.
  intros Hlen Heq.
  assert (Ha : a = a').
  { rewrite <- (firstn_app_exact a b), Heq, Hlen. apply firstn_app_exact. }
  subst a'. split; [reflexivity|]. apply app_inv_head in Heq. exact Heq.
Qed.

Lemma app_eq_len_tail {A} (a a' b b' : list A) :
  length b = length b' -> a ++ b = a' ++ b' -> a = a' /\ b = b'.
Proof.
  intros Hlen Heq. apply app_eq_len; [|exact Heq].
  apply (f_equal (@length A)) in Heq. rewrite !app_length in Heq. lia.
Qed.

Lemma slice_app_l (m x : bytes) (a b : nat) :
  (b <= length m)%nat -> slice (m ++ x) a b = slice m a b.
Proof.
  intros Hb. unfold slice. rewrite skipn_app, firstn_app, skipn_length.
  replace (b - a - (length m - a))%nat with O by lia.
  rewrite firstn_O, app_nil_r. reflexivity.
Qed.

Lemma nonempty_spec (b : bytes) : nonempty b = true <-> b <> [].
Proof. destruct b; cbn [nonempty]; split; intros H; try reflexivity; try discriminate; congruence. Qed.

Lemma auth_methods_distinct : AUTH_PSK <> AUTH_RSA.
Proof. unfold AUTH_PSK, AUTH_RSA. discriminate. Qed.

Section Proofs.
  Variable prf : bytes -> bytes -> bytes.
  Variable PK : Type.
  Variable rsa_verify : PK -> bytes -> bytes -> bool.

  Local Notation conf := (auth_conf PK).
  Local Notation cidt := (c_id_type PK).
  Local Notation cidd := (c_id_data PK).
  Local Notation cpsk := (c_psk PK).
  Local Notation cpub := (c_pub PK).

  (** ** 1. the signed octets *)
  Theorem signed_octets_spec msg nonce idb sk_p :
    signed_octets prf msg nonce idb sk_p = msg ++ nonce ++ prf sk_p idb.
  Proof.
    unfold signed_octets, octets_order. cbn [map concat]. rewrite app_nil_r. reflexivity.
  Qed.

  (** the specification of the gate: what the peer presented is exactly what is configured, and the AUTH data
      is the PSK MAC / a valid signature over the octets of the peer's side *)
  Definition auth_ok (c : conf) (method : Z) (auth_data octets : bytes) : Prop :=
    (method = AUTH_PSK /\ exists psk, cpsk c = Some psk /\ psk <> [] /\ auth_data = psk_auth prf psk octets) \/
    (method = AUTH_RSA /\ exists pk, cpub c = Some pk /\ rsa_verify pk auth_data octets = true).

  Lemma verify_spec (c : conf) method auth_data octets :
    verify prf PK rsa_verify c method auth_data octets = true <-> auth_ok c method auth_data octets.
  Proof.
    unfold verify, auth_ok. split.
    - intros H.
      destruct (cpsk c) as [psk|] eqn:Epsk.
      + destruct (Z.eqb method AUTH_PSK) eqn:Em; cbn [andb] in H.
        * apply Z.eqb_eq in Em.
          destruct (nonempty psk) eqn:Ene.
          -- left. split; [exact Em|]. exists psk. split; [reflexivity|]. split.
             ++ apply nonempty_spec. exact Ene.
             ++ apply bytes_eqb_eq in H. symmetry. exact H.
          -- destruct (cpub c) as [pk|] eqn:Epub; [|discriminate].
             destruct (Z.eqb method AUTH_RSA) eqn:Er; [|discriminate].
             apply Z.eqb_eq in Er. right. split; [exact Er|]. exists pk. split; [reflexivity|exact H].
        * destruct (cpub c) as [pk|] eqn:Epub; [|discriminate].
          destruct (Z.eqb method AUTH_RSA) eqn:Er; [|discriminate].
          apply Z.eqb_eq in Er. right. split; [exact Er|]. exists pk. split; [reflexivity|exact H].
      + destruct (cpub c) as [pk|] eqn:Epub; [|discriminate].
        destruct (Z.eqb method AUTH_RSA) eqn:Er; [|discriminate].
        apply Z.eqb_eq in Er. right. split; [exact Er|]. exists pk. split; [reflexivity|exact H].
    - intros [[Hm (psk & Hpsk & Hne & Ha)] | [Hm (pk & Hpub & Hv)]].
      + rewrite Hpsk. subst method. rewrite Z.eqb_refl.
        apply nonempty_spec in Hne. rewrite Hne. cbn [andb].
        apply bytes_eqb_eq. symmetry. exact Ha.
      + assert (Hnp : Z.eqb method AUTH_PSK = false).
        { apply Z.eqb_neq. rewrite Hm. intros E. apply auth_methods_distinct. symmetry. exact E. }
        rewrite Hpub, Hnp. cbn [andb]. subst method. rewrite Z.eqb_refl.
        destruct (cpsk c); exact Hv.
  Qed.

  (** ** 2./3. the gate: soundness and completeness *)
  Definition gate_spec (c : conf) (id_type : N) (id_data : bytes) (method : Z) (auth_data : bytes)
             (peer_msg my_nonce peer_sk_p : bytes) : Prop :=
    id_type = cidt c /\ id_data = cidd c /\
    ( (method = AUTH_PSK /\ exists psk, cpsk c = Some psk /\ psk <> [] /\
         auth_data = psk_auth prf psk (peer_msg ++ my_nonce ++ prf peer_sk_p (id_body id_type id_data)))
      \/
      (method = AUTH_RSA /\ exists pk, cpub c = Some pk /\
         rsa_verify pk auth_data (peer_msg ++ my_nonce ++ prf peer_sk_p (id_body id_type id_data)) = true) ).

  Theorem gate_iff (c : conf) id_type id_data method auth_data peer_msg my_nonce peer_sk_p :
    gate prf PK rsa_verify c id_type id_data method auth_data peer_msg my_nonce peer_sk_p = true <->
    gate_spec c id_type id_data method auth_data peer_msg my_nonce peer_sk_p.
  Proof.
    unfold gate, gate_spec. rewrite !andb_true_iff, N.eqb_eq, bytes_eqb_eq, verify_spec, signed_octets_spec.
    unfold auth_ok. tauto.
  Qed.

  Theorem gate_sound (c : conf) id_type id_data method auth_data peer_msg my_nonce peer_sk_p :
    gate prf PK rsa_verify c id_type id_data method auth_data peer_msg my_nonce peer_sk_p = true ->
    id_type = cidt c /\ id_data = cidd c /\
    ( (method = AUTH_PSK /\ exists psk, cpsk c = Some psk /\ psk <> [] /\
         auth_data = psk_auth prf psk (peer_msg ++ my_nonce ++ prf peer_sk_p (id_body id_type id_data)))
      \/
      (method = AUTH_RSA /\ exists pk, cpub c = Some pk /\
         rsa_verify pk auth_data (peer_msg ++ my_nonce ++ prf peer_sk_p (id_body id_type id_data)) = true) ).
  Proof. intros H. apply gate_iff in H. exact H. Qed.

  Theorem gate_complete (c : conf) id_type id_data method auth_data peer_msg my_nonce peer_sk_p :
    id_type = cidt c -> id_data = cidd c ->
    ( (method = AUTH_PSK /\ exists psk, cpsk c = Some psk /\ psk <> [] /\
         auth_data = psk_auth prf psk (peer_msg ++ my_nonce ++ prf peer_sk_p (id_body id_type id_data)))
      \/
      (method = AUTH_RSA /\ exists pk, cpub c = Some pk /\
         rsa_verify pk auth_data (peer_msg ++ my_nonce ++ prf peer_sk_p (id_body id_type id_data)) = true) ) ->
    gate prf PK rsa_verify c id_type id_data method auth_data peer_msg my_nonce peer_sk_p = true.
  Proof. intros H1 H2 H3. apply gate_iff. unfold gate_spec. auto. Qed.

  (** ** 4. the handler *)
  Theorem handler_continue_iff (c : conf) id_type id_data method auth_data peer_msg my_nonce peer_sk_p :
    ike_auth_handler prf PK rsa_verify c id_type id_data method auth_data peer_msg my_nonce peer_sk_p = Continue <->
    gate prf PK rsa_verify c id_type id_data method auth_data peer_msg my_nonce peer_sk_p = true.
  Proof.
    unfold ike_auth_handler.
    destruct (gate prf PK rsa_verify c id_type id_data method auth_data peer_msg my_nonce peer_sk_p);
      split; intros H; try reflexivity; discriminate.
  Qed.

  Lemma handler_failed_iff (c : conf) id_type id_data method auth_data peer_msg my_nonce peer_sk_p :
    ike_auth_handler prf PK rsa_verify c id_type id_data method auth_data peer_msg my_nonce peer_sk_p = AuthFailed <->
    gate prf PK rsa_verify c id_type id_data method auth_data peer_msg my_nonce peer_sk_p = false.
  Proof.
    unfold ike_auth_handler.
    destruct (gate prf PK rsa_verify c id_type id_data method auth_data peer_msg my_nonce peer_sk_p);
      split; intros H; try reflexivity; discriminate.
  Qed.

  Lemma handler_fails_unless_spec (c : conf) id_type id_data method auth_data peer_msg my_nonce peer_sk_p :
    ~ gate_spec c id_type id_data method auth_data peer_msg my_nonce peer_sk_p ->
    ike_auth_handler prf PK rsa_verify c id_type id_data method auth_data peer_msg my_nonce peer_sk_p = AuthFailed.
  Proof.
    intros Hn. apply handler_failed_iff.
    destruct (gate prf PK rsa_verify c id_type id_data method auth_data peer_msg my_nonce peer_sk_p) eqn:E;
      [|reflexivity].
    apply gate_iff in E. contradiction.
  Qed.

  Theorem wrong_identity_fails (c : conf) id_type id_data method auth_data peer_msg my_nonce peer_sk_p :
    id_type <> cidt c \/ id_data <> cidd c ->
    ike_auth_handler prf PK rsa_verify c id_type id_data method auth_data peer_msg my_nonce peer_sk_p = AuthFailed.
  Proof.
    intros Hw. apply handler_fails_unless_spec. intros (H1 & H2 & _). destruct Hw as [Hw|Hw]; contradiction.
  Qed.

  Theorem wrong_method_fails (c : conf) id_type id_data method auth_data peer_msg my_nonce peer_sk_p :
    method <> AUTH_PSK -> method <> AUTH_RSA ->
    ike_auth_handler prf PK rsa_verify c id_type id_data method auth_data peer_msg my_nonce peer_sk_p = AuthFailed.
  Proof.
    intros Hp Hr. apply handler_fails_unless_spec. intros (_ & _ & [[Hm _]|[Hm _]]); contradiction.
  Qed.

  Theorem no_credential_fails (c : conf) id_type id_data method auth_data peer_msg my_nonce peer_sk_p :
    cpsk c = None -> cpub c = None ->
    ike_auth_handler prf PK rsa_verify c id_type id_data method auth_data peer_msg my_nonce peer_sk_p = AuthFailed.
  Proof.
    intros Hp Hr. apply handler_fails_unless_spec.
    intros (_ & _ & [[_ (psk & Hs & _)]|[_ (pk & Hs & _)]]); congruence.
  Qed.

  (** an empty PSK is no credential either (the source tests the truth value of the configured bytes) *)
  Theorem empty_psk_no_pub_fails (c : conf) id_type id_data method auth_data peer_msg my_nonce peer_sk_p :
    cpsk c = Some [] -> cpub c = None ->
    ike_auth_handler prf PK rsa_verify c id_type id_data method auth_data peer_msg my_nonce peer_sk_p = AuthFailed.
  Proof.
    intros Hp Hr. apply handler_fails_unless_spec.
    intros (_ & _ & [[_ (psk & Hs & Hne & _)]|[_ (pk & Hs & _)]]); congruence.
  Qed.

  (** ** 5. unambiguity of the signed octets *)
  Lemma wf_ike_msg_length_prefix (m m' x x' : bytes) :
    wf_ike_msg m -> wf_ike_msg m' -> m ++ x = m' ++ x' -> length m = length m'.
  Proof.
    intros (Hlen & _ & Hdec) (Hlen' & _ & Hdec') Heq.
    assert (Hs : slice m 24 28 = slice m' 24 28).
    { rewrite <- (slice_app_l m x 24 28 Hlen), <- (slice_app_l m' x' 24 28 Hlen'), Heq. reflexivity. }
    rewrite Hs, Hdec' in Hdec. apply Nat2N.inj in Hdec. symmetry. exact Hdec.
  Qed.

  Theorem octets_unambiguous (m n p m' n' p' : bytes) :
    wf_ike_msg m -> wf_ike_msg m' -> length p = length p' ->
    m ++ n ++ p = m' ++ n' ++ p' -> m = m' /\ n = n' /\ p = p'.
  Proof.
    intros Hm Hm' Hp Heq.
    pose proof (wf_ike_msg_length_prefix m m' _ _ Hm Hm' Heq) as Hlen.
    destruct (app_eq_len m m' _ _ Hlen Heq) as [Hmm Hrest].
    destruct (app_eq_len_tail n n' p p' Hp Hrest) as [Hnn Hpp].
    auto.
  Qed.

  Corollary signed_octets_injective (hlen : nat) (m n i k m' n' i' k' : bytes) :
    (forall key d, length (prf key d) = hlen) ->
    signed_octets prf m n i k = signed_octets prf m' n' i' k' ->
    wf_ike_msg m -> wf_ike_msg m' ->
    m = m' /\ n = n' /\ prf k i = prf k' i'.
  Proof.
    intros Hh Heq Hm Hm'. rewrite !signed_octets_spec in Heq.
    apply octets_unambiguous; try assumption. rewrite !Hh. reflexivity.
  Qed.

End Proofs.

(** * 6. the hypotheses are satisfiable *)

Definition ex_msg : bytes := repeat 0%N 24 ++ be_encode 4 28.

Example ex_msg_wf : wf_ike_msg ex_msg.
Proof.
  unfold wf_ike_msg. split; [|split].
  - apply Nat.leb_le. vm_compute. reflexivity.
  - apply wf_bytesb_spec. vm_compute. reflexivity.
  - vm_compute. reflexivity.
Qed.

Definition toy_prf : bytes -> bytes -> bytes := fun k d => k ++ d.
Definition toy_rsa_verify : bytes -> bytes -> bytes -> bool := fun pk sig data => bytes_eqb sig (pk ++ data).

Definition ex_conf_psk : auth_conf bytes := mk_auth_conf bytes 2%N [1; 2; 3]%N (Some [9; 9]%N) None.
Definition ex_conf_rsa : auth_conf bytes := mk_auth_conf bytes 2%N [1; 2; 3]%N None (Some [7]%N).

Example ex_gate_psk :
  gate toy_prf bytes toy_rsa_verify ex_conf_psk 2%N [1; 2; 3]%N AUTH_PSK
       (psk_auth toy_prf [9; 9]%N (ex_msg ++ [5; 6]%N ++ toy_prf [4]%N (id_body 2%N [1; 2; 3]%N)))
       ex_msg [5; 6]%N [4]%N = true.
Proof. vm_compute. reflexivity. Qed.

Example ex_gate_rsa :
  gate toy_prf bytes toy_rsa_verify ex_conf_rsa 2%N [1; 2; 3]%N AUTH_RSA
       ([7]%N ++ ex_msg ++ [5; 6]%N ++ toy_prf [4]%N (id_body 2%N [1; 2; 3]%N))
       ex_msg [5; 6]%N [4]%N = true.
Proof. vm_compute. reflexivity. Qed.

Example ex_handler_continue :
  ike_auth_handler toy_prf bytes toy_rsa_verify ex_conf_psk 2%N [1; 2; 3]%N AUTH_PSK
       (psk_auth toy_prf [9; 9]%N (ex_msg ++ [5; 6]%N ++ toy_prf [4]%N (id_body 2%N [1; 2; 3]%N)))
       ex_msg [5; 6]%N [4]%N = Continue.
Proof. vm_compute. reflexivity. Qed.

(** a replayed AUTH computed over another nonce is refused *)
Example ex_handler_wrong_nonce :
  ike_auth_handler toy_prf bytes toy_rsa_verify ex_conf_psk 2%N [1; 2; 3]%N AUTH_PSK
       (psk_auth toy_prf [9; 9]%N (ex_msg ++ [5; 7]%N ++ toy_prf [4]%N (id_body 2%N [1; 2; 3]%N)))
       ex_msg [5; 6]%N [4]%N = AuthFailed.
Proof. vm_compute. reflexivity. Qed.
