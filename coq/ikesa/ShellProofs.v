(** Lemmas about the shell model, for EVERY interface [P] (i.e. for every behaviour of the exchange handlers). *)
From Coq Require Import ZArith Bool List Lia ZifyBool.
From IkeSa Require Import Gen.IkeFacts Shell.
Import ListNotations.
Open Scope Z_scope.

Ltac split_ifs :=
  repeat match goal with
         | H : context [if ?c then _ else _] |- _ => destruct c eqn:?
         | |- context [if ?c then _ else _] => destruct c eqn:?
         end.

Section Proofs.
  Variable P : iface.
  (** the only things assumed about the handler-owned part: assigning the state assigns the state and does not
      create or destroy keys *)
  Hypothesis istate_set : forall i z, istate P (set_state P i z) = z.
  Hypothesis keys_set : forall i z, has_keys P (set_state P i z) = has_keys P i.
  Hypothesis peer_spi_set : forall i z, ipeer_spi P (set_state P i z) = ipeer_spi P i.

  Notation sa := (sa P).
  Notation pmsg := (pmsg (B P)).

  (** every shell-owned field except those listed is untouched *)
  Definition same_identity (s s' : sa) : Prop :=
    is_init P s' = is_init P s /\ my_spi P s' = my_spi P s /\
    dpd_cfg P s' = dpd_cfg P s /\ rek_at P s' = rek_at P s /\ del_at P s' = del_at P s.

  (* ------------------------------------------------------------------ C08: request window *)

  Lemma request_replay_cached (s : sa) (m : pmsg) :
    h_id (p_hdr m) = peer_id P s - 1 -> process_request P s m = (s, last_resp P s).
  Proof.
    intros H. unfold process_request. unfold req_is_retransmission.
    destruct (Z.eqb (h_id (p_hdr m)) (Z.sub (peer_id P s) 1)) eqn:E; [reflexivity|lia].
  Qed.

  Lemma request_other_id_dropped (s : sa) (m : pmsg) :
    h_id (p_hdr m) <> peer_id P s -> h_id (p_hdr m) <> peer_id P s - 1 -> process_request P s m = (s, None).
  Proof.
    intros H1 H2. unfold process_request, req_is_retransmission, req_id_unexpected.
    destruct (Z.eqb (h_id (p_hdr m)) (Z.sub (peer_id P s) 1)) eqn:E; [lia|].
    destruct (negb (Z.eqb (h_id (p_hdr m)) (peer_id P s))) eqn:E2; [reflexivity|lia].
  Qed.

  Lemma request_unknown_exchange_dropped (s : sa) (m : pmsg) :
    h_id (p_hdr m) = peer_id P s -> existsb (Z.eqb (h_exch (p_hdr m))) request_exchanges = false ->
    process_request P s m = (s, None).
  Proof.
    intros H1 H2. unfold process_request, req_is_retransmission, req_id_unexpected. rewrite H2.
    destruct (Z.eqb (h_id (p_hdr m)) (Z.sub (peer_id P s) 1)) eqn:E; [lia|].
    destruct (negb (Z.eqb (h_id (p_hdr m)) (peer_id P s))) eqn:E2; [lia|]. reflexivity.
  Qed.

  (** the next expected request runs its handler exactly once: the result is determined by ONE application of
      [handle_request]; the window advances by one; the reply is stored; it is stamped with the request's ID *)
  Lemma request_next_executed_once (s : sa) (m : pmsg) :
    h_id (p_hdr m) = peer_id P s -> existsb (Z.eqb (h_exch (p_hdr m))) request_exchanges = true ->
    exists s' d,
      process_request P s m = (s', Some d) /\
      peer_id P s' = peer_id P s + 1 /\ my_id P s' = my_id P s /\
      last_resp P s' = Some d /\ req_data P s' = req_data P s /\
      rt_at P s' = rt_at P s /\ rt_n P s' = rt_n P s /\ dpd_at P s' = dpd_at P s /\ pending P s' = pending P s /\
      same_identity s s' /\
      inner P s' = (match snd (handle_request P (inner P s) m) with
                    | HOk _ => fst (handle_request P (inner P s) m)
                    | HErr _ => set_state P (fst (handle_request P (inner P s) m)) ST_DELETED
                    end) /\
      d_body d = (match snd (handle_request P (inner P s) m) with HOk b => b | HErr b => b end) /\
      d_hdr d = mk_hdr (spi_i P s') (spi_r P s') GEN_MAJOR GEN_MINOR (h_exch (p_hdr m)) true (is_init P s) (peer_id P s).
  Proof.
    intros H1 H2. unfold process_request, req_is_retransmission, req_id_unexpected. rewrite H2.
    destruct (Z.eqb (h_id (p_hdr m)) (Z.sub (peer_id P s) 1)) eqn:E; [lia|].
    destruct (negb (Z.eqb (h_id (p_hdr m)) (peer_id P s))) eqn:E2; [lia|]. cbn [negb].
    destruct (handle_request P (inner P s) m) as [i' out] eqn:Hh. cbn [fst snd].
    destruct out as [b|b]; eexists; eexists; (split; [reflexivity|]);
      unfold same_identity, stamp_response, spi_i, spi_r, peer_spi, with_state, with_inner; cbn;
      rewrite ?peer_spi_set; repeat split; reflexivity.
  Qed.

  (* ------------------------------------------------------------------ C08: response window *)

  Lemma response_other_id_dropped (s : sa) (m : pmsg) (now : Z) :
    h_id (p_hdr m) <> my_id P s -> process_response P s m now = (s, None).
  Proof.
    intros H. unfold process_response, res_id_unexpected.
    destruct (negb (Z.eqb (h_id (p_hdr m)) (my_id P s))) eqn:E; [reflexivity|lia].
  Qed.

  (** requests built by the shell carry the current send counter and the IKE_SA's identity *)
  Lemma send_request_spec (s : sa) (now : Z) (d : dgram (B P)) :
    let '(s', d') := send_request P s now d in
    d' = d /\ req_data P s' = Some d /\ rt_n P s' = 1 /\ rt_at P s' = now + RETRANSMISSION_DELAY /\
    inner P s' = inner P s /\ my_id P s' = my_id P s /\ peer_id P s' = peer_id P s /\
    last_resp P s' = last_resp P s /\ dpd_at P s' = dpd_at P s /\ pending P s' = pending P s /\ same_identity s s'.
  Proof. unfold send_request, same_identity. cbn. repeat split; reflexivity. Qed.

  Lemma stamp_request_spec (s : sa) (exch : Z) :
    stamp_request P s exch = mk_hdr (spi_i P s) (spi_r P s) GEN_MAJOR GEN_MINOR exch false (is_init P s) (my_id P s).
  Proof. reflexivity. Qed.

  (* ------------------------------------------------------------------ C03 *)

  (** with keys, a message that did not pass the integrity check changes NOTHING and is answered at most with the
      stored IKE_SA_INIT response *)
  Lemma unauthenticated_no_effect (s : sa) (m : pmsg) (now : Z) :
    has_keys P (inner P s) = true -> p_auth m = false ->
    process_message P s m now = (s, None) \/
    (process_message P s m now = (s, last_resp P s) /\
     h_exch (p_hdr m) = EX_IKE_SA_INIT /\ h_resp (p_hdr m) = false /\ state P s = ST_INIT_RES_SENT /\
     h_id (p_hdr m) = peer_id P s - 1).
  Proof.
    intros Hk Ha. unfold process_message, process_message_decision. rewrite Hk, Ha.
    repeat match goal with |- context [if ?c then (_, _) else _] => destruct c eqn:? end;
      cbn [andb negb] in *; try discriminate; try (left; reflexivity).
    right. split; [reflexivity|]. repeat split; lia.
  Qed.

  (* ------------------------------------------------------------------ C13 *)

  Lemma retransmission_is_stored_request (s s' : sa) (now : Z) (d : dgram (B P)) :
    check_retransmission P s now = (s', Some d) ->
    req_data P s = Some d /\ req_data P s' = Some d /\ inner P s' = inner P s /\
    rt_n P s' = rt_n P s + 1 /\ rt_at P s' = rt_at P s + (rt_n P s + 1) * RETRANSMISSION_DELAY /\
    rt_n P s < MAX_RETRANSMISSIONS /\ rt_at P s < now /\ rt_states (state P s) = true.
  Proof.
    unfold check_retransmission, rt_next_at, rt_due, rt_giveup. intros H.
    destruct (rt_states (state P s)) eqn:E0; [|inversion H].
    destruct (Z.ltb (rt_at P s) now) eqn:E1; [|inversion H].
    destruct (Z.geb (rt_n P s) MAX_RETRANSMISSIONS) eqn:E2; [inversion H|].
    inversion H; subst; cbn. repeat split; try reflexivity; try lia; try assumption.
  Qed.

  Lemma retransmission_gives_up (s : sa) (now : Z) :
    rt_states (state P s) = true -> rt_at P s < now -> rt_n P s >= MAX_RETRANSMISSIONS ->
    check_retransmission P s now = (with_state P s ST_DELETED, None) /\ state P (with_state P s ST_DELETED) = ST_DELETED.
  Proof.
    intros H0 H1 H2. unfold check_retransmission, rt_due, rt_giveup. rewrite H0.
    destruct (Z.ltb (rt_at P s) now) eqn:E1; [|lia].
    destruct (Z.geb (rt_n P s) MAX_RETRANSMISSIONS) eqn:E2; [|lia].
    split; [reflexivity|]. unfold state, with_state, with_inner. cbn. apply istate_set.
  Qed.

  Lemma no_retransmission_when_not_waiting (s : sa) (now : Z) :
    rt_states (state P s) = false -> check_retransmission P s now = (s, None).
  Proof. intros H. unfold check_retransmission. rewrite H. reflexivity. Qed.

  Lemma no_retransmission_before_deadline (s : sa) (now : Z) :
    now <= rt_at P s -> check_retransmission P s now = (s, None).
  Proof.
    intros H. unfold check_retransmission, rt_due.
    destruct (rt_states (state P s)); [|reflexivity].
    destruct (Z.ltb (rt_at P s) now) eqn:E; [lia|reflexivity].
  Qed.

  (** a sequence of timer sweeps at the given times with no response in between *)
  Fixpoint sweeps (times : list Z) (s : sa) : sa * list (dgram (B P)) :=
    match times with
    | [] => (s, [])
    | t :: rest =>
        let '(s1, o) := check_retransmission P s t in
        let '(s2, os) := sweeps rest s1 in
        (s2, match o with Some d => d :: os | None => os end)
    end.

  Lemma deleted_is_not_waiting : rt_states ST_DELETED = false.
  Proof. reflexivity. Qed.

  (** schedule invariant: after n-1 retransmissions of a request first sent at t0 the deadline is
      t0 + DELAY * n(n+1)/2, i.e. t0+2, t0+6, t0+12, t0+20: gaps 4, 6, 8 (non-decreasing) *)
  Definition on_schedule (t0 : Z) (s : sa) : Prop :=
    1 <= rt_n P s /\ 2 * rt_at P s = 2 * t0 + RETRANSMISSION_DELAY * (rt_n P s * (rt_n P s + 1)).

  Lemma send_on_schedule (s : sa) (now : Z) (d : dgram (B P)) : on_schedule now (fst (send_request P s now d)).
  Proof. unfold on_schedule, send_request, RETRANSMISSION_DELAY. cbn [fst rt_n rt_at]. lia. Qed.

  Lemma sweeps_spec (t0 : Z) (times : list Z) : forall (s : sa) (d0 : dgram (B P)),
    on_schedule t0 s -> req_data P s = Some d0 -> rt_states (state P s) = true ->
    let '(s', out) := sweeps times s in
    (* every retransmission is the stored request, byte for byte *)
    Forall (fun d => d = d0) out /\
    (* at most MAX_RETRANSMISSIONS transmissions in total *)
    Z.of_nat (length out) + rt_n P s <= Z.max (rt_n P s) MAX_RETRANSMISSIONS /\
    (* it either still waits, on schedule, or has been given up *)
    ((rt_states (state P s') = true /\ on_schedule t0 s' /\ req_data P s' = Some d0 /\
      rt_n P s' = rt_n P s + Z.of_nat (length out))
     \/ state P s' = ST_DELETED).
  Proof.
    induction times as [|t rest IH]; intros s d0 Hs Hr Hw.
    - cbn [sweeps length]. split; [constructor|]. split; [lia|]. left.
      split; [exact Hw|]. split; [exact Hs|]. split; [exact Hr|]. lia.
    - cbn [sweeps].
      destruct (check_retransmission P s t) as [s1 o] eqn:Hc.
      destruct o as [d|].
      + apply retransmission_is_stored_request in Hc.
        destruct Hc as (Hd & Hd1 & Hin & Hn & Hat & Hlt & Hdue & _).
        assert (Hd0 : d = d0) by congruence. subst d.
        assert (Hs1 : on_schedule t0 s1).
        { unfold on_schedule in *. rewrite Hn, Hat. unfold RETRANSMISSION_DELAY in *. lia. }
        assert (Hw1 : rt_states (state P s1) = true) by (unfold state in *; rewrite Hin; exact Hw).
        specialize (IH s1 d0 Hs1 Hd1 Hw1). destruct (sweeps rest s1) as [s2 os].
        destruct IH as (IHa & IHb & IHc). split; [constructor; [reflexivity|exact IHa]|].
        cbn [length]. split; [lia|].
        destruct IHc as [(A & Bq & C & D)|A]; [left|right; exact A].
        split; [exact A|]. split; [exact Bq|]. split; [exact C|]. lia.
      + (* no datagram: nothing happened or it gave up *)
        unfold check_retransmission in Hc. rewrite Hw in Hc.
        destruct (rt_due (rt_at P s) t) eqn:Ed.
        * destruct (rt_giveup (rt_n P s)) eqn:Eg; [|inversion Hc; congruence].
          inversion Hc; subst s1. clear Hc.
          assert (Hdel : state P (with_state P s ST_DELETED) = ST_DELETED)
            by (unfold state, with_state, with_inner; cbn; apply istate_set).
          assert (Hnw : forall ts, sweeps ts (with_state P s ST_DELETED) = (with_state P s ST_DELETED, [])).
          { induction ts as [|t' ts' IHts]; [reflexivity|]. cbn [sweeps].
            rewrite no_retransmission_when_not_waiting by (rewrite Hdel; reflexivity).
            rewrite IHts. reflexivity. }
          rewrite Hnw. split; [constructor|]. cbn [length]. split; [lia|]. right. exact Hdel.
        * inversion Hc; subst s1. specialize (IH s d0 Hs Hr Hw). destruct (sweeps rest s) as [s2 os]. exact IH.
  Qed.

  Lemma sweeps_deleted (times : list Z) (s : sa) :
    state P s = ST_DELETED -> sweeps times s = (s, []).
  Proof.
    intros Hd. induction times as [|t rest IH]; [reflexivity|]. cbn [sweeps].
    rewrite no_retransmission_when_not_waiting by (rewrite Hd; reflexivity). rewrite IH. reflexivity.
  Qed.

  (** once enough sweeps have found the last deadline (t0 + 20 s) expired the IKE_SA is gone, whatever the tick
      pattern: at most MAX_RETRANSMISSIONS - n + 1 of them are needed when n transmissions have been made *)
  Lemma due_sweeps_delete (t0 : Z) (times : list Z) : forall (s : sa) (d0 : dgram (B P)),
    on_schedule t0 s -> req_data P s = Some d0 -> rt_states (state P s) = true ->
    rt_n P s <= MAX_RETRANSMISSIONS ->
    (forall t, In t times -> t0 + RETRANSMISSION_DELAY * 10 < t) ->
    (Z.to_nat (MAX_RETRANSMISSIONS - rt_n P s) < length times)%nat ->
    state P (fst (sweeps times s)) = ST_DELETED.
  Proof.
    induction times as [|t rest IH]; intros s d0 Hs Hr Hw Hn Hall Hlen.
    - cbn in Hlen. lia.
    - cbn [sweeps].
      assert (Hdue : rt_at P s < t).
      { specialize (Hall t (or_introl eq_refl)). destruct Hs as [Hs1 Hs2].
        unfold MAX_RETRANSMISSIONS, RETRANSMISSION_DELAY in *. nia. }
      destruct (Z_lt_ge_dec (rt_n P s) MAX_RETRANSMISSIONS) as [Hlt|Hge].
      + (* retransmit *)
        destruct (check_retransmission P s t) as [s1 o] eqn:Hc.
        unfold check_retransmission, rt_due, rt_giveup in Hc. rewrite Hw in Hc.
        destruct (Z.ltb (rt_at P s) t) eqn:E1; [|lia].
        destruct (Z.geb (rt_n P s) MAX_RETRANSMISSIONS) eqn:E2; [lia|].
        inversion Hc; subst s1 o. clear Hc.
        match goal with |- context [sweeps rest ?x] => set (s1 := x) end.
        assert (Hs1 : on_schedule t0 s1).
        { unfold on_schedule, s1, rt_next_at in *. cbn [rt_n rt_at]. unfold RETRANSMISSION_DELAY in *. nia. }
        specialize (IH s1 d0 Hs1 Hr Hw).
        assert (Hn1 : rt_n P s1 <= MAX_RETRANSMISSIONS) by (unfold s1; cbn [rt_n]; lia).
        assert (Hl1 : (Z.to_nat (MAX_RETRANSMISSIONS - rt_n P s1) < length rest)%nat).
        { unfold s1; cbn [rt_n]. cbn [length] in Hlen. unfold MAX_RETRANSMISSIONS in *. lia. }
        specialize (IH Hn1 (fun t' Ht' => Hall t' (or_intror Ht')) Hl1).
        destruct (sweeps rest s1) as [s2 os]. exact IH.
      + destruct (retransmission_gives_up s t Hw Hdue Hge) as [Hg Hd]. rewrite Hg.
        rewrite (sweeps_deleted rest _ Hd). exact Hd.
  Qed.

  (* ------------------------------------------------------------------ DPD and lifetime timers *)

  Lemma dpd_fires (s : sa) (now : Z) :
    state P s = ST_ESTABLISHED -> dpd_at P s < now ->
    exists s' d, check_dpd P s now = (s', Some d) /\ req_data P s' = Some d /\
                 d_hdr d = stamp_request P (with_inner P s (fst (gen_dpd P (inner P s))))
                                         (fst (snd (gen_dpd P (inner P s)))) /\
                 rt_n P s' = 1 /\ rt_at P s' = now + RETRANSMISSION_DELAY.
  Proof.
    intros Hst Hd. unfold check_dpd, dpd_due. rewrite Hst.
    destruct (Z.ltb (dpd_at P s) now) eqn:E; [|lia]. cbn [andb].
    destruct (gen_dpd P (inner P s)) as [i' [exch body]]. cbn.
    eexists; eexists; repeat split; reflexivity.
  Qed.

  Lemma dpd_silent (s : sa) (now : Z) :
    state P s <> ST_ESTABLISHED \/ now <= dpd_at P s -> check_dpd P s now = (s, None).
  Proof.
    intros H. unfold check_dpd, dpd_due.
    destruct (Z.ltb (dpd_at P s) now) eqn:E1; destruct (Z.eqb (state P s) ST_ESTABLISHED) eqn:E2;
      cbn [andb]; try reflexivity. lia.
  Qed.

  Lemma lifetime_fires (s : sa) (now : Z) :
    state P s = ST_ESTABLISHED ->
    (del_at P s < now -> exists s' d, check_lifetime P s now = (s', Some d) /\
        inner P s' = fst (gen_delete_ike P (inner P s)) /\ req_data P s' = Some d) /\
    (now <= del_at P s -> rek_at P s < now -> exists s' d, check_lifetime P s now = (s', Some d) /\
        inner P s' = fst (gen_rekey_ike P (inner P s)) /\ req_data P s' = Some d) /\
    (now <= del_at P s -> now <= rek_at P s -> check_lifetime P s now = (s, None)).
  Proof.
    intros Hst. unfold check_lifetime, life_delete_due, life_rekey_due. rewrite Hst. cbn [Z.eqb].
    replace (Z.eqb ST_ESTABLISHED ST_ESTABLISHED) with true by reflexivity.
    repeat split; intros.
    - destruct (Z.ltb (del_at P s) now) eqn:E; [|lia].
      destruct (gen_delete_ike P (inner P s)) as [i' [exch body]]. cbn. eexists; eexists; repeat split; reflexivity.
    - destruct (Z.ltb (del_at P s) now) eqn:E; [lia|].
      destruct (Z.ltb (rek_at P s) now) eqn:E2; [|lia].
      destruct (gen_rekey_ike P (inner P s)) as [i' [exch body]]. cbn. eexists; eexists; repeat split; reflexivity.
    - destruct (Z.ltb (del_at P s) now) eqn:E; [lia|].
      destruct (Z.ltb (rek_at P s) now) eqn:E2; [lia|]. reflexivity.
  Qed.

  Lemma lifetime_silent (s : sa) (now : Z) :
    state P s <> ST_ESTABLISHED -> check_lifetime P s now = (s, None).
  Proof.
    intros H. unfold check_lifetime. destruct (Z.eqb (state P s) ST_ESTABLISHED) eqn:E; [lia|reflexivity].
  Qed.

End Proofs.

(* ====================================================================== whole timer sweeps; the silent-peer bound *)
Section Sweeps.
  Variable P : iface.
  Hypothesis istate_set : forall i z, istate P (set_state P i z) = z.
  (** contract of the DPD generator (generate_dead_peer_detection_request): it leaves the IkeSa in a
      request-outstanding state; regenerated fact: it assigns DPD_REQ_SENT, which is one (see Props/C13.v) *)
  Hypothesis dpd_request_outstanding : forall i, rt_states (istate P (fst (gen_dpd P i))) = true.

  (** one iteration of the three timer loops of main_loop for one IkeSa, in their order *)
  Definition full_sweep (s : sa P) (now : Z) : sa P * list (dgram (B P)) :=
    let '(s1, o1) := check_retransmission P s now in
    let '(s2, o2) := check_dpd P s1 now in
    let '(s3, o3) := check_lifetime P s2 now in
    (s3, (match o1 with Some d => [d] | None => [] end) ++ (match o2 with Some d => [d] | None => [] end)
         ++ (match o3 with Some d => [d] | None => [] end)).

  Fixpoint full_sweeps (times : list Z) (s : sa P) : sa P :=
    match times with
    | [] => s
    | t :: rest => full_sweeps rest (fst (full_sweep s t))
    end.

  Lemma established_not_waiting : rt_states ST_ESTABLISHED = false.
  Proof. reflexivity. Qed.

  Lemma waiting_not_established st : rt_states st = true -> st <> ST_ESTABLISHED.
  Proof. intros H ->. rewrite established_not_waiting in H. discriminate. Qed.

  (** while a request is outstanding (or once DELETED) a whole sweep is just the retransmission check *)
  Lemma full_sweep_when_waiting (s : sa P) (now : Z) :
    rt_states (state P s) = true ->
    fst (full_sweep s now) = fst (check_retransmission P s now).
  Proof.
    intros Hw. unfold full_sweep.
    destruct (check_retransmission P s now) as [s1 o1] eqn:Hc. cbn [fst].
    assert (Hs1 : state P s1 <> ST_ESTABLISHED).
    { unfold check_retransmission in Hc. rewrite Hw in Hc.
      destruct (rt_due (rt_at P s) now); [destruct (rt_giveup (rt_n P s))|]; inversion Hc; subst.
      - unfold state, with_state, with_inner. cbn. rewrite istate_set. discriminate.
      - unfold state. cbn. apply waiting_not_established. exact Hw.
      - apply waiting_not_established. exact Hw. }
    rewrite (dpd_silent P s1 now (or_introl Hs1)). rewrite (lifetime_silent P s1 now Hs1). reflexivity.
  Qed.

  Lemma full_sweeps_when_waiting (times : list Z) : forall (s : sa P) (t0 : Z) (d0 : dgram (B P)),
    on_schedule P t0 s -> req_data P s = Some d0 -> rt_states (state P s) = true ->
    full_sweeps times s = fst (sweeps P times s).
  Proof.
    induction times as [|t rest IH]; intros s t0 d0 Hs Hr Hw; [reflexivity|].
    cbn [full_sweeps sweeps]. rewrite (full_sweep_when_waiting s t Hw).
    destruct (check_retransmission P s t) as [s1 o] eqn:Hc. cbn [fst].
    destruct (sweeps P rest s1) as [s2 os] eqn:Hs2. cbn [fst].
    destruct o as [d|].
    - apply (retransmission_is_stored_request P) in Hc.
      destruct Hc as (Hd & Hd1 & Hin & Hn & Hat & Hlt & Hdue & _).
      assert (Hs1 : on_schedule P t0 s1).
      { unfold on_schedule in *. rewrite Hn, Hat. unfold RETRANSMISSION_DELAY in *. lia. }
      assert (Hw1 : rt_states (state P s1) = true) by (unfold state in *; rewrite Hin; exact Hw).
      assert (Hr1 : req_data P s1 = Some d0) by congruence.
      rewrite (IH s1 t0 d0 Hs1 Hr1 Hw1), Hs2. reflexivity.
    - unfold check_retransmission in Hc. rewrite Hw in Hc.
      destruct (rt_due (rt_at P s) t).
      + destruct (rt_giveup (rt_n P s)); [|inversion Hc; congruence].
        inversion Hc; subst s1.
        assert (Hdel : state P (with_state P s ST_DELETED) = ST_DELETED)
          by (unfold state, with_state, with_inner; cbn; apply istate_set).
        rewrite (sweeps_deleted P rest _ Hdel) in Hs2. inversion Hs2; subst s2.
        clear -Hdel istate_set. induction rest as [|t' r IHr]; [reflexivity|].
        cbn [full_sweeps]. unfold full_sweep.
        rewrite (no_retransmission_when_not_waiting P) by (rewrite Hdel; reflexivity).
        rewrite (dpd_silent P) by (left; rewrite Hdel; discriminate).
        rewrite (lifetime_silent P) by (rewrite Hdel; discriminate). cbn [fst]. exact IHr.
      + inversion Hc; subst s1. rewrite (IH s t0 d0 Hs Hr Hw), Hs2. reflexivity.
  Qed.

  (** The silent-peer bound.  An ESTABLISHED IkeSa whose liveness deadline has passed at the sweep at time [t]
      (nothing authentic has arrived for the DPD interval) sends its probe at [t]; if nothing authentic arrives
      afterwards, then after MAX_RETRANSMISSIONS further sweeps later than t + 20 s the IkeSa is DELETED (and the
      controller then removes it with all its kernel SAs: C16 / C10).  No assumption on the tick pattern. *)
  Lemma silent_peer_ends_ike_sa (s : sa P) (t : Z) (times : list Z) :
    state P s = ST_ESTABLISHED -> dpd_at P s < t ->
    (forall t', In t' times -> t + RETRANSMISSION_DELAY * 10 < t') ->
    (Z.to_nat MAX_RETRANSMISSIONS <= length times)%nat ->
    state P (full_sweeps (t :: times) s) = ST_DELETED.
  Proof.
    intros Hst Hdpd Hall Hlen. cbn [full_sweeps]. unfold full_sweep.
    rewrite (no_retransmission_when_not_waiting P) by (rewrite Hst; reflexivity).
    destruct (dpd_fires P s t Hst Hdpd) as (s1 & d & Hc & Hr & Hh & Hn & Hat). rewrite Hc.
    assert (Hin1 : inner P s1 = fst (gen_dpd P (inner P s))).
    { unfold check_dpd, dpd_due in Hc. rewrite Hst in Hc.
      destruct (Z.ltb (dpd_at P s) t) eqn:E; [|lia]. cbn [andb] in Hc.
      replace (Z.eqb ST_ESTABLISHED ST_ESTABLISHED) with true in Hc by reflexivity.
      destruct (gen_dpd P (inner P s)) as [i' [exch body]]. cbn in Hc. inversion Hc. reflexivity. }
    assert (Hw1 : rt_states (state P s1) = true) by (unfold state; rewrite Hin1; apply dpd_request_outstanding).
    rewrite (lifetime_silent P s1 t (waiting_not_established _ Hw1)). cbn [fst].
    assert (Hs1 : on_schedule P t s1) by (unfold on_schedule; rewrite Hn, Hat; unfold RETRANSMISSION_DELAY; lia).
    rewrite (full_sweeps_when_waiting times s1 t d Hs1 Hr Hw1).
    apply (due_sweeps_delete P istate_set t times s1 d Hs1 Hr Hw1); [rewrite Hn; unfold MAX_RETRANSMISSIONS; lia|exact Hall|].
    rewrite Hn. unfold MAX_RETRANSMISSIONS in *. lia.
  Qed.
End Sweeps.

(** the same with the generator contract stated against the regenerated table of states that
    check_dead_peer_detection_timer can assign: all of them are request-outstanding states *)
Lemma silent_peer_ends_ike_sa_gen (P : iface) :
  (forall i z, istate P (set_state P i z) = z) ->
  (forall i, In (istate P (fst (gen_dpd P i))) assigns_check_dead_peer_detection_timer) ->
  forall (s : sa P) (t : Z) (times : list Z),
  state P s = ST_ESTABLISHED -> dpd_at P s < t ->
  (forall t', In t' times -> t + RETRANSMISSION_DELAY * 10 < t') ->
  (Z.to_nat MAX_RETRANSMISSIONS <= length times)%nat ->
  state P (full_sweeps P (t :: times) s) = ST_DELETED.
Proof.
  intros Hset Hgen. apply silent_peer_ends_ike_sa; [exact Hset|].
  intros i. specialize (Hgen i).
  assert (Hall : forallb rt_states assigns_check_dead_peer_detection_timer = true) by (vm_compute; reflexivity).
  rewrite forallb_forall in Hall. apply Hall. exact Hgen.
Qed.
