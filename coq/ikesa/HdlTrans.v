(** C09 for the concrete handler model of Hdl.v: every transition of IkeSa.state made by an entry point is one the
    state machine of Transitions.v allows; the entry points are the total functions of Shell.v instantiated with
    [hdl_iface E]; the RFC 7296 2.25 collision answers of the concrete CREATE_CHILD_SA request handler. *)
From Coq Require Import ZArith NArith Bool List Lia ZifyBool.
From RecordUpdate Require Import RecordSet.
From VLib Require Import Bytes.
From IkeSa Require Import Gen.IkeFacts Shell Hdl Transitions HdlAuth.
Import ListNotations RecordSetNotations.
Open Scope Z_scope.

(* ------------------------------------------------------------------------------------------------ *)
(** * Helpers that never touch [st] *)

Lemma create_child_sa_st ch k i : keeps ob_st (create_child_sa ch k i).
Proof. unfold create_child_sa. keeps_go. Qed.
Lemma delete_child_sa_st ch : keeps ob_st (delete_child_sa ch).
Proof. unfold delete_child_sa. keeps_go. Qed.
#[export] Hint Resolve create_child_sa_st delete_child_sa_st : kp.
Lemma opt_nonce_st x m : keeps ob_st (opt_nonce x m).
Proof. unfold opt_nonce. keeps_go. Qed.
#[export] Hint Resolve opt_nonce_st : kp.
Lemma child_nego_req_body_st E m : keeps ob_st (child_nego_req_body E m).
Proof. unfold child_nego_req_body. keeps_go. Qed.
#[export] Hint Resolve child_nego_req_body_st : kp.
Lemma child_nego_req_st E m : keeps ob_st (child_nego_req E m).
Proof.
  unfold child_nego_req. apply keeps_try; [auto with kp|]. intros e k hk.
  destruct e; cbn in hk; try discriminate hk; injection hk as <-; apply keeps_ret.
Qed.
Lemma child_nego_res_st E m : keeps ob_st (child_nego_res E m).
Proof. unfold child_nego_res. keeps_go. Qed.
#[export] Hint Resolve child_nego_req_st child_nego_res_st : kp.
Lemma delete_spis_st proto spis acc : keeps ob_st (delete_spis proto spis acc).
Proof. revert acc. induction spis as [|spi r ih]; intros acc; cbn [delete_spis]; keeps_go. Qed.
#[export] Hint Resolve delete_spis_st : kp.
Lemma delete_all_st l : keeps ob_st (delete_all l).
Proof. induction l as [|c r ih]; cbn [delete_all]; keeps_go. Qed.
#[export] Hint Resolve delete_all_st : kp.
Lemma delete_child_sas_st : keeps ob_st delete_child_sas.
Proof. unfold delete_child_sas. keeps_go. Qed.

(* ------------------------------------------------------------------------------------------------ *)
(** * What each handler does to [st] (whatever its outcome: Ok, Raise or Stuck) *)

Ltac wp_known ::=
  first [ wp_use generate_ike_auth_request_exits | wp_use generate_ike_sa_init_request_exits
        | wp_use generate_create_child_sa_request_exits | wp_use generate_delete_child_sa_request_exits
        | wp_use generate_dpd_request_exits | wp_use generate_delete_ike_sa_request_exits
        | wp_use generate_rekey_ike_sa_request_exits ].

Lemma auth_request_exits E m s :
  wp (process_ike_auth_request E m) s
     (fun r s' => match r with
                  | Ok _ => st (co s) = ST_INIT_RES_SENT /\ st (co s') = ST_ESTABLISHED
                  | _ => st (co s') = st (co s)
                  end).
Proof. unfold process_ike_auth_request. wp_run st_leaf. Qed.

Lemma delete_loop_exits dels acc s :
  wp (delete_loop dels acc) s (fun _ s' => st (co s') = st (co s) \/ st (co s') = ST_DELETED).
Proof.
  revert acc s. induction dels as [|d r ih]; intros acc s; cbn [delete_loop].
  - wp_run st_leaf.
  - destruct d; try apply ih.
    destruct (Z.eqb proto PROTO_IKE); [wp_run st_leaf|].
    destruct (Z.eqb proto PROTO_AH || Z.eqb proto PROTO_ESP); [|apply ih].
    wp_step. wp_step; cbv beta iota; try st_leaf.
    eapply wp_conseq; [apply ih|]. cbv beta. intros _ s1 h. st_leaf.
Qed.

Lemma info_request_exits m s :
  wp (process_informational_request m) s
     (fun _ s' => st (co s') = st (co s) \/
                  (ST_ESTABLISHED <= st (co s) <= ST_REKEYED /\ st (co s') = ST_DELETED)).
Proof.
  unfold process_informational_request. wp_step. wp_step; [|st_leaf].
  apply memZ_states_range in hchk.
  eapply wp_conseq; [apply delete_loop_exits|]. cbv beta. intros _ s1 h. st_leaf.
Qed.

Lemma ccsa_request_exits E m s :
  wp (process_create_child_sa_request E m) s
     (fun r s' => st (co s') = st (co s) \/
                  (st (co s) = ST_ESTABLISHED /\ st (co s') = ST_REKEYED /\ exists ps, r = Ok ps)).
Proof. unfold process_create_child_sa_request. wp_run ltac:(try st_leaf). right. repeat split; eauto; st_leaf. Qed.

Lemma auth_response_exits E m s :
  wp (process_ike_auth_response E m) s
     (fun _ s' => st (co s') = st (co s) \/ (st (co s) = ST_AUTH_REQ_SENT /\ st (co s') = ST_ESTABLISHED)).
Proof. unfold process_ike_auth_response. wp_run st_leaf. Qed.

Lemma ccsa_response_exits E m s :
  wp (process_create_child_sa_response E m) s
     (fun _ s' =>
        st (co s') = st (co s) \/
        ((st (co s) = ST_NEW_CHILD_REQ_SENT \/ st (co s) = ST_REK_CHILD_REQ_SENT) /\
         (st (co s') = ST_ESTABLISHED \/ st (co s') = ST_DEL_CHILD_REQ_SENT)) \/
        (st (co s) = ST_REK_IKE_SA_REQ_SENT /\
         (st (co s') = ST_ESTABLISHED \/ st (co s') = ST_DEL_IKE_SA_REQ_SENT \/
          st (co s') = ST_DEL_AFTER_REKEY_IKE_SA_REQ_SENT))).
Proof. unfold process_create_child_sa_response. wp_run st_leaf. Qed.

Lemma info_response_exits m s :
  wp (process_informational_response m) s
     (fun _ s' =>
        st (co s') = st (co s) \/
        ((st (co s) = ST_DEL_CHILD_REQ_SENT \/ st (co s) = ST_DPD_REQ_SENT) /\ st (co s') = ST_ESTABLISHED) \/
        ((st (co s) = ST_DEL_IKE_SA_REQ_SENT \/ st (co s) = ST_DEL_AFTER_REKEY_IKE_SA_REQ_SENT) /\
         st (co s') = ST_DELETED)).
Proof. unfold process_informational_response. wp_run st_leaf. Qed.

(* ------------------------------------------------------------------------------------------------ *)
(** * Every handler step is allowed by the specification *)

(** one step from [a] to [b] that the state machine of Transitions.v allows, ending in a state of the machine *)
Definition step_ok (a b : Z) : Prop := allowed a b = true /\ In b all_states.

Lemma in_all_states b : existsb (Z.eqb b) all_states = true -> In b all_states.
Proof. intros h. apply existsb_exists in h. destruct h as [x [h1 h2]]. apply Z.eqb_eq in h2. subst; auto. Qed.
Lemma step_ok_b a b : allowed a b && existsb (Z.eqb b) all_states = true -> step_ok a b.
Proof. intros h. apply andb_true_iff in h. destruct h as [h1 h2]. split; [exact h1|apply in_all_states; exact h2]. Qed.

(** finite case analysis: [a] ranges over all_states, the hypotheses determine [b] *)
Ltac step_cases :=
  repeat match goal with
         | H : In _ all_states |- _ => unfold all_states in H; cbn [In] in H
         | H : _ \/ _ |- _ => destruct H as [H|H]
         | H : _ /\ _ |- _ => destruct H as [? ?]
         | H : False |- _ => destruct H
         end;
  st_consts; subst;
  first [ lia | apply step_ok_b; vm_compute; reflexivity ].

Lemma stay_or_deleted_ok a b : In a all_states -> b = a \/ b = ST_DELETED -> step_ok a b.
Proof. intros ha hb. step_cases. Qed.

Lemma init_request_ok a b : In a all_states -> b = a \/ (a = ST_INITIAL /\ b = ST_INIT_RES_SENT) -> step_ok a b.
Proof. intros ha hb. step_cases. Qed.
Lemma auth_request_ok a b : In a all_states -> b = a \/ (a = ST_INIT_RES_SENT /\ b = ST_ESTABLISHED) -> step_ok a b.
Proof. intros ha hb. step_cases. Qed.
Lemma info_request_ok a b :
  In a all_states -> b = a \/ (ST_ESTABLISHED <= a <= ST_REKEYED /\ b = ST_DELETED) -> step_ok a b.
Proof. intros ha hb. step_cases. Qed.
Lemma ccsa_request_ok a b : In a all_states -> b = a \/ (a = ST_ESTABLISHED /\ b = ST_REKEYED) -> step_ok a b.
Proof. intros ha hb. step_cases. Qed.
Lemma init_response_ok a b :
  In a all_states -> b = a \/ (a = ST_INIT_REQ_SENT /\ b = ST_AUTH_REQ_SENT) -> step_ok a b.
Proof. intros ha hb. step_cases. Qed.
Lemma auth_response_ok a b :
  In a all_states -> b = a \/ (a = ST_AUTH_REQ_SENT /\ b = ST_ESTABLISHED) -> step_ok a b.
Proof. intros ha hb. step_cases. Qed.
Lemma ccsa_response_ok a b :
  In a all_states ->
  b = a \/
  ((a = ST_NEW_CHILD_REQ_SENT \/ a = ST_REK_CHILD_REQ_SENT) /\ (b = ST_ESTABLISHED \/ b = ST_DEL_CHILD_REQ_SENT)) \/
  (a = ST_REK_IKE_SA_REQ_SENT /\
   (b = ST_ESTABLISHED \/ b = ST_DEL_IKE_SA_REQ_SENT \/ b = ST_DEL_AFTER_REKEY_IKE_SA_REQ_SENT)) ->
  step_ok a b.
Proof. intros ha hb. step_cases. Qed.
Lemma info_response_ok a b :
  In a all_states ->
  b = a \/ ((a = ST_DEL_CHILD_REQ_SENT \/ a = ST_DPD_REQ_SENT) /\ b = ST_ESTABLISHED) \/
  ((a = ST_DEL_IKE_SA_REQ_SENT \/ a = ST_DEL_AFTER_REKEY_IKE_SA_REQ_SENT) /\ b = ST_DELETED) ->
  step_ok a b.
Proof. intros ha hb. step_cases. Qed.
Lemma acquire_ok a b :
  In a all_states ->
  b = a \/ (a = ST_INITIAL /\ b = ST_INIT_REQ_SENT) \/ (a = ST_ESTABLISHED /\ b = ST_NEW_CHILD_REQ_SENT) -> step_ok a b.
Proof. intros ha hb. step_cases. Qed.
Lemma expire_ok a b :
  In a all_states ->
  b = a \/ (a = ST_ESTABLISHED /\ (b = ST_REK_CHILD_REQ_SENT \/ b = ST_DEL_CHILD_REQ_SENT)) -> step_ok a b.
Proof. intros ha hb. step_cases. Qed.

Lemma step_ok_refl a : In a all_states -> step_ok a a.
Proof. intros ha. apply stay_or_deleted_ok; auto. Qed.
Lemma step_ok_deleted a : In a all_states -> step_ok a ST_DELETED.
Proof. intros ha. apply stay_or_deleted_ok; auto. Qed.

(** the stuck marker: [stuck_state] assigns -1, which is not a state of the machine.  It stands for "the environment
    tape did not match" and, for the timer-driven generators and the local triggers (whose exceptions the model does
    not distinguish from that), for an exception leaving the generator. *)
Definition STUCK : Z := -1.

(** ** the three wrappers around the handlers *)
Lemma h_request_post2 E s m (Q : isa -> hout body -> Prop) :
  (request_handler E (h_exch (p_hdr m)) = None -> Q s (HErr ([], []))) ->
  (forall f, request_handler E (h_exch (p_hdr m)) = Some f ->
             wp (f m) (clear_flags s)
                (fun r s' => match r with
                             | Ok _ => forall b, Q s' (HOk b)
                             | Raise _ => forall b, Q s' (HErr b)
                             | Stuck => forall b, Q (stuck_state s') (HErr b)
                             end)) ->
  Q (fst (h_request E s m)) (snd (h_request E s m)).
Proof.
  intros hn hs. unfold h_request. destruct (request_handler E (h_exch (p_hdr m))) as [f|]; [|apply hn; reflexivity].
  specialize (hs f eq_refl). unfold wp in hs. destruct (f m (clear_flags s)) as [[a|e|] s1]; apply hs.
Qed.

Definition request_step (a : Z) (s' : isa) (out : hout body) : Prop :=
  match out with
  | HOk _ => step_ok a (st (co s'))
  | HErr _ => st (co s') = STUCK \/ step_ok a (st (co s'))
  end.

Theorem h_request_step E s m :
  In (st (co s)) all_states -> request_step (st (co s)) (fst (h_request E s m)) (snd (h_request E s m)).
Proof.
  intros ha. apply h_request_post2.
  - intros _. right. apply step_ok_refl; exact ha.
  - intros f hf. unfold request_handler in hf.
    destruct (Z.eqb (h_exch (p_hdr m)) EX_IKE_SA_INIT).
    { injection hf as <-. eapply wp_conseq; [apply init_request_exits|]. cbv beta. intros r s1 h. cbn in h.
      destruct r; intros b; cbn; try (left; reflexivity); try right; apply init_request_ok; auto; st_lia. }
    destruct (Z.eqb (h_exch (p_hdr m)) EX_IKE_AUTH).
    { injection hf as <-. eapply wp_conseq; [apply auth_request_exits|]. cbv beta. intros r s1 h. cbn in h.
      destruct r; intros b; cbn; try (left; reflexivity); try right; apply auth_request_ok; auto; st_lia. }
    destruct (Z.eqb (h_exch (p_hdr m)) EX_INFORMATIONAL).
    { injection hf as <-. eapply wp_conseq; [apply info_request_exits|]. cbv beta. intros r s1 h. cbn in h.
      destruct r; intros b; cbn; try (left; reflexivity); try right; apply info_request_ok; auto; st_lia. }
    destruct (Z.eqb (h_exch (p_hdr m)) EX_CREATE_CHILD_SA); [|discriminate hf].
    injection hf as <-. eapply wp_conseq; [apply ccsa_request_exits|]. cbv beta. intros r s1 h. cbn in h.
    assert (h' : st (co s1) = st (co s) \/ st (co s) = ST_ESTABLISHED /\ st (co s1) = ST_REKEYED)
      by (destruct h as [h|(h1 & h2 & _)]; auto).
    destruct r; intros b; cbn; try (left; reflexivity); try right; apply ccsa_request_ok; auto.
Qed.

Lemma h_response_post2 E s m (Q : isa -> rout body -> Prop) :
  (response_handler E (h_exch (p_hdr m)) = None -> Q s (RErr false)) ->
  (forall f, response_handler E (h_exch (p_hdr m)) = Some f ->
             wp (f m) (clear_flags s)
                (fun r s' => match r with
                             | Ok _ => forall n b, Q s' (ROk n b)
                             | Raise _ => Q s' (RErr (my_msg_id_reset (co s')))
                             | Stuck => Q (stuck_state s') (RErr false)
                             end)) ->
  Q (fst (h_response E s m)) (snd (h_response E s m)).
Proof.
  intros hn hs. unfold h_response. destruct (response_handler E (h_exch (p_hdr m))) as [f|]; [|apply hn; reflexivity].
  specialize (hs f eq_refl). unfold wp in hs. destruct (f m (clear_flags s)) as [[[[x ps]|]|e|] s1]; apply hs.
Qed.

Definition response_step (a : Z) (s' : isa) (out : rout body) : Prop :=
  match out with
  | ROk _ _ => step_ok a (st (co s'))
  | RErr _ => st (co s') = STUCK \/ step_ok a (st (co s'))
  end.

Theorem h_response_step E s m :
  In (st (co s)) all_states -> response_step (st (co s)) (fst (h_response E s m)) (snd (h_response E s m)).
Proof.
  intros ha. apply h_response_post2.
  - intros _. right. apply step_ok_refl; exact ha.
  - intros f hf. unfold response_handler in hf.
    destruct (Z.eqb (h_exch (p_hdr m)) EX_IKE_SA_INIT).
    { injection hf as <-. eapply wp_conseq; [apply init_response_exits|]. cbv beta. intros r s1 h. cbn in h.
      destruct r; try intros n b; cbn; try (left; reflexivity); try right; apply init_response_ok; auto. }
    destruct (Z.eqb (h_exch (p_hdr m)) EX_IKE_AUTH).
    { injection hf as <-. eapply wp_conseq; [apply auth_response_exits|]. cbv beta. intros r s1 h. cbn in h.
      destruct r; try intros n b; cbn; try (left; reflexivity); try right; apply auth_response_ok; auto. }
    destruct (Z.eqb (h_exch (p_hdr m)) EX_CREATE_CHILD_SA).
    { injection hf as <-. eapply wp_conseq; [apply ccsa_response_exits|]. cbv beta. intros r s1 h. cbn in h.
      destruct r; try intros n b; cbn; try (left; reflexivity); try right; apply ccsa_response_ok; auto. }
    destruct (Z.eqb (h_exch (p_hdr m)) EX_INFORMATIONAL); [|discriminate hf].
    injection hf as <-. eapply wp_conseq; [apply info_response_exits|]. cbv beta. intros r s1 h. cbn in h.
    destruct r; try intros n b; cbn; try (left; reflexivity); try right; apply info_response_ok; auto.
Qed.

(** local triggers: [b] is the stuck marker, or unchanged, or one of the request-sent states of the trigger *)
Definition trigger_exit (a b : Z) : Prop :=
  b = STUCK \/ b = a \/ (a = ST_INITIAL /\ b = ST_INIT_REQ_SENT) \/
  (a = ST_ESTABLISHED /\ (b = ST_NEW_CHILD_REQ_SENT \/ b = ST_REK_CHILD_REQ_SENT \/ b = ST_DEL_CHILD_REQ_SENT)).

Theorem h_trigger_exit s ev : trigger_exit (st (co s)) (st (co (fst (h_trigger s ev)))).
Proof.
  apply (h_trigger_post s ev (fun s' => trigger_exit (st (co s)) (st (co s')))).
  destruct ev as [a b i|spi hard].
  - eapply wp_conseq; [apply process_acquire_exits|]. cbv beta. intros r s1 h. cbn in h.
    unfold trigger_exit. destruct r; cbn; tauto.
  - eapply wp_conseq; [apply process_expire_exits|]. cbv beta. intros r s1 h. cbn in h.
    unfold trigger_exit. destruct r; cbn; tauto.
Qed.

Lemma trigger_exit_ok a b : In a all_states -> trigger_exit a b -> b = STUCK \/ step_ok a b.
Proof. intros ha [h|h]; [left; exact h|right]. step_cases. Qed.

(** timer-driven generators, entered in ESTABLISHED by the shell *)
Lemma gen_dpd_exit s : st (co s) = ST_ESTABLISHED -> st (co (fst (lift_gen generate_dpd_request s))) = ST_DPD_REQ_SENT.
Proof.
  intros ha. apply (lift_gen_post generate_dpd_request s (fun s' => st (co s') = ST_DPD_REQ_SENT)).
  eapply wp_conseq; [apply generate_dpd_request_exits|]. cbv beta. intros r s1 h. cbn in h. destruct r; st_lia.
Qed.
Lemma gen_delete_ike_exit s :
  st (co s) = ST_ESTABLISHED -> st (co (fst (lift_gen generate_delete_ike_sa_request s))) = ST_DEL_IKE_SA_REQ_SENT.
Proof.
  intros ha. apply (lift_gen_post generate_delete_ike_sa_request s (fun s' => st (co s') = ST_DEL_IKE_SA_REQ_SENT)).
  eapply wp_conseq; [apply generate_delete_ike_sa_request_exits|]. cbv beta. intros r s1 h. cbn in h.
  destruct r; st_lia.
Qed.
Lemma gen_rekey_ike_exit s :
  st (co s) = ST_ESTABLISHED ->
  let b := st (co (fst (lift_gen generate_rekey_ike_sa_request s))) in b = ST_REK_IKE_SA_REQ_SENT \/ b = STUCK.
Proof.
  intros ha. apply (lift_gen_post generate_rekey_ike_sa_request s
                      (fun s' => st (co s') = ST_REK_IKE_SA_REQ_SENT \/ st (co s') = STUCK)).
  eapply wp_conseq; [apply generate_rekey_ike_sa_request_exits|]. cbv beta. intros r s1 h. cbn in h.
  destruct r; [left; st_lia|right; reflexivity|right; reflexivity].
Qed.

(* ------------------------------------------------------------------------------------------------ *)
(** * The entry points: Shell.v instantiated with the concrete handlers *)

Section EntryPoints.
  Variable E : env.
  Notation P := (hdl_iface E).
  Notation sa := (Shell.sa P).
  Notation state := (Shell.state P).

  Lemma state_eq (s : sa) : state s = st (co (inner P s)).
  Proof. reflexivity. Qed.

  (** _process_request: never stuck (a tape mismatch ends in DELETED like any other failure) *)
  Theorem process_request_step (s : sa) m :
    In (state s) all_states -> step_ok (state s) (state (fst (process_request P s m))).
  Proof.
    intros ha. unfold process_request.
    destruct (req_is_retransmission _ _ _); [apply step_ok_refl; exact ha|].
    destruct (req_id_unexpected _ _ _); [apply step_ok_refl; exact ha|].
    destruct (negb _); [apply step_ok_refl; exact ha|].
    pose proof (h_request_step E (inner P s) m ha) as hs.
    change (handle_request P (inner P s) m) with (h_request E (inner P s) m).
    destruct (h_request E (inner P s) m) as [i' out]. cbn [fst snd] in hs.
    destruct out as [b|b]; cbn in hs |- *.
    - exact hs.
    - apply step_ok_deleted; exact ha.
  Qed.

  (** process_acquire / process_expire *)
  Theorem process_trigger_step (s : sa) now ev :
    In (state s) all_states ->
    let b := state (fst (process_trigger P s now ev)) in
    (b = STUCK /\ (state s = ST_INITIAL \/ state s = ST_ESTABLISHED)) \/ step_ok (state s) b.
  Proof.
    intros ha. unfold process_trigger.
    destruct (if ev_is_acquire P ev then acquire_must_queue (state s) else expire_must_queue (state s)) eqn:hq.
    { right. apply step_ok_refl; exact ha. }
    pose proof (h_trigger_exit (inner P s) ev) as hs.
    change (handle_trigger P (inner P s) ev) with (h_trigger (inner P s) ev).
    destruct (h_trigger (inner P s) ev) as [i' r]. cbn [fst] in hs.
    assert (hb : state (with_inner P s i') = st (co i')) by reflexivity.
    assert (hres : (st (co i') = STUCK /\ (state s = ST_INITIAL \/ state s = ST_ESTABLISHED))
                   \/ step_ok (state s) (st (co i'))).
    { destruct (trigger_exit_ok _ _ ha hs) as [h|h]; [left|right; exact h]. split; [exact h|].
      rewrite state_eq in *. destruct (ev_is_acquire P ev); unfold acquire_must_queue, expire_must_queue in hq; st_lia. }
    destruct r as [[x body]|]; cbn; exact hres.
  Qed.

  Definition after_established (b : Z) : Prop :=
    b = ST_ESTABLISHED \/ b = ST_NEW_CHILD_REQ_SENT \/ b = ST_REK_CHILD_REQ_SENT \/ b = ST_DEL_CHILD_REQ_SENT \/ b = STUCK.

  Lemma process_trigger_from (s : sa) now ev :
    let a := state s in let b := state (fst (process_trigger P s now ev)) in
    (a <> ST_INITIAL -> a <> ST_ESTABLISHED -> b = a) /\ (a = ST_ESTABLISHED -> after_established b).
  Proof.
    cbv zeta. unfold process_trigger.
    destruct (if ev_is_acquire P ev then acquire_must_queue (state s) else expire_must_queue (state s)) eqn:hq.
    { cbn [fst]. split; [reflexivity|]. intros ha. unfold after_established. left. exact ha. }
    pose proof (h_trigger_exit (inner P s) ev) as hs.
    change (handle_trigger P (inner P s) ev) with (h_trigger (inner P s) ev).
    destruct (h_trigger (inner P s) ev) as [i' r]. cbn [fst] in hs.
    assert (hres : (state s <> ST_INITIAL -> state s <> ST_ESTABLISHED -> st (co i') = state s) /\
                   (state s = ST_ESTABLISHED -> after_established (st (co i')))).
    { rewrite state_eq in *. unfold trigger_exit, after_established, STUCK in *. split.
      - intros h0 h10. destruct (ev_is_acquire P ev); unfold acquire_must_queue, expire_must_queue in hq; st_lia.
      - intros h10. st_lia. }
    destruct r as [[x body]|]; cbn; exact hres.
  Qed.

  Lemma run_pending_from evs now : forall s : sa,
    let a := state s in let b := state (fst (run_pending P evs s now)) in
    (a <> ST_INITIAL -> a <> ST_ESTABLISHED -> b = a) /\ (a = ST_ESTABLISHED -> after_established b).
  Proof.
    induction evs as [|e rest ih]; intros s; cbv zeta.
    - cbn. split; [reflexivity|]. intros ha. left. exact ha.
    - cbn [run_pending].
      pose proof (process_trigger_from (set_pending P s (tl (pending P s))) now e) as ht. cbv zeta in ht.
      destruct (process_trigger P (set_pending P s (tl (pending P s))) now e) as [s1 r]. cbn [fst] in ht.
      change (state (set_pending P s (tl (pending P s)))) with (state s) in ht.
      destruct ht as [ht1 ht2]. specialize (ih s1). cbv zeta in ih. destruct ih as [ih1 ih2].
      destruct r as [d|]; cbn [fst].
      + split; [exact ht1|exact ht2].
      + split.
        * intros h0 h10. rewrite ih1; rewrite (ht1 h0 h10); auto.
        * intros h10. specialize (ht2 h10). unfold after_established, STUCK in *.
          destruct ht2 as [h|h]; [exact (ih2 h)|]. rewrite ih1; st_lia.
  Qed.

  (** _process_response: one allowed step, or - when the handler ends the exchange in ESTABLISHED and queued local
      triggers exist - that step followed by the step of the first trigger that starts an exchange *)
  Theorem process_response_step (s : sa) m now :
    In (state s) all_states ->
    let b := state (fst (process_response P s m now)) in
    step_ok (state s) b \/
    (step_ok (state s) ST_ESTABLISHED /\ pending P s <> [] /\ after_established b).
  Proof.
    intros ha. unfold process_response.
    destruct (res_id_unexpected _ _ _); [left; apply step_ok_refl; exact ha|].
    destruct (negb _); [left; apply step_ok_refl; exact ha|].
    change (inner P (set_my_id P s (my_id P s + 1))) with (inner P s).
    pose proof (h_response_step E (inner P s) m ha) as hs.
    change (handle_response P (inner P s) m) with (h_response E (inner P s) m).
    destruct (h_response E (inner P s) m) as [i' out]. cbn [fst snd] in hs.
    destruct out as [[[x body]|] reset|]; cbn in hs.
    - left. destruct reset; cbn; exact hs.
    - set (s2 := if reset then _ else _).
      assert (h2 : state s2 = st (co i')) by (unfold s2; destruct reset; reflexivity).
      assert (hp : pending P s2 = pending P s) by (unfold s2; destruct reset; reflexivity).
      destruct (Z.eqb (state s2) ST_ESTABLISHED) eqn:he.
      + assert (h10 : state s2 = ST_ESTABLISHED) by lia.
        destruct (pending P s2) eqn:hpend.
        * left. cbn [run_pending fst]. rewrite h2. exact hs.
        * right. rewrite <- h2, h10 in hs. split; [exact hs|]. split; [rewrite <- hp; discriminate|].
          apply (run_pending_from (e :: l) now s2). exact h10.
      + left. cbn [fst]. rewrite h2. exact hs.
    - left. cbn. apply step_ok_deleted; exact ha.
  Qed.

  (** the response handler raised (or there is none for the exchange type, or the tape did not match): whatever the
      flag [r] = "the handler had already executed self.my_msg_id = 0" says, the IkeSa ends DELETED and nothing is
      sent; the handler-owned state is the one the handler left, and [r] only decides what the Message ID counter of
      the dead IkeSa reads *)
  Theorem response_error_ends_the_ike_sa (s : sa) m now r :
    res_id_unexpected (h_id (p_hdr m)) (peer_id P s) (my_id P s) = false ->
    existsb (Z.eqb (h_exch (p_hdr m))) response_exchanges = true ->
    snd (h_response E (inner P s) m) = RErr r ->
    state (fst (process_response P s m now)) = ST_DELETED
    /\ snd (process_response P s m now) = None
    /\ inner P (fst (process_response P s m now))
       = (fst (h_response E (inner P s) m)) <| co := (co (fst (h_response E (inner P s) m))) <| st := ST_DELETED |> |>
    /\ my_id P (fst (process_response P s m now)) = (if r then 0 else my_id P s + 1).
  Proof.
    intros h1 h2 h3. unfold process_response.
    destruct (res_id_unexpected _ _ _) eqn:e1; [exfalso; congruence|].
    destruct (existsb _ response_exchanges) eqn:e2; [|exfalso; congruence].
    cbn [negb].
    change (inner P (set_my_id P s (my_id P s + 1))) with (inner P s).
    change (handle_response P (inner P s) m) with (h_response E (inner P s) m).
    destruct (h_response E (inner P s) m) as [i' out]. cbn [fst snd] in *. subst out.
    destruct r; cbn; repeat split; reflexivity.
  Qed.
End EntryPoints.

Section Timers.
  Variable E : env.
  Notation P := (hdl_iface E).
  Notation sa := (Shell.sa P).
  Notation state := (Shell.state P).

  Theorem check_retransmission_step (s : sa) now :
    In (state s) all_states -> step_ok (state s) (state (fst (check_retransmission P s now))).
  Proof.
    intros ha. unfold check_retransmission.
    destruct (rt_states _); [|apply step_ok_refl; exact ha].
    destruct (rt_due _ _); [|apply step_ok_refl; exact ha].
    destruct (rt_giveup _); [apply step_ok_deleted; exact ha|apply step_ok_refl; exact ha].
  Qed.

  Theorem check_dpd_step (s : sa) now :
    In (state s) all_states -> step_ok (state s) (state (fst (check_dpd P s now))).
  Proof.
    intros ha. unfold check_dpd. destruct (dpd_due _ _ _) eqn:hd; [|apply step_ok_refl; exact ha].
    assert (h10 : st (co (inner P s)) = ST_ESTABLISHED) by (unfold dpd_due in hd; change (state s) with (st (co (inner P s))) in hd; lia).
    pose proof (gen_dpd_exit (inner P s) h10) as hg.
    change (gen_dpd P (inner P s)) with (lift_gen generate_dpd_request (inner P s)).
    destruct (lift_gen generate_dpd_request (inner P s)) as [i' [x body]]. cbn [fst] in hg. cbn.
    change (state s) with (st (co (inner P s))); rewrite h10, hg. apply step_ok_b. vm_compute. reflexivity.
  Qed.

  (** check_rekey_ike_sa_timer: the rekey generator can fail (no DH transform configured, unknown group): the model
      shows that as the stuck marker; the IkeSa.state it leaves behind is ESTABLISHED (generate_rekey_ike_sa_request_exits) *)
  Theorem check_lifetime_step (s : sa) now :
    In (state s) all_states ->
    let b := state (fst (check_lifetime P s now)) in
    (b = STUCK /\ state s = ST_ESTABLISHED) \/ step_ok (state s) b.
  Proof.
    intros ha. unfold check_lifetime. destruct (Z.eqb (state s) ST_ESTABLISHED) eqn:h; [|right; apply step_ok_refl; exact ha].
    assert (h10 : st (co (inner P s)) = ST_ESTABLISHED) by (change (state s) with (st (co (inner P s))) in h; lia).
    destruct (life_delete_due _ _).
    - pose proof (gen_delete_ike_exit (inner P s) h10) as hg.
      change (gen_delete_ike P (inner P s)) with (lift_gen generate_delete_ike_sa_request (inner P s)).
      destruct (lift_gen generate_delete_ike_sa_request (inner P s)) as [i' [x body]]. cbn [fst] in hg. cbn.
      right. change (state s) with (st (co (inner P s))); rewrite h10, hg. apply step_ok_b. vm_compute. reflexivity.
    - destruct (life_rekey_due _ _); [|right; apply step_ok_refl; exact ha].
      pose proof (gen_rekey_ike_exit (inner P s) h10) as hg. cbv zeta in hg.
      change (gen_rekey_ike P (inner P s)) with (lift_gen generate_rekey_ike_sa_request (inner P s)).
      destruct (lift_gen generate_rekey_ike_sa_request (inner P s)) as [i' [x body]]. cbn [fst] in hg. cbn.
      destruct hg as [hg|hg]; [right|left; split; [exact hg|exact h10]].
      change (state s) with (st (co (inner P s))); rewrite h10, hg. apply step_ok_b. vm_compute. reflexivity.
  Qed.

  (** process_message after the parse: dispatch to the two functions above, or nothing *)
  Theorem process_message_step (s : sa) m now :
    In (state s) all_states ->
    let b := state (fst (process_message P s m now)) in
    step_ok (state s) b \/ (step_ok (state s) ST_ESTABLISHED /\ pending P s <> [] /\ after_established b).
  Proof.
    intros ha. unfold process_message. cbv zeta.
    destruct (process_message_decision _ _ _ _ _ _ _ _ _ _ _ _ _ _) as [reset ret].
    set (s0 := if reset then _ else _).
    assert (h0 : state s0 = state s) by (unfold s0; destruct reset; reflexivity).
    assert (hp : pending P s0 = pending P s) by (unfold s0; destruct reset; reflexivity).
    destruct ret.
    - left. cbn [fst]. rewrite h0. apply step_ok_refl; exact ha.
    - left. cbn [fst]. rewrite h0. apply step_ok_refl; exact ha.
    - left. rewrite <- h0. apply process_request_step. rewrite h0. exact ha.
    - rewrite <- h0, <- hp. apply process_response_step. rewrite h0. exact ha.
  Qed.

  (** ** DELETED is final, REKEYED only waits for its deletion *)
  Lemma step_from_deleted b : step_ok ST_DELETED b -> b = ST_DELETED.
  Proof.
    intros [h _]. unfold allowed in h. change (allowed_next ST_DELETED) with (@nil Z) in h. cbn [existsb] in h. st_lia.
  Qed.
  Lemma step_from_rekeyed b : step_ok ST_REKEYED b -> b = ST_REKEYED \/ b = ST_DELETED.
  Proof.
    intros [h _]. unfold allowed in h. change (allowed_next ST_REKEYED) with (@nil Z) in h. cbn [existsb] in h. st_lia.
  Qed.
  Lemma not_to_established_from a : (a = ST_DELETED \/ a = ST_REKEYED) -> ~ step_ok a ST_ESTABLISHED.
  Proof. intros [-> | ->] [h _]; vm_compute in h; discriminate h. Qed.

  Theorem deleted_is_final (s : sa) m now ev :
    state s = ST_DELETED ->
    state (fst (process_request P s m)) = ST_DELETED /\ state (fst (process_response P s m now)) = ST_DELETED /\
    state (fst (process_message P s m now)) = ST_DELETED /\ state (fst (process_trigger P s now ev)) = ST_DELETED /\
    state (fst (check_retransmission P s now)) = ST_DELETED /\ state (fst (check_dpd P s now)) = ST_DELETED /\
    state (fst (check_lifetime P s now)) = ST_DELETED.
  Proof.
    intros hd. assert (ha : In (state s) all_states) by (rewrite hd; vm_compute; tauto).
    repeat split.
    - apply step_from_deleted. rewrite <- hd. apply process_request_step; exact ha.
    - destruct (process_response_step E s m now ha) as [h|[h _]]; rewrite hd in h;
        [apply step_from_deleted; exact h|exfalso; revert h; apply not_to_established_from; auto].
    - destruct (process_message_step s m now ha) as [h|[h _]]; rewrite hd in h;
        [apply step_from_deleted; exact h|exfalso; revert h; apply not_to_established_from; auto].
    - destruct (process_trigger_step E s now ev ha) as [[_ h]|h]; rewrite hd in h;
        [st_lia|apply step_from_deleted; exact h].
    - apply step_from_deleted. rewrite <- hd. apply check_retransmission_step; exact ha.
    - apply step_from_deleted. rewrite <- hd. apply check_dpd_step; exact ha.
    - destruct (check_lifetime_step s now ha) as [[_ h]|h]; rewrite hd in h;
        [st_lia|apply step_from_deleted; exact h].
  Qed.

  Definition rekeyed_or_deleted (b : Z) : Prop := b = ST_REKEYED \/ b = ST_DELETED.
  Theorem rekeyed_only_waits (s : sa) m now ev :
    state s = ST_REKEYED ->
    rekeyed_or_deleted (state (fst (process_request P s m))) /\
    rekeyed_or_deleted (state (fst (process_response P s m now))) /\
    rekeyed_or_deleted (state (fst (process_message P s m now))) /\
    rekeyed_or_deleted (state (fst (process_trigger P s now ev))) /\
    rekeyed_or_deleted (state (fst (check_retransmission P s now))) /\
    rekeyed_or_deleted (state (fst (check_dpd P s now))) /\
    rekeyed_or_deleted (state (fst (check_lifetime P s now))).
  Proof.
    intros hd. assert (ha : In (state s) all_states) by (rewrite hd; vm_compute; tauto).
    unfold rekeyed_or_deleted. repeat split.
    - apply step_from_rekeyed. rewrite <- hd. apply process_request_step; exact ha.
    - destruct (process_response_step E s m now ha) as [h|[h _]]; rewrite hd in h;
        [apply step_from_rekeyed; exact h|exfalso; revert h; apply not_to_established_from; auto].
    - destruct (process_message_step s m now ha) as [h|[h _]]; rewrite hd in h;
        [apply step_from_rekeyed; exact h|exfalso; revert h; apply not_to_established_from; auto].
    - destruct (process_trigger_step E s now ev ha) as [[_ h]|h]; rewrite hd in h;
        [st_lia|apply step_from_rekeyed; exact h].
    - apply step_from_rekeyed. rewrite <- hd. apply check_retransmission_step; exact ha.
    - apply step_from_rekeyed. rewrite <- hd. apply check_dpd_step; exact ha.
    - destruct (check_lifetime_step s now ha) as [[_ h]|h]; rewrite hd in h;
        [st_lia|apply step_from_rekeyed; exact h].
  Qed.
End Timers.

(* ------------------------------------------------------------------------------------------------ *)
(** * RFC 7296 2.25: the collision answers of the concrete CREATE_CHILD_SA request handler *)

Definition TEMPORARY_FAILURE_ANSWER : list payload := [P_NOTIFY PROTO_NONE N_TEMPORARY_FAILURE [] []].

(** a CREATE_CHILD_SA request for a CHILD_SA (new or rekey): SA payload whose first proposal is not an IKE proposal,
    TSi and TSr present *)
Definition child_sa_request (m : pmsg body) : Prop :=
  (exists psa rest p0 props, get_payloads m K_SA true = psa :: rest /\ sa_props psa = p0 :: props /\
                             pr_proto p0 <> PROTO_IKE) /\
  get_payloads m K_TSi true <> [] /\ get_payloads m K_TSr true <> [].
Definition ike_rekey_request (m : pmsg body) : Prop :=
  exists psa rest p0 props, get_payloads m K_SA true = psa :: rest /\ sa_props psa = p0 :: props /\
                            pr_proto p0 = PROTO_IKE.

Definition exactly {A} (a : A) (s : isa) : res A -> isa -> Prop := fun r s' => r = Ok a /\ s' = s.
Lemma exactly_eq {A} (m : H A) a s : wp m s (exactly a s) -> m s = (Ok a, s).
Proof. unfold wp, exactly. destruct (m s) as [r s']. cbn. intros [-> ->]. reflexivity. Qed.

Lemma in_ccsa_range z : In z all_states -> ST_ESTABLISHED <= z < ST_REKEYED ->
  memZ z (states_range ST_ESTABLISHED ST_REKEYED) = true.
Proof.
  intros hin hr. unfold all_states in hin. cbn [In] in hin.
  repeat destruct hin as [hin|hin]; try destruct hin; try subst z; first [ st_lia | vm_compute; reflexivity ].
Qed.

Section Collisions.
  Variable E : env.

  Lemma ccsa_first_steps m s (Q : res (list payload) -> isa -> Prop) psa rest p0 props :
    In (st (co s)) all_states -> ST_ESTABLISHED <= st (co s) < ST_REKEYED ->
    get_payloads m K_SA true = psa :: rest -> sa_props psa = p0 :: props ->
    wp (if Z.eqb (pr_proto p0) PROTO_IKE
        then c <- getc ;;
             if ike_rekey_while_busy (st c) then ret [notify_of X_TemporaryFailure]
             else nc <- new_core false (pr_spi p0) c ;;
                  modify (fun s => s <| new_sa := Some nc |>) ;;;
                  k <- of_opt (kr c) X_Other ;;
                  rps <- ike_nego_request E true m true (Some (sk_d k)) ;;
                  modify (fun s => s <| new_sa := option_map (fun n => n <| children := children (co s) |>
                                                                             <| st := ST_ESTABLISHED |>) (new_sa s) |>
                                     <| co := (co s) <| children := [] |> <| st := ST_REKEYED |> |>) ;;;
                  ret rps
        else child_nego_req E m) s Q ->
    wp (process_create_child_sa_request E m) s Q.
  Proof.
    intros hin hr hsa hprops h. unfold process_create_child_sa_request.
    wp_pure; [intros _|intros hc; rewrite (in_ccsa_range _ hin hr) in hc; discriminate hc].
    wp_pure; [intros p r hp|intros hp; rewrite hsa in hp; discriminate hp].
    rewrite hsa in hp. injection hp as <- <-.
    apply wp_bind. unfold first_prop. rewrite hprops. apply wp_ret. exact h.
  Qed.

  (** the collision tests of the CHILD_SA negotiation are reached without touching anything *)
  Lemma child_nego_collision m s e :
    get_payloads m K_SA true <> [] -> get_payloads m K_TSi true <> [] -> get_payloads m K_TSr true <> [] ->
    (e = X_TemporaryFailure \/ exists spi proto, e = X_ChildSaNotFound spi proto) ->
    (forall ptsi ptsr : payload,
        (if child_request_while_ike_busy (st (co s)) then Some X_TemporaryFailure
         else match get_notifies m N_REKEY_SA true with
              | P_NOTIFY nproto _ nspi _ :: _ =>
                  match find_child (children (co s)) nspi with
                  | None => Some (X_ChildSaNotFound nspi nproto)
                  | Some rk =>
                      if rekey_child_being_deleted (st (co s)) (opt_child_eqb rk (deleting (co s)))
                      then Some X_TemporaryFailure
                      else if rekey_child_being_rekeyed (st (co s)) (opt_child_eqb rk (rekeying (co s)))
                           then Some X_TemporaryFailure
                           else if negb (tsl_eqb (tsl_of ptsi) (c_tsr rk)) || negb (tsl_eqb (tsl_of ptsr) (c_tsi rk))
                                then Some X_TsUnacceptable else None
                  end
              | _ => None
              end) = Some e) ->
    child_nego_req E m s = (Ok [notify_of e], s).
  Proof.
    intros hsa htsi htsr he hcol. apply exactly_eq. unfold child_nego_req. apply wp_try. unfold child_nego_req_body.
    wp_pure; [intros psa r1 h1|intros h1; contradiction].
    wp_pure; [intros ptsi r2 h2|intros h2; contradiction].
    wp_pure; [intros ptsr r3 h3|intros h3; contradiction].
    wp_pure. specialize (hcol ptsi ptsr).
    assert (hfin : match e with
                   | X_TsUnacceptable | X_NoProposalChosen | X_ChildSaNotFound _ _ | X_TemporaryFailure | X_InvalidKe _ =>
                       wp (ret [notify_of e]) s (exactly [notify_of e] s)
                   | _ => False
                   end).
    { destruct he as [-> | (spi & proto & ->)]; apply wp_ret; split; reflexivity. }
    apply wp_bind.
    destruct (child_request_while_ike_busy (st (co s))).
    { injection hcol as <-. apply wp_raise. cbv beta iota. exact hfin. }
    apply wp_ret. cbv beta iota. apply wp_bind.
    destruct (get_notifies m N_REKEY_SA true) as [|[] l]; try discriminate hcol.
    destruct (find_child (children (co s)) spi) as [rk|].
    2:{ injection hcol as <-. apply wp_raise. cbv beta iota. exact hfin. }
    destruct (rekey_child_being_deleted _ _).
    { injection hcol as <-. apply wp_raise. cbv beta iota. exact hfin. }
    destruct (rekey_child_being_rekeyed _ _).
    { injection hcol as <-. apply wp_raise. cbv beta iota. exact hfin. }
    destruct (negb _ || negb _); [|discriminate hcol].
    injection hcol as <-. destruct he as [he|(spi' & proto' & he)]; discriminate he.
  Qed.

  Lemma h_request_ccsa s m ps :
    h_exch (p_hdr m) = EX_CREATE_CHILD_SA ->
    process_create_child_sa_request E m (clear_flags s) = (Ok ps, clear_flags s) ->
    h_request E s m = (clear_flags s, HOk ([], ps)).
  Proof.
    intros hx hp. unfold h_request. rewrite hx.
    change (request_handler E EX_CREATE_CHILD_SA) with (Some (process_create_child_sa_request E)).
    cbv beta iota. rewrite hp. reflexivity.
  Qed.

  Lemma ccsa_child_collision s m e :
    In (st (co s)) all_states -> ST_ESTABLISHED <= st (co s) < ST_REKEYED -> child_sa_request m ->
    (e = X_TemporaryFailure \/ exists spi proto, e = X_ChildSaNotFound spi proto) ->
    (forall ptsi ptsr : payload,
        (if child_request_while_ike_busy (st (co s)) then Some X_TemporaryFailure
         else match get_notifies m N_REKEY_SA true with
              | P_NOTIFY nproto _ nspi _ :: _ =>
                  match find_child (children (co s)) nspi with
                  | None => Some (X_ChildSaNotFound nspi nproto)
                  | Some rk =>
                      if rekey_child_being_deleted (st (co s)) (opt_child_eqb rk (deleting (co s)))
                      then Some X_TemporaryFailure
                      else if rekey_child_being_rekeyed (st (co s)) (opt_child_eqb rk (rekeying (co s)))
                           then Some X_TemporaryFailure
                           else if negb (tsl_eqb (tsl_of ptsi) (c_tsr rk)) || negb (tsl_eqb (tsl_of ptsr) (c_tsi rk))
                                then Some X_TsUnacceptable else None
                  end
              | _ => None
              end) = Some e) ->
    process_create_child_sa_request E m s = (Ok [notify_of e], s).
  Proof.
    intros hin hr [(psa & rest & p0 & props & hsa & hprops & hproto) [htsi htsr]] he hcol.
    apply exactly_eq. eapply ccsa_first_steps; eauto.
    destruct (Z.eqb (pr_proto p0) PROTO_IKE) eqn:hp; [lia|].
    unfold wp. rewrite (child_nego_collision m s e); auto; [split; reflexivity|].
    rewrite hsa. discriminate.
  Qed.

  (** (i) a CHILD_SA request while this endpoint is rekeying or deleting the IKE_SA *)
  Theorem collision_child_request_while_ike_busy s m :
    st (co s) = ST_REK_IKE_SA_REQ_SENT \/ st (co s) = ST_DEL_IKE_SA_REQ_SENT ->
    h_exch (p_hdr m) = EX_CREATE_CHILD_SA -> child_sa_request m ->
    h_request E s m = (clear_flags s, HOk ([], TEMPORARY_FAILURE_ANSWER)).
  Proof.
    intros hst hx hreq. apply h_request_ccsa; [exact hx|].
    apply (ccsa_child_collision (clear_flags s) m X_TemporaryFailure); auto.
    - change (st (co (clear_flags s))) with (st (co s)). destruct hst as [-> | ->]; vm_compute; tauto.
    - change (st (co (clear_flags s))) with (st (co s)). st_lia.
    - intros ptsi ptsr. change (st (co (clear_flags s))) with (st (co s)).
      destruct hst as [-> | ->]; reflexivity.
  Qed.

  (** (ii) an IKE_SA rekey request while any exchange of this endpoint is outstanding *)
  Theorem collision_ike_rekey_while_busy s m :
    In (st (co s)) all_states -> ST_ESTABLISHED < st (co s) < ST_REKEYED ->
    h_exch (p_hdr m) = EX_CREATE_CHILD_SA -> ike_rekey_request m ->
    h_request E s m = (clear_flags s, HOk ([], TEMPORARY_FAILURE_ANSWER)).
  Proof.
    intros hin hr hx (psa & rest & p0 & props & hsa & hprops & hproto). apply h_request_ccsa; [exact hx|].
    apply exactly_eq. eapply ccsa_first_steps; eauto; try (change (st (co (clear_flags s))) with (st (co s)); auto; lia).
    rewrite hproto. change (Z.eqb PROTO_IKE PROTO_IKE) with true. cbv iota.
    wp_pure. change (st (co (clear_flags s))) with (st (co s)).
    assert (hb : ike_rekey_while_busy (st (co s)) = true) by st_lia. rewrite hb.
    apply wp_ret. split; reflexivity.
  Qed.

  (** (iii) a rekey request naming a CHILD_SA this endpoint does not have *)
  Theorem collision_rekey_unknown_child s m nproto nty nspi nd rest :
    In (st (co s)) all_states -> ST_ESTABLISHED <= st (co s) < ST_REKEYED ->
    st (co s) <> ST_REK_IKE_SA_REQ_SENT -> st (co s) <> ST_DEL_IKE_SA_REQ_SENT ->
    h_exch (p_hdr m) = EX_CREATE_CHILD_SA -> child_sa_request m ->
    get_notifies m N_REKEY_SA true = P_NOTIFY nproto nty nspi nd :: rest ->
    find_child (children (co s)) nspi = None ->
    h_request E s m = (clear_flags s, HOk ([], [P_NOTIFY nproto N_CHILD_SA_NOT_FOUND nspi []])).
  Proof.
    intros hin hr h13 h15 hx hreq hn hf. apply h_request_ccsa; [exact hx|].
    apply (ccsa_child_collision (clear_flags s) m (X_ChildSaNotFound nspi nproto)); eauto.
    intros ptsi ptsr. change (st (co (clear_flags s))) with (st (co s)).
    change (children (co (clear_flags s))) with (children (co s)).
    assert (hb : child_request_while_ike_busy (st (co s)) = false) by st_lia. rewrite hb, hn, hf. reflexivity.
  Qed.

  (** (iv) a rekey request for the CHILD_SA this endpoint is deleting, or is rekeying itself *)
  Theorem collision_rekey_child_in_use s m nproto nty nspi nd rest rk :
    (st (co s) = ST_DEL_CHILD_REQ_SENT /\ opt_child_eqb rk (deleting (co s)) = true) \/
    (st (co s) = ST_REK_CHILD_REQ_SENT /\ opt_child_eqb rk (rekeying (co s)) = true) ->
    h_exch (p_hdr m) = EX_CREATE_CHILD_SA -> child_sa_request m ->
    get_notifies m N_REKEY_SA true = P_NOTIFY nproto nty nspi nd :: rest ->
    find_child (children (co s)) nspi = Some rk ->
    h_request E s m = (clear_flags s, HOk ([], TEMPORARY_FAILURE_ANSWER)).
  Proof.
    intros hst hx hreq hn hf. apply h_request_ccsa; [exact hx|].
    apply (ccsa_child_collision (clear_flags s) m X_TemporaryFailure); auto.
    - change (st (co (clear_flags s))) with (st (co s)). destruct hst as [[-> _] | [-> _]]; vm_compute; tauto.
    - change (st (co (clear_flags s))) with (st (co s)). st_lia.
    - intros ptsi ptsr. change (st (co (clear_flags s))) with (st (co s)).
      change (children (co (clear_flags s))) with (children (co s)).
      change (deleting (co (clear_flags s))) with (deleting (co s)).
      change (rekeying (co (clear_flags s))) with (rekeying (co s)).
      rewrite hn, hf. destruct hst as [[-> ->] | [-> ->]]; reflexivity.
  Qed.

  (** in all these answers the whole state is untouched: no kernel operation, no change of the CHILD_SAs *)
  Lemma clear_flags_untouched s :
    kops (clear_flags s) = kops s /\ children (co (clear_flags s)) = children (co s) /\
    st (co (clear_flags s)) = st (co s) /\ new_sa (clear_flags s) = new_sa s.
  Proof. repeat split. Qed.
End Collisions.

(* ------------------------------------------------------------------------------------------------ *)
(** * Where the single-step reading of [allowed] does NOT hold (specification granularity), with witnesses *)
Module Witness.
  Import HdlAuth.Toy.
  Definition P := hdl_iface toy_env.

  (** (1) _process_response runs queued triggers in the same call: DPD_REQ_SENT -> ESTABLISHED -> NEW_CHILD_REQ_SENT *)
  Definition dpd_core : core :=
    mk_core ST_DPD_REQ_SENT true [1]%N [2]%N 0 0 toy_conf (Some toy_kr) (Some ikep) (Some ikep) []
            None None None None None None None None 0 0 0 false.
  Definition dpd_sa : sa P :=
    mk_sa P (mk_isa dpd_core None None 0 [D_bytes [0; 0; 0; 5]%N; D_num 16; D_bytes [9]%N] [])
          true 1 5 0 None None 0 0 0 0 0 30 [E_acquire sel sel 0].
  Definition dpd_answer : pmsg body := mk_pmsg (mk_hdr 1 2 2 0 EX_INFORMATIONAL true false 5) true ([], []).

  Example response_then_pending_trigger :
    state P dpd_sa = ST_DPD_REQ_SENT /\
    state P (fst (process_response P dpd_sa dpd_answer 0)) = ST_NEW_CHILD_REQ_SENT /\
    allowed ST_DPD_REQ_SENT ST_NEW_CHILD_REQ_SENT = false /\
    allowed ST_DPD_REQ_SENT ST_ESTABLISHED = true /\ allowed ST_ESTABLISHED ST_NEW_CHILD_REQ_SENT = true.
  Proof. vm_compute. repeat split. Qed.

  (** (2) the generator generate_delete_ike_sa_request, entered in REKEYED (only process_create_child_sa_response
      does that, in the call that has just assigned REKEYED: REK_IKE_SA_REQ_SENT -> 16 is allowed as one step) *)
  Definition rekeyed_state : isa :=
    mk_isa (mk_core ST_REKEYED true [1]%N [2]%N 0 0 toy_conf None None None [] None None None None None None None None
                    0 0 0 false) None None 0 [] [].
  Example delete_after_rekey_generator :
    st (co (snd (generate_delete_ike_sa_request rekeyed_state))) = ST_DEL_AFTER_REKEY_IKE_SA_REQ_SENT /\
    allowed ST_REKEYED ST_DEL_AFTER_REKEY_IKE_SA_REQ_SENT = false /\
    allowed ST_REK_IKE_SA_REQ_SENT ST_DEL_AFTER_REKEY_IKE_SA_REQ_SENT = true.
  Proof. vm_compute. repeat split. Qed.
End Witness.

Lemma process_response_single_step_refuted :
  exists E (s : sa (hdl_iface E)) m now,
    In (state (hdl_iface E) s) all_states /\
    allowed (state (hdl_iface E) s) (state (hdl_iface E) (fst (process_response (hdl_iface E) s m now))) = false.
Proof.
  exists HdlAuth.Toy.toy_env, Witness.dpd_sa, Witness.dpd_answer, 0. split; [vm_compute; tauto|].
  vm_compute. reflexivity.
Qed.

Lemma generator_delete_ike_from_rekeyed_refuted :
  exists s, In (st (co s)) all_states /\
            allowed (st (co s)) (st (co (snd (generate_delete_ike_sa_request s)))) = false.
Proof. exists Witness.rekeyed_state. split; [vm_compute; tauto|]. vm_compute. reflexivity. Qed.

(** * Non-vacuity of the collision theorems *)
Module CollisionExamples.
  Import HdlAuth.Toy.
  Definition core_in (z : Z) (ch : list child) (del : option child) : core :=
    mk_core z true [1]%N [2]%N 0 0 toy_conf (Some toy_kr) (Some ikep) (Some ikep) ch
            None None None None None del None None 0 0 0 false.
  Definition st_in (z : Z) (ch : list child) (del : option child) : isa := mk_isa (core_in z ch del) None None 0 [] [].
  Definition ccsa (ps : list payload) : pmsg body :=
    mk_pmsg (mk_hdr 1 2 2 0 EX_CREATE_CHILD_SA false false 7) true ([], ps).
  Definition new_child_req := ccsa [P_SA [esp]; P_NONCE [1]%N; P_TSi [sel]; P_TSr [sel]].
  Definition rekey_req (spi : bytes) :=
    ccsa [P_NOTIFY PROTO_ESP N_REKEY_SA spi []; P_SA [esp]; P_NONCE [1]%N; P_TSi [sel]; P_TSr [sel]].
  Definition ike_rekey_req := ccsa [P_SA [ikep]; P_NONCE [1]%N; P_KE 14 [1]%N].

  Example ex_child_request : child_sa_request new_child_req /\ child_sa_request (rekey_req [7]%N).
  Proof. split; (split; [do 4 eexists; repeat split; try reflexivity; discriminate|split; discriminate]). Qed.
  Example ex_ike_rekey : ike_rekey_request ike_rekey_req.
  Proof. do 4 eexists. repeat split; reflexivity. Qed.
  Example ex_busy :
    snd (h_request toy_env (st_in ST_REK_IKE_SA_REQ_SENT [] None) new_child_req) = HOk ([], TEMPORARY_FAILURE_ANSWER).
  Proof. vm_compute. reflexivity. Qed.
  Example ex_ike_busy :
    snd (h_request toy_env (st_in ST_DPD_REQ_SENT [] None) ike_rekey_req) = HOk ([], TEMPORARY_FAILURE_ANSWER).
  Proof. vm_compute. reflexivity. Qed.
  Example ex_unknown :
    snd (h_request toy_env (st_in ST_ESTABLISHED [] None) (rekey_req [7; 7; 7; 7]%N))
    = HOk ([], [P_NOTIFY PROTO_ESP N_CHILD_SA_NOT_FOUND [7; 7; 7; 7]%N []]).
  Proof. vm_compute. reflexivity. Qed.
  Example ex_in_use :
    snd (h_request toy_env (st_in ST_DEL_CHILD_REQ_SENT [mychild] (Some mychild)) (rekey_req (c_in mychild)))
    = HOk ([], TEMPORARY_FAILURE_ANSWER).
  Proof. vm_compute. reflexivity. Qed.
End CollisionExamples.

(* ------------------------------------------------------------------------------------------------ *)
(** * Summary at handler level: whatever the outcome (return, exception, tape mismatch), the handler leaves
      IkeSa.state in an allowed successor of the state it was entered in *)
Theorem request_handlers_step_ok E x f m s r s' :
  request_handler E x = Some f -> In (st (co s)) all_states -> f m s = (r, s') ->
  step_ok (st (co s)) (st (co s')).
Proof.
  intros hf ha hrun. unfold request_handler in hf.
  destruct (Z.eqb x EX_IKE_SA_INIT).
  { injection hf as <-. pose proof (wp_elim _ _ _ (init_request_exits E m s) _ _ hrun) as h. cbv beta in h.
    apply init_request_ok; auto. destruct r; st_lia. }
  destruct (Z.eqb x EX_IKE_AUTH).
  { injection hf as <-. pose proof (wp_elim _ _ _ (auth_request_exits E m s) _ _ hrun) as h. cbv beta in h.
    apply auth_request_ok; auto. destruct r; st_lia. }
  destruct (Z.eqb x EX_INFORMATIONAL).
  { injection hf as <-. pose proof (wp_elim _ _ _ (info_request_exits m s) _ _ hrun) as h. cbv beta in h.
    apply info_request_ok; auto. }
  destruct (Z.eqb x EX_CREATE_CHILD_SA); [|discriminate hf].
  injection hf as <-. pose proof (wp_elim _ _ _ (ccsa_request_exits E m s) _ _ hrun) as h. cbv beta in h.
  apply ccsa_request_ok; auto. destruct h as [h|(h1 & h2 & _)]; auto.
Qed.

Theorem response_handlers_step_ok E x f m s r s' :
  response_handler E x = Some f -> In (st (co s)) all_states -> f m s = (r, s') ->
  step_ok (st (co s)) (st (co s')).
Proof.
  intros hf ha hrun. unfold response_handler in hf.
  destruct (Z.eqb x EX_IKE_SA_INIT).
  { injection hf as <-. pose proof (wp_elim _ _ _ (init_response_exits E m s) _ _ hrun) as h. cbv beta in h.
    apply init_response_ok; auto. }
  destruct (Z.eqb x EX_IKE_AUTH).
  { injection hf as <-. pose proof (wp_elim _ _ _ (auth_response_exits E m s) _ _ hrun) as h. cbv beta in h.
    apply auth_response_ok; auto. }
  destruct (Z.eqb x EX_CREATE_CHILD_SA).
  { injection hf as <-. pose proof (wp_elim _ _ _ (ccsa_response_exits E m s) _ _ hrun) as h. cbv beta in h.
    apply ccsa_response_ok; auto. }
  destruct (Z.eqb x EX_INFORMATIONAL); [|discriminate hf].
  injection hf as <-. pose proof (wp_elim _ _ _ (info_response_exits m s) _ _ hrun) as h. cbv beta in h.
  apply info_response_ok; auto.
Qed.

(** the exact transitions of the response handlers and generators that the statements above summarise *)
Theorem ccsa_response_transitions E m s r s' :
  process_create_child_sa_response E m s = (r, s') ->
  st (co s') = st (co s) \/
  ((st (co s) = ST_NEW_CHILD_REQ_SENT \/ st (co s) = ST_REK_CHILD_REQ_SENT) /\
   (st (co s') = ST_ESTABLISHED \/ st (co s') = ST_DEL_CHILD_REQ_SENT)) \/
  (st (co s) = ST_REK_IKE_SA_REQ_SENT /\
   (st (co s') = ST_ESTABLISHED \/ st (co s') = ST_DEL_IKE_SA_REQ_SENT \/
    st (co s') = ST_DEL_AFTER_REKEY_IKE_SA_REQ_SENT)).
Proof. exact (wp_elim _ _ _ (ccsa_response_exits E m s) r s'). Qed.

Theorem generators_transitions s :
  (forall r s', generate_dpd_request s = (r, s') ->
     match r with Ok _ => st (co s) = ST_ESTABLISHED /\ st (co s') = ST_DPD_REQ_SENT
             | _ => st (co s') = st (co s) /\ st (co s) <> ST_ESTABLISHED end) /\
  (forall r s', generate_delete_ike_sa_request s = (r, s') ->
     match r with
     | Ok _ => (st (co s) = ST_ESTABLISHED /\ st (co s') = ST_DEL_IKE_SA_REQ_SENT) \/
               (st (co s) = ST_REKEYED /\ st (co s') = ST_DEL_AFTER_REKEY_IKE_SA_REQ_SENT)
     | _ => st (co s') = st (co s) /\ st (co s) <> ST_ESTABLISHED /\ st (co s) <> ST_REKEYED end) /\
  (forall r s', generate_rekey_ike_sa_request s = (r, s') ->
     match r with Ok _ => st (co s) = ST_ESTABLISHED /\ st (co s') = ST_REK_IKE_SA_REQ_SENT
             | _ => st (co s') = st (co s) end) /\
  (forall ch rk r s', generate_create_child_sa_request ch rk s = (r, s') ->
     match r with
     | Ok _ => st (co s) = ST_ESTABLISHED /\
               st (co s') = match rk with None => ST_NEW_CHILD_REQ_SENT | Some _ => ST_REK_CHILD_REQ_SENT end
     | _ => st (co s') = st (co s) end) /\
  (forall ch r s', generate_delete_child_sa_request ch s = (r, s') ->
     match r with Ok _ => st (co s) = ST_ESTABLISHED /\ st (co s') = ST_DEL_CHILD_REQ_SENT
             | _ => st (co s') = st (co s) /\ st (co s) <> ST_ESTABLISHED end).
Proof.
  split; [intros r s' hrun; exact (wp_elim _ _ _ (generate_dpd_request_exits s) _ _ hrun)|].
  split; [intros r s' hrun; exact (wp_elim _ _ _ (generate_delete_ike_sa_request_exits s) _ _ hrun)|].
  split; [intros r s' hrun; exact (wp_elim _ _ _ (generate_rekey_ike_sa_request_exits s) _ _ hrun)|].
  split; [intros ch rk r s' hrun; exact (wp_elim _ _ _ (generate_create_child_sa_request_exits ch rk s) _ _ hrun)|].
  intros ch r s' hrun; exact (wp_elim _ _ _ (generate_delete_child_sa_request_exits ch s) _ _ hrun).
Qed.
