(** C02 model: AUTH payload generation and verification (RFC 7296 section 2.15) and the gate that the IKE_AUTH
    handlers pass before anything is installed or the IKE_SA is marked established.
    [prf] (the negotiated PRF) and [rsa_verify] are Section variables; keys and messages are opaque byte strings. *)
From Coq Require Import ZArith Bool List.
From VLib Require Import Bytes.
From IkeSa Require Import Gen.IkeFacts Cookie.
Import ListNotations.
Open Scope Z_scope.

Section Auth.
  Variable prf : bytes -> bytes -> bytes.
  Variable PK : Type.
  Variable rsa_verify : PK -> bytes -> bytes -> bool.       (* pubkey.verify(signature, data) *)

  (** PayloadID.to_bytes(): type, 3 reserved octets, data *)
  Definition id_body (id_type : N) (id_data : bytes) : bytes := [id_type; 0; 0; 0]%N ++ id_data.

  (** data_to_be_signed, in the order the source gives (Gen.octets_order) *)
  Definition signed_octets (msg nonce idb sk_p : bytes) : bytes :=
    concat (map (fun p => match p with O_MSG => msg | O_NONCE => nonce | O_PRF_ID => prf sk_p idb end) octets_order).

  Definition psk_auth (psk octets : bytes) : bytes := prf (prf psk KEYPAD) octets.

  Record auth_conf := mk_auth_conf {
    c_id_type : N; c_id_data : bytes;           (* configured identity of the peer *)
    c_psk : option bytes;                       (* peer_auth.psk *)
    c_pub : option PK }.                        (* peer_auth.pubkey *)

  Definition nonempty (b : bytes) : bool := match b with [] => false | _ => true end.

  (** _verify_auth_payload *)
  Definition verify (c : auth_conf) (method : Z) (auth_data octets : bytes) : bool :=
    match c_psk c with
    | Some psk =>
        if Z.eqb method AUTH_PSK && nonempty psk then bytes_eqb (psk_auth psk octets) auth_data
        else match c_pub c with
             | Some pk => if Z.eqb method AUTH_RSA then rsa_verify pk auth_data octets else false
             | None => false
             end
    | None =>
        match c_pub c with
        | Some pk => if Z.eqb method AUTH_RSA then rsa_verify pk auth_data octets else false
        | None => false
        end
    end.

  (** the checks of process_ike_auth_request / process_ike_auth_response that precede the CHILD_SA negotiation
      (the first point where anything is installed) and the transition to ESTABLISHED:
      identity type, identity data, AUTH over (stored IKE_SA_INIT message of the peer's side, MY nonce, the
      presented identity, the peer's SK_p) *)
  Definition gate (c : auth_conf) (id_type : N) (id_data : bytes) (method : Z) (auth_data : bytes)
             (peer_msg my_nonce peer_sk_p : bytes) : bool :=
    N.eqb id_type (c_id_type c) && bytes_eqb id_data (c_id_data c) &&
    verify c method auth_data (signed_octets peer_msg my_nonce (id_body id_type id_data) peer_sk_p).

  (** the handler, as far as C02 is concerned *)
  Inductive auth_result := AuthFailed | Continue.     (* Continue: CHILD_SA negotiation, then ESTABLISHED *)
  Definition ike_auth_handler (c : auth_conf) id_type id_data method auth_data peer_msg my_nonce peer_sk_p : auth_result :=
    if gate c id_type id_data method auth_data peer_msg my_nonce peer_sk_p then Continue else AuthFailed.

  (** IKE messages carry their own length (header octets 24..27): [wf_ike_msg] is what Message.to_bytes produces *)
  Definition wf_ike_msg (m : bytes) : Prop :=
    (28 <= length m)%nat /\ wf_bytes m /\ be_decode (slice m 24 28) = N.of_nat (length m).

End Auth.
