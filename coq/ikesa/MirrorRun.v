(** Entry point of the C01 correspondence: the wiring of Xfrm.create_child_sa on interned values. *)
From Coq Require Import ZArith Bool List String.
From VLib Require Import Sx.
From IkeSa Require Import Gen.IkeFacts Mirror.
Import ListNotations.
Open Scope Z_scope.

Definition sx_params (p : sa_params Z) : sx :=
  SxL [SxZ (p_src_sel Z p); SxZ (p_dst_sel Z p); SxZ (p_spi Z p); SxZ (p_mode Z p); SxZ (p_src Z p); SxZ (p_dst Z p);
       SxZ (p_ekey Z p); SxZ (p_akey Z p); SxZ (p_prop Z p)].

(** input: SxL [in; out; prop; tsi; tsr; mode; sk_ei; sk_er; sk_ai; sk_ar; is_initiator; my_addr; peer_addr] *)
Definition run_mirror (x : sx) : sx :=
  match x with
  | SxL [SxZ i; SxZ o; SxZ pr; SxZ ti; SxZ tr; SxZ m; SxZ a; SxZ b; SxZ c; SxZ d; SxZ ini; SxZ me; SxZ peer] =>
      let '(po, pi) := create_child_sa Z (mk_childsa Z i o pr ti tr m) (mk_keyring Z a b c d) (Z.eqb ini 1) me peer in
      SxL [sx_params po; sx_params pi]
  | _ => bad_input
  end.
