(** Entry point of the whole-endpoint correspondence: the events of every main_loop iteration of a recorded run are
    replayed in the endpoint model (Endpoint.v); after every iteration the complete table (every IkeSa, in list order,
    with its creation index), the datagrams sent and the kernel operations are compared. *)
From Coq Require Import ZArith NArith Bool List String.
From RecordUpdate Require Import RecordSet.
From VLib Require Import Sx Bytes.
From IkeSa Require Import Gen.IkeFacts Shell Hdl HdlRun Endpoint.
Import ListNotations RecordSetNotations.
Open Scope Z_scope.

Section Run.
  Variable E : env.
  Let P := hdl_iface E.

  Definition sx_table (t : list (nat * esa E)) : sx :=
    SxL (map (fun x => SxL [sx_nat (fst x); sx_state E (snd x)]) t).
  Definition sx_ep (ep : endpoint E) : sx :=
    SxL [sx_table (table E ep); SxL (map (fun d => sx_amsg (d_hdr d, d_body d)) (ep_sent E ep));
         sx_list sx_kop (ep_kops E ep); sx_nat (List.length (ep_tape E ep));
         match ep_routed E ep with Some c => sx_nat c | None => SxNone end;
         match ep_status E ep with
         | None => SxNone
         | Some l => SxL (map (fun e => SxL [sx_bytes (su_my_spi e); sx_bytes (su_peer_spi e); sx_bool (su_init e);
                                             SxZ (su_state e); SxZ (su_msg_id e);
                                             SxL (map (fun c => match c with (a, b, p, m) => SxL [sx_bytes a; sx_bytes b; SxZ p; SxZ m] end)
                                                      (su_children e))]) l)
         end].

  Definition pmsg_of (h : hdr) (x : sx) : option (pmsg body) :=
    match x with
    | SxL [au; SxL clear; SxL enc] => Some (mk_pmsg h (bool_of au) (map payload_of clear, map payload_of enc))
    | _ => None
    end.

  Definition ep_step (ep : endpoint E) (ev : sx) : endpoint E :=
    match ev with
    | SxL [SxZ kind; SxL args; SxL tp; SxZ tnow] =>
        let tape := map draw_of tp in
        match kind, args with
        | 0, [SxNone; _; _; _] => iteration E ep tnow tape (Ev_datagram Dg_bad)
        | 0, [h; my; peer; parsed] =>
            iteration E ep tnow tape (Ev_datagram (Dg (hdr_of_sx h) (Z_of my) (Z_of peer) (pmsg_of (hdr_of_sx h) parsed)))
        | 1, [my; peer; a; b; idx] => iteration E ep tnow tape (Ev_acquire (Z_of my) (Z_of peer) (ts_of a) (ts_of b) (Z_of idx))
        | 2, [spi; hard] => iteration E ep tnow tape (Ev_expire (bytes_of spi) (bool_of hard))
        | 3, [] => iteration E ep tnow tape Ev_none
        | 5, [] => iteration E ep tnow tape Ev_status
        | 4, [cid; d; r; dl] =>        (* the scenario driver wrote the timers of a real object *)
            force_timers E ep (Z.to_nat (Z_of cid)) (Z_of d) (Z_of r) (Z_of dl)
        | _, _ => ep
        end
    | _ => ep
    end.

  Fixpoint ep_steps (ep : endpoint E) (evs : list sx) : list sx :=
    match evs with
    | [] => []
    | e :: r => let ep' := ep_step ep e in sx_ep ep' :: ep_steps ep' r
    end.
End Run.

Definition conf_entry_of (x : sx) : Z * Z * conf :=
  match x with SxL [my; peer; c] => (Z_of my, Z_of peer, conf_of c) | _ => (0, 0, conf_of SxNone) end.

(** input: SxL [SxL confs; cookie secret; tables; SxL events] *)
Definition run_endpoint (x : sx) : sx :=
  match x with
  | SxL [SxL cs; secret; tables; SxL evs] =>
      let E := env_of tables in
      SxL (ep_steps E (mk_ep E [] 0 (map conf_entry_of cs) (bytes_of secret) [] 0 [] [] None None) evs)
  | _ => bad_input
  end.

Fixpoint first_diff (outs expected : list sx) (i : Z) : sx :=
  match outs, expected with
  | [], [] => SxL []
  | o :: outs', e :: exp' =>
      if sx_eqb e (SxS "SKIP") || sx_eqb o e then first_diff outs' exp' (i + 1) else SxL [SxZ i; o]
  | o :: _, [] => SxL [SxZ i; o]
  | [], _ :: _ => SxL [SxZ i; SxS "MODEL-STOPPED"]
  end.
Definition run_endpoint_check (x : sx) : sx :=
  match x with
  | SxL [inp; SxL expected] => match run_endpoint inp with SxL outs => first_diff outs expected 0 | o => o end
  | _ => bad_input
  end.
