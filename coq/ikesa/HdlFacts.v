(** The constants and lists that the hand-written handler model (Hdl.v) writes literally equal the ones regenerated
    from the source on every run (Gen/IkeFacts.v): a change of a notification number, of an ignore list, of the
    exception -> notification table, of the vendor id ... in /repo breaks this file. *)
From Coq Require Import ZArith List.
From VLib Require Import Bytes.
From IkeSa Require Import Gen.IkeFacts Shell Transitions Hdl.
Import ListNotations.
Open Scope Z_scope.

Lemma notify_numbers_agree :
  N_UNSUPPORTED_CRITICAL_PAYLOAD = G_N_UNSUPPORTED_CRITICAL_PAYLOAD /\ N_INVALID_SYNTAX = G_N_INVALID_SYNTAX /\
  N_NO_PROPOSAL_CHOSEN = G_N_NO_PROPOSAL_CHOSEN /\ N_INVALID_KE_PAYLOAD = G_N_INVALID_KE_PAYLOAD /\
  N_AUTHENTICATION_FAILED = G_N_AUTHENTICATION_FAILED /\ N_SINGLE_PAIR_REQUIRED = G_N_SINGLE_PAIR_REQUIRED /\
  N_NO_ADDITIONAL_SAS = G_N_NO_ADDITIONAL_SAS /\ N_INTERNAL_ADDRESS_FAILURE = G_N_INTERNAL_ADDRESS_FAILURE /\
  N_FAILED_CP_REQUIRED = G_N_FAILED_CP_REQUIRED /\ N_TS_UNACCEPTABLE = G_N_TS_UNACCEPTABLE /\
  N_TEMPORARY_FAILURE = G_N_TEMPORARY_FAILURE /\ N_CHILD_SA_NOT_FOUND = G_N_CHILD_SA_NOT_FOUND /\
  N_USE_TRANSPORT_MODE = G_N_USE_TRANSPORT_MODE /\ N_REKEY_SA = G_N_REKEY_SA /\ N_COOKIE = G_N_COOKIE.
Proof. repeat split; reflexivity. Qed.

Lemma enum_numbers_agree :
  T_ENCR = G_T_ENCR /\ T_PRF = G_T_PRF /\ T_INTEG = G_T_INTEG /\ T_DH = G_T_DH /\ T_ESN = G_T_ESN /\
  PROTO_NONE = G_PROTO_NONE /\ PROTO_IKE = G_PROTO_IKE /\ PROTO_AH = G_PROTO_AH /\ PROTO_ESP = G_PROTO_ESP /\
  MODE_TRANSPORT = G_MODE_TRANSPORT /\ MODE_TUNNEL = G_MODE_TUNNEL.
Proof. repeat split; reflexivity. Qed.

(** abort_on_error_notifies(..., ignore=[...]) of the four response handlers; the refusal notifications of
    _process_create_child_sa_negotiation_res; the vendor id *)
Lemma lists_agree :
  CCSA_IGNORE = G_ccsa_ignore /\ [N_NO_PROPOSAL_CHOSEN; N_TS_UNACCEPTABLE] = G_auth_ignore /\
  @nil Z = G_info_ignore /\ @nil Z = G_init_ignore /\
  [N_NO_PROPOSAL_CHOSEN; N_TS_UNACCEPTABLE; N_CHILD_SA_NOT_FOUND; N_TEMPORARY_FAILURE; N_NO_ADDITIONAL_SAS] = G_child_refusals /\
  VENDOR_ID = G_VENDOR_ID.
Proof. repeat split; reflexivity. Qed.

(** PayloadNOTIFY.from_exception: the notification type of every exception class (default INVALID_SYNTAX) *)
Definition nty (p : payload) : Z := match p with P_NOTIFY _ ty _ _ => ty | _ => -1 end.
Lemma exception_notifications_agree :
  nty (notify_of X_NoProposalChosen) = G_EXC_NoProposalChosen /\
  (forall g, nty (notify_of (X_InvalidKe g)) = G_EXC_InvalidKePayload) /\
  (forall c, nty (notify_of (X_CookieRequired c)) = G_EXC_CookieRequired) /\
  nty (notify_of X_AuthFailed) = G_EXC_AuthenticationFailed /\
  nty (notify_of X_TemporaryFailure) = G_EXC_TemporaryFailure /\
  nty (notify_of X_TsUnacceptable) = G_EXC_TsUnacceptable /\
  (forall s p, nty (notify_of (X_ChildSaNotFound s p)) = G_EXC_ChildSaNotFound) /\
  nty (notify_of X_InvalidSyntax) = G_EXC_InvalidSyntax /\
  nty (notify_of X_PayloadNotFound) = G_N_INVALID_SYNTAX /\ nty (notify_of X_IkeSaError) = G_N_INVALID_SYNTAX /\
  nty (notify_of X_StateError) = G_N_INVALID_SYNTAX /\ nty (notify_of X_Other) = G_N_INVALID_SYNTAX.
Proof. repeat split; reflexivity. Qed.

(** _check_in_states / assert lists of every handler = the admission table regenerated from the source *)
Lemma admissions_agree :
  ADM_process_ike_sa_init_request = admitted_in FN_process_ike_sa_init_request /\
  ADM_process_ike_auth_request = admitted_in FN_process_ike_auth_request /\
  ADM_process_ike_sa_init_response = admitted_in FN_process_ike_sa_init_response /\
  ADM_process_ike_auth_response = admitted_in FN_process_ike_auth_response /\
  ADM_process_create_child_sa_response = admitted_in FN_process_create_child_sa_response /\
  ADM_process_informational_response = admitted_in FN_process_informational_response /\
  states_range ST_ESTABLISHED (ST_REKEYED + 1) = admitted_in FN_process_informational_request /\
  states_range ST_ESTABLISHED ST_REKEYED = admitted_in FN_process_create_child_sa_request /\
  ADM_generate_established = admitted_in FN_generate_create_child_sa_request /\
  ADM_generate_established = admitted_in FN_generate_delete_child_sa_request /\
  ADM_generate_established = admitted_in FN_generate_rekey_ike_sa_request /\
  ADM_generate_established = admitted_in FN_generate_dead_peer_detection_request /\
  ADM_generate_delete_ike_sa_request = admitted_in FN_generate_delete_ike_sa_request /\
  ADM_generate_ike_sa_init_request = admitted_in FN_generate_ike_sa_init_request /\
  ADM_generate_ike_auth_request = admitted_in FN_generate_ike_auth_request.
Proof. repeat split; reflexivity. Qed.
