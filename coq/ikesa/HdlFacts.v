(** The constants and lists that the hand-written handler model (Hdl.v) writes literally equal the ones regenerated
    from the source on every run (Gen/IkeFacts.v): a change of a notification number, of an ignore list, of the
    exception -> notification table, of the vendor id ... in /repo breaks this file. *)
From Coq Require Import ZArith List Lia Bool.
From VLib Require Import Bytes.
From IkeSa Require Import Gen.IkeFacts Shell Transitions Hdl.
Import ListNotations.
Open Scope Z_scope.

Lemma notify_numbers_agree :
  N_UNSUPPORTED_CRITICAL_PAYLOAD = G_N_UNSUPPORTED_CRITICAL_PAYLOAD /\ N_INVALID_SYNTAX = G_N_INVALID_SYNTAX /\
  N_NO_PROPOSAL_CHOSEN = G_N_NO_PROPOSAL_CHOSEN /\ N_INVALID_KE_PAYLOAD = G_N_INVALID_KE_PAYLOAD /\
  N_AUTHENTICATION_FAILED = G_N_AUTHENTICATION_FAILED /\ N_SINGLE_PAIR_REQUIRED = G_N_SINGLE_PAIR_REQUIRED /\
  N_NO_ADDITIONAL_SAS = G_N_NO_ADDITIONAL_SAS /\ N_INTERNAL_ADDRESS_FAILURE = G_N_INTERNAL_ADDRESS_FAILURE /\
  N_FAILED_CP_REQUIRED = G_N_FAILED_CP_REQUIRED /\ N_TS_UNACCEPTABLE = G_N_TS_UNACCEPTABLE /\
  N_TEMPORARY_FAILURE = G_N_TEMPORARY_FAILURE /\ N_CHILD_SA_NOT_FOUND = G_N_CHILD_SA_NOT_FOUND /\
  N_USE_TRANSPORT_MODE = G_N_USE_TRANSPORT_MODE /\ N_REKEY_SA = G_N_REKEY_SA /\ N_COOKIE = G_N_COOKIE.
Proof. repeat split; reflexivity. Qed.

Lemma enum_numbers_agree :
  T_ENCR = G_T_ENCR /\ T_PRF = G_T_PRF /\ T_INTEG = G_T_INTEG /\ T_DH = G_T_DH /\ T_ESN = G_T_ESN /\
  PROTO_NONE = G_PROTO_NONE /\ PROTO_IKE = G_PROTO_IKE /\ PROTO_AH = G_PROTO_AH /\ PROTO_ESP = G_PROTO_ESP /\
  MODE_TRANSPORT = G_MODE_TRANSPORT /\ MODE_TUNNEL = G_MODE_TUNNEL.
Proof. repeat split; reflexivity. Qed.

(** abort_on_error_notifies(..., ignore=[...]) of the four response handlers; the refusal notifications of
    _process_create_child_sa_negotiation_res; the vendor id *)
Lemma lists_agree :
  CCSA_IGNORE = G_ccsa_ignore /\ [N_NO_PROPOSAL_CHOSEN; N_TS_UNACCEPTABLE] = G_auth_ignore /\
  @nil Z = G_info_ignore /\ @nil Z = G_init_ignore /\
  [N_NO_PROPOSAL_CHOSEN; N_TS_UNACCEPTABLE; N_CHILD_SA_NOT_FOUND; N_TEMPORARY_FAILURE; N_NO_ADDITIONAL_SAS] = G_child_refusals /\
  VENDOR_ID = G_VENDOR_ID.
Proof. repeat split; reflexivity. Qed.

(** PayloadNOTIFY.from_exception: the notification type of every exception class (default INVALID_SYNTAX) *)
Definition nty (p : payload) : Z := match p with P_NOTIFY _ ty _ _ => ty | _ => -1 end.
Lemma exception_notifications_agree :
  nty (notify_of X_NoProposalChosen) = G_EXC_NoProposalChosen /\
  (forall g, nty (notify_of (X_InvalidKe g)) = G_EXC_InvalidKePayload) /\
  (forall c, nty (notify_of (X_CookieRequired c)) = G_EXC_CookieRequired) /\
  nty (notify_of X_AuthFailed) = G_EXC_AuthenticationFailed /\
  nty (notify_of X_TemporaryFailure) = G_EXC_TemporaryFailure /\
  nty (notify_of X_TsUnacceptable) = G_EXC_TsUnacceptable /\
  (forall s p, nty (notify_of (X_ChildSaNotFound s p)) = G_EXC_ChildSaNotFound) /\
  nty (notify_of X_InvalidSyntax) = G_EXC_InvalidSyntax /\
  nty (notify_of X_PayloadNotFound) = G_N_INVALID_SYNTAX /\ nty (notify_of X_IkeSaError) = G_N_INVALID_SYNTAX /\
  nty (notify_of X_StateError) = G_N_INVALID_SYNTAX /\ nty (notify_of X_Other) = G_N_INVALID_SYNTAX.
Proof. repeat split; reflexivity. Qed.

(** _check_in_states / assert lists of every handler = the admission table regenerated from the source *)
Lemma admissions_agree :
  ADM_process_ike_sa_init_request = admitted_in FN_process_ike_sa_init_request /\
  ADM_process_ike_auth_request = admitted_in FN_process_ike_auth_request /\
  ADM_process_ike_sa_init_response = admitted_in FN_process_ike_sa_init_response /\
  ADM_process_ike_auth_response = admitted_in FN_process_ike_auth_response /\
  ADM_process_create_child_sa_response = admitted_in FN_process_create_child_sa_response /\
  ADM_process_informational_response = admitted_in FN_process_informational_response /\
  states_range ST_ESTABLISHED (ST_REKEYED + 1) = admitted_in FN_process_informational_request /\
  states_range ST_ESTABLISHED ST_REKEYED = admitted_in FN_process_create_child_sa_request /\
  ADM_generate_established = admitted_in FN_generate_create_child_sa_request /\
  ADM_generate_established = admitted_in FN_generate_delete_child_sa_request /\
  ADM_generate_established = admitted_in FN_generate_rekey_ike_sa_request /\
  ADM_generate_established = admitted_in FN_generate_dead_peer_detection_request /\
  ADM_generate_delete_ike_sa_request = admitted_in FN_generate_delete_ike_sa_request /\
  ADM_generate_ike_sa_init_request = admitted_in FN_generate_ike_sa_init_request /\
  ADM_generate_ike_auth_request = admitted_in FN_generate_ike_auth_request.
Proof. repeat split; reflexivity. Qed.

(** The AUTH octets and the PSK AUTH value of the handler model are the ones of the AUTH model of Auth.v, which
    assembles the signed octets in the order regenerated from the source ([octets_order]) with the regenerated key pad *)
From IkeSa Require Import Auth.
Lemma signed_octets_agree : forall (E : env) cp msg nonce t d skp,
  Hdl.signed_octets E cp msg nonce t d skp
  = Auth.signed_octets (e_prf E cp) msg nonce (Auth.id_body (Z.to_N t) d) skp.
Proof.
  intros. unfold Hdl.signed_octets, Auth.signed_octets, Auth.id_body, Hdl.id_bytes. cbn [octets_order map concat].
  rewrite app_nil_r. reflexivity.
Qed.
Lemma psk_auth_agree : forall (E : env) cp psk octets,
  Hdl.psk_auth E cp psk octets = Auth.psk_auth (e_prf E cp) psk octets.
Proof. reflexivity. Qed.

(** the test by which [Endpoint.dispatch] drops the responder IkeSa of an ignored IKE_SA_INIT request (written
    literally there) is the regenerated [dispatch_drop_ignored] (fix 73b0c79 of finding F20) *)
Lemma drop_ignored_agree : forall st, dispatch_drop_ignored st = Z.eqb st ST_INITIAL.
Proof. reflexivity. Qed.

(** the cookie test of the handler model is the regenerated rejection test [cookie_reject] *)
Lemma cookie_test_agree : forall (E : env) sec (m : pmsg body) n addr,
  let expected := e_cookie E sec (be_encode 8 (Z.to_N (h_spi_i (p_hdr m))) ++ n ++ addr) in
  let cookies := get_notifies m N_COOKIE false in
  let first_equal := match cookies with P_NOTIFY _ _ _ d :: _ => bytes_eqb d expected | _ => false end in
  cookie_reject (Z.of_nat (length cookies)) first_equal =
  match cookies with
  | P_NOTIFY _ _ _ d :: _ => negb (bytes_eqb d expected)
  | _ => true
  end.
Proof.
  intros. subst cookies first_equal. unfold cookie_reject.
  destruct (get_notifies m N_COOKIE false) as [|p r] eqn:Eg; [reflexivity|].
  assert (Hp : exists a b c d, p = P_NOTIFY a b c d).
  { assert (Hin : In p (get_notifies m N_COOKIE false)) by (rewrite Eg; left; reflexivity).
    unfold get_notifies in Hin. apply filter_In in Hin as [Hin _]. unfold get_payloads in Hin.
    apply filter_In in Hin as [_ Hk]. destruct p; cbn in Hk; try discriminate. eauto. }
  destruct Hp as (a & b & c & d & ->).
  assert (Hz : (Z.of_nat (length (P_NOTIFY a b c d :: r)) =? 0) = false).
  { apply Z.eqb_neq. cbn [length]. rewrite Nat2Z.inj_succ. pose proof (Nat2Z.is_nonneg (length r)). lia. }
  rewrite Hz. reflexivity.
Qed.
