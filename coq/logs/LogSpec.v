(** What the command-line help promises ("--verbose ... WARNING: This will make your key material to be shown in
    the log output!"): key material is logged only by these debug statements (identified by file, function and
    the names they interpolate - line numbers may move). *)
From Coq Require Import List String ZArith.
Import ListNotations.
Open Scope string_scope.

Definition expected_debug_sites : list (string * string * list string) :=
  [ ("ikesa.py", "IkeSa.generate_ike_sa_key_material", ["skeyseed.hex()"]);                 (* SKEYSEED *)
    ("ikesa.py", "IkeSa.generate_ike_sa_key_material", ["keyname"; "hexkey"]);              (* SK_d .. SK_pr *)
    ("ikesa.py", "IkeSa.generate_child_sa_key_material", ["keyname"; "hexkey"]);            (* CHILD_SA keys *)
    ("ikesa.py", "IkeSa.log_message", ["json.dumps()"; "message.to_dict()"; "logging.indent"]);  (* message dump *)
    ("ikesa.py", "IkeSa._process_ike_sa_negotiation_request", ["dh.shared_secret.hex()"]);
    ("ikesa.py", "IkeSa.process_ike_sa_negotiation_response", ["self.dh.shared_secret.hex()"]);
    ("ikesa.py", "IkeSa._process_create_child_sa_negotiation_req", ["dh.shared_secret.hex()"]);
    ("ikesa.py", "IkeSa._process_create_child_sa_negotiation_res", ["self.dh.shared_secret.hex()"]) ].
