(** Name-based taint analysis over the regenerated facts.
    Sources: names declared secret.  A dotted name (a.b.c, f(), a.b.f()) is tainted when one of its components
    is a declared secret, when it is a `to_dict()` call (message dumps contain AUTH data and ciphertext), or when
    it is (an attribute / method of) a variable that received a tainted value by an assignment of the same function
    (least fixpoint, bounded by the number of assignments of the function). *)
From Coq Require Import List String Ascii ZArith Bool.
From Logs Require Import LogTypes Gen.LogFacts.
Import ListNotations.
Open Scope string_scope.

Definition secret_names : list string :=
  ["psk"; "privkey"; "sk_d"; "sk_ai"; "sk_ar"; "sk_ei"; "sk_er"; "sk_pi"; "sk_pr"; "sk_e"; "sk_a"; "sk_p";
   "keyring"; "ike_sa_keyring"; "child_sa_keyring"; "keymat"; "skeyseed"; "shared_secret"; "keyseed"; "hexkey";
   "cookie_secret"; "auth_data"; "ciphertext"; "decrypted"; "cleartext"; "key";
   "old_sk_d"; "_private_key"; "private_key"; "my_crypto"; "peer_crypto"; "encr_key"; "auth_key"].

(** `key` is a dictionary key (an algorithm / option name), not key material, in configuration.py *)
Definition not_secret_in (file name : string) : bool :=
  String.eqb file "configuration.py" && String.eqb name "key".

Definition mem (s : string) (l : list string) : bool := existsb (String.eqb s) l.

(** split "a.b.f()" into ["a"; "b"; "f()"] *)
Fixpoint split_dots (s acc : string) : list string :=
  match s with
  | EmptyString => [acc]
  | String c r => if Ascii.eqb c "." then acc :: split_dots r "" else split_dots r (acc ++ String c "")
  end.
Definition components (n : string) : list string := split_dots n "".

Fixpoint strip_call (s : string) : string :=
  match s with
  | String "(" (String ")" EmptyString) => EmptyString
  | String c r => String c (strip_call r)
  | EmptyString => EmptyString
  end.

Definition secret_component (file c : string) : bool :=
  String.eqb c "to_dict()" ||
  (mem (strip_call c) secret_names && negb (not_secret_in file (strip_call c))).

(** the authentication configuration objects (namedtuples holding the PSK and the private key): interpolating one of
    them, or any attribute other than the identity, exposes the credentials through its repr *)
Fixpoint auth_conf_exposed (cs : list string) : bool :=
  match cs with
  | [] => false
  | c :: rest =>
      (mem (strip_call c) ["peer_auth"; "my_auth"] &&
       match rest with n :: _ => negb (String.eqb n "id") | [] => true end)
      || auth_conf_exposed rest
  end.

(** the connection configuration objects (namedtuple IkeConfiguration, which CONTAINS the authentication
    configuration; the dictionary of all of them): interpolating one as a whole - the name itself, or a call on it
    such as values() / items() / get() / copy() - exposes the credentials through its repr; an attribute such as
    .dpd or .my_auth.id does not (my_auth / peer_auth are judged by [auth_conf_exposed]) *)
Definition is_call (c : string) : bool := negb (String.eqb (strip_call c) c).
Fixpoint conf_exposed (cs : list string) : bool :=
  match cs with
  | [] => false
  | c :: rest =>
      (mem (strip_call c) ["configuration"; "ike_conf"; "ike_configurations"; "ike_configuration"; "ipsec_conf"] &&
       match rest with n :: _ => is_call n | [] => true end)
      || conf_exposed rest
  end.

Definition base_tainted (file n : string) : bool :=
  existsb (secret_component file) (components n) || auth_conf_exposed (components n).

(** [t] is [n], or a proper dotted prefix of it, or [n] is a call of it *)
Fixpoint is_prefix (p s : string) : option string :=
  match p, s with
  | EmptyString, rest => Some rest
  | String a p', String b s' => if Ascii.eqb a b then is_prefix p' s' else None
  | String _ _, EmptyString => None
  end.
Definition refers_to (t n : string) : bool :=
  match is_prefix t n with
  | Some EmptyString => true
  | Some (String c _) => Ascii.eqb c "." || Ascii.eqb c "("
  | None => false
  end.

Definition tainted_wrt (file : string) (T : list string) (n : string) : bool :=
  base_tainted file n || existsb (fun t => refers_to t n) T.

Definition in_func (file func : string) (a : assign) : bool :=
  String.eqb (as_file a) file && String.eqb (as_func a) func.

Definition step (file : string) (fa : list assign) (T : list string) : list string :=
  fold_left (fun T a => if existsb (tainted_wrt file T) (as_rhs a)
                        then fold_left (fun T l => if mem l T then T else l :: T) (as_lhs a) T
                        else T) fa T.

Fixpoint iterate (n : nat) (file : string) (fa : list assign) (T : list string) : list string :=
  match n with
  | O => T
  | S n' => let T' := step file fa T in
            if Nat.eqb (List.length T') (List.length T) then T else iterate n' file fa T'
  end.

(** tainted variables of one function *)
Definition tainted_vars (file func : string) : list string :=
  let fa := filter (in_func file func) assigns in
  iterate (List.length fa) file fa [].

(** [conf_exposed] is judged on the interpolated name itself only (passing a configuration object on to a
    constructor, as in IkeSa(..., configuration=ike_conf), exposes nothing) *)
Definition name_tainted (file func n : string) : bool :=
  tainted_wrt file (tainted_vars file func) n || conf_exposed (components n).

Definition site_tainted (s : log_site) : bool :=
  existsb (name_tainted (ls_file s) (ls_func s)) (ls_names s).

Definition raise_tainted (r : raise_site) : bool :=
  existsb (name_tainted (rs_file r) (rs_func r)) (rs_names r).

(** the decision procedures the theorems lift *)
Definition site_ok (s : log_site) : bool := Z.ltb (ls_level s) INFO || negb (site_tainted s).
Definition raise_ok (r : raise_site) : bool := negb (raise_tainted r).
Definition debug_if_tainted (s : log_site) : bool := negb (site_tainted s) || Z.eqb (ls_level s) DEBUG.
Definition info_sites_clean : bool := forallb site_ok log_sites.
Definition raise_sites_clean : bool := forallb raise_ok raise_sites.

(** identification of a site independent of line numbers *)
Definition site_key (s : log_site) : string * string * list string := (ls_file s, ls_func s, ls_names s).
Definition tainted_sites : list log_site := filter site_tainted log_sites.
