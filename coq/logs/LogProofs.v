(** The decisions are computed over the complete regenerated site lists (vm_compute) and lifted to
    statements about every site by forallb_forall. *)
From Coq Require Import List String ZArith Bool Lia.
From Logs Require Import LogTypes Gen.LogFacts Taint LogSpec.
Import ListNotations.
Open Scope string_scope.

Lemma existsb_false_all {A} (f : A -> bool) l : existsb f l = false -> forall x, In x l -> f x = false.
Proof.
  intros H x Hin. destruct (f x) eqn:Hf; [|reflexivity].
  assert (existsb f l = true) by (apply existsb_exists; exists x; split; assumption). congruence.
Qed.

(* stated on the unfolded forms so that Qed never has to convert a folded constant with the big lists *)
Lemma info_sites_clean_true : forallb site_ok log_sites = true.
Proof. vm_compute. reflexivity. Qed.

Lemma raise_sites_clean_true : forallb raise_ok raise_sites = true.
Proof. vm_compute. reflexivity. Qed.

Lemma debug_if_tainted_true : forallb debug_if_tainted log_sites = true.
Proof. vm_compute. reflexivity. Qed.

Lemma no_secret_at_info :
  forall s, In s log_sites -> (INFO <= ls_level s)%Z ->
  forall n, In n (ls_names s) -> name_tainted (ls_file s) (ls_func s) n = false.
Proof.
  intros s Hs Hlevel n Hn.
  pose proof (proj1 (forallb_forall site_ok log_sites) info_sites_clean_true s Hs) as H.
  unfold site_ok in H. apply orb_true_iff in H. destruct H as [H|H].
  - apply Z.ltb_lt in H. lia.
  - apply negb_true_iff in H. unfold site_tainted in H. unfold name_tainted.
    exact (existsb_false_all _ _ H n Hn).
Qed.

Lemma no_secret_in_exception_text :
  forall r, In r raise_sites -> forall n, In n (rs_names r) -> name_tainted (rs_file r) (rs_func r) n = false.
Proof.
  intros r Hr n Hn.
  pose proof (proj1 (forallb_forall raise_ok raise_sites) raise_sites_clean_true r Hr) as H.
  unfold raise_ok in H. apply negb_true_iff in H. unfold raise_tainted in H. unfold name_tainted.
  exact (existsb_false_all _ _ H n Hn).
Qed.

Lemma debug_only_sites :
  map site_key tainted_sites = expected_debug_sites /\
  (forall s, In s log_sites -> site_tainted s = true -> ls_level s = DEBUG).
Proof.
  split; [vm_compute; reflexivity|].
  intros s Hs Ht.
  pose proof (proj1 (forallb_forall debug_if_tainted log_sites) debug_if_tainted_true s Hs) as H.
  unfold debug_if_tainted in H. rewrite Ht in H. cbn [negb orb] in H. apply Z.eqb_eq in H. exact H.
Qed.

Lemma verbosity :
  (forall v, configured_level v = DEBUG <-> v = true) /\ configured_level false = INFO /\
  verbose_options = ["--verbose"; "-v"].
Proof.
  repeat split; try reflexivity.
  - destruct v; [reflexivity|]. vm_compute. discriminate.
  - intros ->. reflexivity.
Qed.

(** Non-vacuity: the analysis does taint things, directly and through assignments. *)
Example taint_examples :
  name_tainted "ikesa.py" "IkeSa.generate_ike_sa_key_material" "skeyseed.hex()" = true /\
  mem "crypto_i" (tainted_vars "ikesa.py" "IkeSa.generate_ike_sa_key_material") = true /\   (* via ike_sa_keyring *)
  name_tainted "ikesa.py" "IkeSa.generate_ike_sa_key_material" "crypto_i.sk_e" = true /\
  name_tainted "ikesa.py" "IkeSa.log_message" "message.exchange_type.name" = false /\
  name_tainted "configuration.py" "Configuration._load_from_dict" "key" = false /\
  name_tainted "crypto.py" "Prf.prf" "key" = true /\
  existsb (fun s => Z.leb INFO (ls_level s) && negb (Nat.eqb (List.length (ls_names s)) 0)) log_sites = true.
Proof. repeat split; vm_compute; reflexivity. Qed.
