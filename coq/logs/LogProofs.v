(** The decisions are computed over the complete regenerated site lists (vm_compute) and lifted to
    statements about every site by forallb_forall. *)
From Coq Require Import List String ZArith Bool Lia.
From Logs Require Import LogTypes Gen.LogFacts Taint LogSpec.
Import ListNotations.
Open Scope string_scope.

Lemma existsb_false_all {A} (f : A -> bool) l : existsb f l = false -> forall x, In x l -> f x = false.
Proof.
  intros H x Hin. destruct (f x) eqn:Hf; [|reflexivity].
  assert (existsb f l = true) by (apply existsb_exists; exists x; split; assumption). congruence.
Qed.

Lemma info_sites_clean_true : info_sites_clean = true.
Proof. vm_compute. reflexivity. Qed.

Lemma raise_sites_clean_true : raise_sites_clean = true.
Proof. vm_compute. reflexivity. Qed.

Lemma no_secret_at_info :
  forall s, In s log_sites -> (INFO <= ls_level s)%Z ->
  forall n, In n (ls_names s) -> name_tainted (ls_file s) (ls_func s) n = false.
Proof.
  intros s Hs Hlevel n Hn.
  pose proof info_sites_clean_true as H. unfold info_sites_clean in H. rewrite forallb_forall in H.
  specialize (H s Hs). apply orb_true_iff in H. destruct H as [H|H].
  - apply Z.ltb_lt in H. lia.
  - apply negb_true_iff in H. unfold site_tainted in H. unfold name_tainted.
    exact (existsb_false_all _ _ H n Hn).
Qed.

Lemma no_secret_in_exception_text :
  forall r, In r raise_sites -> forall n, In n (rs_names r) -> name_tainted (rs_file r) (rs_func r) n = false.
Proof.
  intros r Hr n Hn.
  pose proof raise_sites_clean_true as H. unfold raise_sites_clean in H. rewrite forallb_forall in H.
  specialize (H r Hr). apply negb_true_iff in H. unfold raise_tainted in H. unfold name_tainted.
  exact (existsb_false_all _ _ H n Hn).
Qed.

Lemma debug_only_sites :
  map site_key tainted_sites = expected_debug_sites /\
  (forall s, In s log_sites -> site_tainted s = true -> ls_level s = DEBUG).
Proof.
  split; [vm_compute; reflexivity|].
  assert (H : forallb (fun s => negb (site_tainted s) || Z.eqb (ls_level s) DEBUG) log_sites = true)
    by (vm_compute; reflexivity).
  rewrite forallb_forall in H. intros s Hs Ht. specialize (H s Hs). rewrite Ht in H. cbn in H.
  apply Z.eqb_eq in H. exact H.
Qed.

Lemma verbosity :
  (forall v, configured_level v = DEBUG <-> v = true) /\ configured_level false = INFO /\
  verbose_options = ["--verbose"; "-v"].
Proof.
  repeat split; try reflexivity.
  - destruct v; [reflexivity|]. vm_compute. discriminate.
  - intros ->. reflexivity.
Qed.

(** Non-vacuity: the analysis does taint things, directly and through assignments. *)
Example taint_examples :
  name_tainted "ikesa.py" "IkeSa.generate_ike_sa_key_material" "skeyseed.hex()" = true /\
  mem "crypto_i" (tainted_vars "ikesa.py" "IkeSa.generate_ike_sa_key_material") = true /\   (* via ike_sa_keyring *)
  name_tainted "ikesa.py" "IkeSa.generate_ike_sa_key_material" "crypto_i.sk_e" = true /\
  name_tainted "ikesa.py" "IkeSa.log_message" "message.exchange_type.name" = false /\
  name_tainted "configuration.py" "Configuration._load_from_dict" "key" = false /\
  name_tainted "crypto.py" "Prf.prf" "key" = true /\
  (exists s, In s log_sites /\ (INFO <= ls_level s)%Z /\ ls_names s <> []).
Proof.
  repeat split; try (vm_compute; reflexivity).
  exists (nth 3 log_sites (nth 0 log_sites {| ls_file := ""; ls_func := ""; ls_line := 0; ls_level := 0; ls_names := []; ls_exc := false |})).
  split; [|split]; [| vm_compute; discriminate | vm_compute; discriminate].
  vm_compute. do 3 right. left. reflexivity.
Qed.
