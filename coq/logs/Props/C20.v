(** C20 property theorems (nothing else lives here). *)
From Coq Require Import List String ZArith.
From Logs Require Import LogTypes Gen.LogFacts Taint LogSpec LogProofs.
Import ListNotations.
Open Scope string_scope.

(** Every logging call of the current source (all files, all functions) at level INFO or above interpolates no
    tainted name.  Domain: the complete list of call sites regenerated from the source. *)
Theorem C20_no_secret_at_info :
  forall s, In s log_sites -> (INFO <= ls_level s)%Z ->
  forall n, In n (ls_names s) -> name_tainted (ls_file s) (ls_func s) n = false.
Proof. exact no_secret_at_info. Qed.
Print Assumptions C20_no_secret_at_info.

(** No `raise X(...)` interpolates a tainted name into the text that str(ex) / {ex} later shows at WARNING / ERROR. *)
Theorem C20_no_secret_in_exception_text :
  forall r, In r raise_sites -> forall n, In n (rs_names r) -> name_tainted (rs_file r) (rs_func r) n = false.
Proof. exact no_secret_in_exception_text. Qed.
Print Assumptions C20_no_secret_in_exception_text.

(** The tainted sites are exactly the listed key / message dumps, and each of them is a DEBUG statement. *)
Theorem C20_debug_only_sites :
  map site_key tainted_sites = expected_debug_sites /\
  (forall s, In s log_sites -> site_tainted s = true -> ls_level s = DEBUG).
Proof. exact debug_only_sites. Qed.
Print Assumptions C20_debug_only_sites.

(** pyikev2.py configures DEBUG exactly when --verbose / -v is given, INFO otherwise. *)
Theorem C20_verbosity :
  (forall v, configured_level v = DEBUG <-> v = true) /\ configured_level false = INFO /\
  verbose_options = ["--verbose"; "-v"].
Proof. exact verbosity. Qed.
Print Assumptions C20_verbosity.
