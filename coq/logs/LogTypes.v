(** Records of the facts regenerated from the source (Gen/LogFacts.v). *)
From Coq Require Import List String ZArith.

Record log_site := { ls_file : string; ls_func : string; ls_line : Z; ls_level : Z; ls_names : list string;
                     ls_exc : bool (* mentions a variable bound by `except ... as` *) }.
Record raise_site := { rs_file : string; rs_func : string; rs_line : Z; rs_class : string;
                       rs_names : list string; rs_data : list string }.
Record assign := { as_file : string; as_func : string; as_line : Z; as_lhs : list string; as_rhs : list string }.

(** logging levels *)
Definition DEBUG : Z := 10.
Definition INFO : Z := 20.
Definition WARNING : Z := 30.
Definition ERROR : Z := 40.
