(** Entry points evaluated by the correspondence check (sx in, sx out). *)
From Coq Require Import List ZArith String.
From VLib Require Import Sx.
From Ts Require Import Gen.TsFuns.
Import ListNotations.

Definition ts_of_sx (x : sx) : option ts :=
  match x with
  | SxL [SxZ a; SxZ b; SxZ c; SxZ d; SxZ e; SxZ f] =>
      Some {| ts_type := a; ip_proto := b; start_port := c; end_port := d; start_addr := e; end_addr := f |}
  | _ => None
  end.

(* input: L [ts; ts]  output: L [is_subset a b; ts_eq a b; get_port a] *)
Definition run_pair (x : sx) : sx :=
  match x with
  | SxL [a; b] =>
      match ts_of_sx a, ts_of_sx b with
      | Some a, Some b => SxL [sx_bool (is_subset a b); sx_bool (ts_eq a b); SxZ (get_port a)]
      | _, _ => bad_input
      end
  | _ => bad_input
  end.
