(** Entry points evaluated by the correspondence check (sx in, sx out). *)
From Coq Require Import List ZArith String Bool.
From VLib Require Import Sx.
From Ts Require Import Gen.TsFuns Gen.TsIkesa TsModel.
Import ListNotations.
Open Scope string_scope.

Definition ts_of_sx (x : sx) : option ts :=
  match x with
  | SxL [SxZ a; SxZ b; SxZ c; SxZ d; SxZ e; SxZ f] =>
      Some {| ts_type := a; ip_proto := b; start_port := c; end_port := d; start_addr := e; end_addr := f |}
  | _ => None
  end.

Definition sx_of_ts (t : ts) : sx :=
  SxL [SxZ (ts_type t); SxZ (ip_proto t); SxZ (start_port t); SxZ (end_port t); SxZ (start_addr t); SxZ (end_addr t)].

Fixpoint opt_all {A} (l : list (option A)) : option (list A) :=
  match l with
  | [] => Some []
  | Some a :: r => match opt_all r with Some r' => Some (a :: r') | None => None end
  | None :: _ => None
  end.

Definition ts_list_of_sx (x : sx) : option (list ts) :=
  match x with SxL l => opt_all (map ts_of_sx l) | _ => None end.

Definition conf_of_sx (x : sx) : option conf :=
  match x with
  | SxL [SxZ i; SxZ m; a; b] =>
      match ts_of_sx a, ts_of_sx b with
      | Some a, Some b => Some {| c_index := i; c_mode := m; c_my_ts := a; c_peer_ts := b |}
      | _, _ => None
      end
  | _ => None
  end.

Definition protect_of_sx (x : sx) : option (list conf) :=
  match x with SxL l => opt_all (map conf_of_sx l) | _ => None end.

Definition sx_of_exn (e : exn) : sx :=
  match e with TsUnacceptable => SxS "TsUnacceptable" | IndexError => SxS "IndexError" end.

Definition sx_of_net (n : option (Z * Z)) : sx :=
  match n with Some (b, p) => SxL [SxZ b; SxZ p] | None => SxS "Diverged" end.

(* input: L [ts; ts]  output: L [is_subset a b; ts_eq a b; get_port a] *)
Definition run_pair (x : sx) : sx :=
  match x with
  | SxL [a; b] =>
      match ts_of_sx a, ts_of_sx b with
      | Some a, Some b => SxL [sx_bool (is_subset a b); sx_bool (ts_eq a b); SxZ (get_port a)]
      | _, _ => bad_input
      end
  | _ => bad_input
  end.

(* input: ts   output: L [get_network; get_port] *)
Definition run_net (x : sx) : sx :=
  match ts_of_sx x with
  | Some t => SxL [sx_of_net (get_network t); SxZ (get_port t)]
  | None => bad_input
  end.

(* input: L [version; base; prefix; port; proto]   output: L [ts; get_network ts; get_port ts] *)
Definition run_from_network (x : sx) : sx :=
  match x with
  | SxL [SxZ v; SxZ b; SxZ p; SxZ port; SxZ proto] =>
      let t := from_network v b p port proto in
      SxL [sx_of_ts t; sx_of_net (get_network t); SxZ (get_port t)]
  | _ => bad_input
  end.

(* input: L [protect; tsis; tsrs]   output: L [index; my_ts; peer_ts] | S exception *)
Definition run_conf (x : sx) : sx :=
  match x with
  | SxL [p; a; b] =>
      match protect_of_sx p, ts_list_of_sx a, ts_list_of_sx b with
      | Some p, Some a, Some b =>
          match get_ipsec_configuration p a b with
          | Ok (c, m, q) => SxL [SxZ (c_index c); sx_of_ts m; sx_of_ts q]
          | Raise e => sx_of_exn e
          end
      | _, _, _ => bad_input
      end
  | _ => bad_input
  end.

Definition sx_of_child (c : child) : list sx :=
  let '(src, dst, sport, dport, proto) := kernel_selectors c in
  [sx_of_ts (ch_tsi c); sx_of_ts (ch_tsr c); SxZ (ch_mode c);
   (* the outbound create_sa arguments *)
   SxL [sx_of_net src; sx_of_net dst; SxZ sport; SxZ dport; SxZ proto]].

(* input: L [protect; rekey = None | L [old_tsi; old_tsr]; tsis; tsrs; transport]
   output: L [index; child.tsi; child.tsr; mode; kernel selectors] | S exception *)
Definition run_responder (x : sx) : sx :=
  match x with
  | SxL [p; rk; a; b; SxZ tn] =>
      let rekey := match rk with
                   | SxL [o1; o2] => match ts_of_sx o1, ts_of_sx o2 with
                                     | Some o1, Some o2 => Some (Some (o1, o2)) | _, _ => None end
                   | SxNone => Some None
                   | _ => None
                   end in
      match protect_of_sx p, rekey, ts_list_of_sx a, ts_list_of_sx b with
      | Some p, Some rekey, Some a, Some b =>
          match responder_child p rekey a b (negb (Z.eqb tn 0)) with
          | Ok (c, ch) => SxL (SxZ (c_index c) :: sx_of_child ch)
          | Raise e => sx_of_exn e
          end
      | _, _, _, _ => bad_input
      end
  | _ => bad_input
  end.

(* input: L [my_mode; offered tsi; offered tsr; transport; response tsi list; response tsr list]
   output: L [child.tsi; child.tsr; mode; kernel selectors] | S exception *)
Definition run_initiator (x : sx) : sx :=
  match x with
  | SxL [SxZ m; oi; or; SxZ tn; ri; rr] =>
      match ts_list_of_sx oi, ts_list_of_sx or, ts_list_of_sx ri, ts_list_of_sx rr with
      | Some oi, Some or, Some ri, Some rr =>
          match initiator_child m oi or (negb (Z.eqb tn 0)) ri rr with
          | Ok ch => SxL (sx_of_child ch)
          | Raise e => sx_of_exn e
          end
      | _, _, _, _ => bad_input
      end
  | _ => bad_input
  end.

(* dispatcher: L [S tag; input] *)
Definition run_any (x : sx) : sx :=
  match x with
  | SxL [SxS tag; i] =>
      if String.eqb tag "pair" then run_pair i
      else if String.eqb tag "net" then run_net i
      else if String.eqb tag "fromnet" then run_from_network i
      else if String.eqb tag "lookup" then run_conf i
      else if String.eqb tag "responder" then run_responder i
      else if String.eqb tag "initiator" then run_initiator i
      else bad_input
  | _ => bad_input
  end.
