(** Address-range <-> network conversion (TrafficSelector.from_network / get_network / get_port). *)
From Coq Require Import ZArith List Bool Lia ZifyBool.
From Ts Require Import Gen.TsFuns Gen.TsIkesa TsModel.
Import ListNotations.
Open Scope Z_scope.

(** ** powers of two *)
Lemma pow2_pos n : 0 <= n -> 0 < 2 ^ n.
Proof. intros; apply Z.pow_pos_nonneg; lia. Qed.

Lemma pow2_split a b : 0 <= a -> 0 <= b -> 2 ^ (a + b) = 2 ^ a * 2 ^ b.
Proof. intros; apply Z.pow_add_r; lia. Qed.

Lemma pow2_lt a b : 0 <= a < b -> 2 ^ a < 2 ^ b.
Proof. intros; apply Z.pow_lt_mono_r; lia. Qed.

Lemma pow2_le a b : 0 <= a <= b -> 2 ^ a <= 2 ^ b.
Proof. intros; apply Z.pow_le_mono_r; lia. Qed.

(** [x] rounded down to a multiple of 2^h *)
Definition align (h x : Z) : Z := x / 2 ^ h * 2 ^ h.

Lemma align_le h x : 0 <= h -> align h x <= x < align h x + 2 ^ h.
Proof.
  intros Hh. unfold align. pose proof (pow2_pos h Hh) as Hp.
  pose proof (Z.div_mod x (2 ^ h) ltac:(lia)) as Hdm. pose proof (Z.mod_pos_bound x (2 ^ h) Hp). lia.
Qed.

Lemma align_succ h x : 0 <= h -> align (h + 1) (align h x) = align (h + 1) x.
Proof.
  intros Hh. unfold align. f_equal.
  rewrite (pow2_split h 1) by lia. change (2 ^ 1) with 2.
  pose proof (pow2_pos h Hh) as Hp.
  rewrite <- Z.div_div by lia. rewrite Z.div_mul by lia.
  rewrite <- Z.div_div by lia. reflexivity.
Qed.

Lemma align_of_multiple h j x : 0 <= j <= h -> x mod 2 ^ h = 0 -> align j x = x.
Proof.
  intros Hj Hm. unfold align.
  assert (Hd : x mod 2 ^ j = 0).
  { apply Z.mod_divide; [pose proof (pow2_pos j); lia|].
    apply Z.mod_divide in Hm; [|pose proof (pow2_pos h); lia].
    destruct Hm as [k Hk]. exists (k * 2 ^ (h - j)).
    rewrite Hk. replace h with ((h - j) + j) at 1 by lia. rewrite pow2_split by lia. ring. }
  pose proof (Z.div_mod x (2 ^ j) ltac:(pose proof (pow2_pos j); lia)). lia.
Qed.

Lemma align_mod h x : 0 <= h -> align h x mod 2 ^ h = 0.
Proof. intros; unfold align. apply Z.mod_mul. pose proof (pow2_pos h); lia. Qed.

Lemma align_full w x : 0 <= w -> 0 <= x < 2 ^ w -> align w x = 0.
Proof. intros Hw Hx. unfold align. rewrite Z.div_small by lia. reflexivity. Qed.

(** two addresses are in the same 2^h block iff they align to the same base *)
Lemma align_same h b x : 0 <= h -> b mod 2 ^ h = 0 -> b <= x < b + 2 ^ h -> align h x = b.
Proof.
  intros Hh Hb Hx. unfold align. pose proof (pow2_pos h Hh) as Hp.
  apply Z.mod_divide in Hb; [|lia]. destruct Hb as [k Hk]. subst b.
  assert (x / 2 ^ h = k); [|subst; reflexivity].
  symmetry. apply (Z.div_unique_pos x (2 ^ h) k (x - k * 2 ^ h)); lia.
Qed.

(** ** the supernet loop *)

(** invariant: the network visited with prefix [p] is the block of [s] with [w - p] host bits *)
Lemma grow_covers fuel : forall w s e p,
  0 <= p <= w -> 0 <= s < 2 ^ w -> 0 <= e < 2 ^ w -> (Z.to_nat p < fuel)%nat ->
  exists q, grow fuel w (align (w - p) s) p e = Some (align (w - q) s, q) /\ 0 <= q <= p /\
            net_contains w (align (w - q) s) q e = true /\
            (forall q', q < q' <= p -> net_contains w (align (w - q') s) q' e = false).
Proof.
  induction fuel as [|fuel IH]; intros w s e p Hp Hs He Hf; [lia|].
  cbn [grow]. destruct (net_contains w (align (w - p) s) p e) eqn:Hc.
  - exists p. repeat split; try lia; auto.
  - assert (Hp0 : p <> 0).
    { intros ->. rewrite Z.sub_0_r in Hc. rewrite align_full in Hc by lia. unfold net_contains in Hc.
      rewrite Z.sub_0_r in Hc. lia. }
    unfold supernet. destruct (p =? 0) eqn:E; [lia|].
    fold (align (w - p + 1) (align (w - p) s)). rewrite align_succ by lia.
    replace (w - p + 1) with (w - (p - 1)) by lia.
    destruct (IH w s e (p - 1)) as (q & Hq & Hr & Hcq & Hmin); try lia.
    exists q. repeat split; try lia; auto.
    intros q' Hq'. destruct (Z.eq_dec q' p) as [->|]; [exact Hc|]. apply Hmin; lia.
Qed.

Lemma contains_block w s q x : 0 <= q <= w -> net_contains w (align (w - q) s) q x = true ->
  align (w - q) x = align (w - q) s.
Proof.
  intros Hq Hc. unfold net_contains in Hc. apply align_same; try lia. apply align_mod; lia.
Qed.

(** the network found contains both ends, is aligned, and is the smallest such network *)
Theorem get_network_w_covers w s e : 0 <= w <= 128 -> 0 <= s < 2 ^ w -> 0 <= e < 2 ^ w ->
  exists b p, get_network_w w s e = Some (b, p) /\ 0 <= p <= w /\ b mod 2 ^ (w - p) = 0 /\
              b <= s <= b + 2 ^ (w - p) - 1 /\ b <= e <= b + 2 ^ (w - p) - 1 /\
              (forall b' p', 0 <= p' <= w -> b' mod 2 ^ (w - p') = 0 ->
                             b' <= s <= b' + 2 ^ (w - p') - 1 -> b' <= e <= b' + 2 ^ (w - p') - 1 ->
                             p' <= p /\ b' <= b /\ b + 2 ^ (w - p) <= b' + 2 ^ (w - p')).
Proof.
  intros Hw Hs He. unfold get_network_w.
  destruct (grow_covers 129 w s e w) as (q & Hq & Hr & Hc & Hmin); try lia.
  replace (w - w) with 0 in Hq by lia. unfold align in Hq at 1. rewrite Z.pow_0_r, Z.div_1_r, Z.mul_1_r in Hq.
  exists (align (w - q) s), q. split; [exact Hq|]. split; [lia|].
  split; [apply align_mod; lia|].
  pose proof (align_le (w - q) s ltac:(lia)).
  split; [lia|]. split; [unfold net_contains in Hc; lia|].
  intros b' p' Hp' Hb' Hs' He'.
  assert (Hbs : align (w - p') s = b') by (apply align_same; lia).
  assert (Hbe : align (w - p') e = b') by (apply align_same; lia).
  assert (Hle : p' <= q).
  { destruct (Z_le_gt_dec p' q) as [|Hgt]; [assumption|]. exfalso.
    specialize (Hmin p' ltac:(lia)). rewrite Hbs in Hmin. unfold net_contains in Hmin. lia. }
  split; [exact Hle|].
  (* the block of s with more host bits contains the block with fewer *)
  assert (Hnest : align (w - p') (align (w - q) s) = b').
  { clear Hmin Hc Hq. replace (w - p') with ((w - q) + (q - p')) by lia.
    assert (G : forall k, 0 <= k -> align ((w - q) + k) (align (w - q) s) = align ((w - q) + k) s).
    { intros k Hk. pattern k. apply natlike_ind; [| |exact Hk].
      - rewrite Z.add_0_r. apply align_of_multiple with (h := w - q); try lia. apply align_mod; lia.
      - intros x Hx IHx. replace (w - q + Z.succ x) with ((w - q + x) + 1) by lia.
        rewrite <- (align_succ (w - q + x) (align (w - q) s)) by lia. rewrite IHx. apply align_succ. lia. }
    rewrite G by lia. replace (w - q + (q - p')) with (w - p') by lia. exact Hbs. }
  pose proof (align_le (w - p') (align (w - q) s) ltac:(lia)) as Hin. rewrite Hnest in Hin.
  split; [lia|].
  (* upper end: b + 2^(w-q) is a multiple of 2^(w-q) above b', at most b' + 2^(w-p') *)
  assert (Hdiv : exists k, 2 ^ (w - p') = k * 2 ^ (w - q) /\ 0 < k).
  { exists (2 ^ (q - p')). split; [|apply pow2_pos; lia].
    replace (w - p') with ((q - p') + (w - q)) by lia. apply pow2_split; lia. }
  destruct Hdiv as (k & Hk & Hk0).
  pose proof (align_mod (w - q) s ltac:(lia)) as Hbm.
  apply Z.mod_divide in Hbm; [|pose proof (pow2_pos (w - q)); lia]. destruct Hbm as [m Hm].
  apply Z.mod_divide in Hb'; [|pose proof (pow2_pos (w - p')); lia]. destruct Hb' as [m' Hm'].
  rewrite Hm in *. rewrite Hm' in *. rewrite Hk in *.
  pose proof (pow2_pos (w - q) ltac:(lia)) as Hpos.
  assert (m < m' * k + k) by nia. nia.
Qed.

(** from_network then get_network gives the network back, for every prefix length *)
Lemma grow_roundtrip fuel : forall w b p q,
  0 <= p <= q -> q <= w -> b mod 2 ^ (w - p) = 0 -> (Z.to_nat (q - p) < fuel)%nat ->
  grow fuel w b q (b + 2 ^ (w - p) - 1) = Some (b, p).
Proof.
  induction fuel as [|fuel IH]; intros w b p q Hp Hq Hb Hf; [lia|].
  cbn [grow]. unfold net_contains.
  destruct (Z.eq_dec q p) as [->|Hne].
  - replace ((b <=? b + 2 ^ (w - p) - 1) && (b + 2 ^ (w - p) - 1 <=? b + 2 ^ (w - p) - 1)) with true; [reflexivity|].
    pose proof (pow2_pos (w - p)). lia.
  - pose proof (pow2_lt (w - q) (w - p) ltac:(lia)).
    replace ((b <=? b + 2 ^ (w - p) - 1) && (b + 2 ^ (w - p) - 1 <=? b + 2 ^ (w - q) - 1)) with false by lia.
    unfold supernet. destruct (q =? 0) eqn:E; [lia|].
    fold (align (w - q + 1) b). rewrite (align_of_multiple (w - p)) by (auto; lia).
    apply IH; solve [lia | exact Hb].
Qed.

Theorem get_network_w_roundtrip w b p : 0 <= w <= 128 -> 0 <= p <= w -> b mod 2 ^ (w - p) = 0 ->
  get_network_w w b (b + 2 ^ (w - p) - 1) = Some (b, p).
Proof. intros Hw Hp Hb. unfold get_network_w. apply grow_roundtrip; solve [lia | exact Hb]. Qed.

(** ** on selectors *)
Definition valid_network (version base prefix : Z) : Prop :=
  0 <= prefix <= version_width version /\ 0 <= base < 2 ^ version_width version /\
  base mod 2 ^ (version_width version - prefix) = 0.

Lemma from_network_width version base prefix port proto :
  ts_width (from_network version base prefix port proto) = version_width version.
Proof.
  unfold ts_width, from_network, version_width, from_network_ts_type, addr_len. cbn [ts_type].
  destruct (version =? 6); reflexivity.
Qed.

Theorem network_roundtrip version base prefix port proto : valid_network version base prefix ->
  get_network (from_network version base prefix port proto) = Some (base, prefix) /\
  get_port (from_network version base prefix port proto) = port.
Proof.
  intros (Hp & Hb & Hm). split.
  - unfold get_network. rewrite from_network_width. cbn [from_network start_addr end_addr].
    apply get_network_w_roundtrip; [unfold version_width; destruct (version =? 6); lia | exact Hp | exact Hm].
  - unfold get_port, from_network, from_network_end_port. cbn [start_port end_port].
    destruct (port =? 0) eqn:E; cbn [andb Z.eqb Pos.eqb]; [|reflexivity]. lia.
Qed.

Definition in_family (t : ts) : Prop :=
  0 <= start_addr t < 2 ^ ts_width t /\ 0 <= end_addr t < 2 ^ ts_width t.

Lemma ts_width_bound t : 0 <= ts_width t <= 128.
Proof. unfold ts_width, addr_len. destruct (ts_type t =? 7); lia. Qed.

Theorem get_network_covers t : in_family t ->
  exists b p, get_network t = Some (b, p) /\ 0 <= p <= ts_width t /\ b mod 2 ^ (ts_width t - p) = 0 /\
    (forall a, start_addr t <= a <= end_addr t \/ end_addr t <= a <= start_addr t -> b <= a <= b + 2 ^ (ts_width t - p) - 1) /\
    (forall b' p', 0 <= p' <= ts_width t -> b' mod 2 ^ (ts_width t - p') = 0 ->
        b' <= start_addr t <= b' + 2 ^ (ts_width t - p') - 1 -> b' <= end_addr t <= b' + 2 ^ (ts_width t - p') - 1 ->
        p' <= p /\ b' <= b /\ b + 2 ^ (ts_width t - p) <= b' + 2 ^ (ts_width t - p')).
Proof.
  intros (Hs & He). pose proof (ts_width_bound t) as Hw.
  destruct (get_network_w_covers (ts_width t) (start_addr t) (end_addr t) Hw Hs He)
    as (b & p & Hg & Hp & Hm & Hcs & Hce & Hmin).
  exists b, p. split; [exact Hg|]. split; [exact Hp|]. split; [exact Hm|]. split; [intros a Ha; lia|exact Hmin].
Qed.

(** Non-vacuity and samples *)
Example roundtrip_example_v4 :
  valid_network 4 167772160 24 /\ get_network (from_network 4 167772160 24 0 0) = Some (167772160, 24).
Proof. split; [unfold valid_network, version_width; cbn; lia | vm_compute; reflexivity]. Qed.

Example roundtrip_example_v6 :
  valid_network 6 (2 ^ 125) 3 /\ get_network (from_network 6 (2 ^ 125) 3 443 6) = Some (2 ^ 125, 3) /\
  get_port (from_network 6 (2 ^ 125) 3 443 6) = 443.
Proof. split; [unfold valid_network, version_width; cbn; lia | vm_compute; auto]. Qed.

Example covers_example :
  let t := {| ts_type := 7; ip_proto := 0; start_port := 0; end_port := 65535; start_addr := 167772161; end_addr := 167772170 |} in
  in_family t /\ get_network t = Some (167772160, 28).
Proof. split; [unfold in_family, ts_width; cbn; lia | vm_compute; reflexivity]. Qed.
