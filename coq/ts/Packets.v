(** Spec: the set of packets a traffic selector denotes (RFC 7296 section 3.13.1).
    Written independently of the code; protocol 0 denotes every protocol. *)
From Coq Require Import ZArith.
From Ts Require Import Gen.TsFuns.
Open Scope Z_scope.

Record packet := { p_family : Z; p_proto : Z; p_port : Z; p_addr : Z }.

Definition denote (t : ts) (p : packet) : Prop :=
  p_family p = ts_type t /\
  (ip_proto t = 0 \/ p_proto p = ip_proto t) /\
  start_port t <= p_port p <= end_port t /\
  start_addr t <= p_addr p <= end_addr t.

Definition nonempty (t : ts) : Prop := start_port t <= end_port t /\ start_addr t <= end_addr t.
