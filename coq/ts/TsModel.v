(** Hand-written executable model of the selector handling around the generated functions
    (Gen/TsFuns.v from message.py, Gen/TsIkesa.v from ikesa.py).  No proofs in this file.

    Addresses are integers ([Z]); the family of a selector is the one its [ts_type] names, by the rule
    of TrafficSelector.parse ([addr_len]): 4 bytes for TS_IPV4_ADDR_RANGE, 16 bytes for every other type. *)
From Coq Require Import ZArith List Bool.
From Ts Require Import Gen.TsFuns Gen.TsIkesa.
Import ListNotations.
Open Scope Z_scope.

(** * Python exceptions *)
Inductive exn := TsUnacceptable | IndexError.
Inductive result (A : Type) := Ok (a : A) | Raise (e : exn).
Arguments Ok {A} a.
Arguments Raise {A} e.

(** * Networks of the ipaddress module: (network address, prefix length) in a [w]-bit family *)

(** [end_addr in network] for an address of the same family *)
Definition net_contains (w base p a : Z) : bool := (base <=? a) && (a <=? base + 2 ^ (w - p) - 1).

(** [network.supernet()]: one bit shorter prefix, host bits cleared; the /0 network is its own supernet *)
Definition supernet (w base p : Z) : Z * Z :=
  if p =? 0 then (base, p) else (base / 2 ^ (w - p + 1) * 2 ^ (w - p + 1), p - 1).

(** the while loop of TrafficSelector.get_network; [None] = fuel exhausted (the Python loop would not end) *)
Fixpoint grow (fuel : nat) (w base p e : Z) : option (Z * Z) :=
  match fuel with
  | O => None
  | S f => if net_contains w base p e then Some (base, p)
           else let '(b', p') := supernet w base p in grow f w b' p' e
  end.

Definition get_network_w (w s e : Z) : option (Z * Z) := grow 129 w s w e.   (* ip_network(start) is a host network *)

Definition ts_width (t : ts) : Z := 8 * addr_len (ts_type t).

(** TrafficSelector.get_network *)
Definition get_network (t : ts) : option (Z * Z) := get_network_w (ts_width t) (start_addr t) (end_addr t).

(** TrafficSelector.from_network(subnet, port, ip_proto) for subnet = base/prefix of IP version [version] *)
Definition version_width (version : Z) : Z := if version =? 6 then 128 else 32.

Definition from_network (version base prefix port proto : Z) : ts :=
  {| ts_type := from_network_ts_type version; ip_proto := proto;
     start_port := port; end_port := from_network_end_port port;
     start_addr := base;                                                  (* subnet[0] *)
     end_addr := base + 2 ^ (version_width version - prefix) - 1 |}.      (* subnet[-1] *)

(** * IkeSa._get_ipsec_configuration *)
Record conf := { c_index : Z; c_mode : Z; c_my_ts : ts; c_peer_ts : ts }.

(** one pass: the first entry (in configuration order) the rule [step] accepts *)
Fixpoint find_conf (step : ts -> ts -> ts -> ts -> option (ts * ts)) (tsi tsr : ts) (protect : list conf)
  : option (conf * ts * ts) :=
  match protect with
  | [] => None
  | c :: rest =>
      match step tsi tsr (c_my_ts c) (c_peer_ts c) with
      | Some (m, p) => Some (c, m, p)
      | None => find_conf step tsi tsr rest
      end
  end.

(** the passes of the body of the TSr loop, in order *)
Fixpoint try_passes (passes : list (ts -> ts -> ts -> ts -> option (ts * ts))) (tsi tsr : ts) (protect : list conf)
  : option (conf * ts * ts) :=
  match passes with
  | [] => None
  | step :: rest =>
      match find_conf step tsi tsr protect with
      | Some r => Some r
      | None => try_passes rest tsi tsr protect
      end
  end.

Fixpoint loop_tsr (tsi : ts) (tsrs : list ts) (protect : list conf) : option (conf * ts * ts) :=
  match tsrs with
  | [] => None
  | tsr :: rest => match try_passes conf_passes tsi tsr protect with Some r => Some r | None => loop_tsr tsi rest protect end
  end.

Fixpoint loop_tsi (tsis tsrs : list ts) (protect : list conf) : option (conf * ts * ts) :=
  match tsis with
  | [] => None
  | tsi :: rest => match loop_tsr tsi tsrs protect with Some r => Some r | None => loop_tsi rest tsrs protect end
  end.

(** returns (ipsec_conf, my selector, peer selector) *)
Definition get_ipsec_configuration (protect : list conf) (tsis tsrs : list ts) : result (conf * ts * ts) :=
  match loop_tsi (iter_tsi tsis) (iter_tsr tsrs) protect with
  | Some r => Ok r
  | None => Raise TsUnacceptable
  end.

(** * The CHILD_SA selectors and mode as installed (given to Xfrm.create_child_sa) *)
Record child := { ch_tsi : ts; ch_tsr : ts; ch_mode : Z }.

(** Responder, _process_create_child_sa_negotiation_req: the selector/mode part.
    [rekey] = Some (tsi, tsr) of the CHILD_SA named by the REKEY_SA notify.  [Ok] = these checks passed and this
    is what will be installed if the remaining steps (proposal, KE, kernel) succeed. *)
Definition responder_child (protect : list conf) (rekey : option (ts * ts)) (req_tsi req_tsr : list ts)
           (transport_notify : bool) : result (conf * child) :=
  if match rekey with Some (old_tsi, old_tsr) => rekey_ts_mismatch req_tsi req_tsr old_tsi old_tsr | None => false end
  then Raise TsUnacceptable
  else match get_ipsec_configuration protect req_tsi req_tsr with
       | Raise e => Raise e
       | Ok (c, my_ts, peer_ts) =>
           let req_mode := requested_mode transport_notify in
           if responder_mode_mismatch (c_mode c) req_mode then Raise TsUnacceptable
           else let '(i, r) := responder_child_ts my_ts peer_ts in
                Ok (c, {| ch_tsi := i; ch_tsr := r; ch_mode := req_mode |})
       end.

(** Initiator, _process_create_child_sa_negotiation_res: the mode check (first) ... *)
Definition initiator_mode_check (my_mode : Z) (transport_notify : bool) : result unit :=
  if initiator_mode_mismatch my_mode (response_mode transport_notify) then Raise TsUnacceptable else Ok tt.

(** ... and the narrowing check (after the proposal check) *)
Definition initiator_ts_check (offered_tsi offered_tsr : list ts) (resp_tsi resp_tsr : list ts) : result (ts * ts) :=
  match resp_tsi, resp_tsr with
  | chosen_tsi :: _, chosen_tsr :: _ =>
      if initiator_ts_reject (matches_tsi chosen_tsi offered_tsi) (matches_tsr chosen_tsr offered_tsr)
      then Raise TsUnacceptable
      else Ok (initiator_child_ts chosen_tsi chosen_tsr)
  | _, _ => Raise IndexError
  end.

Definition initiator_child (my_mode : Z) (offered_tsi offered_tsr : list ts) (transport_notify : bool)
           (resp_tsi resp_tsr : list ts) : result child :=
  match initiator_mode_check my_mode transport_notify with
  | Raise e => Raise e
  | Ok _ =>
      match initiator_ts_check offered_tsi offered_tsr resp_tsi resp_tsr with
      | Raise e => Raise e
      | Ok (i, r) => Ok {| ch_tsi := i; ch_tsr := r; ch_mode := my_mode |}     (* _replace keeps the mode *)
      end
  end.

(** Xfrm.create_child_sa: selector arguments of the first (outbound) create_sa call:
    (src network, dst network, src port, dst port, ip_proto); the inbound call swaps src and dst. *)
Definition kernel_selectors (c : child) : option (Z * Z) * option (Z * Z) * Z * Z * Z :=
  (get_network (ch_tsi c), get_network (ch_tsr c), get_port (ch_tsi c), get_port (ch_tsr c), ip_proto (ch_tsi c)).
