(** C12 property theorems (nothing else lives here). *)
From Coq Require Import ZArith.
From Ts Require Import Gen.TsFuns Packets TsProofs.

Theorem C12_subset_iff : forall a b, nonempty a ->
  (is_subset a b = true <-> forall p, denote a p -> denote b p).
Proof. exact subset_iff. Qed.
Print Assumptions C12_subset_iff.
