(** C12 property theorems (nothing else lives here). *)
From Coq Require Import ZArith List.
From Ts Require Import Gen.TsFuns Gen.TsIkesa Packets TsModel TsProofs TsNet TsNarrow.
Import ListNotations.
Open Scope Z_scope.

(** containment as implemented = inclusion of the denoted packet sets *)
Theorem C12_subset_iff : forall a b, nonempty a ->
  (is_subset a b = true <-> forall p, denote a p -> denote b p).
Proof. exact subset_iff. Qed.
Print Assumptions C12_subset_iff.

(** range -> network conversion gives back exactly the configured network and port (IPv4 and IPv6, every prefix;
    holds for every port, in particular 0..65535) *)
Theorem C12_network_roundtrip : forall version base prefix port proto,
  valid_network version base prefix ->
  get_network (from_network version base prefix port proto) = Some (base, prefix) /\
  get_port (from_network version base prefix port proto) = port.
Proof. exact network_roundtrip. Qed.
Print Assumptions C12_network_roundtrip.

(** the network handed to the kernel covers the whole address range and is the smallest network that does *)
Theorem C12_get_network_covers : forall t, in_family t ->
  exists b p, get_network t = Some (b, p) /\ 0 <= p <= ts_width t /\ b mod 2 ^ (ts_width t - p) = 0 /\
    (forall a, start_addr t <= a <= end_addr t \/ end_addr t <= a <= start_addr t ->
               b <= a <= b + 2 ^ (ts_width t - p) - 1) /\
    (forall b' p', 0 <= p' <= ts_width t -> b' mod 2 ^ (ts_width t - p') = 0 ->
        b' <= start_addr t <= b' + 2 ^ (ts_width t - p') - 1 -> b' <= end_addr t <= b' + 2 ^ (ts_width t - p') - 1 ->
        p' <= p /\ b' <= b /\ b + 2 ^ (ts_width t - p) <= b' + 2 ^ (ts_width t - p')).
Proof. exact get_network_covers. Qed.
Print Assumptions C12_get_network_covers.

(** policy lookup: the selectors returned are inside a proposed selector and inside the policy entry *)
Theorem C12_narrowing : forall protect tsis tsrs c my_ts peer_ts,
  get_ipsec_configuration protect tsis tsrs = Ok (c, my_ts, peer_ts) ->
  In c protect /\
  (exists tsi, In tsi tsis /\ is_subset peer_ts tsi = true) /\ is_subset peer_ts (c_peer_ts c) = true /\
  (exists tsr, In tsr tsrs /\ is_subset my_ts tsr = true) /\ is_subset my_ts (c_my_ts c) = true.
Proof. exact narrowing. Qed.
Print Assumptions C12_narrowing.

Theorem C12_narrowing_packets : forall protect tsis tsrs c my_ts peer_ts,
  get_ipsec_configuration protect tsis tsrs = Ok (c, my_ts, peer_ts) ->
  (forall p, denote peer_ts p -> (exists tsi, In tsi tsis /\ denote tsi p) /\ denote (c_peer_ts c) p) /\
  (forall p, denote my_ts p -> (exists tsr, In tsr tsrs /\ denote tsr p) /\ denote (c_my_ts c) p).
Proof. exact narrowing_packets. Qed.
Print Assumptions C12_narrowing_packets.

(** no policy entry comparable (neither larger nor smaller) with any proposed pair <-> TsUnacceptable *)
Theorem C12_no_policy : forall protect tsis tsrs,
  (forall tsi tsr c, In tsi tsis -> In tsr tsrs -> In c protect -> comparable tsi tsr c = false) <->
  get_ipsec_configuration protect tsis tsrs = Raise TsUnacceptable.
Proof. exact no_policy. Qed.
Print Assumptions C12_no_policy.

(** responder: what passes the selector and mode checks (and is then installed) *)
Theorem C12_responder_installed : forall protect rekey tsis tsrs tn c ch,
  responder_child protect rekey tsis tsrs tn = Ok (c, ch) ->
  In c protect /\
  (exists tsr, In tsr tsrs /\ is_subset (ch_tsi ch) tsr = true) /\ is_subset (ch_tsi ch) (c_my_ts c) = true /\
  (exists tsi, In tsi tsis /\ is_subset (ch_tsr ch) tsi = true) /\ is_subset (ch_tsr ch) (c_peer_ts c) = true /\
  c_mode c = requested_mode tn /\ ch_mode ch = requested_mode tn /\
  (forall old_tsi old_tsr, rekey = Some (old_tsi, old_tsr) -> tsis = [old_tsr] /\ tsrs = [old_tsi]).
Proof. exact responder_ok. Qed.
Print Assumptions C12_responder_installed.

(** mode: responder refuses a mode other than the policy's; initiator refuses a response in another mode *)
Theorem C12_mode :
  (forall protect rekey tsis tsrs tn c my_ts peer_ts,
     get_ipsec_configuration protect tsis tsrs = Ok (c, my_ts, peer_ts) -> c_mode c <> requested_mode tn ->
     responder_child protect rekey tsis tsrs tn = Raise TsUnacceptable) /\
  (forall my_mode otsi otsr tn rtsi rtsr,
     response_mode tn <> my_mode -> initiator_child my_mode otsi otsr tn rtsi rtsr = Raise TsUnacceptable).
Proof. split; [exact responder_mode_refused | exact initiator_mode_refused]. Qed.
Print Assumptions C12_mode.

Theorem C12_no_policy_refused : forall protect rekey tsis tsrs tn,
  (forall tsi tsr c, In tsi tsis -> In tsr tsrs -> In c protect -> comparable tsi tsr c = false) ->
  responder_child protect rekey tsis tsrs tn = Raise TsUnacceptable.
Proof. exact responder_no_policy_refused. Qed.
Print Assumptions C12_no_policy_refused.

(** initiator: an installed response keeps the mode and narrows the offer; a widened one is refused *)
Theorem C12_initiator_narrow : forall my_mode otsi otsr tn rtsi rtsr ch,
  initiator_child my_mode otsi otsr tn rtsi rtsr = Ok ch ->
  my_mode = response_mode tn /\ ch_mode ch = my_mode /\
  (exists r1, rtsi = ch_tsi ch :: r1) /\ (exists r2, rtsr = ch_tsr ch :: r2) /\
  (exists x, In x otsi /\ is_subset (ch_tsi ch) x = true) /\ (exists y, In y otsr /\ is_subset (ch_tsr ch) y = true).
Proof. exact initiator_ok. Qed.
Print Assumptions C12_initiator_narrow.

Theorem C12_initiator_widened_refused : forall my_mode otsi otsr tn ci r1 cr r2,
  (forall x, In x otsi -> is_subset ci x = false) \/ (forall y, In y otsr -> is_subset cr y = false) ->
  exists e, initiator_child my_mode otsi otsr tn (ci :: r1) (cr :: r2) = Raise e.
Proof. exact initiator_widened_refused. Qed.
Print Assumptions C12_initiator_widened_refused.

(** rekey: refused unless the request carries exactly the replaced SA's selectors *)
Theorem C12_rekey_refused : forall protect old_tsi old_tsr tsis tsrs tn,
  tsis <> [old_tsr] \/ tsrs <> [old_tsi] ->
  responder_child protect (Some (old_tsi, old_tsr)) tsis tsrs tn = Raise TsUnacceptable.
Proof. exact rekey_refused. Qed.
Print Assumptions C12_rekey_refused.

(** rekey: what is installed - the replaced SA's selectors if some policy entry covers them (first such entry),
    otherwise those of the first entry inside them; never wider than the replaced SA's *)
Theorem C12_rekey_installed : forall protect old_tsi old_tsr tsis tsrs tn c ch,
  responder_child protect (Some (old_tsi, old_tsr)) tsis tsrs tn = Ok (c, ch) ->
  exists pre post, protect = pre ++ c :: post /\
    (((forall c', In c' pre -> larger_rule old_tsr old_tsi c' = false) /\ larger_rule old_tsr old_tsi c = true /\
      ch_tsi ch = old_tsi /\ ch_tsr ch = old_tsr) \/
     ((forall c', In c' protect -> larger_rule old_tsr old_tsi c' = false) /\
      (forall c', In c' pre -> smaller_rule old_tsr old_tsi c' = false) /\ smaller_rule old_tsr old_tsi c = true /\
      ch_tsi ch = c_my_ts c /\ ch_tsr ch = c_peer_ts c)) /\
    is_subset (ch_tsi ch) old_tsi = true /\ is_subset (ch_tsr ch) old_tsr = true.
Proof. exact rekey_installed. Qed.
Print Assumptions C12_rekey_installed.

(** "for a rekey they equal those of the replaced SA": holds for every replaced SA whose selectors lie inside some
    policy entry - which C12_narrowing / C12_initiator_narrow establish for the CHILD_SAs this code creates from the
    same policy.  (Before fix a2cebd1 this was false: finding F15, kept as regression in the check.) *)
Theorem C12_rekey_same : forall protect old_tsi old_tsr tsis tsrs tn c ch,
  (exists c0, In c0 protect /\ is_subset old_tsr (c_peer_ts c0) = true /\ is_subset old_tsi (c_my_ts c0) = true) ->
  responder_child protect (Some (old_tsi, old_tsr)) tsis tsrs tn = Ok (c, ch) ->
  ch_tsi ch = old_tsi /\ ch_tsr ch = old_tsr /\
  is_subset old_tsr (c_peer_ts c) = true /\ is_subset old_tsi (c_my_ts c) = true.
Proof. exact rekey_same. Qed.
Print Assumptions C12_rekey_same.

(** and it is accepted exactly with the first covering entry, when that entry has the requested mode *)
Theorem C12_rekey_accepted : forall pre c0 post old_tsi old_tsr tn,
  (forall c', In c' pre -> larger_rule old_tsr old_tsi c' = false) ->
  is_subset old_tsr (c_peer_ts c0) = true -> is_subset old_tsi (c_my_ts c0) = true -> c_mode c0 = requested_mode tn ->
  responder_child (pre ++ c0 :: post) (Some (old_tsi, old_tsr)) [old_tsr] [old_tsi] tn =
  Ok (c0, {| ch_tsi := old_tsi; ch_tsr := old_tsr; ch_mode := requested_mode tn |}).
Proof. exact rekey_accepted. Qed.
Print Assumptions C12_rekey_accepted.

(** the covering-entry hypothesis of C12_rekey_same cannot be dropped (an SA no policy entry covers, e.g. after the
    configuration changed, is rekeyed with the selectors of an entry inside it - narrower, never wider) *)
Theorem C12_rekey_same_needs_covering_entry :
  exists protect old_tsi old_tsr tn c ch,
    responder_child protect (Some (old_tsi, old_tsr)) [old_tsr] [old_tsi] tn = Ok (c, ch) /\
    ch_tsi ch <> old_tsi /\ ch_tsr ch <> old_tsr.
Proof. exact rekey_same_needs_covering_entry. Qed.
Print Assumptions C12_rekey_same_needs_covering_entry.
