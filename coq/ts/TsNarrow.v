(** Policy lookup / narrowing, mode checks, rekey check, initiator check. *)
From Coq Require Import ZArith List Bool Lia ZifyBool.
From Ts Require Import Gen.TsFuns Gen.TsIkesa Packets TsModel TsProofs.
Import ListNotations.
Open Scope Z_scope.

Notation "a ⊆ b" := (is_subset a b = true) (at level 70).

Lemma is_subset_refl a : a ⊆ a.
Proof. unfold is_subset. split_ifs; try reflexivity; exfalso; lia. Qed.

Lemma is_subset_trans a b c : a ⊆ b -> b ⊆ c -> a ⊆ c.
Proof. unfold is_subset. intros H1 H2. split_ifs; try reflexivity; try discriminate; exfalso; lia. Qed.

Lemma ts_eq_eq a b : ts_eq a b = true <-> a = b.
Proof.
  split.
  - unfold ts_eq. intros H. destruct a, b; cbn in *. f_equal; lia.
  - intros ->. unfold ts_eq. lia.
Qed.

Lemma ts_list_eq_eq a : forall b, ts_list_eq a b = true <-> a = b.
Proof.
  induction a as [|x a IH]; intros [|y b]; cbn [ts_list_eq]; try (split; [discriminate|discriminate]); try tauto.
  rewrite andb_true_iff, ts_eq_eq, IH. split; [intros [-> ->]; reflexivity | intros H; inversion H; auto].
Qed.


(** ** the two matching rules *)
Definition larger_rule (tsi tsr : ts) (c : conf) : bool := is_subset tsi (c_peer_ts c) && is_subset tsr (c_my_ts c).
Definition smaller_rule (tsi tsr : ts) (c : conf) : bool := is_subset (c_peer_ts c) tsi && is_subset (c_my_ts c) tsr.
Definition comparable (tsi tsr : ts) (c : conf) : bool := larger_rule tsi tsr c || smaller_rule tsi tsr c.

Definition larger_step (tsi tsr m p : ts) : option (ts * ts) :=
  if is_subset tsi p && is_subset tsr m then Some (tsr, tsi) else None.
Definition smaller_step (tsi tsr m p : ts) : option (ts * ts) :=
  if is_subset p tsi && is_subset m tsr then Some (m, p) else None.

(** the generated pass list is: all entries by the larger rule, then all entries by the smaller rule *)
Lemma passes_spec tsi tsr protect :
  try_passes conf_passes tsi tsr protect =
  match find_conf larger_step tsi tsr protect with
  | Some r => Some r
  | None => find_conf smaller_step tsi tsr protect
  end.
Proof.
  change (try_passes conf_passes tsi tsr protect) with
    (match find_conf larger_step tsi tsr protect with
     | Some r => Some r
     | None => match find_conf smaller_step tsi tsr protect with Some r => Some r | None => None end
     end).
  destruct (find_conf larger_step tsi tsr protect); [reflexivity|].
  destruct (find_conf smaller_step tsi tsr protect); reflexivity.
Qed.

Lemma larger_step_spec tsi tsr c :
  larger_step tsi tsr (c_my_ts c) (c_peer_ts c) = if larger_rule tsi tsr c then Some (tsr, tsi) else None.
Proof. reflexivity. Qed.
Lemma smaller_step_spec tsi tsr c :
  smaller_step tsi tsr (c_my_ts c) (c_peer_ts c) = if smaller_rule tsi tsr c then Some (c_my_ts c, c_peer_ts c) else None.
Proof. reflexivity. Qed.

(** ** one pass *)
Lemma find_conf_some step tsi tsr protect c my peer :
  find_conf step tsi tsr protect = Some (c, my, peer) ->
  exists pre post, protect = pre ++ c :: post /\
    (forall c', In c' pre -> step tsi tsr (c_my_ts c') (c_peer_ts c') = None) /\
    step tsi tsr (c_my_ts c) (c_peer_ts c) = Some (my, peer).
Proof.
  induction protect as [|c0 rest IH]; cbn [find_conf]; [discriminate|].
  destruct (step tsi tsr (c_my_ts c0) (c_peer_ts c0)) as [[m p]|] eqn:E.
  - intros H; inversion H; subst. exists [], rest. repeat split; auto. intros c' [].
  - intros H. destruct (IH H) as (pre & post & -> & Hpre & Hstep).
    exists (c0 :: pre), post. repeat split; auto.
    intros c' [<-|Hin]; [exact E | auto].
Qed.

Lemma find_conf_none step tsi tsr protect :
  find_conf step tsi tsr protect = None <->
  forall c, In c protect -> step tsi tsr (c_my_ts c) (c_peer_ts c) = None.
Proof.
  induction protect as [|c0 rest IH]; cbn [find_conf].
  - split; auto. intros _ c [].
  - destruct (step tsi tsr (c_my_ts c0) (c_peer_ts c0)) as [[m p]|] eqn:E.
    + split; [discriminate|]. intros H. specialize (H c0 (or_introl eq_refl)). congruence.
    + rewrite IH. split.
      * intros H c [<-|Hin]; [exact E | auto].
      * intros H c Hin. apply H. right; exact Hin.
Qed.

Lemma find_conf_first step tsi tsr pre c post my peer :
  (forall c', In c' pre -> step tsi tsr (c_my_ts c') (c_peer_ts c') = None) ->
  step tsi tsr (c_my_ts c) (c_peer_ts c) = Some (my, peer) ->
  find_conf step tsi tsr (pre ++ c :: post) = Some (c, my, peer).
Proof.
  intros Hpre Hc. induction pre as [|c' pre IH]; cbn [app find_conf].
  - rewrite Hc. reflexivity.
  - rewrite (Hpre c' (or_introl eq_refl)). apply IH. intros x Hx. apply Hpre. right; exact Hx.
Qed.

Lemma larger_none tsi tsr c : larger_step tsi tsr (c_my_ts c) (c_peer_ts c) = None <-> larger_rule tsi tsr c = false.
Proof. rewrite larger_step_spec. destruct (larger_rule tsi tsr c); split; congruence. Qed.
Lemma smaller_none tsi tsr c : smaller_step tsi tsr (c_my_ts c) (c_peer_ts c) = None <-> smaller_rule tsi tsr c = false.
Proof. rewrite smaller_step_spec. destruct (smaller_rule tsi tsr c); split; congruence. Qed.

(** what the passes return, exactly *)
Lemma passes_some tsi tsr protect c my peer :
  try_passes conf_passes tsi tsr protect = Some (c, my, peer) ->
  exists pre post, protect = pre ++ c :: post /\
    (((forall c', In c' pre -> larger_rule tsi tsr c' = false) /\ larger_rule tsi tsr c = true /\
     my = tsr /\ peer = tsi) \/
    ((forall c', In c' protect -> larger_rule tsi tsr c' = false) /\
     (forall c', In c' pre -> smaller_rule tsi tsr c' = false) /\ smaller_rule tsi tsr c = true /\
     my = c_my_ts c /\ peer = c_peer_ts c)).
Proof.
  rewrite passes_spec. destruct (find_conf larger_step tsi tsr protect) as [r|] eqn:EL.
  - intros H; inversion H; subst r; clear H.
    destruct (find_conf_some _ _ _ _ _ _ _ EL) as (pre & post & -> & Hpre & Hstep).
    exists pre, post. split; [reflexivity|]. left.
    rewrite larger_step_spec in Hstep. destruct (larger_rule tsi tsr c) eqn:E; [|discriminate].
    inversion Hstep; subst. repeat split; auto. intros c' Hc'. apply larger_none. auto.
  - intros ES. destruct (find_conf_some _ _ _ _ _ _ _ ES) as (pre & post & -> & Hpre & Hstep).
    exists pre, post. split; [reflexivity|]. right.
    rewrite smaller_step_spec in Hstep. destruct (smaller_rule tsi tsr c) eqn:E; [|discriminate].
    inversion Hstep; subst. repeat split; auto.
    + intros c' Hc'. apply larger_none. rewrite find_conf_none in EL. auto.
    + intros c' Hc'. apply smaller_none. auto.
Qed.

Lemma passes_none tsi tsr protect :
  try_passes conf_passes tsi tsr protect = None <-> forall c, In c protect -> comparable tsi tsr c = false.
Proof.
  rewrite passes_spec. unfold comparable. split.
  - destruct (find_conf larger_step tsi tsr protect) eqn:EL; [discriminate|]. intros ES c Hc.
    rewrite find_conf_none in EL, ES. rewrite (proj1 (larger_none _ _ _) (EL c Hc)), (proj1 (smaller_none _ _ _) (ES c Hc)).
    reflexivity.
  - intros H.
    assert (EL : find_conf larger_step tsi tsr protect = None).
    { apply find_conf_none. intros c Hc. apply larger_none. specialize (H c Hc). apply orb_false_iff in H. tauto. }
    rewrite EL. apply find_conf_none. intros c Hc. apply smaller_none. specialize (H c Hc). apply orb_false_iff in H. tauto.
Qed.

Lemma passes_sound tsi tsr protect c my peer :
  try_passes conf_passes tsi tsr protect = Some (c, my, peer) ->
  In c protect /\ peer ⊆ tsi /\ peer ⊆ c_peer_ts c /\ my ⊆ tsr /\ my ⊆ c_my_ts c.
Proof.
  intros H. destruct (passes_some _ _ _ _ _ _ H) as (pre & post & -> & [(_ & HL & -> & ->)|(_ & _ & HS & -> & ->)]);
    (split; [apply in_or_app; right; left; reflexivity|]).
  - unfold larger_rule in HL. apply andb_true_iff in HL. destruct HL. repeat split; auto using is_subset_refl.
  - unfold smaller_rule in HS. apply andb_true_iff in HS. destruct HS. repeat split; auto using is_subset_refl.
Qed.

(** ** the two outer loops *)
Lemma loop_tsr_some tsi tsrs protect r :
  loop_tsr tsi tsrs protect = Some r -> exists tsr, In tsr tsrs /\ try_passes conf_passes tsi tsr protect = Some r.
Proof.
  induction tsrs as [|t rest IH]; cbn [loop_tsr]; [discriminate|].
  destruct (try_passes conf_passes tsi t protect) eqn:E.
  - intros H; inversion H; subst. exists t. split; [left; reflexivity | exact E].
  - intros H. destruct (IH H) as (tsr & Hin & Hf). exists tsr. split; [right; exact Hin | exact Hf].
Qed.

Lemma loop_tsr_none tsi tsrs protect :
  loop_tsr tsi tsrs protect = None <-> forall tsr, In tsr tsrs -> try_passes conf_passes tsi tsr protect = None.
Proof.
  induction tsrs as [|t rest IH]; cbn [loop_tsr].
  - split; auto. intros _ t [].
  - destruct (try_passes conf_passes tsi t protect) eqn:E.
    + split; [discriminate|]. intros H. rewrite (H t (or_introl eq_refl)) in E. discriminate.
    + rewrite IH. split; [intros H x [<-|Hin]; auto | intros H x Hin; apply H; right; exact Hin].
Qed.

Lemma loop_tsi_some tsis tsrs protect r :
  loop_tsi tsis tsrs protect = Some r ->
  exists tsi tsr, In tsi tsis /\ In tsr tsrs /\ try_passes conf_passes tsi tsr protect = Some r.
Proof.
  induction tsis as [|t rest IH]; cbn [loop_tsi]; [discriminate|].
  destruct (loop_tsr t tsrs protect) eqn:E.
  - intros H; inversion H; subst. destruct (loop_tsr_some _ _ _ _ E) as (tsr & Hin & Hf).
    exists t, tsr. repeat split; auto. left; reflexivity.
  - intros H. destruct (IH H) as (tsi & tsr & Hi & Hr & Hf). exists tsi, tsr. repeat split; auto. right; exact Hi.
Qed.

Lemma loop_tsi_none tsis tsrs protect :
  loop_tsi tsis tsrs protect = None <-> forall tsi, In tsi tsis -> loop_tsr tsi tsrs protect = None.
Proof.
  induction tsis as [|t rest IH]; cbn [loop_tsi].
  - split; auto. intros _ t [].
  - destruct (loop_tsr t tsrs protect) eqn:E.
    + split; [discriminate|]. intros H. rewrite (H t (or_introl eq_refl)) in E. discriminate.
    + rewrite IH. split; [intros H x [<-|Hin]; auto | intros H x Hin; apply H; right; exact Hin].
Qed.

Lemma in_iter_tsi x l : In x (iter_tsi l) <-> In x l.
Proof. unfold iter_tsi. symmetry. apply in_rev. Qed.
Lemma in_iter_tsr x l : In x (iter_tsr l) <-> In x l.
Proof. unfold iter_tsr. symmetry. apply in_rev. Qed.

(** ** C12_narrowing *)
Theorem narrowing protect tsis tsrs c my_ts peer_ts :
  get_ipsec_configuration protect tsis tsrs = Ok (c, my_ts, peer_ts) ->
  In c protect /\
  (exists tsi, In tsi tsis /\ peer_ts ⊆ tsi) /\ peer_ts ⊆ c_peer_ts c /\
  (exists tsr, In tsr tsrs /\ my_ts ⊆ tsr) /\ my_ts ⊆ c_my_ts c.
Proof.
  unfold get_ipsec_configuration. destruct (loop_tsi _ _ _) as [r|] eqn:E; [|discriminate].
  intros H; inversion H; subst r; clear H.
  destruct (loop_tsi_some _ _ _ _ E) as (tsi & tsr & Hi & Hr & Hf).
  destruct (passes_sound _ _ _ _ _ _ Hf) as (Hin & A & B & C & D).
  apply (proj1 (in_iter_tsi _ _)) in Hi. apply (proj1 (in_iter_tsr _ _)) in Hr.
  split; [exact Hin|].
  split; [exists tsi; auto|]. split; [exact B|]. split; [exists tsr; auto | exact D].
Qed.

(** the same in terms of packets (by C12_subset_iff) *)
Corollary narrowing_packets protect tsis tsrs c my_ts peer_ts :
  get_ipsec_configuration protect tsis tsrs = Ok (c, my_ts, peer_ts) ->
  (forall p, denote peer_ts p -> (exists tsi, In tsi tsis /\ denote tsi p) /\ denote (c_peer_ts c) p) /\
  (forall p, denote my_ts p -> (exists tsr, In tsr tsrs /\ denote tsr p) /\ denote (c_my_ts c) p).
Proof.
  intros H. destruct (narrowing _ _ _ _ _ _ H) as (_ & (tsi & Hi & A) & B & (tsr & Hr & C) & D).
  split; intros p Hp; (split; [eexists; split; [eassumption|]|]); eapply is_subset_sound; eauto.
Qed.

(** ** C12_no_policy *)
Theorem no_policy protect tsis tsrs :
  (forall tsi tsr c, In tsi tsis -> In tsr tsrs -> In c protect -> comparable tsi tsr c = false) <->
  get_ipsec_configuration protect tsis tsrs = Raise TsUnacceptable.
Proof.
  unfold get_ipsec_configuration. split.
  - intros H. destruct (loop_tsi _ _ _) as [r|] eqn:E; [|reflexivity]. exfalso.
    destruct (loop_tsi_some _ _ _ _ E) as (tsi & tsr & Hi & Hr & Hf).
    apply (proj1 (in_iter_tsi _ _)) in Hi. apply (proj1 (in_iter_tsr _ _)) in Hr.
    assert (HN : try_passes conf_passes tsi tsr protect = None) by (apply passes_none; intros c Hc; auto).
    congruence.
  - destruct (loop_tsi _ _ _) as [r|] eqn:E; [discriminate|]. intros _ tsi tsr c Hi Hr Hc.
    rewrite loop_tsi_none in E. specialize (E tsi (proj2 (in_iter_tsi _ _) Hi)).
    rewrite loop_tsr_none in E. specialize (E tsr (proj2 (in_iter_tsr _ _) Hr)).
    rewrite passes_none in E. auto.
Qed.

(** the lookup never raises anything else *)
Lemma lookup_total protect tsis tsrs :
  (exists r, get_ipsec_configuration protect tsis tsrs = Ok r) \/
  get_ipsec_configuration protect tsis tsrs = Raise TsUnacceptable.
Proof. unfold get_ipsec_configuration. destruct (loop_tsi _ _ _); eauto. Qed.

(** ** responder *)
Theorem responder_ok protect rekey tsis tsrs tn c ch :
  responder_child protect rekey tsis tsrs tn = Ok (c, ch) ->
  In c protect /\
  (* narrowed: inside the initiator's offer and inside the policy entry *)
  (exists tsr, In tsr tsrs /\ ch_tsi ch ⊆ tsr) /\ ch_tsi ch ⊆ c_my_ts c /\
  (exists tsi, In tsi tsis /\ ch_tsr ch ⊆ tsi) /\ ch_tsr ch ⊆ c_peer_ts c /\
  (* mode *)
  c_mode c = requested_mode tn /\ ch_mode ch = requested_mode tn /\
  (* rekey: the request carried exactly the replaced SA's selectors *)
  (forall old_tsi old_tsr, rekey = Some (old_tsi, old_tsr) -> tsis = [old_tsr] /\ tsrs = [old_tsi]).
Proof.
  unfold responder_child.
  destruct (match rekey with Some (a, b) => rekey_ts_mismatch tsis tsrs a b | None => false end) eqn:Erk;
    [discriminate|].
  destruct (get_ipsec_configuration protect tsis tsrs) as [[[c0 my] peer]|] eqn:Eg; [|discriminate].
  destruct (responder_mode_mismatch (c_mode c0) (requested_mode tn)) eqn:Em; [discriminate|].
  unfold responder_child_ts. intros H; inversion H; subst; clear H. cbn [ch_tsi ch_tsr ch_mode].
  destruct (narrowing _ _ _ _ _ _ Eg) as (Hin & A & B & C & D).
  repeat split; auto.
  - unfold responder_mode_mismatch in Em. lia.
  - destruct rekey as [[a b]|]; [|discriminate]. inversion H; subst. unfold rekey_ts_mismatch in Erk.
    apply ts_list_eq_eq. destruct (ts_list_eq tsis [old_tsr]); [reflexivity|discriminate].
  - destruct rekey as [[a b]|]; [|discriminate]. inversion H; subst. unfold rekey_ts_mismatch in Erk.
    apply ts_list_eq_eq. destruct (ts_list_eq tsrs [old_tsi]); [reflexivity|]. rewrite orb_true_r in Erk. discriminate.
Qed.

(** C12_mode, responder: a policy is found but the requested mode differs -> TsUnacceptable *)
Theorem responder_mode_refused protect rekey tsis tsrs tn c my_ts peer_ts :
  get_ipsec_configuration protect tsis tsrs = Ok (c, my_ts, peer_ts) ->
  c_mode c <> requested_mode tn ->
  responder_child protect rekey tsis tsrs tn = Raise TsUnacceptable.
Proof.
  intros Hg Hm. unfold responder_child. destruct (match rekey with Some _ => _ | None => _ end); [reflexivity|].
  rewrite Hg. unfold responder_mode_mismatch.
  destruct (negb (c_mode c =? requested_mode tn)) eqn:E; [reflexivity|lia].
Qed.

Theorem responder_no_policy_refused protect rekey tsis tsrs tn :
  (forall tsi tsr c, In tsi tsis -> In tsr tsrs -> In c protect -> comparable tsi tsr c = false) ->
  responder_child protect rekey tsis tsrs tn = Raise TsUnacceptable.
Proof.
  intros H. apply no_policy in H. unfold responder_child.
  destruct (match rekey with Some _ => _ | None => _ end); [reflexivity|]. rewrite H. reflexivity.
Qed.

(** the responder never raises anything but TsUnacceptable in this part *)
Lemma responder_total protect rekey tsis tsrs tn :
  (exists r, responder_child protect rekey tsis tsrs tn = Ok r) \/
  responder_child protect rekey tsis tsrs tn = Raise TsUnacceptable.
Proof.
  unfold responder_child. destruct (match rekey with Some _ => _ | None => _ end); [auto|].
  destruct (lookup_total protect tsis tsrs) as [[[[c m] p] ->]| ->]; [|auto].
  destruct (responder_mode_mismatch _ _); [auto|]. unfold responder_child_ts. eauto.
Qed.

(** ** C12_rekey_same *)

(** refused unless the request carries exactly [old.tsr] / [old.tsi] *)
Theorem rekey_refused protect old_tsi old_tsr tsis tsrs tn :
  tsis <> [old_tsr] \/ tsrs <> [old_tsi] ->
  responder_child protect (Some (old_tsi, old_tsr)) tsis tsrs tn = Raise TsUnacceptable.
Proof.
  intros H. unfold responder_child, rekey_ts_mismatch.
  destruct (ts_list_eq tsis [old_tsr]) eqn:E1; [|reflexivity].
  destruct (ts_list_eq tsrs [old_tsi]) eqn:E2; [|reflexivity].
  apply ts_list_eq_eq in E1, E2. tauto.
Qed.

(** what an accepted rekey installs: the replaced SA's selectors if some policy entry covers them (the first such
    entry is the policy used); otherwise the selectors of the first entry lying inside them.  Never anything wider. *)
Theorem rekey_installed protect old_tsi old_tsr tsis tsrs tn c ch :
  responder_child protect (Some (old_tsi, old_tsr)) tsis tsrs tn = Ok (c, ch) ->
  exists pre post, protect = pre ++ c :: post /\
    (((forall c', In c' pre -> larger_rule old_tsr old_tsi c' = false) /\ larger_rule old_tsr old_tsi c = true /\
      ch_tsi ch = old_tsi /\ ch_tsr ch = old_tsr) \/
     ((forall c', In c' protect -> larger_rule old_tsr old_tsi c' = false) /\
      (forall c', In c' pre -> smaller_rule old_tsr old_tsi c' = false) /\ smaller_rule old_tsr old_tsi c = true /\
      ch_tsi ch = c_my_ts c /\ ch_tsr ch = c_peer_ts c)) /\
    ch_tsi ch ⊆ old_tsi /\ ch_tsr ch ⊆ old_tsr.
Proof.
  intros H. destruct (responder_ok _ _ _ _ _ _ _ H) as (_ & _ & _ & _ & _ & _ & _ & Hrk).
  destruct (Hrk _ _ eq_refl) as [-> ->]. clear Hrk.
  unfold responder_child in H. destruct (rekey_ts_mismatch _ _ _ _); [discriminate|].
  unfold get_ipsec_configuration, iter_tsi, iter_tsr in H. cbn [rev app loop_tsi loop_tsr] in H.
  destruct (try_passes conf_passes old_tsr old_tsi protect) as [[[c0 my] peer]|] eqn:Ef; [|discriminate].
  destruct (responder_mode_mismatch _ _); [discriminate|]. unfold responder_child_ts in H.
  inversion H; subst; clear H. cbn [ch_tsi ch_tsr].
  destruct (passes_some _ _ _ _ _ _ Ef) as (pre & post & -> & Hcase).
  exists pre, post. split; [reflexivity|].
  destruct Hcase as [(Hpre & HL & -> & ->)|(Hall & Hpre & HS & -> & ->)].
  - split; [left; auto|]. split; apply is_subset_refl.
  - split; [right; auto|]. unfold smaller_rule in HS. apply andb_true_iff in HS. tauto.
Qed.

(** FULL: an accepted rekey installs exactly the replaced SA's selectors, provided they lie inside some policy entry
    (an invariant of the CHILD_SAs this code creates: narrowing and C12_initiator_narrow) *)
Theorem rekey_same protect old_tsi old_tsr tsis tsrs tn c ch :
  (exists c0, In c0 protect /\ old_tsr ⊆ c_peer_ts c0 /\ old_tsi ⊆ c_my_ts c0) ->
  responder_child protect (Some (old_tsi, old_tsr)) tsis tsrs tn = Ok (c, ch) ->
  ch_tsi ch = old_tsi /\ ch_tsr ch = old_tsr /\ old_tsr ⊆ c_peer_ts c /\ old_tsi ⊆ c_my_ts c.
Proof.
  intros (c0 & Hin & H1 & H2) H.
  destruct (rekey_installed _ _ _ _ _ _ _ _ H) as (pre & post & -> & [(_ & HL & A & B)|(Hall & _)] & _).
  - unfold larger_rule in HL. apply andb_true_iff in HL. tauto.
  - exfalso. specialize (Hall c0 Hin). unfold larger_rule in Hall. rewrite H1, H2 in Hall. discriminate.
Qed.

(** ... and such a rekey is accepted iff the first covering entry has the requested mode *)
Theorem rekey_accepted pre c0 post old_tsi old_tsr tn :
  (forall c', In c' pre -> larger_rule old_tsr old_tsi c' = false) ->
  old_tsr ⊆ c_peer_ts c0 -> old_tsi ⊆ c_my_ts c0 -> c_mode c0 = requested_mode tn ->
  responder_child (pre ++ c0 :: post) (Some (old_tsi, old_tsr)) [old_tsr] [old_tsi] tn =
  Ok (c0, {| ch_tsi := old_tsi; ch_tsr := old_tsr; ch_mode := requested_mode tn |}).
Proof.
  intros Hpre H1 H2 Hm. unfold responder_child, rekey_ts_mismatch.
  rewrite !(proj2 (ts_list_eq_eq _ _) eq_refl). cbn [negb orb].
  unfold get_ipsec_configuration, iter_tsi, iter_tsr. cbn [rev app loop_tsi loop_tsr].
  rewrite passes_spec.
  rewrite (find_conf_first larger_step old_tsr old_tsi pre c0 post old_tsi old_tsr).
  - unfold responder_mode_mismatch. rewrite Hm, Z.eqb_refl. reflexivity.
  - intros c' Hc'. apply larger_none. auto.
  - rewrite larger_step_spec. unfold larger_rule. rewrite H1, H2. reflexivity.
Qed.

(** regression (finding F15, fixed): an earlier, narrower entry no longer answers the rekey of an SA that belongs
    to a later, wider entry *)
Definition rk_c1 : conf := {| c_index := 1; c_mode := MODE_TUNNEL;
  c_my_ts := from_network 4 167772416 24 80 6; c_peer_ts := from_network 4 167772672 24 0 6 |}.
Definition rk_c0 : conf := {| c_index := 2; c_mode := MODE_TUNNEL;
  c_my_ts := from_network 4 167772416 24 0 0; c_peer_ts := from_network 4 167772672 24 0 0 |}.

Example rekey_witness_fixed :
  responder_child [rk_c1; rk_c0] (Some (c_my_ts rk_c0, c_peer_ts rk_c0)) [c_peer_ts rk_c0] [c_my_ts rk_c0] false =
  Ok (rk_c0, {| ch_tsi := c_my_ts rk_c0; ch_tsr := c_peer_ts rk_c0; ch_mode := MODE_TUNNEL |}).
Proof. vm_compute. reflexivity. Qed.

(** the hypothesis of [rekey_same] cannot be dropped: an SA whose selectors no policy entry covers (e.g. the
    configuration changed) is rekeyed with the selectors of an entry inside them *)
Theorem rekey_same_needs_covering_entry :
  exists protect old_tsi old_tsr tn c ch,
    responder_child protect (Some (old_tsi, old_tsr)) [old_tsr] [old_tsi] tn = Ok (c, ch) /\
    ch_tsi ch <> old_tsi /\ ch_tsr ch <> old_tsr.
Proof.
  exists [rk_c1], (c_my_ts rk_c0), (c_peer_ts rk_c0), false, rk_c1,
    {| ch_tsi := c_my_ts rk_c1; ch_tsr := c_peer_ts rk_c1; ch_mode := MODE_TUNNEL |}.
  split; [vm_compute; reflexivity|]. split; intros H; vm_compute in H; discriminate.
Qed.

(** ** initiator *)
Lemma filter_nonempty {A} (f : A -> bool) l : is_nil (filter f l) = false -> exists x, In x l /\ f x = true.
Proof.
  intros H. destruct (filter f l) as [|x r] eqn:E; [discriminate|].
  assert (Hin : In x (filter f l)) by (rewrite E; left; reflexivity).
  apply filter_In in Hin. exists x. exact Hin.
Qed.

Theorem initiator_ok my_mode otsi otsr tn rtsi rtsr ch :
  initiator_child my_mode otsi otsr tn rtsi rtsr = Ok ch ->
  my_mode = response_mode tn /\ ch_mode ch = my_mode /\
  (exists r1, rtsi = ch_tsi ch :: r1) /\ (exists r2, rtsr = ch_tsr ch :: r2) /\
  (exists x, In x otsi /\ ch_tsi ch ⊆ x) /\ (exists y, In y otsr /\ ch_tsr ch ⊆ y).
Proof.
  unfold initiator_child, initiator_mode_check, initiator_ts_check.
  destruct (initiator_mode_mismatch my_mode (response_mode tn)) eqn:Em; [discriminate|].
  destruct rtsi as [|ci r1]; [discriminate|]. destruct rtsr as [|cr r2]; [discriminate|].
  destruct (initiator_ts_reject _ _) eqn:Er; [discriminate|]. unfold initiator_child_ts.
  intros H; inversion H; subst; clear H. cbn [ch_tsi ch_tsr ch_mode].
  unfold initiator_ts_reject in Er. apply orb_false_iff in Er. destruct Er as [E1 E2].
  unfold matches_tsi in E1. unfold matches_tsr in E2.
  apply filter_nonempty in E1. apply filter_nonempty in E2.
  unfold initiator_mode_mismatch in Em.
  repeat split; eauto. lia.
Qed.

Theorem initiator_mode_refused my_mode otsi otsr tn rtsi rtsr :
  response_mode tn <> my_mode -> initiator_child my_mode otsi otsr tn rtsi rtsr = Raise TsUnacceptable.
Proof.
  intros H. unfold initiator_child, initiator_mode_check, initiator_mode_mismatch.
  destruct (negb (my_mode =? response_mode tn)) eqn:E; [reflexivity|lia].
Qed.

Theorem initiator_widened_refused my_mode otsi otsr tn ci r1 cr r2 :
  (forall x, In x otsi -> is_subset ci x = false) \/ (forall y, In y otsr -> is_subset cr y = false) ->
  exists e, initiator_child my_mode otsi otsr tn (ci :: r1) (cr :: r2) = Raise e.
Proof.
  intros H. destruct (initiator_child my_mode otsi otsr tn (ci :: r1) (cr :: r2)) as [ch|e] eqn:E; [|eauto].
  exfalso. destruct (initiator_ok _ _ _ _ _ _ _ E) as (_ & _ & (r1' & H1) & (r2' & H2) & (x & Hx & Sx) & (y & Hy & Sy)).
  inversion H1; inversion H2; subst. destruct H as [H|H]; [rewrite (H x Hx) in Sx | rewrite (H y Hy) in Sy]; discriminate.
Qed.

(** Non-vacuity: the hypotheses of the theorems above are satisfiable *)
Example narrowing_example :
  let tsi := from_network 4 167772672 25 0 6 in let tsr := from_network 4 167772416 24 80 6 in
  get_ipsec_configuration [rk_c1; rk_c0] [tsi] [tsr] = Ok (rk_c1, tsr, tsi) /\
  responder_child [rk_c1; rk_c0] None [tsi] [tsr] false =
    Ok (rk_c1, {| ch_tsi := tsr; ch_tsr := tsi; ch_mode := MODE_TUNNEL |}) /\
  responder_child [rk_c1; rk_c0] None [tsi] [tsr] true = Raise TsUnacceptable /\
  get_ipsec_configuration [rk_c1] [c_peer_ts rk_c0] [from_network 4 0 24 0 0] = Raise TsUnacceptable /\
  initiator_child MODE_TUNNEL [c_my_ts rk_c0] [c_peer_ts rk_c0] false [tsr] [tsi] =
    Ok {| ch_tsi := tsr; ch_tsr := tsi; ch_mode := MODE_TUNNEL |} /\
  initiator_child MODE_TUNNEL [tsr] [tsi] false [c_my_ts rk_c0] [tsi] = Raise TsUnacceptable.
Proof. vm_compute. repeat split. Qed.
