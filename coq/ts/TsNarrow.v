(** Policy lookup / narrowing, mode checks, rekey check, initiator check. *)
From Coq Require Import ZArith List Bool Lia ZifyBool.
From Ts Require Import Gen.TsFuns Gen.TsIkesa Packets TsModel TsProofs.
Import ListNotations.
Open Scope Z_scope.

Notation "a ⊆ b" := (is_subset a b = true) (at level 70).

Lemma is_subset_refl a : a ⊆ a.
Proof. unfold is_subset. split_ifs; try reflexivity; exfalso; lia. Qed.

Lemma is_subset_trans a b c : a ⊆ b -> b ⊆ c -> a ⊆ c.
Proof. unfold is_subset. intros H1 H2. split_ifs; try reflexivity; try discriminate; exfalso; lia. Qed.

Lemma ts_eq_eq a b : ts_eq a b = true <-> a = b.
Proof.
  split.
  - unfold ts_eq. intros H. destruct a, b; cbn in *. f_equal; lia.
  - intros ->. unfold ts_eq. lia.
Qed.

Lemma ts_list_eq_eq a : forall b, ts_list_eq a b = true <-> a = b.
Proof.
  induction a as [|x a IH]; intros [|y b]; cbn [ts_list_eq]; try (split; [discriminate|discriminate]); try tauto.
  rewrite andb_true_iff, ts_eq_eq, IH. split; [intros [-> ->]; reflexivity | intros H; inversion H; auto].
Qed.

(** ** one step: what either rule returns is inside both the proposed pair and the policy entry *)
Definition larger_rule (tsi tsr : ts) (c : conf) : bool := is_subset tsi (c_peer_ts c) && is_subset tsr (c_my_ts c).
Definition smaller_rule (tsi tsr : ts) (c : conf) : bool := is_subset (c_peer_ts c) tsi && is_subset (c_my_ts c) tsr.
Definition comparable (tsi tsr : ts) (c : conf) : bool := larger_rule tsi tsr c || smaller_rule tsi tsr c.

Lemma conf_step_spec tsi tsr c :
  conf_step tsi tsr (c_my_ts c) (c_peer_ts c) =
  if larger_rule tsi tsr c then Some (tsr, tsi)
  else if smaller_rule tsi tsr c then Some (c_my_ts c, c_peer_ts c) else None.
Proof. reflexivity. Qed.

Lemma conf_step_sound tsi tsr c my peer :
  conf_step tsi tsr (c_my_ts c) (c_peer_ts c) = Some (my, peer) ->
  peer ⊆ tsi /\ peer ⊆ c_peer_ts c /\ my ⊆ tsr /\ my ⊆ c_my_ts c.
Proof.
  rewrite conf_step_spec. unfold larger_rule, smaller_rule.
  destruct (is_subset tsi (c_peer_ts c)) eqn:E1, (is_subset tsr (c_my_ts c)) eqn:E2; cbn [andb];
    try (intros H; inversion H; subst; repeat split; auto using is_subset_refl; fail);
    destruct (is_subset (c_peer_ts c) tsi) eqn:E3, (is_subset (c_my_ts c) tsr) eqn:E4; cbn [andb];
    intros H; inversion H; subst; repeat split; auto using is_subset_refl.
Qed.

Lemma conf_step_none tsi tsr c :
  conf_step tsi tsr (c_my_ts c) (c_peer_ts c) = None <-> comparable tsi tsr c = false.
Proof.
  rewrite conf_step_spec. unfold comparable.
  destruct (larger_rule tsi tsr c), (smaller_rule tsi tsr c); cbn; split; intros; congruence.
Qed.

(** ** the three loops *)
Lemma find_conf_some tsi tsr protect c my peer :
  find_conf tsi tsr protect = Some (c, my, peer) ->
  exists pre post, protect = pre ++ c :: post /\
    (forall c', In c' pre -> comparable tsi tsr c' = false) /\
    conf_step tsi tsr (c_my_ts c) (c_peer_ts c) = Some (my, peer).
Proof.
  induction protect as [|c0 rest IH]; cbn [find_conf]; [discriminate|].
  destruct (conf_step tsi tsr (c_my_ts c0) (c_peer_ts c0)) as [[m p]|] eqn:E.
  - intros H; inversion H; subst. exists [], rest. repeat split; auto. intros c' [].
  - intros H. destruct (IH H) as (pre & post & -> & Hpre & Hstep).
    exists (c0 :: pre), post. repeat split; auto.
    intros c' [<-|Hin]; [apply conf_step_none; exact E | auto].
Qed.

Lemma find_conf_none tsi tsr protect :
  find_conf tsi tsr protect = None <-> forall c, In c protect -> comparable tsi tsr c = false.
Proof.
  induction protect as [|c0 rest IH]; cbn [find_conf].
  - split; auto. intros _ c [].
  - destruct (conf_step tsi tsr (c_my_ts c0) (c_peer_ts c0)) as [[m p]|] eqn:E.
    + split; [discriminate|]. intros H. specialize (H c0 (or_introl eq_refl)).
      apply conf_step_none in H. congruence.
    + rewrite IH. split.
      * intros H c [<-|Hin]; [apply conf_step_none; exact E | auto].
      * intros H c Hin. apply H. right; exact Hin.
Qed.

Lemma loop_tsr_some tsi tsrs protect r :
  loop_tsr tsi tsrs protect = Some r -> exists tsr, In tsr tsrs /\ find_conf tsi tsr protect = Some r.
Proof.
  induction tsrs as [|t rest IH]; cbn [loop_tsr]; [discriminate|].
  destruct (find_conf tsi t protect) eqn:E.
  - intros H; inversion H; subst. exists t. split; [left; reflexivity | exact E].
  - intros H. destruct (IH H) as (tsr & Hin & Hf). exists tsr. split; [right; exact Hin | exact Hf].
Qed.

Lemma loop_tsr_none tsi tsrs protect :
  loop_tsr tsi tsrs protect = None <-> forall tsr, In tsr tsrs -> find_conf tsi tsr protect = None.
Proof.
  induction tsrs as [|t rest IH]; cbn [loop_tsr].
  - split; auto. intros _ t [].
  - destruct (find_conf tsi t protect) eqn:E.
    + split; [discriminate|]. intros H. rewrite (H t (or_introl eq_refl)) in E. discriminate.
    + rewrite IH. split; [intros H x [<-|Hin]; auto | intros H x Hin; apply H; right; exact Hin].
Qed.

Lemma loop_tsi_some tsis tsrs protect r :
  loop_tsi tsis tsrs protect = Some r ->
  exists tsi tsr, In tsi tsis /\ In tsr tsrs /\ find_conf tsi tsr protect = Some r.
Proof.
  induction tsis as [|t rest IH]; cbn [loop_tsi]; [discriminate|].
  destruct (loop_tsr t tsrs protect) eqn:E.
  - intros H; inversion H; subst. destruct (loop_tsr_some _ _ _ _ E) as (tsr & Hin & Hf).
    exists t, tsr. repeat split; auto. left; reflexivity.
  - intros H. destruct (IH H) as (tsi & tsr & Hi & Hr & Hf). exists tsi, tsr. repeat split; auto. right; exact Hi.
Qed.

Lemma loop_tsi_none tsis tsrs protect :
  loop_tsi tsis tsrs protect = None <-> forall tsi, In tsi tsis -> loop_tsr tsi tsrs protect = None.
Proof.
  induction tsis as [|t rest IH]; cbn [loop_tsi].
  - split; auto. intros _ t [].
  - destruct (loop_tsr t tsrs protect) eqn:E.
    + split; [discriminate|]. intros H. rewrite (H t (or_introl eq_refl)) in E. discriminate.
    + rewrite IH. split; [intros H x [<-|Hin]; auto | intros H x Hin; apply H; right; exact Hin].
Qed.

Lemma in_iter_tsi x l : In x (iter_tsi l) <-> In x l.
Proof. unfold iter_tsi. symmetry. apply in_rev. Qed.
Lemma in_iter_tsr x l : In x (iter_tsr l) <-> In x l.
Proof. unfold iter_tsr. symmetry. apply in_rev. Qed.

(** ** C12_narrowing *)
Theorem narrowing protect tsis tsrs c my_ts peer_ts :
  get_ipsec_configuration protect tsis tsrs = Ok (c, my_ts, peer_ts) ->
  In c protect /\
  (exists tsi, In tsi tsis /\ peer_ts ⊆ tsi) /\ peer_ts ⊆ c_peer_ts c /\
  (exists tsr, In tsr tsrs /\ my_ts ⊆ tsr) /\ my_ts ⊆ c_my_ts c.
Proof.
  unfold get_ipsec_configuration. destruct (loop_tsi _ _ _) as [r|] eqn:E; [|discriminate].
  intros H; inversion H; subst r; clear H.
  destruct (loop_tsi_some _ _ _ _ E) as (tsi & tsr & Hi & Hr & Hf).
  destruct (find_conf_some _ _ _ _ _ _ Hf) as (pre & post & -> & _ & Hstep).
  destruct (conf_step_sound _ _ _ _ _ Hstep) as (A & B & C & D).
  apply (proj1 (in_iter_tsi _ _)) in Hi. apply (proj1 (in_iter_tsr _ _)) in Hr.
  split; [apply in_or_app; right; left; reflexivity|].
  split; [exists tsi; auto|]. split; [exact B|]. split; [exists tsr; auto | exact D].
Qed.

(** the same in terms of packets (by C12_subset_iff) *)
Corollary narrowing_packets protect tsis tsrs c my_ts peer_ts :
  get_ipsec_configuration protect tsis tsrs = Ok (c, my_ts, peer_ts) ->
  (forall p, denote peer_ts p -> (exists tsi, In tsi tsis /\ denote tsi p) /\ denote (c_peer_ts c) p) /\
  (forall p, denote my_ts p -> (exists tsr, In tsr tsrs /\ denote tsr p) /\ denote (c_my_ts c) p).
Proof.
  intros H. destruct (narrowing _ _ _ _ _ _ H) as (_ & (tsi & Hi & A) & B & (tsr & Hr & C) & D).
  split; intros p Hp; (split; [eexists; split; [eassumption|]|]); eapply is_subset_sound; eauto.
Qed.

(** ** C12_no_policy *)
Theorem no_policy protect tsis tsrs :
  (forall tsi tsr c, In tsi tsis -> In tsr tsrs -> In c protect -> comparable tsi tsr c = false) <->
  get_ipsec_configuration protect tsis tsrs = Raise TsUnacceptable.
Proof.
  unfold get_ipsec_configuration. split.
  - intros H. destruct (loop_tsi _ _ _) as [r|] eqn:E; [|reflexivity]. exfalso.
    destruct r as [[c my] peer].
    destruct (loop_tsi_some _ _ _ _ E) as (tsi & tsr & Hi & Hr & Hf).
    destruct (find_conf_some _ _ _ _ _ _ Hf) as (pre & post & -> & _ & Hstep).
    apply (proj1 (in_iter_tsi _ _)) in Hi. apply (proj1 (in_iter_tsr _ _)) in Hr.
    specialize (H tsi tsr c Hi Hr ltac:(apply in_or_app; right; left; reflexivity)).
    apply conf_step_none in H. congruence.
  - destruct (loop_tsi _ _ _) as [r|] eqn:E; [discriminate|]. intros _ tsi tsr c Hi Hr Hc.
    rewrite loop_tsi_none in E. specialize (E tsi (proj2 (in_iter_tsi _ _) Hi)).
    rewrite loop_tsr_none in E. specialize (E tsr (proj2 (in_iter_tsr _ _) Hr)).
    rewrite find_conf_none in E. auto.
Qed.

(** the lookup never raises anything else *)
Lemma lookup_total protect tsis tsrs :
  (exists r, get_ipsec_configuration protect tsis tsrs = Ok r) \/
  get_ipsec_configuration protect tsis tsrs = Raise TsUnacceptable.
Proof. unfold get_ipsec_configuration. destruct (loop_tsi _ _ _); eauto. Qed.

(** ** responder *)
Theorem responder_ok protect rekey tsis tsrs tn c ch :
  responder_child protect rekey tsis tsrs tn = Ok (c, ch) ->
  In c protect /\
  (* narrowed: inside the initiator's offer and inside the policy entry *)
  (exists tsr, In tsr tsrs /\ ch_tsi ch ⊆ tsr) /\ ch_tsi ch ⊆ c_my_ts c /\
  (exists tsi, In tsi tsis /\ ch_tsr ch ⊆ tsi) /\ ch_tsr ch ⊆ c_peer_ts c /\
  (* mode *)
  c_mode c = requested_mode tn /\ ch_mode ch = requested_mode tn /\
  (* rekey: the request carried exactly the replaced SA's selectors *)
  (forall old_tsi old_tsr, rekey = Some (old_tsi, old_tsr) -> tsis = [old_tsr] /\ tsrs = [old_tsi]).
Proof.
  unfold responder_child.
  destruct (match rekey with Some (a, b) => rekey_ts_mismatch tsis tsrs a b | None => false end) eqn:Erk;
    [discriminate|].
  destruct (get_ipsec_configuration protect tsis tsrs) as [[[c0 my] peer]|] eqn:Eg; [|discriminate].
  destruct (responder_mode_mismatch (c_mode c0) (requested_mode tn)) eqn:Em; [discriminate|].
  unfold responder_child_ts. intros H; inversion H; subst; clear H. cbn [ch_tsi ch_tsr ch_mode].
  destruct (narrowing _ _ _ _ _ _ Eg) as (Hin & A & B & C & D).
  repeat split; auto.
  - unfold responder_mode_mismatch in Em. lia.
  - destruct rekey as [[a b]|]; [|discriminate]. inversion H; subst. unfold rekey_ts_mismatch in Erk.
    apply ts_list_eq_eq. destruct (ts_list_eq tsis [old_tsr]); [reflexivity|discriminate].
  - destruct rekey as [[a b]|]; [|discriminate]. inversion H; subst. unfold rekey_ts_mismatch in Erk.
    apply ts_list_eq_eq. destruct (ts_list_eq tsrs [old_tsi]); [reflexivity|]. rewrite orb_true_r in Erk. discriminate.
Qed.

(** C12_mode, responder: a policy is found but the requested mode differs -> TsUnacceptable *)
Theorem responder_mode_refused protect rekey tsis tsrs tn c my_ts peer_ts :
  get_ipsec_configuration protect tsis tsrs = Ok (c, my_ts, peer_ts) ->
  c_mode c <> requested_mode tn ->
  responder_child protect rekey tsis tsrs tn = Raise TsUnacceptable.
Proof.
  intros Hg Hm. unfold responder_child. destruct (match rekey with Some _ => _ | None => _ end); [reflexivity|].
  rewrite Hg. unfold responder_mode_mismatch.
  destruct (negb (c_mode c =? requested_mode tn)) eqn:E; [reflexivity|lia].
Qed.

Theorem responder_no_policy_refused protect rekey tsis tsrs tn :
  (forall tsi tsr c, In tsi tsis -> In tsr tsrs -> In c protect -> comparable tsi tsr c = false) ->
  responder_child protect rekey tsis tsrs tn = Raise TsUnacceptable.
Proof.
  intros H. apply no_policy in H. unfold responder_child.
  destruct (match rekey with Some _ => _ | None => _ end); [reflexivity|]. rewrite H. reflexivity.
Qed.

(** the responder never raises anything but TsUnacceptable in this part *)
Lemma responder_total protect rekey tsis tsrs tn :
  (exists r, responder_child protect rekey tsis tsrs tn = Ok r) \/
  responder_child protect rekey tsis tsrs tn = Raise TsUnacceptable.
Proof.
  unfold responder_child. destruct (match rekey with Some _ => _ | None => _ end); [auto|].
  destruct (lookup_total protect tsis tsrs) as [[[[c m] p] ->]| ->]; [|auto].
  destruct (responder_mode_mismatch _ _); [auto|]. unfold responder_child_ts. eauto.
Qed.

(** ** C12_rekey_same *)

(** refused unless the request carries exactly [old.tsr] / [old.tsi] *)
Theorem rekey_refused protect old_tsi old_tsr tsis tsrs tn :
  tsis <> [old_tsr] \/ tsrs <> [old_tsi] ->
  responder_child protect (Some (old_tsi, old_tsr)) tsis tsrs tn = Raise TsUnacceptable.
Proof.
  intros H. unfold responder_child, rekey_ts_mismatch.
  destruct (ts_list_eq tsis [old_tsr]) eqn:E1; [|reflexivity].
  destruct (ts_list_eq tsrs [old_tsi]) eqn:E2; [|reflexivity].
  apply ts_list_eq_eq in E1, E2. tauto.
Qed.

(** what an accepted rekey installs: the first policy entry comparable with the replaced SA's selectors decides;
    by the larger rule the replaced SA's selectors, by the smaller rule the entry's own. In both cases nothing wider. *)
Theorem rekey_installed protect old_tsi old_tsr tsis tsrs tn c ch :
  responder_child protect (Some (old_tsi, old_tsr)) tsis tsrs tn = Ok (c, ch) ->
  exists pre post, protect = pre ++ c :: post /\
    (forall c', In c' pre -> comparable old_tsr old_tsi c' = false) /\
    ((larger_rule old_tsr old_tsi c = true /\ ch_tsi ch = old_tsi /\ ch_tsr ch = old_tsr) \/
     (larger_rule old_tsr old_tsi c = false /\ smaller_rule old_tsr old_tsi c = true /\
      ch_tsi ch = c_my_ts c /\ ch_tsr ch = c_peer_ts c)) /\
    ch_tsi ch ⊆ old_tsi /\ ch_tsr ch ⊆ old_tsr.
Proof.
  intros H. destruct (responder_ok _ _ _ _ _ _ _ H) as (_ & _ & _ & _ & _ & _ & _ & Hrk).
  destruct (Hrk _ _ eq_refl) as [-> ->]. clear Hrk.
  unfold responder_child in H. destruct (rekey_ts_mismatch _ _ _ _); [discriminate|].
  unfold get_ipsec_configuration, iter_tsi, iter_tsr in H. cbn [rev app loop_tsi loop_tsr] in H.
  destruct (find_conf old_tsr old_tsi protect) as [[[c0 my] peer]|] eqn:Ef; [|discriminate].
  destruct (responder_mode_mismatch _ _); [discriminate|]. unfold responder_child_ts in H.
  inversion H; subst; clear H. cbn [ch_tsi ch_tsr].
  destruct (find_conf_some _ _ _ _ _ _ Ef) as (pre & post & -> & Hpre & Hstep).
  exists pre, post. split; [reflexivity|]. split; [exact Hpre|].
  rewrite conf_step_spec in Hstep.
  destruct (larger_rule old_tsr old_tsi c) eqn:EL.
  - inversion Hstep; subst. split; [left; auto|]. split; apply is_subset_refl.
  - destruct (smaller_rule old_tsr old_tsi c) eqn:ES; [|discriminate]. inversion Hstep; subst.
    split; [right; auto|]. unfold smaller_rule in ES. apply andb_true_iff in ES. tauto.
Qed.

(** if the replaced SA's selectors lie inside a policy entry and no earlier entry is comparable with them
    (in particular: a single-entry policy), the rekeyed SA gets exactly the replaced SA's selectors *)
Theorem rekey_same_partial pre c0 post old_tsi old_tsr tn :
  (forall c', In c' pre -> comparable old_tsr old_tsi c' = false) ->
  old_tsr ⊆ c_peer_ts c0 -> old_tsi ⊆ c_my_ts c0 -> c_mode c0 = requested_mode tn ->
  responder_child (pre ++ c0 :: post) (Some (old_tsi, old_tsr)) [old_tsr] [old_tsi] tn =
  Ok (c0, {| ch_tsi := old_tsi; ch_tsr := old_tsr; ch_mode := requested_mode tn |}).
Proof.
  intros Hpre H1 H2 Hm. unfold responder_child, rekey_ts_mismatch.
  rewrite !(proj2 (ts_list_eq_eq _ _) eq_refl). cbn [negb orb].
  unfold get_ipsec_configuration, iter_tsi, iter_tsr. cbn [rev app loop_tsi loop_tsr].
  assert (Hf : find_conf old_tsr old_tsi (pre ++ c0 :: post) = Some (c0, old_tsi, old_tsr)).
  { induction pre as [|c' pre IH]; cbn [app find_conf].
    - rewrite conf_step_spec. unfold larger_rule. rewrite H1, H2. reflexivity.
    - rewrite (proj2 (conf_step_none _ _ _) (Hpre c' (or_introl eq_refl))). apply IH.
      intros x Hx. apply Hpre. right; exact Hx. }
  rewrite Hf. unfold responder_mode_mismatch. rewrite Hm, Z.eqb_refl. reflexivity.
Qed.

(** ... and without that hypothesis the equality fails: an earlier, narrower entry answers the rekey.
    The replaced SA (tcp+udp+... 10.0.1.0/24 <-> 10.0.2.0/24, the selectors of the second entry, e.g. created as
    initiator from an acquire of that entry) is rekeyed with the selectors of the first entry (tcp port 80 only). *)
Definition rk_c1 : conf := {| c_index := 1; c_mode := MODE_TUNNEL;
  c_my_ts := from_network 4 167772416 24 80 6; c_peer_ts := from_network 4 167772672 24 0 6 |}.
Definition rk_c0 : conf := {| c_index := 2; c_mode := MODE_TUNNEL;
  c_my_ts := from_network 4 167772416 24 0 0; c_peer_ts := from_network 4 167772672 24 0 0 |}.

Theorem rekey_same_refuted :
  exists protect old_tsi old_tsr tn c ch,
    (exists c0, In c0 protect /\ old_tsi = c_my_ts c0 /\ old_tsr = c_peer_ts c0) /\
    responder_child protect (Some (old_tsi, old_tsr)) [old_tsr] [old_tsi] tn = Ok (c, ch) /\
    ch_tsi ch <> old_tsi /\ ch_tsr ch <> old_tsr.
Proof.
  exists [rk_c1; rk_c0], (c_my_ts rk_c0), (c_peer_ts rk_c0), false, rk_c1,
    {| ch_tsi := c_my_ts rk_c1; ch_tsr := c_peer_ts rk_c1; ch_mode := MODE_TUNNEL |}.
  split; [exists rk_c0; cbn; auto|]. split; [vm_compute; reflexivity|]. split; intros H; vm_compute in H; discriminate.
Qed.

(** ** initiator *)
Lemma filter_nonempty {A} (f : A -> bool) l : is_nil (filter f l) = false -> exists x, In x l /\ f x = true.
Proof.
  intros H. destruct (filter f l) as [|x r] eqn:E; [discriminate|].
  assert (Hin : In x (filter f l)) by (rewrite E; left; reflexivity).
  apply filter_In in Hin. exists x. exact Hin.
Qed.

Theorem initiator_ok my_mode otsi otsr tn rtsi rtsr ch :
  initiator_child my_mode otsi otsr tn rtsi rtsr = Ok ch ->
  my_mode = response_mode tn /\ ch_mode ch = my_mode /\
  (exists r1, rtsi = ch_tsi ch :: r1) /\ (exists r2, rtsr = ch_tsr ch :: r2) /\
  (exists x, In x otsi /\ ch_tsi ch ⊆ x) /\ (exists y, In y otsr /\ ch_tsr ch ⊆ y).
Proof.
  unfold initiator_child, initiator_mode_check, initiator_ts_check.
  destruct (initiator_mode_mismatch my_mode (response_mode tn)) eqn:Em; [discriminate|].
  destruct rtsi as [|ci r1]; [discriminate|]. destruct rtsr as [|cr r2]; [discriminate|].
  destruct (initiator_ts_reject _ _) eqn:Er; [discriminate|]. unfold initiator_child_ts.
  intros H; inversion H; subst; clear H. cbn [ch_tsi ch_tsr ch_mode].
  unfold initiator_ts_reject in Er. apply orb_false_iff in Er. destruct Er as [E1 E2].
  unfold matches_tsi in E1. unfold matches_tsr in E2.
  apply filter_nonempty in E1. apply filter_nonempty in E2.
  unfold initiator_mode_mismatch in Em.
  repeat split; eauto. lia.
Qed.

Theorem initiator_mode_refused my_mode otsi otsr tn rtsi rtsr :
  response_mode tn <> my_mode -> initiator_child my_mode otsi otsr tn rtsi rtsr = Raise TsUnacceptable.
Proof.
  intros H. unfold initiator_child, initiator_mode_check, initiator_mode_mismatch.
  destruct (negb (my_mode =? response_mode tn)) eqn:E; [reflexivity|lia].
Qed.

Theorem initiator_widened_refused my_mode otsi otsr tn ci r1 cr r2 :
  (forall x, In x otsi -> is_subset ci x = false) \/ (forall y, In y otsr -> is_subset cr y = false) ->
  exists e, initiator_child my_mode otsi otsr tn (ci :: r1) (cr :: r2) = Raise e.
Proof.
  intros H. destruct (initiator_child my_mode otsi otsr tn (ci :: r1) (cr :: r2)) as [ch|e] eqn:E; [|eauto].
  exfalso. destruct (initiator_ok _ _ _ _ _ _ _ E) as (_ & _ & (r1' & H1) & (r2' & H2) & (x & Hx & Sx) & (y & Hy & Sy)).
  inversion H1; inversion H2; subst. destruct H as [H|H]; [rewrite (H x Hx) in Sx | rewrite (H y Hy) in Sy]; discriminate.
Qed.

(** Non-vacuity: the hypotheses of the theorems above are satisfiable *)
Example narrowing_example :
  let tsi := from_network 4 167772672 25 0 6 in let tsr := from_network 4 167772416 24 80 6 in
  get_ipsec_configuration [rk_c1; rk_c0] [tsi] [tsr] = Ok (rk_c1, tsr, tsi) /\
  responder_child [rk_c1; rk_c0] None [tsi] [tsr] false =
    Ok (rk_c1, {| ch_tsi := tsr; ch_tsr := tsi; ch_mode := MODE_TUNNEL |}) /\
  responder_child [rk_c1; rk_c0] None [tsi] [tsr] true = Raise TsUnacceptable /\
  get_ipsec_configuration [rk_c1] [c_peer_ts rk_c0] [from_network 4 0 24 0 0] = Raise TsUnacceptable /\
  initiator_child MODE_TUNNEL [c_my_ts rk_c0] [c_peer_ts rk_c0] false [tsr] [tsi] =
    Ok {| ch_tsi := tsr; ch_tsr := tsi; ch_mode := MODE_TUNNEL |} /\
  initiator_child MODE_TUNNEL [tsr] [tsi] false [c_my_ts rk_c0] [tsi] = Raise TsUnacceptable.
Proof. vm_compute. repeat split. Qed.
