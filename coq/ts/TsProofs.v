From Coq Require Import ZArith Bool Lia ZifyBool.
From Ts Require Import Gen.TsFuns Packets.
Open Scope Z_scope.

Ltac split_ifs :=
  repeat match goal with
         | H : context [if ?c then _ else _] |- _ => destruct c eqn:?
         | |- context [if ?c then _ else _] => destruct c eqn:?
         end.

Lemma is_subset_sound a b : is_subset a b = true -> forall p, denote a p -> denote b p.
Proof.
  unfold is_subset, denote. intros H p (Hf & Hp & Hport & Haddr).
  split_ifs; try discriminate. repeat split; try lia.
Qed.

Lemma is_subset_complete a b : nonempty a -> (forall p, denote a p -> denote b p) -> is_subset a b = true.
Proof.
  unfold nonempty. intros (Hports & Haddrs) Hall.
  (* witnesses: the two extreme packets of [a], with a protocol [a] accepts and, if [a] is ANY, one [b] rejects *)
  set (pr := if Z.eqb (ip_proto a) 0 then (if Z.eqb (ip_proto b) 0 then 0 else ip_proto b + 1) else ip_proto a).
  assert (Hpr : ip_proto a = 0 \/ pr = ip_proto a) by (unfold pr; split_ifs; lia).
  pose proof (Hall {| p_family := ts_type a; p_proto := pr; p_port := start_port a; p_addr := start_addr a |}) as H1.
  pose proof (Hall {| p_family := ts_type a; p_proto := pr; p_port := end_port a; p_addr := end_addr a |}) as H2.
  unfold denote in H1, H2. cbn [p_family p_proto p_port p_addr] in H1, H2.
  destruct H1 as (F1 & P1 & Po1 & A1); [repeat split; try lia; exact Hpr|].
  destruct H2 as (F2 & P2 & Po2 & A2); [repeat split; try lia; exact Hpr|].
  assert (Hproto : ip_proto b = 0 \/ ip_proto a = ip_proto b) by (unfold pr in P1; split_ifs; lia).
  unfold is_subset. split_ifs; try reflexivity; exfalso; lia.
Qed.

Lemma subset_iff a b : nonempty a -> (is_subset a b = true <-> forall p, denote a p -> denote b p).
Proof. intros Hn; split; [apply is_subset_sound | apply is_subset_complete; exact Hn]. Qed.

(** Non-vacuity: a concrete non-empty selector pair in the relation. *)
Example subset_example :
  let a := {| ts_type := 7; ip_proto := 6; start_port := 80; end_port := 80; start_addr := 167772161; end_addr := 167772161 |} in
  let b := {| ts_type := 7; ip_proto := 0; start_port := 0; end_port := 65535; start_addr := 167772160; end_addr := 167772415 |} in
  nonempty a /\ is_subset a b = true /\ is_subset b a = false.
Proof. unfold nonempty; cbn. repeat split; lia. Qed.
