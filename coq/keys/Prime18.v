(** RFC 3526 group 18: the prime in crypto.py (regenerated into Gen/ModpGroups.v) equals the RFC's closed form. *)
From Coq Require Import ZArith Reals.
From Interval Require Import Tactic.
From Keys Require Import Gen.ModpGroups ModpTable Rfc3526Formula PrimeLemmas.
Open Scope Z_scope.

Lemma prime_18 : modp_prime 18 = rfc3526_prime 8192 4743158.
Proof. rfc_prime_tac 18 8192 4743158 8320%positive. Qed.
