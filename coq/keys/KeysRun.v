(** Entry points evaluated by the correspondence check (sx in, sx out).  The model's primitive is instantiated
    with a toy keyed function of the right output length; the harness patches crypto.Prf.prf with the same
    function (py/props/c04.py: toy_prf). *)
From Coq Require Import List ZArith NArith String.
From VLib Require Import Sx Bytes.
From Keys Require Import Py Gen.CryptoTables Gen.ModpGroups Gen.KeyMaterial KeySched.
Import ListNotations.
Open Scope Z_scope.

(** toy prf: a keyed rolling checksum, stretched to [hlen] octets.
      acc := 7; for b in key: acc := (acc * 31 + b + 1) mod 65521
      acc := (acc * 131 + 255) mod 65521; for b in data: acc := (acc * 31 + b + 1) mod 65521
      acc := (acc * 257 + len(key) * 3 + len(data)) mod 65521
      out[i] := x_{i+1} mod 256  with  x_0 := acc,  x_{i+1} := (x_i * 75 + 74) mod 65537 *)
Definition mix (acc : N) (l : bytes) : N := fold_left (fun a b => ((a * 31 + b + 1) mod 65521)%N) l acc.

Fixpoint stretch (n : nat) (x : N) : bytes :=
  match n with
  | O => []
  | S m => let x' := ((x * 75 + 74) mod 65537)%N in (x' mod 256)%N :: stretch m x'
  end.

Definition toy_prf (hlen : Z) (key data : bytes) : bytes :=
  let a := mix 7%N key in
  let a := ((a * 131 + 255) mod 65521)%N in
  let a := mix a data in
  let a := ((a * 257 + N.of_nat (List.length key) * 3 + N.of_nat (List.length data)) mod 65521)%N in
  stretch (Z.to_nat hlen) a.

Definition toy_hmac (h : hasher) : bytes -> bytes -> bytes := toy_prf (digest_size h).

Definition exn_name (e : exn) : string :=
  match e with
  | OverflowError => "OverflowError" | StructError => "error" | TypeError => "TypeError" | KeyError => "KeyError"
  | InvalidSyntax => "InvalidSyntax" | ValueError => "ValueError"
  end.

Definition sx_result {A} (f : A -> sx) (r : result A) : sx :=
  match r with Ok a => f a | Raise e => SxL [SxS "raise"; SxS (exn_name e)] | Diverged => SxS "DIVERGED" end.

Definition sx_optbytes (o : option bytes) : sx := match o with Some b => sx_bytes b | None => SxNone end.

Definition sx_keyring (k : keyring) : sx :=
  SxL [sx_optbytes (sk_d k); sx_optbytes (sk_ai k); sx_optbytes (sk_ar k); sx_optbytes (sk_ei k);
       sx_optbytes (sk_er k); sx_optbytes (sk_pi k); sx_optbytes (sk_pr k)].

Definition sx_crypto (c : crypto) : sx := SxL [sx_optbytes (sk_e c); sx_optbytes (sk_a c); sx_optbytes (sk_p c)].

Definition get_optZ (x : sx) : option (option Z) :=
  match x with SxNone => Some None | SxZ z => Some (Some z) | _ => None end.
Definition get_optbytes (x : sx) : option (option bytes) :=
  match x with SxNone => Some None | SxH s => option_map Some (hex_to_bytes s) | _ => None end.

(** ["prfplus"; prf id; key; seed; size] -> bytes *)
Definition run_prfplus (x : sx) : sx :=
  match x with
  | SxL [SxZ pid; k; s; SxZ n] =>
      match get_bytes k, get_bytes s with
      | Some k, Some s => sx_result sx_bytes (bind (prf_new pid) (fun h => prfplus toy_hmac h k s n))
      | _, _ => bad_input
      end
  | _ => bad_input
  end.

(** same, for long outputs: [length; last 64 octets] (a 30 kB hexadecimal literal overflows coqc's stack) *)
Definition run_prfplus_tail (x : sx) : sx :=
  match x with
  | SxL [SxZ pid; k; s; SxZ n] =>
      match get_bytes k, get_bytes s with
      | Some k, Some s =>
          sx_result (fun b => SxL [sx_nat (List.length b); sx_bytes (skipn (List.length b - 64) b)])
                    (bind (prf_new pid) (fun h => prfplus toy_hmac h k s n))
      | _, _ => bad_input
      end
  | _ => bad_input
  end.

(** [prf; integ; encr; keylen|None; is_initiator; role(0 direct,1 responder call site,2 initiator call site);
     a; b; c; d; secret; old_sk_d|None]
    role 0: (a,b,c,d) = (nonce_i, nonce_r, spi_i, spi_r); roles 1/2: (request nonce, response nonce, my spi, peer spi)
    -> [keyring; my_crypto; peer_crypto] *)
Definition run_ike (x : sx) : sx :=
  match x with
  | SxL [SxZ p; SxZ i; SxZ e; kl; SxZ ini; SxZ role; a; b; c; d; g; old] =>
      match get_optZ kl, get_bytes a, get_bytes b, get_bytes c, get_bytes d, get_bytes g, get_optbytes old with
      | Some kl, Some a, Some b, Some c, Some d, Some g, Some old =>
          let s := {| t_prf := p; t_integ := i; t_encr := e; t_keylen := kl |} in
          let r := if Z.eqb role 0 then generate_ike_sa_key_material toy_hmac s a b c d g old
                   else if Z.eqb role 1 then responder_ike_keys toy_hmac s a b c d g old
                   else initiator_ike_keys toy_hmac s a b c d g old in
          let init := negb (Z.eqb ini 0) in
          sx_result (fun kr => SxL [sx_keyring kr; sx_crypto (my_crypto init kr); sx_crypto (peer_crypto init kr)]) r
      | _, _, _, _, _, _, _ => bad_input
      end
  | _ => bad_input
  end.

(** [ike prf id; protocol; integ; encr; keylen|None; role(0 direct,1 responder,2 initiator); a; b; dh|None; sk_d]
    role 0: a = keyseed (b ignored); roles 1/2: (a, b) = (request nonce, response nonce), dh = fresh DH secret
    -> keyring *)
Definition run_child (x : sx) : sx :=
  match x with
  | SxL [SxZ p; SxZ pr; SxZ i; SxZ e; kl; SxZ role; a; b; dh; skd] =>
      match get_optZ kl, get_bytes a, get_bytes b, get_optbytes dh, get_bytes skd with
      | Some kl, Some a, Some b, Some dh, Some skd =>
          let cs := {| c_protocol := pr; c_integ := i; c_encr := e; c_keylen := kl |} in
          sx_result sx_keyring
            (bind (prf_new p) (fun h =>
               if Z.eqb role 0 then generate_child_sa_key_material toy_hmac h cs a skd
               else if Z.eqb role 1 then responder_child_keys toy_hmac h cs a b dh skd
               else initiator_child_keys toy_hmac h cs a b dh skd))
      | _, _, _, _, _ => bad_input
      end
  | _ => bad_input
  end.

(** sizes of one suite as the real classes report them:
    [prf; integ; encr; keylen|None] -> [prf.key_size; prf.hash_size; integ.key_size; integ.hash_size;
                                         cipher.key_size; cipher.block_size] *)
Definition run_sizes (x : sx) : sx :=
  match x with
  | SxL [SxZ p; SxZ i; SxZ e; kl] =>
      match get_optZ kl with
      | Some kl =>
          sx_result (fun l => SxL (map SxZ l))
            (bind (prf_new p) (fun h => bind (integ_new i) (fun ig => bind (cipher_new e kl) (fun c =>
               bind (cipher_key_size_of c) (fun cks =>
                 Ok [prf_key_size h; prf_hash_size h; integ_key_size (fst ig) (snd ig);
                     integ_hash_size (fst ig) (snd ig); cks; cipher_block_size (cipher_alg c)])))))
      | None => bad_input
      end
  | _ => bad_input
  end.

(** DH public value: [group; x_or_y; y2] -> bytes;  [group] -> key_len *)
Definition run_dh_public (x : sx) : sx :=
  match x with
  | SxL [SxZ g; SxZ a; SxZ b] => sx_result sx_bytes (dh_public_key g a b)
  | SxL [SxZ g] =>
      sx_result SxZ (match lookup g modp_group_dict with
                     | Some e => Ok (modp_key_len (fst e))
                     | None => ecdh_key_len_of g
                     end)
  | _ => bad_input
  end.

Definition run (x : sx) : sx :=
  match x with
  | SxL [SxS "prfplus"; y] => run_prfplus y
  | SxL [SxS "prfplus_tail"; y] => run_prfplus_tail y
  | SxL [SxS "ike"; y] => run_ike y
  | SxL [SxS "child"; y] => run_child y
  | SxL [SxS "sizes"; y] => run_sizes y
  | SxL [SxS "dh"; y] => run_dh_public y
  | _ => bad_input
  end.
