(** The closed form of the RFC 3526 primes: "2^n - 2^(n-64) - 1 + 2^64 * { [2^(n-130) pi] + c }" where [x] is the
    integer part ([Int_part] of the Coq standard library of real numbers, [PI] its constant pi). *)
From Coq Require Import ZArith Reals.
Open Scope Z_scope.

Definition rfc3526_prime (n c : Z) : Z :=
  2 ^ n - 2 ^ (n - 64) - 1 + 2 ^ 64 * (Int_part (PI * IZR (2 ^ (n - 130))) + c).

