(** Python prelude of the key-schedule model: results with exception classes, [int.to_bytes(w,'big')],
    [struct.unpack] of a format made of ['Ns'] items, truthiness of [bytes]/[None]. No proofs here. *)
From Coq Require Import List ZArith NArith Bool.
From VLib Require Import Bytes.
Import ListNotations.

Inductive exn := OverflowError | StructError | TypeError | KeyError | InvalidSyntax | ValueError.

Inductive result (A : Type) : Type :=
| Ok (a : A)
| Raise (e : exn)
| Diverged.
Arguments Ok {A} a.
Arguments Raise {A} e.
Arguments Diverged {A}.

Definition bind {A B} (r : result A) (f : A -> result B) : result B :=
  match r with Ok a => f a | Raise e => Raise e | Diverged => Diverged end.

(** [i.to_bytes(w, 'big')] (unsigned): OverflowError when [i] is negative or does not fit in [w] octets. *)
Definition to_bytes_big (i : Z) (w : Z) : result bytes :=
  if (Z.leb 0 i && Z.leb 0 w && Z.ltb i (256 ^ w))%bool
  then Ok (be_encode (Z.to_nat w) (Z.to_N i))
  else Raise OverflowError.

(** [int.from_bytes(b, 'big')] *)
Definition from_bytes_big (b : bytes) : Z := Z.of_N (be_decode b).

(** [struct.unpack('>' + ''.join('%ds' % n for n in sizes), data)]: struct.error unless the data length is
    exactly the sum of the sizes; otherwise the consecutive fields. *)
Fixpoint split_sizes (sizes : list Z) (data : bytes) : list bytes :=
  match sizes with
  | [] => []
  | n :: rest => firstn (Z.to_nat n) data :: split_sizes rest (skipn (Z.to_nat n) data)
  end.

Definition sum_sizes (sizes : list Z) : Z := fold_right Z.add 0%Z sizes.

Definition unpack_s (sizes : list Z) (data : bytes) : result (list bytes) :=
  if (forallb (Z.leb 0) sizes && Z.eqb (Z.of_nat (length data)) (sum_sizes sizes))%bool
  then Ok (split_sizes sizes data)
  else Raise StructError.

(** [not x] for [x] a [bytes] object or [None] *)
Definition py_not_bytes (x : option bytes) : bool :=
  match x with None => true | Some [] => true | Some (_ :: _) => false end.
