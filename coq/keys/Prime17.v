(** RFC 3526 group 17: the prime in crypto.py (regenerated into Gen/ModpGroups.v) equals the RFC's closed form. *)
From Coq Require Import ZArith Reals.
From Interval Require Import Tactic.
From Keys Require Import Gen.ModpGroups ModpTable Rfc3526Formula PrimeLemmas.
Open Scope Z_scope.

Lemma prime_17 : modp_prime 17 = rfc3526_prime 6144 929484.
Proof. rfc_prime_tac 17 6144 929484 6270%positive. Qed.
