(** Lemmas: the model of KeySched.v computes what Rfc7296Keys.v prescribes. *)
From Coq Require Import List ZArith NArith Bool Lia Arith PeanoNat ZifyBool ZifyNat ZifyN.
From VLib Require Import Bytes.
From Keys Require Import Py Gen.CryptoTables Gen.ModpGroups Gen.ConfigSuites Gen.KeyMaterial KeySched Rfc7296Keys Rfc4868.
Import ListNotations.
Open Scope Z_scope.

(* ------------------------------------------------------------------------------------------- *)
(** * prf+ *)

Section PrfPlus.
  Variable prf : bytes -> bytes -> bytes.
  Variable hlen : nat.
  Hypothesis prf_len : forall k d, length (prf k d) = hlen.

  Definition upto (K Sd : bytes) (j : nat) : bytes := concat (map (T prf K Sd) (seq 1 j)).

  Lemma T_succ K Sd m : T prf K Sd (S m) = prf K (T prf K Sd m ++ Sd ++ [N.of_nat (S m)]).
  Proof. destruct m; reflexivity. Qed.

  Lemma T_length K Sd j : (0 < j)%nat -> length (T prf K Sd j) = hlen.
  Proof. destruct j; [lia|]. intros _. rewrite T_succ. apply prf_len. Qed.

  Lemma upto_succ K Sd j : upto K Sd (S j) = upto K Sd j ++ T prf K Sd (S j).
  Proof.
    unfold upto. rewrite seq_S, map_app, concat_app. cbn [map concat Nat.add]. rewrite app_nil_r.
    reflexivity.
  Qed.

  Lemma upto_length K Sd j : length (upto K Sd j) = (j * hlen)%nat.
  Proof.
    induction j as [|j IH]; [reflexivity|].
    rewrite upto_succ, app_length, IH, T_length by lia. lia.
  Qed.

  Lemma upto_prefix K Sd j k : (j <= k)%nat -> exists rest, upto K Sd k = upto K Sd j ++ rest.
  Proof.
    induction 1 as [|k Hle [rest IH]].
    - exists []. rewrite app_nil_r. reflexivity.
    - exists (rest ++ T prf K Sd (S k)). rewrite upto_succ, IH, app_assoc. reflexivity.
  Qed.

  Lemma stream_is_upto K Sd : prfplus_stream prf K Sd = upto K Sd 255.
  Proof. reflexivity. Qed.

  Lemma stream_length K Sd : length (prfplus_stream prf K Sd) = (255 * hlen)%nat.
  Proof. rewrite stream_is_upto. apply upto_length. Qed.
End PrfPlus.

Lemma counter_octet (j : nat) : (j < 255)%nat ->
  to_bytes_big (Z.of_nat j + 1) prfplus_counter_width = Ok [N.of_nat (S j)].
Proof.
  intros Hj. unfold to_bytes_big, prfplus_counter_width.
  change (256 ^ 1) with 256.
  replace (0 <=? Z.of_nat j + 1) with true by lia.
  replace (Z.of_nat j + 1 <? 256) with true by lia.
  cbn [andb Z.leb Z.compare]. change (Z.to_nat 1) with 1%nat. cbn [be_encode app].
  f_equal. f_equal. rewrite N.mod_small by lia. lia.
Qed.

Section Loop.
  Variable hmac : hasher -> bytes -> bytes -> bytes.
  Variable h : hasher.
  Variable hlen : nat.
  Hypothesis hmac_len : forall k d, length (hmac h k d) = hlen.

  Lemma loop_invariant K Sd (n : Z) : 0 <= n <= 255 * Z.of_nat hlen ->
    forall fuel j, (j <= 255)%nat -> (257 <= fuel + j)%nat ->
      prfplus_loop hmac fuel h K Sd n (upto (hmac h) K Sd j) (T (hmac h) K Sd j) (Z.of_nat j + 1)
      = Ok (firstn (Z.to_nat n) (prfplus_stream (hmac h) K Sd)).
  Proof.
    intros Hn. induction fuel as [|fuel IH]; intros j Hj Hfuel; [lia|].
    cbn [prfplus_loop]. rewrite (upto_length (hmac h) hlen hmac_len).
    destruct (Z.ltb_spec (Z.of_nat (j * hlen)) n) as [Hlt|Hge].
    - assert (Hj' : (j < 255)%nat) by nia.
      rewrite counter_octet by exact Hj'. cbn [bind].
      unfold prfplus_block, prfplus_i_next.
      rewrite <- (app_assoc (T (hmac h) K Sd j) Sd), <- (T_succ (hmac h)).
      rewrite <- upto_succ.
      replace (Z.of_nat j + 1 + 1) with (Z.of_nat (S j) + 1) by lia.
      apply IH; lia.
    - f_equal. rewrite stream_is_upto.
      destruct (upto_prefix (hmac h) K Sd j 255 Hj) as [rest ->].
      rewrite firstn_app.
      replace (Z.to_nat n - length (upto (hmac h) K Sd j))%nat with 0%nat
        by (rewrite (upto_length (hmac h) hlen hmac_len); lia).
      cbn [firstn]. rewrite app_nil_r. reflexivity.
  Qed.

  Lemma prfplus_correct K Sd (n : Z) : 0 <= n <= 255 * Z.of_nat hlen ->
    prfplus hmac h K Sd n = Ok (rfc_prfplus (hmac h) K Sd (Z.to_nat n)).
  Proof.
    intros Hn. unfold prfplus, rfc_prfplus.
    change [] with (upto (hmac h) K Sd 0) at 1.
    change (@nil N) with (T (hmac h) K Sd 0) at 1.
    change prfplus_i0 with (Z.of_nat 0 + 1).
    apply loop_invariant; [exact Hn|lia|].
    unfold prfplus_fuel. lia.
  Qed.

  (** beyond 255 blocks the one-octet counter overflows: [i.to_bytes(1, 'big')] raises OverflowError at i = 256 *)
  Lemma loop_overflow K Sd (n : Z) : 255 * Z.of_nat hlen < n ->
    forall fuel j, (j <= 255)%nat -> (257 <= fuel + j)%nat ->
      prfplus_loop hmac fuel h K Sd n (upto (hmac h) K Sd j) (T (hmac h) K Sd j) (Z.of_nat j + 1)
      = Raise OverflowError.
  Proof.
    intros Hn. induction fuel as [|fuel IH]; intros j Hj Hfuel; [lia|].
    cbn [prfplus_loop]. rewrite (upto_length (hmac h) hlen hmac_len).
    replace (Z.of_nat (j * hlen) <? n) with true by nia.
    destruct (Nat.eq_dec j 255) as [->|Hne].
    - reflexivity.
    - rewrite counter_octet by lia. cbn [bind]. unfold prfplus_block, prfplus_i_next.
      rewrite <- (app_assoc (T (hmac h) K Sd j) Sd), <- (T_succ (hmac h)).
      rewrite <- upto_succ.
      replace (Z.of_nat j + 1 + 1) with (Z.of_nat (S j) + 1) by lia.
      apply IH; lia.
  Qed.

  Lemma prfplus_overflow K Sd (n : Z) : 255 * Z.of_nat hlen < n -> prfplus hmac h K Sd n = Raise OverflowError.
  Proof.
    intros Hn. unfold prfplus.
    change [] with (upto (hmac h) K Sd 0) at 1.
    change (@nil N) with (T (hmac h) K Sd 0) at 1.
    change prfplus_i0 with (Z.of_nat 0 + 1).
    apply loop_overflow; [exact Hn|lia|]. unfold prfplus_fuel. lia.
  Qed.

  Lemma prfplus_negative K Sd (n : Z) : n < 0 -> prfplus hmac h K Sd n = Ok [].
  Proof.
    intros Hn. unfold prfplus.
    assert (Hf : exists f, prfplus_fuel = S f) by (exists (Z.to_nat 256); vm_compute; reflexivity).
    destruct Hf as [f ->].
    cbn [prfplus_loop length]. replace (Z.of_nat 0 <? n) with false by lia.
    replace (Z.to_nat n) with 0%nat by lia. reflexivity.
  Qed.
End Loop.

(** Whatever the primitive returns (even empty strings), the Python loop ends: either the requested length is
    reached or the counter leaves one octet.  257 units of fuel are never exhausted. *)
Section Termination.
  Variable hmac : hasher -> bytes -> bytes -> bytes.

  Lemma loop_terminates h K Sd n : forall fuel j res temp, (j <= 255)%nat -> (257 <= fuel + j)%nat ->
    prfplus_loop hmac fuel h K Sd n res temp (Z.of_nat j + 1) <> Diverged.
  Proof.
    induction fuel as [|fuel IH]; intros j res temp Hj Hfuel; [lia|].
    cbn [prfplus_loop]. destruct (Z.of_nat (length res) <? n); [|discriminate].
    destruct (Nat.eq_dec j 255) as [->|Hne].
    - cbn. discriminate.
    - rewrite counter_octet by lia. cbn [bind]. unfold prfplus_i_next.
      replace (Z.of_nat j + 1 + 1) with (Z.of_nat (S j) + 1) by lia.
      apply IH; lia.
  Qed.

  Lemma prfplus_terminates h K Sd n : prfplus hmac h K Sd n <> Diverged.
  Proof.
    unfold prfplus. change prfplus_i0 with (Z.of_nat 0 + 1).
    apply loop_terminates; [lia|]. unfold prfplus_fuel. lia.
  Qed.
End Termination.

(* ------------------------------------------------------------------------------------------- *)
(** * struct.unpack of a prefix of the stream = octets at cumulative offsets *)

Lemma skipn_skipn' {A} (a b : nat) (l : list A) : skipn a (skipn b l) = skipn (b + a) l.
Proof.
  revert l; induction b as [|b IH]; intros l; [reflexivity|].
  destruct l as [|x l]; [rewrite !skipn_nil; reflexivity|]. cbn [skipn Nat.add]. apply IH.
Qed.

Fixpoint cuts (sizes : list Z) (off : nat) (s : bytes) : list bytes :=
  match sizes with
  | [] => []
  | n :: r => octets s off (Z.to_nat n) :: cuts r (off + Z.to_nat n) s
  end.

Lemma sum_sizes_nonneg sizes : forallb (Z.leb 0) sizes = true -> 0 <= sum_sizes sizes.
Proof.
  induction sizes as [|a r IH]; cbn [forallb sum_sizes fold_right]; [lia|].
  intros H. apply andb_prop in H as [Ha Hr]. specialize (IH Hr). unfold sum_sizes in IH. lia.
Qed.

Lemma split_sizes_cuts sizes : forallb (Z.leb 0) sizes = true -> forall s off,
  split_sizes sizes (firstn (Z.to_nat (sum_sizes sizes)) (skipn off s)) = cuts sizes off s.
Proof.
  induction sizes as [|a r IH]; intros Hpos s off; [reflexivity|].
  cbn [forallb] in Hpos. apply andb_prop in Hpos as [Ha Hr].
  pose proof (sum_sizes_nonneg r Hr) as Hsum.
  cbn [split_sizes cuts]. unfold sum_sizes in *. cbn [fold_right].
  set (rest := fold_right Z.add 0 r) in *.
  replace (Z.to_nat (a + rest)) with (Z.to_nat a + Z.to_nat rest)%nat by lia.
  f_equal.
  - unfold octets. rewrite firstn_firstn. f_equal. lia.
  - rewrite skipn_firstn_comm.
    replace (Z.to_nat a + Z.to_nat rest - Z.to_nat a)%nat with (Z.to_nat rest) by lia.
    rewrite skipn_skipn'. apply IH. exact Hr.
Qed.

Lemma unpack_s_stream sizes s : forallb (Z.leb 0) sizes = true -> sum_sizes sizes <= Z.of_nat (length s) ->
  unpack_s sizes (firstn (Z.to_nat (sum_sizes sizes)) s) = Ok (cuts sizes 0 s).
Proof.
  intros Hpos Hlen. unfold unpack_s. rewrite Hpos. rewrite firstn_length.
  pose proof (sum_sizes_nonneg sizes Hpos).
  replace (Z.of_nat (Nat.min (Z.to_nat (sum_sizes sizes)) (length s)) =? sum_sizes sizes) with true by lia.
  cbn [andb]. f_equal. apply (split_sizes_cuts sizes Hpos s 0%nat).
Qed.

(* ------------------------------------------------------------------------------------------- *)
(** * The two key-material functions *)

(** How the spec's names map to the fields of the code's Keyring *)
Definition keyring_of_ike (k : ike_sa_keys) : keyring :=
  {| sk_d := Some (SK_d k); sk_ai := Some (SK_ai k); sk_ar := Some (SK_ar k); sk_ei := Some (SK_ei k);
     sk_er := Some (SK_er k); sk_pi := Some (SK_pi k); sk_pr := Some (SK_pr k) |}.

Definition keyring_of_child (k : child_sa_keys) : keyring :=
  {| sk_d := None; sk_ai := Some (K_ai k); sk_ar := Some (K_ar k); sk_ei := Some (K_ei k);
     sk_er := Some (K_er k); sk_pi := None; sk_pr := None |}.

(** The hash function the code must use for an RFC PRF *)
Definition hasher_of (a : rfc_hash) : hasher :=
  match a with HMAC_SHA1 => sha1 | HMAC_SHA2_256 => sha256 | HMAC_SHA2_512 => sha512 end.

Section Keys.
  Variable hmac : hasher -> bytes -> bytes -> bytes.
  Hypothesis hmac_len : forall h k d, length (hmac h k d) = Z.to_nat (digest_size h).

  Lemma digest_size_pos h : 0 < digest_size h.
  Proof. destruct h; reflexivity. Qed.

  Lemma prfplus_ok h K Sd n : 0 <= n <= 255 * digest_size h ->
    prfplus hmac h K Sd n = Ok (firstn (Z.to_nat n) (prfplus_stream (hmac h) K Sd)).
  Proof.
    intros Hn. apply (prfplus_correct hmac h (Z.to_nat (digest_size h)) (hmac_len h)).
    pose proof (digest_size_pos h). lia.
  Qed.

  Lemma stream_len h K Sd : Z.of_nat (length (prfplus_stream (hmac h) K Sd)) = 255 * digest_size h.
  Proof.
    rewrite (stream_length (hmac h) (Z.to_nat (digest_size h)) (hmac_len h)).
    pose proof (digest_size_pos h). lia.
  Qed.

  (** generic step: key material of [sizes] cut out of prf+ *)
  Lemma keymat_unpack {B} h K Sd n sizes (f : list bytes -> result B) :
    forallb (Z.leb 0) sizes = true -> n = sum_sizes sizes -> n <= 255 * digest_size h ->
    bind (prfplus hmac h K Sd n) (fun keymat => bind (unpack_s sizes keymat) f)
    = f (cuts sizes 0 (prfplus_stream (hmac h) K Sd)).
  Proof.
    intros Hpos -> Hle. pose proof (sum_sizes_nonneg sizes Hpos).
    rewrite prfplus_ok by lia. cbn [bind]. rewrite unpack_s_stream; [reflexivity|exact Hpos|].
    rewrite stream_len. exact Hle.
  Qed.

  Lemma ike_keys_generic s h ig c cks Ni Nr SPIi SPIr gir old :
    prf_new (t_prf s) = Ok h -> integ_new (t_integ s) = Ok ig ->
    cipher_new (t_encr s) (t_keylen s) = Ok c -> cipher_key_size_of c = Ok cks ->
    0 <= cks -> 0 <= integ_key_size (fst ig) (snd ig) ->
    prf_key_size h * 3 + integ_key_size (fst ig) (snd ig) * 2 + cks * 2 <= 255 * digest_size h ->
    generate_ike_sa_key_material hmac s Ni Nr SPIi SPIr gir old =
    Ok (keyring_of_ike
          (ike_sa_keys_of (hmac h)
             (if py_not_bytes old then SKEYSEED (hmac h) Ni Nr gir
              else SKEYSEED_rekey (hmac h) (match old with Some k => k | None => [] end) gir Ni Nr)
             Ni Nr SPIi SPIr
             (Z.to_nat (prf_key_size h)) (Z.to_nat (integ_key_size (fst ig) (snd ig))) (Z.to_nat cks))).
  Proof.
    intros Hp Hi Hc Hk Hcks Hiks Htot.
    unfold generate_ike_sa_key_material. rewrite Hp, Hi, Hc. cbn [bind]. rewrite Hk. cbn [bind].
    set (pks := prf_key_size h) in *. set (iks := integ_key_size (fst ig) (snd ig)) in *.
    assert (Hpks : 0 <= pks) by (unfold pks, prf_key_size, prf_hash_size; pose proof (digest_size_pos h); lia).
    unfold ike_keymat.
    set (skeyseed := if py_not_bytes old then _ else _).
    set (seed := ((Ni ++ Nr) ++ SPIi) ++ SPIr).
    rewrite keymat_unpack.
    - unfold ike_unpack_sizes. cbn [cuts ike_keyring_of_unpack value_error_if_none].
      f_equal. unfold keyring_of_ike, ike_sa_keys_of.
      replace (Ni ++ Nr ++ SPIi ++ SPIr) with seed by (unfold seed; rewrite <- !app_assoc; reflexivity).
      replace (if py_not_bytes old then SKEYSEED (hmac h) Ni Nr gir
               else SKEYSEED_rekey (hmac h) match old with Some k => k | None => [] end gir Ni Nr)
        with skeyseed.
      2:{ unfold skeyseed, ike_skeyseed_initial, ike_skeyseed_rekey, SKEYSEED, SKEYSEED_rekey.
          rewrite <- !app_assoc. reflexivity. }
      cbn [SK_d SK_ai SK_ar SK_ei SK_er SK_pi SK_pr].
      repeat (f_equal; try lia).
    - unfold ike_unpack_sizes. cbn [forallb]. lia.
    - unfold ike_unpack_sizes, sum_sizes. cbn [fold_right]. lia.
    - exact Htot.
  Qed.
End Keys.

(* ------------------------------------------------------------------------------------------- *)
(** * Suites of the RFC tables *)

Ltac lookup_cases H :=
  unfold rfc_prf_algs, rfc_integ_sizes in H; cbn [lookup] in H;
  repeat match type of H with
         | (if Z.eqb ?a ?x then _ else _) = _ => destruct (Z.eqb_spec a x); [subst x|]
         end; try discriminate H; try (injection H as; subst).

Ltac in_cases H :=
  unfold aes_key_bits in H; cbn [In] in H;
  repeat match type of H with _ \/ _ => destruct H as [H|H] end; try contradiction; try subst.

(** an IKE suite the RFCs define and pyikev2 offers: PRF id with its hash and key size, integrity id with its
    key size, AES-CBC with a Key Length attribute of [k] bits *)
Definition rfc_ike_suite (s : ike_suite) (alg : rfc_hash) (pl il k : Z) : Prop :=
  lookup (t_prf s) rfc_prf_algs = Some (alg, pl) /\
  (exists icv, lookup (t_integ s) rfc_integ_sizes = Some (il, icv)) /\
  t_encr s = ENCR_AES_CBC /\ t_keylen s = Some k /\ In k aes_key_bits.

(** a CHILD_SA suite: ESP (integrity + AES-CBC) or AH (integrity only, [k] = 0) *)
Definition rfc_child_suite (cs : child_suite) (il k : Z) : Prop :=
  (exists icv, lookup (c_integ cs) rfc_integ_sizes = Some (il, icv)) /\
  ((c_protocol cs = proposal_protocol_ESP /\ c_encr cs = ENCR_AES_CBC /\ c_keylen cs = Some k /\ In k aes_key_bits)
   \/ (c_protocol cs = proposal_protocol_AH /\ k = 0)).

Section Suites.
  Variable hmac : hasher -> bytes -> bytes -> bytes.
  Hypothesis hmac_len : forall h k d, length (hmac h k d) = Z.to_nat (digest_size h).

  Lemma ike_keys_any s alg pl il k Ni Nr SPIi SPIr gir old : rfc_ike_suite s alg pl il k ->
    generate_ike_sa_key_material hmac s Ni Nr SPIi SPIr gir old =
    Ok (keyring_of_ike
          (ike_sa_keys_of (hmac (hasher_of alg))
             (if py_not_bytes old then SKEYSEED (hmac (hasher_of alg)) Ni Nr gir
              else SKEYSEED_rekey (hmac (hasher_of alg)) (match old with Some k => k | None => [] end) gir Ni Nr)
             Ni Nr SPIi SPIr (Z.to_nat pl) (Z.to_nat il) (Z.to_nat (aes_key_octets k)))).
  Proof.
    destruct s as [p i e kl]. unfold rfc_ike_suite. cbn [t_prf t_integ t_encr t_keylen].
    intros (Hp & (icv & Hi) & He & Hk & Hin). subst e kl.
    lookup_cases Hp; lookup_cases Hi; in_cases Hin;
      (etransitivity;
       [ eapply (ike_keys_generic hmac hmac_len);
         [reflexivity | reflexivity | reflexivity | reflexivity
          | vm_compute; discriminate | vm_compute; discriminate | vm_compute; discriminate]
       | reflexivity ]).
  Qed.

  Lemma ike_keys_initial_correct s alg pl il k Ni Nr SPIi SPIr gir : rfc_ike_suite s alg pl il k ->
    generate_ike_sa_key_material hmac s Ni Nr SPIi SPIr gir None =
    Ok (keyring_of_ike (ike_sa_keys_initial (hmac (hasher_of alg)) Ni Nr SPIi SPIr gir
                                            (Z.to_nat pl) (Z.to_nat il) (Z.to_nat (aes_key_octets k)))).
  Proof. intros Hs. rewrite (ike_keys_any s alg pl il k) by exact Hs. reflexivity. Qed.

  Lemma ike_keys_rekey_correct s alg pl il k Ni Nr SPIi SPIr gir old_sk_d :
    rfc_ike_suite s alg pl il k -> old_sk_d <> [] ->
    generate_ike_sa_key_material hmac s Ni Nr SPIi SPIr gir (Some old_sk_d) =
    Ok (keyring_of_ike (ike_sa_keys_rekey (hmac (hasher_of alg)) old_sk_d Ni Nr SPIi SPIr gir
                                          (Z.to_nat pl) (Z.to_nat il) (Z.to_nat (aes_key_octets k)))).
  Proof.
    intros Hs Hne. rewrite (ike_keys_any s alg pl il k) by exact Hs.
    destruct old_sk_d; [contradiction|]. reflexivity.
  Qed.
End Suites.

(* ------------------------------------------------------------------------------------------- *)
(** * CHILD_SA key material *)

Section Child.
  Variable hmac : hasher -> bytes -> bytes -> bytes.
  Hypothesis hmac_len : forall h k d, length (hmac h k d) = Z.to_nat (digest_size h).

  Lemma child_keys_generic h cs ig eks keyseed skd :
    integ_new (c_integ cs) = Ok ig ->
    (if Z.eqb (c_protocol cs) child_protocol_with_cipher
     then bind (cipher_new (c_encr cs) (c_keylen cs)) cipher_key_size_of
     else Ok child_encr_key_size_default) = Ok eks ->
    0 <= eks -> 0 <= integ_key_size (fst ig) (snd ig) ->
    2 * integ_key_size (fst ig) (snd ig) + 2 * eks <= 255 * digest_size h ->
    generate_child_sa_key_material hmac h cs keyseed skd =
    Ok (keyring_of_child (child_sa_keys_of (hmac h) skd keyseed (Z.to_nat eks)
                                           (Z.to_nat (integ_key_size (fst ig) (snd ig))))).
  Proof.
    intros Hi He Heks Hiks Htot.
    unfold generate_child_sa_key_material. rewrite Hi. cbn [bind]. rewrite He. cbn [bind].
    set (iks := integ_key_size (fst ig) (snd ig)) in *.
    unfold child_keymat. rewrite (keymat_unpack hmac hmac_len).
    - unfold child_unpack_sizes. cbn [cuts child_keyring_of_unpack value_error_if_none].
      f_equal. unfold keyring_of_child, child_sa_keys_of. cbn [K_ei K_ai K_er K_ar].
      repeat (f_equal; try lia).
    - unfold child_unpack_sizes. cbn [forallb]. lia.
    - unfold child_unpack_sizes, sum_sizes. cbn [fold_right]. lia.
    - lia.
  Qed.

  Lemma child_keys_any alg pl cs il k keyseed skd :
    In (alg, pl) (map snd rfc_prf_algs) -> rfc_child_suite cs il k ->
    generate_child_sa_key_material hmac (hasher_of alg) cs keyseed skd =
    Ok (keyring_of_child (child_sa_keys_of (hmac (hasher_of alg)) skd keyseed
                                           (Z.to_nat (aes_key_octets k)) (Z.to_nat il))).
  Proof.
    destruct cs as [pr i e kl]. unfold rfc_child_suite. cbn [c_protocol c_integ c_encr c_keylen].
    intros Halg ((icv & Hi) & Hcase).
    unfold rfc_prf_algs in Halg. cbn [map snd In] in Halg.
    destruct Hcase as [(Hpr & He & Hk & Hin) | (Hpr & Hk)]; subst.
    - lookup_cases Hi; in_cases Hin;
        repeat (destruct Halg as [Halg|Halg]; [injection Halg as; subst|]); try contradiction;
        (etransitivity;
         [ eapply (child_keys_generic);
           [reflexivity | reflexivity | vm_compute; discriminate | vm_compute; discriminate
            | vm_compute; discriminate]
         | reflexivity ]).
    - lookup_cases Hi;
        repeat (destruct Halg as [Halg|Halg]; [injection Halg as; subst|]); try contradiction;
        (etransitivity;
         [ eapply (child_keys_generic);
           [reflexivity | reflexivity | vm_compute; discriminate | vm_compute; discriminate
            | vm_compute; discriminate]
         | reflexivity ]).
  Qed.

  (** call sites: KEYMAT seed Ni | Nr, or g^ir (new) | Ni | Nr when the exchange carried KE payloads *)
  Lemma child_keymat_correct alg pl cs il k Ni Nr skd :
    In (alg, pl) (map snd rfc_prf_algs) -> rfc_child_suite cs il k ->
    let spec := keyring_of_child (child_sa_keys_nopfs (hmac (hasher_of alg)) skd Ni Nr
                                                      (Z.to_nat (aes_key_octets k)) (Z.to_nat il)) in
    responder_child_keys hmac (hasher_of alg) cs Ni Nr None skd = Ok spec /\
    initiator_child_keys hmac (hasher_of alg) cs Ni Nr None skd = Ok spec.
  Proof.
    intros Halg Hs. cbv zeta.
    unfold responder_child_keys, initiator_child_keys, responder_child_keyseed, initiator_child_keyseed.
    rewrite (child_keys_any alg pl cs il k) by assumption. split; reflexivity.
  Qed.

  Lemma child_keymat_pfs_correct alg pl cs il k Ni Nr g_ir skd :
    In (alg, pl) (map snd rfc_prf_algs) -> rfc_child_suite cs il k ->
    let spec := keyring_of_child (child_sa_keys_pfs (hmac (hasher_of alg)) skd g_ir Ni Nr
                                                    (Z.to_nat (aes_key_octets k)) (Z.to_nat il)) in
    responder_child_keys hmac (hasher_of alg) cs Ni Nr (Some g_ir) skd = Ok spec /\
    initiator_child_keys hmac (hasher_of alg) cs Ni Nr (Some g_ir) skd = Ok spec.
  Proof.
    intros Halg Hs. cbv zeta.
    unfold responder_child_keys, initiator_child_keys, responder_child_keyseed, initiator_child_keyseed,
      responder_child_keyseed_pfs, initiator_child_keyseed_pfs.
    rewrite (child_keys_any alg pl cs il k) by assumption. split; reflexivity.
  Qed.

  (** IKE_SA call sites: the responder's (peer SPI, own SPI) and the initiator's (own SPI, peer SPI) are both
      (SPIi, SPIr) *)
  Lemma ike_call_sites s Ni Nr SPIi SPIr gir old :
    responder_ike_keys hmac s Ni Nr SPIr SPIi gir old = generate_ike_sa_key_material hmac s Ni Nr SPIi SPIr gir old /\
    initiator_ike_keys hmac s Ni Nr SPIi SPIr gir old = generate_ike_sa_key_material hmac s Ni Nr SPIi SPIr gir old.
  Proof. split; reflexivity. Qed.
End Child.

(* ------------------------------------------------------------------------------------------- *)
(** * Roles *)

Lemma roles_correct (k : ike_sa_keys) :
  let kr := keyring_of_ike k in
  my_crypto true kr = {| sk_e := Some (SK_ei k); sk_a := Some (SK_ai k); sk_p := Some (SK_pi k) |} /\
  peer_crypto true kr = {| sk_e := Some (SK_er k); sk_a := Some (SK_ar k); sk_p := Some (SK_pr k) |} /\
  my_crypto false kr = {| sk_e := Some (SK_er k); sk_a := Some (SK_ar k); sk_p := Some (SK_pr k) |} /\
  peer_crypto false kr = {| sk_e := Some (SK_ei k); sk_a := Some (SK_ai k); sk_p := Some (SK_pi k) |}.
Proof. repeat split. Qed.

(* ------------------------------------------------------------------------------------------- *)
(** * Sizes and tables *)

Lemma sizes_correct :
  (* PRFs: ids, hash functions, key size = output size *)
  map (fun e => (fst e, (snd e, prf_key_size (snd e)))) prf_digestmod_dict
    = map (fun e => (fst e, (hasher_of (fst (snd e)), snd (snd e)))) rfc_prf_algs /\
  (forall h, prf_hash_size h = prf_key_size h /\ prf_hash_size h = digest_size h) /\
  (* integrity algorithms: ids, hash functions, (key size, ICV size) *)
  map (fun e => (fst e, fst (snd e))) integ_digestmod_dict
    = map (fun e => (fst e, hasher_of (snd e))) rfc_integ_algs /\
  map (fun e => (fst e, (integ_key_size (fst (snd e)) (snd (snd e)), integ_hash_size (fst (snd e)) (snd (snd e)))))
      integ_digestmod_dict = rfc_integ_sizes /\
  (* cipher: AES-CBC only, block 16, key = Key Length attribute / 8 for the RFC 3602 sizes *)
  cipher_algorithm_dict = [(ENCR_AES_CBC, AES)] /\
  cipher_block_size AES = aes_block_octets /\
  (forall k, In k aes_key_bits ->
     exists c, cipher_new ENCR_AES_CBC (Some k) = Ok c /\ cipher_key_size_of c = Ok (aes_key_octets k)).
Proof.
  repeat split; try reflexivity; try (destruct h; reflexivity).
  intros k Hk. in_cases Hk; eexists; split; reflexivity.
Qed.

(** every suite a configuration file can name is one of the suites the theorems quantify over *)
Definition config_ike_suites : list ike_suite :=
  flat_map (fun p => flat_map (fun i => map (fun e =>
    {| t_prf := fst p; t_integ := fst i; t_encr := fst e; t_keylen := Some (snd e) |}) config_encr) config_integ)
    config_prf.

Definition config_child_suites : list child_suite :=
  flat_map (fun pr => flat_map (fun i => map (fun e =>
    {| c_protocol := pr; c_integ := fst i; c_encr := fst e; c_keylen := Some (snd e) |}) config_encr) config_integ)
    config_ipsec_protocols.

Definition ike_suite_sizes (s : ike_suite) : option (rfc_hash * Z * Z * Z) :=
  match lookup (t_prf s) rfc_prf_algs, lookup (t_integ s) rfc_integ_sizes, t_keylen s with
  | Some (alg, pl), Some (il, _), Some k =>
      if (Z.eqb (t_encr s) ENCR_AES_CBC && existsb (Z.eqb k) aes_key_bits)%bool then Some (alg, pl, il, k) else None
  | _, _, _ => None
  end.

Lemma ike_suite_sizes_sound s alg pl il k : ike_suite_sizes s = Some (alg, pl, il, k) -> rfc_ike_suite s alg pl il k.
Proof.
  unfold ike_suite_sizes, rfc_ike_suite.
  destruct (lookup (t_prf s) rfc_prf_algs) as [[a p]|]; [|discriminate].
  destruct (lookup (t_integ s) rfc_integ_sizes) as [[i icv]|]; [|discriminate].
  destruct (t_keylen s) as [k'|]; [|discriminate].
  destruct (Z.eqb_spec (t_encr s) ENCR_AES_CBC) as [He|]; [|discriminate]. cbn [andb].
  destruct (existsb (Z.eqb k') aes_key_bits) eqn:Hex; [|discriminate].
  intros H; injection H as; subst. repeat split; try assumption; [exists icv; reflexivity|].
  apply existsb_exists in Hex as (x & Hin & Heq). apply Z.eqb_eq in Heq. subst. exact Hin.
Qed.

Lemma config_suites_covered :
  (forall s, In s config_ike_suites -> exists alg pl il k, rfc_ike_suite s alg pl il k) /\
  (forall cs, In cs config_child_suites -> exists il k, rfc_child_suite cs il k) /\
  map fst config_dh = map fst modp_group_dict ++ map fst ec_groups.
Proof.
  split; [|split; [|reflexivity]].
  - intros s Hs.
    assert (H : forallb (fun s => match ike_suite_sizes s with Some _ => true | None => false end)
                        config_ike_suites = true) by (vm_compute; reflexivity).
    rewrite forallb_forall in H. specialize (H s Hs).
    destruct (ike_suite_sizes s) as [[[[alg pl] il] k]|] eqn:E; [|discriminate].
    exists alg, pl, il, k. apply ike_suite_sizes_sound. exact E.
  - intros cs Hcs. unfold config_child_suites, config_ipsec_protocols, config_integ, config_encr in Hcs.
    cbn [flat_map map app fst snd] in Hcs. cbn [In] in Hcs.
    repeat (destruct Hcs as [Hcs|Hcs]; [subst cs|]); try contradiction;
      unfold rfc_child_suite; cbn [c_protocol c_integ c_encr c_keylen];
      first [ do 2 eexists; split; [eexists; reflexivity|]; left; repeat split; try reflexivity;
              unfold aes_key_bits; cbn [In]; tauto
            | exists 20, 0; split; [eexists; reflexivity|]; right; split; reflexivity
            | exists 32, 0; split; [eexists; reflexivity|]; right; split; reflexivity
            | exists 64, 0; split; [eexists; reflexivity|]; right; split; reflexivity ].
Qed.
