(** C04: the MODP primes of crypto.py equal the closed form published in RFC 3526 (pi from the standard library of
    real numbers; floor(2^k pi) pinned by interval arithmetic).  This is the only C04 theorem that depends on
    standard-library axioms (classical reals, primitive 63-bit integers used by the Interval tactic). *)
From Coq Require Import List ZArith.
From Keys Require Import Gen.ModpGroups ModpTable Rfc3526 Rfc3526Formula PrimeProofs.
Open Scope Z_scope.

Theorem C04_modp_primes : forall g n c, In (g, (n, c)) rfc3526_groups -> modp_prime g = rfc3526_prime n c.
Proof. exact modp_primes_correct. Qed.
Print Assumptions C04_modp_primes.
