(** C04 property theorems (nothing else lives here).  [hmac h k d] stands for HMAC(k, d, digestmod=h).digest();
    the only hypothesis about it is its output length. *)
From Coq Require Import List ZArith NArith.
From VLib Require Import Bytes.
From Keys Require Import Py Gen.CryptoTables Gen.ModpGroups Gen.ConfigSuites Gen.KeyMaterial ModpTable KeySched
  Rfc7296Keys Rfc4868 Rfc3526 KeyProofs DhProofs.
Import ListNotations.
Open Scope Z_scope.

(** prf+ of the code = RFC 7296 2.13 for every output length the RFC defines (n <= 255 * output size) *)
Theorem C04_prfplus : forall (hmac : hasher -> bytes -> bytes -> bytes) (h : hasher) (hlen : nat),
  (forall k d, length (hmac h k d) = hlen) ->
  forall (K S : bytes) (n : Z), 0 <= n <= 255 * Z.of_nat hlen ->
    prfplus hmac h K S n = Ok (rfc_prfplus (hmac h) K S (Z.to_nat n)).
Proof. exact prfplus_correct. Qed.
Print Assumptions C04_prfplus.

(** ... and beyond that length the code raises OverflowError (one-octet counter) instead of producing output *)
Theorem C04_prfplus_overflow : forall (hmac : hasher -> bytes -> bytes -> bytes) (h : hasher) (hlen : nat),
  (forall k d, length (hmac h k d) = hlen) ->
  forall (K S : bytes) (n : Z), 255 * Z.of_nat hlen < n -> prfplus hmac h K S n = Raise OverflowError.
Proof. exact prfplus_overflow. Qed.
Print Assumptions C04_prfplus_overflow.

(** for any primitive whatsoever the loop of prfplus ends (the model's fuel is never exhausted) *)
Theorem C04_prfplus_terminates : forall (hmac : hasher -> bytes -> bytes -> bytes) h (K S : bytes) (n : Z),
  prfplus hmac h K S n <> Diverged.
Proof. exact prfplus_terminates. Qed.
Print Assumptions C04_prfplus_terminates.

(** SKEYSEED and the seven SK_* keys of an initial IKE_SA, for every RFC suite (3 PRFs x 3 integrity algorithms x
    AES key lengths), all nonces, SPIs and secrets; in particular the key material never exceeds 255 blocks *)
Theorem C04_ike_keys : forall (hmac : hasher -> bytes -> bytes -> bytes),
  (forall h k d, length (hmac h k d) = Z.to_nat (digest_size h)) ->
  forall s alg pl il k (Ni Nr SPIi SPIr g_ir : bytes), rfc_ike_suite s alg pl il k ->
    generate_ike_sa_key_material hmac s Ni Nr SPIi SPIr g_ir None =
    Ok (keyring_of_ike (ike_sa_keys_initial (hmac (hasher_of alg)) Ni Nr SPIi SPIr g_ir
                                            (Z.to_nat pl) (Z.to_nat il) (Z.to_nat (aes_key_octets k)))).
Proof. exact ike_keys_initial_correct. Qed.
Print Assumptions C04_ike_keys.

(** keys of a rekeyed IKE_SA (RFC 7296 2.18) *)
Theorem C04_ike_rekey_keys : forall (hmac : hasher -> bytes -> bytes -> bytes),
  (forall h k d, length (hmac h k d) = Z.to_nat (digest_size h)) ->
  forall s alg pl il k (Ni Nr SPIi SPIr g_ir_new SK_d_old : bytes), rfc_ike_suite s alg pl il k -> SK_d_old <> [] ->
    generate_ike_sa_key_material hmac s Ni Nr SPIi SPIr g_ir_new (Some SK_d_old) =
    Ok (keyring_of_ike (ike_sa_keys_rekey (hmac (hasher_of alg)) SK_d_old Ni Nr SPIi SPIr g_ir_new
                                          (Z.to_nat pl) (Z.to_nat il) (Z.to_nat (aes_key_octets k)))).
Proof. exact ike_keys_rekey_correct. Qed.
Print Assumptions C04_ike_rekey_keys.

(** both call sites hand (Ni, Nr, SPIi, SPIr) over in the RFC's order: the responder passes (peer SPI, own SPI),
    the initiator (own SPI, peer SPI) *)
Theorem C04_ike_call_sites : forall (hmac : hasher -> bytes -> bytes -> bytes) s (Ni Nr SPIi SPIr g_ir : bytes) old,
  responder_ike_keys hmac s Ni Nr SPIr SPIi g_ir old = generate_ike_sa_key_material hmac s Ni Nr SPIi SPIr g_ir old /\
  initiator_ike_keys hmac s Ni Nr SPIi SPIr g_ir old = generate_ike_sa_key_material hmac s Ni Nr SPIi SPIr g_ir old.
Proof. exact ike_call_sites. Qed.
Print Assumptions C04_ike_call_sites.

(** CHILD_SA KEYMAT without a fresh Diffie-Hellman exchange, on both roles, ESP and AH *)
Theorem C04_child_keymat : forall (hmac : hasher -> bytes -> bytes -> bytes),
  (forall h k d, length (hmac h k d) = Z.to_nat (digest_size h)) ->
  forall alg pl cs il k (Ni Nr SK_d : bytes), In (alg, pl) (map snd rfc_prf_algs) -> rfc_child_suite cs il k ->
    let spec := keyring_of_child (child_sa_keys_nopfs (hmac (hasher_of alg)) SK_d Ni Nr
                                                      (Z.to_nat (aes_key_octets k)) (Z.to_nat il)) in
    responder_child_keys hmac (hasher_of alg) cs Ni Nr None SK_d = Ok spec /\
    initiator_child_keys hmac (hasher_of alg) cs Ni Nr None SK_d = Ok spec.
Proof. exact child_keymat_correct. Qed.
Print Assumptions C04_child_keymat.

(** CHILD_SA KEYMAT with a fresh Diffie-Hellman secret g^ir (new) prepended to the seed *)
Theorem C04_child_keymat_pfs : forall (hmac : hasher -> bytes -> bytes -> bytes),
  (forall h k d, length (hmac h k d) = Z.to_nat (digest_size h)) ->
  forall alg pl cs il k (Ni Nr g_ir_new SK_d : bytes), In (alg, pl) (map snd rfc_prf_algs) -> rfc_child_suite cs il k ->
    let spec := keyring_of_child (child_sa_keys_pfs (hmac (hasher_of alg)) SK_d g_ir_new Ni Nr
                                                    (Z.to_nat (aes_key_octets k)) (Z.to_nat il)) in
    responder_child_keys hmac (hasher_of alg) cs Ni Nr (Some g_ir_new) SK_d = Ok spec /\
    initiator_child_keys hmac (hasher_of alg) cs Ni Nr (Some g_ir_new) SK_d = Ok spec.
Proof. exact child_keymat_pfs_correct. Qed.
Print Assumptions C04_child_keymat_pfs.

(** the initiator protects with (SK_ei, SK_ai, SK_pi) and expects (SK_er, SK_ar, SK_pr); mirrored on the responder *)
Theorem C04_roles : forall k : ike_sa_keys,
  let kr := keyring_of_ike k in
  my_crypto true kr = {| sk_e := Some (SK_ei k); sk_a := Some (SK_ai k); sk_p := Some (SK_pi k) |} /\
  peer_crypto true kr = {| sk_e := Some (SK_er k); sk_a := Some (SK_ar k); sk_p := Some (SK_pr k) |} /\
  my_crypto false kr = {| sk_e := Some (SK_er k); sk_a := Some (SK_ar k); sk_p := Some (SK_pr k) |} /\
  peer_crypto false kr = {| sk_e := Some (SK_ei k); sk_a := Some (SK_ai k); sk_p := Some (SK_pi k) |}.
Proof. exact roles_correct. Qed.
Print Assumptions C04_roles.

(** the generated algorithm tables and size expressions equal the RFC values *)
Theorem C04_sizes :
  map (fun e => (fst e, (snd e, prf_key_size (snd e)))) prf_digestmod_dict
    = map (fun e => (fst e, (hasher_of (fst (snd e)), snd (snd e)))) rfc_prf_algs /\
  (forall h, prf_hash_size h = prf_key_size h /\ prf_hash_size h = digest_size h) /\
  map (fun e => (fst e, fst (snd e))) integ_digestmod_dict
    = map (fun e => (fst e, hasher_of (snd e))) rfc_integ_algs /\
  map (fun e => (fst e, (integ_key_size (fst (snd e)) (snd (snd e)), integ_hash_size (fst (snd e)) (snd (snd e)))))
      integ_digestmod_dict = rfc_integ_sizes /\
  cipher_algorithm_dict = [(ENCR_AES_CBC, AES)] /\
  cipher_block_size AES = aes_block_octets /\
  (forall k, In k aes_key_bits ->
     exists c, cipher_new ENCR_AES_CBC (Some k) = Ok c /\ cipher_key_size_of c = Ok (aes_key_octets k)).
Proof. exact sizes_correct. Qed.
Print Assumptions C04_sizes.

(** every suite / DH group a configuration file can name is covered by the theorems above *)
Theorem C04_config_suites_covered :
  (forall s, In s config_ike_suites -> exists alg pl il k, rfc_ike_suite s alg pl il k) /\
  (forall cs, In cs config_child_suites -> exists il k, rfc_child_suite cs il k) /\
  map fst config_dh = map fst modp_group_dict ++ map fst ec_groups.
Proof. exact config_suites_covered. Qed.
Print Assumptions C04_config_suites_covered.

(** MODP groups: the group numbers, generator 2, key_len = octets of the prime, the prime has exactly n bits *)
Theorem C04_modp_groups_shape :
  map fst modp_group_dict = map fst rfc3526_groups_bits /\
  modp_generator = 2 /\
  forall g n, In (g, n) rfc3526_groups_bits ->
    modp_key_len_of g = Ok (n / 8) /\ 2 ^ (n - 1) <= modp_prime g < 2 ^ n /\ 256 ^ (n / 8) = 2 ^ n.
Proof. exact modp_groups_shape. Qed.
Print Assumptions C04_modp_groups_shape.

(** a MODP public value is the fixed-width big-endian encoding: length of the prime in octets, decodes to y *)
Theorem C04_public_value_width : forall g n y, In (g, n) rfc3526_groups_bits -> 0 <= y < modp_prime g ->
  exists b, dh_public_key g y 0 = Ok b /\ length b = Z.to_nat (n / 8) /\ from_bytes_big b = y /\ wf_bytes b.
Proof. exact modp_public_value. Qed.
Print Assumptions C04_public_value_width.

(** groups 19, 20, 21 are secp256r1/384r1/521r1 and an ECP public value is x | y, each coordinate 32/48/66 octets *)
Theorem C04_ec_groups :
  map (fun e => (fst e, (curve_name (snd e), (curve_key_size (snd e), ecdh_key_len (curve_key_size (snd e))))))
      ec_groups = rfc5903_groups.
Proof. exact ec_groups_correct. Qed.
Print Assumptions C04_ec_groups.

Theorem C04_ec_public_value_width : forall g name bits w x y, In (g, (name, (bits, w))) rfc5903_groups ->
  0 <= x < 2 ^ bits -> 0 <= y < 2 ^ bits ->
  exists b, dh_public_key g x y = Ok b /\ length b = Z.to_nat (2 * w) /\
            from_bytes_big (firstn (Z.to_nat w) b) = x /\ from_bytes_big (skipn (Z.to_nat w) b) = y.
Proof. exact ecdh_public_value. Qed.
Print Assumptions C04_ec_public_value_width.
