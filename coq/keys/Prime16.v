(** RFC 3526 group 16: the prime in crypto.py (regenerated into Gen/ModpGroups.v) equals the RFC's closed form. *)
From Coq Require Import ZArith Reals.
From Interval Require Import Tactic.
From Keys Require Import Gen.ModpGroups ModpTable Rfc3526Formula PrimeLemmas.
Open Scope Z_scope.

Lemma prime_16 : modp_prime 16 = rfc3526_prime 4096 240904.
Proof. rfc_prime_tac 16 4096 240904 4220%positive. Qed.
