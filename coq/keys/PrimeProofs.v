(** All five MODP primes of crypto.py equal the closed form of RFC 3526. *)
From Coq Require Import ZArith List.
From Keys Require Import Gen.ModpGroups ModpTable Rfc3526 Rfc3526Formula Prime14 Prime15 Prime16 Prime17 Prime18.
Import ListNotations.
Open Scope Z_scope.

Lemma modp_primes_correct g n c : In (g, (n, c)) rfc3526_groups -> modp_prime g = rfc3526_prime n c.
Proof.
  unfold rfc3526_groups. cbn [In]. intros H.
  repeat (destruct H as [H|H]; [injection H as; subst g n c|]); try contradiction.
  - exact prime_14.
  - exact prime_15.
  - exact prime_16.
  - exact prime_17.
  - exact prime_18.
Qed.
