(** Non-vacuity: the hypotheses of the C04 theorems are satisfiable, and spec and model are both executable on
    a concrete instance (the toy prf of KeysRun.v). *)
From Coq Require Import List ZArith NArith Lia.
From VLib Require Import Bytes.
From Keys Require Import Py Gen.CryptoTables Gen.ConfigSuites Gen.KeyMaterial KeySched Rfc7296Keys Rfc4868 KeyProofs
  KeysRun.
Import ListNotations.
Open Scope Z_scope.

Lemma stretch_length n x : length (stretch n x) = n.
Proof. revert x; induction n as [|n IH]; intros x; cbn [stretch length]; [reflexivity|]. rewrite IH. reflexivity. Qed.

(** the length hypothesis about [hmac] holds for the toy instance *)
Example toy_hmac_len : forall h k d, length (toy_hmac h k d) = Z.to_nat (digest_size h).
Proof. intros h k d. unfold toy_hmac, toy_prf. apply stretch_length. Qed.

Example suite_example : rfc_ike_suite {| t_prf := 5; t_integ := 12; t_encr := 12; t_keylen := Some 256 |}
                                      HMAC_SHA2_256 32 32 256.
Proof.
  unfold rfc_ike_suite; cbn. repeat split; try reflexivity; [exists 16; reflexivity|].
  unfold aes_key_bits; cbn; tauto.
Qed.

Example child_suite_example_esp :
  rfc_child_suite {| c_protocol := 3; c_integ := 2; c_encr := 12; c_keylen := Some 128 |} 20 128.
Proof.
  unfold rfc_child_suite; cbn. split; [exists 12; reflexivity|]. left. repeat split; try reflexivity.
  unfold aes_key_bits; cbn; tauto.
Qed.

Example child_suite_example_ah :
  rfc_child_suite {| c_protocol := 2; c_integ := 14; c_encr := 0; c_keylen := None |} 64 0.
Proof. unfold rfc_child_suite; cbn. split; [exists 32; reflexivity|]. right. split; reflexivity. Qed.

(** the instantiated theorem, and both sides computed: 7 keys of 32,32,32,32,32,32,32 octets *)
Example ike_keys_toy :
  let s := {| t_prf := 5; t_integ := 12; t_encr := 12; t_keylen := Some 256 |} in
  generate_ike_sa_key_material toy_hmac s [1;2;3]%N [4;5]%N [6]%N [7]%N [0;0;9]%N None
  = Ok (keyring_of_ike (ike_sa_keys_initial (toy_hmac sha256) [1;2;3]%N [4;5]%N [6]%N [7]%N [0;0;9]%N 32 32 32)).
Proof.
  cbv zeta. rewrite (ike_keys_initial_correct toy_hmac toy_hmac_len _ HMAC_SHA2_256 32 32 256) by exact suite_example.
  reflexivity.
Qed.

Example ike_keys_toy_computed :
  match generate_ike_sa_key_material toy_hmac {| t_prf := 5; t_integ := 12; t_encr := 12; t_keylen := Some 256 |}
                                     [1;2;3]%N [4;5]%N [6]%N [7]%N [0;0;9]%N None with
  | Ok kr => option_map (@length N) (sk_d kr) = Some 32%nat /\ option_map (@length N) (sk_pr kr) = Some 32%nat /\
             sk_ei kr <> sk_er kr
  | _ => False
  end.
Proof. vm_compute. repeat split; discriminate. Qed.

(** prf+ theorem instance: hypotheses satisfiable at the largest defined length *)
Example prfplus_limit_toy :
  prfplus toy_hmac sha1 [1]%N [2]%N (255 * 20) = Ok (rfc_prfplus (toy_hmac sha1) [1]%N [2]%N (Z.to_nat (255 * 20))) /\
  prfplus toy_hmac sha1 [1]%N [2]%N (255 * 20 + 1) = Raise OverflowError.
Proof.
  split.
  - apply (prfplus_correct toy_hmac sha1 20); [intros; apply toy_hmac_len | lia].
  - apply (prfplus_overflow toy_hmac sha1 20); [intros; apply toy_hmac_len | lia].
Qed.
