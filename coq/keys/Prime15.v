(** RFC 3526 group 15: the prime in crypto.py (regenerated into Gen/ModpGroups.v) equals the RFC's closed form. *)
From Coq Require Import ZArith Reals.
From Interval Require Import Tactic.
From Keys Require Import Gen.ModpGroups ModpTable Rfc3526Formula PrimeLemmas.
Open Scope Z_scope.

Lemma prime_15 : modp_prime 15 = rfc3526_prime 3072 1690314.
Proof. rfc_prime_tac 15 3072 1690314 3200%positive. Qed.
