(** Lemmas about the Diffie-Hellman tables and the encoding of public values. *)
From Coq Require Import List ZArith NArith Bool Lia Arith PeanoNat ZifyBool ZifyNat ZifyN.
From VLib Require Import Bytes.
From Keys Require Import Py Gen.CryptoTables Gen.ModpGroups ModpTable KeySched Rfc4868 Rfc3526.
Import ListNotations.
Open Scope Z_scope.

(* ------------------------------------------------------------------------------------------- *)
(** * Diffie-Hellman public values: fixed-width big-endian *)

Lemma to_bytes_big_ok y w : 0 <= w -> 0 <= y < 256 ^ w ->
  to_bytes_big y w = Ok (be_encode (Z.to_nat w) (Z.to_N y)).
Proof.
  intros Hw Hy. unfold to_bytes_big.
  replace (0 <=? y) with true by lia. replace (0 <=? w) with true by lia.
  replace (y <? 256 ^ w) with true by lia. reflexivity.
Qed.

Lemma from_to_bytes y w : 0 <= w -> 0 <= y < 256 ^ w ->
  from_bytes_big (be_encode (Z.to_nat w) (Z.to_N y)) = y.
Proof.
  intros Hw Hy. unfold from_bytes_big. rewrite be_decode_encode; [lia|].
  apply N2Z.inj_lt. rewrite N2Z.inj_pow, Z2N.id by lia.
  replace (Z.of_N (N.of_nat (Z.to_nat w))) with w by lia. change (Z.of_N 256) with 256. lia.
Qed.

Lemma to_bytes_big_overflow y w : 0 <= w -> 256 ^ w <= y -> to_bytes_big y w = Raise OverflowError.
Proof.
  intros Hw Hy. unfold to_bytes_big. replace (y <? 256 ^ w) with false by lia.
  rewrite !andb_false_r. reflexivity.
Qed.


(** width, generator and size of the primes (pure computation on the table) *)
Lemma modp_groups_shape :
  map fst modp_group_dict = map fst rfc3526_groups_bits /\
  modp_generator = 2 /\
  forall g n, In (g, n) rfc3526_groups_bits ->
    modp_key_len_of g = Ok (n / 8) /\ 2 ^ (n - 1) <= modp_prime g < 2 ^ n /\ 256 ^ (n / 8) = 2 ^ n.
Proof.
  split; [reflexivity|]. split; [reflexivity|].
  intros g n Hin. unfold rfc3526_groups_bits in Hin. cbn [In] in Hin.
  repeat (destruct Hin as [Hin|Hin]; [injection Hin as; subst g n|]); try contradiction;
    (split; [reflexivity|]); split; try (vm_compute; split; [discriminate|reflexivity]); vm_compute; reflexivity.
Qed.

Lemma modp_public_value g n y : In (g, n) rfc3526_groups_bits -> 0 <= y < modp_prime g ->
  exists b, dh_public_key g y 0 = Ok b /\ length b = Z.to_nat (n / 8) /\ from_bytes_big b = y /\ wf_bytes b.
Proof.
  intros Hin Hy. destruct modp_groups_shape as (_ & _ & Hshape).
  destruct (Hshape g n Hin) as (Hlen & Hp & Hpow).
  unfold dh_public_key. unfold modp_key_len_of, dict_get in Hlen. unfold modp_prime in *.
  destruct (lookup g modp_group_dict) as [e|]; [|discriminate]. cbn [bind] in Hlen. injection Hlen as Hlen.
  assert (Hn : 0 <= n / 8).
  { unfold rfc3526_groups_bits in Hin. cbn [In] in Hin.
    repeat (destruct Hin as [Hin|Hin]; [injection Hin as; subst; vm_compute; discriminate|]). contradiction. }
  unfold modp_public_key. rewrite Hlen. rewrite to_bytes_big_ok by lia.
  eexists. split; [reflexivity|]. split; [apply be_encode_length|]. split; [apply from_to_bytes; lia|].
  apply be_encode_wf.
Qed.

Lemma ec_groups_correct :
  map (fun e => (fst e, (curve_name (snd e), (curve_key_size (snd e), ecdh_key_len (curve_key_size (snd e))))))
      ec_groups = rfc5903_groups.
Proof. reflexivity. Qed.

Lemma xy_encoding w x y : 0 <= w -> 0 <= x < 256 ^ w -> 0 <= y < 256 ^ w ->
  exists b, ecdh_public_key w x y = Ok b /\ length b = Z.to_nat (2 * w) /\
            from_bytes_big (firstn (Z.to_nat w) b) = x /\ from_bytes_big (skipn (Z.to_nat w) b) = y.
Proof.
  intros Hw Hx Hy. unfold ecdh_public_key.
  rewrite (to_bytes_big_ok x w), (to_bytes_big_ok y w) by assumption. cbn [bind].
  eexists; split; [reflexivity|].
  pose proof (be_encode_length (Z.to_nat w) (Z.to_N x)) as Lx.
  pose proof (be_encode_length (Z.to_nat w) (Z.to_N y)) as Ly.
  split; [rewrite app_length, Lx, Ly; lia|].
  split.
  - rewrite <- Lx at 1. rewrite firstn_app_exact. apply from_to_bytes; assumption.
  - rewrite <- Lx at 1. rewrite skipn_app_exact. apply from_to_bytes; assumption.
Qed.

Lemma ec_group_not_modp g : In g (map fst rfc5903_groups) -> lookup g modp_group_dict = None.
Proof.
  unfold rfc5903_groups. cbn [map fst In].
  intros H. repeat (destruct H as [H|H]; [subst g; vm_compute; reflexivity|]). contradiction.
Qed.

Lemma ecdh_public_value g name bits w x y : In (g, (name, (bits, w))) rfc5903_groups ->
  0 <= x < 2 ^ bits -> 0 <= y < 2 ^ bits ->
  exists b, dh_public_key g x y = Ok b /\ length b = Z.to_nat (2 * w) /\
            from_bytes_big (firstn (Z.to_nat w) b) = x /\ from_bytes_big (skipn (Z.to_nat w) b) = y.
Proof.
  intros Hin Hx Hy. unfold dh_public_key.
  rewrite ec_group_not_modp by (apply (in_map fst) in Hin; exact Hin).
  unfold rfc5903_groups in Hin. cbn [In] in Hin.
  repeat (destruct Hin as [Hin|Hin]; [injection Hin as; subst g name bits w|]); try contradiction;
    lazymatch goal with |- context [dict_get ?g ec_groups] =>
      let r := eval vm_compute in (dict_get g ec_groups) in change (dict_get g ec_groups) with r end;
    cbn [bind];
    lazymatch goal with |- context [ecdh_public_key ?kl x y] =>
      let v := eval vm_compute in kl in change kl with v end;
    (apply xy_encoding; [discriminate | |]);
    match goal with |- _ <= ?z < 256 ^ ?w =>
      match type of Hx with _ <= _ < 2 ^ ?b =>
        assert (Hpow : 2 ^ b <= 256 ^ w) by (vm_compute; discriminate); lia end end.
Qed.
