(** Tools for the RFC 3526 prime theorems: the integer part of a real pinned by two strict bounds, and the
    reduction "table prime = formula" to "floor(2^k pi) = the integer read off the table prime". *)
From Coq Require Import ZArith Reals List Lia Lra.
From Keys Require Import Gen.ModpGroups ModpTable Rfc3526Formula.
Import ListNotations.
Open Scope Z_scope.

Lemma int_part_unique (r : R) (m : Z) : (IZR m < r < IZR (m + 1))%R -> Int_part r = m.
Proof.
  intros [Hlo Hhi]. unfold Int_part.
  assert (H : (m + 1)%Z = up r).
  { apply tech_up; [exact Hhi|]. rewrite plus_IZR. simpl. lra. }
  rewrite <- H. lia.
Qed.

(** the value floor(2^(n-130) pi) must have for [p] to be the RFC 3526 prime of [n] bits with constant [c] *)
Definition floor_of (p n c : Z) : Z := (p - 2 ^ n + 2 ^ (n - 64) + 1) / 2 ^ 64 - c.

Lemma prime_from_floor p n c :
  (p - 2 ^ n + 2 ^ (n - 64) + 1) mod 2 ^ 64 = 0 ->
  Int_part (PI * IZR (2 ^ (n - 130))) = floor_of p n c -> p = rfc3526_prime n c.
Proof.
  intros Hmod Hfl. unfold rfc3526_prime. rewrite Hfl. unfold floor_of.
  pose proof (Z.div_mod (p - 2 ^ n + 2 ^ (n - 64) + 1) (2 ^ 64)) as Hd.
  assert (H64 : 2 ^ 64 <> 0) by (apply Z.pow_nonzero; lia).
  specialize (Hd H64). rewrite Hmod in Hd. lia.
Qed.

(** [rfc_prime_tac g n c prec]: proves [modp_prime g = rfc3526_prime n c]; the bounds of pi * 2^(n-130) are
    computed from the table entry and checked by interval arithmetic at [prec] bits. *)
From Interval Require Import Tactic.
Ltac rfc_prime_tac g n c prec :=
  apply prime_from_floor; [vm_compute; reflexivity|];
  apply int_part_unique;
  let m := eval vm_compute in (floor_of (modp_prime g) n c) in
  let m1 := eval vm_compute in (floor_of (modp_prime g) n c + 1) in
  let k := eval vm_compute in (2 ^ (n - 130)) in
  change (IZR m < PI * IZR k < IZR m1)%R;
  split; interval with (i_prec prec).
