(** Key, output and block sizes of the transforms pyikev2 supports, written from the RFCs (octets):

    RFC 2404 (HMAC-SHA-1-96)      key 160 bits, authenticator truncated to 96 bits
    RFC 4868 section 2.1.1/2.6    HMAC-SHA-256-128: key 256 bits, ICV 128 bits
                                  HMAC-SHA-512-256: key 512 bits, ICV 256 bits
    RFC 4868 section 2.1.2, RFC 7296 2.13/2.14 (PRFs keyed with their "preferred key length" = output size)
                                  PRF-HMAC-SHA1 160 bits, PRF-HMAC-SHA-256 256 bits, PRF-HMAC-SHA-512 512 bits
    RFC 3602 (AES-CBC)            block 128 bits; key sizes 128, 192, 256 bits (Key Length attribute in bits)
    Transform IDs: IANA "IKEv2 Parameters" (RFC 7296 section 3.3.2). *)
From Coq Require Import List ZArith String.
Import ListNotations.
Open Scope Z_scope.

(** PRF transform id -> key size = output size *)
Definition rfc_prf_sizes : list (Z * Z) := [(2, 20); (5, 32); (7, 64)].

(** integrity transform id -> (key size, ICV size) *)
Definition rfc_integ_sizes : list (Z * (Z * Z)) := [(2, (20, 12)); (12, (32, 16)); (14, (64, 32))].

Definition ENCR_AES_CBC : Z := 12.
Definition aes_block_octets : Z := 16.
Definition aes_key_bits : list Z := [128; 192; 256].
Definition aes_key_octets (key_length_attribute : Z) : Z := key_length_attribute / 8.

(** RFC 5903: groups 19, 20, 21 are the 256-, 384- and 521-bit random ECP groups (NIST P-256/P-384/P-521, named
    secp256r1/secp384r1/secp521r1 in SEC 2); "the Diffie-Hellman public value is the concatenation of x and y",
    each coordinate taking the octet length of the field: 32, 48 and 66.
    group -> (SEC 2 curve name, field size in bits, octets per coordinate) *)
Definition rfc5903_groups : list (Z * (string * (Z * Z))) :=
  [(19, ("secp256r1", (256, 32))); (20, ("secp384r1", (384, 48))); (21, ("secp521r1", (521, 66)))]%string.

(** PRF transform id -> (HMAC hash function, key size = output size); RFC 7296 section 3.3.2 / RFC 4868 *)
Inductive rfc_hash := HMAC_SHA1 | HMAC_SHA2_256 | HMAC_SHA2_512.
Definition rfc_prf_algs : list (Z * (rfc_hash * Z)) :=
  [(2, (HMAC_SHA1, 20)); (5, (HMAC_SHA2_256, 32)); (7, (HMAC_SHA2_512, 64))].

(** integrity transform id -> HMAC hash function (RFC 2404, RFC 4868) *)
Definition rfc_integ_algs : list (Z * rfc_hash) := [(2, HMAC_SHA1); (12, HMAC_SHA2_256); (14, HMAC_SHA2_512)].
