(** RFC 3526 group 14: the prime in crypto.py (regenerated into Gen/ModpGroups.v) equals the RFC's closed form. *)
From Coq Require Import ZArith Reals.
From Interval Require Import Tactic.
From Keys Require Import Gen.ModpGroups ModpTable Rfc3526Formula PrimeLemmas.
Open Scope Z_scope.

Lemma prime_14 : modp_prime 14 = rfc3526_prime 2048 124476.
Proof. rfc_prime_tac 14 2048 124476 2160%positive. Qed.
