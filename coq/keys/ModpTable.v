(** Accessors of the regenerated MODPDH._group_dict: (len(hex), int(hex, 16)); (0, 0) stands for KeyError. *)
From Coq Require Import ZArith List.
From Keys Require Import Gen.ModpGroups.
Import ListNotations.
Open Scope Z_scope.

Definition modp_entry (g : Z) : Z * Z :=
  match find (fun e => Z.eqb (fst e) g) modp_group_dict with Some (_, e) => e | None => (0, 0) end.
Definition modp_prime (g : Z) : Z := snd (modp_entry g).
Definition modp_hexlen (g : Z) : Z := fst (modp_entry g).
