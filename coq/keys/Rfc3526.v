(** RFC 3526 "More Modular Exponential (MODP) Diffie-Hellman groups for IKE", sections 3-7, written from the RFC text:

      "This prime is: 2^2048 - 2^1984 - 1 + 2^64 * { [2^1918 pi] + 124476 }"   (group 14)
      "This prime is: 2^3072 - 2^3008 - 1 + 2^64 * { [2^2942 pi] + 1690314 }"  (group 15)
      "This prime is: 2^4096 - 2^4032 - 1 + 2^64 * { [2^3966 pi] + 240904 }"   (group 16)
      "This prime is: 2^6144 - 2^6080 - 1 + 2^64 * { [2^6014 pi] + 929484 }"   (group 17)
      "This prime is: 2^8192 - 2^8128 - 1 + 2^64 * { [2^8062 pi] + 4743158 }"  (group 18)
      "The generator is: 2."

    [x] is the integer part; the formula itself is in Rfc3526Formula.v (it needs the real numbers). *)
From Coq Require Import ZArith List.
Import ListNotations.
Open Scope Z_scope.

(** group number -> (bits n, constant c) *)
Definition rfc3526_groups : list (Z * (Z * Z)) :=
  [(14, (2048, 124476)); (15, (3072, 1690314)); (16, (4096, 240904)); (17, (6144, 929484)); (18, (8192, 4743158))].

Definition rfc3526_generator : Z := 2.

(** "the public value is encoded as a big endian number, padded with zeros to the length of the prime in octets"
    (RFC 7296 section 3.4): the length of the prime in octets *)
Definition rfc3526_octets (n : Z) : Z := n / 8.

(** group number -> bits *)
Definition rfc3526_groups_bits : list (Z * Z) := map (fun e => (fst e, fst (snd e))) rfc3526_groups.
