(** Executable model of the key schedule of pyikev2 (crypto.Prf.prfplus, IkeSa.generate_ike_sa_key_material,
    IkeSa.generate_child_sa_key_material and their call sites).  Every expression that the translator can
    regenerate from /repo comes from Gen/CryptoTables.v and Gen/KeyMaterial.v; this file only supplies the control
    structure (loop, dictionary lookups, exceptions).  No proofs in this file.

    The primitive [hmac h k d] stands for [HMAC(k, d, digestmod=h).digest()] (crypto.Prf.prf). *)
From Coq Require Import List ZArith NArith Bool.
From VLib Require Import Bytes.
From Keys Require Import Py Gen.CryptoTables Gen.ModpGroups Gen.KeyMaterial.
Import ListNotations.
Open Scope Z_scope.

Fixpoint lookup {A} (k : Z) (d : list (Z * A)) : option A :=
  match d with
  | [] => None
  | (k', v) :: r => if Z.eqb k' k then Some v else lookup k r
  end.

(** [d[k]] *)
Definition dict_get {A} (k : Z) (d : list (Z * A)) : result A :=
  match lookup k d with Some v => Ok v | None => Raise KeyError end.

(** Transforms of a proposal as the key schedule sees them: transform ids and the KEY_LEN attribute
    ([None] when absent). *)
Record ike_suite := { t_prf : Z; t_integ : Z; t_encr : Z; t_keylen : option Z }.
Record child_suite := { c_protocol : Z; c_integ : Z; c_encr : Z; c_keylen : option Z }.

(** Prf(transform), Integrity(transform) *)
Definition prf_new (id : Z) : result hasher := dict_get id prf_digestmod_dict.
Definition integ_new (id : Z) : result (hasher * Z) := dict_get id integ_digestmod_dict.

(** Cipher(transform): KeyError for an unknown id; a KEY_LEN attribute is refused (InvalidSyntax) when the
    algorithm has a single key size or does not list the value; a missing KEY_LEN for an algorithm with several
    key sizes reaches [raise('...')], i.e. TypeError. *)
Record cipher := { cipher_alg : algorithm; cipher_keylen : option Z }.

Definition cipher_new (id : Z) (keylen : option Z) : result cipher :=
  bind (dict_get id cipher_algorithm_dict) (fun a =>
    let n := length (algorithm_key_sizes a) in
    match keylen with
    | Some k =>
        if Nat.eqb n 1 then Raise InvalidSyntax
        else if negb (existsb (Z.eqb k) (algorithm_key_sizes a)) then Raise InvalidSyntax
        else Ok {| cipher_alg := a; cipher_keylen := keylen |}
    | None =>
        if Nat.ltb 1 n then Raise TypeError else Ok {| cipher_alg := a; cipher_keylen := keylen |}
    end).

(** Cipher.key_size: [(keylen or key_sizes[0]) // 8]; [key_sizes] is a frozenset in the installed
    `cryptography`, so the right operand of [or] raises TypeError when it is evaluated. *)
Definition cipher_key_size_of (c : cipher) : result Z :=
  let k := match cipher_keylen c with Some k => k | None => 0 end in
  if Z.eqb k 0 then Raise TypeError else Ok (cipher_key_size k 0).

Section KeySched.
  Variable hmac : hasher -> bytes -> bytes -> bytes.

  (** Prf.prfplus: [while len(result) < size: temp = prf(key, temp + seed + i.to_bytes(1,'big')); result += temp;
      i += 1] and [return result[:size]].  [i.to_bytes] raises OverflowError at 256, so 257 units of fuel always
      reach the end of the Python loop. *)
  Fixpoint prfplus_loop (fuel : nat) (h : hasher) (key seed : bytes) (size : Z) (res temp : bytes) (i : Z)
    : result bytes :=
    match fuel with
    | O => Diverged
    | S f =>
        if Z.ltb (Z.of_nat (length res)) size then
          bind (to_bytes_big i prfplus_counter_width) (fun ctr =>
            let temp' := prfplus_block (hmac h) key temp seed ctr in
            prfplus_loop f h key seed size (res ++ temp') temp' (prfplus_i_next i))
        else Ok (firstn (Z.to_nat size) res)
    end.

  Definition prfplus_fuel : nat := Z.to_nat 257.

  Definition prfplus (h : hasher) (key seed : bytes) (size : Z) : result bytes :=
    prfplus_loop prfplus_fuel h key seed size [] [] prfplus_i0.

  Definition value_error_if_none {A} (o : option A) : result A :=
    match o with Some a => Ok a | None => Raise ValueError end.

  (** IkeSa.generate_ike_sa_key_material(ike_proposal, nonce_i, nonce_r, spi_i, spi_r, shared_secret, old_sk_d) *)
  Definition generate_ike_sa_key_material (s : ike_suite) (nonce_i nonce_r spi_i spi_r shared_secret : bytes)
             (old_sk_d : option bytes) : result keyring :=
    bind (prf_new (t_prf s)) (fun h =>
    bind (integ_new (t_integ s)) (fun ig =>
    bind (cipher_new (t_encr s) (t_keylen s)) (fun c =>
      let skeyseed :=
        if py_not_bytes old_sk_d then ike_skeyseed_initial (hmac h) nonce_i nonce_r shared_secret
        else ike_skeyseed_rekey (hmac h) (match old_sk_d with Some k => k | None => [] end)
                                nonce_i nonce_r shared_secret in
      bind (cipher_key_size_of c) (fun cks =>
        let pks := prf_key_size h in
        let iks := integ_key_size (fst ig) (snd ig) in
        bind (ike_keymat (prfplus h) skeyseed nonce_i nonce_r spi_i spi_r pks iks cks) (fun keymat =>
        bind (unpack_s (ike_unpack_sizes pks iks cks) keymat) (fun l =>
          value_error_if_none (ike_keyring_of_unpack l))))))).

  (** IkeSa.generate_child_sa_key_material(child_proposal, keyseed, sk_d); [h] is the hasher of
      [self.my_crypto.prf], the PRF of the IKE_SA. *)
  Definition generate_child_sa_key_material (h : hasher) (cs : child_suite) (keyseed sk_d : bytes)
    : result keyring :=
    bind (integ_new (c_integ cs)) (fun ig =>
      let iks := integ_key_size (fst ig) (snd ig) in
      bind (if Z.eqb (c_protocol cs) child_protocol_with_cipher
            then bind (cipher_new (c_encr cs) (c_keylen cs)) cipher_key_size_of
            else Ok child_encr_key_size_default) (fun eks =>
        bind (child_keymat (prfplus h) sk_d keyseed iks eks) (fun keymat =>
        bind (unpack_s (child_unpack_sizes eks iks) keymat) (fun l =>
          value_error_if_none (child_keyring_of_unpack l))))).

  (** The call sites: what each role feeds to the two functions above. *)
  Definition responder_ike_keys (s : ike_suite) (request_nonce response_nonce my_spi peer_spi dh_secret : bytes)
             (old_sk_d : option bytes) : result keyring :=
    responder_ike_call (generate_ike_sa_key_material s) request_nonce response_nonce my_spi peer_spi dh_secret
                       old_sk_d.

  Definition initiator_ike_keys (s : ike_suite) (request_nonce response_nonce my_spi peer_spi dh_secret : bytes)
             (old_sk_d : option bytes) : result keyring :=
    initiator_ike_call (generate_ike_sa_key_material s) request_nonce response_nonce my_spi peer_spi dh_secret
                       old_sk_d.

  (** [sk_d=self.ike_sa_keyring.sk_d]: the model passes the stored key (it is never None after key generation) *)
  Definition responder_child_keys (h : hasher) (cs : child_suite) (request_nonce response_nonce : bytes)
             (dh_secret : option bytes) (ike_sk_d : bytes) : result keyring :=
    let keyseed := responder_child_keyseed request_nonce response_nonce in
    let keyseed := match dh_secret with Some g => responder_child_keyseed_pfs g keyseed | None => keyseed end in
    generate_child_sa_key_material h cs keyseed ike_sk_d.

  Definition initiator_child_keys (h : hasher) (cs : child_suite) (request_nonce response_nonce : bytes)
             (dh_secret : option bytes) (ike_sk_d : bytes) : result keyring :=
    let keyseed := initiator_child_keyseed request_nonce response_nonce in
    let keyseed := match dh_secret with Some g => initiator_child_keyseed_pfs g keyseed | None => keyseed end in
    generate_child_sa_key_material h cs keyseed ike_sk_d.
End KeySched.

(** Diffie-Hellman public values (MODPDH.__init__, ECDH.__init__, DiffieHellman.from_group) *)
Definition modp_key_len_of (g : Z) : result Z :=
  bind (dict_get g modp_group_dict) (fun e => Ok (modp_key_len (fst e))).

Definition ecdh_key_len_of (g : Z) : result Z :=
  bind (dict_get g ec_groups) (fun c => Ok (ecdh_key_len (curve_key_size c))).

(** length of the KE data the daemon sends for group [g] given the public numbers *)
Definition dh_public_key (g : Z) (y_or_x y2 : Z) : result bytes :=
  match lookup g modp_group_dict with
  | Some e => modp_public_key (modp_key_len (fst e)) y_or_x
  | None => bind (dict_get g ec_groups) (fun c => ecdh_public_key (ecdh_key_len (curve_key_size c)) y_or_x y2)
  end.
