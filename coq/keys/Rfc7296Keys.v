(** RFC 7296 key derivation, written from the RFC text (sections 2.13, 2.14, 2.17, 2.18), independently of the
    shape of the code.  [prf] is the negotiated pseudorandom function; octet strings are [bytes]; [|] is [++].

    2.13  prf+ (K,S) = T1 | T2 | T3 | T4 | ...
            T1 = prf (K, S | 0x01)
            T2 = prf (K, T1 | S | 0x02)
            T3 = prf (K, T2 | S | 0x03) ...
          "This continues until all the material needed [...] has been output from prf+.  The keys are taken from
          the output string without regard to boundaries."  "the prf+ function is not defined beyond 255 times
          the size of the prf function output."
    2.14  SKEYSEED = prf(Ni | Nr, g^ir)
          {SK_d | SK_ai | SK_ar | SK_ei | SK_er | SK_pi | SK_pr} = prf+ (SKEYSEED, Ni | Nr | SPIi | SPIr)
          "The lengths of SK_d, SK_pi, and SK_pr MUST be the preferred key length of the PRF agreed upon."
    2.17  KEYMAT = prf+(SK_d, Ni | Nr)        or, with a new Diffie-Hellman exchange,
          KEYMAT = prf+(SK_d, g^ir (new) | Ni | Nr)
          "All keys for SAs carrying data from the initiator to the responder are taken before SAs going from the
          responder to the initiator."  "If a single protocol has both encryption and authentication keys, the
          encryption key is taken from the first octets of KEYMAT and the authentication key is taken from the
          next octets."
    2.18  SKEYSEED = prf(SK_d (old), g^ir (new) | Ni | Nr)
          "SK_d, SK_ai, ... are computed from SKEYSEED as specified in Section 2.14, using SPIi, SPIr, Ni, and Nr
          from the new exchange". *)
From Coq Require Import List NArith Arith.
From VLib Require Import Bytes.
Import ListNotations.

Section Rfc7296.
  Variable prf : bytes -> bytes -> bytes.

  (** T n, n >= 1 (T 0 is the empty string) *)
  Fixpoint T (K S : bytes) (n : nat) : bytes :=
    match n with
    | O => []
    | S m =>
        match m with
        | O => prf K (S ++ [1%N])
        | S _ => prf K (T K S m ++ S ++ [N.of_nat n])
        end
    end.

  (** T1 | T2 | ... | T255: everything prf+ is defined to produce *)
  Definition prfplus_stream (K S : bytes) : bytes := concat (map (T K S) (seq 1 255)).

  (** the first [n] octets of prf+ (K, S); meaningful for n <= 255 * (prf output size) *)
  Definition rfc_prfplus (K S : bytes) (n : nat) : bytes := firstn n (prfplus_stream K S).

  (** [len] octets starting at offset [off] of an octet string *)
  Definition octets (s : bytes) (off len : nat) : bytes := firstn len (skipn off s).

  Definition SKEYSEED (Ni Nr g_ir : bytes) : bytes := prf (Ni ++ Nr) g_ir.

  Definition SKEYSEED_rekey (SK_d_old g_ir_new Ni Nr : bytes) : bytes := prf SK_d_old (g_ir_new ++ Ni ++ Nr).

  Record ike_sa_keys := { SK_d : bytes; SK_ai : bytes; SK_ar : bytes; SK_ei : bytes; SK_er : bytes;
                          SK_pi : bytes; SK_pr : bytes }.

  (** the seven keys cut out of prf+ (SKEYSEED, Ni | Nr | SPIi | SPIr) for key lengths (in octets) of the
      negotiated PRF, integrity algorithm and cipher *)
  Definition ike_sa_keys_of (skeyseed Ni Nr SPIi SPIr : bytes) (prf_len integ_len encr_len : nat) : ike_sa_keys :=
    let s := prfplus_stream skeyseed (Ni ++ Nr ++ SPIi ++ SPIr) in
    {| SK_d  := octets s 0 prf_len;
       SK_ai := octets s prf_len integ_len;
       SK_ar := octets s (prf_len + integ_len) integ_len;
       SK_ei := octets s (prf_len + 2 * integ_len) encr_len;
       SK_er := octets s (prf_len + 2 * integ_len + encr_len) encr_len;
       SK_pi := octets s (prf_len + 2 * integ_len + 2 * encr_len) prf_len;
       SK_pr := octets s (2 * prf_len + 2 * integ_len + 2 * encr_len) prf_len |}.

  Definition ike_sa_keys_initial (Ni Nr SPIi SPIr g_ir : bytes) (prf_len integ_len encr_len : nat) :=
    ike_sa_keys_of (SKEYSEED Ni Nr g_ir) Ni Nr SPIi SPIr prf_len integ_len encr_len.

  Definition ike_sa_keys_rekey (SK_d_old Ni Nr SPIi SPIr g_ir_new : bytes) (prf_len integ_len encr_len : nat) :=
    ike_sa_keys_of (SKEYSEED_rekey SK_d_old g_ir_new Ni Nr) Ni Nr SPIi SPIr prf_len integ_len encr_len.

  (** CHILD_SA keys: initiator-to-responder SA first; within an SA the encryption key, then the integrity key.
      For AH [encr_len] is 0. *)
  Record child_sa_keys := { K_ei : bytes; K_ai : bytes; K_er : bytes; K_ar : bytes }.

  Definition child_sa_keys_of (SK_d seed : bytes) (encr_len integ_len : nat) : child_sa_keys :=
    let keymat := prfplus_stream SK_d seed in
    {| K_ei := octets keymat 0 encr_len;
       K_ai := octets keymat encr_len integ_len;
       K_er := octets keymat (encr_len + integ_len) encr_len;
       K_ar := octets keymat (2 * encr_len + integ_len) integ_len |}.

  Definition child_sa_keys_nopfs (SK_d Ni Nr : bytes) := child_sa_keys_of SK_d (Ni ++ Nr).
  Definition child_sa_keys_pfs (SK_d g_ir_new Ni Nr : bytes) := child_sa_keys_of SK_d (g_ir_new ++ Ni ++ Nr).
End Rfc7296.
