(** C19 property theorems (nothing else lives here). *)
From Coq Require Import List ZArith.
From Config Require Import PyVal ConfigTypes Gen.ConfigTables ConfigModel ConfigSpec.

Theorem C19_placeholder : True.
Proof. exact I. Qed.
Print Assumptions C19_placeholder.
