(** C19 property theorems (nothing else lives here). *)
From Coq Require Import List ZArith.
From Config Require Import PyVal ConfigTypes Gen.ConfigTables ConfigModel ConfigSpec ConfigProofs.

(** For ALL dictionaries of Python values (None, bool, int, str, list, dict at any depth and position), all
    listening address lists and every oracle environment whose library functions raise only
    ValueError / TypeError / AttributeError / KeyError (getaddrinfo also socket.gaierror, the PEM loaders also
    cryptography's UnsupportedAlgorithm): Configuration()
    returns or raises ConfigurationError - no other exception class escapes. *)
Theorem C19_clean : forall E addrs d, env_ok E ->
  (exists c, load E addrs d = Ok c) \/ load E addrs d = Raise ConfigurationError.
Proof. intros E addrs d HE. exact (load_clean E HE addrs d). Qed.
Print Assumptions C19_clean.

(** What is loaded is the documented reading of the dictionary. *)
Theorem C19_faithful : forall E addrs d c, load E addrs d = Ok c -> c = spec E d.
Proof. exact load_faithful. Qed.
Print Assumptions C19_faithful.

(** Every loaded connection is keyed by (my_addr, peer_addr) and its my_addr is a listening address. *)
Theorem C19_my_addr : forall E addrs d c, load E addrs d = Ok c ->
  Forall (fun kv => In (i_my_addr (snd kv)) addrs /\ fst kv = (i_my_addr (snd kv), i_peer_addr (snd kv))) c.
Proof. exact load_my_addr. Qed.
Print Assumptions C19_my_addr.

(** The name tables, defaults and rules regenerated from configuration.py are the documented names, IANA
    numbers, defaults, transform order (NO_ESN last), AH rule. *)
Theorem C19_tables : tables_statement /\ defaults_statement /\ rules_statement /\ keys_statement.
Proof. exact (conj tables_ok (conj defaults_ok (conj rules_ok keys_ok))). Qed.
Print Assumptions C19_tables.
