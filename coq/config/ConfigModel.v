(** Executable model of configuration.py (Configuration.__init__ and the _load_* helpers), statement by
    statement, in evaluation order (which decides which exception wins).  Tables, defaults, transform order,
    the AH rule and the except clauses come from Gen/ConfigTables.v (regenerated from the source).
    No proofs here. *)
From Coq Require Import List String Ascii ZArith NArith Bool.
From VLib Require Import Bytes.
From Config Require Import PyVal ConfigTypes Gen.ConfigTables.
Import ListNotations.
Open Scope string_scope.
Open Scope Z_scope.

Section Loader.
Variable E : env.

(** Configuration._load_from_dict(key, cnf_dict):  try: return cnf_dict[key]  except KeyError: raise CE *)
Definition table_getitem {A} (key : pv) (t : list (string * A)) : res A :=
  match key with
  | PList _ | PDict _ => Raise TypeError        (* unhashable type *)
  | PStr s => match table_get s t with Some v => Ok v | None => Raise KeyError end
  | PNone | PBool _ | PInt _ => Raise KeyError  (* hashable, equal to no text key *)
  end.

Definition load_from_dict {A} (key : pv) (t : list (string * A)) : res A :=
  except_raise (table_getitem key t) from_dict_caught ConfigurationError.

(** self._load_from_dict(str(x), name_to_transform) *)
Definition load_alg (t : list (string * transform)) (x : pv) : res transform :=
  match py_str_atom x with
  | Some s => load_from_dict (PStr s) t
  | None => except_raise (Raise KeyError) from_dict_caught ConfigurationError
      (* str(list) / str(dict) begins with '[' / '{': never a key *)
  end.

Fixpoint load_alg_list (t : list (string * transform)) (l : list pv) : res (list transform) :=
  match l with
  | [] => Ok []
  | x :: r => do tr <- load_alg t x; do rest <- load_alg_list t r; Ok (tr :: rest)
  end.

(** Configuration._load_crypto_algs(key, names, name_to_transform) *)
Definition load_crypto_algs (names : pv) (t : list (string * transform)) : res (list transform) :=
  match names with
  | PList l => load_alg_list t l
  | _ => Raise ConfigurationError            (* type(names) is not list *)
  end.

(** Configuration._load_ip_network(value) *)
Definition load_ip_network (v : pv) : res network :=
  except_raise (o_ip_network E v) ip_network_caught ConfigurationError.

(** ip_network(<address object>): the single-address network *)
Definition network_of_address (a : address) : network :=
  {| n_version := fst a; n_first := snd a; n_last := snd a |}.

(** Configuration._load_ip_address(hostname) *)
Definition load_ip_address (hostname : pv) : res address :=
  except_raise
    (do txt <- o_getaddrinfo E hostname;
     do addr <- o_ip_address E (PStr txt);
     Ok addr                                  (* ip_address(<address object>) is that address *))
    ip_address_caught ConfigurationError.

(** addr.packed *)
Definition string_of_bytes (l : list N) : string := string_of_list_ascii (map ascii_of_N l).
Definition packed (a : address) : string :=
  string_of_bytes (be_encode (if Z.eqb (fst a) 4 then 4%nat else 16%nat) (Z.to_N (snd a))).

(** Configuration._get_payload_id(value): the part after the try block *)
Definition payload_id_text (value : pv) : res ident :=
  do ty <- match value with
           | PStr s => Ok (if contains_char "@" s then ID_RFC822_ADDR else ID_FQDN)
           | PList _ | PDict _ => Ok ID_FQDN  (* membership test works; both branches then fail at .encode() *)
           | PNone | PBool _ | PInt _ => Raise TypeError   (* argument of type ... is not iterable *)
           end;
  do data <- py_encode value;
  Ok {| id_type := ty; id_data := data |}.

(** Configuration._get_payload_id(value) *)
Definition get_payload_id (value : pv) : res ident :=
  except_pass
    (do addr <- o_ip_address E value;
     Ok {| id_type := if Z.eqb (fst addr) 4 then ID_IPV4_ADDR else ID_IPV6_ADDR; id_data := packed addr |})
    payload_id_caught
    (payload_id_text value).

(** `<loader>(conf_dict.get(k).encode()) if k in conf_dict else None` (k in conf_dict on a dict) *)
Definition load_opt_key (d : pv) (k : string) (loader : string -> res Z) : res (option Z) :=
  do o <- py_get d k;
  match o with
  | None => Ok None
  | Some v => do pem <- py_encode v; do key <- loader pem; Ok (Some key)
  end.

(** Configuration._load_auth_conf(conf_dict) *)
Definition load_auth_conf (d : pv) : res authconf :=
  do id_opt <- py_get d "id";
  let id_text := with_default id_opt default_auth_id in
  do psk <- (do o <- py_get d "psk";
             match o with None => Ok None | Some v => do b <- py_encode v; Ok (Some b) end);
  do idp <- get_payload_id id_text;
  do pub <- load_opt_key d "pubkey" (o_pubkey E);
  do priv <- load_opt_key d "privkey" (o_privkey E);
  Ok {| a_psk := psk; a_id := idp; a_privkey := priv; a_pubkey := pub |}.

(** Proposal(num, protocol, b'', transforms): refuses an empty list *)
Definition make_proposal (num proto : Z) (trs : list transform) : res proposal :=
  match trs with
  | [] => Raise InvalidSyntax
  | _ => Ok {| p_num := num; p_protocol := proto; p_transforms := trs |}
  end.

Definition pick (encr integ prf dh : list transform) (k : algkind) : list transform :=
  match k with K_encr => encr | K_integ => integ | K_prf => prf | K_dh => dh | K_no_esn => no_esn_transforms end.

Definition cleared (k : algkind) (proto : Z) (l : list transform) : list transform :=
  if Z.eqb proto ah_protocol && existsb (algkind_eqb k) ah_cleared then [] else l.

(** TrafficSelector.from_network(subnet, port, ip_proto) *)
Definition from_network (n : network) (port proto : Z) : tsel :=
  {| ts_type := if Z.eqb (n_version n) 6 then TS_IPV6_ADDR_RANGE else TS_IPV4_ADDR_RANGE;
     ts_proto := proto; ts_start_port := port; ts_end_port := from_network_end_port port;
     ts_start_addr := (n_version n, n_first n); ts_end_addr := (n_version n, n_last n) |}.

Definition get_int (d : pv) (k : string) (default : pv) : res Z :=
  do o <- py_get d k; py_int (o_int_nonascii E) (with_default o default).

(** Configuration._load_ipsec_conf(ikeconf, conf_dict); [k] = number of random.randint calls made so far *)
Definition load_ipsec_conf (my_addr peer_addr : address) (k : nat) (d : pv) : res ipsecconf :=
  do o <- py_get d "ipsec_proto";
  do ipsec_proto <- load_from_dict (with_default o default_child_ipsec_proto) ipsec_proto_table;
  do o <- py_get d "encr"; do encr <- load_crypto_algs (with_default o default_child_encr) encr_table;
  do o <- py_get d "integ"; do integ <- load_crypto_algs (with_default o default_child_integ) integ_table;
  do o <- py_get d "dh"; do dh <- load_crypto_algs (with_default o default_child_dh) dh_table;
  let encr := cleared K_encr ipsec_proto encr in
  let integ := cleared K_integ ipsec_proto integ in
  let dh := cleared K_dh ipsec_proto dh in
  do o <- py_get d "ip_proto";
  do ip_proto <- load_from_dict (with_default o default_child_ip_proto) ip_proto_table;
  do o <- py_get d "my_subnet";
  do my_subnet <- match o with Some v => load_ip_network v | None => Ok (network_of_address my_addr) end;
  do my_port <- get_int d "my_port" default_child_my_port;
  do o <- py_get d "peer_subnet";
  do peer_subnet <- match o with Some v => load_ip_network v | None => Ok (network_of_address peer_addr) end;
  do peer_port <- get_int d "peer_port" default_child_peer_port;
  (* the default random.randint(...) is evaluated (drawn) whether or not the key is present *)
  do o <- py_get d "index";
  do index <- match o with Some v => py_int (o_int_nonascii E) v | None => Ok (o_randint E k) end;
  do lifetime <- get_int d "lifetime" default_child_lifetime;
  do o <- py_get d "mode";
  do mode <- load_from_dict (with_default o default_child_mode) mode_table;
  do prop <- make_proposal child_proposal_num ipsec_proto
               (flat_map (pick encr integ [] dh) child_transform_order);
  Ok {| c_my_ts := from_network my_subnet my_port ip_proto; c_index := index;
        c_peer_ts := from_network peer_subnet peer_port ip_proto; c_lifetime := lifetime; c_mode := mode;
        c_proposal := prop |}.

Fixpoint load_protect (my_addr peer_addr : address) (k : nat) (l : list pv) : res (list ipsecconf) :=
  match l with
  | [] => Ok []
  | d :: r =>
      do c <- load_ipsec_conf my_addr peer_addr k d;
      do rest <- load_protect my_addr peer_addr (S k) r;
      Ok (c :: rest)
  end.

(** Configuration._load_ike_conf(name, conf_dict, my_addresses) *)
Definition load_ike_conf (addrs : list address) (k : nat) (name d : pv) : res ikeconf :=
  do o <- py_get d "encr"; do encr <- load_crypto_algs (with_default o default_ike_encr) encr_table;
  do o <- py_get d "integ"; do integ <- load_crypto_algs (with_default o default_ike_integ) integ_table;
  do o <- py_get d "prf"; do prf <- load_crypto_algs (with_default o default_ike_prf) prf_table;
  do o <- py_get d "dh"; do dh <- load_crypto_algs (with_default o default_ike_dh) dh_table;
  do v <- py_getitem d "my_addr"; do my_addr <- load_ip_address v;
  do v <- py_getitem d "peer_addr"; do peer_addr <- load_ip_address v;
  do v <- py_getitem d "my_auth"; do my_auth <- load_auth_conf v;
  do v <- py_getitem d "peer_auth"; do peer_auth <- load_auth_conf v;
  do lifetime <- get_int d "lifetime" default_ike_lifetime;
  do dpd <- get_int d "dpd" default_ike_dpd;
  do prop <- make_proposal ike_proposal_num ike_protocol (flat_map (pick encr integ prf dh) ike_transform_order);
  if negb (existsb (addr_eqb my_addr) addrs) then Raise ConfigurationError   (* my_addr not in my_addresses *)
  else
    do v <- py_getitem d "protect";
    do entries <- py_iter v;
    do protect <- load_protect my_addr peer_addr k entries;
    Ok {| i_name := name; i_my_addr := my_addr; i_peer_addr := peer_addr; i_my_auth := my_auth;
          i_peer_auth := peer_auth; i_lifetime := lifetime; i_dpd := dpd; i_proposal := prop;
          i_protect := protect |}.

(** the except clauses of Configuration.__init__: the first clause naming the class wins; all raise CE *)
Definition init_except {A} (m : res A) : res A :=
  match m with
  | Ok a => Ok a
  | Raise e => if existsb (exc_in e) init_handlers then Raise ConfigurationError else Raise e
  end.

Fixpoint load_connections (addrs : list address) (k : nat) (acc : config) (items : list (pv * pv)) : res config :=
  match items with
  | [] => Ok acc
  | (name, d) :: r =>
      do ic <- init_except (load_ike_conf addrs k name d);
      load_connections addrs (k + List.length (i_protect ic)) (dict_set acc (i_my_addr ic, i_peer_addr ic) ic) r
  end.

(** Configuration(my_addresses, conf_dict) *)
Definition load (addrs : list address) (d : pv) : res config :=
  match d with
  | PDict items => load_connections addrs 0 [] items
  | _ => Raise ConfigurationError            (* not isinstance(conf_dict, dict) *)
  end.

End Loader.
