(** Python values as a YAML loader produces them, Python exceptions as a result monad, and the
    dynamic primitives configuration.py applies to such values (.get, [], in, iteration, str(), int(),
    .encode()), each with the exception class CPython raises on the wrong type.

    Excluded from [pv] (and therefore from the quantifier of the C19 theorems): YAML floats, timestamps,
    !!binary, sets and tuples.  A Python [str] is represented by its UTF-8 encoding (a Coq [string] of
    bytes); this is exact for every operation the loader applies to text ('@' in s, s.encode(), str(s),
    table lookup by equality) provided the text contains no lone surrogate (yaml.load never produces one). *)
From Coq Require Import List String Ascii ZArith NArith Bool DecimalString DecimalZ.
Import ListNotations.
Open Scope string_scope.

Inductive pv : Type :=
| PNone : pv
| PBool : bool -> pv
| PInt  : Z -> pv
| PStr  : string -> pv
| PList : list pv -> pv
| PDict : list (pv * pv) -> pv.

(** Structural equality (used to key the oracle environment; it is NOT Python's [==]: 1 and True differ). *)
Fixpoint pv_eqb (a b : pv) {struct a} : bool :=
  match a, b with
  | PNone, PNone => true
  | PBool x, PBool y => Bool.eqb x y
  | PInt x, PInt y => Z.eqb x y
  | PStr x, PStr y => String.eqb x y
  | PList xs, PList ys =>
      (fix go (xs ys : list pv) {struct xs} : bool :=
         match xs, ys with
         | [], [] => true
         | x :: xs', y :: ys' => pv_eqb x y && go xs' ys'
         | _, _ => false
         end) xs ys
  | PDict xs, PDict ys =>
      (fix go (xs ys : list (pv * pv)) {struct xs} : bool :=
         match xs, ys with
         | [], [] => true
         | (k, v) :: xs', (k', v') :: ys' => pv_eqb k k' && pv_eqb v v' && go xs' ys'
         | _, _ => false
         end) xs ys
  | _, _ => false
  end.

(** Exception classes (leaves of the hierarchy that matter here).  [GaiError] is socket.gaierror,
    [InvalidSyntax] is message.InvalidSyntax (<: IkeSaError <: Exception), [UnsupportedAlgorithm] is
    cryptography.exceptions.UnsupportedAlgorithm (<: Exception), [OtherError] any other class. *)
Inductive exc : Type :=
| ConfigurationError | KeyError | AttributeError | TypeError | ValueError | GaiError | InvalidSyntax
| UnsupportedAlgorithm | OtherError.

Definition exc_eqb (a b : exc) : bool :=
  match a, b with
  | ConfigurationError, ConfigurationError | KeyError, KeyError | AttributeError, AttributeError
  | TypeError, TypeError | ValueError, ValueError | GaiError, GaiError | InvalidSyntax, InvalidSyntax
  | UnsupportedAlgorithm, UnsupportedAlgorithm | OtherError, OtherError => true
  | _, _ => false
  end.

Definition exc_in (e : exc) (l : list exc) : bool := existsb (exc_eqb e) l.

Inductive res (A : Type) : Type :=
| Ok : A -> res A
| Raise : exc -> res A.
Arguments Ok {A} _.
Arguments Raise {A} _.

Definition bind {A B} (m : res A) (f : A -> res B) : res B :=
  match m with Ok a => f a | Raise e => Raise e end.

Notation "'do' x <- m ; f" := (bind m (fun x => f)) (at level 200, x pattern, m at level 100, f at level 200).

(** try: m except (classes): raise to   -- every handler of configuration.py re-raises one fixed class *)
Definition except_raise {A} (m : res A) (classes : list exc) (to : exc) : res A :=
  match m with
  | Ok a => Ok a
  | Raise e => if exc_in e classes then Raise to else Raise e
  end.

(** try: m except (classes): pass; <fallback>   (the shape of _get_payload_id) *)
Definition except_pass {A} (m : res A) (classes : list exc) (fallback : res A) : res A :=
  match m with
  | Ok a => Ok a
  | Raise e => if exc_in e classes then fallback else Raise e
  end.

(** d.get(k) / d[k] / k in d  for a text key [k]: only a [str] key of the dictionary can be equal to it. *)
Fixpoint assoc_str (k : string) (kvs : list (pv * pv)) : option pv :=
  match kvs with
  | [] => None
  | (PStr k', v) :: r => if String.eqb k k' then Some v else assoc_str k r
  | _ :: r => assoc_str k r
  end.

(** conf_dict.get(k, default): the default is handled by the caller ([None] = key absent) because some
    defaults are not YAML values (an address object, a random draw). *)
Definition py_get (d : pv) (k : string) : res (option pv) :=
  match d with
  | PDict kvs => Ok (assoc_str k kvs)
  | _ => Raise AttributeError            (* None/bool/int/str/list have no attribute 'get' *)
  end.

Definition with_default (o : option pv) (d : pv) : pv := match o with Some v => v | None => d end.

Definition py_getitem (d : pv) (k : string) : res pv :=
  match d with
  | PDict kvs => match assoc_str k kvs with Some v => Ok v | None => Raise KeyError end
  | _ => Raise TypeError   (* list/str indices must be integers; None/int/bool are not subscriptable *)
  end.

(** for x in v *)
Definition py_iter (v : pv) : res (list pv) :=
  match v with
  | PList l => Ok l
  | PDict kvs => Ok (map fst kvs)
  | PStr s => Ok (map (fun c => PStr (String c EmptyString)) (list_ascii_of_string s))
      (* one element per character (per byte here: for non-ASCII text the count differs, every element is
         still a one-character str, which is all the loader can observe: it fails on the first one) *)
  | _ => Raise TypeError   (* 'NoneType' / 'int' / 'bool' object is not iterable *)
  end.

(** str(x) as far as a table lookup can observe it: [None] stands for the text of a list or dictionary,
    which begins with '[' or '{' and is never the key of a name table (checked: C19_tables). *)
Definition py_str_atom (x : pv) : option string :=
  match x with
  | PNone => Some "None"
  | PBool true => Some "True"
  | PBool false => Some "False"
  | PInt z => Some (NilZero.string_of_int (Z.to_int z))
  | PStr s => Some s
  | PList _ | PDict _ => None
  end.

(** v.encode() *)
Definition py_encode (v : pv) : res string :=
  match v with PStr s => Ok s | _ => Raise AttributeError end.

(** '@' in value *)
Fixpoint contains_char (c : ascii) (s : string) : bool :=
  match s with EmptyString => false | String a r => Ascii.eqb a c || contains_char c r end.

(** int(text) for ASCII text: [ws]* [+-]? digit ('_'? digit)* [ws]*, at most 4300 digits. *)
Definition is_ws (a : ascii) : bool := let n := N_of_ascii a in ((9 <=? n) && (n <=? 13) || (n =? 32))%N.
Definition digit_of (a : ascii) : option Z :=
  let n := N_of_ascii a in if ((48 <=? n) && (n <=? 57))%N then Some (Z.of_N (n - 48)) else None.

Fixpoint skip_ws (s : string) : string :=
  match s with String a r => if is_ws a then skip_ws r else s | EmptyString => s end.

Fixpoint all_ws (s : string) : bool :=
  match s with String a r => is_ws a && all_ws r | EmptyString => true end.

(** after at least one digit: acc = value so far, n = digits so far, us = previous char was '_' *)
Fixpoint int_digits (s : string) (acc : Z) (n : N) (us : bool) : option (Z * N) :=
  match s with
  | EmptyString => if us then None else Some (acc, n)
  | String a r =>
      match digit_of a with
      | Some d => int_digits r (acc * 10 + d)%Z (n + 1)%N false
      | None =>
          if Ascii.eqb a "_" then (if us then None else int_digits r acc n true)
          else if us then None
          else if all_ws s then Some (acc, n) else None
      end
  end.

Definition max_str_digits : N := 4300.

Definition int_of_ascii_text (s : string) : option Z :=
  let s1 := skip_ws s in
  let '(neg, s2) := match s1 with
                    | String "-" r => (true, r)
                    | String "+" r => (false, r)
                    | _ => (false, s1)
                    end in
  match s2 with
  | String a r =>
      match digit_of a with
      | Some d =>
          match int_digits r d 1%N false with
          | Some (v, n) => if (n <=? max_str_digits)%N then Some (if neg then (- v)%Z else v) else None
          | None => None
          end
      | None => None
      end
  | EmptyString => None
  end.

Fixpoint is_ascii_text (s : string) : bool :=
  match s with EmptyString => true | String a r => (N_of_ascii a <? 128)%N && is_ascii_text r end.

(** int(v).  [int_nonascii] is the oracle for text with non-ASCII characters (Unicode digits and spaces
    are accepted by CPython); [None] = ValueError. *)
Definition py_int (int_nonascii : string -> option Z) (v : pv) : res Z :=
  match v with
  | PInt z => Ok z
  | PBool b => Ok (if b then 1 else 0)%Z
  | PStr s =>
      match (if is_ascii_text s then int_of_ascii_text s else int_nonascii s) with
      | Some z => Ok z
      | None => Raise ValueError
      end
  | PNone | PList _ | PDict _ => Raise TypeError
  end.

(** lookup in a table keyed by text *)
Fixpoint table_get {A} (k : string) (t : list (string * A)) : option A :=
  match t with
  | [] => None
  | (k', v) :: r => if String.eqb k k' then Some v else table_get k r
  end.
