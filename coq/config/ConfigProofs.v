(** Proofs about the configuration loader model: regenerated tables = documented tables, clean rejection,
    faithful loading, my_addr is a listening address. *)
From Coq Require Import List String Ascii ZArith NArith Bool Lia.
From VLib Require Import Bytes.
From Config Require Import PyVal ConfigTypes Gen.ConfigTables ConfigModel ConfigSpec.
Import ListNotations.
Open Scope string_scope.
Open Scope Z_scope.

(** * The regenerated tables, defaults and rules are the documented ones *)

Definition tables_statement : Prop :=
  encr_table = doc_encr /\ integ_table = doc_integ /\ prf_table = doc_prf /\ dh_table = doc_dh /\
  ip_proto_table = doc_ip_proto /\ mode_table = doc_mode /\ ipsec_proto_table = doc_ipsec_proto.

Lemma tables_ok : tables_statement.
Proof. unfold tables_statement. repeat split; reflexivity. Qed.

Definition defaults_statement : Prop :=
  default_ike_encr = doc_ike_encr /\ default_ike_integ = doc_ike_integ /\ default_ike_prf = doc_ike_prf /\
  default_ike_dh = doc_ike_dh /\ default_ike_lifetime = doc_ike_lifetime /\ default_ike_dpd = doc_dpd /\
  default_auth_id = doc_default_id /\ default_child_ipsec_proto = PStr "esp" /\
  default_child_encr = doc_child_encr /\ default_child_integ = doc_child_integ /\ default_child_dh = doc_child_dh /\
  default_child_ip_proto = PStr "any" /\ default_child_my_port = PInt 0 /\ default_child_peer_port = PInt 0 /\
  default_child_lifetime = doc_child_lifetime /\ default_child_mode = PStr "tunnel".

Lemma defaults_ok : defaults_statement.
Proof. unfold defaults_statement. repeat split; reflexivity. Qed.

(** order of the transforms in the two proposals, NO_ESN last, no ENCR for AH, protocol and proposal numbers,
    identity and selector type numbers, the port rule *)
Definition rules_statement : Prop :=
  ike_transform_order = [K_encr; K_integ; K_prf; K_dh] /\
  child_transform_order = [K_encr; K_integ; K_dh; K_no_esn] /\
  no_esn_transforms = [NO_ESN] /\ ah_protocol = PROTO_AH /\ ah_cleared = [K_encr] /\
  ike_protocol = PROTO_IKE /\ ike_proposal_num = 1 /\ child_proposal_num = 1 /\
  (ID_IPV4_ADDR, ID_FQDN, ID_RFC822_ADDR, ID_IPV6_ADDR) = (1, 2, 3, 5) /\
  (TS_IPV4_ADDR_RANGE, TS_IPV6_ADDR_RANGE) = (7, 8) /\
  (forall port, from_network_end_port port = if Z.eqb port 0 then 65535 else port).

Lemma rules_ok : rules_statement.
Proof. unfold rules_statement. repeat split; reflexivity. Qed.

(** no table key begins with '[' or '{' (so str(list) / str(dict) is never a key: see PyVal.py_str_atom) *)
Definition plain_key {A} (kv : string * A) : bool :=
  match fst kv with
  | String c _ => negb (Ascii.eqb c "[") && negb (Ascii.eqb c "{")
  | EmptyString => true
  end.

Definition keys_statement : Prop :=
  forallb plain_key encr_table && forallb plain_key integ_table && forallb plain_key prf_table
  && forallb plain_key dh_table = true.

Lemma keys_ok : keys_statement.
Proof. reflexivity. Qed.

(** * Clean rejection *)

(** classes a library oracle may raise; the harness observes exactly these on every resolved value *)
Definition lib_exc (e : exc) : bool :=
  match e with ValueError | TypeError | AttributeError | KeyError => true | _ => false end.

Record env_ok (E : env) : Prop := {
  ok_getaddrinfo : forall v e, o_getaddrinfo E v = Raise e -> lib_exc e = true \/ e = GaiError;
  ok_ip_address : forall v e, o_ip_address E v = Raise e -> lib_exc e = true;
  ok_ip_network : forall v e, o_ip_network E v = Raise e -> lib_exc e = true;
  ok_pubkey : forall s e, o_pubkey E s = Raise e -> lib_exc e = true;
  ok_privkey : forall s e, o_privkey E s = Raise e -> lib_exc e = true
}.

(** classes that Configuration.__init__ turns into ConfigurationError (or that are ConfigurationError) *)
Definition safe (e : exc) : bool :=
  match e with GaiError | OtherError => false | _ => true end.

Definition raises_safe {A} (m : res A) : Prop := forall e, m = Raise e -> safe e = true.

Lemma rs_ok {A} (a : A) : raises_safe (Ok a).
Proof. intros e H; discriminate. Qed.

Lemma rs_raise {A} e : safe e = true -> raises_safe (@Raise A e).
Proof. intros Hs e' H; inversion H; subst; exact Hs. Qed.

Lemma rs_bind {A B} (m : res A) (f : A -> res B) :
  raises_safe m -> (forall a, raises_safe (f a)) -> raises_safe (bind m f).
Proof.
  intros Hm Hf e H. destruct m as [a|e0]; cbn in H.
  - exact (Hf a e H).
  - inversion H; subst. apply Hm; reflexivity.
Qed.

Lemma rs_except_raise {A} (m : res A) classes :
  (forall e, m = Raise e -> safe e = true \/ exc_in e classes = true) ->
  raises_safe (except_raise m classes ConfigurationError).
Proof.
  intros Hm e H. destruct m as [a|e0]; cbn in H; [discriminate|].
  destruct (Hm e0 eq_refl) as [Hs|Hc].
  - destruct (exc_in e0 classes); inversion H; subst; [reflexivity|exact Hs].
  - rewrite Hc in H. inversion H; reflexivity.
Qed.

Lemma lib_safe e : lib_exc e = true -> safe e = true.
Proof. destruct e; cbn; congruence. Qed.

Ltac rs_step :=
  match goal with
  | |- raises_safe (bind _ _) => apply rs_bind; [| intros ?]
  | |- raises_safe (Ok _) => apply rs_ok
  | |- raises_safe (Raise _) => apply rs_raise; reflexivity
  | |- raises_safe (match ?x with _ => _ end) => destruct x
  | |- raises_safe (let _ := _ in _) => cbv zeta
  end.

Lemma rs_py_get d k : raises_safe (py_get d k).
Proof. unfold py_get. repeat rs_step. Qed.
Lemma rs_py_getitem d k : raises_safe (py_getitem d k).
Proof. unfold py_getitem. repeat rs_step. Qed.
Lemma rs_py_iter v : raises_safe (py_iter v).
Proof. unfold py_iter. repeat rs_step. Qed.
Lemma rs_py_encode v : raises_safe (py_encode v).
Proof. unfold py_encode. repeat rs_step. Qed.
Lemma rs_py_int f v : raises_safe (py_int f v).
Proof. unfold py_int. repeat rs_step. Qed.

Lemma rs_load_from_dict {A} key (t : list (string * A)) : raises_safe (load_from_dict key t).
Proof.
  unfold load_from_dict. apply rs_except_raise. intros e H. left.
  unfold table_getitem in H. destruct key; try (inversion H; reflexivity).
  destruct (table_get s t); inversion H; reflexivity.
Qed.

Lemma rs_load_alg t x : raises_safe (load_alg t x).
Proof.
  unfold load_alg. destruct (py_str_atom x).
  - apply rs_load_from_dict.
  - apply rs_except_raise. intros e H. inversion H. left; reflexivity.
Qed.

Lemma rs_load_alg_list t l : raises_safe (load_alg_list t l).
Proof.
  induction l as [|x r IH]; cbn [load_alg_list]; [apply rs_ok|].
  apply rs_bind; [apply rs_load_alg|intros tr]. apply rs_bind; [exact IH|intros rest]. apply rs_ok.
Qed.

Lemma rs_load_crypto_algs names t : raises_safe (load_crypto_algs names t).
Proof. unfold load_crypto_algs. destruct names; try (apply rs_raise; reflexivity). apply rs_load_alg_list. Qed.

Lemma rs_make_proposal n p trs : raises_safe (make_proposal n p trs).
Proof. unfold make_proposal. destruct trs; [apply rs_raise; reflexivity|apply rs_ok]. Qed.

Section WithEnv.
Variable E : env.
Hypothesis HE : env_ok E.

Lemma rs_load_ip_network v : raises_safe (load_ip_network E v).
Proof.
  unfold load_ip_network. apply rs_except_raise. intros e H. left. apply lib_safe.
  exact (ok_ip_network E HE v e H).
Qed.

Lemma rs_load_ip_address v : raises_safe (load_ip_address E v).
Proof.
  unfold load_ip_address. apply rs_except_raise. intros e H.
  destruct (o_getaddrinfo E v) as [txt|e0] eqn:Hg; cbn in H.
  - destruct (o_ip_address E (PStr txt)) as [a|e1] eqn:Ha; cbn in H; [discriminate|].
    inversion H; subst. left. apply lib_safe. exact (ok_ip_address E HE _ _ Ha).
  - inversion H; subst. destruct (ok_getaddrinfo E HE _ _ Hg) as [Hl|Hgai].
    + left. apply lib_safe; exact Hl.
    + right. subst. reflexivity.
Qed.

Lemma rs_get_payload_id v : raises_safe (get_payload_id E v).
Proof.
  unfold get_payload_id, except_pass. intros e H.
  destruct (o_ip_address E v) as [a|e0] eqn:Ha; cbn in H; [discriminate|].
  destruct (exc_in e0 payload_id_caught).
  - revert e H. change (raises_safe
      (do ty <- match v with
                | PStr s => Ok (if contains_char "@" s then ID_RFC822_ADDR else ID_FQDN)
                | PList _ | PDict _ => Ok ID_FQDN
                | PNone | PBool _ | PInt _ => Raise TypeError
                end;
       do data <- py_encode v; Ok {| id_type := ty; id_data := data |})).
    apply rs_bind; [destruct v; try apply rs_ok; apply rs_raise; reflexivity|intros ty].
    apply rs_bind; [apply rs_py_encode|intros; apply rs_ok].
  - inversion H; subst. apply lib_safe. exact (ok_ip_address E HE _ _ Ha).
Qed.

Lemma rs_load_opt_key d k loader :
  (forall s e, loader s = Raise e -> lib_exc e = true) -> raises_safe (load_opt_key d k loader).
Proof.
  intros Hl. unfold load_opt_key. apply rs_bind; [apply rs_py_get|intros o]. destruct o; [|apply rs_ok].
  apply rs_bind; [apply rs_py_encode|intros pem]. apply rs_bind; [|intros; apply rs_ok].
  intros e H. apply lib_safe. exact (Hl _ _ H).
Qed.

Lemma rs_load_auth_conf d : raises_safe (load_auth_conf E d).
Proof.
  unfold load_auth_conf.
  apply rs_bind; [apply rs_py_get|intros o]. cbv zeta.
  apply rs_bind.
  { apply rs_bind; [apply rs_py_get|intros o2]. destruct o2; [|apply rs_ok].
    apply rs_bind; [apply rs_py_encode|intros; apply rs_ok]. }
  intros psk. apply rs_bind; [apply rs_get_payload_id|intros idp].
  apply rs_bind; [apply rs_load_opt_key; exact (ok_pubkey E HE)|intros pub].
  apply rs_bind; [apply rs_load_opt_key; exact (ok_privkey E HE)|intros priv]. apply rs_ok.
Qed.

Lemma rs_get_int d k dflt : raises_safe (get_int E d k dflt).
Proof. unfold get_int. apply rs_bind; [apply rs_py_get|intros; apply rs_py_int]. Qed.

Lemma rs_load_ipsec_conf my peer k d : raises_safe (load_ipsec_conf E my peer k d).
Proof.
  unfold load_ipsec_conf.
  repeat first
    [ apply rs_ok
    | apply rs_py_get | apply rs_load_from_dict | apply rs_load_crypto_algs | apply rs_get_int
    | apply rs_load_ip_network | apply rs_py_int | apply rs_make_proposal
    | progress cbv zeta
    | apply rs_bind; [|intros ?]
    | match goal with |- raises_safe (match ?x with _ => _ end) => destruct x end ].
Qed.

Lemma rs_load_protect my peer k l : raises_safe (load_protect E my peer k l).
Proof.
  revert k. induction l as [|d r IH]; intros k; cbn [load_protect]; [apply rs_ok|].
  apply rs_bind; [apply rs_load_ipsec_conf|intros c]. apply rs_bind; [apply IH|intros; apply rs_ok].
Qed.

Lemma rs_load_ike_conf addrs k name d : raises_safe (load_ike_conf E addrs k name d).
Proof.
  unfold load_ike_conf.
  repeat first
    [ apply rs_ok
    | apply rs_raise; reflexivity
    | apply rs_py_get | apply rs_py_getitem | apply rs_load_crypto_algs | apply rs_get_int
    | apply rs_load_ip_address | apply rs_load_auth_conf | apply rs_make_proposal | apply rs_py_iter
    | apply rs_load_protect
    | apply rs_bind; [|intros ?]
    | match goal with |- raises_safe (if ?x then _ else _) => destruct x end ].
Qed.

(** every class the loader can raise is turned into ConfigurationError by the except clauses of __init__
    (this is where the regenerated clause list is used: without `except InvalidSyntax` it fails) *)
Lemma init_except_maps e : safe e = true -> @init_except ikeconf (Raise e) = Raise ConfigurationError.
Proof. destruct e; cbn; intros H; try discriminate; reflexivity. Qed.

Lemma init_except_clean addrs k name d :
  (exists ic, init_except (load_ike_conf E addrs k name d) = Ok ic) \/
  init_except (load_ike_conf E addrs k name d) = Raise ConfigurationError.
Proof.
  destruct (load_ike_conf E addrs k name d) as [ic|e] eqn:H.
  - left; exists ic; reflexivity.
  - right. apply init_except_maps. exact (rs_load_ike_conf addrs k name d e H).
Qed.

Lemma load_connections_clean addrs items : forall k acc,
  (exists c, load_connections E addrs k acc items = Ok c) \/
  load_connections E addrs k acc items = Raise ConfigurationError.
Proof.
  induction items as [|[name d] r IH]; intros k acc; cbn [load_connections].
  - left; eexists; reflexivity.
  - destruct (init_except_clean addrs k name d) as [[ic Hic]|Hr]; rewrite ?Hic, ?Hr; cbn [bind].
    + apply IH.
    + right; reflexivity.
Qed.

Lemma load_clean addrs d :
  (exists c, load E addrs d = Ok c) \/ load E addrs d = Raise ConfigurationError.
Proof.
  destruct d; cbn [load]; try (right; reflexivity). apply load_connections_clean.
Qed.

End WithEnv.
